/-
Model of symengine/dense_matrix.cpp (DenseMatrix over exact numbers).

A `DenseMatrix` is `(row_, col_, m_)` with the row-major storage `m_[i*col_ + j]`.
Every `m_[k]` of the C++ is a checked access here: an index outside the vector is
`Err.oob` (undefined behaviour in the C++), a failed `SYMENGINE_ASSERT` is `Err.assert`,
a thrown `SymEngineException` is `Err.runtime`.

Entries.  The harness only feeds `Integer`/`Rational` entries, for which the library's
`add/sub/mul/div/pow` are exact rational operations, except that `div` by zero does not
throw: it yields `zoo` (ComplexInf) or `nan`, which then propagate.  The entry type `X`
therefore is `fin q | zoo | nan | unk`; the tables below are the library's (probed) tables.
`unk` marks a value the model declines to predict: the two combinations whose present result
is a known defect of `Infty`/`div` (`zoo + nan = zoo`, `nan / 0 = zoo`; property C06), and
irrational square roots (symbolic `Pow` objects).  `unk` is absorbing and the driver prints
`SKIP` for any result containing it.

`unsigned` arithmetic is modelled on `Nat`.  The places where the C++ computes `n - 1` on an
unsigned `n = 0` are modelled explicitly (`usub1`).

Code as modelled = /repo plus the two small repairs proposed in docs/C24.md:
  * pivoted_gaussian_elimination / pivoted_fraction_free_gaussian_elimination eliminate with
    the pivot row `index` (the original used the column counter `i` as a row number);
  * fraction_free_gauss_jordan_solve throws "Matrix is rank deficient" instead of asserting.
The original elimination step is kept as `pgeOrig`/`pffgeOrig` so that the defect can be stated.

Core Lean only: this file is linked into the native driver.
-/
namespace SymVerif.Dense

inductive Err where
  | oob        -- index outside a vector: undefined behaviour in the C++
  | assert     -- SYMENGINE_ASSERT failed
  | runtime    -- SymEngineException thrown
  | unmodelled -- outside the modelled fragment (never compared)
  deriving Repr, DecidableEq

abbrev M := Except Err

/-- entries: exact rationals plus the two non-finite numbers a division by zero creates -/
inductive X where
  | fin (q : Rat)
  | zoo
  | nan
  | unk
  deriving Repr, DecidableEq, Inhabited

namespace X

def zero : X := fin 0
def one : X := fin 1
def minusOne : X := fin (-1)

/-- `add(a, b)` on numbers -/
def add : X → X → X
  | fin a, fin b => fin (a + b)
  | unk, _ => unk
  | _, unk => unk
  | zoo, nan => unk          -- Infty::add ignores NaN (library answers zoo): not predicted
  | nan, _ => nan
  | _, nan => nan
  | zoo, zoo => nan
  | zoo, fin _ => zoo
  | fin _, zoo => zoo

/-- `mul(a, b)` on numbers -/
def mul : X → X → X
  | fin a, fin b => fin (a * b)
  | unk, _ => unk
  | _, unk => unk
  | nan, _ => nan
  | _, nan => nan
  | zoo, zoo => zoo
  | zoo, fin b => if b = 0 then nan else zoo
  | fin a, zoo => if a = 0 then nan else zoo

/-- `sub(a, b) = add(a, mul(minus_one, b))` -/
def sub (a b : X) : X := add a (mul minusOne b)

/-- `pow(b, minus_one)` -/
def inv : X → X
  | fin b => fin (1 / b)
  | zoo => fin 0
  | nan => nan
  | unk => unk

def isZero : X → Bool
  | fin q => q == 0
  | _ => false

/-- `div(a, b)`: `b == 0` gives `nan` (0/0) or `zoo`; otherwise `mul(a, pow(b, -1))` -/
def div (a b : X) : X :=
  match a, b with
  | fin a, fin b => if b = 0 then (if a = 0 then nan else zoo) else fin (a / b)
  | a, b =>
    if b.isZero then
      (match a with
       | zoo => zoo
       | _ => unk)             -- nan / 0 answers zoo in the library: not predicted
    else mul a (inv b)

/-- `pow(a, 2)` -/
def sq (a : X) : X := mul a a

def natSqrt? (n : Nat) : Option Nat :=
  let r := Nat.sqrt n
  if r * r = n then some r else none

/-- `pow(a, 1/2)`: exact for squares of rationals, symbolic (not modelled) otherwise -/
def sqrt : X → X
  | fin q =>
    if q.num < 0 then unk else
    match natSqrt? q.num.toNat, natSqrt? q.den with
    | some a, some b => fin (mkRat (Int.ofNat a) b)
    | _, _ => unk
  | zoo => zoo
  | nan => nan
  | unk => unk

def abs : X → X
  | fin q => fin (if q < 0 then -q else q)
  | x => x

def isFin : X → Bool
  | fin _ => true
  | _ => false

def toRat : X → Rat
  | fin q => q
  | _ => 0

end X

/-- `tribool` -/
inductive Tri where
  | f | t | u
  deriving Repr, DecidableEq

def Tri.and : Tri → Tri → Tri
  | .f, _ => .f
  | _, .f => .f
  | .t, .t => .t
  | _, _ => .u

def Tri.ofBool (b : Bool) : Tri := if b then .t else .f

/-- `is_zero(*e)` as a tribool -/
def X.isZeroTri : X → Tri
  | .fin q => Tri.ofBool (q == 0)
  | .unk => .u
  | _ => .f
def X.isPositiveTri : X → Tri
  | .fin q => Tri.ofBool (decide (0 < q))
  | _ => .u
def X.isNonnegTri : X → Tri
  | .fin q => Tri.ofBool (decide (0 ≤ q))
  | _ => .u
def X.isRealTri : X → Tri
  | .fin _ => .t
  | _ => .u

/-- `(row_, col_, m_)` -/
structure DM where
  row : Nat
  col : Nat
  m : Array X
  deriving Repr, DecidableEq

/-- `DenseMatrix(row, col)`: entries are null pointers until assigned (`unk`) -/
def DM.fresh (r c : Nat) : DM := { row := r, col := c, m := Array.replicate (r * c) X.unk }
def DM.wf (A : DM) : Prop := A.m.size = A.row * A.col
instance (A : DM) : Decidable A.wf := by unfold DM.wf; exact inferInstance

/-- `m_[k]` read -/
def rd (m : Array X) (k : Nat) : M X :=
  if h : k < m.size then pure m[k] else throw .oob
/-- `m_[k] = v` -/
def wr (m : Array X) (k : Nat) (v : X) : M (Array X) :=
  if h : k < m.size then pure (m.set k v h) else throw .oob
def req (b : Bool) : M Unit := if b then pure () else throw .assert

/-- `for (i = lo; i < lo + n; i++) s = body i s` -/
def forN {σ : Type} : Nat → Nat → (Nat → σ → M σ) → σ → M σ
  | 0, _, _, s => pure s
  | n + 1, i, body, s => do
    let s' ← body i s
    forN n (i + 1) body s'
/-- `for (i = lo; i < hi; i++)` -/
def forR {σ : Type} (lo hi : Nat) (body : Nat → σ → M σ) (s : σ) : M σ := forN (hi - lo) lo body s
/-- `for (i = hi; i-- > lo;)` : i = hi-1, …, lo -/
def forDown {σ : Type} : Nat → Nat → (Nat → σ → M σ) → σ → M σ
  | 0, _, _, s => pure s
  | n + 1, lo, body, s => do
    let s' ← body (lo + n) s
    forDown n lo body s'
/-- conjunction with early exit -/
def allN : Nat → Nat → (Nat → M Bool) → M Bool
  | 0, _, _ => pure true
  | n + 1, i, p => do
    if (← p i) then allN n (i + 1) p else pure false

/-- `n - 1` on `unsigned` -/
def usub1 (n : Nat) : Nat := if n = 0 then 4294967295 else n - 1

/-! ### structural operations -/

/-- add_dense_dense -/
def addDense (A B : DM) : M DM := do
  req (A.row == B.row && A.col == B.col)
  let C := DM.fresh A.row A.col
  let row := A.row; let col := A.col
  let m ← forN row 0 (fun i c => forN col 0 (fun j c => do
      wr c (i * col + j) (X.add (← rd A.m (i * col + j)) (← rd B.m (i * col + j)))) c) C.m
  pure { C with m := m }

/-- elementwise_mul_dense_dense -/
def emulDense (A B : DM) : M DM := do
  req (A.row == B.row && A.col == B.col)
  let C := DM.fresh A.row A.col
  let row := A.row; let col := A.col
  let m ← forN row 0 (fun i c => forN col 0 (fun j c => do
      wr c (i * col + j) (X.mul (← rd A.m (i * col + j)) (← rd B.m (i * col + j)))) c) C.m
  pure { C with m := m }

/-- add_dense_scalar -/
def addScalar (A : DM) (k : X) : M DM := do
  let row := A.row; let col := A.col
  let m ← forN row 0 (fun i c => forN col 0 (fun j c => do
      wr c (i * col + j) (X.add (← rd A.m (i * col + j)) k)) c) (DM.fresh row col).m
  pure { row := row, col := col, m := m }

/-- mul_dense_scalar, into a given output storage (it may alias `A.m`) -/
def mulScalarInto (A : DM) (k : X) (out : Array X) : M (Array X) := do
  let row := A.row; let col := A.col
  forN row 0 (fun i c => forN col 0 (fun j c => do
      -- reads go to the *current* storage when B aliases A; values at (i,j) are still the old ones
      wr c (i * col + j) (X.mul (← rd A.m (i * col + j)) k)) c) out
def mulScalar (A : DM) (k : X) : M DM := do
  let m ← mulScalarInto A k (DM.fresh A.row A.col).m
  pure { row := A.row, col := A.col, m := m }

/-- transpose_dense -/
def transposeDense (A : DM) : M DM := do
  let B := DM.fresh A.col A.row
  let m ← forN A.row 0 (fun i b => forN A.col 0 (fun j b => do
      wr b (j * B.col + i) (← rd A.m (i * A.col + j))) b) B.m
  pure { B with m := m }

/-- the inner `k` loop of mul_dense_dense for one `(r, c)` -/
def mulCell (A B : DM) (col r c : Nat) (cm : Array X) : M (Array X) := do
  let cm ← wr cm (r * col + c) X.zero
  forN A.col 0 (fun k cm => do
    wr cm (r * col + c) (X.add (← rd cm (r * col + c)) (X.mul (← rd A.m (r * A.col + k)) (← rd B.m (k * col + c))))) cm

/-- mul_dense_dense (C distinct from A and B) -/
def mulDense (A B : DM) : M DM := do
  req (A.col == B.row)
  let C := DM.fresh A.row B.col
  let row := A.row; let col := B.col
  let m ← forN row 0 (fun r cm => forN col 0 (fun c cm => mulCell A B col r c cm) cm) C.m
  pure { C with m := m }

/-- mul_dense_dense when the output is the same object as an operand (`&A == &C or &B == &C`):
    the product is computed into a temporary `tmp` and then assigned, so it equals the plain product.
    (add / elementwise mul / scalar ops with an aliased output read each entry before writing it.) -/
def mulDenseAliased (A B : DM) : M DM := do
  let tmp ← mulDense A B
  pure tmp

/-- `for (i = 0; i < n; i += step)` -/
def forStep {σ : Type} (n step : Nat) (body : Nat → σ → M σ) (s : σ) : M σ :=
  forN ((n + step - 1) / step) 0 (fun t s => body (t * step) s) s

/-- submatrix_dense; the output storage is the caller's (the harness pre-fills it with zeros) -/
def submatrixDense (A : DM) (r0 c0 r1 c1 rs cs : Nat) : M DM := do
  req (r1 ≥ r0 && c1 ≥ c0)
  req (r1 < A.row)
  req (c1 < A.col)
  if rs = 0 ∨ cs = 0 then throw .unmodelled   -- the C++ loops forever
  let row := r1 - r0 + 1; let col := c1 - c0 + 1
  let B : DM := { row := row, col := col, m := Array.replicate (row * col) X.zero }
  let m ← forStep row rs (fun i b => forStep col cs (fun j b => do
      wr b (i * col + j) (← rd A.m ((r0 + i) * A.col + c0 + j))) b) B.m
  pure { B with m := m }

/-- `resize(row, col)`: `m_.resize(row*col)`; new slots are null pointers -/
def DM.resize (A : DM) (r c : Nat) : DM :=
  let n := r * c
  { row := r, col := c,
    m := if n ≤ A.m.size then A.m.extract 0 n else A.m ++ Array.replicate (n - A.m.size) X.unk }

/-- DenseMatrix::row_insert -/
def rowInsert (A B : DM) (pos : Nat) : M DM := do
  req (A.col == B.col && pos ≤ A.row)
  let row := A.row; let col := A.col
  let T := A.resize (A.row + B.row) A.col
  let m ← forDown (row - pos) pos (fun i m => forDown col 0 (fun j m => do
      wr m ((i + B.row) * col + j) (← rd m (i * col + j))) m) T.m
  let m ← forN B.row 0 (fun i m => forN col 0 (fun j m => do
      wr m ((i + pos) * col + j) (← rd B.m (i * col + j))) m) m
  pure { T with m := m }

/-- DenseMatrix::col_insert -/
def colInsert (A B : DM) (pos : Nat) : M DM := do
  req (A.row == B.row && pos ≤ A.col)
  let row := A.row; let col := A.col
  let T := A.resize A.row (A.col + B.col)
  let m ← forDown row 0 (fun i m => forDown col 0 (fun j m => do
      if j ≥ pos then wr m (i * (col + B.col) + j + B.col) (← rd m (i * col + j))
      else wr m (i * (col + B.col) + j) (← rd m (i * col + j))) m) T.m
  let m ← forN row 0 (fun i m => forN B.col 0 (fun j m => do
      wr m (i * (col + B.col) + j + pos) (← rd B.m (i * B.col + j))) m) m
  pure { T with m := m }

def rowJoin (A B : DM) : M DM := colInsert A B A.col
def colJoin (A B : DM) : M DM := rowInsert A B A.row

/-- row_exchange_dense on the storage -/
def rowExchangeM (m : Array X) (row col i j : Nat) : M (Array X) := do
  req (i != j && i < row && j < row)
  forN col 0 (fun k m => do
    let a ← rd m (i * col + k)
    let b ← rd m (j * col + k)
    let m ← wr m (i * col + k) b
    wr m (j * col + k) a) m
def rowExchange (A : DM) (i j : Nat) : M DM := do
  pure { A with m := (← rowExchangeM A.m A.row A.col i j) }

/-- row_mul_scalar_dense -/
def rowMulScalarM (m : Array X) (row col i : Nat) (c : X) : M (Array X) := do
  req (i < row)
  forN col 0 (fun j m => do wr m (i * col + j) (X.mul c (← rd m (i * col + j)))) m
def rowMulScalar (A : DM) (i : Nat) (c : X) : M DM := do
  pure { A with m := (← rowMulScalarM A.m A.row A.col i c) }

/-- row_add_row_dense -/
def rowAddRowM (m : Array X) (row col i j : Nat) (c : X) : M (Array X) := do
  req (i != j && i < row && j < row)
  forN col 0 (fun k m => do
    wr m (i * col + k) (X.add (← rd m (i * col + k)) (X.mul c (← rd m (j * col + k))))) m
def rowAddRow (A : DM) (i j : Nat) (c : X) : M DM := do
  pure { A with m := (← rowAddRowM A.m A.row A.col i j c) }

/-- column_exchange_dense -/
def colExchange (A : DM) (i j : Nat) : M DM := do
  req (i != j && i < A.col && j < A.col)
  let col := A.col
  let m ← forN A.row 0 (fun k m => do
    let a ← rd m (k * col + i)
    let b ← rd m (k * col + j)
    let m ← wr m (k * col + i) b
    wr m (k * col + j) a) A.m
  pure { A with m := m }

/-- DenseMatrix::row_del -/
def rowDel (A : DM) (k : Nat) : M DM := do
  req (k < A.row)
  if A.row == 1 then pure (A.resize 0 0) else
  let m ← forR k (A.row - 1) (fun i m => rowExchangeM m A.row A.col i (i + 1)) A.m
  pure ({ A with m := m }.resize (A.row - 1) A.col)

/-- DenseMatrix::col_del -/
def colDel (A : DM) (k : Nat) : M DM := do
  req (k < A.col)
  if A.col == 1 then pure (A.resize 0 0) else
  let row := A.row; let col := A.col
  let (m, _) ← forN row 0 (fun i (s : Array X × Nat) => forN col 0 (fun j (s : Array X × Nat) => do
      if j != k then
        let m ← wr s.1 s.2 (← rd s.1 (i * col + j))
        pure (m, s.2 + 1)
      else pure s) s) (A.m, 0)
  pure ({ A with m := m }.resize A.row (A.col - 1))

/-- permuteFwd -/
def permuteFwd (m : Array X) (row col : Nat) : List (Nat × Nat) → M (Array X)
  | [] => pure m
  | (a, b) :: t => do
    let m ← rowExchangeM m row col a b
    permuteFwd m row col t

/-- DenseMatrix::trace : `add(diag)` -/
def trace (A : DM) : M X := do
  req (A.row == A.col)
  let (s, _) ← forN A.row 0 (fun _ (s : X × Nat) => do
      pure (X.add s.1 (← rd A.m s.2), s.2 + A.row + 1)) (X.zero, 0)
  pure s

/-- zeros / ones -/
def fill (r c : Nat) (v : X) : DM := { row := r, col := c, m := Array.replicate (r * c) v }

def rdL (v : Array X) (k : Nat) : M X := if h : k < v.size then pure v[k] else throw .oob

/-- diag(A, v, k) -/
def diagInto (A : DM) (v : Array X) (k : Int) : M DM := do
  req (v.size > 0)
  let k_ := k.natAbs
  if k ≥ 0 then
    let (m, _) ← forN A.row 0 (fun i (s : Array X × Nat) => do
      let m ← forN A.col 0 (fun j m => do
        if j != s.2 then wr m (i * A.col + j) X.zero else wr m (i * A.col + j) (← rdL v (s.2 - k_))) s.1
      pure (m, s.2 + 1)) (A.m, k_)
    pure { A with m := m }
  else
    let (m, _) ← forN A.col 0 (fun j (s : Array X × Nat) => do
      let m ← forN A.row 0 (fun i m => do
        if i != s.2 then wr m (i * A.col + j) X.zero else wr m (i * A.col + j) (← rdL v (s.2 - k_))) s.1
      pure (m, s.2 + 1)) (A.m, k_)
    pure { A with m := m }

/-- eye(A, k).  The C++ zero-fills when the diagonal misses the matrix but then falls through;
    when `A.col_ - k` / `A.row_ + k` wraps around it asks for a gigantic vector (not modelled). -/
def eyeInto (A : DM) (k : Int) : M DM := do
  if (k > 0 ∧ k.toNat > A.col) ∨ (k < 0 ∧ k.natAbs > A.row) then throw .unmodelled
  let zerosFirst := (k ≥ 0 ∧ k.toNat ≥ A.col) ∨ (k < 0 ∧ k.natAbs = A.row)
  let A := if zerosFirst then { A with m := Array.replicate A.m.size X.zero } else A
  let n := if k > 0 then A.col - k.toNat else A.row - k.natAbs
  diagInto A (Array.replicate n X.one) k

/-! ### predicates -/

/-- `A.get(i, j)` -/
def DM.get (A : DM) (i j : Nat) : M X := do
  req (i < A.row && j < A.col)
  rd A.m (i * A.col + j)

/-- DenseMatrix::is_lower : the part below the diagonal is zero -/
def isLower (A : DM) : M Bool :=
  let n := A.row
  allN (n - 1) 1 (fun i => allN i 0 (fun j => do pure (← A.get i j).isZero))

/-- DenseMatrix::is_upper : the part above the diagonal is zero -/
def isUpper (A : DM) : M Bool :=
  let n := A.row
  -- `i < n - 1` on unsigned; for n = 0 the 2^32-1 iterations have empty bodies
  allN (n - 1) 0 (fun i => allN (n - (i + 1)) (i + 1) (fun j => do pure (← A.get i j).isZero))

/-- accumulate a tribool with the `if (is_false(cur)) return cur` early exit; `none` = returned -/
def triStep (cur : Tri) (t : Tri) : Tri × Bool :=
  let c := Tri.and cur t
  (c, c == .f)

/-- generic "for k in range: cur &= test k; if false return" loop -/
def triAll : Nat → Nat → (Nat → M (Option Tri)) → Tri → M Tri
  | 0, _, _, cur => pure cur
  | n + 1, i, test, cur => do
    match (← test i) with
    | none => triAll n (i + 1) test cur
    | some t =>
      let c := Tri.and cur t
      if c == .f then pure .f else triAll n (i + 1) test c

def isZeroM (A : DM) : M Tri :=
  triAll A.m.size 0 (fun k => do pure (some (← rd A.m k).isZeroTri)) .t

def isDiagonal (A : DM) : M Tri := do
  if A.row != A.col then pure .f else
  let n := A.col
  triAll (n * n) 0 (fun k => do
    let i := k / n; let j := k % n
    if j != i then pure (some (← rd A.m (i * n + j)).isZeroTri) else pure none) .t

/-- is_symmetric / is_hermitian (entries are real numbers: conjugate is the identity) -/
def isSymLike (A : DM) (herm : Bool) : M Tri := do
  if A.row != A.col then pure .f else
  let n := A.col
  -- pairs (i, j), j ≤ i, in the C++ order; the early exit sits inside the j loop
  let rec go : Nat → Nat → Nat → Tri → M Tri
    | 0, _, _, cur => pure cur
    | f + 1, i, j, cur =>
      if i ≥ n then pure cur else do
      let cur ← (if j != i then do
                  let e ← rd A.m (i * n + j)
                  let e2 ← rd A.m (j * n + i)
                  pure (Tri.and cur (X.sub e e2).isZeroTri)
                else if herm then do
                  let e ← rd A.m (i * n + j)
                  pure (Tri.and cur e.isRealTri)
                else pure cur)
      if cur == .f then pure .f
      else if j < i then go f i (j + 1) cur else go f (i + 1) 0 cur
  go (n * n + n + 1) 0 0 .t

/-- is_symmetric_dense (bool; `break` leaves only the inner loop, the result stays false) -/
def isSymmetricDense (A : DM) : M Bool := do
  if A.col != A.row then pure false else
  let col := A.col
  forN col 0 (fun i sym => do
    let ok ← allN (col - (i + 1)) (i + 1) (fun j => do
      pure ((← rd A.m (j * col + i)) == (← rd A.m (i * col + j))))
    pure (sym && ok)) true

/-- is_weakly / is_strictly_diagonally_dominant -/
def isDiagDom (A : DM) (strict : Bool) : M Tri := do
  if A.row != A.col then pure .f else
  let n := A.col
  triAll n 0 (fun i => do
    let (diag, sum) ← forN n 0 (fun j (s : X × X) => do
      let e ← rd A.m (i * n + j)
      if i == j then pure (e.abs, s.2) else pure (s.1, X.add s.2 e.abs)) (X.unk, X.zero)
    let d := X.sub diag sum
    pure (some (if strict then d.isPositiveTri else d.isNonnegTri))) .t

/-- shortcut_to_posdef -/
def shortcutPosdef (A : DM) : M Tri := do
  let rec go : Nat → Nat → Tri → M Tri
    | 0, _, cur => pure cur
    | f + 1, off, cur => do
      let c := Tri.and cur (← rd A.m off).isPositiveTri
      if c == .f then pure .f else go f (off + A.row + 1) c
  let dp ← go A.row 0 .t
  if dp == .f then pure .f else
  let sdd ← isDiagDom A true
  if Tri.and dp sdd == .t then pure .t else pure .u

/-- is_positive_definite_GE (destroys its storage) -/
def posdefGE (A : DM) : M Tri := do
  let size := A.row
  let rec go : Nat → Nat → Array X → M Tri
    | 0, _, _ => pure .t
    | f + 1, i, m => do
      let p := (← rd m (i * size + i)).isPositiveTri
      if p != .t then pure p else
      let m ← forR (i + 1) size (fun j m => forR (i + 1) size (fun k m => do
        wr m (j * size + k) (X.sub (X.mul (← rd m (i * size + i)) (← rd m (j * size + k)))
                                    (X.mul (← rd m (j * size + i)) (← rd m (i * size + k))))) m) m
      go f (i + 1) m
  go size 0 A.m

/-- is_positive_definite -/
def isPosdef (A : DM) : M Tri := do
  let herm ← isSymLike A true
  if herm != .t && A.row != A.col then pure .f else
  let (H, haveB) ← (if herm != .t then do
      let t ← transposeDense A
      let B ← addDense A t
      pure (B, true)
    else pure (A, false))
  let sc ← shortcutPosdef H
  if sc != .u then pure sc else
  posdefGE (if haveB then H else A)

def isNegdef (A : DM) : M Tri := do
  let R ← mulScalar A X.minusOne
  isPosdef R

/-! ### Gaussian elimination -/

/-- pivot(B, r, c) -/
def pivot (m : Array X) (row col r c : Nat) : M Nat :=
  let rec go : Nat → Nat → M Nat
    | 0, _ => pure row
    | f + 1, k => do
      if !(← rd m (k * col + c)).isZero then pure k else go f (k + 1)
  go (row - r) r

/-- swap rows `k` and `index` when they differ, recording the swap -/
def pivotSwap (m : Array X) (row col k index : Nat) (pl : List (Nat × Nat)) : M (Array X × List (Nat × Nat)) :=
  if k != index then do
    let m ← rowExchangeM m row col k index
    pure (m, pl ++ [(k, index)])
  else pure (m, pl)

/-- pivoted_gaussian_elimination; `pr i index` is the row used as the pivot row in the elimination
    step (`index` in the repaired code, `i` in the original) -/
def pgeWith (pr : Nat → Nat → Nat) (A : DM) : M (DM × List (Nat × Nat)) := do
  let row := A.row; let col := A.col
  let rec go : Nat → Nat → Nat → Array X → List (Nat × Nat) → M (Array X × List (Nat × Nat))
    | 0, _, _, m, pl => pure (m, pl)
    | f + 1, i, index, m, pl => do
      if index == row then pure (m, pl) else
      let k ← pivot m row col index i
      if k == row then go f (i + 1) index m pl else
      let (m, pl) ← pivotSwap m row col k index pl
      let scale := X.div X.one (← rd m (index * col + i))
      let m ← rowMulScalarM m row col index scale
      let p := pr i index
      let m ← forR (p + 1) row (fun j m => do
        let m ← forR (i + 1) col (fun k m => do
          wr m (j * col + k) (X.sub (← rd m (j * col + k)) (X.mul (← rd m (j * col + i)) (← rd m (p * col + k))))) m
        wr m (j * col + i) X.zero) m
      go f (i + 1) (index + 1) m pl
  let (m, pl) ← go (usub1 col) 0 0 A.m []
  pure ({ A with m := m }, pl)

def pge := pgeWith (fun _ index => index)
def pgeOrig := pgeWith (fun i _ => i)

/-- fraction_free_gaussian_elimination -/
def ffge (A : DM) : M DM := do
  let col := A.col
  -- `i < col - 1` on unsigned; iterations with i ≥ row have empty bodies
  let m ← forN (min (usub1 col) A.row) 0 (fun i m => forR (i + 1) A.row (fun j m => do
      let m ← forR (i + 1) col (fun k m => do
        let v := X.sub (X.mul (← rd m (i * col + i)) (← rd m (j * col + k)))
                       (X.mul (← rd m (j * col + i)) (← rd m (i * col + k)))
        let m ← wr m (j * col + k) v
        if i > 0 then wr m (j * col + k) (X.div (← rd m (j * col + k)) (← rd m (i * col - col + i - 1)))
        else pure m) m
      wr m (j * col + i) X.zero) m) A.m
  pure { A with m := m }

/-- pivoted_fraction_free_gaussian_elimination (repaired: pivot row `index`, divisor = previous pivot) -/
def pffge (A : DM) : M (DM × List (Nat × Nat)) := do
  let row := A.row; let col := A.col
  let rec go : Nat → Nat → Nat → X → Array X → List (Nat × Nat) → M (Array X × List (Nat × Nat))
    | 0, _, _, _, m, pl => pure (m, pl)
    | f + 1, i, index, d, m, pl => do
      if index == row then pure (m, pl) else
      let k ← pivot m row col index i
      if k == row then go f (i + 1) index d m pl else
      let (m, pl) ← pivotSwap m row col k index pl
      let m ← forR (index + 1) row (fun j m => do
        let m ← forR (i + 1) col (fun k m => do
          let v := X.sub (X.mul (← rd m (index * col + i)) (← rd m (j * col + k)))
                         (X.mul (← rd m (j * col + i)) (← rd m (index * col + k)))
          let m ← wr m (j * col + k) v
          if index > 0 then wr m (j * col + k) (X.div (← rd m (j * col + k)) d) else pure m) m
        wr m (j * col + i) X.zero) m
      let d ← rd m (index * col + i)
      go f (i + 1) (index + 1) d m pl
  let (m, pl) ← go (usub1 col) 0 0 X.unk A.m []
  pure ({ A with m := m }, pl)

/-- the original pivoted_fraction_free_gaussian_elimination (row `i`, divisor `B[i-1][i-1]`) -/
def pffgeOrig (A : DM) : M (DM × List (Nat × Nat)) := do
  let row := A.row; let col := A.col
  let rec go : Nat → Nat → Nat → Array X → List (Nat × Nat) → M (Array X × List (Nat × Nat))
    | 0, _, _, m, pl => pure (m, pl)
    | f + 1, i, index, m, pl => do
      if index == row then pure (m, pl) else
      let k ← pivot m row col index i
      if k == row then go f (i + 1) index m pl else
      let (m, pl) ← pivotSwap m row col k index pl
      let m ← forR (i + 1) row (fun j m => do
        let m ← forR (i + 1) col (fun k m => do
          let v := X.sub (X.mul (← rd m (i * col + i)) (← rd m (j * col + k)))
                         (X.mul (← rd m (j * col + i)) (← rd m (i * col + k)))
          let m ← wr m (j * col + k) v
          if i > 0 then wr m (j * col + k) (X.div (← rd m (j * col + k)) (← rd m (i * col - col + i - 1))) else pure m) m
        wr m (j * col + i) X.zero) m
      go f (i + 1) (index + 1) m pl
  let (m, pl) ← go (usub1 col) 0 0 A.m []
  pure ({ A with m := m }, pl)

/-- pivoted_gauss_jordan_elimination -/
def pgje (A : DM) : M (DM × List (Nat × Nat)) := do
  let row := A.row; let col := A.col
  let rec go : Nat → Nat → Nat → Array X → List (Nat × Nat) → M (Array X × List (Nat × Nat))
    | 0, _, _, m, pl => pure (m, pl)
    | f + 1, i, index, m, pl => do
      if index == row then pure (m, pl) else
      let k ← pivot m row col index i
      if k == row then go f (i + 1) index m pl else
      let (m, pl) ← pivotSwap m row col k index pl
      let scale := X.div X.one (← rd m (index * col + i))
      let m ← rowMulScalarM m row col index scale
      let m ← forN row 0 (fun j m => do
        if j == index then pure m else
        let scale := X.mul X.minusOne (← rd m (j * col + i))
        rowAddRowM m row col j index scale) m
      go f (i + 1) (index + 1) m pl
  let (m, pl) ← go col 0 0 A.m []
  pure ({ A with m := m }, pl)

/-- fraction_free_gauss_jordan_elimination -/
def ffgje (A : DM) : M DM := do
  let row := A.row; let col := A.col
  let (m, _) ← forN col 0 (fun i (s : Array X × X) => do
    let m := s.1
    let d ← (if i > 0 then rd m (i * col - col + i - 1) else pure s.2)
    let m ← forN row 0 (fun j m => do
      if j != i then
        forN col 0 (fun k m => do
          if k != i then
            let v := X.sub (X.mul (← rd m (i * col + i)) (← rd m (j * col + k)))
                           (X.mul (← rd m (j * col + i)) (← rd m (i * col + k)))
            let m ← wr m (j * col + k) v
            if i > 0 then wr m (j * col + k) (X.div (← rd m (j * col + k)) d) else pure m
          else pure m) m
      else pure m) m
    let m ← forN row 0 (fun j m => do
      if j != i then wr m (j * col + i) X.zero else pure m) m
    pure (m, d)) (A.m, X.unk)
  pure { A with m := m }

/-- pivoted_fraction_free_gauss_jordan_elimination -/
def pffgje (A : DM) : M (DM × List (Nat × Nat)) := do
  let row := A.row; let col := A.col
  let rec go : Nat → Nat → Nat → X → Array X → List (Nat × Nat) → M (Array X × List (Nat × Nat))
    | 0, _, _, _, m, pl => pure (m, pl)
    | f + 1, i, index, d, m, pl => do
      if index == row then pure (m, pl) else
      let k ← pivot m row col index i
      if k == row then go f (i + 1) index d m pl else
      let (m, pl) ← pivotSwap m row col k index pl
      let m ← forN row 0 (fun j m => do
        if j == index then pure m else
        forN col 0 (fun k m => do
          if k == i then pure m else
          let v := X.sub (X.mul (← rd m (index * col + i)) (← rd m (j * col + k)))
                         (X.mul (← rd m (j * col + i)) (← rd m (index * col + k)))
          let m ← wr m (j * col + k) v
          if index == 0 then pure m else
          wr m (j * col + k) (X.div (← rd m (j * col + k)) d)) m) m
      let d ← rd m (index * col + i)
      let m ← forN row 0 (fun j m => do
        if j == index then pure m else wr m (j * col + i) X.zero) m
      go f (i + 1) (index + 1) d m pl
  let (m, pl) ← go col 0 0 X.unk A.m []
  pure ({ A with m := m }, pl)

/-- reduced_row_echelon_form -/
def rref (A : DM) (normalizeLast : Bool) : M (DM × List Nat) := do
  let (b, _) ← if normalizeLast then pffgje A else pgje A
  let rec go : Nat → Nat → Nat → DM → List Nat → M (DM × List Nat)
    | 0, _, _, b, pc => pure (b, pc)
    | f + 1, col, row, b, pc => do
      if !(col < b.col && row < b.row) then pure (b, pc) else
      if (← b.get row col).isZero then go f (col + 1) row b pc else
      let pc := pc ++ [col]
      let b ← (if row == 0 && normalizeLast then do
                let mm := X.div X.one (← b.get row col)
                let m ← mulScalarInto b mm b.m
                pure { b with m := m }
              else pure b)
      go f (col + 1) (row + 1) b pc
  go b.col 0 0 b []

/-! ### substitutions and solvers -/

/-- diagonal_solve -/
def diagonalSolve (A b : DM) (x : DM) : M DM := do
  req (A.row == A.col)
  req (x.row == A.col && x.col == b.col)
  let sys := b.col
  let m ← forN sys 0 (fun k m => forN A.col 0 (fun i m => do
      wr m (i * sys + k) (X.div (← rd b.m (i * sys + k)) (← rd A.m (i * A.col + i)))) m) x.m
  pure { x with m := m }

/-- back_substitution -/
def backSubstitution (U b : DM) (x : DM) : M DM := do
  req (U.row == U.col)
  req (b.row == U.row)
  req (x.row == U.col && x.col == b.col)
  let col := U.col; let sys := b.col
  let m ← forN sys 0 (fun k m => forDown col 0 (fun i m => do
      let m ← forR (i + 1) col (fun j m => do
        wr m (i * sys + k) (X.sub (← rd m (i * sys + k)) (X.mul (← rd U.m (i * col + j)) (← rd m (j * sys + k))))) m
      wr m (i * sys + k) (X.div (← rd m (i * sys + k)) (← rd U.m (i * col + i)))) m) b.m
  pure { x with m := m }

/-- forward_substitution (fraction-free form) -/
def forwardSubstitution (A b : DM) (x : DM) : M DM := do
  req (A.row == A.col)
  req (b.row == A.row)
  req (x.row == A.col && x.col == b.col)
  let col := A.col; let sys := b.col
  let m ← forN b.col 0 (fun k m => forN (col - 1) 0 (fun i m => forR (i + 1) col (fun j m => do
      let v := X.sub (X.mul (← rd A.m (i * col + i)) (← rd m (j * sys + k)))
                     (X.mul (← rd A.m (j * col + i)) (← rd m (i * sys + k)))
      let m ← wr m (j * sys + k) v
      if i > 0 then wr m (j * sys + k) (X.div (← rd m (j * sys + k)) (← rd A.m ((i - 1) * col + i - 1)))
      else pure m) m) m) b.m
  pure { x with m := m }

/-- fraction_free_gaussian_elimination_solve -/
def ffgeSolve (A b : DM) (x : DM) : M DM := do
  req (A.row == A.col)
  req (b.row == A.row && x.row == A.row)
  req (x.col == b.col)
  let col := A.col; let bcol := b.col
  let (am, bm) ← forN (col - 1) 0 (fun i (s : Array X × Array X) => forR (i + 1) col (fun j (s : Array X × Array X) => do
      let bm ← forN bcol 0 (fun k bm => do
        let v := X.sub (X.mul (← rd s.1 (i * col + i)) (← rd bm (j * bcol + k)))
                       (X.mul (← rd s.1 (j * col + i)) (← rd bm (i * bcol + k)))
        let bm ← wr bm (j * bcol + k) v
        if i > 0 then wr bm (j * bcol + k) (X.div (← rd bm (j * bcol + k)) (← rd s.1 (i * col - col + i - 1)))
        else pure bm) s.2
      let am ← forR (i + 1) col (fun k am => do
        let v := X.sub (X.mul (← rd am (i * col + i)) (← rd am (j * col + k)))
                       (X.mul (← rd am (j * col + i)) (← rd am (i * col + k)))
        let am ← wr am (j * col + k) v
        if i > 0 then wr am (j * col + k) (X.div (← rd am (j * col + k)) (← rd am (i * col - col + i - 1)))
        else pure am) s.1
      let am ← wr am (j * col + i) X.zero
      pure (am, bm)) s) (A.m, b.m)
  let xm ← forN (col * bcol) 0 (fun i xm => wr xm i X.zero) x.m
  let (xm, _) ← forN bcol 0 (fun k (s : Array X × Array X) => forDown col 0 (fun i (s : Array X × Array X) => do
      let bm ← forR (i + 1) col (fun j bm => do
        wr bm (i * bcol + k) (X.sub (← rd bm (i * bcol + k)) (X.mul (← rd am (i * col + j)) (← rd s.1 (j * bcol + k))))) s.2
      let xm ← wr s.1 (i * bcol + k) (X.div (← rd bm (i * bcol + k)) (← rd am (i * col + i)))
      pure (xm, bm)) s) (xm, bm)
  pure { x with m := xm }

/-- fraction_free_gauss_jordan_solve (repaired: a column without pivot throws) -/
def ffgjSolve (A b : DM) (x : DM) (piv : Bool) : M DM := do
  req (A.row == A.col)
  req (b.row == A.row && x.row == A.row)
  req (x.col == b.col)
  let col := A.col; let bcol := b.col
  let (am, bm, _) ← forN col 0 (fun i (s : Array X × Array X × X) => do
    let am := s.1; let bm := s.2.1
    let d ← (if i > 0 then rd am (i * col - col + i - 1) else pure s.2.2)
    let (am, bm) ← (if piv then do
        let rec find : Nat → Nat → M Nat
          | 0, p => pure p
          | f + 1, p => do
            if p < col then
              if (← rd am (p * col + i)).isZero then find f (p + 1) else pure p
            else pure p
        let p ← find (col + 1) i
        if p == col then throw .runtime
        if p != i then do
          let am ← forR i col (fun k am => do
            let a ← rd am (p * col + k); let c ← rd am (i * col + k)
            let am ← wr am (p * col + k) c
            wr am (i * col + k) a) am
          let bm ← forN bcol 0 (fun k bm => do
            let a ← rd bm (p * bcol + k); let c ← rd bm (i * bcol + k)
            let bm ← wr bm (p * bcol + k) c
            wr bm (i * bcol + k) a) bm
          pure (am, bm)
        else pure (am, bm)
      else pure (am, bm))
    let (am, bm) ← forN col 0 (fun j (s : Array X × Array X) => do
      if j != i then
        let bm ← forN bcol 0 (fun k bm => do
          let v := X.sub (X.mul (← rd s.1 (i * col + i)) (← rd bm (j * bcol + k)))
                         (X.mul (← rd s.1 (j * col + i)) (← rd bm (i * bcol + k)))
          let bm ← wr bm (j * bcol + k) v
          if i > 0 then wr bm (j * bcol + k) (X.div (← rd bm (j * bcol + k)) d) else pure bm) s.2
        let am ← forN col 0 (fun k am => do
          if k != i then
            let v := X.sub (X.mul (← rd am (i * col + i)) (← rd am (j * col + k)))
                           (X.mul (← rd am (j * col + i)) (← rd am (i * col + k)))
            let am ← wr am (j * col + k) v
            if i > 0 then wr am (j * col + k) (X.div (← rd am (j * col + k)) d) else pure am
          else pure am) s.1
        pure (am, bm)
      else pure s) (am, bm)
    let am ← forN col 0 (fun j am => do
      if j != i then wr am (j * col + i) X.zero else pure am) am
    pure (am, bm, d)) (A.m, b.m, X.unk)
  let xm ← forN bcol 0 (fun k xm => forN col 0 (fun i xm => do
      wr xm (i * bcol + k) (X.div (← rd bm (i * bcol + k)) (← rd am (i * col + i)))) xm) x.m
  pure { x with m := xm }

/-! ### factorisations -/

/-- fraction_free_LU -/
def fractionFreeLU (A : DM) : M DM := do
  req (A.row == A.col)
  let n := A.row
  -- `i < n - 1` on unsigned: for n = 0 all iterations have empty bodies
  let m ← forN (n - 1) 0 (fun i m => forR (i + 1) n (fun j m => forR (i + 1) n (fun k m => do
      let v := X.sub (X.mul (← rd m (i * n + i)) (← rd m (j * n + k)))
                     (X.mul (← rd m (j * n + i)) (← rd m (i * n + k)))
      let m ← wr m (j * n + k) v
      if i != 0 then wr m (j * n + k) (X.div (← rd m (j * n + k)) (← rd m (i * n - n + i - 1))) else pure m) m) m) A.m
  pure { A with m := m }

/-- the column pass shared by LU and pivoted_LU: `U[i][j] -= sum_{k<lim} U[i][k]*U[k][j]` -/
def luReduce (n j i lim : Nat) (m : Array X) : M (Array X) :=
  forN lim 0 (fun k m => do
    wr m (i * n + j) (X.sub (← rd m (i * n + j)) (X.mul (← rd m (i * n + k)) (← rd m (k * n + j))))) m

/-- one column `j` of LU (no pivoting) -/
def luColumn (n j : Nat) (m : Array X) : M (Array X) := do
  let m ← forN j 0 (fun i m => luReduce n j i i m) m
  let m ← forR j n (fun i m => luReduce n j i j m) m
  let scale := X.div X.one (← rd m (j * n + j))
  forR (j + 1) n (fun i m => do wr m (i * n + j) (X.mul (← rd m (i * n + j)) scale)) m

/-- split the combined storage into unit-lower `L` and upper `U` -/
def splitLU (n : Nat) (um : Array X) (lm : Array X) : M (Array X × Array X) :=
  forN n 0 (fun i (s : Array X × Array X) => do
    let s ← forN i 0 (fun j (s : Array X × Array X) => do
      let l ← wr s.1 (i * n + j) (← rd s.2 (i * n + j))
      let u ← wr s.2 (i * n + j) X.zero
      pure (l, u)) s
    let l ← wr s.1 (i * n + i) X.one
    let l ← forR (i + 1) n (fun j l => wr l (i * n + j) X.zero) l
    pure (l, s.2)) (lm, um)

/-- LU(A, L, U) -/
def luDecomp (A : DM) : M (DM × DM) := do
  req (A.row == A.col)
  let n := A.row
  let um ← forN n 0 (fun j m => luColumn n j m) A.m
  let (lm, um) ← splitLU n um (DM.fresh n n).m
  pure ({ row := n, col := n, m := lm }, { row := n, col := n, m := um })

/-- pivoted_LU(A, LU, pl) -/
def pivotedLU1 (A : DM) : M (DM × List (Nat × Nat)) := do
  req (A.row == A.col)
  let n := A.row
  let (m, pl) ← forN n 0 (fun j (s : Array X × List (Nat × Nat)) => do
    let m ← forN j 0 (fun i m => luReduce n j i i m) s.1
    let (m, pv) ← forR j n (fun i (t : Array X × Option Nat) => do
      let m ← luReduce n j i j t.1
      if t.2.isNone && !(← rd m (i * n + j)).isZero then pure (m, some i) else pure (m, t.2)) (m, none)
    match pv with
    | none => throw .runtime
    | some p =>
      let (m, pl) ← (if p != j then do
          let m ← rowExchangeM m n n p j
          pure (m, s.2 ++ [(p, j)])
        else pure (m, s.2))
      let scale := X.div X.one (← rd m (j * n + j))
      let m ← forR (j + 1) n (fun i m => do wr m (i * n + j) (X.mul (← rd m (i * n + j)) scale)) m
      pure (m, pl)) (A.m, [])
  pure ({ A with m := m }, pl)

/-- pivoted_LU(A, L, U, pl) -/
def pivotedLU (A : DM) : M (DM × DM × List (Nat × Nat)) := do
  let (LU, pl) ← pivotedLU1 A
  let n := A.col
  let (lm, um) ← splitLU n LU.m (DM.fresh n n).m
  pure ({ row := n, col := n, m := lm }, { row := n, col := n, m := um }, pl)

/-- fraction_free_LDU -/
def fractionFreeLDU (A : DM) : M (DM × DM × DM) := do
  let row := A.row; let col := A.col
  let L := DM.fresh row col; let D := DM.fresh row col
  let lm ← forN row 0 (fun i lm => forN row 0 (fun j lm => do
      if i != j then wr lm (i * col + j) X.zero else wr lm (i * col + i) X.one) lm) L.m
  let dm ← forN (row * row) 0 (fun i dm => wr dm i X.zero) D.m
  let (lm, dm, um, old) ← forN (usub1 row) 0 (fun k (s : Array X × Array X × Array X × X) => do
    let (lm, dm, um, old) := s
    let lm ← wr lm (k * col + k) (← rd um (k * col + k))
    let dm ← wr dm (k * col + k) (X.mul old (← rd um (k * col + k)))
    let (lm, um) ← forR (k + 1) row (fun i (t : Array X × Array X) => do
      let lm ← wr t.1 (i * col + k) (← rd t.2 (i * col + k))
      let um ← forR (k + 1) col (fun j um => do
        wr um (i * col + j) (X.div (X.sub (X.mul (← rd um (k * col + k)) (← rd um (i * col + j)))
                                          (X.mul (← rd um (k * col + j)) (← rd um (i * col + k)))) old)) t.2
      let um ← wr um (i * col + k) X.zero
      pure (lm, um)) (lm, um)
    let old ← rd um (k * col + k)
    pure (lm, dm, um, old)) (lm, dm, A.m, X.one)
  let dm ← wr dm (row * col - col + row - 1) old
  pure ({ L with m := lm }, { D with m := dm }, { A with m := um })

/-- QR (Gram-Schmidt with exact square roots) -/
def qrDecomp (A : DM) : M (DM × DM) := do
  let row := A.row; let col := A.col
  let qm := Array.replicate (row * col) X.zero
  let rm := Array.replicate (col * col) X.zero
  let (qm, rm) ← forN col 0 (fun j (s : Array X × Array X) => do
    let (qm, rm) := s
    let tmp ← forN row 0 (fun k tmp => do wr tmp k (← rd A.m (k * col + j))) (Array.replicate row X.unk)
    let tmp ← forN j 0 (fun i tmp => do
      let tt ← forN row 0 (fun k tt => do pure (X.add tt (X.mul (← rd A.m (k * col + j)) (← rd qm (k * col + i))))) X.zero
      forN row 0 (fun k tmp => do wr tmp k (X.sub (← rd tmp k) (X.mul (← rd qm (k * col + i)) tt))) tmp) tmp
    let nrm ← forN row 0 (fun k acc => do pure (X.add acc (X.sq (← rd tmp k)))) X.zero
    let nrm := X.sqrt nrm
    let rm ← wr rm (j * col + j) nrm
    let qm ← forN row 0 (fun k qm => do wr qm (k * col + j) (X.div (← rd tmp k) nrm)) qm
    let rm ← forN j 0 (fun i rm => do
      let tt ← forN row 0 (fun k tt => do pure (X.add tt (X.mul (← rd qm (k * col + i)) (← rd A.m (k * col + j))))) X.zero
      wr rm (i * col + j) tt) rm
    pure (qm, rm)) (qm, rm)
  pure ({ row := row, col := col, m := qm }, { row := col, col := col, m := rm })

/-- LDL -/
def ldlDecomp (A : DM) : M (DM × DM) := do
  req (A.row == A.col)
  let col := A.col
  let dm := Array.replicate (col * col) X.zero
  let lm ← forN col 0 (fun i lm => forN col 0 (fun j lm => wr lm (i * col + j) (if i != j then X.zero else X.one)) lm)
            (Array.replicate (col * col) X.unk)
  let (lm, dm) ← forN col 0 (fun i (s : Array X × Array X) => do
    let (lm, dm) := s
    let lm ← forN i 0 (fun j lm => do
      let sum ← forN j 0 (fun k sum => do
        pure (X.add sum (X.mul (X.mul (← rd lm (i * col + k)) (← rd lm (j * col + k))) (← rd dm (k * col + k))))) X.zero
      wr lm (i * col + j) (X.mul (X.div X.one (← rd dm (j * col + j))) (X.sub (← rd A.m (i * col + j)) sum))) lm
    let sum ← forN i 0 (fun k sum => do
      pure (X.add sum (X.mul (X.sq (← rd lm (i * col + k))) (← rd dm (k * col + k))))) X.zero
    let dm ← wr dm (i * col + i) (X.sub (← rd A.m (i * col + i)) sum)
    pure (lm, dm)) (lm, dm)
  pure ({ row := col, col := col, m := lm }, { row := col, col := col, m := dm })

/-- cholesky -/
def choleskyDecomp (A : DM) : M DM := do
  req (A.row == A.col)
  let col := A.col
  let lm := Array.replicate (col * col) X.zero
  let lm ← forN col 0 (fun i lm => do
    let lm ← forN i 0 (fun j lm => do
      let sum ← forN j 0 (fun k sum => do
        pure (X.add sum (X.mul (← rd lm (i * col + k)) (← rd lm (j * col + k))))) X.zero
      wr lm (i * col + j) (X.mul (X.div X.one (← rd lm (j * col + j))) (X.sub (← rd A.m (i * col + j)) sum))) lm
    let sum ← forN i 0 (fun k sum => do pure (X.add sum (X.sq (← rd lm (i * col + k))))) X.zero
    wr lm (i * col + i) (X.sqrt (X.sub (← rd A.m (i * col + i)) sum))) lm
  pure { row := col, col := col, m := lm }

/-! ### solvers built from factorisations -/

def fflUSolve (A b : DM) : M DM := do
  let LU ← fractionFreeLU A
  let x_ ← forwardSubstitution LU b (DM.fresh b.row b.col)
  backSubstitution LU x_ (DM.fresh A.col b.col)

def luSolve (A b : DM) : M DM := do
  let (L, U) ← luDecomp A
  let x_ ← forwardSubstitution L b (DM.fresh b.row b.col)
  backSubstitution U x_ (DM.fresh A.col b.col)

def pivotedLUSolve (A b : DM) : M DM := do
  let (L, U, pl) ← pivotedLU A
  let xm ← permuteFwd b.m b.row b.col pl
  let x_ : DM := { b with m := xm }
  let x_ ← forwardSubstitution L x_ x_
  backSubstitution U x_ (DM.fresh A.col b.col)

def ldlSolve (A b : DM) : M DM := do
  if !(← isSymmetricDense A) then throw .runtime
  let (L, D) ← ldlDecomp A
  let x ← forwardSubstitution L b (DM.fresh A.col b.col)
  let x_ ← diagonalSolve D x (DM.fresh b.row b.col)
  let Lt ← transposeDense L
  backSubstitution Lt x_ x

/-! ### determinant and characteristic polynomial -/

/-- det_bareis -/
def detBareiss (A : DM) : M X := do
  req (A.row == A.col)
  let n := A.row
  let a := fun k => rd A.m k
  if n == 1 then a 0
  else if n == 2 then
    pure (X.sub (X.mul (← a 0) (← a 3)) (X.mul (← a 1) (← a 2)))
  else if n == 3 then
    pure (X.sub (X.add (X.add (X.mul (X.mul (← a 0) (← a 4)) (← a 8)) (X.mul (X.mul (← a 1) (← a 5)) (← a 6)))
                       (X.mul (X.mul (← a 2) (← a 3)) (← a 7)))
                (X.add (X.add (X.mul (X.mul (← a 2) (← a 4)) (← a 6)) (X.mul (X.mul (← a 1) (← a 3)) (← a 8)))
                       (X.mul (X.mul (← a 0) (← a 5)) (← a 7))))
  else
    let lower ← isLower A
    let tri ← (if lower then pure true else isUpper A)
    if tri then
      let d0 ← a 0
      forR 1 n (fun i det => do pure (X.mul det (← a (i * n + i)))) d0
    else
      let rec go : Nat → Nat → Array X → Bool → M X
        | 0, _, m, pos => do
          let last ← rd m (n * n - 1)
          pure (if pos then last else X.mul X.minusOne last)
        | f + 1, k, m, pos => do
          let r ← (if (← rd m (k * n + k)).isZero then do
              -- first row below with a non-zero entry in column k
              let rec find : Nat → Nat → M Nat
                | 0, i => pure i
                | g + 1, i => do if !(← rd m (i * n + k)).isZero then pure i else find g (i + 1)
              let i ← find (n - (k + 1)) (k + 1)
              if i == n then pure none else do
                let m ← rowExchangeM m n n i k
                pure (some (m, !pos))
            else pure (some (m, pos)))
          match r with
          | none => pure X.zero
          | some (m, pos) =>
            let m ← forR (k + 1) n (fun i m => forR (k + 1) n (fun j m => do
              let d := X.sub (X.mul (← rd m (k * n + k)) (← rd m (i * n + j)))
                             (X.mul (← rd m (i * n + k)) (← rd m (k * n + j)))
              let d ← (if k > 0 then do pure (X.div d (← rd m ((k - 1) * n + k - 1))) else pure d)
              wr m (i * n + j) d) m) m
            go f (k + 1) m pos
      go (n - 1) 0 A.m true

/-- berkowitz: characteristic polynomials of the leading principal minors -/
def berkowitz (A : DM) : M (List (Array X)) := do
  req (A.row == A.col)
  let col := A.col
  -- transforms, for n = col, col-1, …, 2 (pushed in that order)
  let transforms ← forDown (col - 1) 2 (fun n (ts : Array (Nat × Nat × Array X)) => do
    let k := n - 1
    let tm := Array.replicate (n * (n + 1)) X.zero
    let c ← forN k 0 (fun i c => do wr c i (← rd A.m (i * col + k))) (Array.replicate k X.unk)
    let items ← forN (n - 2) 0 (fun i (items : Array (Array X)) => do
      let prev := items[i]?.getD #[]
      let b ← forN k 0 (fun l b => do
        let v ← forN k 0 (fun mm v => do pure (X.add v (X.mul (← rd A.m (l * col + mm)) (← rd prev mm)))) X.zero
        wr b l v) (Array.replicate k X.unk)
      pure (items.push b)) #[c]
    let items_ ← forN (n - 1) 0 (fun i (acc : Array X) => do
      let it := items[i]?.getD #[]
      let el ← forN k 0 (fun l el => do pure (X.add el (X.mul (← rd A.m (k * col + l)) (← rd it l)))) X.zero
      pure (acc.push (X.mul X.minusOne el))) #[]
    let items_ := #[X.one, X.mul X.minusOne (← rd A.m (k * col + k))] ++ items_
    let tm ← forN n 0 (fun i tm => forN (n - i + 1) 0 (fun l tm => do
      wr tm ((i + l) * n + i) (← rd items_ l)) tm) tm
    pure (ts.push (n + 1, n, tm))) #[]
  let p0 : Array X := #[X.one, X.mul (← rd A.m 0) X.minusOne]
  let polys ← forN (col - 1) 0 (fun i (polys : Array (Array X)) => do
    match transforms[col - 2 - i]? with
    | none => throw .oob
    | some (trow, tcol, tm) =>
      let p := polys[i]?.getD #[]
      let b ← forN trow 0 (fun l b => do
        let v ← forN tcol 0 (fun mm v => do pure (X.add v (X.mul (← rd tm (l * tcol + mm)) (← rd p mm)))) X.zero
        wr b l v) (Array.replicate trow X.unk)
      pure (polys.push b)) #[p0]
  pure polys.toList

/-- det_berkowitz -/
def detBerkowitz (A : DM) : M X := do
  let polys ← berkowitz A
  match polys.getLast? with
  | none => throw .oob
  | some poly =>
    -- poly.get(poly.nrows() - 1, 0)
    if poly.size = 0 then throw .assert
    let v ← rd poly (poly.size - 1)
    if polys.length % 2 == 1 then pure (X.mul X.minusOne v) else pure v

/-- char_poly -/
def charPoly (A : DM) : M DM := do
  req (A.row == A.col)
  let polys ← berkowitz A
  match polys.getLast? with
  | none => throw .oob
  | some poly => pure { row := poly.size, col := 1, m := poly }

/-! ### inverses -/

def inverseFFLU (A : DM) : M DM := do
  req (A.row == A.col)
  let n := A.row
  let bm := Array.replicate (n * n) X.zero
  let LU ← fractionFreeLU A
  let bm ← forN n 0 (fun j bm => do
    let e : DM := { row := n, col := 1, m := (Array.replicate n X.zero).setIfInBounds j X.one }
    let x_ ← forwardSubstitution LU e (fill n 1 X.zero)
    let x ← backSubstitution LU x_ (fill n 1 X.zero)
    forN n 0 (fun i bm => do wr bm (i * n + j) (← rd x.m i)) bm) bm
  pure { row := n, col := n, m := bm }

def inverseLU (A : DM) : M DM := do
  req (A.row == A.col)
  let e ← eyeInto (DM.fresh A.row A.col) 0
  luSolve A e

def inversePivotedLU (A : DM) : M DM := do
  req (A.row == A.col)
  let e ← eyeInto (DM.fresh A.row A.col) 0
  pivotedLUSolve A e

def inverseGaussJordan (A : DM) : M DM := do
  req (A.row == A.col)
  let n := A.row
  let e : DM := { row := n, col := n, m := Array.replicate (n * n) X.unk }
  let (em, bm) ← forN n 0 (fun i (s : Array X × Array X) => forN n 0 (fun j (s : Array X × Array X) => do
      let em ← (if i != j then wr s.1 (i * n + j) X.zero else wr s.1 (i * n + i) X.one)
      let bm ← wr s.2 (i * n + j) X.zero
      pure (em, bm)) s) (e.m, Array.replicate (n * n) X.unk)
  ffgjSolve A { e with m := em } { row := n, col := n, m := bm } true

/-! ### vectors -/

/-- dot -/
def dotCore (A B : DM) : M DM := do
  -- requires A.col == B.row
  let C ← (if B.col != 1 then do
      let t1 ← transposeDense A
      let t2 ← transposeDense B
      mulDense t1 t2
    else mulDense A B)
  pure { row := 1, col := C.row * C.col, m := C.m }

def dot (A B : DM) : M DM := do
  if A.col == B.row then dotCore A B
  else if A.col == B.col then dotCore A (← transposeDense B)
  else if A.row == B.row then dotCore (← transposeDense A) B
  else throw .runtime

/-- cross -/
def cross (A B : DM) : M DM := do
  req (A.row * A.col == 3 && B.row * B.col == 3)
  let a := fun k => rd A.m k
  let b := fun k => rd B.m k
  let c0 := X.sub (X.mul (← a 1) (← b 2)) (X.mul (← a 2) (← b 1))
  let c1 := X.sub (X.mul (← a 2) (← b 0)) (X.mul (← a 0) (← b 2))
  let c2 := X.sub (X.mul (← a 0) (← b 1)) (X.mul (← a 1) (← b 0))
  pure { row := A.row, col := A.col, m := #[c0, c1, c2] }

end SymVerif.Dense
