/-
Model of the LLVM code generator `LLVMVisitor` (symengine/llvm_double.cpp): `init` as a compiler
from input symbols and output expressions to a straight-line SSA program, and `call` as the
execution of that program.

  Expr ──lower──▶ T (operator tree: what is computed, in the order the visitor visits)
       ──compileT──▶ Prog = List Instr   (what `IRBuilder` appends; constants are folded exactly as
                                           llvm::IRBuilder<ConstantFolder> folds them)
  run : Prog → inputs → outputs          evalT : T → value   (reference semantics of the same tree)

`lower` contains every structural decision of the `bvisit` methods (Add starts from the first term
when the coefficient is zero and skips the multiplication by a unit coefficient; Mul folds
`get_args()`; Pow: base E → exp, base 2 → exp2, integer exponent 2 → x*x, other integer exponent →
powi, else pow; Max/Min → maxnum/minnum folds; relationals → uitofp(fcmp); And/Or/Xor/Not over
`fcmp one x, 0.0`; Contains(Interval); Piecewise → conditional branch + phi, nested for more than two
pieces).  Which intrinsic / libm function / predicate a node kind uses comes from the table
`LDefs` translated from the source (Gen/LLVMFormulas.lean).

The program is straight-line: the two arms of a Piecewise are both executed and `phi` selects (all
operations are total and side-effect free, so this equals branching).  Instruction `k` defines
register `k`; `condbr` defines an unused register so that indices stay aligned.  The stores of the
outputs are the last thing `init` emits; they are kept apart from the body (`Compiled`).

The twelve RewriteTrigVisitor rewrites and `Sign` build new expressions through symengine's own
constructors before they are visited; the harness performs those constructions with the real
library and hands the model the tree that is actually visited (docs/C14.md).

State that survives a *failed* init (`symbol_ptrs`, `replacement_symbol_ptrs` keep pointers into the
destroyed module) is modelled as stale entries whose use is undefined behaviour (`Err.badArg`).
Core Lean only.
-/
import SymVerif.Model.EvalG

namespace SymVerif.LLVMD
open SymVerif.EvalG

inductive FPred where
  | oeq | one | ole | olt | une | ueq | ogt | oge
  deriving DecidableEq, Repr, Inhabited

inductive BOp where
  | and | or | xor
  deriving DecidableEq, Repr, Inhabited

/-- what a node kind emits (translated from llvm_double.cpp) -/
inductive LDef where
  | leafInt | leafRat | leafDouble | leafBool | leafInfty | leafNaN
  | constant | symbol | add | mul | pow | piecewise | sign | contains | lnot | unevaluated
  /-- unary call of the intrinsic `llvm.<name>` -/
  | intrinsic (name : String)
  /-- call of the external (libm) function `<name>` on all `get_args()` -/
  | external (name : String)
  /-- left fold of the operands with the binary intrinsic `llvm.<name>` -/
  | foldIntr (name : String)
  | logic (op : BOp)
  | relational (p : FPred)
  deriving DecidableEq, Repr, Inhabited

abbrev LDefs := List (String × LDef)

def LDefs.find (d : LDefs) (k : String) : Option LDef :=
  match d with
  | [] => none
  | (k', v) :: t => if k' = k then some v else LDefs.find t k

/-- the number structure the generated code computes in: M-Eval's `NumOps` plus the two operations
that have no libm name there -/
structure LOps (α : Type) where
  O : NumOps α
  exp2 : α → Option α
  powi : α → Int → Option α

/-! ### operator trees -/

inductive OpK where
  | fadd | fmul
  /-- `t = arg; fmul t t` (Pow with exponent 2) -/
  | square
  /-- call of an intrinsic (`intr = true`, printed `llvm.<name>`) or an external function -/
  | call (intr : Bool) (name : String)
  | powi (n : Int)
  /-- `uitofp (fcmp p a b)` -/
  | cmpU (p : FPred)
  /-- `fcmp one a 0.0` : i1 -/
  | truth
  | bop (o : BOp)
  /-- `uitofp (xor a true)` for a : i1 -/
  | notU
  /-- `uitofp a` for a : i1 -/
  | toFP
  /-- operands x s e: `uitofp (and (fcmp (olt|ole) s x) (fcmp (olt|ole) x e))` -/
  | contains (leftOpen rightOpen : Bool)
  deriving DecidableEq, Repr, Inhabited

inductive T (α : Type) where
  | cst (x : α)
  | sym (name : String)
  | op (k : OpK) (args : List (T α))
  /-- `phi (fcmp one c 0.0) a b` -/
  | pw (c a b : T α)

/-! ### SSA programs -/

inductive Val (α : Type) where
  | cf (x : α)
  | cb (b : Bool)
  | reg (n : Nat)
  deriving Inhabited

inductive Instr (α : Type) where
  | load (i : Nat)
  | fadd (a b : Val α)
  | fmul (a b : Val α)
  | call (intr : Bool) (name : String) (args : List (Val α))
  | powi (a : Val α) (n : Int)
  | fcmp (p : FPred) (a b : Val α)
  | bop (o : BOp) (a b : Val α)
  | bnot (a : Val α)
  | uitofp (a : Val α)
  | condbr (c : Val α)
  | phi (c a b : Val α)
  deriving Inhabited

abbrev Prog (α : Type) := List (Instr α)

/-- the compiled function: the instructions of the body, then `store i outs[i]` for every output
(emitted by the last loop of `init`), then `ret void` -/
structure Compiled (α : Type) where
  body : Prog α
  outs : List (Val α)
  deriving Inhabited

/-- run-time values; an operation with an erroneous operand yields the first operand's error -/
inductive RV (α : Type) where
  | f (x : α)
  | b (x : Bool)
  | err (e : Err)
  deriving Inhabited

variable {α : Type}

/-! ### semantics of the primitive operations (shared by `run` and `evalT`) -/

def fcmpSem (O : NumOps α) (p : FPred) (a b : α) : Bool :=
  let ord := O.eq a a && O.eq b b
  match p with
  | .oeq => O.eq a b
  | .one => ord && !(O.eq a b)
  | .ole => O.le a b
  | .olt => O.lt a b
  | .une => !(O.eq a b)
  | .ueq => !ord || O.eq a b
  | .ogt => O.lt b a
  | .oge => O.le b a

def bopSem : BOp → Bool → Bool → Bool
  | .and, a, b => a && b
  | .or, a, b => a || b
  | .xor, a, b => a != b

def calleeFn1 : String → Option Fn
  | "sin" => some .sin | "cos" => some .cos | "tan" => some .tan
  | "asin" => some .asin | "acos" => some .acos | "atan" => some .atan
  | "sinh" => some .sinh | "cosh" => some .cosh | "tanh" => some .tanh
  | "asinh" => some .asinh | "acosh" => some .acosh | "atanh" => some .atanh
  | "exp" => some .exp | "log" => some .log | "fabs" => some .abs
  | "floor" => some .floor | "ceil" => some .ceil | "trunc" => some .trunc
  | "tgamma" => some .tgamma | "lgamma" => some .lgamma | "erf" => some .erf | "erfc" => some .erfc
  | _ => none

def calleeFn2 : String → Option Fn
  | "pow" => some .pow | "atan2" => some .atan2 | "maxnum" => some .max | "minnum" => some .min
  | _ => none

/-- meaning of a call: the libm function of that name (LLVM's `llvm.sin.f64` … lower to libm) -/
def callSem (L : LOps α) (name : String) (args : List α) : Except Err α :=
  match args with
  | [x] =>
    if name = "exp2" then optErr .badCall (L.exp2 x)
    else match calleeFn1 name with
      | some fn => optErr .noOracle (L.O.call1 fn x)
      | none => .error .badCall
  | [x, y] =>
    match calleeFn2 name with
    | some fn => optErr .badCall (L.O.call2 fn x y)
    | none => .error .badCall
  | _ => .error .badCall

def zeroF (L : LOps α) : α := L.O.ofQNear 0 1

/-- float view of operands: all floats, or the first error (a bool where a float is expected is a
type error of the generator: `noncanon`) -/
def asF : RV α → Except Err α
  | .f x => .ok x
  | .b _ => .error .noncanon
  | .err e => .error e

def asB : RV α → Except Err Bool
  | .b x => .ok x
  | .f _ => .error .noncanon
  | .err e => .error e

def asFs : List (RV α) → Except Err (List α)
  | [] => .ok []
  | v :: t =>
    match asF v with
    | .error e => .error e
    | .ok x =>
      match asFs t with
      | .error e => .error e
      | .ok xs => .ok (x :: xs)

def ofExceptF : Except Err α → RV α
  | .ok x => .f x
  | .error e => .err e

def ofExceptB : Except Err Bool → RV α
  | .ok x => .b x
  | .error e => .err e

def fbin (g : α → α → α) (a b : RV α) : RV α :=
  match asF a with
  | .error e => .err e
  | .ok x =>
    match asF b with
    | .error e => .err e
    | .ok y => .f (g x y)

def rvFCmp (L : LOps α) (p : FPred) (a b : RV α) : RV α :=
  match asF a with
  | .error e => .err e
  | .ok x =>
    match asF b with
    | .error e => .err e
    | .ok y => .b (fcmpSem L.O p x y)

def rvBop (o : BOp) (a b : RV α) : RV α :=
  match asB a with
  | .error e => .err e
  | .ok x =>
    match asB b with
    | .error e => .err e
    | .ok y => .b (bopSem o x y)

def rvNot (a : RV α) : RV α :=
  match asB a with
  | .error e => .err e
  | .ok x => .b (!x)

def rvUIToFP (L : LOps α) (a : RV α) : RV α :=
  match asB a with
  | .error e => .err e
  | .ok x => .f (L.O.ofBool x)

def rvCall (L : LOps α) (name : String) (args : List (RV α)) : RV α :=
  match asFs args with
  | .error e => .err e
  | .ok xs => ofExceptF (callSem L name xs)

def rvPowi (L : LOps α) (a : RV α) (n : Int) : RV α :=
  match asF a with
  | .error e => .err e
  | .ok x => ofExceptF (optErr .badCall (L.powi x n))

def rvPhi (c a b : RV α) : RV α :=
  match asB c with
  | .error e => .err e
  | .ok t =>
    match asF a with
    | .error e => .err e
    | .ok x =>
      match asF b with
      | .error e => .err e
      | .ok y => .f (if t then x else y)

/-- reference value of an operator on evaluated operands -/
def evalOp (L : LOps α) (k : OpK) (vs : List (RV α)) : RV α :=
  match k, vs with
  | .fadd, [a, b] => fbin L.O.add a b
  | .fmul, [a, b] => fbin L.O.mul a b
  | .square, [a] => fbin L.O.mul a a
  | .call _ name, args => rvCall L name args
  | .powi n, [a] => rvPowi L a n
  | .cmpU p, [a, b] => rvUIToFP L (rvFCmp L p a b)
  | .truth, [a] => rvFCmp L .one a (.f (zeroF L))
  | .bop o, [a, b] => rvBop o a b
  | .notU, [a] => rvUIToFP L (rvNot a)
  | .toFP, [a] => rvUIToFP L a
  | .contains lo ro, [x, s, e] =>
    rvUIToFP L (rvBop .and (rvFCmp L (if lo then .olt else .ole) s x) (rvFCmp L (if ro then .olt else .ole) x e))
  | _, _ => .err .badArg

mutual
  /-- reference semantics of an operator tree (both arms of `pw` are evaluated, as in the program) -/
  def evalT (L : LOps α) (venv : String → Option α) : T α → RV α
    | .cst x => .f x
    | .sym n =>
      match venv n with
      | some x => .f x
      | none => .err .runtime
    | .op k args => evalOp L k (evalTs L venv args)
    | .pw c a b =>
      rvPhi (rvFCmp L .one (evalT L venv c) (.f (zeroF L))) (evalT L venv a) (evalT L venv b)

  def evalTs (L : LOps α) (venv : String → Option α) : List (T α) → List (RV α)
    | [] => []
    | t :: ts => evalT L venv t :: evalTs L venv ts
end

/-! ### running a program -/

def valOf (regs : List (RV α)) : Val α → RV α
  | .cf x => .f x
  | .cb x => .b x
  | .reg n =>
    match regs[n]? with
    | some v => v
    | none => .err .badArg

def valsOf (regs : List (RV α)) : List (Val α) → List (RV α)
  | [] => []
  | v :: t => valOf regs v :: valsOf regs t

/-- value an instruction defines -/
def stepVal (L : LOps α) (xs : List α) (regs : List (RV α)) : Instr α → RV α
  | .load i =>
    match xs[i]? with
    | some x => .f x
    | none => .err .badArg
  | .fadd a b => fbin L.O.add (valOf regs a) (valOf regs b)
  | .fmul a b => fbin L.O.mul (valOf regs a) (valOf regs b)
  | .call _ name args => rvCall L name (valsOf regs args)
  | .powi a n => rvPowi L (valOf regs a) n
  | .fcmp p a b => rvFCmp L p (valOf regs a) (valOf regs b)
  | .bop o a b => rvBop o (valOf regs a) (valOf regs b)
  | .bnot a => rvNot (valOf regs a)
  | .uitofp a => rvUIToFP L (valOf regs a)
  | .condbr _ => .b false
  | .phi c a b => rvPhi (valOf regs c) (valOf regs a) (valOf regs b)

/-- execute instructions, extending the register file -/
def exec (L : LOps α) (xs : List α) : List (RV α) → Prog α → List (RV α)
  | regs, [] => regs
  | regs, i :: rest => exec L xs (regs ++ [stepVal L xs regs i]) rest

def rvToExcept : RV α → Except Err α
  | .f x => .ok x
  | .b _ => .error .noncanon
  | .err e => .error e

/-- `call(outs, inps)`: execute the body, store the output values -/
def run (L : LOps α) (C : Compiled α) (xs : List α) : List (Except Err α) :=
  (valsOf (exec L xs [] C.body) C.outs).map rvToExcept

/-! ### the builder: appending instructions with llvm::IRBuilder's constant folding -/

def emit (P : Prog α) (i : Instr α) : Val α × Prog α := (.reg P.length, P ++ [i])

/-- binary float instruction: folded when both operands are constants -/
def mkFBin (L : LOps α) (isAdd : Bool) (a b : Val α) (P : Prog α) : Val α × Prog α :=
  match a, b with
  | .cf x, .cf y => (.cf (if isAdd then L.O.add x y else L.O.mul x y), P)
  | _, _ => emit P (if isAdd then .fadd a b else .fmul a b)

def mkFCmp (L : LOps α) (p : FPred) (a b : Val α) (P : Prog α) : Val α × Prog α :=
  match a, b with
  | .cf x, .cf y => (.cb (fcmpSem L.O p x y), P)
  | _, _ => emit P (.fcmp p a b)

def mkBop (o : BOp) (a b : Val α) (P : Prog α) : Val α × Prog α :=
  match a, b with
  | .cb x, .cb y => (.cb (bopSem o x y), P)
  | _, _ => emit P (.bop o a b)

def mkNot (a : Val α) (P : Prog α) : Val α × Prog α :=
  match a with
  | .cb x => (.cb (!x), P)
  | _ => emit P (.bnot a)

def mkUIToFP (L : LOps α) (a : Val α) (P : Prog α) : Val α × Prog α :=
  match a with
  | .cb x => (.cf (L.O.ofBool x), P)
  | _ => emit P (.uitofp a)

/-- instructions an operator appends for already compiled operands -/
def emitOp (L : LOps α) (k : OpK) (vs : List (Val α)) (P : Prog α) : Except Err (Val α × Prog α) :=
  match k, vs with
  | .fadd, [a, b] => .ok (mkFBin L true a b P)
  | .fmul, [a, b] => .ok (mkFBin L false a b P)
  | .square, [a] => .ok (mkFBin L false a a P)
  | .call intr name, args => .ok (emit P (.call intr name args))
  | .powi n, [a] => .ok (emit P (.powi a n))
  | .cmpU p, [a, b] =>
    let (c, P1) := mkFCmp L p a b P
    .ok (mkUIToFP L c P1)
  | .truth, [a] => .ok (mkFCmp L .one a (.cf (zeroF L)) P)
  | .bop o, [a, b] => .ok (mkBop o a b P)
  | .notU, [a] =>
    let (c, P1) := mkNot a P
    .ok (mkUIToFP L c P1)
  | .toFP, [a] => .ok (mkUIToFP L a P)
  | .contains lo ro, [x, s, e] =>
    let (l, P1) := mkFCmp L (if lo then .olt else .ole) s x P
    let (r, P2) := mkFCmp L (if ro then .olt else .ole) x e P1
    let (c, P3) := mkBop .and l r P2
    .ok (mkUIToFP L c P3)
  | _, _ => .error .badArg

mutual
  /-- code generation for an operator tree; `env` maps bound symbols to SSA values -/
  def compileT (L : LOps α) (env : String → Option (Val α)) : T α → Prog α → Except Err (Val α × Prog α)
    | .cst x, P => .ok (.cf x, P)
    | .sym n, P =>
      match env n with
      | some v => .ok (v, P)
      | none => .error .runtime
    | .op k args, P =>
      match compileTs L env args P with
      | .error e => .error e
      | .ok (vs, P1) => emitOp L k vs P1
    | .pw c a b, P =>
      match compileT L env c P with
      | .error e => .error e
      | .ok (vc, P1) =>
        let (ic, P2) := mkFCmp L .one vc (.cf (zeroF L)) P1
        let (_, P3) := emit P2 (.condbr ic)
        match compileT L env a P3 with
        | .error e => .error e
        | .ok (va, P4) =>
          match compileT L env b P4 with
          | .error e => .error e
          | .ok (vb, P5) => .ok (emit P5 (.phi ic va vb))

  def compileTs (L : LOps α) (env : String → Option (Val α)) : List (T α) → Prog α → Except Err (List (Val α) × Prog α)
    | [], P => .ok ([], P)
    | t :: ts, P =>
      match compileT L env t P with
      | .error e => .error e
      | .ok (v, P1) =>
        match compileTs L env ts P1 with
        | .error e => .error e
        | .ok (vs, P2) => .ok (v :: vs, P2)
end

/-! ### lowering: the structural decisions of the bvisit methods -/

def isTwo : Expr → Bool
  | .int 2 => true
  | _ => false

/-- left fold `k(k(a₀, a₁), a₂) …` -/
def foldOp (k : OpK) : T α → List (T α) → T α
  | acc, [] => acc
  | acc, t :: ts => foldOp k (.op k [acc, t]) ts

structure LowCtx (α : Type) where
  L : LOps α
  defs : LDefs
  /-- eval_double's Constant table (bvisit(Constant) calls eval_double) -/
  consts : Defs
  /-- symbols that resolve (inputs and CSE replacement symbols defined so far) -/
  bound : String → Bool
  /-- symbols whose slot is a stale pointer of an earlier failed init (undefined behaviour) -/
  stale : String → Bool

def isTrueE : Expr → Bool
  | .bool true => true
  | _ => false

def lastIsTrue : List Expr → Bool
  | [] => false
  | [c] => isTrueE c
  | _ :: t => lastIsTrue t

def need (C : LowCtx α) (k : String) (d : LDef) : Except Err Unit :=
  match C.defs.find k with
  | some d' => if d' = d then .ok () else .error .noncanon
  | none => .error .notImpl

/-! The traversal is written with an explicit recursion parameter `rec` (= `lower` one level down)
so that `lower` is plain structural recursion on a depth bound. -/

def lowerListWith (rec : Expr → Except Err (T α)) : List Expr → Except Err (List (T α))
  | [] => .ok []
  | a :: t =>
    match rec a with
    | .error e => .error e
    | .ok x =>
      match lowerListWith rec t with
      | .error e => .error e
      | .ok xs => .ok (x :: xs)

/-- one Add entry: `key` when the coefficient is one, else `fmul key coefficient` -/
def lowerTermWith (rec : Expr → Except Err (T α)) (k c : Expr) : Except Err (T α) :=
  if isOne c then rec k
  else
    match rec k with
    | .error e => .error e
    | .ok tk =>
      match rec c with
      | .error e => .error e
      | .ok tc => .ok (.op .fmul [tk, tc])

def lowerTermsWith (rec : Expr → Except Err (T α)) (acc : T α) : List (Expr × Expr) → Except Err (T α)
  | [] => .ok acc
  | (k, c) :: rest =>
    match lowerTermWith rec k c with
    | .error e => .error e
    | .ok t => lowerTermsWith rec (.op .fadd [acc, t]) rest

def lowerPowWith (C : LowCtx α) (rec : Expr → Except Err (T α)) (b e : Expr) : Except Err (T α) :=
  match need C "Pow" .pow with
  | .error err => .error err
  | .ok _ =>
    if isE b then
      match rec e with
      | .error err => .error err
      | .ok te => .ok (.op (.call true "exp") [te])
    else if isTwo b then
      match rec e with
      | .error err => .error err
      | .ok te => .ok (.op (.call true "exp2") [te])
    else
      match e with
      | .int n =>
        match rec b with
        | .error err => .error err
        | .ok tb =>
          if n == 2 then .ok (.op .square [tb])
          else if n < -2147483648 || n > 2147483647 then .error .noncanon   -- numeric_cast<int> asserts
          else .ok (.op (.powi n) [tb])
      | _ =>
        match rec b with
        | .error err => .error err
        | .ok tb =>
          match rec e with
          | .error err => .error err
          | .ok te => .ok (.op (.call true "pow") [tb, te])

/-- one operand of `Mul::get_args()`: `base` when the exponent is one, else `Pow(base, exp)` -/
def lowerFacWith (C : LowCtx α) (rec : Expr → Except Err (T α)) (b e : Expr) : Except Err (T α) :=
  if isOne e then rec b else lowerPowWith C rec b e

def lowerFacsWith (C : LowCtx α) (rec : Expr → Except Err (T α)) (acc : T α) : List (Expr × Expr) → Except Err (T α)
  | [] => .ok acc
  | (b, e) :: rest =>
    match lowerFacWith C rec b e with
    | .error e => .error e
    | .ok t => lowerFacsWith C rec (.op .fmul [acc, t]) rest

/-- Piecewise::get_args() = e₁ c₁ e₂ c₂ …; the last predicate must be True; more than two pieces
are nested as `[(e₁, c₁), (Piecewise(rest), True)]` -/
def lowerPwWith (rec : Expr → Except Err (T α)) : List Expr → Except Err (T α)
  | e1 :: c1 :: tail =>
    if !(lastIsTrue (c1 :: tail)) then .error .runtime
    else
      match tail with
      | [] => .error .runtime          -- "Invalid Piecewise object"
      | [_] => .error .runtime
      | [e2, _] =>
        match rec c1 with
        | .error err => .error err
        | .ok tc =>
          match rec e1 with
          | .error err => .error err
          | .ok ta =>
            match rec e2 with
            | .error err => .error err
            | .ok tb => .ok (.pw tc ta tb)
      | _ :: _ :: _ :: _ =>
        match rec c1 with
        | .error err => .error err
        | .ok tc =>
          match rec e1 with
          | .error err => .error err
          | .ok ta =>
            match lowerPwWith rec tail with
            | .error err => .error err
            | .ok tb => .ok (.pw tc ta tb)
  | _ => .error .runtime

/-- one level of `apply(b)`: the operator tree the visitor generates code for, or the exception it throws -/
def lowerStep (C : LowCtx α) (rec : Expr → Except Err (T α)) : Expr → Except Err (T α)
  | .int n =>
    match need C "Integer" .leafInt with
    | .error e => .error e
    | .ok _ => .ok (.cst (C.L.O.ofQTrunc n 1))
  | .rat n d =>
    match need C "Rational" .leafRat with
    | .error e => .error e
    | .ok _ => .ok (.cst (C.L.O.ofQTrunc n d))
  | .dbl b =>
    match need C "RealDouble" .leafDouble with
    | .error e => .error e
    | .ok _ => .ok (.cst (C.L.O.ofBits b))
  | .bool b =>
    match need C "BooleanAtom" .leafBool with
    | .error e => .error e
    | .ok _ => .ok (.cst (C.L.O.ofBool b))
  | .infty dir =>
    match need C "Infty" .leafInfty with
    | .error e => .error e
    | .ok _ =>
      if dir == 1 then .ok (.cst (C.L.O.inf false))
      else if dir == -1 then .ok (.cst (C.L.O.inf true))
      else .error .runtime
  | .nan =>
    match need C "NaN" .leafNaN with
    | .error e => .error e
    | .ok _ => .ok (.cst C.L.O.nan)
  | .const name =>
    match need C "Constant" .constant with
    | .error e => .error e
    | .ok _ =>
      match C.consts.find "Constant" with
      | some (.const tbl) =>
        match tbl.lookup name with
        | some f =>
          match evalF C.L.O [] f with
          | .ok x => .ok (.cst x)
          | .error e => .error e
        | none => .error .notImpl
      | _ => .error .notImpl
  | .sym name =>
    match need C "Symbol" .symbol with
    | .error e => .error e
    | .ok _ =>
      if C.stale name then .error .badArg
      else if C.bound name then .ok (.sym name)
      else .error .runtime
  | .add coef terms =>
    match need C "Add" .add with
    | .error e => .error e
    | .ok _ =>
      if isZero coef then
        match terms with
        | [] => .error .badArg      -- `it` dereferences end(): undefined behaviour
        | (k, c) :: rest =>
          match lowerTermWith rec k c with
          | .error e => .error e
          | .ok t0 => lowerTermsWith rec t0 rest
      else
        match rec coef with
        | .error e => .error e
        | .ok t0 => lowerTermsWith rec t0 terms
  | .mul coef facs =>
    match need C "Mul" .mul with
    | .error e => .error e
    | .ok _ =>
      -- Mul::get_args(): coef_ unless one, then base or Pow(base, exp) per dictionary entry
      if isOne coef then
        match facs with
        | [] => .error .badArg      -- result_ = nullptr
        | (b, e) :: rest =>
          match lowerFacWith C rec b e with
          | .error e => .error e
          | .ok t0 => lowerFacsWith C rec t0 rest
      else
        match rec coef with
        | .error e => .error e
        | .ok t0 => lowerFacsWith C rec t0 facs
  | .pow b e => lowerPowWith C rec b e
  | .app head args =>
    match C.defs.find head with
    | none => .error .notImpl
    | some (.intrinsic name) =>
      match args with
      | [a] =>
        match rec a with
        | .error e => .error e
        | .ok t => .ok (.op (.call true name) [t])
      | _ => .error .noncanon
    | some (.external name) =>
      match lowerListWith rec args with
      | .error e => .error e
      | .ok ts => .ok (.op (.call false name) ts)
    | some (.foldIntr name) =>
      match lowerListWith rec args with
      | .error e => .error e
      | .ok [] => .error .badArg    -- result_ = nullptr
      | .ok (t0 :: ts) => .ok (foldOp (.call true name) t0 ts)
    | some (.relational p) =>
      match args with
      | [a, b] =>
        match rec a with
        | .error e => .error e
        | .ok ta =>
          match rec b with
          | .error e => .error e
          | .ok tb => .ok (.op (.cmpU p) [ta, tb])
      | _ => .error .noncanon
    | some (.logic o) =>
      match lowerListWith rec args with
      | .error e => .error e
      | .ok [] => .error .badArg    -- CreateUIToFP(nullptr)
      | .ok (t0 :: ts) =>
        .ok (.op .toFP [foldOp (.bop o) (.op .truth [t0]) (ts.map fun t => .op .truth [t])])
    | some .lnot =>
      match args with
      | [a] =>
        match rec a with
        | .error e => .error e
        | .ok t => .ok (.op .notU [.op .truth [t]])
      | _ => .error .noncanon
    | some .unevaluated =>
      match args with
      | [a] => rec a
      | _ => .error .noncanon
    | some .contains =>
      match args with
      | [x, .app "Interval" [s, e, .bool lo, .bool ro]] =>
        match rec x with
        | .error e => .error e
        | .ok tx =>
          match rec s with
          | .error e => .error e
          | .ok ts =>
            match rec e with
            | .error e => .error e
            | .ok te => .ok (.op (.contains lo ro) [tx, ts, te])
      | x :: _ =>
        match rec x with
        | .error e => .error e
        | .ok _ => .error .runtime
      | [] => .error .noncanon
    | some .piecewise => lowerPwWith rec args
    -- Sign and the RewriteTrigVisitor kinds are expanded by the library's own constructors before
    -- they are visited; the model only sees the expanded tree
    | some _ => .error .noncanon
  | .cplx _ _ => .error .notImpl
  | .cdbl _ _ => .error .notImpl
  | .dummy _ _ => .error .notImpl
  | .fsym _ _ => .error .notImpl

/-- `apply(b)` with a bound on the nesting depth (`noncanon` when it is exceeded; the driver passes the
size of the dump) -/
def lower (C : LowCtx α) : Nat → Expr → Except Err (T α)
  | 0, _ => .error .noncanon
  | fuel + 1, e => lowerStep C (lower C fuel) e

end SymVerif.LLVMD
