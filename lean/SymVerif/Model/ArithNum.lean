/-
Number arithmetic on the numeric *leaves* of `SymVerif.Expr`, as needed by the
model of the arithmetic smart constructors (Model/Arith.lean, property C03).

Exact numbers (Integer, Rational, Complex = Gaussian rational) are handled
through their value in ℚ(i): every C++ operation `Integer::add`,
`Rational::mulrat`, `Complex::mulcomp`, … computes the exact value and then
normalises the *class* of the result with `Rational::from_mpq` /
`Complex::from_mpq` (denominator 1 → Integer, imaginary part 0 → Rational).
`ofQ` / `ofGQ` are these two functions.  The per-class dispatch itself is the
subject of C05/C06 (Model/Num.lean, another work package); this file is
deliberately independent of it.

Infty / NaN appear only as *results* (`div(x,0)`, `pow(0,-1)`, `0**-n` inside a
product); the few operations that can meet them afterwards inside one
constructor call (`imulnum`/`iaddnum` with an exact number) are modelled after
`Infty::mul`, `Infty::add`, `NaN::mul`, `NaN::add`; everything else on them is
`Err.unsupported` (the generator stays away).  No floating point here.

Core Lean only.
-/
import SymVerif.Model.Expr

namespace SymVerif
namespace Arith

inductive Err where
  | badCast      -- a `down_cast`/`static_cast` to a class the object does not have (UB in the C++)
  | assert       -- an explicit SYMENGINE_ASSERT other than is_canonical (as_coef_term on Add, as_base_exp on Mul)
  | fuel         -- recursion fuel exhausted (never for harness-sized inputs)
  | unsupported  -- operand outside the modelled exact fragment
  | runtime      -- SymEngineException (e.g. powint: exponent does not fit unsigned long)
  | notImpl      -- NotImplementedError
  | range        -- exponent beyond the model's safety cap
  deriving Repr, DecidableEq, BEq, Inhabited

abbrev R := Except Err

/-! ### rational_class -/

/-- `canonicalize`: reduce to lowest terms (denominator assumed positive). -/
def Q.norm (n : Int) (d : Nat) : Q :=
  let g := Nat.gcd n.natAbs d
  if g == 0 then ⟨0, 1⟩ else ⟨n / (g : Int), d / g⟩

def Q.zero : Q := ⟨0, 1⟩
def Q.one : Q := ⟨1, 1⟩
def Q.ofInt (n : Int) : Q := ⟨n, 1⟩
def Q.add (a b : Q) : Q := Q.norm (a.num * b.den + b.num * a.den) (a.den * b.den)
def Q.neg (a : Q) : Q := ⟨-a.num, a.den⟩
def Q.sub (a b : Q) : Q := Q.add a (Q.neg b)
def Q.mul (a b : Q) : Q := Q.norm (a.num * b.num) (a.den * b.den)
/-- reciprocal (caller guarantees `a.num ≠ 0`; sign moves to the numerator as in `mpq_inv`) -/
def Q.inv (a : Q) : Q :=
  if a.num < 0 then ⟨-(a.den : Int), a.num.natAbs⟩ else ⟨(a.den : Int), a.num.natAbs⟩
def Q.isZero (a : Q) : Bool := a.num == 0
def Q.lt (a b : Q) : Bool := a.num * b.den < b.num * a.den
/-- `mp_pow_ui` on numerator and denominator (no re-canonicalisation, as in `Rational::powrat`) -/
def Q.powNat (a : Q) (k : Nat) : Q := ⟨a.num ^ k, a.den ^ k⟩
/-- a `rational_class` value in canonical form -/
def Q.canon (q : Q) : Bool := q.den != 0 && Nat.gcd q.num.natAbs q.den == 1

/-! ### class normalisation -/

/-- `Rational::from_mpq` -/
def ofQ (q : Q) : Expr := if q.den == 1 then .int q.num else .rat q.num q.den

/-- `Complex::from_mpq` -/
def ofGQ (re im : Q) : Expr := if im.num == 0 then ofQ re else .cplx re im

/-- exact number leaves as Gaussian rationals -/
def toGQ : Expr → Option (Q × Q)
  | .int n => some (⟨n, 1⟩, Q.zero)
  | .rat n d => some (⟨n, d⟩, Q.zero)
  | .cplx re im => some (re, im)
  | _ => none

def isExactNum : Expr → Bool
  | .int _ | .rat _ _ | .cplx _ _ => true
  | _ => false

/-! ### the `Number` predicates (`is_zero`, `is_one`, …) -/

def numIsZero : Expr → Bool
  | .int n => n == 0
  | .rat n _ => n == 0            -- `i == 0`
  | _ => false                    -- Complex, Infty, NaN: false (floats are outside the fragment)

def numIsOne : Expr → Bool
  | .int n => n == 1
  | .rat n d => n == (d : Int)    -- `i == 1`
  | _ => false

def numIsMinusOne : Expr → Bool
  | .int n => n == -1
  | .rat n d => n == -(d : Int)
  | _ => false

def numIsPositive : Expr → Bool
  | .int n => n > 0
  | .rat n _ => n > 0
  | .infty d => d > 0
  | _ => false

def numIsNegative : Expr → Bool
  | .int n => n < 0
  | .rat n _ => n < 0
  | .infty d => d < 0
  | _ => false

/-- `is_number_and_zero` -/
def isNumZero (e : Expr) : Bool := e.isNum && numIsZero e

/-! ### add / mul -/

/-- `addnum` / `iaddnum` -/
def numAdd (a b : Expr) : R Expr :=
  match toGQ a, toGQ b with
  | some (ar, ai), some (br, bi) => .ok (ofGQ (Q.add ar br) (Q.add ai bi))
  | _, _ =>
    if !a.isNum || !b.isNum then .error .badCast
    else match a, b with
      | .nan, _ => if isExactNum b then .ok .nan else .error .unsupported      -- NaN::add
      | _, .nan => if isExactNum a then .ok .nan else .error .unsupported      -- Integer::add → other.add(*this)
      | .infty d, _ => if isExactNum b then .ok (.infty d) else .error .unsupported  -- Infty::add
      | _, .infty d => if isExactNum a then .ok (.infty d) else .error .unsupported
      | _, _ => .error .unsupported

/-- `Infty::mul` with an exact number (`this` = infinity of direction `d`) -/
def inftyMulExact (d : Int) (x : Expr) : R Expr :=
  match x with
  | .cplx _ _ => .error .notImpl
  | _ =>
    if numIsPositive x then .ok (.infty d)
    else if numIsNegative x then .ok (.infty (d * (-1)))
    else .ok .nan

/-- `mulnum` / `imulnum` -/
def numMul (a b : Expr) : R Expr :=
  match toGQ a, toGQ b with
  | some (ar, ai), some (br, bi) =>
    .ok (ofGQ (Q.sub (Q.mul ar br) (Q.mul ai bi)) (Q.add (Q.mul ar bi) (Q.mul ai br)))
  | _, _ =>
    if !a.isNum || !b.isNum then .error .badCast
    else match a, b with
      | .nan, _ => if isExactNum b then .ok .nan else .error .unsupported
      | _, .nan => if isExactNum a then .ok .nan else .error .unsupported
      | .infty d, _ => if isExactNum b then inftyMulExact d b else .error .unsupported
      | _, .infty d => if isExactNum a then inftyMulExact d a else .error .unsupported
      | _, _ => .error .unsupported

def numNeg (a : Expr) : R Expr := numMul a (.int (-1))

/-! ### integer powers of exact numbers -/

/-- the model refuses exponents beyond this bound (`Err.range`); the library would
compute (or throw for exponents ≥ 2^64), the generator stays far below. -/
def expCap : Nat := 4096

/-- square-and-multiply in ℚ(i), as `pow_number` in complex.cpp -/
def gqPowNat (re im : Q) : Nat → Nat → Q × Q
  | 0, _ => (Q.one, Q.zero)
  | fuel + 1, k =>
    if k == 0 then (Q.one, Q.zero)
    else
      let (hr, hi) := gqPowNat (Q.sub (Q.mul re re) (Q.mul im im)) (Q.mul (Q.ofInt 2) (Q.mul re im)) fuel (k / 2)
      if k % 2 == 1 then (Q.sub (Q.mul hr re) (Q.mul hi im), Q.add (Q.mul hr im) (Q.mul hi re))
      else (hr, hi)

/-- `Number::pow(const Integer&)` for an exact base: `Integer::powint` / `pow_negint`,
`Rational::powrat(Integer)`, `Complex::powcomp`.

`0 ** negative`: `Integer::pow_negint` builds `rational_class(mp_sign(0), mp_abs(0))`
= 0/0 (a later `canonicalize` divides by zero — defect N2).  The model follows the
patched code, which returns `ComplexInf` there. -/
def numPowInt (a : Expr) (n : Int) : R Expr :=
  if n.natAbs > expCap then .error .range else
  match a with
  | .int b =>
    if n ≥ 0 then .ok (.int (b ^ n.toNat))
    else
      let j := b ^ n.natAbs
      if j == 0 then .ok (.infty 0)
      else .ok (ofQ ⟨Int.sign j, j.natAbs⟩)       -- rational_class(mp_sign(j), mp_abs(j))
  | .rat p q =>
    let v := Q.powNat ⟨p, q⟩ n.natAbs
    if n ≥ 0 then .ok (ofQ v) else .ok (ofQ (Q.inv v))   -- from_mpq(1 / val)
  | .cplx re im =>
    let (pr, pi) := gqPowNat re im 64 n.natAbs
    if n ≥ 0 then .ok (ofGQ pr pi)
    else
      -- one->div(*pow_number(...)): conj / |z|^2 (rdivcomp), or a rational reciprocal
      let m := Q.add (Q.mul pr pr) (Q.mul pi pi)
      if Q.isZero m then .error .unsupported
      else .ok (ofGQ (Q.mul pr (Q.inv m)) (Q.mul (Q.neg pi) (Q.inv m)))
  | _ => if a.isNum then .error .unsupported else .error .badCast

/-- `pownum(self, other)` where `other` has been checked to be an Integer -/
def numPow (a e : Expr) : R Expr :=
  match e with
  | .int n => numPowInt a n
  | _ => .error .badCast

/-! ### integer n-th roots (`mp_root`) -/

/-- bisection: greatest `r` in `[lo, hi)` with `r^n ≤ a`, given `lo^n ≤ a < hi^n` -/
def irootBisect (a n : Nat) : Nat → Nat → Nat → Nat
  | 0, lo, _ => lo
  | fuel + 1, lo, hi =>
    if hi ≤ lo + 1 then lo
    else
      let mid := (lo + hi) / 2
      if mid ^ n ≤ a then irootBisect a n fuel mid hi else irootBisect a n fuel lo mid

/-- floor of the real `n`-th root of `a` (`n ≥ 1`) -/
def iroot (a n : Nat) : Nat :=
  if n == 0 then 0
  else
    let bits := a.log2 / n + 1
    irootBisect a n (bits + 2) 0 (2 ^ bits)

/-- `i_nth_root(res, a, n)` for `a ≥ 0`: `some r` iff `r^n = a` exactly -/
def exactRoot (a n : Nat) : Option Nat :=
  let r := iroot a n
  if r ^ n == a then some r else none

end Arith
end SymVerif
