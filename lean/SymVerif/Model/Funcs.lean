/-
C08 model: the automatic evaluation done by the function constructors of
symengine/functions.cpp and symengine/ntheory_funcs.cpp.  Core Lean only.

Modelled code (C++ function -> definition here)
  get_pi_shift                      getPiShift          (on the linear view, see below)
  could_extract_minus               leadNeg             (the Add case takes the dictionary order as a parameter)
  handle_minus                      handleMinus
  trig_simplify                     trigSimplify
  sin cos tan cot csc sec           trigCtor            (one function, parameters per constructor: `TrigFn.*`)
  sin_table / inverse_cst / _tct    Gen/TrigTables.lean (generated from the sources)
  inverse_lookup, asin acos asec acsc atan acot atan2   invCtor, atan2Ctor
  sinh csch cosh sech tanh coth asinh acsch atanh acoth erf erfc abs (parity rewrites)   parCtor
  floor ceiling truncate sign abs conjugate on exact numbers and constants               numCtor
  gamma / gamma_positive_int / gamma_multiple_2                                          gammaNum
  kronecker_delta, levi_civita / eval_levicivita, max, min (numbers), primepi, primorial numCtor

The linear view.  Every argument the trigonometric logic looks at is a *linear form*
`c + Σ qᵢ·kᵢ` with rational `c, qᵢ` over atoms `kᵢ` (symbols, pi, products, powers, function
applications): an `Add` stores exactly that, a `Mul` with a rational coefficient is one term, anything
else is one atom with coefficient 1.  `toLin`/`ofLin` convert between the stored tree (`Expr`) and
`Lin`; `ofLin` rebuilds the canonical tree (`Add::from_dict` / `Mul::from_dict` collapse rules).
The C++ case analysis on Add/Mul/Symbol in get_pi_shift and handle_minus computes, case by case,
the operations `piCoef/dropPi/addPi/neg` of this view.

Code as patched (docs/patches/C08_*.patch): `gamma_multiple_2` computes the odd double factorial in
arbitrary precision (the C++ `int j` overflows from gamma(23/2) on); floor/ceiling/truncate of an exact
Complex act on both parts (the C++ returns the argument unchanged); `sign` of an exact Complex with
non-zero real part stays unevaluated (the C++ builds an object failing `Sign::is_canonical`); `atan2(0, x)`
with a symbolic `x` stays unevaluated (the C++ builds an object failing `ATan2::is_canonical`).
-/
import SymVerif.Model.Expr
import SymVerif.Model.ExprEq
import SymVerif.Model.Surd
import SymVerif.Gen.TrigTables

namespace SymVerif.Funcs
open SymVerif

inductive Err where
  | fuel      -- recursion budget exhausted (never on generated inputs; theorem: enough fuel exists)
  | order     -- the order parameter does not mention any key of the dictionary
  | oob       -- sin_table()[-1]: index -1 used as a table index
  | uninit    -- `index` read although trig_simplify did not set it
  | skip      -- outside the modelled fragment
  | assert    -- the C++ builds a non-canonical object (SYMENGINE_ASSERT fails)
  | runtime   -- SymEngineException
  deriving Repr, DecidableEq, Inhabited

/-! ### rationals <-> number leaves -/

def ratOfExpr : Expr → Option Rat
  | .int n => some (n : Rat)
  | .rat n d => if d == 0 then none else some (mkRat n d)
  | _ => none

def ratToExpr (q : Rat) : Expr := if q.den == 1 then .int q.num else .rat q.num q.den

def isPi : Expr → Bool
  | .const n => n == "pi"
  | _ => false

def piE : Expr := .const "pi"

/-! ### linear forms -/

structure Lin where
  c : Rat
  ts : List (Expr × Rat)
  deriving Inhabited

namespace Lin

def zero : Lin := ⟨0, []⟩
def isZero (l : Lin) : Bool := l.c == 0 && l.ts.isEmpty
def neg (l : Lin) : Lin := ⟨-l.c, l.ts.map fun p => (p.1, -p.2)⟩

def piCoef (l : Lin) : Option Rat := (l.ts.find? (fun p => isPi p.1)).map (·.2)
def dropPi (l : Lin) : Lin := ⟨l.c, l.ts.filter (fun p => !isPi p.1)⟩

/-- `add(l, mul(pi, q))` -/
def addPi (l : Lin) (q : Rat) : Lin :=
  if q == 0 then l else
  match l.piCoef with
  | none => ⟨l.c, l.ts ++ [(piE, q)]⟩
  | some p =>
    if p + q == 0 then l.dropPi
    else ⟨l.c, l.ts.map fun kv => if isPi kv.1 then (kv.1, kv.2 + q) else kv⟩

/-- at most one `pi` entry (always true for the dictionary of a real `Add`: keys are unique) -/
def wf (l : Lin) : Bool := decide ((l.ts.filter (fun p => isPi p.1)).length ≤ 1)

def coefOf (l : Lin) (k : Expr) : Option Rat := (l.ts.find? (fun p => Expr.eqb p.1 k)).map (·.2)

/-- same linear form (`eq(*a, *b)` on the canonical trees): same constant, same terms in any order -/
def eqv (a b : Lin) : Bool :=
  a.c == b.c && a.ts.length == b.ts.length &&
  a.ts.all (fun p => match b.coefOf p.1 with | some q => q == p.2 | none => false)

end Lin

/-- the term `q·k` as a canonical tree (`mul(k, q)` for an Add-dictionary key `k`) -/
def termExpr (k : Expr) (q : Rat) : Expr :=
  if q == 1 then k else
  match k with
  | .mul (.int 1) fs => .mul (ratToExpr q) fs
  | .pow b e => .mul (ratToExpr q) [(b, e)]
  | k => .mul (ratToExpr q) [(k, .int 1)]

/-- `Add::from_dict(c, ts)` -/
def ofLin (l : Lin) : Expr :=
  match l.ts with
  | [] => ratToExpr l.c
  | [(k, q)] => if l.c == 0 then termExpr k q else .add (ratToExpr l.c) [(k, ratToExpr q)]
  | ts => .add (ratToExpr l.c) (ts.map fun p => (p.1, ratToExpr p.2))

def isAddE : Expr → Bool
  | .add _ _ => true
  | _ => false

/-- entries of an `Add` dictionary; a key that is itself an `Add` (a non-flattened sum, which the
library's `add` would flatten on the next operation) is outside the modelled fragment -/
def linTerms : List (Expr × Expr) → Option (List (Expr × Rat))
  | [] => some []
  | (k, v) :: t => do
    let q ← ratOfExpr v
    let r ← linTerms t
    if isAddE k then none else pure ((k, q) :: r)

/-- the linear view of a stored tree; `none` when a coefficient is not an exact rational
(complex / floating coefficients are outside the modelled fragment) -/
def toLin : Expr → Option Lin
  | .int n => some ⟨(n : Rat), []⟩
  | .rat n d => (ratOfExpr (.rat n d)).map (⟨·, []⟩)
  | .add c ts => do
    let c ← ratOfExpr c
    let ts ← linTerms ts
    pure ⟨c, ts⟩
  | .mul c fs =>
    match ratOfExpr c with
    | none => none
    | some q =>
      if q == 1 then some ⟨0, [(.mul c fs, 1)]⟩
      else match fs with
        | [(b, .int 1)] => some ⟨0, [(b, q)]⟩
        | [(b, e)] => some ⟨0, [(.pow b e, q)]⟩
        | fs => some ⟨0, [(.mul (.int 1) fs, q)]⟩
  | .cplx _ _ | .dbl _ | .cdbl _ _ | .infty _ | .nan | .bool _ => none
  | e => some ⟨0, [(e, 1)]⟩

/-! ### get_pi_shift -/

/-- `get_pi_shift(arg, n, x)`: `arg = x + n·pi` with rational `n`; true also for `arg = 0` -/
def getPiShift (l : Lin) : Option (Rat × Lin) :=
  match l.piCoef with
  | some n => some (n, l.dropPi)
  | none => if l.isZero then some (0, l) else none

/-- `trig_has_basic_shift`: twice the pi coefficient is an integer, or lies outside (0, 1) -/
def trigHasBasicShift (l : Lin) : Bool :=
  match l.piCoef with
  | some n =>
    let m := n * 2
    if m.den == 1 then true else (m < 0 || m > 1)
  | none => l.isZero

/-! ### could_extract_minus / handle_minus -/

/-- `could_extract_minus` on the linear view.  For an `Add` with zero constant the C++ copies the
dictionary into a `map_basic_num` and looks at the *first* entry; `order` lists the keys in that
map order (supplied by the harness, which asks the real library). -/
def leadNeg (order : List Expr) (l : Lin) : Except Err Bool :=
  if l.c != 0 then .ok (l.c < 0)
  else match l.ts with
    | [] => .ok false
    | [p] => .ok (p.2 < 0)
    | ts =>
      match order.find? (fun o => ts.any (fun p => Expr.eqb p.1 o)) with
      | some o =>
        match (ts.find? (fun p => Expr.eqb p.1 o)) with
        | some p => .ok (p.2 < 0)
        | none => .error .order
      | none => .error .order

/-- `handle_minus(arg, rarg)`: returns `(b, rarg)` with `rarg = -arg` if `b` else `rarg = arg`.
The only place where the C++ recursion is visible is `-(Add)` = `Mul(-1, {Add: 1})`. -/
def handleMinus (order : List Expr) : Nat → Lin → Except Err (Bool × Lin)
  | 0, _ => .error .fuel
  | fuel + 1, l =>
    match l.c == 0, l.ts with
    | true, [(.add c ts, q)] =>
      if q == -1 then
        match toLin (.add c ts) with
        | none => .error .skip
        | some inner =>
          if !inner.wf then .error .skip else do
          let (b, r) ← handleMinus order fuel inner
          pure (!b, r)
      else do
        let b ← leadNeg order l
        pure (if b then (true, l.neg) else (false, l))
    | _, _ => do
      let b ← leadNeg order l
      pure (if b then (true, l.neg) else (false, l))

def hmFuel : Nat := 64

/-! ### trig_simplify -/

/-- floor of a rational as a rational -/
def ratFloor (q : Rat) : Rat := (q.floor : Rat)

/-- `m` of trig_simplify: `arg = r + pi·m/2` modulo the period, `m = 2·period·frac(n/period)` for a
non-integer `n` and `m = 2·|n|` for an integer `n` (the C++ does not reduce the integer case) -/
def shiftM (n : Rat) (period : Nat) : Rat :=
  (if n.den == 1 then (n.num.natAbs : Rat) / (period : Rat)
   else n / (period : Rat) - ratFloor (n / (period : Rat))) * (2 * (period : Rat))

structure Simp where
  conj : Bool
  rarg : Lin
  /-- `none`: the C++ leaves `index` uninitialised on this path -/
  index : Option Int
  sign : Int

/-- run `handle_minus` on `l` and build the outputs from its flag and result -/
def withMinus (order : List Expr) (l : Lin) (k : Bool → Lin → Simp) : Except Err Simp :=
  match handleMinus order hmFuel l with
  | .error e => .error e
  | .ok (b, ra) => .ok (k b ra)

/-- no pi shift found: `handle_minus(arg)`, `index = -1` -/
def simpNoShift (order : List Expr) (arg : Lin) (odd : Bool) : Except Err Simp :=
  withMinus order arg fun b ra => ⟨false, ra, some (-1), if odd && b then -1 else 1⟩

/-- `12·n` is a multiple of `12·period` and `r ≠ 0`: `index = 0`, `handle_minus(r)` -/
def simpEarlyMinus (order : List Expr) (r : Lin) (odd : Bool) : Except Err Simp :=
  withMinus order r fun b ra => ⟨false, ra, some 0, if odd && b then -1 else 1⟩

/-- `2 ≤ m < 3`: a half turn; `q = (m-2)/2`; `index` stays uninitialised -/
def simpHalf (order : List Expr) (r : Lin) (q : Rat) (odd : Bool) : Except Err Simp :=
  withMinus order (r.addPi q) fun b ra => ⟨false, ra, none, if odd && b then 1 else -1⟩

/-- `1 ≤ m < 2` (`s0 = 1`, `q = (m-1)/2`) or `3 ≤ m` (`s0 = -1`, `q = (m-3)/2`): a quarter turn, the
co-function has to be returned -/
def simpQuarter (order : List Expr) (r : Lin) (s0 : Int) (q : Rat) (conjOdd : Bool) : Except Err Simp :=
  withMinus order (r.addPi q) fun b ra => ⟨true, ra, none, if !b && conjOdd then -s0 else s0⟩

/-- the part of trig_simplify after the two early exits -/
def simpFall (order : List Expr) (r : Lin) (n : Rat) (period : Nat) (odd conjOdd : Bool) : Except Err Simp :=
  let m := shiftM n period
  if 2 ≤ m && m < 3 then simpHalf order r ((m - 2) / 2) odd
  else if 1 ≤ m then
    if m < 2 then simpQuarter order r 1 ((m - 1) / 2) conjOdd
    else simpQuarter order r (-1) ((m - 3) / 2) conjOdd
  else .ok ⟨false, r.addPi (m / 2), some (-1), 1⟩

/-- `trig_simplify(arg, period, odd, conj_odd, rarg, index, sign)` -/
def trigSimplify (order : List Expr) (arg : Lin) (period : Nat) (odd conjOdd : Bool) : Except Err Simp :=
  match getPiShift arg with
  | none => simpNoShift order arg odd
  | some (n, r) =>
    let t := n * 12
    if t.den == 1 then
      let m := t.num % (12 * (period : Int))
      if r.isZero then .ok ⟨false, Lin.zero, some m, 1⟩
      else if m == 0 then simpEarlyMinus order r odd
      else simpFall order r n period odd conjOdd
    else simpFall order r n period odd conjOdd

/-! ### the six trigonometric constructors -/

inductive TrigFn where
  | sin | cos | tan | cot | csc | sec
  deriving DecidableEq, Repr, Inhabited

namespace TrigFn
def period : TrigFn → Nat
  | sin | cos | csc | sec => 2
  | tan | cot => 1
def odd : TrigFn → Bool
  | sin | tan | cot | csc => true
  | cos | sec => false
def conjOdd : TrigFn → Bool
  | sin | csc => false
  | cos | tan | cot | sec => true
/-- the function returned when `trig_simplify` asks for the "conjugate" -/
def co : TrigFn → TrigFn
  | sin => cos | cos => sin | tan => cot | cot => tan | csc => sec | sec => csc
def name : TrigFn → String
  | sin => "Sin" | cos => "Cos" | tan => "Tan" | cot => "Cot" | csc => "Csc" | sec => "Sec"
def ofName : String → Option TrigFn
  | "Sin" => some sin | "Cos" => some cos | "Tan" => some tan | "Cot" => some cot
  | "Csc" => some csc | "Sec" => some sec | _ => none
/-- heads of the inverse functions that the constructor cancels before anything else -/
def cancels : TrigFn → List String
  | sin => ["ASin", "ACsc"] | cos => ["ACos", "ASec"] | tan => ["ATan", "ACot"]
  | cot => ["ACot", "ATan"] | csc => ["ACsc", "ASin"] | sec => ["ASec", "ACos"]
/-- constructors with an explicit `if (eq(*arg, *zero)) return …` -/
def zeroSpecial : TrigFn → Bool
  | sin | cos | tan => true
  | _ => false
end TrigFn

/-- result of a trigonometric constructor -/
inductive Res where
  /-- `mul(integer(sgn), <table expression of fn at index idx>)`: the value `sgn · fn(pi·idx/12)` -/
  | tab (sgn : Int) (fn : TrigFn) (idx : Nat)
  /-- `sgn · fn(arg)` as an unevaluated application -/
  | app (sgn : Int) (fn : TrigFn) (arg : Lin)
  deriving Inhabited

def Res.scale (s : Int) : Res → Res
  | .tab sgn fn i => .tab (s * sgn) fn i
  | .app sgn fn a => .app (s * sgn) fn a

def isCancelArg (fn : TrigFn) (l : Lin) : Bool :=
  match l.c == 0, l.ts with
  | true, [(.app h _, q)] => q == 1 && fn.cancels.contains h
  | _, _ => false

/-- `sin(arg)`, `cos(arg)`, … : the shared shape of the six constructors -/
def trigCtor (order : List Expr) : Nat → TrigFn → Lin → Except Err Res
  | 0, _, _ => .error .fuel
  | fuel + 1, fn, arg =>
    if fn.zeroSpecial && arg.isZero then .ok (.tab 1 fn 0)
    else if isCancelArg fn arg then .error .skip
    else do
      let s ← trigSimplify order arg fn.period fn.odd fn.conjOdd
      if s.conj then do
        let r ← trigCtor order fuel fn.co s.rarg
        pure (r.scale s.sign)
      else if s.rarg.isZero then
        match s.index with
        | none => .error .uninit
        | some i => if i < 0 then .error .oob else pure (.tab s.sign fn i.toNat)
      else if s.sign == 1 then
        if !(s.rarg.eqv arg) then trigCtor order fuel fn s.rarg
        else pure (.app 1 fn arg)
      else do
        let r ← trigCtor order fuel fn s.rarg
        pure (r.scale (-1))

def trigFuel : Nat := 16

/-! ### table values -/

/-- exact value or complex infinity -/
inductive SVal where
  | fin (s : Surd)
  | zoo
  deriving Repr, Inhabited

open Gen.TrigTables in
def sinTab (i : Nat) : Option Surd := (sinTable[i % 24]?).bind Recipe.evalS

def sdiv (a b : Option Surd) : Option SVal := do
  let x ← a
  let y ← b
  match Surd.div? x y with
  | some q => pure (.fin q)
  | none => pure .zoo

/-- the expression the constructor builds from `sin_table()` at `index` -/
def tableVal (fn : TrigFn) (i : Nat) : Option SVal :=
  match fn with
  | .sin => (sinTab i).map .fin
  | .cos => (sinTab (i + 6)).map .fin
  | .tan => sdiv (sinTab i) (sinTab (i + 6))
  | .cot => sdiv (sinTab (i + 6)) (sinTab i)
  | .csc => sdiv (some Surd.one) (sinTab i)
  | .sec => sdiv (some Surd.one) (sinTab (i + 6))

/-! ### printing -/

def negE (e : Expr) : Expr := .mul (.int (-1)) [(e, .int 1)]

def Res.render : Res → String
  | .app sgn fn a =>
    let e := Expr.app fn.name [ofLin a]
    Expr.dumpCanon (if sgn == 1 then e else negE e)
  | .tab sgn fn i =>
    match tableVal fn i with
    | none => "SKIP:table-value-outside-Q(sqrt2,sqrt3)"
    | some .zoo => "(oo 0)"
    | some (.fin s) => (Surd.smul (sgn : Rat) s).render

def errStr : Err → String
  | .fuel => "E:fuel" | .order => "E:order" | .oob => "E:oob" | .uninit => "E:uninit"
  | .skip => "SKIP:fragment" | .assert => "E:Assert" | .runtime => "E:Runtime"

/-! ### parity rewrites through handle_minus (hyperbolic functions, erf, erfc, abs) -/

def log1pSqrt2 : Expr := .app "Log" [.add (.int 1) [(.pow (.int 2) (.rat 1 2), .int 1)]]
def logSqrt2m1 : Expr := .app "Log" [.add (.int (-1)) [(.pow (.int 2) (.rat 1 2), .int 1)]]

inductive Parity where
  | odd | even | erfc | abs
  deriving DecidableEq

structure ParSpec where
  name : String
  parity : Parity
  /-- value at 0 (`none`: no special case) -/
  atZero : Option Expr
  atOne : Option Expr := none
  atMinusOne : Option Expr := none

def zooE : Expr := .infty 0

def parSpec : String → Option ParSpec
  | "Sinh" => some ⟨"Sinh", .odd, some (.int 0), none, none⟩
  | "Csch" => some ⟨"Csch", .odd, some zooE, none, none⟩
  | "Cosh" => some ⟨"Cosh", .even, some (.int 1), none, none⟩
  | "Sech" => some ⟨"Sech", .even, some (.int 1), none, none⟩
  | "Tanh" => some ⟨"Tanh", .odd, some (.int 0), none, none⟩
  | "Coth" => some ⟨"Coth", .odd, some zooE, none, none⟩
  | "ASinh" => some ⟨"ASinh", .odd, some (.int 0), some log1pSqrt2, some logSqrt2m1⟩
  | "ACsch" => some ⟨"ACsch", .odd, none, some log1pSqrt2, some logSqrt2m1⟩
  | "ATanh" => some ⟨"ATanh", .odd, some (.int 0), none, none⟩
  | "ACoth" => some ⟨"ACoth", .odd, none, none, none⟩
  | "Erf" => some ⟨"Erf", .odd, some (.int 0), none, none⟩
  | "Erfc" => some ⟨"Erfc", .erfc, some (.int 1), none, none⟩
  | "Abs" => some ⟨"Abs", .abs, none, none, none⟩
  | _ => none

def isNumLin (l : Lin) (q : Rat) : Bool := l.ts.isEmpty && l.c == q

/-- `sinh(arg)` … `abs(arg)`: special values, then `handle_minus` -/
def parCtor (order : List Expr) (sp : ParSpec) (l : Lin) : Except Err Expr :=
  match (if l.isZero then sp.atZero else none) with
  | some v => .ok v
  | none =>
  match (if isNumLin l 1 then sp.atOne else none) with
  | some v => .ok v
  | none =>
  match (if isNumLin l (-1) then sp.atMinusOne else none) with
  | some v => .ok v
  | none =>
    if sp.parity == .abs && l.ts.isEmpty then .ok (ratToExpr (if l.c < 0 then -l.c else l.c))
    else if sp.parity == .abs && (match l.c == 0, l.ts with
        | true, [(.app "Abs" _, q)] => q == 1 | _, _ => false) then .ok (ofLin l)
    else do
      let (b, d) ← handleMinus order hmFuel l
      let e := Expr.app sp.name [ofLin d]
      match sp.parity, b with
      | .odd, true => pure (negE e)
      | .erfc, true => pure (.add (.int 2) [(e, .int (-1))])
      | _, _ => pure e

/-! ### inverse trigonometric lookups -/

/-- `q·pi` as a canonical tree -/
def piMul (q : Rat) : Expr :=
  if q == 0 then .int 0 else if q == 1 then piE else .mul (ratToExpr q) [(piE, .int 1)]

/-- value recipe of a table row as a rational -/
def recipeRat (r : Recipe) : Option Rat := do
  let s ← r.evalS
  if s.isRat then some s.a else none

/-- `inverse_lookup(table, t, index)`: structural search of the key (canonical dumps compared) -/
def inverseLookup (keys : List String) (rows : List (Recipe × Recipe)) (t : Expr) : Option Recipe :=
  let d := Expr.dumpCanon t
  match keys.idxOf? d with
  | some i => (rows[i]?).map (·.2)
  | none => none

open Gen.TrigTables in
def lookupCst (t : Expr) : Option Recipe := inverseLookup inverseCstKeyDumps inverseCst t
open Gen.TrigTables in
def lookupTct (t : Expr) : Option Recipe := inverseLookup inverseTctKeyDumps inverseTct t

def isInt (e : Expr) (n : Int) : Bool := match e with | .int m => m == n | _ => false

def isInexact : Expr → Bool
  | .dbl _ | .cdbl _ _ => true
  | _ => false

/-- `asin acos asec acsc atan acot`; `recip` is `div(one, arg)` as computed by the library (needed by
asec/acsc only; a parameter like the dictionary order) -/
def invCtor (fn : String) (arg : Expr) (recip : Option Expr) : Except Err Expr :=
  if isInexact arg then .error .skip else
  let half : Rat := 1 / 2
  let fromTab (look : Expr → Option Recipe) (key : Option Expr) (f : Rat → Rat) : Except Err Expr :=
    match key with
    | none => .error .skip
    | some k =>
      match look k with
      | none => .ok (.app fn [arg])
      | some vr =>
        match recipeRat vr with
        | none => .error .skip
        | some v => if v == 0 then .error .skip else .ok (piMul (f (1 / v)))
  match fn with
  | "ASin" =>
    if isInt arg 0 then .ok (.int 0) else if isInt arg 1 then .ok (piMul half)
    else if isInt arg (-1) then .ok (piMul (-half))
    else fromTab lookupCst (some arg) id
  | "ACos" =>
    if isInt arg 0 then .ok (piMul half) else if isInt arg 1 then .ok (.int 0)
    else if isInt arg (-1) then .ok piE
    else fromTab lookupCst (some arg) (fun x => half - x)
  | "ASec" =>
    if isInt arg 1 then .ok (.int 0) else if isInt arg (-1) then .ok piE
    else fromTab lookupCst recip (fun x => half - x)
  | "ACsc" =>
    if isInt arg 1 then .ok (piMul half) else if isInt arg (-1) then .ok (piMul (-half))
    else fromTab lookupCst recip id
  | "ATan" =>
    if isInt arg 0 then .ok (.int 0) else if isInt arg 1 then .ok (piMul (1 / 4))
    else if isInt arg (-1) then .ok (piMul (-(1 / 4)))
    else fromTab lookupTct (some arg) id
  | "ACot" =>
    if isInt arg 0 then .ok (piMul half) else if isInt arg 1 then .ok (piMul (1 / 4))
    else if isInt arg (-1) then .ok (piMul (3 / 4))
    else fromTab lookupTct (some arg) (fun x => half - x)
  | _ => .error .skip

/-- sign of an exact real number leaf: `some 1`, `some (-1)`, `some 0`; `none` for anything else -/
def numSign : Expr → Option Int
  | .int n => some (if n > 0 then 1 else if n < 0 then -1 else 0)
  | .rat n _ => some (if n > 0 then 1 else if n < 0 then -1 else 0)
  | _ => none

/-- `atan2(num, den)`; `quot` is `div(num, den)` as computed by the library -/
def atan2Ctor (num den : Expr) (quot : Option Expr) : Except Err Expr :=
  if isInt num 0 && den.isNum then
    match numSign den with
    | some s => .ok (if s < 0 then piE else if s > 0 then .int 0 else .nan)
    | none => .error .skip
  else if !(isInt num 0) && isInt den 0 && num.isNum then
    match numSign num with
    | some s => .ok (piMul (if s < 0 then -(1 / 2) else 1 / 2))
    | none => .error .skip
  else
    match quot with
    | none => .error .skip
    | some q =>
      match lookupTct q with
      | none =>
        -- (as patched, C08_H: `ATan2::is_canonical` accepts num = 0 with a non-number den; the C++ as it is
        -- builds an object failing the assertion)
        .ok (.app "ATan2" [num, den])
      | some vr =>
        match recipeRat vr with
        | none => .error .skip
        | some v =>
          if v == 0 then .error .skip else
          let base : Rat := 1 / v
          if num.isNum && den.isNum then
            match numSign num, numSign den with
            | some sn, some sd =>
              if sd > 0 then .ok (piMul base)
              else if sd < 0 then .ok (piMul (if sn < 0 then base - 1 else base + 1))
              else .ok (piMul base)
            | _, _ => .error .skip
          else .ok (piMul base)

/-! ### exact numbers -/

def fact : Nat → Nat
  | 0 => 1
  | n + 1 => (n + 1) * fact n

/-- (2k-1)!! = 1·3·5···(2k-1) -/
def oddFact : Nat → Nat
  | 0 => 1
  | k + 1 => (2 * k + 1) * oddFact k

/-- `gamma` at integers and half-integers (`gamma_positive_int`, `gamma_multiple_2`); the result is
`q` or `q·sqrt(pi)` -/
inductive GammaVal where
  | rat (q : Rat)
  | sqrtPi (q : Rat)
  | zoo
  | unevaluated

def gammaNum (x : Rat) : GammaVal :=
  if x.den == 1 then
    if x.num > 0 then .rat (fact (x.num.toNat - 1) : Nat) else .zoo
  else if x.den == 2 then
    -- n = floor(|num| / 2)
    let n0 : Nat := x.num.natAbs / 2
    if x.num > 0 then
      .sqrtPi ((oddFact n0 : Nat) / ((2 : Rat) ^ n0))
    else
      let n := n0 + 1
      let sgn : Rat := if n % 2 == 0 then 1 else -1
      .sqrtPi (((2 : Rat) ^ n) / (sgn * (oddFact n : Nat)))
  else .unevaluated

def sqrtPiE (q : Rat) : Expr :=
  if q == 1 then .pow piE (.rat 1 2) else .mul (ratToExpr q) [(piE, .rat 1 2)]

def ratTrunc (q : Rat) : Int := if q < 0 then q.ceil else q.floor

def roundFn (fn : String) (q : Rat) : Option Int :=
  match fn with
  | "Floor" => some q.floor
  | "Ceiling" => some q.ceil
  | "Truncate" => some (ratTrunc q)
  | _ => none

def constRound (fn c : String) : Option Int :=
  let t : Option (Int × Int) :=          -- (floor, ceiling)
    match c with
    | "pi" => some (3, 4) | "E" => some (2, 3) | "GoldenRatio" => some (1, 2)
    | "Catalan" => some (0, 1) | "EulerGamma" => some (0, 1) | _ => none
  t.bind fun p => match fn with
    | "Floor" => some p.1 | "Ceiling" => some p.2 | "Truncate" => some p.1 | _ => none

def qOfQ (q : SymVerif.Q) : Option Rat := if q.den == 0 then none else some (mkRat q.num q.den)
def cplxE (re im : Rat) : Expr :=
  if im == 0 then ratToExpr re else .cplx ⟨re.num, re.den⟩ ⟨im.num, im.den⟩

def isPrime (n : Nat) : Bool :=
  n ≥ 2 && (List.range (n - 2)).all (fun i => let d := i + 2; d * d > n || n % d != 0)

def primesUpTo (n : Nat) : List Nat := (List.range (n + 1)).filter isPrime

/-- `eval_levicivita`: ∏_{i<j} (a_j - a_i) / ∏ i! -/
def leviCivita (a : List Rat) : Rat :=
  let idx := List.range a.length
  idx.foldl (fun res i =>
    let ai := a.getD i 0
    let res := (List.range a.length).foldl (fun r j => if j > i then (a.getD j 0 - ai) * r else r) res
    res / (fact i : Nat)) 1

def knownConst (c : String) : Bool := ["pi", "E", "EulerGamma", "Catalan", "GoldenRatio"].contains c

/-- one-argument functions at exact numbers and constants -/
def numCtor1 (fn : String) (arg : Expr) : Except Err Expr :=
  match fn, arg with
  | "Floor", .const c | "Ceiling", .const c | "Truncate", .const c =>
    match constRound fn c with | some n => .ok (.int n) | none => .error .skip
  | "Sign", .const c => if knownConst c then .ok (.int 1) else .error .skip
  | "Abs", .const c => .ok (.app "Abs" [.const c])
  | "Conjugate", .const c => .ok (.const c)
  | "PrimePi", .const c =>
    match constRound "Floor" c with
    | some n => .ok (.int ((primesUpTo n.toNat).length : Nat)) | none => .error .skip
  | "Primorial", .const c =>
    match constRound "Floor" c with
    | some n => .ok (.int ((primesUpTo n.toNat).foldl (· * ·) 1 : Nat)) | none => .error .skip
  | _, .cplx re im =>
    match qOfQ re, qOfQ im with
    | some a, some b =>
      match fn with
      | "Floor" | "Ceiling" | "Truncate" =>
        match roundFn fn a, roundFn fn b with
        | some x, some y => .ok (cplxE x y)
        | _, _ => .error .skip
      | "Conjugate" => .ok (cplxE a (-b))
      | "Sign" =>
        if a == 0 then .ok (cplxE 0 (if b > 0 then 1 else -1))
        else .ok (.app "Sign" [arg])
      | "Abs" =>
        match Surd.ratSqrt? (a * a + b * b) with
        | some s => .ok (ratToExpr s)
        | none => .error .skip
      | "PrimePi" => .error .runtime
      | _ => .error .skip
    | _, _ => .error .skip
  | _, _ =>
    match ratOfExpr arg with
    | none => .error .skip
    | some q =>
      match fn with
      | "Floor" | "Ceiling" | "Truncate" =>
        match roundFn fn q with | some n => .ok (.int n) | none => .error .skip
      | "Sign" => .ok (.int (if q > 0 then 1 else if q < 0 then -1 else 0))
      | "Abs" => .ok (ratToExpr (if q < 0 then -q else q))
      | "Conjugate" => .ok arg
      | "Gamma" =>
        match gammaNum q with
        | .rat r => .ok (ratToExpr r)
        | .sqrtPi r => .ok (sqrtPiE r)
        | .zoo => .ok zooE
        | .unevaluated => .ok (.app "Gamma" [arg])
      | "PrimePi" =>
        if q < 0 then .ok (.int 0) else .ok (.int ((primesUpTo q.floor.toNat).length : Nat))
      | "Primorial" =>
        if q > 0 then .ok (.int ((primesUpTo q.floor.toNat).foldl (· * ·) 1 : Nat)) else .error .runtime
      | _ => .error .skip

def ratList : List Expr → Option (List Rat)
  | [] => some []
  | a :: t => do let q ← ratOfExpr a; let r ← ratList t; pure (q :: r)

/-- multi-argument functions at exact rational arguments -/
def numCtorN (fn : String) (args : List Expr) : Except Err Expr :=
  match ratList args with
  | none => .error .skip
  | some qs =>
    match fn, qs with
    | "KroneckerDelta", [a, b] => .ok (.int (if a == b then 1 else 0))
    | "LeviCivita", qs => .ok (ratToExpr (leviCivita qs))
    | "Max", q :: t => .ok (ratToExpr (t.foldl (fun m x => if x - m > 0 then x else m) q))
    | "Min", q :: t => .ok (ratToExpr (t.foldl (fun m x => if m - x > 0 then x else m) q))
    | _, _ => .error .skip

end SymVerif.Funcs
