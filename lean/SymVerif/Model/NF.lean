/-
NF: a rational-function normaliser for `SymVerif.Expr` trees on the
*integer-exponent exact fragment*.  Core Lean only, executable, total.
Soundness is proved in `SymVerif/Lemmas/NFSound.lean`.

Representation
  GI     Gaussian integer  re + im·i                     (coefficients)
  Mono   power product of atoms, `List (String × Nat)`, sorted by atom name, exponents > 0
  Poly   `List (Mono × GI)`, sorted decreasingly in the pure lexicographic monomial order
         (`mlt`), no zero coefficients
  Frac   numerator / denominator, both `Poly`

Rational and Gaussian-rational coefficients are carried by the *fraction*:
`3/4` is the fraction `3 / 4`, `(C 1/2 1/3)` is `(3 + 2i) / 6`.  This is the
field ℚ(i)(atoms) with every element written as a quotient of two polynomials
over ℤ[i]; it keeps all coefficient arithmetic inside `Int` (no gcd, no
canonical rationals), which is what makes the soundness proof short.  Fractions
are *not* reduced; two fractions are compared by cross multiplication
(`equivF`).

Atoms.  Everything that is not an arithmetic node is an atom and is identified
by its `Expr.dumpCanon` string: `sym`, `dummy`, `const`, `fsym`, `app`, and
`pow b e` whose exponent `e` is not an integer literal (the atom is the whole
`(^ b e)`).  Consequences: (1) arithmetic *inside* an atom (`sin(x+y)`) is not
normalised — `f(2*(x+y))` and `f(2*x+2*y)` are different atoms, so `equiv` can
answer `false` for equal values (incomplete), never `true` for different ones
(sound: the soundness theorem quantifies over *every* assignment of the atom
strings); (2) atoms do not interact: `x^(1/2) * x^(1/2)` is `a²`, not `x`.

Arithmetic nodes:
  `int n`, `rat n d`, `cplx re im`                      leaves
  `add c ts`  = c + Σ kᵢ·vᵢ        for `ts = [(kᵢ, vᵢ)]`
  `mul c fs`  = c · Π bᵢ^eᵢ        for `fs = [(bᵢ, eᵢ)]`; `eᵢ` an integer literal, otherwise
                                   `(^ bᵢ eᵢ)` is an atom
  `pow b (int n)`                  n positive, zero or negative
Rejected (`norm` returns an error, never a wrong answer): `dbl`, `cdbl`,
`infty`, `nan`, `bool` in an arithmetic position, zero denominators in number
leaves, a negative power of a base whose numerator normalises to the zero
polynomial, |exponent| > `maxExp`.
-/
import SymVerif.Model.Expr

namespace SymVerif
namespace NF

/-! ### Gaussian integers -/

structure GI where
  re : Int
  im : Int
  deriving Repr, DecidableEq, Inhabited

namespace GI
def zero : GI := ⟨0, 0⟩
def one : GI := ⟨1, 0⟩
def ofInt (n : Int) : GI := ⟨n, 0⟩
def add (a b : GI) : GI := ⟨a.re + b.re, a.im + b.im⟩
def neg (a : GI) : GI := ⟨-a.re, -a.im⟩
def mul (a b : GI) : GI := ⟨a.re * b.re - a.im * b.im, a.re * b.im + a.im * b.re⟩
def isZero (a : GI) : Bool := a.re == 0 && a.im == 0
end GI

/-! ### monomials -/

abbrev Mono := List (String × Nat)

/-- product of two monomials (merge of the sorted variable lists) -/
def mmul : Mono → Mono → Mono
  | [], m => m
  | (a, i) :: s, [] => (a, i) :: s
  | (a, i) :: s, (b, j) :: t =>
    if a = b then (a, i + j) :: mmul s t
    else if a < b then (a, i) :: mmul s ((b, j) :: t)
    else (b, j) :: mmul ((a, i) :: s) t
termination_by m n => m.length + n.length

/-- strict pure-lexicographic order; the smallest atom name is the most significant variable.
`mlt m n = true` means `m` comes *first* in a polynomial (it is the larger monomial). -/
def mlt : Mono → Mono → Bool
  | [], _ => false
  | _ :: _, [] => true
  | (a, i) :: s, (b, j) :: t =>
    if a = b then (if i = j then mlt s t else decide (j < i))
    else decide (a < b)

/-! ### polynomials -/

abbrev Poly := List (Mono × GI)

def pzero : Poly := []
def pconst (c : GI) : Poly := if c.isZero then [] else [([], c)]
def pone : Poly := [([], GI.one)]
def patom (s : String) : Poly := [([(s, 1)], GI.one)]

def padd : Poly → Poly → Poly
  | [], q => q
  | (m, c) :: s, [] => (m, c) :: s
  | (m, c) :: s, (n, d) :: t =>
    if m = n then
      (if (GI.add c d).isZero then padd s t else (m, GI.add c d) :: padd s t)
    else if mlt m n then (m, c) :: padd s ((n, d) :: t)
    else (n, d) :: padd ((m, c) :: s) t
termination_by p q => p.length + q.length

def pneg : Poly → Poly
  | [] => []
  | (m, c) :: s => (m, GI.neg c) :: pneg s

/-- multiply every term of `q` by the term `(m, c)`; terms whose coefficient becomes zero are dropped -/
def pmulTerm (m : Mono) (c : GI) : Poly → Poly
  | [] => []
  | (n, d) :: t =>
    if (GI.mul c d).isZero then pmulTerm m c t else (mmul m n, GI.mul c d) :: pmulTerm m c t

def pmul : Poly → Poly → Poly
  | [], _ => []
  | (m, c) :: s, q => padd (pmulTerm m c q) (pmul s q)

def ppow (p : Poly) : Nat → Poly
  | 0 => pone
  | n + 1 => pmul p (ppow p n)

def psub (p q : Poly) : Poly := padd p (pneg q)

/-! ### fractions -/

structure Frac where
  num : Poly
  den : Poly
  deriving Repr, DecidableEq, Inhabited

def constF (c : GI) : Frac := ⟨pconst c, pone⟩
def zeroF : Frac := ⟨pzero, pone⟩
def oneF : Frac := ⟨pone, pone⟩
def atomF (s : String) : Frac := ⟨patom s, pone⟩
/-- the fraction `n / d` of two Gaussian integers (`d ≠ 0` expected) -/
def quotF (n d : GI) : Frac := ⟨pconst n, pconst d⟩

def addF (f g : Frac) : Frac :=
  if f.den = g.den then ⟨padd f.num g.num, f.den⟩
  else ⟨padd (pmul f.num g.den) (pmul g.num f.den), pmul f.den g.den⟩
def negF (f : Frac) : Frac := ⟨pneg f.num, f.den⟩
def subF (f g : Frac) : Frac := addF f (negF g)
def mulF (f g : Frac) : Frac := ⟨pmul f.num g.num, pmul f.den g.den⟩
/-- reciprocal (the value of `f` must be non-zero) -/
def invF (f : Frac) : Frac := ⟨f.den, f.num⟩
def divF (f g : Frac) : Frac := mulF f (invF g)
def npowF (f : Frac) (n : Nat) : Frac := ⟨ppow f.num n, ppow f.den n⟩
/-- integer power; for `n < 0` the value of `f` must be non-zero -/
def powF (f : Frac) (n : Int) : Frac :=
  if n < 0 then npowF (invF f) n.natAbs else npowF f n.natAbs

/-- equality of the represented values by cross multiplication -/
def equivF (f g : Frac) : Bool := decide (pmul f.num g.den = pmul g.num f.den)

/-! ### normalisation of expressions -/

/-- integer-literal exponents -/
def intLit? : Expr → Option Int
  | .int n => some n
  | _ => none

/-- the fraction of a Gaussian rational `rn/rd + i·in/id` -/
def cplxF (re im : Q) : Frac :=
  ⟨pconst ⟨re.num * im.den, im.num * re.den⟩, pconst ⟨(re.den * im.den : Nat), 0⟩⟩

mutual
  /-- total normaliser; meaningful on the fragment only (see `norm`) -/
  def normT : Expr → Frac
    | .int n => constF (GI.ofInt n)
    | .rat n d => quotF (GI.ofInt n) (GI.ofInt d)
    | .cplx re im => cplxF re im
    | .add c ts => addF (normT c) (normTerms ts)
    | .mul c fs => mulF (normT c) (normFacs fs)
    | .pow b e =>
      match intLit? e with
      | some n => powF (normT b) n
      | none => atomF (Expr.dumpCanon (.pow b e))
    | .dbl _ => zeroF
    | .cdbl _ _ => zeroF
    | .infty _ => zeroF
    | .nan => zeroF
    | .bool _ => zeroF
    | .sym n => atomF (Expr.dumpCanon (.sym n))
    | .dummy n i => atomF (Expr.dumpCanon (.dummy n i))
    | .const n => atomF (Expr.dumpCanon (.const n))
    | .fsym n args => atomF (Expr.dumpCanon (.fsym n args))
    | .app h args => atomF (Expr.dumpCanon (.app h args))
  def normTerms : List (Expr × Expr) → Frac
    | [] => zeroF
    | (k, v) :: t => addF (mulF (normT k) (normT v)) (normTerms t)
  def normFacs : List (Expr × Expr) → Frac
    | [] => oneF
    | (b, e) :: t =>
      match intLit? e with
      | some n => mulF (powF (normT b) n) (normFacs t)
      | none => mulF (atomF (Expr.dumpCanon (.pow b e))) (normFacs t)
end

inductive NFErr where
  | float          -- RealDouble / ComplexDouble in an arithmetic position
  | infty          -- Infty
  | nan            -- NaN
  | notArith       -- BooleanAtom in an arithmetic position
  | zeroDen        -- a number leaf with denominator 0
  | divByZero      -- negative power of something that normalises to 0
  | expTooLarge    -- |integer exponent| > maxExp
  deriving Repr, DecidableEq, Inhabited

def NFErr.toString : NFErr → String
  | .float => "float" | .infty => "infty" | .nan => "nan" | .notArith => "not-arith"
  | .zeroDen => "zero-den" | .divByZero => "div-by-zero" | .expTooLarge => "exp-too-large"

def maxExp : Nat := 64

def orElseErr (a b : Option NFErr) : Option NFErr :=
  match a with
  | some e => some e
  | none => b

def powErr (b : Expr) (n : Int) : Option NFErr :=
  if n.natAbs > maxExp then some .expTooLarge
  else if n < 0 && decide ((normT b).num = []) then some .divByZero
  else none

mutual
  /-- first reason why the tree is outside the fragment, `none` when it is inside -/
  def firstErr : Expr → Option NFErr
    | .int _ => none
    | .rat _ d => if d = 0 then some .zeroDen else none
    | .cplx re im => if re.den = 0 || im.den = 0 then some .zeroDen else none
    | .add c ts => orElseErr (firstErr c) (firstErrTerms ts)
    | .mul c fs => orElseErr (firstErr c) (firstErrFacs fs)
    | .pow b e =>
      match intLit? e with
      | some n => orElseErr (firstErr b) (powErr b n)
      | none => none
    | .dbl _ => some .float
    | .cdbl _ _ => some .float
    | .infty _ => some .infty
    | .nan => some .nan
    | .bool _ => some .notArith
    | .sym _ => none
    | .dummy _ _ => none
    | .const _ => none
    | .fsym _ _ => none
    | .app _ _ => none
  def firstErrTerms : List (Expr × Expr) → Option NFErr
    | [] => none
    | (k, v) :: t => orElseErr (firstErr k) (orElseErr (firstErr v) (firstErrTerms t))
  def firstErrFacs : List (Expr × Expr) → Option NFErr
    | [] => none
    | (b, e) :: t =>
      match intLit? e with
      | some n => orElseErr (firstErr b) (orElseErr (powErr b n) (firstErrFacs t))
      | none => firstErrFacs t
end

/-- normal form of an expression of the fragment, or the reason why it is outside -/
def norm (e : Expr) : Except NFErr Frac :=
  match firstErr e with
  | some err => .error err
  | none => .ok (normT e)

/-- `true` iff both expressions are in the fragment and denote the same rational function -/
def equiv (a b : Expr) : Bool :=
  match norm a, norm b with
  | .ok f, .ok g => equivF f g
  | _, _ => false

end NF
end SymVerif
