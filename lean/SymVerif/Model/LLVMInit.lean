/-
`LLVMVisitor::init` / `call` on top of Model/LLVMD.lean: input loads, the CSE loop, the output
loop, the stores; symbol resolution (`bvisit(const Symbol&)`) with the two source-dependent
switches translated from llvm_double.cpp

  inputsFirst   the input vector is searched before the CSE replacement symbols
  clearsState   init() clears symbol_ptrs / replacement_symbol_ptrs on entry

and the state a *failed* init leaves behind (stale pointers into the destroyed module; using one
is undefined behaviour, reported as `Err.badArg`).  The CSE result (replacement list, reduced
expressions) is an input of the model: `cse()` itself is property C37.

Also the `Float` instance the driver runs and the canonical text of a program (what the harness
extracts from the real module's IR).  Core Lean only.
-/
import SymVerif.Model.LLVMD
import SymVerif.Model.EvalFloat

namespace SymVerif.LLVMD
open SymVerif.EvalG

structure Cfg (α : Type) where
  L : LOps α
  defs : LDefs
  consts : Defs
  inputsFirst : Bool
  clearsState : Bool
  /-- bound on the nesting depth of the expressions (`lower`) -/
  fuel : Nat := 100000

/-- what survives between two `init` calls on one visitor object -/
structure VState where
  /-- entries of `symbol_ptrs` left behind by an init that threw -/
  stalePtrs : Nat := 0
  /-- keys of `replacement_symbol_ptrs` left behind by an init that threw -/
  staleRepl : List String := []
  deriving Repr, Inhabited, DecidableEq

variable {α : Type}

/-- symbol table of the running init -/
structure SymTab (α : Type) where
  inputs : List String
  /-- stale entries in front of this init's loads in `symbol_ptrs` -/
  off : Nat
  /-- replacement symbols defined so far, newest first -/
  repl : List (String × Val α)
  staleRepl : List String

def indexOf? (l : List String) (s : String) : Option Nat :=
  match l with
  | [] => none
  | a :: t => if a = s then some 0 else (indexOf? t s).map (· + 1)

inductive Res (α : Type) where
  | val (v : Val α)
  | stale
  | unbound

/-- `bvisit(const Symbol&)` -/
def resolve (inputsFirst : Bool) (tab : SymTab α) (name : String) : Res α :=
  let inp : Option (Res α) := (indexOf? tab.inputs name).map fun i =>
    if i < tab.off then .stale else .val (.reg (i - tab.off))
  let rep : Option (Res α) :=
    match tab.repl.lookup name with
    | some v => some (.val v)
    | none => if tab.staleRepl.contains name then some .stale else none
  match (if inputsFirst then inp <|> rep else rep <|> inp) with
  | some r => r
  | none => .unbound

def lowCtx (cfg : Cfg α) (tab : SymTab α) : LowCtx α :=
  { L := cfg.L, defs := cfg.defs, consts := cfg.consts,
    bound := fun n => match resolve cfg.inputsFirst tab n with
      | .val _ => true
      | _ => false,
    stale := fun n => match resolve cfg.inputsFirst tab n with
      | .stale => true
      | _ => false }

def envOf (cfg : Cfg α) (tab : SymTab α) : String → Option (Val α) := fun n =>
  match resolve cfg.inputsFirst tab n with
  | .val v => some v
  | _ => none

/-- `apply(e)`: lower, then generate code -/
def applyE (cfg : Cfg α) (tab : SymTab α) (e : Expr) (P : Prog α) : Except Err (Val α × Prog α) :=
  match lower (lowCtx cfg tab) cfg.fuel e with
  | .error err => .error err
  | .ok t => compileT cfg.L (envOf cfg tab) t P

def loads : Nat → Nat → Prog α
  | _, 0 => []
  | i, n + 1 => .load i :: loads (i + 1) n

/-- the CSE loop: `replacement_symbol_ptrs[rep.first] = apply(*(rep.second))` -/
def applyRepl (cfg : Cfg α) : SymTab α → List (String × Expr) → Prog α → Except Err (SymTab α × Prog α) × SymTab α
  | tab, [], P => (.ok (tab, P), tab)
  | tab, (name, e) :: rest, P =>
    match applyE cfg tab e P with
    | .error err => (.error err, tab)
    | .ok (v, P1) =>
      applyRepl cfg { tab with repl := (name, v) :: tab.repl.filter (fun p => p.1 != name) } rest P1

def applyOuts (cfg : Cfg α) (tab : SymTab α) : List Expr → Prog α → Except Err (List (Val α) × Prog α)
  | [], P => .ok ([], P)
  | e :: rest, P =>
    match applyE cfg tab e P with
    | .error err => .error err
    | .ok (v, P1) =>
      match applyOuts cfg tab rest P1 with
      | .error err => .error err
      | .ok (vs, P2) => .ok (v :: vs, P2)

/-- state after an init that threw: everything pushed so far stays -/
def failedState (tab : SymTab α) : VState :=
  { stalePtrs := tab.off + tab.inputs.length, staleRepl := tab.staleRepl ++ tab.repl.map (·.1) }

/-- `init(inputs, outputs, symbolic_cse, opt_level)`; `cse = some (replacements, reduced_exprs)` is the
result of `SymEngine::cse(outputs)`.  Returns the state left behind and the program or the exception. -/
def initV (cfg : Cfg α) (S : VState) (ins : List String) (outs : List Expr)
    (cse : Option (List (String × Expr) × List Expr)) : VState × Except Err (Compiled α) :=
  let tab0 : SymTab α :=
    { inputs := ins, off := if cfg.clearsState then 0 else S.stalePtrs, repl := [],
      staleRepl := if cfg.clearsState then [] else S.staleRepl }
  let P0 : Prog α := loads 0 ins.length
  match cse with
  | none =>
    match applyOuts cfg tab0 outs P0 with
    | .error err => (failedState tab0, .error err)
    | .ok (vs, P1) => ({}, .ok ⟨P1, vs⟩)
  | some (repl, reduced) =>
    match applyRepl cfg tab0 repl P0 with
    | (.error err, tab) => (failedState tab, .error err)
    | (.ok (tab1, P1), _) =>
      match applyOuts cfg tab1 (reduced.take outs.length) P1 with
      | .error err => (failedState tab1, .error err)
      | .ok (vs, P2) => ({}, .ok ⟨P2, vs⟩)

/-! ### the `Float` instance -/

def powiLoop : Nat → Float → Float → Nat → Float
  | 0, _, r, _ => r
  | fuel + 1, a, r, b =>
    let r := if b % 2 == 1 then r * a else r
    let b := b / 2
    if b == 0 then r else powiLoop fuel (a * a) r b

/-- `__powidf2` (compiler-rt / libgcc): square-and-multiply, reciprocal for a negative exponent -/
def powiF (a : Float) (n : Int) : Float :=
  let r := powiLoop 64 a 1.0 n.natAbs
  if n < 0 then 1.0 / r else r

def floatL (spec : SpecTable) : LOps Float :=
  { O := floatOps spec, exp2 := fun x => some x.exp2, powi := fun x n => some (powiF x n) }

/-! ### canonical text of a program -/

def showVal : Val Float → String
  | .cf x => if x.isNaN then "c:nan" else "c:" ++ Expr.hex64 x.toBits
  | .cb b => if b then "b:1" else "b:0"
  | .reg n => s!"r{n}"

def showPred : FPred → String
  | .oeq => "oeq" | .one => "one" | .ole => "ole" | .olt => "olt"
  | .une => "une" | .ueq => "ueq" | .ogt => "ogt" | .oge => "oge"

def showBOp : BOp → String
  | .and => "and" | .or => "or" | .xor => "xor"

def showInstr : Instr Float → String
  | .load i => s!"load {i}"
  | .fadd a b => s!"fadd {showVal a} {showVal b}"
  | .fmul a b => s!"fmul {showVal a} {showVal b}"
  | .call intr name args =>
    "call " ++ (if intr then "llvm." else "") ++ name ++ String.join (args.map fun a => " " ++ showVal a)
  | .powi a n => s!"powi {showVal a} {n}"
  | .fcmp p a b => s!"fcmp {showPred p} {showVal a} {showVal b}"
  | .bop o a b => s!"{showBOp o} {showVal a} {showVal b}"
  | .bnot a => s!"xor {showVal a} b:1"
  | .uitofp a => s!"uitofp {showVal a}"
  | .condbr c => s!"condbr {showVal c}"
  | .phi _ a b => s!"phi {showVal a} {showVal b}"

def showStores : Nat → List (Val Float) → List String
  | _, [] => []
  | i, v :: t => s!"store {i} {showVal v}" :: showStores (i + 1) t

def showProg (C : Compiled Float) : String :=
  "|".intercalate (C.body.map showInstr ++ showStores 0 C.outs)

end SymVerif.LLVMD
