/-
S-expressions: the wire format for expression trees in the line protocol
(see harness/sexp.h for the grammar).  Core Lean only; everything total.
-/
namespace SymVerif

inductive SExp where
  | atom (s : String)
  | list (l : List SExp)
  deriving Repr, Inhabited, BEq

namespace SExp

inductive Tok where
  | lp | rp | at (s : String)
  deriving Repr, BEq

/-- Tokenizer: parentheses are their own tokens, atoms are maximal runs of other non-space chars. -/
def tokenize (s : String) : List Tok :=
  let step (st : List Tok × List Char) (c : Char) : List Tok × List Char :=
    let flush (st : List Tok × List Char) : List Tok :=
      if st.2.isEmpty then st.1 else Tok.at (String.ofList st.2.reverse) :: st.1
    if c == '(' then (Tok.lp :: flush st, [])
    else if c == ')' then (Tok.rp :: flush st, [])
    else if c == ' ' || c == '\t' then (flush st, [])
    else (st.1, c :: st.2)
  let st := s.toList.foldl step ([], [])
  let toks := if st.2.isEmpty then st.1 else Tok.at (String.ofList st.2.reverse) :: st.1
  toks.reverse

/-- Stack parser: `stack` holds the reversed partial lists, innermost first. -/
def parseToks : List Tok → List (List SExp) → Option (List SExp)
  | [], [top] => some top.reverse
  | [], _ => none
  | Tok.lp :: ts, stack => parseToks ts ([] :: stack)
  | Tok.rp :: ts, cur :: parent :: rest => parseToks ts ((SExp.list cur.reverse :: parent) :: rest)
  | Tok.rp :: _, _ => none
  | Tok.at a :: ts, cur :: rest => parseToks ts ((SExp.atom a :: cur) :: rest)
  | Tok.at _ :: _, [] => none

/-- All top-level S-expressions of a line. -/
def parseAll (s : String) : Option (List SExp) := parseToks (tokenize s) [[]]

def parseOne (s : String) : Option SExp :=
  match parseAll s with
  | some [e] => some e
  | _ => none

mutual
  def toStr : SExp → String
    | atom s => s
    | list l => "(" ++ toStrList l ++ ")"
  def toStrList : List SExp → String
    | [] => ""
    | [e] => toStr e
    | e :: es => toStr e ++ " " ++ toStrList es
end

instance : ToString SExp := ⟨toStr⟩

end SExp

/-- insertion sort on strings (canonical ordering of dumped container entries) -/
def insertStr (s : String) : List String → List String
  | [] => [s]
  | t :: ts => if s ≤ t then s :: t :: ts else t :: insertStr s ts

def sortStrs (l : List String) : List String := l.foldr insertStr []

end SymVerif
