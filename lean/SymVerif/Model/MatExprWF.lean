import SymVerif.Model.MatExpr
/-!
Decidable well-formedness predicates used as hypotheses of the C26 theorems; the driver evaluates
them on every expression it prints, so that the hypotheses are tied to what the library returns.
Core Lean only.
-/
namespace SymVerif.MatExpr
open MExpr

mutual
  /-- every MatrixAdd node inside the expression satisfies `MatrixAdd::is_canonical` -/
  def addCanonAll : MExpr → Bool
    | add ts => addCanonical ts && addCanonAllList ts
    | had fs => addCanonAllList fs
    | mul _ fs => addCanonAllList fs
    | transpose e => addCanonAll e
    | conj e => addCanonAll e
    | ident _ => true
    | zero _ _ => true
    | diag _ => true
    | dense _ _ _ => true
    | sym _ => true
  def addCanonAllList : List MExpr → Bool
    | [] => true
    | e :: t => addCanonAll e && addCanonAllList t
end

mutual
  /-- no IdentityMatrix of the concrete size 0 occurs -/
  def noIdent0 : MExpr → Bool
    | ident (.nat n) => n != 0
    | ident (.sym _) => true
    | add ts => noIdent0List ts
    | had fs => noIdent0List fs
    | mul _ fs => noIdent0List fs
    | transpose e => noIdent0 e
    | conj e => noIdent0 e
    | zero _ _ => true
    | diag _ => true
    | dense _ _ _ => true
    | sym _ => true
  def noIdent0List : List MExpr → Bool
    | [] => true
    | e :: t => noIdent0 e && noIdent0List t
end

end SymVerif.MatExpr
