/-
C36 — models of the value-preserving rewriting transformations of symengine and the certificate
checkers built on them.  Core Lean only, executable, total.

  asExp / asSin / asCos   symengine/rewrite.cpp   RewriteAsExp / RewriteAsSin / RewriteAsCos
                          (TransformVisitor descent + one rule per function class)
  trigToSqrt              symengine/functions.cpp trig_to_sqrt  (top-level patterns only)
  conjE                   symengine/functions.cpp conjugate()
  NoNegTopExp             the "no negative exponent on the top level" predicate of as_numer_denom
  realTree / nonnegTree   a conservative syntactic "evaluates to a real number" predicate (as_real_imag)

The models build *raw* trees (no canonicalisation); the library's canonical result is compared with
the model's result by `CSE.treeEquiv` (equality up to the rational-function normaliser at every
nesting level, proven sound in Lemmas/C37Tree.lean).
-/
import SymVerif.Model.CSE

namespace SymVerif
namespace Rewrite

open NF CSE

/-! ### raw tree constructors -/

def iE : Expr := .cplx ⟨0, 1⟩ ⟨1, 1⟩
def piE : Expr := .const "pi"
/-- `c * a` for a number literal `c` -/
def mkMulC (c a : Expr) : Expr := .mul c [(a, .int 1)]
/-- `-a`; a number literal is negated in place (the library's `neg` evaluates numbers) -/
def mkNeg : Expr → Expr
  | .int n => .int (-n)
  | .rat n d => .rat (-n) d
  | a => .mul (.int (-1)) [(a, .int 1)]
def mkExp (a : Expr) : Expr := .pow (.const "E") a
def mkAdd2 (a b : Expr) : Expr := .add (.int 0) [(a, .int 1), (b, .int 1)]
def mkSub (a b : Expr) : Expr := .add (.int 0) [(a, .int 1), (b, .int (-1))]
def mkMul2 (a b : Expr) : Expr := .mul (.int 1) [(a, .int 1), (b, .int 1)]
def mkDiv (a b : Expr) : Expr := .mul (.int 1) [(a, .int 1), (b, .int (-1))]
def mkInv (a : Expr) : Expr := .pow a (.int (-1))
def mkSq (a : Expr) : Expr := .pow a (.int 2)
def mkSqrt (a : Expr) : Expr := .pow a (.rat 1 2)
def fn1 (h : String) (a : Expr) : Expr := .app h [a]
/-- `a + q*pi` for a rational literal `q` inside an `UnevaluatedExpr` -/
def shiftPi (a : Expr) (q : Expr) : Expr := .app "UnevaluatedExpr" [.add (.int 0) [(a, .int 1), (piE, q)]]

/-! ### the TransformVisitor descent with one rule per one-argument function class -/

mutual
  /-- rebuild the tree bottom-up; a one-argument application `h(a)` whose rule fires is replaced by
  `rule h a'` (`a'` the rewritten argument).  Mirrors `TransformVisitor::bvisit` for Add, Mul, Pow,
  OneArgFunction, MultiArgFunction (FunctionSymbol) — binders and sets are not modelled. -/
  def rewriteWith (rule : String → Expr → Option Expr) : Expr → Expr
    | .add c ts => .add c (rewriteTerms rule ts)
    | .mul c fs => .mul c (rewriteFacs rule fs)
    | .pow b e => .pow (rewriteWith rule b) (rewriteWith rule e)
    | .fsym n args => .fsym n (rewriteList rule args)
    | .app h args =>
      match rewriteList rule args with
      | [a'] =>
        match rule h a' with
        | some r => r
        | none => .app h [a']
      | as' => .app h as'
    | .int n => .int n
    | .rat n d => .rat n d
    | .cplx re im => .cplx re im
    | .dbl b => .dbl b
    | .cdbl a b => .cdbl a b
    | .infty d => .infty d
    | .nan => .nan
    | .sym n => .sym n
    | .dummy n i => .dummy n i
    | .const n => .const n
    | .bool b => .bool b
  def rewriteList (rule : String → Expr → Option Expr) : List Expr → List Expr
    | [] => []
    | a :: t => rewriteWith rule a :: rewriteList rule t
  def rewriteTerms (rule : String → Expr → Option Expr) : List (Expr × Expr) → List (Expr × Expr)
    | [] => []
    | (k, v) :: t => (rewriteWith rule k, v) :: rewriteTerms rule t
  def rewriteFacs (rule : String → Expr → Option Expr) : List (Expr × Expr) → List (Expr × Expr)
    | [] => []
    | (b, e) :: t => (rewriteWith rule b, rewriteWith rule e) :: rewriteFacs rule t
end

/-! RewriteAsExp: `expo = I*a`, `A = exp(expo)`, `B = exp(-expo)`, `P = exp(a)`, `N = exp(-a)` -/
def eA (a : Expr) : Expr := mkExp (mkMulC iE a)
def eB (a : Expr) : Expr := mkExp (mkNeg (mkMulC iE a))
def eP (a : Expr) : Expr := mkExp a
def eN (a : Expr) : Expr := mkExp (mkNeg a)
def rSin (a : Expr) : Expr := mkDiv (mkSub (eA a) (eB a)) (mkMulC (.int 2) iE)
def rCos (a : Expr) : Expr := mkDiv (mkAdd2 (eA a) (eB a)) (.int 2)
def rTan (a : Expr) : Expr := mkDiv (mkSub (eA a) (eB a)) (mkMul2 iE (mkAdd2 (eA a) (eB a)))
def rCot (a : Expr) : Expr := mkDiv (mkMul2 iE (mkAdd2 (eA a) (eB a))) (mkSub (eA a) (eB a))
def rCsc (a : Expr) : Expr := mkDiv (mkMulC (.int 2) iE) (mkSub (eA a) (eB a))
def rSec (a : Expr) : Expr := mkDiv (.int 2) (mkAdd2 (eA a) (eB a))
def rSinh (a : Expr) : Expr := mkDiv (mkSub (eP a) (eN a)) (.int 2)
def rCosh (a : Expr) : Expr := mkDiv (mkAdd2 (eP a) (eN a)) (.int 2)
def rTanh (a : Expr) : Expr := mkDiv (mkSub (eP a) (eN a)) (mkAdd2 (eP a) (eN a))
def rCsch (a : Expr) : Expr := mkDiv (.int 2) (mkSub (eP a) (eN a))
def rSech (a : Expr) : Expr := mkDiv (.int 2) (mkAdd2 (eP a) (eN a))
def rCoth (a : Expr) : Expr := mkDiv (mkAdd2 (eP a) (eN a)) (mkSub (eP a) (eN a))

/-- first entry of a rule table with the given class name -/
def lookupForm (tbl : List (String × (Expr → Expr))) (h : String) : Option (Expr → Expr) :=
  (tbl.find? (fun p => p.1 == h)).map (·.2)

def expTable : List (String × (Expr → Expr)) :=
  [("Sin", rSin), ("Cos", rCos), ("Tan", rTan), ("Cot", rCot), ("Csc", rCsc), ("Sec", rSec),
   ("Sinh", rSinh), ("Cosh", rCosh), ("Tanh", rTanh), ("Csch", rCsch), ("Sech", rSech),
   ("Coth", rCoth)]

def expForm (h : String) : Option (Expr → Expr) := lookupForm expTable h

def expRule (h : String) (a : Expr) : Option Expr := (expForm h).map fun f => f a

/-! RewriteAsSin -/
def sShift (a : Expr) : Expr := fn1 "Sin" (shiftPi a (.rat 1 2))
def sTan (a : Expr) : Expr := mkDiv (mkMulC (.int 2) (mkSq (fn1 "Sin" a))) (fn1 "Sin" (mkMulC (.int 2) a))
def sCot (a : Expr) : Expr := mkDiv (fn1 "Sin" (mkMulC (.int 2) a)) (mkMulC (.int 2) (mkSq (fn1 "Sin" a)))
def sCsc (a : Expr) : Expr := mkDiv (.int 1) (fn1 "Sin" a)
def sSec (a : Expr) : Expr := mkDiv (.int 1) (sShift a)

def sinTable : List (String × (Expr → Expr)) :=
  [("Cos", sShift), ("Tan", sTan), ("Cot", sCot), ("Csc", sCsc), ("Sec", sSec)]

def sinForm (h : String) : Option (Expr → Expr) := lookupForm sinTable h

def sinRule (h : String) (a : Expr) : Option Expr := (sinForm h).map fun f => f a

/-! RewriteAsCos -/
def cShift (a : Expr) : Expr := fn1 "Cos" (shiftPi a (.rat (-1) 2))
def cTan (a : Expr) : Expr := mkDiv (cShift a) (fn1 "Cos" a)
def cCot (a : Expr) : Expr := mkDiv (fn1 "Cos" a) (cShift a)
def cCsc (a : Expr) : Expr := mkDiv (.int 1) (cShift a)
def cSec (a : Expr) : Expr := mkDiv (.int 1) (fn1 "Cos" a)

def cosTable : List (String × (Expr → Expr)) :=
  [("Sin", cShift), ("Tan", cTan), ("Cot", cCot), ("Csc", cCsc), ("Sec", cSec)]

def cosForm (h : String) : Option (Expr → Expr) := lookupForm cosTable h

def cosRule (h : String) (a : Expr) : Option Expr := (cosForm h).map fun f => f a

def asExp : Expr → Expr := rewriteWith expRule
def asSin : Expr → Expr := rewriteWith sinRule
def asCos : Expr → Expr := rewriteWith cosRule

/-! ### trig_to_sqrt (top level only) -/

/-- `trig(inverse(x))` as an algebraic expression; `none` when no pattern applies -/
def trigSqrtRule (outer inner : String) (x : Expr) : Option Expr :=
  let one := Expr.int 1
  let x2 := mkSq x
  let xm2 := Expr.pow x (.int (-2))
  let s1m := mkSqrt (mkSub one x2)          -- sqrt(1 - x^2)
  let s1p := mkSqrt (mkAdd2 one x2)         -- sqrt(1 + x^2)
  let r1m := mkSqrt (mkSub one xm2)         -- sqrt(1 - x^-2)
  let r1p := mkSqrt (mkAdd2 one xm2)        -- sqrt(1 + x^-2)
  match outer, inner with
  | "Sin", "ACos" => some s1m
  | "Sin", "ATan" => some (mkDiv x s1p)
  | "Sin", "ASec" => some r1m
  | "Sin", "ACot" => some (mkDiv one (mkMul2 x r1p))
  | "Cos", "ASin" => some s1m
  | "Cos", "ATan" => some (mkDiv one s1p)
  | "Cos", "ACsc" => some r1m
  | "Cos", "ACot" => some (mkDiv one r1p)
  | "Tan", "ASin" => some (mkDiv x s1m)
  | "Tan", "ACos" => some (mkDiv s1m x)
  | "Tan", "ACsc" => some (mkDiv one (mkMul2 x r1m))
  | "Tan", "ASec" => some (mkMul2 x r1m)
  | "Csc", "ACos" => some (mkDiv one s1m)
  | "Csc", "ATan" => some (mkDiv s1p x)
  | "Csc", "ASec" => some (mkDiv one r1m)
  | "Csc", "ACot" => some (mkMul2 x r1p)
  | "Sec", "ASin" => some (mkDiv one s1m)
  | "Sec", "ATan" => some s1p
  | "Sec", "ACsc" => some (mkDiv one r1m)
  | "Sec", "ACot" => some r1p
  | "Cot", "ASin" => some (mkDiv s1m x)
  | "Cot", "ACos" => some (mkDiv x s1m)
  | "Cot", "ACsc" => some (mkMul2 x r1m)
  | "Cot", "ASec" => some (mkDiv one (mkMul2 x r1m))
  | _, _ => none

def trigToSqrt : Expr → Expr
  | .app outer [.app inner [x]] =>
    match trigSqrtRule outer inner x with
    | some r => r
    | none => .app outer [.app inner [x]]
  | e => e

/-! ### conjugate() -/

def conjNum : Expr → Expr
  | .cplx re im => .cplx re ⟨-im.num, im.den⟩
  | e => e

/-- one-argument classes through which `conjugate` is pushed -/
def conjHeads1 : List String :=
  ["Sign", "Erf", "Erfc", "Gamma", "LogGamma", "Sin", "Cos", "Tan", "Cot", "Sec", "Csc",
   "Sinh", "Cosh", "Tanh", "Coth", "Sech", "Csch"]
/-- two-argument classes through which `conjugate` is pushed -/
def conjHeads2 : List String := ["ATan2", "LowerGamma", "UpperGamma", "Beta"]
/-- classes returned unchanged (real valued) -/
def conjFixed : List String := ["Abs", "KroneckerDelta", "LeviCivita"]

mutual
  def conjE : Expr → Expr
    | .int n => .int n
    | .rat n d => .rat n d
    | .cplx re im => conjNum (.cplx re im)
    | .dbl b => .dbl b
    | .cdbl a b => .cdbl a b
    | .infty d => .infty d
    | .nan => .nan
    | .const n => .const n
    | .mul c fs => .mul (conjNum c) (conjFacs fs)
    | .pow b e =>
      match intLit? e with
      | some _ => .pow (conjE b) e
      | none => .app "Conjugate" [.pow b e]
    | .app h args =>
      if conjFixed.contains h then .app h args
      else match args with
        | [a] =>
          if h = "Conjugate" then a
          else if conjHeads1.contains h then .app h [conjE a]
          else .app "Conjugate" [.app h [a]]
        | [a, b] =>
          if conjHeads2.contains h then .app h [conjE a, conjE b]
          else .app "Conjugate" [.app h [a, b]]
        | as => .app "Conjugate" [.app h as]
    | .add c ts => .app "Conjugate" [.add c ts]
    | .sym n => .app "Conjugate" [.sym n]
    | .dummy n i => .app "Conjugate" [.dummy n i]
    | .fsym n args => .app "Conjugate" [.fsym n args]
    | .bool b => .app "Conjugate" [.bool b]
  def conjFacs : List (Expr × Expr) → List (Expr × Expr)
    | [] => []
    | (b, e) :: t =>
      match intLit? e with
      | some _ => (conjE b, e) :: conjFacs t
      | none => (.app "Conjugate" [.pow b e], .int 1) :: conjFacs t
end

/-! ### as_numer_denom: no negative exponent on the top level -/

/-- a negative number literal or a product with a negative number coefficient -/
def negLike : Expr → Bool
  | .int n => n < 0
  | .rat n _ => n < 0
  | .mul (.int n) _ => n < 0
  | .mul (.rat n _) _ => n < 0
  | _ => false

/-- `negLike`, or a sum (whose sign `handle_minus` decides from the term order) -/
def negLikeLoose : Expr → Bool
  | .add _ _ => true
  | e => negLike e

def noNegFacs : List (Expr × Expr) → Bool
  | [] => true
  | (_, e) :: t => !negLike e && noNegFacs t

/-- one node of the top level: a product has no negative exponents, a power has no negative
exponent, a fraction literal is not allowed -/
def noNegNode : Expr → Bool
  | .mul _ fs => noNegFacs fs
  | .pow _ e => !negLike e
  | .rat _ _ => false
  | _ => true

def noNegTerms : List (Expr × Expr) → Bool
  | [] => true
  | (k, _) :: t => noNegNode k && noNegTerms t

/-- "no negative exponents left on the top level": through sums and products, not into bases,
exponents or function arguments -/
def NoNegTopExp : Expr → Bool
  | .add _ ts => noNegTerms ts
  | e => noNegNode e

/-! ### certificate checkers (what the driver prints) -/

/-- `n / d` as a tree -/
def quot (n d : Expr) : Expr := mkDiv n d

def checkNumerDenom (e n d : Expr) : Bool :=
  treeEquiv (quot n d) e && NoNegTopExp n && NoNegTopExp d

mutual
  /-- is there a power with a non-literal exponent at an arithmetic position?  `as_numer_denom`
  recombines such powers (`(a/b)**e → a**e / b**e`, `E**x * E**z → E**(x+z)`, `x * x**(1/2) →
  x**(3/2)`) by identities that the normaliser does not know (the first one is not even an
  identity without positivity); when the certificate check fails on such an input the checker
  answers SKIP and the case is left to the numeric oracle. -/
  def hasNonIntPow : Expr → Bool
    | .add _ ts => hasNonIntPowTerms ts
    | .mul _ fs => hasNonIntPowFacs fs
    | .pow b e => (intLit? e).isNone || hasNonIntPow b
    | _ => false
  def hasNonIntPowTerms : List (Expr × Expr) → Bool
    | [] => false
    | (k, _) :: t => hasNonIntPow k || hasNonIntPowTerms t
  def hasNonIntPowFacs : List (Expr × Expr) → Bool
    | [] => false
    | (b, e) :: t => (intLit? e).isNone || hasNonIntPow b || hasNonIntPowFacs t
end

def judgeNumerDenom (e n d : Expr) : String :=
  if !NoNegTopExp n then "FAIL:negative-exponent-in-numerator"
  else if !NoNegTopExp d then "FAIL:negative-exponent-in-denominator"
  else if checkNumerDenom e n d then "ok"
  else if hasNonIntPow e then "SKIP:non-integer-powers-recombined"
  else "FAIL:value-differs"

def checkRewrite (model : Expr → Expr) (e r : Expr) : Bool := treeEquiv (model e) r

def judgeRewrite (model : Expr → Expr) (e r : Expr) : String :=
  if checkRewrite model e r then "ok" else "FAIL:differs-from-model"

/-! ### as_real_imag: a conservative "evaluates to a real number" test -/

def realConsts : List String := ["pi", "E", "EulerGamma", "Catalan", "GoldenRatio"]
/-- one-argument classes that are real for a real argument -/
def realHeads : List String :=
  ["Sin", "Cos", "Tan", "Cot", "Sec", "Csc", "Sinh", "Cosh", "Tanh", "Coth", "Sech", "Csch"]

mutual
  /-- the tree denotes a real number (wherever it is defined) -/
  def realTree : Expr → Bool
    | .int _ => true
    | .rat _ _ => true
    | .cplx _ im => im.num == 0
    | .const n => realConsts.contains n
    | .add c ts => realTree c && realTerms ts
    | .mul c fs => realTree c && realFacs fs
    | .pow b e =>
      match intLit? e with
      | some _ => realTree b
      | none => nonnegTree b && realTree e
    | .app h args =>
      match args with
      | [a] => h == "Abs" || (realHeads.contains h && realTree a)
      | [a, b] => h == "ATan2" && realTree a && realTree b
      | _ => false
    | _ => false
  def realTerms : List (Expr × Expr) → Bool
    | [] => true
    | (k, v) :: t => realTree k && realTree v && realTerms t
  def realFacs : List (Expr × Expr) → Bool
    | [] => true
    | (b, e) :: t =>
      (match intLit? e with
       | some _ => realTree b
       | none => nonnegTree b && realTree e) && realFacs t
  /-- the tree denotes a non-negative real number -/
  def nonnegTree : Expr → Bool
    | .int n => 0 ≤ n
    | .rat n _ => 0 ≤ n
    | .const n => realConsts.contains n
    | .add c ts => nonnegTree c && nonnegTerms ts
    | .mul c fs => nonnegTree c && nonnegFacs fs
    | .pow b e =>
      match intLit? e with
      | some n => (n % 2 == 0 && realTree b) || nonnegTree b
      | none => nonnegTree b && realTree e
    | .app h args =>
      match args with
      | [a] => h == "Abs" || (h == "Cosh" && realTree a)
      | _ => false
    | _ => false
  def nonnegTerms : List (Expr × Expr) → Bool
    | [] => true
    | (k, v) :: t => nonnegTree k && nonnegTree v && nonnegTerms t
  def nonnegFacs : List (Expr × Expr) → Bool
    | [] => true
    | (b, e) :: t =>
      (match intLit? e with
       | some n => (n % 2 == 0 && realTree b) || nonnegTree b
       | none => nonnegTree b && realTree e) && nonnegFacs t
end

/-- `re + I*im` as a tree -/
def recombine (re im : Expr) : Expr := .add (.int 0) [(re, .int 1), (mkMulC iE im, .int 1)]

/-- positive certificate only: realness is decided by a conservative syntactic test, the value
by `treeEquiv`; everything else is left to the numeric oracle -/
def checkRealImag (e re im : Expr) : Bool :=
  realTree re && realTree im && treeEquiv (recombine re im) e

mutual
  /-- numbers, constants, sums, products and integer powers only: on such inputs `re + I*im = e` is
  decided by the normaliser, so a failed value check is a genuine failure -/
  def arithOnly : Expr → Bool
    | .int _ => true
    | .rat _ _ => true
    | .cplx _ _ => true
    | .const _ => true
    | .add c ts => arithOnly c && arithOnlyPairs ts
    | .mul c fs => arithOnly c && arithOnlyFacs fs
    | .pow b e => (intLit? e).isSome && arithOnly b
    | _ => false
  def arithOnlyPairs : List (Expr × Expr) → Bool
    | [] => true
    | (k, v) :: t => arithOnly k && arithOnly v && arithOnlyPairs t
  def arithOnlyFacs : List (Expr × Expr) → Bool
    | [] => true
    | (b, e) :: t => (intLit? e).isSome && arithOnly b && arithOnlyFacs t
end

def judgeRealImag (e re im : Expr) : String :=
  if checkRealImag e re im then "ok"
  else if realTree re && realTree im && arithOnly e && arithOnly re && arithOnly im then
    "FAIL:value-differs"
  else if !realTree re then "SKIP:re-not-syntactically-real"
  else if !realTree im then "SKIP:im-not-syntactically-real"
  else "SKIP:value-needs-function-identities"

end Rewrite
end SymVerif
