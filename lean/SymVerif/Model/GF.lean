/-
Model of symengine/fields.h + fields.cpp : `GaloisFieldDict` (dense polynomials over GF(p)).

A polynomial is the coefficient vector `dict_` (index = exponent, lowest first) as a
`List Nat`, the modulus `modulo_` is passed explicitly as `p : Nat`.  The class invariant
(`WF p l`): every coefficient `< p`, no trailing zero.

Every C++ member is mirrored by one function (same case splits, same loop bounds, same
index expressions).  Notes on the mirroring:

* `mp_fdiv_r(x, x, modulo_)` (floor remainder) is `% p` on `Nat`; where the C++ forms
  negative intermediate integers (`operator-=`, the division loops, `-=`/`+=` with an
  `integer_class`) the model computes in `Int` and uses `Int.emod`.
* `mp_invert(inv, x, modulo_)` is modelled by Fermat (`x^(p-2) mod p`): exact for prime `p`
  and `x` not divisible by `p` (the only case the harness generates; non-prime moduli are
  not covered).
* The in-place division loops (`operator/=`, `operator%=`, `gf_div`) all fill the same
  vector `dict_out`; the model has one loop `divLoop` over an `Array Nat` with the same index
  expressions (`lb`, `ub`, `dict_out[it - j + deg_divisor]`).
* `operator%=`/`operator/=`/`gf_div` throw `DivisionByZeroError` for an empty divisor.  The
  total functions `rem`/`quo` return the dividend / `[]` in that case; every internal call
  site has a non-empty divisor, and the public entry points (`opRem`, `opQuo`, `opDivmod`,
  `opPowMod`, `opComposeMod`, …) return `Err.divByZero` exactly where the C++ throws.
* `while (true)` loops (`gf_sqf_list`, `gf_edf_zassenhaus`, recursion of `gf_edf_shoup`)
  get fuel and fail with `Err.fuel` (never a silent default).
* `gf_random` draws from an explicit stream `rnd : Nat → Nat` (position threaded through).
* `operator+=(const integer_class&)` is modelled **as patched** (`addConst`): the original
  (`addConstOrig`) returns the zero polynomial unchanged when a non-zero constant is added
  to it, which makes `gf_compose_mod` wrong (see docs/C23.md).
* `_gf_trace_map` is modelled **as patched** too (`traceMapB`: `h = h.gf_frobenius_map(*this, b)`);
  the original swaps receiver and argument and `gf_edf_shoup` then recurses without progress.

Core Lean only: this file is linked into the native driver.
-/
namespace SymVerif.GF

inductive Err where
  | divByZero   -- DivisionByZeroError thrown by the C++
  | fuel        -- loop bound exhausted (a `while(true)` that did not terminate in the bound)
  | range       -- outside the modelled range (shift count ≥ 31 in gf_edf_zassenhaus, p = 2)
  | oob         -- index outside a vector (undefined behaviour in the C++)
  deriving Repr, DecidableEq

abbrev Poly := List Nat

/-- documentation-level view of the C++ object -/
structure GFPoly where
  coeffs : Poly
  p : Nat
  deriving Repr, DecidableEq

/-- `gf_istrip` : drop trailing zero coefficients -/
def strip : Poly → Poly
  | [] => []
  | a :: l =>
    let s := strip l
    if s.isEmpty && a == 0 then [] else a :: s

/-- class invariant of `GaloisFieldDict` -/
def WF (p : Nat) (l : Poly) : Prop := (∀ x ∈ l, x < p) ∧ l.getLast? ≠ some 0

instance (p : Nat) (l : Poly) : Decidable (WF p l) := by unfold WF; infer_instance

/-- `GaloisFieldDict::from_vec` -/
def fromVec (p : Nat) (v : List Int) : Poly :=
  strip (v.map (fun x => (x % (p : Int)).toNat))

/-- `degree()` -/
def degree (l : Poly) : Nat := l.length - 1

/-- `is_one()` -/
def isOne (l : Poly) : Bool := l == [1]

/-- `get_coeff(i)` / `dict_[i]` -/
def coeff (l : Poly) (i : Nat) : Nat := l.getD i 0

/-! ### additive structure -/

/-- the coefficient loop of `operator+=` followed by the `insert` of the longer tail -/
def addAux (p : Nat) : Poly → Poly → Poly
  | [], b => b
  | a, [] => a
  | x :: a, y :: b => ((x + y) % p) :: addAux p a b

/-- `operator+=(const GaloisFieldDict&)` -/
def add (p : Nat) (a b : Poly) : Poly :=
  if b.isEmpty then a
  else if a.isEmpty then b
  else if a.length == b.length then strip (addAux p a b)
  else addAux p a b

def negC (p : Nat) (x : Nat) : Nat := if x == 0 then 0 else p - x

/-- `operator-()` / `negate()` -/
def neg (p : Nat) (a : Poly) : Poly := a.map (negC p)

/-- coefficient loop of `operator-=` : `(x - y) fdiv_r p` -/
def subC (p : Nat) (x y : Nat) : Nat := (((x : Int) - (y : Int)) % (p : Int)).toNat

def subAux (p : Nat) : Poly → Poly → Poly
  | a, [] => a
  | [], b => neg p b
  | x :: a, y :: b => subC p x y :: subAux p a b

/-- `operator-=(const GaloisFieldDict&)` -/
def sub (p : Nat) (a b : Poly) : Poly :=
  if b.isEmpty then a
  else if a.isEmpty then neg p b
  else if a.length == b.length then strip (subAux p a b)
  else subAux p a b

/-- `operator+=(const integer_class&)` **as patched**: a constant added to the zero
    polynomial gives that constant. -/
def addConst (p : Nat) (a : Poly) (c : Int) : Poly :=
  if c == 0 then a
  else match a with
    | [] => let t := (c % (p : Int)).toNat; if t == 0 then [] else [t]
    | x :: l =>
      let t := (((x : Int) + c) % (p : Int)).toNat
      if l.isEmpty then strip [t] else t :: l

/-- `operator+=(const integer_class&)` as in the unpatched source (defective on `[]`). -/
def addConstOrig (p : Nat) (a : Poly) (c : Int) : Poly :=
  if a.isEmpty || c == 0 then a
  else match a with
    | [] => []
    | x :: l =>
      let t := (((x : Int) + c) % (p : Int)).toNat
      if l.isEmpty then strip [t] else t :: l

/-- `operator-=(const integer_class&)` : `*this += (-1 * other)` -/
def subConst (p : Nat) (a : Poly) (c : Int) : Poly := addConst p a (-c)

/-! ### multiplication -/

/-- `operator*=(const integer_class&)` for `0 ≤ c` -/
def scale (p : Nat) (a : Poly) (c : Nat) : Poly :=
  if a.isEmpty then a
  else if c == 0 then []
  else strip (a.map (fun x => x * c % p))

/-- the double loop of `GaloisFieldDict::mul` : `p[i+j] = (p[i+j] + a[i]*b[j]) mod p`;
    the outer loop is the recursion on `a`, the inner loop the row `x * b`. -/
def mulAux (p : Nat) : Poly → Poly → Poly
  | [], _ => []
  | x :: a, b => addAux p (b.map (fun y => (x * y) % p)) (0 :: mulAux p a b)

/-- `GaloisFieldDict::mul` (also `operator*`) -/
def mul (p : Nat) (a b : Poly) : Poly :=
  if a.isEmpty then a
  else if b.isEmpty then b
  else strip (mulAux p a b)

/-- `operator*=(const GaloisFieldDict&)` -/
def mulAssign (p : Nat) (a b : Poly) : Poly :=
  if a.isEmpty then a
  else match b with
    | [] => []
    | [c] => strip (a.map (fun x => x * c % p))
    | _ => mul p a b

/-- `gf_sqr` -/
def sqr (p : Nat) (a : Poly) : Poly := mul p a a

/-- `b^e mod m` by binary exponentiation (`fuel ≥ e` bounds the recursion; it halves `e`) -/
def npowModAux (b m : Nat) : Nat → Nat → Nat
  | 0, _ => 1 % m
  | fuel + 1, e =>
    if e = 0 then 1 % m
    else
      let t := npowModAux b m fuel (e / 2)
      let s := t * t % m
      if e % 2 == 1 then s * b % m else s

def npowMod (b e m : Nat) : Nat := npowModAux b m e e

/-- `mp_invert(inv, x, p)` for prime `p` (Fermat) -/
def invMod (p x : Nat) : Nat := npowMod x (p - 2) p

/-! ### division -/

/-- `Σ_{k < cnt} f (lb + k)` : the inner `for (j = lb; j < ub; ++j)` accumulation -/
def sumFrom (f : Nat → Int) (lb : Nat) : Nat → Int
  | 0 => 0
  | k + 1 => f lb + sumFrom f (lb + 1) k

/-- One pass of the common loop of `gf_div`/`operator%=`/`operator/=`:
    `for (it = n + 1; it-- != 0;)` on `dict_out` (`n = deg_dividend`, `m = deg_divisor`). -/
def divLoop (p : Nat) (d : Array Nat) (inv n m : Nat) : Nat → Array Nat → Array Nat
  | 0, out => out
  | it + 1, out =>
    let lb := m + it - n                       -- `deg_divisor + it > deg_dividend ? … : 0`
    let ub := min (it + 1) m
    let s := sumFrom (fun j => (out.getD (it - j + m) 0 : Int) * (d.getD j 0 : Int)) lb (ub - lb)
    let coeff : Int := (out.getD it 0 : Int) - s
    let coeff := if it ≥ m then coeff * (inv : Int) else coeff
    divLoop p d inv n m it (out.setIfInBounds it (coeff % (p : Int)).toNat)

/-- `dict_out` after the loop, for `a`, `b` non-empty and `deg a ≥ deg b` -/
def divOut (p : Nat) (a b : Poly) : List Nat :=
  let n := degree a
  let m := degree b
  let inv := invMod p (b.getLastD 0)
  (divLoop p b.toArray inv n m (n + 1) a.toArray).toList

/-- `operator%=(const GaloisFieldDict&)`; for `b = []` the C++ throws (callers guard). -/
def rem (p : Nat) (a b : Poly) : Poly :=
  if b.isEmpty then a
  else if a.isEmpty then a
  else if b.length == 1 then []
  else if degree a < degree b then a
  else strip ((divOut p a b).take (degree b))

/-- `operator/=(const GaloisFieldDict&)`; for `b = []` the C++ throws (callers guard). -/
def quo (p : Nat) (a b : Poly) : Poly :=
  if b.isEmpty then []
  else if a.isEmpty then a
  else if b.length == 1 then
    let inv := invMod p (b.getLastD 0)
    a.map (fun x => x * inv % p)
  else if degree a < degree b then []
  else strip ((divOut p a b).drop (degree b))

/-- `gf_div` (quotient, remainder); for `b = []` the C++ throws (callers guard). -/
def divmod (p : Nat) (a b : Poly) : Poly × Poly :=
  if a.isEmpty then ([], [])
  else if degree a < degree b then ([], strip (a.map (· % p)))
  else
    let out := divOut p a b
    (strip ((out.drop (degree b)).map (· % p)), strip ((out.take (degree b)).map (· % p)))

theorem strip_length_le (l : Poly) : (strip l).length ≤ l.length := by
  induction l with
  | nil => simp [strip]
  | cons a l ih =>
    simp only [strip]
    split <;> simp <;> omega

theorem rem_length_lt (p : Nat) (a b : Poly) (hb : b ≠ []) : (rem p a b).length < b.length := by
  have hb' : 0 < b.length := List.length_pos_iff.mpr hb
  unfold rem
  have e : b.isEmpty = false := by cases b <;> simp_all
  simp only [e, Bool.false_eq_true, if_false]
  by_cases h1 : a.isEmpty
  · simp only [h1, if_true]; cases a <;> simp_all
  · simp only [h1, Bool.false_eq_true, if_false]
    by_cases h2 : b.length == 1
    · simp only [h2, if_true]; simpa using hb'
    · simp only [h2, Bool.false_eq_true, if_false]
      by_cases h3 : degree a < degree b
      · simp only [h3, if_true]; unfold degree at h3; omega
      · simp only [h3, if_false]
        have := strip_length_le ((divOut p a b).take (degree b))
        have h4 : ((divOut p a b).take (degree b)).length ≤ degree b := by
          simp [List.length_take]; omega
        unfold degree at *; omega

/-! ### powers, monic, gcd, lcm, diff, eval -/

/-- the `while (1)` of `gf_pow` -/
def powLoop (p : Nat) (num : Nat) (toSq toRet : Poly) : Poly :=
  let toRet := if num % 2 == 1 then mulAssign p toRet toSq else toRet
  let num' := num / 2
  if _h : num' = 0 then toRet
  else powLoop p num' (sqr p toSq) toRet
termination_by num
decreasing_by omega

/-- the constant polynomial `GaloisFieldDict({1}, modulo_)` / `from_vec({1})` -/
def one (p : Nat) : Poly := if 1 % p == 0 then [] else [1 % p]

/-- `gf_pow` -/
def pow (p : Nat) (a : Poly) (n : Nat) : Poly :=
  if n == 0 then one p
  else if n == 1 then a
  else if n == 2 then sqr p a
  else powLoop p n a (one p)

/-- `gf_monic` : (leading coefficient, monic polynomial) -/
def monic (p : Nat) (a : Poly) : Nat × Poly :=
  match a.getLast? with
  | none => (0, a)
  | some lc =>
    if lc != 1 then
      let inv := invMod p lc
      (lc, a.map (fun x => inv * x % p))
    else (lc, a)

/-- the `while (not g.dict_.empty())` Euclid loop of `gf_gcd` -/
def gcdLoop (p : Nat) (f g : Poly) : Poly :=
  if h : g = [] then f
  else gcdLoop p g (rem p f g)
termination_by g.length
decreasing_by exact rem_length_lt p f g h

/-- `gf_gcd` -/
def gcd (p : Nat) (f g : Poly) : Poly := (monic p (gcdLoop p f g)).2

/-- `gf_lcm` -/
def lcm (p : Nat) (a o : Poly) : Poly :=
  if a.isEmpty then a
  else if o.isEmpty then o
  else (monic p (quo p (mul p o a) (gcd p a o))).2

def diffAux (p : Nat) : Nat → Poly → Poly
  | _, [] => []
  | i, x :: l => (i * x % p) :: diffAux p (i + 1) l

/-- `gf_diff` -/
def diff (p : Nat) (a : Poly) : Poly := strip (diffAux p 1 a.tail)

/-- `gf_eval` : Horner from the top with the truncating `%=` of `integer_class` -/
def eval (p : Nat) (a : Poly) (x : Int) : Int :=
  a.foldr (fun (c : Nat) (res : Int) => (res * x + (c : Int)).tmod (p : Int)) 0

/-- `gf_is_sqf` -/
def isSqf (p : Nat) (a : Poly) : Bool :=
  if a.isEmpty then true
  else
    let m := (monic p a).2
    isOne (gcd p m (diff p m))

/-! ### square-free decomposition -/

/-- inner `while (not h.is_one())` of `gf_sqf_list`; returns `(g, out)` -/
def sqfInner (p n : Nat) : Nat → Nat → Poly → Poly → List (Poly × Nat) → Except Err (Poly × List (Poly × Nat))
  | 0, _, _, _, _ => .error .fuel
  | fuel + 1, i, g, h, out =>
    if isOne h then .ok (g, out)
    else
      let G := gcd p h g
      let H := quo p h G
      let out := if degree H > 0 then out ++ [(H, i * n)] else out
      sqfInner p n fuel (i + 1) (quo p g G) G out

/-- `f(x) ↦ f(x^{1/r})` : the coefficient gather at the end of the outer loop -/
def pthRoot (r : Nat) (f : Poly) : Poly :=
  let deg := degree f
  let d := deg / r
  -- `f.dict_[d - i] = temp.dict_[deg - i * r]` for `i = 0..d`, then `resize(d + 1)`, strip
  strip ((List.range (d + 1)).map (fun k => f.getD (deg - (d - k) * r) 0))

/-- outer `while (true)` of `gf_sqf_list` -/
def sqfOuter (p : Nat) : Nat → Nat → Poly → List (Poly × Nat) → Except Err (List (Poly × Nat))
  | 0, _, _, _ => .error .fuel
  | fuel + 1, n, f, out =>
    let F := diff p f
    let r : Except Err (Bool × Poly × List (Poly × Nat)) :=
      if !F.isEmpty then
        let g := gcd p f F
        let h := quo p f g
        match sqfInner p n (f.length + 2) 1 g h out with
        | .error e => .error e
        | .ok (g', out') => if isOne g' then .ok (true, f, out') else .ok (false, g', out')
      else .ok (false, f, out)
    match r with
    | .error e => .error e
    | .ok (sqf, f, out) =>
      if !sqf then sqfOuter p fuel (n * p) (pthRoot p f) out
      else .ok out

/-- `gf_sqf_list` -/
def sqfList (p : Nat) (a : Poly) : Except Err (List (Poly × Nat)) :=
  if degree a < 1 then .ok []
  else sqfOuter p (a.length + 2) 1 (monic p a).2 []

/-- `gf_sqf_part` -/
def sqfPart (p : Nat) (a : Poly) : Except Err Poly :=
  match sqfList p a with
  | .error e => .error e
  | .ok l => .ok (l.foldl (fun g f => mulAssign p g f.1) (fromVec p [1]))

/-! ### modular composition and powers -/

/-- loop of `gf_compose_mod` over `i = size-2 … 0` (`gs` = those coefficients, high first) -/
def composeLoop (p : Nat) (f h : Poly) : List Nat → Poly → Poly
  | [], out => out
  | c :: gs, out => composeLoop p f h gs (rem p (addConst p (mulAssign p out h) (c : Int)) f)

/-- `this->gf_compose_mod(g, h)` with `this = f` : `g(h) mod f` (for `f ≠ []`) -/
def composeMod (p : Nat) (f g h : Poly) : Poly :=
  match g.reverse with
  | [] => g
  | lc :: gs => composeLoop p f h gs (fromVec p [(lc : Int)])

def powModLoop (p : Nat) (m : Poly) (num : Nat) (inp h : Poly) : Poly :=
  let h := if num % 2 == 1 then rem p (mulAssign p h inp) m else h
  let num' := num / 2
  if _hz : num' = 0 then h
  else powModLoop p m num' (rem p (sqr p inp) m) h
termination_by num
decreasing_by omega

/-- `this->gf_pow_mod(f, n)` with `this = m` : `f^n mod m` (for `m ≠ []`) -/
def powMod (p : Nat) (m f : Poly) (n : Nat) : Poly :=
  if n == 0 then fromVec p [1]
  else if n == 1 then rem p f m
  else if n == 2 then rem p (sqr p f) m
  else powModLoop p m n f (fromVec p [1])

/-- `gf_lshift(n)` -/
def lshift (a : Poly) (n : Nat) : Poly := if a.isEmpty then [] else List.replicate n 0 ++ a

/-- `gf_frobenius_monomial_base` : `x^(i p) mod f` for `i < deg f` -/
def frobBase (p : Nat) (f : Poly) : List Poly :=
  let n := degree f
  if n == 0 then []
  else
    let b0 := fromVec p [1]
    if p < n then
      -- b[i] = (b[i-1] << p) % f
      (List.range (n - 1)).foldl (fun (acc : List Poly × Poly) _ =>
          let nx := rem p (lshift acc.2 p) f
          (acc.1 ++ [nx], nx)) ([b0], b0) |>.1
    else if n > 1 then
      let b1 := powMod p f (fromVec p [0, 1]) p
      (List.range (n - 2)).foldl (fun (acc : List Poly × Poly) _ =>
          let nx := rem p (mul p acc.2 b1) f
          (acc.1 ++ [nx], nx)) ([b0, b1], b1) |>.1
    else [b0]

/-- `this->gf_frobenius_map(g, b)` with `this = self` : `self^p mod g` using the base `b` of `g` -/
def frobMap (p : Nat) (self g : Poly) (b : List Poly) : Except Err Poly :=
  let t := if degree self ≥ degree g then rem p self g else self
  if t.isEmpty then .ok t
  else
    let m := degree t
    let out0 := fromVec p [(t.getD 0 0 : Int)]
    let rec go : Nat → Nat → Poly → Except Err Poly
      | 0, _, out => .ok out
      | k + 1, i, out =>
        match b[i]? with
        | none => .error .oob
        | some bi => go k (i + 1) (add p out (scale p bi (t.getD i 0)))
    match go m 1 out0 with
    | .error e => .error e
    | .ok out => .ok (strip out)

/-! ### sets ordered by `DictLess` -/

def lexLt : List Nat → List Nat → Bool
  | [], [] => false
  | [], _ :: _ => true
  | _ :: _, [] => false
  | x :: a, y :: b => if x < y then true else if y < x then false else lexLt a b

/-- `GaloisFieldDict::DictLess` -/
def dictLess (a b : Poly) : Bool :=
  if degree a == degree b then lexLt a b else degree a < degree b

/-- `std::set<…, DictLess>::insert` on the sorted list representation -/
def setInsert (x : Poly) : List Poly → List Poly
  | [] => [x]
  | y :: l =>
    if dictLess x y then x :: y :: l
    else if dictLess y x then y :: setInsert x l
    else y :: l

def setUnion (s t : List Poly) : List Poly := t.foldl (fun acc x => setInsert x acc) s

/-- `std::set<std::pair<GaloisFieldDict, unsigned>, DictLess>::insert` -/
def setInsertP (x : Poly × Nat) : List (Poly × Nat) → List (Poly × Nat)
  | [] => [x]
  | y :: l =>
    if dictLess x.1 y.1 then x :: y :: l
    else if dictLess y.1 x.1 then y :: setInsertP x l
    else y :: l

/-! ### distinct-degree factorisation (Zassenhaus) -/

/-- `while (2 * i <= f.degree())` of `gf_ddf_zassenhaus` -/
def ddfZLoop (p : Nat) (toSub : Poly) : Nat → Nat → Poly → Poly → List Poly → List (Poly × Nat)
    → Except Err (Poly × List (Poly × Nat))
  | 0, _, _, _, _, _ => .error .fuel
  | fuel + 1, i, f, g, b, factors =>
    if 2 * i ≤ degree f then
      match frobMap p g f b with
      | .error e => .error e
      | .ok g =>
        let h := gcd p f (sub p g toSub)
        if !isOne h then
          let f' := quo p f h
          ddfZLoop p toSub fuel (i + 1) f' (rem p g f') (frobBase p f') (factors ++ [(h, i)])
        else ddfZLoop p toSub fuel (i + 1) f g b factors
    else .ok (f, factors)

/-- `gf_ddf_zassenhaus` -/
def ddfZ (p : Nat) (a : Poly) : Except Err (List (Poly × Nat)) :=
  let x := fromVec p [0, 1]
  match ddfZLoop p x (a.length + 2) 1 a x (frobBase p a) [] with
  | .error e => .error e
  | .ok (f, factors) =>
    if !(isOne f || f.isEmpty) then .ok (factors ++ [(f, degree f)]) else .ok factors

/-- `_gf_pow_pnm1d2` : `f^((p^n-1)/2) mod self` -/
def powPnm1d2 (p : Nat) (self f : Poly) (n : Nat) (b : List Poly) : Except Err Poly :=
  let fin := rem p f self
  let rec go : Nat → Poly → Poly → Except Err Poly
    | 0, _, r => .ok r
    | k + 1, h, r =>
      match frobMap p h self b with
      | .error e => .error e
      | .ok h' => go k h' (rem p (mulAssign p r h') self)
  match go (n - 1) fin fin with
  | .error e => .error e
  | .ok r => .ok (powMod p self r ((p - 1) / 2))

/-- `gf_random(n, state)` : `n` draws in `[0, p)` then the leading 1; returns the new position -/
def gfRandom (p : Nat) (rnd : Nat → Nat) (pos n : Nat) : Poly × Nat :=
  (fromVec p (((List.range n).map (fun k => ((rnd (pos + k) % p : Nat) : Int))) ++ [1]), pos + n)

/-- the trace-like sum for `p = 2` in `gf_edf_zassenhaus` -/
def edfZ2Loop (self : Poly) : Nat → Poly → Poly → Poly
  | 0, _, h => h
  | k + 1, r, h =>
    let r' := powMod 2 self r 2
    edfZ2Loop self k r' (add 2 h r')

/-- the `while (factors.size() < N)` loop of `gf_edf_zassenhaus`; `recur` is the recursive call -/
def edfZLoop (p : Nat) (rnd : Nat → Nat) (self : Poly) (n N : Nat) (b : List Poly)
    (recur : Poly → Nat → Except Err (List Poly × Nat)) :
    Nat → List Poly → Nat → Except Err (List Poly × Nat)
  | 0, _, _ => .error .fuel
  | t + 1, factors, pos =>
    if factors.length < N then
      let (r, pos) := gfRandom p rnd pos (2 * n - 1)
      let gE : Except Err Poly :=
        if p == 2 then
          if n * N - 1 ≥ 31 then .error .range
          else .ok (gcd p self (edfZ2Loop self (2 ^ (n * N - 1)) r r))
        else
          match powPnm1d2 p self r n b with
          | .error e => .error e
          | .ok h => .ok (gcd p self (subConst p h 1))
      match gE with
      | .error e => .error e
      | .ok g =>
        if !isOne g && g != self then
          match recur g pos with
          | .error e => .error e
          | .ok (f1, pos) =>
            match recur (quo p self g) pos with
            | .error e => .error e
            | .ok (f2, pos) => edfZLoop p rnd self n N b recur t (setUnion f1 f2) pos
        else edfZLoop p rnd self n N b recur t factors pos
    else .ok (factors, pos)

/-- `gf_edf_zassenhaus(n)`; `depth` bounds the recursion, `tries` the `while` loop -/
def edfZ (p : Nat) (rnd : Nat → Nat) (tries : Nat) : Nat → Poly → Nat → Nat → Except Err (List Poly × Nat)
  | 0, _, _, _ => .error .fuel
  | depth + 1, self, n, pos =>
    if degree self ≤ n then .ok ([self], pos)
    else
      let N := degree self / n
      let b := if p != 2 then frobBase p self else []
      edfZLoop p rnd self n N b (fun g pos => edfZ p rnd tries depth g n pos) tries [self] pos

/-- `gf_zassenhaus` -/
def zassenhaus (p : Nat) (rnd : Nat → Nat) (a : Poly) : Except Err (List Poly) :=
  match ddfZ p a with
  | .error e => .error e
  | .ok dd =>
    let rec go : List (Poly × Nat) → List Poly → Nat → Except Err (List Poly)
      | [], acc, _ => .ok acc
      | (f, n) :: rest, acc, pos =>
        match edfZ p rnd 400 (f.length + 2) f n pos with
        | .error e => .error e
        | .ok (fs, pos) => go rest (setUnion acc fs) pos
    go dd [] 0

/-- `gf_factor` : (leading coefficient, set of (irreducible factor, multiplicity)) -/
def factor (p : Nat) (rnd : Nat → Nat) (a : Poly) : Except Err (Nat × List (Poly × Nat)) :=
  let (lc, m) := monic p a
  if degree m < 1 then .ok (lc, [])
  else
    match sqfList p m with
    | .error e => .error e
    | .ok sl =>
      let rec go : List (Poly × Nat) → List (Poly × Nat) → Except Err (List (Poly × Nat))
        | [], acc => .ok acc
        | (g, e) :: rest, acc =>
          match zassenhaus p rnd g with
          | .error er => .error er
          | .ok fs => go rest (fs.foldl (fun acc f => setInsertP (f, e) acc) acc)
      match go sl [] with
      | .error e => .error e
      | .ok fs => .ok (lc, fs)

/-! ### Shoup's algorithm -/

/-- `gf_trace_map(a, b, c, n)` on `self`; returns `.second` (= `U`) and `.first` -/
def traceMap (p : Nat) (self a b c : Poly) (n : Nat) : Poly × Poly :=
  let u := composeMod p self a b
  let v := b
  let (U, V) := if n % 2 == 1 then (add p a u, b) else (a, c)
  let rec go : Nat → Nat → Poly → Poly → Poly → Poly → Poly × Poly
    | 0, _, _, _, U, V => (composeMod p self a V, U)
    | fuel + 1, nv, u, v, U, V =>
      if nv == 0 then (composeMod p self a V, U)
      else
        let u := add p u (composeMod p self u v)
        let v := composeMod p self v v
        let (U, V) := if nv % 2 == 1 then (add p U (composeMod p self u V), composeMod p self v V) else (U, V)
        go fuel (nv / 2) u v U V
  go (n + 1) (n / 2) u v U V

/-- `_gf_trace_map(f, n, b)` on `self` **as patched**: `h = h.gf_frobenius_map(*this, b)`
    (`h ↦ h^p mod self`).  The unpatched source calls `this->gf_frobenius_map(h, b)`
    (`self^p mod h`, receiver and argument swapped), which makes `gf_edf_shoup` recurse
    without progress for factor degree `n ≥ 2` (see docs/C23.md). -/
def traceMapB (p : Nat) (self f : Poly) (n : Nat) (b : List Poly) : Except Err Poly :=
  let rec go : Nat → Poly → Poly → Except Err Poly
    | 0, _, r => .ok r
    | k + 1, h, r =>
      match frobMap p h self b with
      | .error e => .error e
      | .ok h' => go k h' (rem p (add p r h') self)
  go (n - 1) f f

/-- smallest `k` with `k*k ≥ x` : `ceil(sqrt(x))` -/
def ceilSqrt (x : Nat) : Nat :=
  let s := Nat.sqrt x
  if s * s == x then s else s + 1

/-- `gf_ddf_shoup` -/
def ddfS (p : Nat) (a : Poly) : Except Err (List (Poly × Nat)) :=
  if a.isEmpty then .ok []
  else
    let n := degree a
    let k := ceilSqrt (n / 2)
    let b := frobBase p a
    let x := fromVec p [0, 1]
    match frobMap p x a b with
    | .error e => .error e
    | .ok h =>
      -- U = [x, h, U2, …, Uk]
      let rec mkU : Nat → List Poly → Poly → Except Err (List Poly)
        | 0, U, _ => .ok U
        | c + 1, U, last =>
          match frobMap p last a b with
          | .error e => .error e
          | .ok nx => mkU c (U ++ [nx]) nx
      match mkU (k - 1) [x, h] h with
      | .error e => .error e
      | .ok Ufull =>
        let Ufull := (Ufull ++ List.replicate (k + 1) []).take (k + 1)   -- `U.resize(k+1)`
        let h := Ufull.getD k []
        let U := Ufull.take k
        -- V = [h, V1, …, V_{k-1}]
        let V := ((List.range (k - 1)).foldl (fun (acc : List Poly × Poly) _ =>
                    let nx := composeMod p a acc.2 h
                    (acc.1 ++ [nx], nx)) ([h], h)).1.take k
        let rec inner : List Poly → Nat → Nat → Poly → Poly → List (Poly × Nat) → Poly × List (Poly × Nat)
          | [], _, _, _, g, fs => (g, fs)
          | u :: us, i, j, Vi, g, fs =>
            let hh := sub p Vi u
            let F := gcd p g hh
            let fs := if !isOne F then fs ++ [(F, k * (i + 1) - j)] else fs
            inner us i (j - 1) Vi (quo p g F) fs
        let rec outer : List Poly → Nat → Poly → List (Poly × Nat) → Poly × List (Poly × Nat)
          | [], _, f, fs => (f, fs)
          | Vi :: Vs, i, f, fs =>
            let hprod := U.foldl (fun hh u => rem p (mulAssign p hh (sub p Vi u)) f) (fromVec p [1])
            let g := gcd p f hprod
            let f := quo p f g
            let (_, fs) := inner U.reverse i (k - 1) Vi g fs
            outer Vs (i + 1) f fs
        let (f, fs) := outer V 0 a []
        if !isOne f then .ok (fs ++ [(f, degree f)]) else .ok fs

/-- `gf_edf_shoup(n)` -/
def edfS (p : Nat) (rnd : Nat → Nat) : Nat → Poly → Nat → Nat → Except Err (List Poly × Nat)
  | 0, _, _, _ => .error .fuel
  | depth + 1, self, n, pos =>
    let N := degree self
    if N ≤ n then .ok (if N != 0 then [self] else [], pos)
    else
      let x := fromVec p [0, 1]
      let (r, pos) := gfRandom p rnd pos (N - 1)
      if p == 2 then
        let h := powMod p self x p
        let H := (traceMap p self r h x (n - 1)).2
        let h1 := gcd p self H
        let h2 := quo p self h1
        match edfS p rnd depth h1 n pos with
        | .error e => .error e
        | .ok (f1, pos) =>
          match edfS p rnd depth h2 n pos with
          | .error e => .error e
          | .ok (f2, pos) => .ok (setUnion f1 f2, pos)
      else
        let b := frobBase p self
        match traceMapB p self r n b with
        | .error e => .error e
        | .ok H =>
          let h := powMod p self H ((p - 1) / 2)
          let h1 := gcd p self h
          let h2 := gcd p self (subConst p h 1)
          let h3 := quo p self (mul p h1 h2)
          match edfS p rnd depth h1 n pos with
          | .error e => .error e
          | .ok (f1, pos) =>
            match edfS p rnd depth h2 n pos with
            | .error e => .error e
            | .ok (f2, pos) =>
              match edfS p rnd depth h3 n pos with
              | .error e => .error e
              | .ok (f3, pos) => .ok (setUnion (setUnion f1 f2) f3, pos)

/-- `gf_shoup` -/
def shoup (p : Nat) (rnd : Nat → Nat) (a : Poly) : Except Err (List Poly) :=
  match ddfS p a with
  | .error e => .error e
  | .ok dd =>
    let rec go : List (Poly × Nat) → List Poly → Nat → Except Err (List Poly)
      | [], acc, _ => .ok acc
      | (f, n) :: rest, acc, pos =>
        match edfS p rnd 200 f n pos with
        | .error e => .error e
        | .ok (fs, pos) => go rest (setUnion acc fs) pos
    go dd [] 0

/-! ### public entry points (where the C++ throws `DivisionByZeroError`) -/

def opRem (p : Nat) (a b : Poly) : Except Err Poly :=
  if b.isEmpty then .error .divByZero else .ok (rem p a b)

def opQuo (p : Nat) (a b : Poly) : Except Err Poly :=
  if b.isEmpty then .error .divByZero else .ok (quo p a b)

def opDivmod (p : Nat) (a b : Poly) : Except Err (Poly × Poly) :=
  if b.isEmpty then .error .divByZero else .ok (divmod p a b)

/-- `m.gf_pow_mod(f, n)` : throws iff `n ≠ 0` and `m` is the zero polynomial -/
def opPowMod (p : Nat) (m f : Poly) (n : Nat) : Except Err Poly :=
  if n != 0 && m.isEmpty then .error .divByZero else .ok (powMod p m f n)

/-- `f.gf_compose_mod(g, h)` : throws iff `g` has ≥ 2 coefficients and `f` is zero -/
def opComposeMod (p : Nat) (f g h : Poly) : Except Err Poly :=
  if g.length ≥ 2 && f.isEmpty then .error .divByZero else .ok (composeMod p f g h)

/-- `gf_lcm` : the `out /= gf_gcd(o)` cannot see a zero divisor (both operands non-zero) -/
def opLcm (p : Nat) (a b : Poly) : Except Err Poly := .ok (lcm p a b)


/-! ### executable certificate checks (run by the driver on the model's own results;
soundness is proved in `SymVerif.Props.C23`) -/

/-- `lc * Π g^e == a`, every `g` well-formed with leading coefficient 1 -/
def checkMulBack (p : Nat) (a : Poly) (lc : Nat) (fs : List (Poly × Nat)) : Bool :=
  fs.all (fun x => decide (WF p x.1) && x.1.getLast? == some 1) &&
  fs.foldl (fun acc x => mul p acc (pow p x.1 x.2)) (fromVec p [(lc : Int)]) == a

/-- all coefficient vectors of length `k` with entries `< p` -/
def allVecs (p : Nat) : Nat → List Poly
  | 0 => [[]]
  | k + 1 => (allVecs p k).flatMap (fun l => (List.range p).map (fun c => c :: l))

/-- brute-force irreducibility: degree ≥ 1 and no monic divisor of degree `1..⌊d/2⌋` -/
def irreducibleBrute (p : Nat) (g : Poly) : Bool :=
  decide (degree g ≥ 1) &&
  (List.range (degree g / 2)).all (fun k =>
    (allVecs p (k + 1)).all (fun c => !(rem p g (c ++ [1])).isEmpty))

/-- number of candidate divisors `irreducibleBrute` examines (the driver only runs it when small) -/
def bruteCost (p : Nat) (g : Poly) : Nat :=
  (List.range (degree g / 2)).foldl (fun acc k => acc + p ^ (k + 1)) 0

end SymVerif.GF
