/-
Shared driver-side helpers for the numeric-evaluation family (C12, C13, C15):
field parsing of the harness output, the special-function table, bit-pattern printing,
ulp distance.  Core Lean only.
-/
import SymVerif.Model.EvalFloat
import SymVerif.Gen.EvalFormulas

namespace SymVerif.EvalG

def fnOfName : String → Option Fn
  | "tgamma" => some .tgamma
  | "lgamma" => some .lgamma
  | "erf" => some .erf
  | "erfc" => some .erfc
  | _ => none

/-- `tgamma:hex:hex,erf:hex:hex` -/
def parseSpec (s : String) : Option SpecTable :=
  if s.isEmpty then some [] else
  (s.splitOn ",").mapM fun ent =>
    match ent.splitOn ":" with
    | [f, a, r] => do
      let f ← fnOfName f
      let a ← Expr.parseHex64 a
      let r ← Expr.parseHex64 r
      pure (f, a, r)
    | _ => none

/-- `k1=v1;k2=v2;…` (values contain no ';') -/
def parseFields (s : String) : List (String × String) :=
  (s.splitOn ";").filterMap fun kv =>
    match kv.splitOn "=" with
    | k :: v :: rest => some (k, "=".intercalate (v :: rest))
    | _ => none

def field (fs : List (String × String)) (k : String) : Option String := fs.lookup k

def showRes : Except Err Float → String
  | .ok v => Expr.hex64 v.toBits
  | .error e => e.token

/-- monotone map of double bit patterns to integers (for ulp distances) -/
def ordKey (b : UInt64) : Int :=
  if b >>> 63 == 1 then -((b &&& 0x7fffffffffffffff).toNat : Int) else (b.toNat : Int)

def ulpDist (a b : UInt64) : Nat := (ordKey a - ordKey b).natAbs

def isNaNBits (b : UInt64) : Bool := (b &&& 0x7fffffffffffffff) > 0x7ff0000000000000

/-- compare a model result with the implementation's field: identical error token, or bit patterns
within `tol` ulp (NaN matches NaN) -/
def agree (tol : Nat) (model : Except Err Float) (impl : String) : Bool :=
  match model with
  | .error e => e.token == impl
  | .ok v =>
    match Expr.parseHex64 impl with
    | none => false
    | some b => (isNaNBits b && isNaNBits v.toBits) || (!(isNaNBits b) && !(isNaNBits v.toBits) && ulpDist b v.toBits ≤ tol)

def mkCtx (spec : SpecTable) (defs : Defs) (env : String → Option Float) : Ctx Float :=
  { O := floatOps spec, defs := defs, env := env }

end SymVerif.EvalG
