import SymVerif.Model.Struct
import SymVerif.Lemmas.C37Eqb
/-!
# C39 — structural queries are accurate

The model (`Model/Struct.lean`) walks trees through `argsOf` (= `Basic::get_args()` on the
stored fields) with fuel `size e + 1`.  All theorems are stated for *every* fuel, hence in
particular for the fuel the driver uses; none depends on the tree being canonical.

* `freeSymsF_subset`      every reported free symbol is a Symbol node reached by the walk
* `freeSymsF_eq_filter`   without binders (`Subs`, `ConditionSet`, `ImageSet`) the free symbols are
                          *exactly* the Symbol nodes of the walk, in order (nothing missed, nothing added)
* `hasSymbol_agrees_free` for a Symbol `x`, `has_symbol(e, x)` agrees with membership in `free_symbols(e)`
                          on binder-free trees (the property's "has_symbol agrees with it" clause)
* `subs_bound_not_free`   a variable bound by `Subs` that does not occur in the points is not free
* `atoms_nodup_sorted`    `atoms` returns a duplicate-free list in canonical order (a set)
* `freeSyms_spec/sound`   the printed `free_symbols` has exactly the dumps of the symbols the walk reports;
                          each is a Symbol node of the tree
* `atoms_sound/complete`  `atoms<K…>` returns exactly the dumps of the walk's nodes of a requested kind
-/
namespace SymVerif.C39
open SymVerif SymVerif.Struct

def isSym : Expr → Bool
  | .sym _ => true
  | .dummy _ _ => true
  | _ => false

/-- no binder node is met by the walk -/
def binderFreeF : Nat → Expr → Bool
  | 0, _ => true
  | fuel + 1, e =>
    match e with
    | .app "Subs" (_ :: _) => false
    | .app "ConditionSet" [_, _] => false
    | .app "ImageSet" [_, _, _] => false
    | e => (argsOf e).all (binderFreeF fuel)

theorem filter_flatten_map {α β} (p : β → Bool) (f : α → List β) (l : List α) :
    ((l.map f).flatten).filter p = (l.map (fun a => (f a).filter p)).flatten := by
  induction l with
  | nil => rfl
  | cons a t ih => simp [List.filter_append, ih]

theorem argsOf_sym (n : String) : argsOf (.sym n) = [] := rfl
theorem argsOf_dummy (n : String) (i : Nat) : argsOf (.dummy n i) = [] := rfl

/-- Without binders, `free_symbols` = the Symbol nodes of the walk (as lists, in walk order). -/
theorem freeSymsF_eq_filter : ∀ (fuel : Nat) (e : Expr), binderFreeF fuel e = true →
    freeSymsF fuel e = (subtermsF fuel e).filter isSym := by
  intro fuel
  induction fuel with
  | zero => intro e _; rfl
  | succ n ih =>
    intro e h
    have key : ∀ (args : List Expr), args.all (binderFreeF n) = true →
        (args.map (freeSymsF n)).flatten = ((args.map (subtermsF n)).flatten).filter isSym := by
      intro args hargs
      rw [filter_flatten_map]
      congr 1
      apply List.map_congr_left
      intro a ha
      exact ih a (by simpa using (List.all_eq_true.mp hargs) a ha)
    unfold freeSymsF subtermsF
    split
    · simp [isSym, argsOf, List.filter]
    · simp [isSym, argsOf, List.filter]
    · simp [binderFreeF] at h
    · simp [binderFreeF] at h
    · simp [binderFreeF] at h
    · rename_i h1 h2 h3 h4 h5
      have hb : (argsOf e).all (binderFreeF n) = true := by
        unfold binderFreeF at h
        split at h
        · exact absurd rfl (h3 _ _)
        · exact absurd rfl (h4 _ _)
        · exact absurd rfl (h5 _ _ _)
        · exact h
      have hns : isSym e = false := by
        cases e <;> simp_all [isSym]
      rw [List.filter_cons]
      simp only [hns]
      simpa using key _ hb

/-- Every reported free symbol is a Symbol node met by the walk (no invented symbols), binders or not. -/
theorem freeSymsF_subset : ∀ (fuel : Nat) (e s : Expr), s ∈ freeSymsF fuel e →
    s ∈ subtermsF fuel e ∧ isSym s = true := by
  intro fuel
  induction fuel with
  | zero => intro e s h; simp [freeSymsF] at h
  | succ n ih =>
    intro e s h
    have key : ∀ (args : List Expr), (∀ a ∈ args, a ∈ argsOf e) → s ∈ (args.map (freeSymsF n)).flatten →
        s ∈ subtermsF (n + 1) e ∧ isSym s = true := by
      intro args hsub hs
      simp only [List.mem_flatten, List.mem_map] at hs
      obtain ⟨l, ⟨a, ha, rfl⟩, hsl⟩ := hs
      obtain ⟨h1, h2⟩ := ih a s hsl
      refine ⟨?_, h2⟩
      unfold subtermsF
      simp only [List.mem_cons, List.mem_flatten, List.mem_map]
      exact Or.inr ⟨_, ⟨a, hsub a ha, rfl⟩, h1⟩
    unfold freeSymsF at h
    split at h
    · simp at h; subst h; exact ⟨by unfold subtermsF; simp, rfl⟩
    · simp at h; subst h; exact ⟨by unfold subtermsF; simp, rfl⟩
    · rename_i a rest
      simp only [List.mem_append, List.mem_filter] at h
      rcases h with ⟨h, _⟩ | h
      · obtain ⟨h1, h2⟩ := ih a s h
        refine ⟨?_, h2⟩
        unfold subtermsF
        simp only [List.mem_cons, List.mem_flatten, List.mem_map, argsOf]
        exact Or.inr ⟨_, ⟨a, by simp, rfl⟩, h1⟩
      · apply key (splitSubs rest).2 _ h
        intro p hp
        simp only [argsOf, splitSubs] at hp ⊢
        exact List.mem_cons_of_mem _ (List.mem_of_mem_drop hp)
    · rename_i v cond
      simp only [List.mem_filter] at h
      obtain ⟨h1, h2⟩ := ih cond s h.1
      refine ⟨?_, h2⟩
      unfold subtermsF
      simp only [List.mem_cons, List.mem_flatten, List.mem_map, argsOf]
      exact Or.inr ⟨_, ⟨cond, by simp, rfl⟩, h1⟩
    · rename_i v ex base
      simp only [List.mem_append, List.mem_filter] at h
      rcases h with ⟨h, _⟩ | h
      · obtain ⟨h1, h2⟩ := ih ex s h
        refine ⟨?_, h2⟩
        unfold subtermsF
        simp only [List.mem_cons, List.mem_flatten, List.mem_map, argsOf]
        exact Or.inr ⟨_, ⟨ex, by simp, rfl⟩, h1⟩
      · obtain ⟨h1, h2⟩ := ih base s h
        refine ⟨?_, h2⟩
        unfold subtermsF
        simp only [List.mem_cons, List.mem_flatten, List.mem_map, argsOf]
        exact Or.inr ⟨_, ⟨base, by simp, rfl⟩, h1⟩
    · exact key (argsOf e) (fun _ h => h) h


/-! ### has_symbol vs free_symbols -/

theorem fsym_beq_sym (n : String) (a : List Expr) (x : Expr) (hx : isSym x = true) :
    Expr.eqb (Expr.fsym n a) x = false := by
  cases x <;> simp [isSym] at hx <;> simp [Expr.eqb]

/-- the predicate `HasSymbolVisitor` applies at each node of the preorder walk -/
def hasPred (x : Expr) (t : Expr) : Bool :=
  match t with
  | .sym _ | .dummy _ _ | .fsym _ _ => Expr.eqb t x
  | _ => false

theorem hasPred_eq (x : Expr) (hx : isSym x = true) (t : Expr) :
    hasPred x t = (isSym t && Expr.eqb t x) := by
  cases t <;> simp [hasPred, isSym, fsym_beq_sym _ _ _ hx]

/-- For a Symbol `x`, `has_symbol(e, x)` is membership of `x` in `free_symbols(e)` whenever the walk
    meets no binder.  (With a binder the two differ on the bound variable: see the known finding.) -/
theorem hasSymbol_agrees_free (e x : Expr) (hx : isSym x = true)
    (hb : binderFreeF (size e + 1) e = true) :
    hasSymbol e x = (freeSymsF (size e + 1) e).any (fun t => Expr.eqb t x) := by
  unfold hasSymbol subterms
  rw [freeSymsF_eq_filter _ _ hb, List.any_filter]
  congr 1
  funext t
  exact hasPred_eq x hx t

/-! ### the binder of `Subs` -/

/-- A variable bound by `Subs` is free in the whole node only through the points. -/
theorem subs_bound_not_free (fuel : Nat) (a : Expr) (rest : List Expr) (v : Expr)
    (hv : Expr.memb v (splitSubs rest).1 = true)
    (hp : ∀ p ∈ (splitSubs rest).2, v ∉ freeSymsF fuel p) :
    v ∉ freeSymsF (fuel + 1) (.app "Subs" (a :: rest)) := by
  unfold freeSymsF
  simp only [List.mem_append, List.mem_filter, List.mem_flatten, List.mem_map, not_or]
  refine ⟨fun h => by simp [hv] at h, ?_⟩
  rintro ⟨l, ⟨p, hpm, rfl⟩, hl⟩
  exact hp p hpm hl

/-! ### atoms -/

theorem mem_insertStr (s x : String) (l : List String) : x ∈ insertStr s l ↔ x = s ∨ x ∈ l := by
  induction l with
  | nil => simp [insertStr]
  | cons t ts ih =>
    unfold insertStr
    split
    · simp
    · simp [ih]; grind

theorem mem_sortStrs (x : String) (l : List String) : x ∈ sortStrs l ↔ x ∈ l := by
  induction l with
  | nil => simp [sortStrs]
  | cons t ts ih =>
    have : sortStrs (t :: ts) = insertStr t (sortStrs ts) := rfl
    rw [this, mem_insertStr, ih]; simp

theorem mem_dedup_aux (x : String) (l acc : List String) :
    x ∈ l.foldl (fun acc s => if acc.contains s then acc else acc ++ [s]) acc ↔ x ∈ acc ∨ x ∈ l := by
  induction l generalizing acc with
  | nil => simp
  | cons t ts ih =>
    simp only [List.foldl_cons, ih]
    by_cases h : acc.contains t
    · simp only [h, if_true, List.mem_cons]
      have ht : t ∈ acc := by simpa using h
      constructor
      · rintro (h | h) <;> simp [h]
      · rintro (h | rfl | h) <;> simp_all
    · simp only [h, List.mem_append, List.mem_cons, List.mem_nil_iff, or_false]
      grind

theorem mem_dedup (x : String) (l : List String) : x ∈ dedup l ↔ x ∈ l := by
  unfold dedup; rw [mem_dedup_aux]; simp

/-- `atoms<K…>(e)` returns exactly the dumps of the nodes of a requested kind met by the walk:
    nothing else (soundness) and all of them (completeness). -/
theorem atoms_spec (ks : List Kind) (e : Expr) (d : String) :
    d ∈ atoms ks e ↔ ∃ t ∈ subterms e, ks.any (fun k => isKind k t) = true ∧ Expr.dumpCanon t = d := by
  unfold atoms
  rw [mem_sortStrs, mem_dedup]
  simp only [List.mem_map, List.mem_filter]
  constructor
  · rintro ⟨t, ⟨h1, h2⟩, h3⟩; exact ⟨t, h1, h2, h3⟩
  · rintro ⟨t, h1, h2, h3⟩; exact ⟨t, ⟨h1, h2⟩, h3⟩

/-- the output of `atoms` has no duplicates … -/
theorem dedup_aux_nodup (l acc : List String) (h : acc.Nodup) :
    (l.foldl (fun acc s => if acc.contains s then acc else acc ++ [s]) acc).Nodup := by
  induction l generalizing acc with
  | nil => simpa
  | cons t ts ih =>
    simp only [List.foldl_cons]
    apply ih
    by_cases hc : acc.contains t
    · simp only [hc, if_true]; exact h
    · have : t ∉ acc := by simpa using hc
      simp only [hc]
      show (if False then acc else acc ++ [t]).Nodup
      rw [if_neg (by simp)]
      rw [List.nodup_append]
      refine ⟨h, by simp, ?_⟩
      intro a ha b hb; simp at hb; subst hb; intro hab; subst hab; exact this ha

/-- … so `atoms` returns a duplicate-free list -/
theorem dedup_nodup (l : List String) : (dedup l).Nodup := dedup_aux_nodup l [] (by simp)

/-! ### the printed results are sets in canonical order; `free_symbols` members -/

theorem insertStr_perm (s : String) (l : List String) : (insertStr s l).Perm (s :: l) := by
  induction l with
  | nil => simp [insertStr]
  | cons t ts ih =>
    unfold insertStr
    split
    · exact List.Perm.refl _
    · exact (List.Perm.cons t ih).trans (List.Perm.swap s t ts)

theorem sortStrs_perm (l : List String) : (sortStrs l).Perm l := by
  induction l with
  | nil => simp [sortStrs]
  | cons t ts ih =>
    have : sortStrs (t :: ts) = insertStr t (sortStrs ts) := rfl
    rw [this]
    exact (insertStr_perm t _).trans (List.Perm.cons t ih)

theorem insertStr_sorted (s : String) (l : List String) (h : l.Pairwise (· ≤ ·)) :
    (insertStr s l).Pairwise (· ≤ ·) := by
  induction l with
  | nil => simp [insertStr]
  | cons t ts ih =>
    unfold insertStr
    split
    · rename_i hst
      rw [List.pairwise_cons]
      refine ⟨?_, h⟩
      intro a ha
      rcases List.mem_cons.mp ha with rfl | ha
      · exact hst
      · exact String.le_trans hst ((List.pairwise_cons.mp h).1 a ha)
    · rename_i hst
      have hts : t ≤ s := by
        rcases String.le_total s t with h' | h'
        · exact absurd h' hst
        · exact h'
      rw [List.pairwise_cons]
      refine ⟨?_, ih (List.pairwise_cons.mp h).2⟩
      intro a ha
      rcases (mem_insertStr s a ts).mp ha with rfl | ha
      · exact hts
      · exact (List.pairwise_cons.mp h).1 a ha

theorem sortStrs_sorted (l : List String) : (sortStrs l).Pairwise (· ≤ ·) := by
  induction l with
  | nil => simp [sortStrs]
  | cons t ts ih =>
    have : sortStrs (t :: ts) = insertStr t (sortStrs ts) := rfl
    rw [this]; exact insertStr_sorted t _ ih

/-- `atoms<K…>(e)` is a *set*: the returned list is duplicate-free and in the canonical (sorted) order,
    so two calls that return the same members return the same list. -/
theorem atoms_nodup_sorted (ks : List Kind) (e : Expr) :
    (atoms ks e).Nodup ∧ (atoms ks e).Pairwise (· ≤ ·) := by
  unfold atoms
  exact ⟨(sortStrs_perm _).nodup_iff.mpr (dedup_nodup _), sortStrs_sorted _⟩

/-- `free_symbols(e)` as printed is in canonical (sorted) order and its members are exactly the dumps of the
    symbols the binder-aware walk reports. -/
theorem freeSyms_sorted (e : Expr) : (freeSyms e).Pairwise (· ≤ ·) := by
  unfold freeSyms; exact sortStrs_sorted _

theorem memb_mem {x : Expr} {l : List Expr} (h : Expr.memb x l = true) : x ∈ l := by
  unfold Expr.memb at h
  obtain ⟨y, hy, he⟩ := List.any_eq_true.mp h
  exact (Expr.eqb_eq y x he) ▸ hy

theorem mem_dedupE_aux (x : Expr) (l acc : List Expr) :
    x ∈ l.foldl (fun acc s => if Expr.memb s acc then acc else acc ++ [s]) acc ↔ x ∈ acc ∨ x ∈ l := by
  induction l generalizing acc with
  | nil => simp
  | cons t ts ih =>
    simp only [List.foldl_cons, ih]
    by_cases h : Expr.memb t acc = true
    · have ht : t ∈ acc := memb_mem h
      simp only [h, if_true, List.mem_cons]
      constructor
      · rintro (h | h) <;> simp [h]
      · rintro (h | rfl | h) <;> simp_all
    · simp only [h, List.mem_append, List.mem_cons]
      grind

theorem mem_dedupE (x : Expr) (l : List Expr) : x ∈ dedupE l ↔ x ∈ l := by
  unfold dedupE; rw [mem_dedupE_aux]; simp

/-- The printed `free_symbols(e)` has exactly the dumps of the symbols reported by the binder-aware walk:
    de-duplication and sorting neither lose nor invent a member. -/
theorem freeSyms_spec (e : Expr) (d : String) :
    d ∈ freeSyms e ↔ ∃ s ∈ freeSymsF (size e + 1) e, Expr.dumpCanon s = d := by
  unfold freeSyms freeSymsE
  rw [mem_sortStrs]
  simp only [List.mem_map, mem_dedupE]

/-- … hence every printed free symbol is the dump of a Symbol node of the tree (no invented names). -/
theorem freeSyms_sound (e : Expr) (d : String) (h : d ∈ freeSyms e) :
    ∃ s ∈ subtermsF (size e + 1) e, isSym s = true ∧ Expr.dumpCanon s = d := by
  obtain ⟨s, hs, hd⟩ := (freeSyms_spec e d).mp h
  obtain ⟨h1, h2⟩ := freeSymsF_subset _ e s hs
  exact ⟨s, h1, h2, hd⟩

/-! ### non-vacuity: the hypotheses are met by concrete non-trivial trees -/

-- x + 2*y*z has no binder …
example : binderFreeF 100 (.add (.int 0) [(.sym "x", .int 1),
    (.mul (.int 1) [(.sym "y", .int 1), (.sym "z", .int 1)], .int 2)]) = true := by decide
-- … and Subs(Derivative(f(x), x), x, 1 + y) binds x, whose points do not mention it
example : Expr.memb (.sym "x") (splitSubs [.sym "x", .add (.int 1) [(.sym "y", .int 1)]]).1 = true := by decide

end SymVerif.C39
