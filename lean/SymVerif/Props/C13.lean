/-
C13 — LambdaRealDoubleVisitor: `init` (plain and CSE path) followed by `call` returns the values
of the output expressions at the inputs, for ANY prior state of the visitor (so a re-initialised
visitor behaves like a fresh one), and enabling CSE does not change the results provided the
replacement list returned by `cse()` is a faithful factoring (explicit hypothesis; `cse` is C37).

The theorems are about `LambdaD.init` / `LambdaD.call` (the functions the driver replays at
`Float`) over the `lambdaReal` table translated from lambda_double.h, for every number structure.
Two facts about the source are re-checked on every run through translated flags:
  `init_clears_map`   init() clears cse_intermediate_fns_map on entry           (defect D21 if not)
  `symbol_cse_first`  bvisit(Symbol) consults the replacement map before inputs (defect D20 if not)
Floating-point rounding itself is outside the kernel: partial, as C12.
-/
import SymVerif.Lemmas.C13Lambda
import SymVerif.Gen.EvalFormulas

namespace SymVerif.C13
open SymVerif SymVerif.EvalG SymVerif.LambdaD

variable {α : Type}

/-- translated from LambdaDoubleVisitor::init: the replacement map is cleared on entry -/
theorem init_clears_map : Gen.lambdaInitClearsMap = true := by decide

/-- translated from LambdaDoubleVisitor::bvisit(const Symbol&): replacement symbols shadow inputs -/
theorem symbol_cse_first : Gen.lambdaSymbolCseFirst = true := by decide

/-- the configuration the driver runs (for any number structure) -/
def cfgOf (O : NumOps α) : Cfg α :=
  { O := O, defs := Gen.lambdaReal, cseFirst := Gen.lambdaSymbolCseFirst, clearsMap := Gen.lambdaInitClearsMap }

/-! ## plain path -/

/-- After a successful non-CSE `init` from an arbitrary prior state `S`, `call xs` returns
`outs.map (evalG (bind ins xs))`. -/
theorem lambda_plain_correct (cfg : Cfg α) (hclr : cfg.clearsMap = true)
    (S S' : State α) (ins : List String) (outs : List Expr)
    (hinit : init cfg S ins outs none = (S', none)) (xs : List α) :
    (call cfg S' xs).map Prod.snd = evalAll ⟨cfg.O, cfg.defs, bindEnv ins xs⟩ outs := by
  simp only [init, hclr, if_true] at hinit
  obtain ⟨h1, h2, h3, h4, h5⟩ := pushResults_ok cfg outs _ _ hinit
  simp only [List.nil_append] at h1 h2 h4 h5
  unfold call
  rw [h2]
  simp only [fillSlots, bind, Except.bind]
  rw [h1, runAll_eq cfg ins [] [] xs S'.cseResults 0 (Inv_nil _) outs, extEnv_nil]
  cases evalAll ⟨cfg.O, cfg.defs, bindEnv ins xs⟩ outs <;> rfl

/-! ## CSE path -/

/-- After a successful CSE `init` from an arbitrary prior state `S` (arbitrary stale buffer,
results, closures, map, symbols), `call xs` evaluates the replacements in order — each one seeing
the inputs and the earlier replacements — and then the reduced expressions in that environment. -/
theorem lambda_cse_correct (cfg : Cfg α) (hclr : cfg.clearsMap = true)
    (S S' : State α) (ins : List String) (outs : List Expr)
    (repl : List (String × Expr)) (reduced : List Expr)
    (hinit : init cfg S ins outs (some (repl, reduced)) = (S', none)) (xs : List α) :
    (call cfg S' xs).map Prod.snd = (do
      let named ← slotSem cfg ins xs [] repl
      evalAll ⟨cfg.O, cfg.defs, extEnv cfg.cseFirst ins xs named⟩ (reduced.take outs.length)) := by
  simp only [init, hclr, if_true] at hinit
  -- unfold the two loops
  generalize hS2 : ({ results := [], cseFns := [], cseResults := resize (cfg.O.ofQNear 0 1) S.cseResults repl.length,
                      cseMap := [], symbols := ins } : State α) = S2 at hinit
  cases hr : pushRepl cfg S2 repl with
  | mk S3 e3 =>
    rw [hr] at hinit
    cases e3 with
    | some err => simp at hinit
    | none =>
      simp only at hinit
      cases hp : pushResults cfg S3 (reduced.take outs.length) with
      | mk S4 e4 =>
        rw [hp] at hinit
        cases e4 with
        | some err => simp at hinit
        | none =>
          simp only [Prod.mk.injEq, and_true] at hinit
          obtain ⟨a1, a2, a3, a4, a5⟩ := pushRepl_ok cfg repl _ _ hr
          obtain ⟨b1, b2, b3, b4, b5⟩ := pushResults_ok cfg _ _ _ hp
          subst hS2
          simp only [List.nil_append, List.length_nil] at a1 a2 a3 a4 a5
          subst hinit
          unfold call
          simp only
          rw [b2, a1, b3, a4]
          have hlen : 0 + repl.length ≤ (resize (cfg.O.ofQNear 0 1) S.cseResults repl.length).length := by
            rw [resize_length]; omega
          rw [fillSlots_eq cfg ins xs repl [] [] 0 _ (Inv_nil _) hlen]
          rw [← slotSemBuf_fst cfg ins xs repl [] 0 (resize (cfg.O.ofQNear 0 1) S.cseResults repl.length)]
          cases hs : slotSemBuf cfg ins xs [] 0 repl (resize (cfg.O.ofQNear 0 1) S.cseResults repl.length) with
          | error err => rfl
          | ok nb =>
            obtain ⟨named, buf⟩ := nb
            have hinv := slotSemBuf_inv cfg ins xs repl [] [] 0 _ named buf (Inv_nil _) hlen hs
            simp only [Except.map, bind, Except.bind]
            rw [b1, a3]
            simp only [List.nil_append, a5, a2]
            rw [runAll_eq cfg ins _ named xs buf _ hinv]
            cases evalAll ⟨cfg.O, cfg.defs, extEnv cfg.cseFirst ins xs named⟩ (reduced.take outs.length) <;> rfl

/-- "the replacement list is a faithful factoring of the outputs": evaluating the replacements in
order and then the reduced expressions gives the values of the outputs (what C37 proves of `cse`). -/
def Faithful (cfg : Cfg α) (ins : List String) (outs : List Expr)
    (repl : List (String × Expr)) (reduced : List Expr) : Prop :=
  ∀ xs : List α, (do
      let named ← slotSem cfg ins xs [] repl
      evalAll ⟨cfg.O, cfg.defs, extEnv cfg.cseFirst ins xs named⟩ (reduced.take outs.length))
    = evalAll ⟨cfg.O, cfg.defs, bindEnv ins xs⟩ outs

/-- **Headline.**  For any prior state `S`, either setting of `cse` (with the faithful-factoring
hypothesis in the CSE case): after `init`, `call xs` is `outs.map (evalG (bind ins xs))`. -/
theorem lambda_correct (cfg : Cfg α) (hclr : cfg.clearsMap = true)
    (S S' : State α) (ins : List String) (outs : List Expr)
    (cse : Option (List (String × Expr) × List Expr))
    (hfaith : ∀ repl reduced, cse = some (repl, reduced) → Faithful cfg ins outs repl reduced)
    (hinit : init cfg S ins outs cse = (S', none)) (xs : List α) :
    (call cfg S' xs).map Prod.snd = evalAll ⟨cfg.O, cfg.defs, bindEnv ins xs⟩ outs := by
  cases cse with
  | none => exact lambda_plain_correct cfg hclr S S' ins outs hinit xs
  | some p =>
    obtain ⟨repl, reduced⟩ := p
    rw [lambda_cse_correct cfg hclr S S' ins outs repl reduced hinit xs]
    exact hfaith repl reduced rfl xs

/-- CSE on/off agreement: both settings return the same values. -/
theorem cse_on_off_agree (cfg : Cfg α) (hclr : cfg.clearsMap = true)
    (S T S' T' : State α) (ins : List String) (outs : List Expr)
    (repl : List (String × Expr)) (reduced : List Expr)
    (hfaith : Faithful cfg ins outs repl reduced)
    (h1 : init cfg S ins outs (some (repl, reduced)) = (S', none))
    (h2 : init cfg T ins outs none = (T', none)) (xs : List α) :
    (call cfg S' xs).map Prod.snd = (call cfg T' xs).map Prod.snd := by
  rw [lambda_cse_correct cfg hclr S S' ins outs repl reduced h1 xs,
      lambda_plain_correct cfg hclr T T' ins outs h2 xs]
  exact hfaith xs

/-! ## re-initialisation behaves like a fresh visitor -/

/-- equality of everything but the buffer contents -/
def Sim (S T : State α) : Prop :=
  S.results = T.results ∧ S.cseFns = T.cseFns ∧ S.cseMap = T.cseMap ∧ S.symbols = T.symbols

theorem compile_sim (cfg : Cfg α) {S T : State α} (h : Sim S T) (e : Expr) :
    compile cfg S e = compile cfg T e := by
  obtain ⟨_, _, h3, h4⟩ := h
  simp [compile, h3, h4]

theorem pushResults_sim (cfg : Cfg α) :
    ∀ (outs : List Expr) (S T : State α), Sim S T →
      Sim (pushResults cfg S outs).1 (pushResults cfg T outs).1
      ∧ (pushResults cfg S outs).2 = (pushResults cfg T outs).2 := by
  intro outs
  induction outs with
  | nil => intro S T h; exact ⟨h, rfl⟩
  | cons e rest ih =>
    intro S T h
    unfold pushResults
    rw [compile_sim cfg h e]
    cases hc : compile cfg T e with
    | error err => exact ⟨h, rfl⟩
    | ok c =>
      simp only
      apply ih
      obtain ⟨h1, h2, h3, h4⟩ := h
      exact ⟨by simp [h1], h2, h3, h4⟩

theorem pushRepl_sim (cfg : Cfg α) :
    ∀ (repl : List (String × Expr)) (S T : State α), Sim S T →
      Sim (pushRepl cfg S repl).1 (pushRepl cfg T repl).1
      ∧ (pushRepl cfg S repl).2 = (pushRepl cfg T repl).2 := by
  intro repl
  induction repl with
  | nil => intro S T h; exact ⟨h, rfl⟩
  | cons p rest ih =>
    intro S T h
    obtain ⟨n, e⟩ := p
    unfold pushRepl
    rw [compile_sim cfg h e]
    cases hc : compile cfg T e with
    | error err => exact ⟨h, rfl⟩
    | ok c =>
      simp only
      apply ih
      obtain ⟨h1, h2, h3, h4⟩ := h
      exact ⟨h1, by simp [h2], by simp [h2, h3], h4⟩

/-- The exception thrown by `init` (or its absence) and everything it leaves in the state except
stale buffer cells do not depend on the prior state: re-initialising = initialising a fresh visitor. -/
theorem reinit_fresh_status (cfg : Cfg α) (hclr : cfg.clearsMap = true)
    (S : State α) (ins : List String) (outs : List Expr)
    (cse : Option (List (String × Expr) × List Expr)) :
    (init cfg S ins outs cse).2 = (init cfg State.fresh ins outs cse).2
    ∧ Sim (init cfg S ins outs cse).1 (init cfg State.fresh ins outs cse).1 := by
  have base : ∀ (b1 b2 : List α), Sim (α := α)
      { results := [], cseFns := [], cseResults := b1, cseMap := [], symbols := ins }
      { results := [], cseFns := [], cseResults := b2, cseMap := [], symbols := ins } :=
    fun _ _ => ⟨rfl, rfl, rfl, rfl⟩
  cases cse with
  | none =>
    simp only [init, hclr, if_true, State.fresh]
    have := pushResults_sim cfg outs _ _ (base S.cseResults [])
    exact ⟨this.2, this.1⟩
  | some p =>
    obtain ⟨repl, reduced⟩ := p
    simp only [init, hclr, if_true, State.fresh]
    have hr := pushRepl_sim cfg repl _ _
      (base (resize (cfg.O.ofQNear 0 1) S.cseResults repl.length) (resize (cfg.O.ofQNear 0 1) [] repl.length))
    revert hr
    generalize pushRepl cfg _ repl = A
    generalize pushRepl cfg _ repl = B
    intro hr
    obtain ⟨A1, A2⟩ := A
    obtain ⟨B1, B2⟩ := B
    obtain ⟨hs, he⟩ := hr
    simp only at hs he
    subst he
    cases A2 with
    | some err => exact ⟨rfl, hs⟩
    | none =>
      simp only
      have hp := pushResults_sim cfg (reduced.take outs.length) _ _ hs
      revert hp
      generalize pushResults cfg A1 _ = X
      generalize pushResults cfg B1 _ = Y
      intro hp
      obtain ⟨X1, X2⟩ := X
      obtain ⟨Y1, Y2⟩ := Y
      obtain ⟨hs2, he2⟩ := hp
      simp only at hs2 he2
      subst he2
      cases X2 with
      | some err => exact ⟨rfl, hs2⟩
      | none =>
        obtain ⟨h1, h2, _, _⟩ := hs2
        exact ⟨rfl, h1, h2, rfl, rfl⟩

/-- and the values returned by `call` after a successful re-initialisation are those of a fresh
visitor initialised with the same arguments. -/
theorem reinit_fresh_values (cfg : Cfg α) (hclr : cfg.clearsMap = true)
    (S S' F' : State α) (ins : List String) (outs : List Expr)
    (cse : Option (List (String × Expr) × List Expr))
    (h1 : init cfg S ins outs cse = (S', none))
    (h2 : init cfg State.fresh ins outs cse = (F', none)) (xs : List α) :
    (call cfg S' xs).map Prod.snd = (call cfg F' xs).map Prod.snd := by
  cases cse with
  | none =>
    rw [lambda_plain_correct cfg hclr S S' ins outs h1 xs,
        lambda_plain_correct cfg hclr State.fresh F' ins outs h2 xs]
  | some p =>
    obtain ⟨repl, reduced⟩ := p
    rw [lambda_cse_correct cfg hclr S S' ins outs repl reduced h1 xs,
        lambda_cse_correct cfg hclr State.fresh F' ins outs repl reduced h2 xs]

/-! ## slot order -/

/-- `cse_slot_order`: after a successful CSE init, the k-th replacement closure only refers to
slots with index < k — `call` writes slot k after all the slots its closure reads. -/
theorem cse_slot_order (cfg : Cfg α) (hclr : cfg.clearsMap = true)
    (S S' : State α) (ins : List String) (outs : List Expr)
    (repl : List (String × Expr)) (reduced : List Expr)
    (hinit : init cfg S ins outs (some (repl, reduced)) = (S', none))
    (k : Nat) (c : Closure) (hc : S'.cseFns[k]? = some c) :
    ∀ p ∈ c.slots, p.2 < k := by
  simp only [init, hclr, if_true] at hinit
  generalize hS2 : ({ results := [], cseFns := [], cseResults := resize (cfg.O.ofQNear 0 1) S.cseResults repl.length,
                      cseMap := [], symbols := ins } : State α) = S2 at hinit
  cases hr : pushRepl cfg S2 repl with
  | mk S3 e3 =>
    rw [hr] at hinit
    cases e3 with
    | some err => simp at hinit
    | none =>
      simp only at hinit
      cases hp : pushResults cfg S3 (reduced.take outs.length) with
      | mk S4 e4 =>
        rw [hp] at hinit
        cases e4 with
        | some err => simp at hinit
        | none =>
          simp only [Prod.mk.injEq, and_true] at hinit
          obtain ⟨a1, _, _, _, _⟩ := pushRepl_ok cfg repl _ _ hr
          obtain ⟨_, b2, _, _, _⟩ := pushResults_ok cfg _ _ _ hp
          subst hS2
          subst hinit
          simp only [List.nil_append, List.length_nil] at a1
          simp only [b2, a1] at hc
          have := closuresFrom_slots_lt ins repl [] 0 (by simp) k c hc
          simpa using this

/-! ## instantiation at the translated configuration, non-vacuity -/

/-- the headline for the configuration the driver runs -/
theorem lambda_correct_gen (O : NumOps α) (S S' : State α) (ins : List String) (outs : List Expr)
    (cse : Option (List (String × Expr) × List Expr))
    (hfaith : ∀ repl reduced, cse = some (repl, reduced) → Faithful (cfgOf O) ins outs repl reduced)
    (hinit : init (cfgOf O) S ins outs cse = (S', none)) (xs : List α) :
    (call (cfgOf O) S' xs).map Prod.snd = evalAll ⟨O, Gen.lambdaReal, bindEnv ins xs⟩ outs :=
  lambda_correct (cfgOf O) init_clears_map S S' ins outs cse hfaith hinit xs

/-- a stale state: left-over closures, a stale map entry for `x0`, a stale buffer -/
def staleState : State Nat :=
  { results := [⟨.sym "q", ["q"], []⟩], cseFns := [⟨.sym "q", ["q"], []⟩], cseResults := [7, 7, 7],
    cseMap := [("x0", 0)], symbols := ["q"] }

/-- toy number structure on `Nat` (enough to run Add nodes) -/
def natOps : NumOps Nat where
  ofQTrunc := fun n _ => n.toNat
  ofQNear := fun n _ => n.toNat
  ofBits := fun b => b.toNat
  inf := fun _ => 0
  nan := 0
  add := (· + ·)
  sub := (· - ·)
  mul := (· * ·)
  div := (· / ·)
  neg := id
  call1 := fun _ _ => none
  call2 := fun _ _ _ => none
  eq := fun a b => a == b
  lt := fun a b => a < b
  le := fun a b => a ≤ b

/-- outputs x+y and 2(x+y) with the CSE factoring x0 := x+y, from a stale state, inputs (x0, x, y)
where the *input* `x0` is unused: the model returns the right values. -/
example :
    let cfg := cfgOf natOps
    let xy : Expr := .add (.int 0) [(.sym "x", .int 1), (.sym "y", .int 1)]
    let outs : List Expr := [xy, .add (.int 0) [(xy, .int 2)]]
    let repl : List (String × Expr) := [("x0", xy)]
    let reduced : List Expr := [.sym "x0", .add (.int 0) [(.sym "x0", .int 2)]]
    let S' := (init cfg staleState ["x0", "x", "y"] outs (some (repl, reduced))).1
    (init cfg staleState ["x0", "x", "y"] outs (some (repl, reduced))).2 = none
    ∧ (call cfg S' [100, 3, 4]).map Prod.snd = .ok [7, 14] := by
  constructor <;> rfl

end SymVerif.C13
