/-
C16 — printing is a function of the value, and parse(str(e)) == e.

Model: `StrP.render` (`Model/StrPrinter.lean`), the model of `StrPrinter` / `Basic::__str__`; the driver
`Drv/C16.lean` runs exactly this function (after `Expr.norm`, the model of building the ordered containers) and is
compared character by character with the real `str(e)`.  `render` is `layout` (all decisions of the C++ printer,
parentheses explicit) followed by the decision-free `flat` and `Tok.text`.

Theorems
  names_roundtrip        every printed function name of a class the parser can build is read back as that class
                         (decide over the tables translated from strprinter.cpp and parser.cpp on every run)
  names_not_parser_known the printed classes the parser has no name for are exactly Truncate and Conjugate
  paren_sound            for every printable expression the tree chosen by the printer is well-parenthesised
                         (`WP`): no operand stands unparenthesised in a position where the grammar would regroup it
  parse_flat             the precedence-climbing parser over the translated `%left/%right` table re-reads the
                         flattening of every well-parenthesised tree as that tree
  roundtrip_syntactic    composition: parsing the tokens printed for a printable expression gives back exactly the
                         tree the printer laid out (same operators, same grouping, same leaves)
  str_congr_partial      `eq` model objects print identically (from C01 `eq_imp_identical`; excludes -0.0 / NaN)
  signed_zero_witness    ... and the exclusion is necessary: eq(0.0, -0.0) holds, the texts differ (defect D1)
  neg_infty_pow_witness  the text `-oo**x` that the code printed for Pow(-oo, x) before the fix re-parses as
                         -(oo**x): a different tree
What is NOT proved: that the smart constructors applied along the parsed tree rebuild an `eq` expression (this is
C04/C07 territory and is checked by the harness oracle on the real library), and the tokenizer (the theorems start
from tokens; `Tok.text` of the printed tokens is what is compared with the real string).
-/
import SymVerif.Lemmas.C16LayoutThm
import SymVerif.Props.C01

namespace SymVerif.C16
open SymVerif SymVerif.Expr SymVerif.StrP
open SymVerif.Gen.PrintNames

/-! ### the name tables -/

/-- the parser table that `Parser::functionify` consults for a class of the given argument kind -/
def parserTable : TC.Kind → List (String × String)
  | .one => parserSingle
  | .two => parserDouble
  | _ => parserMulti

/-- the class the parser builds for the printed name `nm` of class `cls` -/
def parsedClass (cls nm : String) : Option String :=
  match arityOf cls with
  | some k => (parserTable k).lookup nm
  | none => none

/-- classes the parser can build at all (under some name) -/
def parserKnown (cls : String) : Bool :=
  (parserSingle ++ parserDouble ++ parserMulti).any fun p => p.2 == cls

/-- every printed function name of a parser-known class is read back as that class -/
theorem names_roundtrip :
    ∀ p ∈ printNames, parserKnown p.1 = true → parsedClass p.1 p.2 = some p.1 := by decide +kernel

/-- the printed classes the parser has no name for (outside the property's fragment) -/
theorem names_not_parser_known :
    (printNames.filter fun p => !parserKnown p.1).map Prod.fst = ["Truncate", "Conjugate"] := by decide +kernel

/-- the C++ `PrecedenceEnum` is what `cprec` numbers 0 … 4 -/
theorem precEnum_expected : precEnum = ["Relational", "Add", "Mul", "Pow", "Atom"] := by decide +kernel

/-- the string constants of the printer the model reads from the translated file -/
theorem printer_constants : printMul = "*" ∧ powOp = "**" ∧ imagSym = "I" ∧ doubleDigits = 15 := by decide +kernel

/-! ### the syntactic round trip -/

/-- `render` is the text of the flattened layout tree (by definition) -/
theorem render_eq (e : Expr) : render e = toksText (flat (layout e)) := rfl

/-- **paren_sound**: for every printable expression the parenthesisation decisions of the printer
(`parenthesizeLT/LE` on the C++ precedence classes, the numerator/denominator split, sign merging) produce a
well-parenthesised tree. -/
theorem paren_sound (e : Expr) (h : printable e = true) : WP (layout e) = true := layout_wp e h

/-- the parser re-reads the flattening of every well-parenthesised tree -/
theorem parse_flat (t : PExpr) (h : WP t = true) : ∃ f0, ∀ f, f0 ≤ f → parseToks f (flat t) = .ok t :=
  StrP.parse_flat t h

/-- **roundtrip_syntactic**: parsing the tokens printed for `e` gives back exactly the tree the printer laid out. -/
theorem roundtrip_syntactic (e : Expr) (h : printable e = true) :
    ∃ f0, ∀ f, f0 ≤ f → parseToks f (toks e) = .ok (layout e) :=
  StrP.parse_flat (layout e) (layout_wp e h)

/-- non-vacuity: `1 - 2*x + y**2/(3*z)  …` a sum with a negative coefficient, a power, a quotient -/
def ex1 : Expr :=
  add (int 1) [(sym "x", int (-2)),
               (mul (int 1) [(pow (sym "y") (int 2), int 1), (sym "z", int (-1)), (sym "w", rat (-1) 2)], rat 2 3),
               (pow (add (int 0) [(sym "x", int 1), (sym "y", int 1)]) (sym "n"), int (-1))]

example : printable ex1 = true := by decide +kernel
example : ∃ f0, ∀ f, f0 ≤ f → parseToks f (toks ex1) = .ok (layout ex1) :=
  roundtrip_syntactic ex1 (by decide +kernel)
example : render ex1 = "1 - 2*x + (2/3)*y**2/(z*sqrt(w)) - (x + y)**n" := by decide +kernel
example : (match parseToks 64 (toks ex1) with
    | .ok t => decide (flat t = toks ex1)
    | .error _ => false) = true := by decide +kernel

/-! ### the defect fixed in the printer: `Precedence` of negative infinity -/

/-- what the code printed for `Pow(-oo, x)` before the fix: base unparenthesised -/
def negInfPowOld : PExpr := .bin .pow (.neg (.id "oo")) (.id "x")

/-- `-oo**x` is not well-parenthesised and re-parses as `-(oo**x)`, a different tree -/
theorem neg_infty_pow_witness :
    WP negInfPowOld = false ∧
    (match parseToks 16 (flat negInfPowOld) with
      | .ok (.neg (.bin .pow (.id a) (.id b))) => a == "oo" && b == "x"
      | _ => false) = true ∧
    toksText (flat negInfPowOld) = "-oo**x" := by decide +kernel

/-- with `Precedence::bvisit(const Infty &)` the base is parenthesised -/
example : render (pow (infty (-1)) (sym "x")) = "(-oo)**x" := by decide +kernel

/-! ### printing is a function of the value -/

/-- **str_congr** on the model: `eq` expressions (well-formed, no NaN double, no `-0.0`) print identically. -/
theorem str_congr_partial {a b : Expr} (wa : WF a = true) (wb : WF b = true)
    (na : noNaN a = true) (nb : noNaN b = true) (za : noSignedZero a = true) (zb : noSignedZero b = true)
    (h : beq' a b = true) : render a = render b := by
  rw [C01.eq_imp_identical wa wb na nb za zb h]

example : render (add (int 1) [(sym "x", rat 1 2)]) = render (add (int 1) [(sym "x", rat 1 2)]) :=
  str_congr_partial (by decide +kernel) (by decide +kernel) (by decide +kernel) (by decide +kernel)
    (by decide +kernel) (by decide +kernel) (by decide +kernel)

def C16_congr_full : Prop :=
  ∀ a b : Expr, WF a = true → WF b = true → beq' a b = true → render a = render b

/-- the exclusion of `-0.0` is necessary: `eq(0.0, -0.0)` holds (defect D1) and the texts differ -/
theorem signed_zero_witness :
    WF (dbl 0) = true ∧ WF (dbl negZeroBits) = true ∧ beq' (dbl 0) (dbl negZeroBits) = true ∧
    render (dbl 0) = "0.0" ∧ render (dbl negZeroBits) = "-0.0" := by decide +kernel

theorem C16_congr_full_false : ¬ C16_congr_full := fun h => by
  have := h (dbl 0) (dbl negZeroBits) signed_zero_witness.1 signed_zero_witness.2.1 signed_zero_witness.2.2.1
  rw [signed_zero_witness.2.2.2.1, signed_zero_witness.2.2.2.2] at this
  exact absurd this (by decide)

end SymVerif.C16
