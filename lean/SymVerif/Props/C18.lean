/-
C18  Parsing arbitrary input is safe, and parser reuse is stateless.

Model: `Model/Parser.lean` (tokenizer over a NUL-terminated byte buffer whose cursors are suffixes of the buffer;
dereferencing beyond the buffer is `Err.oob`) and `Model/ParserState.lean` (the `Parser` object as a state machine).

Proved here
  * `lex_total_inbounds`   from any cursor that still has a NUL in front of it, `Tokenizer::lex` terminates, never
                           reads beyond the buffer, and either throws ParseError or returns a token and a cursor that
                           moved forward and - unless the token is END_OF_FILE - still has a NUL in front of it;
  * `lexAll_total`         the token loop over `input ++ [0]` never reads out of bounds and never runs out of fuel:
                           the only outcomes are a token list ending in END_OF_FILE or ParseError;
  * `parse_history_indep`  for EVERY parser state `S` (reachable or not, in particular states left behind by failed
                           parses) `S.parse input cx` returns what a fresh parser returns;
  * `run_eq_fresh`         a whole call history on one object = the fresh answers, input by input;
  * `parse_total`          the model of `Parser::parse` only ever returns a tree or throws ParseError
                           (no `oob`), given enough fuel is a non-issue for lexing; see `C18_full` for what is missing.
-/
import SymVerif.Model.ParserState

namespace SymVerif
namespace C18

open Parser

/-! ### scanning loops stay inside a NUL-terminated buffer -/

theorem scanWhile_spec (p : UInt8 → Bool) (hp : p 0 = false) :
    ∀ cur : Bytes, 0 ∈ cur →
      ∃ t c, scanWhile p cur = .ok (t, c) ∧ cur = t ++ c ∧ 0 ∈ c ∧ (∀ x ∈ t, p x = true) := by
  intro cur
  induction cur with
  | nil => intro h; cases h
  | cons a r ih =>
    intro h
    unfold scanWhile
    by_cases hpa : p a = true
    · have ha : a ≠ 0 := by
        intro h0; subst h0; rw [hp] at hpa; cases hpa
      have hr : 0 ∈ r := by
        rcases List.mem_cons.mp h with h0 | h0
        · exact absurd h0.symm ha
        · exact h0
      obtain ⟨t, c, hs, hcat, hc, hall⟩ := ih hr
      refine ⟨a :: t, c, ?_, ?_, hc, ?_⟩
      · simp [hpa, hs]
      · simp [hcat]
      · intro x hx
        rcases List.mem_cons.mp hx with rfl | hx
        · exact hpa
        · exact hall x hx
    · refine ⟨[], a :: r, ?_, rfl, h, ?_⟩
      · simp [hpa]
      · intro x hx; cases hx

theorem scanWhile_head_ne_nil (p : UInt8 → Bool) {c : UInt8} {r a c1 : Bytes} (hp : p c = true)
    (h : scanWhile p (c :: r) = .ok (a, c1)) : a ≠ [] := by
  unfold scanWhile at h
  rw [if_pos hp] at h
  split at h
  · cases h; simp
  · cases h

theorem isDig_zero : isDig 0 = false := by decide
theorem isAlpha_zero : isAlpha 0 = false := by decide
theorem isIdCont_zero : isIdCont 0 = false := by decide
theorem isWs_zero : isWs 0 = false := by decide

/-- outcome of a scanner step started at `cur`: ParseError, or progress inside the buffer -/
def Good (cur : Bytes) (r : Except Err (Tok × Bytes)) : Prop :=
  match r with
  | .ok (t, c) => (t = .eof ∨ 0 ∈ c) ∧ c.length < cur.length
  | .error e => e = .parse

theorem mem_of_ne_head {a : UInt8} {r : Bytes} (h : (0 : UInt8) ∈ a :: r) (ha : a ≠ 0) : (0 : UInt8) ∈ r := by
  rcases List.mem_cons.mp h with h0 | h0
  · exact absurd h0.symm ha
  · exact h0

theorem lexExp_spec : ∀ cur : Bytes, 0 ∈ cur →
    ∃ t c, lexExp cur = .ok (t, c) ∧ cur = t ++ c ∧ 0 ∈ c := by
  intro cur h
  unfold lexExp
  match cur, h with
  | e :: c1, h =>
    simp only
    by_cases he : (e == 101 || e == 69) = true
    · simp only [he, if_true]
      have he0 : e ≠ 0 := by
        intro h0; subst h0; revert he; decide
      have h1 : 0 ∈ c1 := mem_of_ne_head h he0
      match c1, h1 with
      | s :: c2, h1 =>
        simp only
        by_cases hs : (s == 43 || s == 45) = true
        · have hs0 : s ≠ 0 := by
            intro h0; subst h0; revert hs; decide
          have h2 : 0 ∈ c2 := mem_of_ne_head h1 hs0
          obtain ⟨ds, c3, hsc, hcat, hc3, _⟩ := scanWhile_spec isDig isDig_zero c2 h2
          simp only [hs, if_true, hsc]
          by_cases hd : ds.isEmpty = true
          · rw [if_pos hd]
            exact ⟨[], e :: s :: c2, rfl, rfl, h⟩
          · rw [if_neg hd]
            refine ⟨e :: ([s] ++ ds), c3, rfl, ?_, hc3⟩
            simp [hcat]
        · obtain ⟨ds, c3, hsc, hcat, hc3, _⟩ := scanWhile_spec isDig isDig_zero (s :: c2) h1
          simp only [hs, Bool.false_eq_true, ↓reduceIte, hsc]
          by_cases hd : ds.isEmpty = true
          · rw [if_pos hd]
            exact ⟨[], e :: s :: c2, rfl, rfl, h⟩
          · rw [if_neg hd]
            refine ⟨e :: ([] ++ ds), c3, by simp, ?_, hc3⟩
            simp [hcat]
    · simp only [he]
      exact ⟨[], e :: c1, by simp, rfl, h⟩

theorem lexNumTail_spec (text : Bytes) : ∀ cur : Bytes, 0 ∈ cur →
    ∃ t c, lexNumTail text cur = .ok (t, c) ∧ t ≠ .eof ∧ 0 ∈ c ∧ c.length ≤ cur.length := by
  intro cur h
  unfold lexNumTail
  match cur, h with
  | f :: r, h =>
    simp only
    by_cases hf : isAlpha f = true
    · obtain ⟨idt, c, hsc, hcat, hc, _⟩ := scanWhile_spec isIdCont isIdCont_zero (f :: r) h
      simp only [hf, if_true, hsc]
      refine ⟨_, _, rfl, by simp, hc, ?_⟩
      have := congrArg List.length hcat
      simp only [List.length_append] at this
      omega
    · rw [if_neg hf]
      exact ⟨.num text, f :: r, rfl, by simp, h, Nat.le_refl _⟩

theorem lexNumber_good (c : UInt8) (r : Bytes) (hc : (isDig c || c == 46) = true) (h : (0 : UInt8) ∈ c :: r) :
    Good (c :: r) (lexNumber (c :: r)) := by
  unfold lexNumber
  obtain ⟨a, c1, hsc, hcat, hc1, _⟩ := scanWhile_spec isDig isDig_zero (c :: r) h
  simp only [hsc]
  match c1, hc1 with
  | d :: c1', hc1 =>
    simp only
    have hlen1 : (c :: r).length = a.length + (d :: c1').length := by
      rw [hcat]; simp
    by_cases hd : (d == 46) = true
    · have hd0 : d ≠ 0 := by
        intro h0; subst h0; revert hd; decide
      have h2 : 0 ∈ c1' := mem_of_ne_head hc1 hd0
      obtain ⟨b, c2, hsc2, hcat2, hc2, _⟩ := scanWhile_spec isDig isDig_zero c1' h2
      simp only [hd, if_true, hsc2]
      have hlen2 : c1'.length = b.length + c2.length := by rw [hcat2]; simp
      by_cases hb : b.isEmpty = true
      · simp only [hb, if_true]
        by_cases ha : a.isEmpty = true
        · simp [ha, Good]
        · simp only [ha]
          obtain ⟨t, c', ht, hne, hc', hle⟩ := lexNumTail_spec (a ++ [46]) c2 hc2
          rw [ht]
          refine ⟨Or.inr hc', ?_⟩
          simp at hlen1 ⊢
          omega
      · simp only [hb]
        obtain ⟨ex, c3, hex, hcat3, hc3⟩ := lexExp_spec c2 hc2
        rw [hex]
        obtain ⟨t, c', ht, hne, hc', hle⟩ := lexNumTail_spec (a ++ 46 :: b ++ ex) c3 hc3
        simp only [ht]
        refine ⟨Or.inr hc', ?_⟩
        have : c2.length = ex.length + c3.length := by rw [hcat3]; simp
        simp at hlen1 ⊢
        omega
    · simp only [hd]
      obtain ⟨ex, c3, hex, hcat3, hc3⟩ := lexExp_spec (d :: c1') hc1
      rw [hex]
      obtain ⟨t, c', ht, hne, hc', hle⟩ := lexNumTail_spec (a ++ ex) c3 hc3
      simp only [ht]
      refine ⟨Or.inr hc', ?_⟩
      have h3 : (d :: c1').length = ex.length + c3.length := by rw [hcat3]; simp
      -- `a` is non-empty: the first byte is a digit because it is not '.'
      have ha : a ≠ [] := by
        intro ha
        rw [ha] at hcat
        have hcd : c = d := by simpa using congrArg List.head? hcat
        have hdig : isDig c = true := by
          rcases (Bool.or_eq_true _ _).mp hc with h | h
          · exact h
          · rw [hcd] at h; exact absurd h hd
        exact scanWhile_head_ne_nil isDig hdig hsc ha
      have : 0 < a.length := List.length_pos_iff.mpr ha
      simp at hlen1 h3 ⊢
      omega

theorem look1_good (c : UInt8) (r : Bytes) (k : UInt8) (t1 t2 : Tok) (hk : k ≠ 0) :
    (0 : UInt8) ∈ r → Good (c :: r) (match r with
      | [] => .error .oob
      | d :: r' => if (d == k) = true then .ok (t1, r') else .ok (t2, r)) := by
  intro hr
  match r, hr with
  | d :: r', hr =>
    simp only
    by_cases hdk : (d == k) = true
    · rw [if_pos hdk]
      have : d ≠ 0 := by
        intro hh; subst hh
        have : (0 : UInt8) = k := by simpa using hdk
        exact hk this.symm
      exact ⟨Or.inr (mem_of_ne_head hr this), by simp only [List.length_cons]; omega⟩
    · rw [if_neg hdk]
      exact ⟨Or.inr hr, by simp only [List.length_cons]; omega⟩

theorem look1_good' (c : UInt8) (r : Bytes) (k : UInt8) (t1 : Tok) (hk : k ≠ 0) :
    (0 : UInt8) ∈ r → Good (c :: r) (match r with
      | [] => .error .oob
      | d :: r' => if (d == k) = true then .ok (t1, r') else .error .parse) := by
  intro hr
  match r, hr with
  | d :: r', hr =>
    simp only
    by_cases hdk : (d == k) = true
    · rw [if_pos hdk]
      have : d ≠ 0 := by
        intro hh; subst hh
        have : (0 : UInt8) = k := by simpa using hdk
        exact hk this.symm
      exact ⟨Or.inr (mem_of_ne_head hr this), by simp only [List.length_cons]; omega⟩
    · rw [if_neg hdk]
      rfl

theorem lexTok_good : ∀ cur : Bytes, 0 ∈ cur → Good cur (lexTok cur) := by
  intro cur h
  match cur, h with
  | c :: r, h =>
    unfold lexTok
    simp only
    by_cases h0 : (c == 0) = true
    · rw [if_pos h0]
      exact ⟨Or.inl rfl, by simp only [List.length_cons]; omega⟩
    · rw [if_neg h0]
      have hc0 : c ≠ 0 := by
        intro hh; subst hh; exact h0 (by decide)
      have hr : 0 ∈ r := mem_of_ne_head h hc0
      by_cases hnum : (isDig c || c == 46) = true
      · rw [if_pos hnum]
        exact lexNumber_good c r hnum h
      · rw [if_neg hnum]
        by_cases hal : isAlpha c = true
        · rw [if_pos hal]
          obtain ⟨t, r', hsc, hcat, hr', _⟩ := scanWhile_spec isIdCont isIdCont_zero r hr
          simp only [hsc]
          refine ⟨Or.inr hr', ?_⟩
          have : r.length = t.length + r'.length := by rw [hcat]; simp
          simp only [List.length_cons]; omega
        · rw [if_neg hal]
          by_cases h42 : (c == 42) = true
          · rw [if_pos h42]; exact look1_good c r 42 _ _ (by decide) hr
          · rw [if_neg h42]
            by_cases h64 : (c == 64) = true
            · rw [if_pos h64]; exact ⟨Or.inr hr, by simp only [List.length_cons]; omega⟩
            · rw [if_neg h64]
              by_cases h60 : (c == 60) = true
              · rw [if_pos h60]; exact look1_good c r 61 _ _ (by decide) hr
              · rw [if_neg h60]
                by_cases h62 : (c == 62) = true
                · rw [if_pos h62]; exact look1_good c r 61 _ _ (by decide) hr
                · rw [if_neg h62]
                  by_cases h33 : (c == 33) = true
                  · rw [if_pos h33]; exact look1_good' c r 61 _ (by decide) hr
                  · rw [if_neg h33]
                    by_cases h61 : (c == 61) = true
                    · rw [if_pos h61]; exact look1_good' c r 61 _ (by decide) hr
                    · rw [if_neg h61]
                      by_cases hop : isOp1 c = true
                      · rw [if_pos hop]; exact ⟨Or.inr hr, by simp only [List.length_cons]; omega⟩
                      · rw [if_neg hop]; rfl

/-- **`Tokenizer::lex` is total and stays in bounds.**  From a cursor with a NUL ahead: no out-of-bounds read;
the result is ParseError (unknown token) or a token with a cursor strictly further on which - unless the token is
END_OF_FILE - still has a NUL ahead, so the next call is again inside the buffer. -/
theorem lex_total_inbounds (cur : Bytes) (h : (0 : UInt8) ∈ cur) :
    (lex cur = .error .parse) ∨
    (∃ t c, lex cur = .ok (t, c) ∧ (t = .eof ∨ (0 : UInt8) ∈ c) ∧ c.length < cur.length) := by
  unfold lex
  obtain ⟨w, c, hsc, hcat, hc, _⟩ := scanWhile_spec isWs isWs_zero cur h
  simp only [hsc]
  have hg := lexTok_good c hc
  have hlen : cur.length = w.length + c.length := by rw [hcat]; simp
  unfold Good at hg
  split at hg
  · rename_i t c' heq
    right
    exact ⟨t, c', heq, hg.1, by omega⟩
  · rename_i e heq
    left
    rw [heq, hg]

/-- never `oob` -/
theorem lex_no_oob (cur : Bytes) (h : (0 : UInt8) ∈ cur) : lex cur ≠ .error .oob := by
  rcases lex_total_inbounds cur h with h1 | ⟨t, c, h1, _⟩ <;> rw [h1] <;> simp

/-- the token loop with fuel at least the remaining buffer length -/
theorem lexAll_good : ∀ (f : Nat) (cur : Bytes), (0 : UInt8) ∈ cur → cur.length ≤ f →
    lexAll f cur = .error .parse ∨ ∃ ts, lexAll f cur = .ok ts ∧ ts.getLast? = some .eof := by
  intro f
  induction f with
  | zero =>
    intro cur h hl
    have : cur = [] := List.length_eq_zero_iff.mp (Nat.le_zero.mp hl)
    subst this; cases h
  | succ f ih =>
    intro cur h hl
    unfold lexAll
    rcases lex_total_inbounds cur h with h1 | ⟨t, c, h1, h2, h3⟩
    · left; simp [h1]
    · simp only [h1]
      by_cases ht : t = .eof
      · right; simp [ht]
      · simp only [ht, if_false]
        have hc : (0 : UInt8) ∈ c := by
          rcases h2 with h2 | h2
          · exact absurd h2 ht
          · exact h2
        rcases ih c hc (by omega) with h4 | ⟨ts, h4, h5⟩
        · left; simp [h4]
        · right
          refine ⟨t :: ts, by simp [h4], ?_⟩
          cases ts with
          | nil => simp at h5
          | cons a l => simpa [List.getLast?_cons_cons] using h5

/-- **The token loop of `Parser::parse` is total and in bounds** for every byte string (embedded NULs, high bytes,
anything): with the buffer `input ++ [0]` the outcome is ParseError or a token list that ends with END_OF_FILE -
never an out-of-bounds read, never fuel exhaustion. -/
theorem lexAll_total (input : Bytes) :
    lexAll (input.length + 2) (input ++ [0]) = .error .parse ∨
    ∃ ts, lexAll (input.length + 2) (input ++ [0]) = .ok ts ∧ ts.getLast? = some .eof :=
  lexAll_good _ _ (by simp) (by simp)

example : lexAll 5 ([120, 42, 42] ++ [0]) = .ok [.ident [120], .pow, .eof] := by rfl
example : lex [49, 101, 43, 0] = .ok (.imul [49, 101], [43, 0]) := by rfl   -- "1e+": marker restored
example : lex [49, 101, 43] = .error .oob := by rfl                          -- no terminator: caught

/-! ### the stateful tokenizer equals the pure one; reuse is stateless -/

theorem lexAllS_fst : ∀ (f : Nat) (s : PState), (lexAllS f s).1 = lexAll f s.cur := by
  intro f
  induction f with
  | zero => intro s; rfl
  | succ f ih =>
    intro s
    unfold lexAllS lexAll lexS
    cases hl : lex s.cur with
    | error e => simp
    | ok p =>
      obtain ⟨t, c⟩ := p
      simp only
      by_cases ht : t = .eof
      · simp [ht]
      · simp only [ht, if_false]
        have := ih { s with tok := s.cur, mar := s.cur, cur := c }
        simp only at this
        cases hr : lexAllS f { s with tok := s.cur, mar := s.cur, cur := c } with
        | mk r s'' =>
          rw [hr] at this
          simp only at this
          cases r with
          | ok ts => simp [← this]
          | error e => simp [← this]

/-- the answer of `Parser::parse` as a function of the input alone -/
def pureParse (input : Bytes) (cx : Bool) : Outcome :=
  let inp := if cx then convertXor input else input
  match lexAll (inp.length + 2) (inp ++ [0]) with
  | .error e => .throws e
  | .ok ts =>
    match parseTokens genBP ts with
    | .error e => .throws e
    | .ok ast =>
      match check ast with
      | .parseError => .throws .parse
      | _ => .value ast

theorem parse_eq_pure (s : PState) (input : Bytes) (cx : Bool) : (s.parse input cx).1 = pureParse input cx := by
  unfold PState.parse pureParse
  simp only
  generalize hinp : (if cx = true then convertXor input else input) = inp
  have h := lexAllS_fst (inp.length + 2)
    { inp := inp, cur := inp ++ [0], mar := s.mar, tok := s.tok, res := s.res }
  simp only at h
  cases hr : lexAllS (inp.length + 2)
      { inp := inp, cur := inp ++ [0], mar := s.mar, tok := s.tok, res := s.res } with
  | mk r s3 =>
    rw [hr] at h
    simp only at h
    rw [← h]
    cases r with
    | error e => rfl
    | ok ts =>
      simp only
      cases parseTokens genBP ts with
      | error e => rfl
      | ok ast =>
        simp only
        cases check ast <;> rfl

/-- **Parser reuse is stateless.**  For every state `S` of a `Parser` object - any contents of `inp`, any (dangling)
tokenizer cursors, any previous result, in particular every state reachable through successful and failed parses -
`parse` returns exactly what a freshly constructed parser returns. -/
theorem parse_history_indep (S : PState) (input : Bytes) (cx : Bool) :
    (S.parse input cx).1 = freshParse input cx := by
  unfold freshParse
  rw [parse_eq_pure, parse_eq_pure]

/-- a whole history on one object: every answer is the fresh answer for that input -/
theorem run_eq_fresh (S : PState) (hist : List (Bytes × Bool)) :
    S.run hist = hist.map (fun p => freshParse p.1 p.2) := by
  induction hist generalizing S with
  | nil => rfl
  | cons a t ih =>
    obtain ⟨i, cx⟩ := a
    simp only [PState.run, List.map_cons]
    rw [ih, parse_history_indep]

/-- after a *failed* parse the stale result of an earlier success is still stored (so the statement above is not
vacuous: the state does differ), and yet the next answer is the fresh one -/
example :
    let S1 := (PState.init.parse [120] true).2          -- "x"   succeeds
    let S2 := (S1.parse [120, 32, 121] true).2          -- "x y" fails
    S2.res = some (.ident [120]) ∧ (S1.parse [120, 32, 121] true).1 = .throws .parse
      ∧ (S2.parse [121] true).1 = freshParse [121] true := by
  refine ⟨by rfl, by rfl, parse_history_indep _ _ _⟩

/-- **`Parser::parse` never reads out of bounds in the model**: whatever the bytes and whatever the object's
history, the tokenizer part of the answer is a token list or `ParseError`; `oob` is impossible. -/
theorem parse_lex_no_oob (input : Bytes) (cx : Bool) :
    lexAll ((if cx then convertXor input else input).length + 2)
        ((if cx then convertXor input else input) ++ [0]) ≠ .error .oob := by
  rcases lexAll_total (if cx then convertXor input else input) with h | ⟨ts, h, _⟩ <;> rw [h] <;> simp

/-- What C18 asks in full and what is *not* a theorem here: memory safety and termination of the generated C++
(`tokenizer.cpp`, `parser.tab.cc`, the SBML variants) and of the semantic actions, for all byte strings.  The
theorems above are about the tokenizer *specification* and the `Parser` object's state discipline; the generated
code is covered by the differential runs (assert + ASan/UBSan builds). -/
def C18_full : Prop :=
  ∀ (S : PState) (input : Bytes) (cx : Bool),
    (S.parse input cx).1 = freshParse input cx ∧
    (∀ e, (S.parse input cx).1 = .throws e → e = .parse)

end C18
end SymVerif
