/-
C35  refine and simplify preserve value under their assumptions.

Model: SymVerif/Model/Refine.lean (RefineVisitor and SimplifyVisitor on top of the C34 query model).
Semantics: `evalR` of Lemmas/C34Sem.lean.  Every rule of RefineVisitor is guarded by C34 queries; the value
lemmas below use the C34 soundness theorems for exactly those guards.

  refine_value_partial the whole-tree statement: refine (repaired rule set) preserves the value of every
                       expression wherever the input has a real value                (Lemmas/C35Tree.lean)
  maxRule_value, minRule_value   the Max / Min rules: dropped arguments are dominated by a kept one
                                                                                      (Lemmas/C35Ext.lean)
  ruleOne_value        Abs / Sign / Floor / Ceiling / Conjugate / Log rules (Lemmas/C35Rules.lean)
  rulePow_value        the repaired Pow-of-Pow rule: `(x**k)**n → x**(k*n)` for positive x,
                       `→ abs(x)**(k*n)` for real x and an EVEN integer k
  simplifyPow_value    csc(u)**-1 → sin(u), sec(u)**-1 → cos(u), cot(u)**-1 → tan(u)
  sumRaw/prodRaw/…     the TransformVisitor contexts are congruences
  d16_as_coded         the rule as coded (asIs = true) rewrites (x**3)**(1/3) to abs(x) for real x, and
  d16_witness          in ℂ the principal value of ((-2)**3)**(1/3) is not |-2| = 2   (defect D16)
-/
import SymVerif.Lemmas.C35Tree

namespace SymVerif.C35
open SymVerif SymVerif.Queries SymVerif.Refine SymVerif.C34

/-! ## refine preserves the value -/

/-- **C35 for `refine`** (repaired Pow rule; rule nodes whose argument refine leaves unchanged — otherwise the
    model answers `unmodelled`, not `ok`): for every statement list, every assignment satisfying it and every
    expression with a real value, the refined expression has the same value. -/
theorem refine_value_partial {ρ : String → ℝ} {stmts : List Expr} {A : Assumptions} {e r : Expr} {v : ℝ}
    (hb : build stmts = .ok A) (hs : Sat ρ stmts) (hw : wf e = true)
    (hr : refine false A e = .ok r) (hv : evalR ρ e = some v) : evalR ρ r = some v := by
  unfold refine at hr
  split at hr
  · rename_i ro hro
    cases hr
    cases ro with
    | none => exact hv
    | some r' => exact refineF_value (build_sound hb hs) _ e r' v hw hro hv
  · cases hr

/-- the full statement (not asserted): all of `refine` and `simplify`, complex values included -/
def C35_full (evalC : (String → ℂ) → Expr → Option ℂ) (SatC : (String → ℂ) → List Expr → Prop) : Prop :=
  ∀ (ρ : String → ℂ) (stmts : List Expr) (A : Assumptions) (e r : Expr) (v : ℂ),
    build stmts = .ok A → SatC ρ stmts → evalC ρ e = some v →
    (refine true A e = .ok r ∨ simplify true A e = .ok r) → evalC ρ r = some v

/-! ## D16: the rule as coded -/

/-- the statement list `x ∈ ℝ` -/
def xReal : List Expr := [.app "Contains" [.sym "x", .app "Reals" []]]

/-- as coded, `refine((x**3)**(1/3))` is `abs(x)**1` for real `x`; the repaired rule does not fire -/
theorem d16_as_coded : ∃ A, build xReal = .ok A ∧
    ((rulePow true A (.pow (.sym "x") (.int 3)) (.rat 1 3)).any
        fun r => Expr.eqb r (.pow (.app "Abs" [.sym "x"]) (.int 1))) = true ∧
    (rulePow false A (.pow (.sym "x") (.int 3)) (.rat 1 3)).isNone = true :=
  ⟨_, rfl, by decide, by decide⟩

/-- … but in ℂ the principal value of `((-2)**3)**(1/3)` is not `|-2| = 2`: its cube is `-8`. -/
theorem d16_witness : (((-2 : ℂ) ^ (3 : ℕ)) ^ ((1 : ℂ) / 3)) ≠ ((|(-2 : ℝ)| : ℝ) : ℂ) := by
  intro h
  have h3 : (((-2 : ℂ) ^ (3 : ℕ)) ^ ((1 : ℂ) / 3)) ^ (3 : ℕ) = ((-2 : ℂ) ^ (3 : ℕ)) := by
    rw [← Complex.cpow_nat_mul]
    norm_num
  rw [h] at h3
  norm_num at h3


/-! ## non-vacuity -/

/-- `x ∈ ℝ`, `x = -3`: the repaired rule rewrites `(x**2)**(1/2)` to `abs(x)**1`, and the input has a value -/
example : ∃ A, build xReal = .ok A ∧ wf (.pow (.pow (.sym "x") (.int 2)) (.rat 1 2)) = true ∧
    powNonCanon (.pow (.sym "x") (.int 2)) (.rat 1 2) = false ∧
    ((rulePow false A (.pow (.sym "x") (.int 2)) (.rat 1 2)).any
        fun r => Expr.eqb r (.pow (.app "Abs" [.sym "x"]) (.int 1))) = true ∧
    evalR (fun _ => (-3 : ℝ)) (.pow (.pow (.sym "x") (.int 2)) (.rat 1 2)) = some (((-3 : ℝ) ^ 2) ^ ((1 : ℝ) / 2)) := by
  refine ⟨_, rfl, by decide, by decide, by decide, ?_⟩
  simp [evalR, powSem]

/-- the hypotheses of `refine_value_partial` on `x ∈ ℝ`, `e = 1 + (x**2)**(1/2)`: refine answers `ok`, the
    expression is well-formed (its value at `x = -3` is shown above) -/
example : ∃ A r, build xReal = .ok A ∧
    refine false A (.add (.int 1) [(.pow (.pow (.sym "x") (.int 2)) (.rat 1 2), .int 1)]) = .ok r ∧
    wf (.add (.int 1) [(.pow (.pow (.sym "x") (.int 2)) (.rat 1 2), .int 1)]) = true ∧
    Expr.eqb r (sumRaw [.int 1, .pow (.app "Abs" [.sym "x"]) (.int 1)]) = true :=
  ⟨_, _, rfl, rfl, by decide, by decide⟩

/-- `x < 0`: `abs(x)` is rewritten to `-x`, `sign(x)` to `-1` -/
example : ∃ A, build [.app "StrictLessThan" [.sym "x", .int 0]] = .ok A ∧
    ((ruleOne A "Abs" (.sym "x")).any fun r => Expr.eqb r (negRaw (.sym "x"))) = true ∧
    ((ruleOne A "Sign" (.sym "x")).any fun r => Expr.eqb r (.int (-1))) = true ∧
    evalR (fun _ => (-3 : ℝ)) (.app "Abs" [.sym "x"]) = some 3 := by
  refine ⟨_, rfl, by decide, by decide, ?_⟩
  simp [evalR, evalArgs, appSem]

/-- `csc(x)**-1` -/
example : (simplifyPow (.int (-1)) (.app "Csc" [.sym "x"])).1 = .int 1 := rfl

end SymVerif.C35
