/-
C20  Deserializing untrusted bytes is memory-safe.   (claimed level: PARTIAL)

Model: SymVerif/Model/Codec.lean, `decode : Nat → List UInt8 → Except Err Expr` = Basic::loads on arbitrary bytes
(total; performs the loader's checks and only those).

What is proved (parser level, on the model):
  decode_total        the decoder is total and its nesting fuel (stream length + 1) is never exhausted: the
                      error `fuel` is unreachable, every outcome is an expression or one of the loader's exceptions
  decode_no_oob       every scalar/string read is guarded by a length check (`read_checked`) and what the decoder
                      leaves is a suffix of what it was given: it never consumes bytes that are not there
  decode_typesafe     whatever a load site of static type `c` receives (freshly built or through a back-reference)
                      is an object whose *dynamic* class derives from `c`: the `rcp_static_cast` is sound, also
                      when Rational::from_two_ints / Complex::from_two_nums return an object of another class
  loaded_is_constructed  a successful parse always yields a constructed expression
What is refuted:
  not_C20_full        `decode bs = ok e → canonNec e` is FALSE: explicit byte strings decode to objects that violate
                      the canonical-form conditions checked by Add/Mul/Pow/Infty::is_canonical, and to And()/Max()
                      without arguments (which the printers / evaluators dereference: observed SIGSEGV).
Not covered by proof (runtime only, observed by the harness under ASan/UBSan): memory safety of cereal/libstdc++
on hostile lengths, recursion depth of the real loader, bool fields holding bytes other than 0/1.
-/
import SymVerif.Lemmas.C20Dec

namespace SymVerif.C20
open SymVerif SymVerif.Codec

/-- reads are length-checked: a failing read is `eof` exactly when too few bytes are left -/
theorem read_checked (swap : Bool) (w : Nat) (bs : Bytes) :
    (∀ e, rdNat swap w bs = .error e → e = .eof ∧ bs.length < w) ∧
    (∀ n rest, rdNat swap w bs = .ok (n, rest) → w ≤ bs.length ∧ rest = bs.drop w) := by
  constructor
  · intro e h
    unfold rdNat at h
    split at h
    · simp at h
    · simp at h; exact ⟨h.symm, by omega⟩
  · intro n rest h
    obtain ⟨h1, h2⟩ := rdNat_suffix h
    exact ⟨h2, h1⟩

/-- the decoder only consumes bytes that exist: its remainder is a suffix of its input -/
theorem decode_no_oob (cfg : Cfg) (fuel : Nat) (c : Cls) (m : Map) (bs : Bytes) (t : T) (m' : Map) (rest : Bytes)
    (h : decT cfg fuel c m bs = .ok (t, m', rest)) : ∃ consumed, consumed ++ rest = bs :=
  (decT_recOK cfg fuel).suffix c m bs t m' rest h

/-- every object handed to a load site has a class the site may cast to -/
theorem decode_typesafe (cfg : Cfg) (fuel : Nat) (c : Cls) (m : Map) (bs : Bytes) (t : T) (m' : Map) (rest : Bytes)
    (h : decT cfg fuel c m bs = .ok (t, m', rest)) :
    ∃ e, semT t = .ok e ∧ isA c (Expr.className e) = true :=
  (decT_recOK cfg fuel).typed c m bs t m' rest h

theorem decHeader_ne_fuel (bs : Bytes) : decHeader bs ≠ .error .fuel := by
  unfold decHeader
  split
  · simp
  · simp only
    split
    · simp
    · split
      · simp
      · split <;> simp

theorem decodeT_ne_fuel (cap : Nat) (bs : Bytes) : decodeT cap bs ≠ .error .fuel := by
  unfold decodeT
  split
  · rename_i e h; intro h'; simp at h'; subst h'; exact decHeader_ne_fuel bs h
  · rename_i sw bs1 h
    split
    · rename_i e h2; intro h'; simp at h'; subst h'
      exact (decT_recOK ⟨sw, cap⟩ (bs1.length + 1)).nofuel .basic [] bs1 (by omega) h2
    · simp

/-- a successful parse always yields a constructed expression -/
theorem loaded_is_constructed (cap : Nat) (bs : Bytes) (t : T) (h : decodeT cap bs = .ok t) :
    ∃ e, decode cap bs = .ok e ∧ semT t = .ok e := by
  unfold decode
  rw [h]
  unfold decodeT at h
  split at h
  · simp at h
  · rename_i sw bs1 _
    split at h
    · simp at h
    · rename_i t' m' rest hd
      simp at h; subst h
      obtain ⟨e, he, _⟩ := (decT_recOK ⟨sw, cap⟩ (bs1.length + 1)).typed .basic [] bs1 _ _ _ hd
      exact ⟨e, he, he⟩

/-- totality with a real content: the fuel bound is sufficient for EVERY byte string -/
theorem decode_total (cap : Nat) (bs : Bytes) :
    (∃ r, decode cap bs = r) ∧ decode cap bs ≠ .error .fuel := by
  refine ⟨⟨_, rfl⟩, ?_⟩
  unfold decode
  split
  · rename_i e h; intro h'; simp at h'; subst h'; exact decodeT_ne_fuel cap bs h
  · rename_i t h
    obtain ⟨e, _, he⟩ := loaded_is_constructed cap bs t h
    rw [he]; simp

/-! ### the canonical-form question -/

def isZero : Expr → Bool
  | .int 0 => true
  | _ => false

def isIntOrRat : Expr → Bool
  | .int _ => true
  | .rat _ _ => true
  | _ => false

def isInt : Expr → Bool
  | .int _ => true
  | _ => false

mutual
  /-- conjuncts of Add/Mul/Pow/Infty::is_canonical (necessary conditions of canonical form), and non-empty argument
      lists for the classes whose printers / evaluators read the first argument unconditionally -/
  def canonNec : Expr → Bool
    | .add c ts =>
      !ts.isEmpty && !(ts.length == 1 && isZero c) && canonNec c && canonAddTerms ts
    | .mul c ts =>
      !isZero c && !ts.isEmpty && canonNec c && canonMulTerms ts
    | .pow b e =>
      !(match b with | .int 1 => true | _ => false) && !isZero e && !(match e with | .int 1 => true | _ => false)
        && !(isIntOrRat b && isInt e) && canonNec b && canonNec e
    | .infty d => d == 1 || d == -1 || d == 0
    | .fsym _ args => canonList args
    | .app h args =>
      !(["And", "Or", "Xor", "Union", "Piecewise", "Max", "Min"].contains h && args.isEmpty) && canonList args
    | _ => true
  def canonAddTerms : List (Expr × Expr) → Bool
    | [] => true
    | (k, v) :: t => !k.isNum && !isZero v && canonNec k && canonNec v && canonAddTerms t
  def canonMulTerms : List (Expr × Expr) → Bool
    | [] => true
    | (k, v) :: t =>
      !(isIntOrRat k && isInt v) && !isZero v && canonNec k && canonNec v && canonMulTerms t
  def canonList : List Expr → Bool
    | [] => true
    | a :: t => canonNec a && canonList t
end

/-- the statement C20 needs for "anything it returns can be printed, hashed, compared and evaluated" -/
def C20_full : Prop := ∀ (cap : Nat) (bs : Bytes) (e : Expr), decode cap bs = .ok e → canonNec e = true

/-! concrete streams (also replayed on the real loader by harness/c20.cpp, tags noncanon-*, empty-container) -/
def wAddZero : Bytes := [1, 0, 0, 14, 0, 96, 16, 0, 0, 0, 0, 0, 0, 1, 16, 16, 16, 0, 0, 0, 0, 0, 0, 1, 0, 1, 0, 0, 0, 0, 0, 0, 0, 48, 2, 0, 0, 0, 0, 0, 0, 0, 32, 16, 0, 0, 0, 0, 0, 0, 1, 13, 1, 0, 0, 0, 0, 0, 0, 0, 120, 48, 16, 0, 0, 0, 0, 0, 0, 1, 0, 1, 0, 0, 0, 0, 0, 0, 0, 48, 64, 16, 0, 0, 0, 0, 0, 0, 1, 13, 1, 0, 0, 0, 0, 0, 0, 0, 121, 80, 16, 0, 0, 0, 0, 0, 0, 1, 0, 1, 0, 0, 0, 0, 0, 0, 0, 49]
-- hex: 0100000e00601000000000000001101010000000000000010001000000000000003002000000000000002010000000000000010d010000000000000078301000000000000001000100000000000000304010000000000000010d01000000000000007950100000000000000100010000000000000031
def wPowOne : Bytes := [1, 0, 0, 14, 0, 144, 16, 0, 0, 0, 0, 0, 0, 1, 17, 112, 16, 0, 0, 0, 0, 0, 0, 1, 13, 1, 0, 0, 0, 0, 0, 0, 0, 120, 128, 16, 0, 0, 0, 0, 0, 0, 1, 0, 1, 0, 0, 0, 0, 0, 0, 0, 49]
-- hex: 0100000e00901000000000000001117010000000000000010d01000000000000007880100000000000000100010000000000000031
def wMulNumKey : Bytes := [1, 0, 0, 14, 0, 240, 16, 0, 0, 0, 0, 0, 0, 1, 15, 160, 16, 0, 0, 0, 0, 0, 0, 1, 0, 1, 0, 0, 0, 0, 0, 0, 0, 49, 2, 0, 0, 0, 0, 0, 0, 0, 176, 16, 0, 0, 0, 0, 0, 0, 1, 0, 1, 0, 0, 0, 0, 0, 0, 0, 50, 192, 16, 0, 0, 0, 0, 0, 0, 1, 0, 1, 0, 0, 0, 0, 0, 0, 0, 51, 208, 16, 0, 0, 0, 0, 0, 0, 1, 13, 1, 0, 0, 0, 0, 0, 0, 0, 120, 224, 16, 0, 0, 0, 0, 0, 0, 1, 0, 1, 0, 0, 0, 0, 0, 0, 0, 49]
-- hex: 0100000e00f010000000000000010fa01000000000000001000100000000000000310200000000000000b0100000000000000100010000000000000032c0100000000000000100010000000000000033d010000000000000010d010000000000000078e0100000000000000100010000000000000031
def wInftyFive : Bytes := [1, 0, 0, 14, 0, 16, 17, 0, 0, 0, 0, 0, 0, 1, 7, 0, 17, 0, 0, 0, 0, 0, 0, 1, 0, 1, 0, 0, 0, 0, 0, 0, 0, 53]
-- hex: 0100000e001011000000000000010700110000000000000100010000000000000035
def wAndEmpty : Bytes := [1, 0, 0, 14, 0, 32, 17, 0, 0, 0, 0, 0, 0, 1, 99, 0, 0, 0, 0, 0, 0, 0, 0]
-- hex: 0100000e00201100000000000001630000000000000000
def wMaxEmpty : Bytes := [1, 0, 0, 14, 0, 48, 17, 0, 0, 0, 0, 0, 0, 1, 78, 0, 0, 0, 0, 0, 0, 0, 0]
-- hex: 0100000e003011000000000000014e0000000000000000
def wRatTwoFour : Bytes := [1, 0, 0, 14, 0, 96, 17, 0, 0, 0, 0, 0, 0, 1, 1, 64, 17, 0, 0, 0, 0, 0, 0, 1, 0, 1, 0, 0, 0, 0, 0, 0, 0, 50, 80, 17, 0, 0, 0, 0, 0, 0, 1, 0, 1, 0, 0, 0, 0, 0, 0, 0, 52]
-- hex: 0100000e00601100000000000001014011000000000000010001000000000000003250110000000000000100010000000000000034

set_option maxRecDepth 100000 in
/-- 0*x + y : an Add with a zero coefficient (Add::is_canonical fails: assertion abort in assert builds) -/
theorem wAddZero_decodes :
    decode (2 ^ 26) wAddZero = .ok (.add (.int 0) [(.sym "x", .int 0), (.sym "y", .int 1)]) := by rfl

set_option maxRecDepth 100000 in
theorem wPowOne_decodes : decode (2 ^ 26) wPowOne = .ok (.pow (.sym "x") (.int 1)) := by rfl

set_option maxRecDepth 100000 in
theorem wMulNumKey_decodes :
    decode (2 ^ 26) wMulNumKey = .ok (.mul (.int 1) [(.int 2, .int 3), (.sym "x", .int 1)]) := by rfl

set_option maxRecDepth 100000 in
theorem wInftyFive_decodes : decode (2 ^ 26) wInftyFive = .ok (.infty 5) := by rfl

set_option maxRecDepth 100000 in
/-- 23 bytes that load as `And()`; printing it dereferences begin() of an empty set (SIGSEGV observed) -/
theorem wAndEmpty_decodes : decode (2 ^ 26) wAndEmpty = .ok (.app "And" []) := by rfl

set_option maxRecDepth 100000 in
/-- 23 bytes that load as `Max()`; eval_double dereferences begin() of an empty vector (SIGSEGV observed) -/
theorem wMaxEmpty_decodes : decode (2 ^ 26) wMaxEmpty = .ok (.app "Max" []) := by rfl

set_option maxRecDepth 100000 in
/-- Rational is NOT a counterexample: Rational::from_two_ints canonicalises 2/4 to 1/2 -/
theorem wRatTwoFour_decodes : decode (2 ^ 26) wRatTwoFour = .ok (.rat 1 2) := by rfl

/-- the loader does not establish canonical form -/
theorem not_C20_full : ¬ C20_full := by
  intro h
  have := h (2 ^ 26) wAddZero _ wAddZero_decodes
  exact absurd this (by decide)

/-- each witness violates a different class's conditions -/
theorem witnesses_noncanonical :
    canonNec (.add (.int 0) [(.sym "x", .int 0), (.sym "y", .int 1)]) = false ∧
    canonNec (.pow (.sym "x") (.int 1)) = false ∧
    canonNec (.mul (.int 1) [(.int 2, .int 3), (.sym "x", .int 1)]) = false ∧
    canonNec (.infty 5) = false ∧
    canonNec (.app "And" []) = false ∧
    canonNec (.app "Max" []) = false := by decide

/-! ### non-vacuity of the safety theorems: a hostile stream (type code 200) and a truncated one -/

set_option maxRecDepth 100000 in
example : decode (2 ^ 26) [1, 0, 0, 14, 0, 16, 0, 0, 0, 0, 0, 0, 0, 1, 200] = .error .tcRange := by rfl
set_option maxRecDepth 100000 in
example : decode (2 ^ 26) (wPowOne.take 40) = .error .eof := by rfl
set_option maxRecDepth 100000 in
example : ∃ t, decodeT (2 ^ 26) wPowOne = .ok t ∧ ∃ e, semT t = .ok e ∧ isA .basic (Expr.className e) = true := by
  refine ⟨(decodeT (2 ^ 26) wPowOne).toOption.getD default, by rfl, .pow (.sym "x") (.int 1), by rfl, by decide⟩

end SymVerif.C20
