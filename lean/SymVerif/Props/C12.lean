/-
C12 — double-precision evaluation (eval_double / eval_double_single_dispatch /
eval_complex_double / evalf ≤ 53 bits).

What is proved here (all about the *translated* definition tables of
Gen/EvalFormulas.lean, i.e. about what the C++ sources say on this run, and about
the generic evaluator `evalG` that the driver executes at `Float`):

 1. `visitor_table_agree` / `table_agree_sound`: every entry of the single-dispatch table
    init_eval_double() is the visitor's definition of the same node kind (up to the harmless
    re-evaluation of the first operand in the table's Max/Min loop), and equal definitions give
    equal values.
 2. `*_spec`: for each node kind whose C++ body is a *derived* formula, the formula interpreted
    over ℝ (Mathlib functions) satisfies the defining property of the function.
 3. `evalG_add`, `evalG_mul`, `evalG_pow`, `evalG_app_fn`: compositionality of `evalG`.

The full statement of the property (`C12_full`) involves IEEE-754 rounding and the accuracy of
libm; that part is outside the kernel (Lean's `Float` is opaque) and is checked at run time by the
correspondence harness and its long-double accuracy oracle.  The claim is therefore *partial*.
-/
import SymVerif.Lemmas.C12Real
import SymVerif.Gen.EvalFormulas
import Mathlib.NumberTheory.Real.GoldenRatio
import Mathlib.Tactic.NormNum
import Mathlib.Tactic.Linarith
import Mathlib.Tactic.FieldSimp

namespace SymVerif.C12
open SymVerif SymVerif.EvalG

/-! ## 1. single-dispatch table vs visitor -/

def maxStep : Formula := .call2 .max (.arg 0) (.arg 1)
def minStep : Formula := .call2 .min (.arg 0) (.arg 1)

/-- `a` (table entry) agrees with `b` (visitor entry): identical, or both are the Max/Min fold and
the table merely starts its loop at operand 0 instead of 1. -/
def agreeDef (a b : NodeDef) : Bool :=
  match a, b with
  | .foldFirst 0 s, .foldFirst 1 s' => decide (s = s') && (decide (s = maxStep) || decide (s = minStep))
  | a, b => decide (a = b)

/-- "the single-dispatch and visitor evaluators agree", definition level: re-checked by `decide`
against the tables regenerated from eval_double.cpp on every run. -/
theorem visitor_table_agree :
    ∀ p ∈ Gen.tableSD, ∃ d, Gen.visitorReal.find p.1 = some d ∧ agreeDef p.2 d = true := by
  decide

/-- a number structure in which `max a a = a` and `min a a = a` (true for `Float`'s std::max/min and for ℝ) -/
def IdemMaxMin {α : Type} (O : NumOps α) : Prop :=
  ∀ a, O.call2 .max a a = some a ∧ O.call2 .min a a = some a

/-- the value a `foldFirst` definition assigns to evaluated operands (as in `evalG`) -/
def foldFirstVal {α : Type} (O : NumOps α) (start : Nat) (step : Formula) (vs : List α) : Except Err α :=
  match vs with
  | [] => .error .badArg
  | v0 :: _ => foldVals O step v0 (vs.drop start)

/-- semantic content of the Max/Min exception in `agreeDef`: starting the loop at the first operand
again does not change the result. -/
theorem table_agree_sound {α : Type} (O : NumOps α) (h : IdemMaxMin O) (s : Formula)
    (hs : s = maxStep ∨ s = minStep) (vs : List α) :
    foldFirstVal O 0 s vs = foldFirstVal O 1 s vs := by
  cases vs with
  | nil => rfl
  | cons v0 rest =>
    have step0 : evalF O [v0, v0] s = .ok v0 := by
      rcases hs with rfl | rfl
      · simp [maxStep, evalF, optErr, (h v0).1, bind, Except.bind]
      · simp [minStep, evalF, optErr, (h v0).2, bind, Except.bind]
    simp [foldFirstVal, foldVals, step0, bind, Except.bind]

theorem floatOps_idem (sp : SpecTable) : IdemMaxMin (floatOps sp) := by
  intro a
  simp [floatOps, stdMax, stdMin]

theorem realOps_idem (erf erfc : ℝ → ℝ) : IdemMaxMin (realOps erf erfc) := by
  intro a
  simp [realOps]

/-- the function-call node kinds are defined identically in all three evaluators -/
def isFnDef : NodeDef → Bool
  | .fn _ => true
  | _ => false

theorem lambda_visitor_fn_agree :
    ∀ p ∈ Gen.visitorReal, isFnDef p.2 = true → Gen.lambdaReal.find p.1 = some p.2 := by
  decide

/-- the complex visitor shares every definition of the generic visitor template with the real one -/
theorem complex_shares_generic :
    ∀ p ∈ Gen.visitorGeneric, Gen.visitorReal.find p.1 = some p.2 := by
  decide

/-! ## 2. derived formulas over ℝ satisfy the functions' defining properties -/

section Specs
variable (erf erfc : ℝ → ℝ)

local notation "R" => realOps erf erfc

macro "eval_node" : tactic =>
  `(tactic| simp [nodeVal, Gen.visitorReal, Gen.lambdaReal, Defs.find, evalF, realOps, optErr, bind,
      Except.bind, pure, Except.pure, NumOps.ofBool, NumOps.cmp, NumOps.truthy])

/-- cot: `1/tan x` is cos/sin -/
theorem cot_spec (x : ℝ) (hx : Real.sin x ≠ 0) :
    ∃ y, nodeVal R Gen.visitorReal "Cot" [x] = .ok y ∧ y * Real.sin x = Real.cos x := by
  refine ⟨1 / Real.tan x, by eval_node, ?_⟩
  rw [Real.tan_eq_sin_div_cos, one_div_div, div_mul_cancel₀ _ hx]

theorem sec_spec (x : ℝ) (hx : Real.cos x ≠ 0) :
    ∃ y, nodeVal R Gen.visitorReal "Sec" [x] = .ok y ∧ y * Real.cos x = 1 := by
  refine ⟨1 / Real.cos x, by eval_node, ?_⟩
  field_simp

theorem csc_spec (x : ℝ) (hx : Real.sin x ≠ 0) :
    ∃ y, nodeVal R Gen.visitorReal "Csc" [x] = .ok y ∧ y * Real.sin x = 1 := by
  refine ⟨1 / Real.sin x, by eval_node, ?_⟩
  field_simp

private theorem inv_bounds {x : ℝ} (hx : 1 ≤ |x|) : -1 ≤ 1 / x ∧ 1 / x ≤ 1 := by
  have h : |1 / x| ≤ 1 := by
    rw [abs_div, abs_one, div_le_one (by linarith)]
    exact hx
  exact abs_le.mp h

/-- asec: principal value in [0, π] whose cosine is 1/x -/
theorem asec_spec (x : ℝ) (hx : 1 ≤ |x|) :
    ∃ y, nodeVal R Gen.visitorReal "ASec" [x] = .ok y ∧ Real.cos y = 1 / x ∧ 0 ≤ y ∧ y ≤ Real.pi := by
  obtain ⟨h1, h2⟩ := inv_bounds hx
  exact ⟨Real.arccos (1 / x), by eval_node, Real.cos_arccos h1 h2, Real.arccos_nonneg _, Real.arccos_le_pi _⟩

/-- acsc: principal value in [-π/2, π/2] whose sine is 1/x -/
theorem acsc_spec (x : ℝ) (hx : 1 ≤ |x|) :
    ∃ y, nodeVal R Gen.visitorReal "ACsc" [x] = .ok y ∧ Real.sin y = 1 / x
      ∧ -(Real.pi / 2) ≤ y ∧ y ≤ Real.pi / 2 := by
  obtain ⟨h1, h2⟩ := inv_bounds hx
  exact ⟨Real.arcsin (1 / x), by eval_node, Real.sin_arcsin h1 h2, Real.neg_pi_div_two_le_arcsin _,
    Real.arcsin_le_pi_div_two _⟩

/-- acot: value in (-π/2, π/2) whose tangent is 1/x, i.e. cot y = x -/
theorem acot_spec (x : ℝ) (hx : x ≠ 0) :
    ∃ y, nodeVal R Gen.visitorReal "ACot" [x] = .ok y ∧ Real.tan y * x = 1
      ∧ -(Real.pi / 2) < y ∧ y < Real.pi / 2 := by
  refine ⟨Real.arctan (1 / x), by eval_node, ?_, Real.neg_pi_div_two_lt_arctan _, Real.arctan_lt_pi_div_two _⟩
  rw [Real.tan_arctan]
  field_simp

theorem coth_spec (x : ℝ) (hx : Real.sinh x ≠ 0) :
    ∃ y, nodeVal R Gen.visitorReal "Coth" [x] = .ok y ∧ y * Real.sinh x = Real.cosh x := by
  refine ⟨1 / Real.tanh x, by eval_node, ?_⟩
  rw [Real.tanh_eq_sinh_div_cosh, one_div_div, div_mul_cancel₀ _ hx]

theorem sech_spec (x : ℝ) :
    ∃ y, nodeVal R Gen.visitorReal "Sech" [x] = .ok y ∧ y * Real.cosh x = 1 := by
  refine ⟨1 / Real.cosh x, by eval_node, ?_⟩
  have := (Real.cosh_pos x).ne'
  field_simp

theorem csch_spec (x : ℝ) (hx : Real.sinh x ≠ 0) :
    ∃ y, nodeVal R Gen.visitorReal "Csch" [x] = .ok y ∧ y * Real.sinh x = 1 := by
  refine ⟨1 / Real.sinh x, by eval_node, ?_⟩
  field_simp

/-- acsch: the value whose sinh is 1/x -/
theorem acsch_spec (x : ℝ) :
    ∃ y, nodeVal R Gen.visitorReal "ACsch" [x] = .ok y ∧ Real.sinh y = 1 / x := by
  exact ⟨Real.arsinh (1 / x), by eval_node, Real.sinh_arsinh _⟩

/-- acoth: the value whose tanh is 1/x (|x| > 1) -/
theorem acoth_spec (x : ℝ) (hx : 1 < |x|) :
    ∃ y, nodeVal R Gen.visitorReal "ACoth" [x] = .ok y ∧ Real.tanh y = 1 / x := by
  refine ⟨Real.artanh (1 / x), by eval_node, Real.tanh_artanh ?_⟩
  have h : |1 / x| < 1 := by
    rw [abs_div, abs_one, div_lt_one (by linarith)]
    exact hx
  exact abs_lt.mp h

/-- asech: the non-negative value whose cosh is 1/x (0 < x ≤ 1) -/
theorem asech_spec (x : ℝ) (h0 : 0 < x) (h1 : x ≤ 1) :
    ∃ y, nodeVal R Gen.visitorReal "ASech" [x] = .ok y ∧ Real.cosh y = 1 / x ∧ 0 ≤ y := by
  have h : 1 ≤ 1 / x := by
    rw [le_div_iff₀ h0]
    linarith
  exact ⟨Real.arcosh (1 / x), by eval_node, Real.cosh_arcosh h, Real.arcosh_nonneg h⟩

/-- sign (LambdaRealDoubleVisitor): the nested conditional is the sign function -/
theorem sign_spec (x : ℝ) :
    ∃ y, nodeVal R Gen.lambdaReal "Sign" [x] = .ok y
      ∧ (x = 0 → y = 0) ∧ (x < 0 → y = -1) ∧ (0 < x → y = 1) := by
  rcases lt_trichotomy x 0 with h | h | h
  · refine ⟨-1, ?_, ?_, ?_, ?_⟩
    · have : x ≠ 0 := h.ne
      eval_node
      simp [this, h]
    · intro h0; linarith
    · intro _; rfl
    · intro h0; linarith
  · subst h
    refine ⟨0, by eval_node, fun _ => rfl, fun h => absurd h (lt_irrefl _), fun h => absurd h (lt_irrefl _)⟩
  · refine ⟨1, ?_, ?_, ?_, ?_⟩
    · have h1 : x ≠ 0 := h.ne'
      have h2 : ¬ x < 0 := not_lt.mpr h.le
      eval_node
      simp [h1, h2]
    · intro h0; linarith
    · intro h0; linarith
    · intro _; rfl

/-- relational nodes return the indicator (1/0) of the relation -/
theorem lt_spec (a b : ℝ) :
    nodeVal R Gen.visitorReal "StrictLessThan" [a, b] = .ok (if a < b then 1 else 0) := by
  by_cases h : a < b <;> eval_node

theorem le_spec (a b : ℝ) :
    nodeVal R Gen.visitorReal "LessThan" [a, b] = .ok (if a ≤ b then 1 else 0) := by
  by_cases h : a ≤ b <;> eval_node

theorem eq_spec (a b : ℝ) :
    nodeVal R Gen.visitorReal "Equality" [a, b] = .ok (if a = b then 1 else 0) := by
  by_cases h : a = b <;> eval_node

theorem ne_spec (a b : ℝ) :
    nodeVal R Gen.visitorReal "Unequality" [a, b] = .ok (if a ≠ b then 1 else 0) := by
  by_cases h : a = b <;> eval_node

/-! ### constants -/

/-- value of a Constant under a table -/
def constVal {α : Type} (O : NumOps α) (defs : Defs) (name : String) : Except Err α :=
  match defs.find "Constant" with
  | some (.const tbl) =>
    match tbl.lookup name with
    | some f => evalF O [] f
    | none => .error .notImpl
  | _ => .error .notImpl

macro "eval_const" : tactic =>
  `(tactic| simp [constVal, Gen.visitorReal, Defs.find, List.lookup, evalF, realOps, optErr, bind,
      Except.bind, pure, Except.pure])

/-- `atan2(0, -1)` is π -/
theorem pi_spec : constVal R Gen.visitorReal "pi" = .ok Real.pi := by
  have h : Complex.arg ⟨-1, 0⟩ = Real.pi := by
    have : (⟨-1, 0⟩ : ℂ) = -1 := by apply Complex.ext <;> simp
    rw [this, Complex.arg_neg_one]
  eval_const
  simpa using h

/-- `exp(1)` is e -/
theorem e_spec : constVal R Gen.visitorReal "E" = .ok (Real.exp 1) := by
  eval_const

/-- the GoldenRatio literal is within 10⁻²¹ of (1+√5)/2 -/
theorem goldenRatio_spec :
    ∃ y, constVal R Gen.visitorReal "GoldenRatio" = .ok y ∧ |y - Real.goldenRatio| < 1 / 10 ^ 21 := by
  refine ⟨(3236067977499789696409 : ℝ) / 2000000000000000000000, by eval_const, ?_⟩
  set y : ℝ := (3236067977499789696409 : ℝ) / 2000000000000000000000 with hy
  have hφ : Real.goldenRatio ^ 2 = Real.goldenRatio + 1 := Real.goldenRatio_sq
  have hφ1 : 1 < Real.goldenRatio := Real.one_lt_goldenRatio
  -- (y - φ)(y + φ - 1) = y² - y - 1
  have key : (y - Real.goldenRatio) * (y + Real.goldenRatio - 1) = y ^ 2 - y - 1 := by
    have : y ^ 2 - y - 1 = y ^ 2 - y - 1 - (Real.goldenRatio ^ 2 - Real.goldenRatio - 1) := by
      rw [hφ]; ring
    rw [this]; ring
  have hpos : 1 < y + Real.goldenRatio - 1 := by
    have : (1 : ℝ) < y := by rw [hy]; norm_num
    linarith
  have hsmall : |y ^ 2 - y - 1| < 1 / 10 ^ 21 := by
    rw [hy, abs_lt]; constructor <;> norm_num
  have : |y - Real.goldenRatio| * (y + Real.goldenRatio - 1) < 1 / 10 ^ 21 := by
    rw [← abs_of_pos (lt_trans one_pos hpos), ← abs_mul, key]
    exact hsmall
  nlinarith [abs_nonneg (y - Real.goldenRatio)]

/-! ### Pow with base E -/

/-- The `base == E` special case is value preserving: it returns what the general branch returns
on the value of the constant E. -/
theorem powE_consistent (e : ℝ) :
    ∃ b y, constVal R Gen.visitorReal "E" = .ok b
      ∧ powVal R (Gen.visitorReal.find "Pow") true (.ok b) e = .ok y
      ∧ powVal R (Gen.visitorReal.find "Pow") false (.ok b) e = .ok y := by
  refine ⟨Real.exp 1, Real.exp e, e_spec erf erfc, ?_, ?_⟩
  · simp [powVal, Gen.visitorReal, Defs.find, evalF, realOps, optErr, bind, Except.bind]
  · simp [powVal, Gen.visitorReal, Defs.find, evalF, realOps, optErr, bind, Except.bind, Real.exp_one_rpow]

/-! ### Max / Min folds -/

theorem foldVals_max (v0 : ℝ) (vs : List ℝ) :
    foldVals R maxStep v0 vs = .ok (vs.foldl max v0) := by
  induction vs generalizing v0 with
  | nil => rfl
  | cons v rest ih =>
    have : evalF R [v0, v] maxStep = .ok (max v0 v) := by
      simp [maxStep, evalF, realOps, optErr, bind, Except.bind, max_def]
      split_ifs <;> first | rfl | linarith
    simp [foldVals, this, bind, Except.bind, ih]

theorem foldVals_min (v0 : ℝ) (vs : List ℝ) :
    foldVals R minStep v0 vs = .ok (vs.foldl min v0) := by
  induction vs generalizing v0 with
  | nil => rfl
  | cons v rest ih =>
    have : evalF R [v0, v] minStep = .ok (min v0 v) := by
      simp [minStep, evalF, realOps, optErr, bind, Except.bind, min_def]
      split_ifs <;> first | rfl | linarith
    simp [foldVals, this, bind, Except.bind, ih]

/-- the visitor's Max definition is the `max`-fold (whose value is the greatest operand) -/
theorem max_def_is_fold : Gen.visitorReal.find "Max" = some (.foldFirst 1 maxStep)
    ∧ Gen.visitorReal.find "Min" = some (.foldFirst 1 minStep) := by
  decide

theorem max_spec (v0 : ℝ) (vs : List ℝ) :
    ∃ y, foldFirstVal R 1 maxStep (v0 :: vs) = .ok y ∧ y ∈ v0 :: vs ∧ ∀ v ∈ v0 :: vs, v ≤ y := by
  refine ⟨vs.foldl max v0, by simp [foldFirstVal, foldVals_max], ?_, ?_⟩
  · have mem : ∀ (l : List ℝ) (a : ℝ), l.foldl max a ∈ a :: l := by
      intro l
      induction l with
      | nil => intro a; simp
      | cons w rest ih =>
        intro a
        simp only [List.foldl_cons]
        rcases List.mem_cons.mp (ih (max a w)) with h | h
        · rw [h]
          rcases max_choice a w with h' | h' <;> rw [h'] <;> simp
        · exact List.mem_cons_of_mem _ (List.mem_cons_of_mem _ h)
    exact mem vs v0
  · have mono : ∀ (l : List ℝ) (a : ℝ), a ≤ l.foldl max a ∧ ∀ v ∈ l, v ≤ l.foldl max a := by
      intro l
      induction l with
      | nil => intro a; simp
      | cons w rest ih =>
        intro a
        obtain ⟨h1, h2⟩ := ih (max a w)
        refine ⟨le_trans (le_max_left _ _) h1, ?_⟩
        intro v hv
        rcases List.mem_cons.mp hv with rfl | hv
        · exact le_trans (le_max_right _ _) h1
        · exact h2 v hv
    intro v hv
    rcases List.mem_cons.mp hv with rfl | hv
    · exact (mono vs v).1
    · exact (mono vs v0).2 v hv

end Specs

/-! ## 3. compositionality of `evalG` -/

section Comp
variable {α : Type} (C : Ctx α)

/-- Add node under a `foldArgs` definition (eval_double): start value, then the coefficient unless
zero, then one operand per dictionary entry, folded left to right. -/
theorem evalG_add (coef : Expr) (terms : List (Expr × Expr)) (init step : Formula)
    (h : C.defs.find "Add" = some (.foldArgs init step)) :
    evalG C (.add coef terms) = (do
      let i ← evalF C.O [] init
      let cv ← if isZero coef then pure [] else do
        let c ← evalG C coef
        pure [c]
      let tv ← evalTerms C terms
      foldVals C.O step i (cv ++ tv)) := by
  rw [evalG, h]

/-- Add node under a `foldDict` definition (lambda_double): coef + Σ key·coefficient in dictionary order -/
theorem evalG_add_dict (coef : Expr) (terms : List (Expr × Expr)) (step : Formula)
    (h : C.defs.find "Add" = some (.foldDict step)) :
    evalG C (.add coef terms) = (do
      let c ← evalG C coef
      let pv ← evalPairs C terms
      foldPairVals C.O step c pv) := by
  rw [evalG, h]

theorem evalG_mul (coef : Expr) (facs : List (Expr × Expr)) (init step : Formula)
    (h : C.defs.find "Mul" = some (.foldArgs init step)) :
    evalG C (.mul coef facs) = (do
      let cv ← if isOne coef then pure [] else do
        let c ← evalG C coef
        pure [c]
      let fv ← evalFacs C facs
      mulVal C.O (C.defs.find "Mul") (cv ++ fv)) := by
  rw [evalG, h]

theorem evalG_pow (b e : Expr) (d : NodeDef) (h : C.defs.find "Pow" = some d) :
    evalG C (.pow b e) = (do
      let ve ← evalG C e
      powVal C.O (some d) (isE b) (evalG C b) ve) := by
  rw [evalG, h]

/-- a function node evaluates its operands in `get_args()` order and applies the translated formula -/
theorem evalG_app_fn (head : String) (args : List Expr) (body : Formula)
    (h : C.defs.find head = some (.fn body)) :
    evalG C (.app head args) = (do
      let vs ← evalList C args
      evalF C.O vs body) := by
  rw [evalG, h]

/-- so a function node's value is `nodeVal` of the operand values -/
theorem evalG_app_nodeVal (head : String) (args : List Expr) (body : Formula) (vs : List α)
    (h : C.defs.find head = some (.fn body)) (hv : evalList C args = .ok vs) :
    evalG C (.app head args) = nodeVal C.O C.defs head vs := by
  rw [evalG_app_fn C head args body h, hv]
  simp [nodeVal, h, bind, Except.bind]

/-- Piecewise selects the first branch whose predicate value passes the translated test -/
theorem evalPw_first (test : Formula) (e c : Expr) (rest : List Expr) (cv t : α)
    (hc : evalG C c = .ok cv) (ht : evalF C.O [cv] test = .ok t) (htrue : C.O.truthy t = true) :
    evalPw C test (e :: c :: rest) = evalG C e := by
  rw [evalPw, hc]
  simp [bind, Except.bind, ht, htrue]

theorem evalPw_skip (test : Formula) (e c : Expr) (rest : List Expr) (cv t : α)
    (hc : evalG C c = .ok cv) (ht : evalF C.O [cv] test = .ok t) (hfalse : C.O.truthy t = false) :
    evalPw C test (e :: c :: rest) = evalPw C test rest := by
  rw [evalPw, hc]
  simp [bind, Except.bind, ht, hfalse]

end Comp

/-! ## non-vacuity -/

example : ∃ y, nodeVal (realOps id id) Gen.visitorReal "ASec" [2] = .ok y ∧ Real.cos y = 1 / 2 ∧ 0 ≤ y ∧ y ≤ Real.pi :=
  asec_spec id id 2 (by norm_num)

example : ∃ y, nodeVal (realOps id id) Gen.visitorReal "ACoth" [-3] = .ok y ∧ Real.tanh y = 1 / (-3) :=
  acoth_spec id id (-3) (by norm_num)

example : ∃ d, Gen.visitorReal.find "ASech" = some d ∧ agreeDef (.fn (.call1 .acosh (.div (.lit 1 1) (.arg 0)))) d = true :=
  visitor_table_agree ("ASech", _) (by decide)

example : foldFirstVal (realOps id id) 0 maxStep [1, 3, 2] = foldFirstVal (realOps id id) 1 maxStep [1, 3, 2] :=
  table_agree_sound _ (realOps_idem id id) maxStep (Or.inl rfl) _

/-- The full property, not asserted: for every closed tree the evaluators accept, the IEEE double
result of `eval_double` (= `evalG` at `Float` with the visitor table, by correspondence) is within
`tol` ulp-scaled, condition-scaled distance of the real-number value of the tree, and the
single-dispatch evaluator returns the same double.  `approx` abstracts "within floating-point
rounding for well-conditioned inputs"; it is not definable without a formal model of IEEE-754 and libm. -/
def C12_full (approx : Float → ℝ → Prop) (erf erfc : ℝ → ℝ) (sp : SpecTable) : Prop :=
  ∀ e : Expr, ∀ v : Float, ∀ r : ℝ,
    evalG (α := Float) ⟨floatOps sp, Gen.visitorReal, fun _ => none⟩ e = .ok v →
    evalG (α := ℝ) ⟨realOps erf erfc, Gen.visitorReal, fun _ => none⟩ e = .ok r →
    approx v r ∧
    (∀ w, evalG (α := Float) ⟨floatOps sp, Gen.tableSD, fun _ => none⟩ e = .ok w → w.toBits = v.toBits)

end SymVerif.C12
