import SymVerif.Model.LDE
import SymVerif.Lemmas.C46Sim
/-!
C46 — `homogeneous_lde` returns exactly the minimal non-zero non-negative solutions of `A x = 0`.

Proved for the model of `order` / `is_minimum` / `homogeneous_lde` (Model/LDE.lean), for every
well-formed integer matrix and every fuel, **whenever the main loop finishes within the fuel**:

* `frozen_inbounds` — no read/write of `Frozen[n][·]` / `F[·]` is out of range (the stack never holds
  more than `q` vectors: an entry with `k` entries below it has at least `k` frozen components and at
  least one free component);
* `lde_sound`, `lde_antichain`, `lde_complete`, `lde_exact` — the returned list is duplicate-free and
  its members are exactly the minimal solutions (Hilbert basis).

Termination of the `while` loop (the other half of the Contejean–Devie theorem) is *not* proved:
`C46_full` states total correctness and is left as a `def`.
-/
namespace SymVerif.C46
open SymVerif.LDE

/-- `A` is a `p × q` matrix given by its rows -/
def WF (A : List Vec) (p q : ℕ) : Prop := A.length = p ∧ ∀ r ∈ A, r.length = q

instance (A : List Vec) (p q : ℕ) : Decidable (WF A p q) := by unfold WF; infer_instance

/-- every run ends in the assertion, out of fuel, or with a list for which the invariant holds on the
empty stack -/
theorem lde_run (A : List Vec) (p q fuel : ℕ) (hA : WF A p q) :
    homogeneousLde A p q fuel = .error .assert ∨ homogeneousLde A p q fuel = .error .fuel ∨
      ∃ basis, homogeneousLde A p q fuel = .ok basis ∧ AInv A q [] basis.reverse := by
  unfold homogeneousLde
  by_cases h : p = 0 ∨ q ≤ 1
  · left; simp [h]
  · right
    rw [if_neg h]
    have hq : 0 < q := by omega
    have := sim_main A q hA.2 fuel (initSt q) _ (Rel.init q hq) (AInv.init A q hq)
    exact this

/-- **bounds**: `Frozen[n][i]`, `Frozen[n-1][j] = F[j]`, `F[i]` never leave the `q × q` table -/
theorem frozen_inbounds (A : List Vec) (p q fuel : ℕ) (hA : WF A p q) :
    homogeneousLde A p q fuel ≠ .error .oob := by
  rcases lde_run A p q fuel hA with h | h | ⟨b, h, _⟩ <;> rw [h] <;> simp

/-- **exactness** (partial correctness): the result is duplicate-free and consists of exactly the
minimal solutions -/
theorem lde_exact (A : List Vec) (p q fuel : ℕ) (hA : WF A p q) (basis : List Vec)
    (h : homogeneousLde A p q fuel = .ok basis) :
    basis.Nodup ∧ ∀ m, m ∈ basis ↔ Minimal A q m := by
  rcases lde_run A p q fuel hA with h' | h' | ⟨b, h', hinv⟩
  · rw [h] at h'; exact absurd h' (by simp)
  · rw [h] at h'; exact absurd h' (by simp)
  · rw [h] at h'
    injection h' with h'
    subst h'
    refine ⟨List.nodup_reverse.mp hinv.nodup, fun m => ⟨?_, ?_⟩⟩
    · intro hm; exact hinv.minimal m (List.mem_reverse.mpr hm)
    · intro hm
      rcases hinv.complete m hm with hmem | ⟨e, he, _⟩
      · exact List.mem_reverse.mp hmem
      · exact absurd he (by simp)

/-- **soundness**: every returned vector has length `q`, is non-negative, solves `A b = 0` and is
not the zero vector -/
theorem lde_sound (A : List Vec) (p q fuel : ℕ) (hA : WF A p q) (basis : List Vec)
    (h : homogeneousLde A p q fuel = .ok basis) (b : Vec) (hb : b ∈ basis) :
    b.length = q ∧ (∀ i, 0 ≤ cmp b i) ∧ isZero (mulVec A b) = true ∧ isZero b = false :=
  (((lde_exact A p q fuel hA basis h).2 b).mp hb).1

/-- **antichain**: no returned vector dominates another one, none is returned twice -/
theorem lde_antichain (A : List Vec) (p q fuel : ℕ) (hA : WF A p q) (basis : List Vec)
    (h : homogeneousLde A p q fuel = .ok basis) :
    basis.Nodup ∧ ∀ b₁ ∈ basis, ∀ b₂ ∈ basis, (∀ i, cmp b₁ i ≤ cmp b₂ i) → b₁ = b₂ := by
  obtain ⟨hnd, hex⟩ := lde_exact A p q fuel hA basis h
  refine ⟨hnd, fun b₁ h₁ b₂ h₂ hle => ?_⟩
  exact ((hex b₂).mp h₂).2 b₁ ((hex b₁).mp h₁).1 hle

/-- **completeness** (Contejean–Devie): every minimal solution is returned -/
theorem lde_complete (A : List Vec) (p q fuel : ℕ) (hA : WF A p q) (basis : List Vec)
    (h : homogeneousLde A p q fuel = .ok basis) (m : Vec) (hm : Minimal A q m) : m ∈ basis :=
  ((lde_exact A p q fuel hA basis h).2 m).mpr hm

/-- **covering** (the "basis" half of *Hilbert basis*): every non-zero non-negative solution of `A x = 0`
dominates, componentwise, one of the returned vectors.  With `lde_exact` this says the result is exactly the
set of minimal elements *and* that this set is coinitial in the solution set — dropping any returned vector,
or returning a non-minimal one instead, breaks one of the two. -/
theorem lde_covers (A : List Vec) (p q fuel : ℕ) (hA : WF A p q) (basis : List Vec)
    (h : homogeneousLde A p q fuel = .ok basis) (v : Vec) (hv : IsSol A q v) :
    ∃ b ∈ basis, ∀ i, cmp b i ≤ cmp v i := by
  obtain ⟨m, hm, hle⟩ := exists_minimal_le A q v.sum.toNat v hv (Nat.le_refl _)
  exact ⟨m, lde_complete A p q fuel hA basis h m hm, hle⟩

/-- the zero matrix row count / column guard: outside `p > 0 ∧ q > 1` the model stops at the assertion,
never with a result — the C++ `SYMENGINE_ASSERT(p > 0 and q > 1)` -/
theorem lde_guard (A : List Vec) (p q fuel : ℕ) (hpq : p = 0 ∨ q ≤ 1) :
    homogeneousLde A p q fuel = .error .assert := by
  unfold homogeneousLde; simp [hpq]

/-- the full property including termination — stated, not proved (the termination argument of
Contejean–Devie is a compactness argument over the reals) -/
def C46_full : Prop :=
  ∀ (A : List Vec) (p q : ℕ), WF A p q → 0 < p → 1 < q →
    ∃ fuel basis, homogeneousLde A p q fuel = .ok basis ∧ basis.Nodup ∧ ∀ m, m ∈ basis ↔ Minimal A q m

/-! non-vacuity -/
example : WF [[1, 1, -2]] 1 3 := by decide
example : homogeneousLde [[1, 1, -2]] 1 3 100 = .ok [[0, 2, 1], [1, 1, 1], [2, 0, 1]] := by
  decide +kernel
example : homogeneousLde [[1, -1, 0, 0], [0, 0, 2, -3]] 2 4 100 = .ok [[0, 0, 3, 2], [1, 1, 0, 0]] := by
  decide +kernel
example : Minimal [[1, -1]] 2 [1, 1] := by
  refine ⟨⟨rfl, ?_, by decide, by decide⟩, ?_⟩
  · intro i
    match i with
    | 0 => decide
    | 1 => decide
    | i + 2 => simp [cmp]
  · intro v hv hle
    obtain ⟨hl, hnn, hz, hnz⟩ := hv
    match v, hl with
    | [a, b], _ =>
      have h0 := hle 0
      have h1 := hle 1
      have n0 := hnn 0
      have n1 := hnn 1
      simp only [cmp_cons_zero, cmp_cons_succ] at h0 h1 n0 n1
      have hz' : a + -b = 0 := by
        have := (isZero_iff _).mp hz 0
        simpa [mulVec, dot, cmp] using this
      have : ¬ (a = 0 ∧ b = 0) := by
        rintro ⟨rfl, rfl⟩
        simp [isZero] at hnz
      have ha : a = 1 := by omega
      have hb : b = 1 := by omega
      rw [ha, hb]

end SymVerif.C46
