/-
C34  Property queries under assumptions are sound.

Model: SymVerif/Model/Queries.lean (tribool algebra, Assumptions constructor, the visitors of
test_visitors.cpp).  Semantics: `evalR ρ e : Option ℝ` on the real arithmetic fragment (integers, rationals,
symbols, pi/E/GoldenRatio/EulerGamma, Add, Mul, integer powers, real powers of positive bases, abs, sign,
conjugate, floor, ceiling, sin, cos, log of positives, max, min) and `Sat ρ statements`.

Every theorem below is about `query`, the function the driver `drv_c34` runs, and has the shape

   build stmts = ok A → Sat ρ stmts → wf e → evalR ρ e = some v → query "<q>" A e = ok T/F → ⟦q⟧ v  /  ¬⟦q⟧ v

`indeterminate` answers are unconstrained.  For is_real / is_complex / is_finite a `true` answer says nothing on
real-valued semantics; their content is the `false` direction: such an expression has no real value.
-/
import SymVerif.Lemmas.C34Dom
import SymVerif.Lemmas.C34Build
import SymVerif.Lemmas.C34Parity

namespace SymVerif.C34
open SymVerif SymVerif.Queries

/-! ## what `query` returns -/

theorem query_ok {q : String} {A : Assumptions} {e : Expr} {r : Tri} (h : query q A e = .ok r) :
    queryCore q A e = some r := by
  unfold query at h
  split at h
  · cases h
  · split at h
    · rename_i r' hr; cases h; exact hr
    · cases h

theorem query_zero {A : Assumptions} {e : Expr} {r : Tri} (h : query "zero" A e = .ok r) : r = isZero A e := by
  have := query_ok h; simp [queryCore] at this; exact this.symm

theorem query_nonzero {A : Assumptions} {e : Expr} {r : Tri} (h : query "nonzero" A e = .ok r) :
    r = isNonzero A e := by
  have := query_ok h; simp [queryCore] at this; exact this.symm

theorem query_positive {A : Assumptions} {e : Expr} {r : Tri} (h : query "positive" A e = .ok r) :
    r = isPositive A e := by
  have := query_ok h; simp [queryCore] at this; exact this.symm

theorem query_negative {A : Assumptions} {e : Expr} {r : Tri} (h : query "negative" A e = .ok r) :
    r = isNegative A e := by
  have := query_ok h; simp [queryCore] at this; exact this.symm

theorem query_nonnegative {A : Assumptions} {e : Expr} {r : Tri} (h : query "nonnegative" A e = .ok r) :
    r = isNonnegative A e := by
  have := query_ok h; simp [queryCore] at this; exact this.symm

theorem query_nonpositive {A : Assumptions} {e : Expr} {r : Tri} (h : query "nonpositive" A e = .ok r) :
    r = isNonpositive A e := by
  have := query_ok h; simp [queryCore] at this; exact this.symm

theorem query_integer {A : Assumptions} {e : Expr} {r : Tri} (h : query "integer" A e = .ok r) :
    r = isInteger A e := by
  have := query_ok h; simp [queryCore] at this; exact this.symm

theorem query_real {A : Assumptions} {e : Expr} {r : Tri} (h : query "real" A e = .ok r) :
    r = isReal A e := by
  have := query_ok h; simp [queryCore] at this; exact this.symm

theorem query_complex {A : Assumptions} {e : Expr} {r : Tri} (h : query "complex" A e = .ok r) :
    r = isComplex A e := by
  have := query_ok h; simp [queryCore] at this; exact this.symm

theorem query_finite {A : Assumptions} {e : Expr} {r : Tri} (h : query "finite" A e = .ok r) :
    r = isFinite A e := by
  have := query_ok h; simp [queryCore] at this; exact this.symm

theorem query_infinite {A : Assumptions} {e : Expr} {r : Tri} (h : query "infinite" A e = .ok r) :
    r = isInfinite A e := by
  have := query_ok h; simp [queryCore] at this; exact this.symm

theorem isLogic_none {ρ : String → ℝ} {e : Expr} (h : isLogic e = true) : evalR ρ e = none := by
  cases e with
  | app hd args => exact isLogic_app_none h
  | bool b => simp [evalR]
  | _ => simp [isLogic] at h

/-! ## the Assumptions constructor -/

/-- **Assumptions are sound**: an assignment satisfying the statements satisfies every fact the constructor
    records (`is_positive(x)`, `is_integer(x)`, … for symbols). -/
theorem assumptions_sound {ρ : String → ℝ} {stmts : List Expr} {A : Assumptions} (hb : build stmts = .ok A)
    (hs : Sat ρ stmts) : FactsSat ρ A := build_sound hb hs

section
variable {ρ : String → ℝ} {stmts : List Expr} {A : Assumptions} {e : Expr} {v : ℝ}

/-! ## is_zero / is_nonzero -/

theorem is_zero_sound_true (hb : build stmts = .ok A) (hs : Sat ρ stmts) (hv : evalR ρ e = some v)
    (hq : query "zero" A e = .ok .t) : v = 0 :=
  (isZeroF_sound (build_sound hb hs) _ e v hv).1 (query_zero hq).symm

theorem is_zero_sound_false (hb : build stmts = .ok A) (hs : Sat ρ stmts) (hv : evalR ρ e = some v)
    (hq : query "zero" A e = .ok .f) : v ≠ 0 :=
  (isZeroF_sound (build_sound hb hs) _ e v hv).2 (query_zero hq).symm

theorem is_nonzero_sound_true (hb : build stmts = .ok A) (hs : Sat ρ stmts) (hv : evalR ρ e = some v)
    (hq : query "nonzero" A e = .ok .t) : v ≠ 0 := by
  have h := (query_nonzero hq).symm
  unfold isNonzero at h
  have hz : isZero A e = .f := by cases hh : isZero A e <;> simp [hh, Tri.not] at h ⊢
  exact (isZeroF_sound (build_sound hb hs) _ e v hv).2 hz

theorem is_nonzero_sound_false (hb : build stmts = .ok A) (hs : Sat ρ stmts) (hv : evalR ρ e = some v)
    (hq : query "nonzero" A e = .ok .f) : v = 0 := by
  have h := (query_nonzero hq).symm
  unfold isNonzero at h
  have hz : isZero A e = .t := by cases hh : isZero A e <;> simp [hh, Tri.not] at h ⊢
  exact (isZeroF_sound (build_sound hb hs) _ e v hv).1 hz

/-! ## is_positive / is_negative / is_nonnegative / is_nonpositive -/

theorem is_positive_sound_true (hb : build stmts = .ok A) (hs : Sat ρ stmts) (hw : wf e = true)
    (hv : evalR ρ e = some v) (hq : query "positive" A e = .ok .t) : 0 < v :=
  (isPositiveF_sound (build_sound hb hs) _ e v hw hv).1 (query_positive hq).symm

theorem is_positive_sound_false (hb : build stmts = .ok A) (hs : Sat ρ stmts) (hw : wf e = true)
    (hv : evalR ρ e = some v) (hq : query "positive" A e = .ok .f) : ¬ 0 < v :=
  (isPositiveF_sound (build_sound hb hs) _ e v hw hv).2 (query_positive hq).symm

theorem is_negative_sound_true (hb : build stmts = .ok A) (hs : Sat ρ stmts)
    (hv : evalR ρ e = some v) (hq : query "negative" A e = .ok .t) : v < 0 :=
  (isNegative_sound (build_sound hb hs) hv).1 (query_negative hq).symm

theorem is_negative_sound_false (hb : build stmts = .ok A) (hs : Sat ρ stmts)
    (hv : evalR ρ e = some v) (hq : query "negative" A e = .ok .f) : ¬ v < 0 :=
  (isNegative_sound (build_sound hb hs) hv).2 (query_negative hq).symm

theorem is_nonnegative_sound_true (hb : build stmts = .ok A) (hs : Sat ρ stmts)
    (hv : evalR ρ e = some v) (hq : query "nonnegative" A e = .ok .t) : 0 ≤ v :=
  (isNonnegative_sound (build_sound hb hs) hv).1 (query_nonnegative hq).symm

theorem is_nonnegative_sound_false (hb : build stmts = .ok A) (hs : Sat ρ stmts)
    (hv : evalR ρ e = some v) (hq : query "nonnegative" A e = .ok .f) : ¬ 0 ≤ v :=
  (isNonnegative_sound (build_sound hb hs) hv).2 (query_nonnegative hq).symm

theorem is_nonpositive_sound_true (hb : build stmts = .ok A) (hs : Sat ρ stmts)
    (hv : evalR ρ e = some v) (hq : query "nonpositive" A e = .ok .t) : v ≤ 0 :=
  (isNonpositive_sound (build_sound hb hs) hv).1 (query_nonpositive hq).symm

theorem is_nonpositive_sound_false (hb : build stmts = .ok A) (hs : Sat ρ stmts)
    (hv : evalR ρ e = some v) (hq : query "nonpositive" A e = .ok .f) : ¬ v ≤ 0 :=
  (isNonpositive_sound (build_sound hb hs) hv).2 (query_nonpositive hq).symm

/-! ## is_integer -/

theorem is_integer_sound_true (hb : build stmts = .ok A) (hs : Sat ρ stmts) (hw : wf e = true)
    (hv : evalR ρ e = some v) (hq : query "integer" A e = .ok .t) : ∃ n : ℤ, v = (n : ℝ) := by
  exact (isIntegerF_sound (build_sound hb hs) _ e v hw hv).1 (query_integer hq).symm

theorem is_integer_sound_false (hb : build stmts = .ok A) (hs : Sat ρ stmts) (hw : wf e = true)
    (hv : evalR ρ e = some v) (hq : query "integer" A e = .ok .f) : ¬ ∃ n : ℤ, v = (n : ℝ) := by
  exact (isIntegerF_sound (build_sound hb hs) _ e v hw hv).2 (query_integer hq).symm

/-! ## is_even / is_odd (`queryParity`, through the models of `div(b, 2)` and `add(b, 1)`) -/

theorem queryParity_even {A : Assumptions} {e : Expr} {r : Tri} (h : queryParity "even" A e = .ok r) :
    r = isEven A e := by
  unfold queryParity at h
  split at h
  · cases h
  · simp at h; exact h.symm

theorem queryParity_odd {A : Assumptions} {e : Expr} {r : Tri} (h : queryParity "odd" A e = .ok r) :
    r = isOdd A e := by
  unfold queryParity at h
  split at h
  · cases h
  · simp at h; exact h.symm

theorem is_even_sound_true (hb : build stmts = .ok A) (hs : Sat ρ stmts) (hw : wf e = true)
    (hv : evalR ρ e = some v) (hq : queryParity "even" A e = .ok .t) : ∃ n : ℤ, v = 2 * (n : ℝ) :=
  (isEven_sound (build_sound hb hs) hw hv).1 (queryParity_even hq).symm

theorem is_even_sound_false (hb : build stmts = .ok A) (hs : Sat ρ stmts) (hw : wf e = true)
    (hv : evalR ρ e = some v) (hq : queryParity "even" A e = .ok .f) : ¬ ∃ n : ℤ, v = 2 * (n : ℝ) :=
  (isEven_sound (build_sound hb hs) hw hv).2 (queryParity_even hq).symm

theorem is_odd_sound_true (hb : build stmts = .ok A) (hs : Sat ρ stmts) (hw : wf e = true)
    (hv : evalR ρ e = some v) (hq : queryParity "odd" A e = .ok .t) : ∃ n : ℤ, v + 1 = 2 * (n : ℝ) :=
  (isOdd_sound (build_sound hb hs) hw hv).1 (queryParity_odd hq).symm

theorem is_odd_sound_false (hb : build stmts = .ok A) (hs : Sat ρ stmts) (hw : wf e = true)
    (hv : evalR ρ e = some v) (hq : queryParity "odd" A e = .ok .f) : ¬ ∃ n : ℤ, v + 1 = 2 * (n : ℝ) :=
  (isOdd_sound (build_sound hb hs) hw hv).2 (queryParity_odd hq).symm

/-! ## is_real / is_complex / is_finite / is_infinite: an expression declared non-real, non-complex or
       infinite has no real value at any assignment (no assumption on the assignment is needed) -/

theorem is_real_sound_false (hw : wf e = true) (hq : query "real" A e = .ok .f) : evalR ρ e = none := by
  exact isRealF_f_none _ e hw (query_real hq).symm

theorem is_complex_sound_false (hw : wf e = true) (hq : query "complex" A e = .ok .f) : evalR ρ e = none := by
  exact isComplexF_f_none _ e hw (query_complex hq).symm

theorem is_finite_sound_false (hq : query "finite" A e = .ok .f) : evalR ρ e = none :=
  isFinite_f_none (query_finite hq).symm

theorem is_infinite_sound_true (hq : query "infinite" A e = .ok .t) : evalR ρ e = none := by
  have h := (query_infinite hq).symm
  unfold isInfinite at h
  have hz : isFinite A e = .f := by cases hh : isFinite A e <;> simp [hh, Tri.not] at h ⊢
  exact isFinite_f_none hz

end

/-! ## non-vacuity: the hypotheses are satisfiable on concrete inputs with definite answers -/

/-- `x > 0`, `y ∈ ℤ` -/
def exStmts : List Expr :=
  [.app "StrictLessThan" [.int 0, .sym "x"], .app "Contains" [.sym "y", .app "Integers" []]]
def exRho : String → ℝ := fun s => if s = "x" then 3 else 2
/-- `1 + 2*x` -/
def exE1 : Expr := .add (.int 1) [(.sym "x", .int 2)]
/-- `3*y` -/
def exE2 : Expr := .mul (.int 3) [(.sym "y", .int 1)]
/-- `I*x` -/
def exE3 : Expr := .mul (.cplx ⟨0, 1⟩ ⟨1, 1⟩) [(.sym "x", .int 1)]

theorem exSat : Sat exRho exStmts := by
  intro s hs
  simp only [exStmts, List.mem_cons, List.mem_nil_iff, or_false] at hs
  rcases hs with rfl | rfl
  · simp only [holds, String.reduceEq, if_false, if_true, evalR]
    exact ⟨0, 3, by simp, by simp [exRho], by norm_num⟩
  · simp only [holds, if_true, String.reduceEq, if_false]
    exact ⟨2, by simp [exRho]⟩

example : ∃ A, build exStmts = .ok A ∧ wf exE1 = true ∧ evalR exRho exE1 = some 7
    ∧ query "positive" A exE1 = .ok .t ∧ query "zero" A (.sym "x") = .ok .f
    ∧ query "nonnegative" A (.sym "x") = .ok .t ∧ query "negative" A (.sym "x") = .ok .f
    ∧ query "nonpositive" A (.sym "x") = .ok .f ∧ query "nonzero" A (.sym "x") = .ok .t := by
  refine ⟨_, rfl, by decide, ?_, by decide, by decide, by decide, by decide, by decide, by decide⟩
  simp [exE1, evalR, evalTerms, exRho]
  norm_num

example : ∃ A, build exStmts = .ok A ∧ wf exE2 = true ∧ evalR exRho exE2 = some 6
    ∧ query "integer" A exE2 = .ok .t ∧ query "integer" A (.rat 1 2) = .ok .f
    ∧ query "real" A exE3 = .ok .f ∧ query "complex" A (.infty 1) = .ok .f
    ∧ query "finite" A (.infty 1) = .ok .f ∧ query "infinite" A (.infty 1) = .ok .t := by
  refine ⟨_, rfl, by decide, ?_, by decide, by decide, by decide, by decide, by decide, by decide⟩
  simp [exE2, evalR, evalFacs, powSem, exRho]
  norm_num

/-- `y ∈ ℤ`: `4*y` is even, `2*y - 1` is odd, `3` is not even -/
example : ∃ A, build exStmts = .ok A
    ∧ queryParity "even" A (.mul (.int 4) [(.sym "y", .int 1)]) = .ok .t
    ∧ queryParity "odd" A (.add (.int (-1)) [(.sym "y", .int 2)]) = .ok .t
    ∧ queryParity "even" A (.int 3) = .ok .f ∧ queryParity "odd" A (.int 4) = .ok .f :=
  ⟨_, rfl, by decide, by decide, by decide, by decide⟩

end SymVerif.C34
