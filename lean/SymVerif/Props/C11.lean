import SymVerif.Lemmas.C11Value
import SymVerif.Lemmas.C11Cache
import SymVerif.Lemmas.NFSound
import SymVerif.Lemmas.C10Bridge
import Mathlib.Analysis.SpecialFunctions.Complex.Log
/-!
# C11 — substitution preserves value and is cache-independent

Model: `Model/Subs.lean` (`subsE`: `XReplaceVisitor`/`SubsVisitor` on trees, unsimplified, with the Add whole-term /
coefficient lookups, the Mul whole-factor lookup and the `subs` exponent path; `subsC`: the same traversal with the
`visited` table; `judge`: the certificate check run by the driver on the library's result).

* `subs_value`            symbol keys, arbitrary images: `⟦subsE σ e⟧ρ = ⟦e⟧(ρ∘σ)` over ℝ (functions interpreted)
* `subs_absent`           symbol keys none of which occurs in `e`: `subsE σ e = e`
* `subs_id`               symbol keys mapped to themselves: `subsE σ e = e`
* `subs_cache`            pairwise different keys (any keys, also sub-expressions): the traversal with the table
                          seeded with σ returns the same tree as the traversal without
* `xreplace_value` …      the same four statements for the `xreplace/msubs/ssubs` variant (`pp = false`)
* `judge_ok`, `certificate_sound`
                          the driver prints `ok` only if `NF.equiv R (subsE σ e)`; then `R` and `subsE σ e` have the
                          same value in every field of characteristic 0 under every assignment of the atoms
* `library_result_has_value`  with the bridge of `Lemmas/C10Bridge.lean`: `ok` ⇒ over ℝ the library's result at `ρ`
                          evaluates to `e` at `ρ∘σ`
* `C11_full`              (def, not proved) the property including Derivative/Subs nodes
-/
namespace SymVerif
namespace C11
open SymVerif Expr Diff Subs C10

/-- **Value preservation** for `subs` (symbol keys, images arbitrary expressions). -/
theorem subs_value_partial (ρ : String → ℝ) (σ : Sigma) (hs : symKeyed σ = true) (e : Expr) :
    evalR ρ (subsE true σ e) = evalR (comp ρ σ) e := subs_value true ρ σ hs e

/-- the same for the traversal of `xreplace`, `msubs`, `ssubs` -/
theorem xreplace_value_partial (ρ : String → ℝ) (σ : Sigma) (hs : symKeyed σ = true) (e : Expr) :
    evalR ρ (subsE false σ e) = evalR (comp ρ σ) e := subs_value false ρ σ hs e

/-- non-vacuity: `(x² + sin x / y)[x ↦ y + 1, y ↦ 3]` -/
example (ρ : String → ℝ) :
    evalR ρ (subsE true [(.sym "x", .add (.int 1) [(.sym "y", .int 1)]), (.sym "y", .int 3)]
      (.add (.int 0) [(.pow (.sym "x") (.int 2), .int 1),
                      (.mul (.int 1) [(.app "Sin" [.sym "x"], .int 1), (.sym "y", .int (-1))], .int 1)]))
    = (1 + ρ "y") ^ (2 : ℤ) + Real.sin (1 + ρ "y") * (3 : ℝ) ^ (-1 : ℤ) := by
  rw [subs_value_partial ρ _ (by decide)]
  simp [evalR, evalTermsR, evalFacsR, fnR, comp, lookup, Memo.find, Expr.eqb]

/-- **Absent symbols**: if no key occurs in `e`, substitution returns `e` itself. -/
theorem subs_absent (pp : Bool) (σ : Sigma) (hs : symKeyed σ = true) (e : Expr)
    (h : ∀ n v, (Expr.sym n, v) ∈ σ → occurs n e = false) : subsE pp σ e = e :=
  subsE_inert pp σ hs e (Or.inl h)

/-- **Identity map**: if every key is mapped to itself, substitution returns `e` itself. -/
theorem subs_id (pp : Bool) (σ : Sigma) (hs : symKeyed σ = true) (e : Expr)
    (h : ∀ k v, (k, v) ∈ σ → v = k) : subsE pp σ e = e :=
  subsE_inert pp σ hs e (Or.inr h)

example : subsE true [(.sym "w", .int 5)] (.mul (.int 2) [(.sym "x", .rat 1 2), (.app "Sin" [.sym "y"], .int 1)])
    = .mul (.int 2) [(.sym "x", .rat 1 2), (.app "Sin" [.sym "y"], .int 1)] :=
  subs_absent true _ (by decide) _ (by
    intro n v h
    simp only [List.mem_cons, List.mem_nil_iff, or_false, Prod.mk.injEq, Expr.sym.injEq] at h
    obtain ⟨rfl, _⟩ := h
    decide)

/-- **Cache independence**: for a map (pairwise different keys — symbols, numbers or sub-expressions) the
traversal with the `visited` table seeded with σ gives literally the same tree. -/
theorem subs_cache (pp : Bool) (σ : Sigma) (hd : KeysDistinct σ) (e : Expr) :
    subsCached pp σ e = subsE pp σ e := Subs.subs_cache pp σ hd e

example : KeysDistinct [(.sym "x", .sym "y"), (.add (.int 0) [(.sym "x", .int 1), (.sym "y", .int 1)], .sym "z")] := by
  simp [KeysDistinct, Expr.eqb]

/-! ### certificate -/

theorem judgeNF_ok {p p' : Bool} {r d : Expr} (h : Subs.judgeNF p p' r d = .ok) : NF.equiv r d = true := by
  unfold Subs.judgeNF at h
  split at h
  · cases h
  split at h
  · cases h
  · cases h
  · rename_i h1 h2
    by_cases heq : NF.equivF (NF.normT r) (NF.normT d) = true
    · simp [NF.equiv, NF.norm, h1, h2, heq]
    · rw [if_neg heq] at h
      split at h
      · cases h
      · split at h <;> cases h

/-- what `ok` from the driver means (`pp`: the entry point is `subs`; `cache`: the table was used; the keys of a
`map_basic_basic` are pairwise different) -/
theorem judge_ok {pp cache : Bool} {σ : Sigma} {e r : Expr} (hd : KeysDistinct σ)
    (h : Subs.judge pp cache σ e r = .ok) : NF.equiv r (subsE pp σ e) = true := by
  unfold Subs.judge at h
  split at h
  · cases h
  · by_cases hc : hasCplxKey σ = true
    · rw [if_pos hc] at h; cases h
    · rw [if_neg hc] at h
      have hd' : (if cache = true then subsCached pp σ e else subsE pp σ e) = subsE pp σ e := by
        simp [Subs.subs_cache pp σ hd]
      rw [hd'] at h
      exact judgeNF_ok h

/-- **Certificate soundness.**  If the driver prints `ok` for the library's result `r`, then in every field of
characteristic 0 with a square root `I` of -1 and under every assignment `ρ` of the atoms, `r` and the model's
`subsE σ e` have the same value wherever both are defined. -/
theorem certificate_sound {K : Type*} [Field K] [CharZero K] {I : K} (hI : I * I = -1) (ρ : String → K)
    {pp cache : Bool} {σ : Sigma} {e r : Expr} (hd : KeysDistinct σ) (h : Subs.judge pp cache σ e r = .ok)
    {vr vd : K} (hr : NF.evalK I ρ r = some vr) (hdv : NF.evalK I ρ (subsE pp σ e) = some vd) : vr = vd :=
  NF.equiv_sound hI (judge_ok hd h) hr hdv

/-- non-vacuity: for `(x + 1)**2` with `x ↦ y - 1` the library's `y**2` is accepted -/
theorem ex_judge_ok : Subs.judge true false [(.sym "x", .add (.int (-1)) [(.sym "y", .int 1)])]
    (.pow (.add (.int 1) [(.sym "x", .int 1)]) (.int 2)) (.pow (.sym "y") (.int 2)) = .ok := by
  simp [Subs.judge, Subs.judgeNF, Diff.affordable, Diff.est, Diff.estFacs, Diff.estTerms, Diff.capMul, Diff.capPow,
    Diff.capN, Subs.unsupported, Subs.unsupportedPairs, Subs.unsupportedSigma, hasCplxKey,
    subsE, subsTerms, lookup, Memo.find, Expr.eqb, termKey, powNode, powKey, Option.orElse,
    NF.firstErr, NF.firstErrTerms, NF.powErr, NF.orElseErr, NF.maxExp, NF.normT, NF.normTerms, NF.intLit?, NF.mulF,
    NF.addF, NF.powF, NF.npowF, NF.atomF, NF.constF, NF.zeroF, NF.equivF, NF.patom, NF.pone, NF.pzero, NF.pconst,
    NF.ppow, NF.pmul, NF.pmulTerm, NF.padd, NF.mmul, NF.mlt, NF.GI.mul, NF.GI.add, NF.GI.isZero, NF.GI.one,
    NF.GI.ofInt]

/-! ### end to end over ℝ -/

/-- **The library's result has the substituted value.**  If the driver printed `ok` for the library's result `r`
of `subs(e, σ)` with symbol keys, then over ℝ `r` at `ρ` evaluates to `e` at `ρ ∘ σ` (`DumpFaithful`, `RealDef`: see
`Lemmas/C10Bridge.lean`). -/
theorem library_result_has_value {ρ : String → ℝ} (hf : DumpFaithful ρ) {pp cache : Bool} {σ : Sigma} {e r : Expr}
    (hs : symKeyed σ = true) (hd : KeysDistinct σ) (h : Subs.judge pp cache σ e r = .ok)
    (hr : RealDef ρ r) (hm : RealDef ρ (subsE pp σ e)) :
    evalR ρ r = evalR (comp ρ σ) e := by
  rw [equiv_real hf (judge_ok hd h) hr hm]
  exact subs_value pp ρ σ hs e

/-! ### the full statement (not proved) -/

/-- The full property: value preservation for *all* expressions, i.e. including unevaluated `Derivative` / `Subs`
nodes, under an interpretation `sem` of trees that treats them as derivatives / evaluations (free-variable
semantics).  **Not proved**; `subs_value_partial` covers the trees on which `evalR` is compositional.  For the code
as it is the statement is *false*: `subs(Derivative(f(x, z), x), {x: y, z: y})` returns the total derivative of
`f(y, y)` (docs/C11.md); the harness oracle reports it. -/
def C11_full (sem : (String → ℝ) → Expr → ℝ) (subsLib : Sigma → Expr → Expr) : Prop :=
  ∀ (ρ : String → ℝ) (σ : Sigma) (e : Expr), symKeyed σ = true → KeysDistinct σ →
    sem ρ (subsLib σ e) = sem (fun s => match lookup σ (.sym s) with | some v => sem ρ v | none => ρ s) e

end C11
end SymVerif
