import SymVerif.Lemmas.C40Step
import SymVerif.Gen.RcShape
/-!
C40 (partial): the reference-count protocol of `symengine_rcp.h` is memory-safe and leak-free.

All theorems quantify over **every** program `ops : List Op` run from the empty heap by the
same `RC.run`/`RC.step` the driver `drv_c40` executes.  What they do *not* cover: index
arithmetic, casts and uninitialised reads in the rest of the library (those are only explored by
the sanitizer configurations of the harness — exploration, not proof).
-/
namespace SymVerif.C40
open SymVerif.RC

/-- Reachable states satisfy the invariant. -/
theorem reach_inv {ops : List Op} {s : State} (h : run init ops = .ok s) : Inv s := by
  have g := run_good ops init inv_init
  rw [h] at g; exact g.1

/-- **No op touches a freed object**: whatever the program, the only possible failure is an
    ill-formed program (`badOp`: unknown handle, null dereference, member index out of range);
    `useAfterFree`, `doubleFree`, `negativeCount` and `fuel` are unreachable. -/
theorem no_memory_error (ops : List Op) (e : Err) (h : run init ops = .error e) : e = .badOp := by
  have g := run_good ops init inv_init
  rw [h] at g; exact g

/-- **rc_inv**: after every program, for every object id `o`
    * `use_count()` equals the number of references to it (program handles + members of live objects),
    * it is live exactly when that number is positive (freed exactly when the count reaches 0),
    * members of live objects were constructed earlier (no cycles). -/
theorem rc_inv (ops : List Op) (s : State) (h : run init ops = .ok s) :
    (∀ o, cnt s o = refs s o) ∧ (∀ o, isLive s o = true ↔ 0 < refs s o) ∧
    (∀ p, isLive s p = true → ∀ c ∈ childrenOf s p, c < p ∧ isLive s c = true) := by
  have i := reach_inv h
  refine ⟨fun o => by have := i.counts o; simp at this; omega, ?_, ?_⟩
  · intro o
    constructor
    · intro hl
      obtain ⟨ob, h1, h2⟩ := isLive_iff.mp hl
      have hp := i.pos o ob h1 h2
      have := i.counts o
      have hc : cnt s o = ob.count := by unfold cnt; simp [h1, h2]
      simp at this; omega
    · intro hp
      obtain ⟨ob, h1, h2, _⟩ := i.live_of_ref (o := o) (by simpa using hp)
      exact isLive_iff.mpr ⟨ob, h1, h2⟩
  · intro p hl c hc
    obtain ⟨pb, h1, h2⟩ := isLive_iff.mp hl
    have hk : childrenOf s p = pb.children := by unfold childrenOf; simp [h1]
    rw [hk] at hc
    exact ⟨i.acyc p pb h1 h2 c hc, isLive_iff.mpr (i.child_live h1 h2 hc)⟩

/-- **Immutability while referenced**: an object that is still live after any further program has
    been live all the time and has exactly the members it had before. -/
theorem immutable (ops1 ops2 : List Op) (s1 s2 : State) (h1 : run init ops1 = .ok s1)
    (h2 : run s1 ops2 = .ok s2) (o : Nat) (ho : o < s1.objs.length) (hl : isLive s2 o = true) :
    isLive s1 o = true ∧ childrenOf s2 o = childrenOf s1 o := by
  have g := run_good ops2 s1 (reach_inv h1)
  rw [h2] at g
  exact ⟨g.2.live o ho hl, g.2.kids o ho hl⟩

/-- **steal_safe**: when `Add::from_dict` takes the steal branch (`use_count() == 1`) for the object
    `o` held in slot `h`, then (1) no other reference to `o` exists, (2) the new object owns exactly
    the members `o` had, (3) `o` is deleted by the end of the operation and (4) no later program can
    observe it: it stays dead and unreferenced for ever. -/
theorem steal_safe (ops : List Op) (s s' : State) (h o : Nat) (hr : run init ops = .ok s)
    (hd : deref s h = .ok o) (hc : cnt s o = 1) (hs : step s (.steal h) = .ok s') :
    (s.handles.count (some o) = 1 ∧ parentRefs s o = 0) ∧
    childrenOf s' s.objs.length = childrenOf s o ∧
    isLive s' o = false ∧
    ∀ (ops2 : List Op) (s2 : State), run s' ops2 = .ok s2 → isLive s2 o = false ∧ refs s2 o = 0 := by
  have i := reach_inv hr
  obtain ⟨ob, h1, h2⟩ := i.live_of_handle (deref_ok hd)
  have hcnt : cnt s o = ob.count := by unfold cnt; simp [h1, h2]
  obtain ⟨s'', e, i', x, hdead, hnew⟩ := steal_full i hd h1 h2
  rw [hs] at e; cases e
  have hdead' := hdead (by omega)
  refine ⟨?_, ?_, hdead', ?_⟩
  · have hm : some o ∈ s.handles := List.mem_of_getElem? (deref_ok hd)
    have : 0 < s.handles.count (some o) := List.count_pos_iff.mpr hm
    have hco := i.counts o
    unfold refs at hco; simp at hco; omega
  · rw [hnew]; unfold childrenOf; simp [h1]
  · intro ops2 s2 h2'
    have g := run_good ops2 s' i'
    rw [h2'] at g
    have hlt : o < s'.objs.length := Nat.lt_of_lt_of_le (lt_of_getElem? h1) x.len
    have hd2 : isLive s2 o = false := by
      cases hq : isLive s2 o with
      | false => rfl
      | true => have := g.2.live o hlt hq; rw [hdead'] at this; simp at this
    refine ⟨hd2, ?_⟩
    have hco := g.1.counts o
    have : cnt s2 o = 0 := by
      unfold cnt; unfold isLive at hd2
      cases hq : s2.objs[o]? with
      | none => simp
      | some ob2 => rw [hq] at hd2; simp at hd2; simp [hd2]
    simp at hco; omega

theorem exists_pos_of_sum_pos : ∀ (l : List Nat), 0 < l.sum → ∃ x ∈ l, 0 < x := by
  intro l
  induction l with
  | nil => intro h; simp at h
  | cons a as ih =>
    intro h
    by_cases ha : 0 < a
    · exact ⟨a, by simp, ha⟩
    · have : 0 < as.sum := by simp at h ha; omega
      obtain ⟨x, hx, hp⟩ := ih this
      exact ⟨x, by simp [hx], hp⟩

/-- **no_leak**: once every program handle is null/destroyed, no object is live. -/
theorem no_leak (ops : List Op) (s : State) (h : run init ops = .ok s)
    (hh : ∀ x ∈ s.handles, x = none) : ∀ o, isLive s o = false := by
  have i := reach_inv h
  have hcount : ∀ o, s.handles.count (some o) = 0 := by
    intro o
    apply List.count_eq_zero.mpr
    intro hm
    have := hh _ hm
    simp at this
  -- a live object needs a live parent with a larger id: impossible at the top
  have key : ∀ n o, s.objs.length ≤ o + n → isLive s o = false := by
    intro n
    induction n with
    | zero =>
      intro o ho
      unfold isLive
      have : s.objs[o]? = none := List.getElem?_eq_none (by omega)
      simp [this]
    | succ n ih =>
      intro o ho
      cases hl : isLive s o with
      | false => rfl
      | true =>
        exfalso
        obtain ⟨ob, h1, h2⟩ := isLive_iff.mp hl
        have hp := i.pos o ob h1 h2
        have hc := i.counts o
        have hcnt : cnt s o = ob.count := by unfold cnt; simp [h1, h2]
        unfold refs at hc
        rw [hcount o] at hc
        simp at hc
        -- some live parent stores `o`
        have hpr : 0 < parentRefs s o := by omega
        unfold parentRefs at hpr
        have : ∃ p ∈ s.objs, 0 < (if p.live then p.children.count o else 0) := by
          obtain ⟨x, hx, hxp⟩ := exists_pos_of_sum_pos _ hpr
          obtain ⟨p, hp', rfl⟩ := List.mem_map.mp hx
          exact ⟨p, hp', hxp⟩
        obtain ⟨p, hpm, hpp⟩ := this
        obtain ⟨k, hk, hkp⟩ := List.getElem_of_mem hpm
        have hpl : p.live = true := by
          by_cases q : p.live = true
          · exact q
          · simp [q] at hpp
        simp [hpl] at hpp
        have hmem : o ∈ p.children := hpp
        have hk' : s.objs[k]? = some p := by simp [List.getElem?_eq_getElem hk, hkp]
        have hlt := i.acyc k p hk' hpl o hmem
        have := ih k (by omega)
        have hkl : isLive s k = true := isLive_iff.mpr ⟨p, hk', hpl⟩
        rw [this] at hkl; simp at hkl
  intro o
  exact key s.objs.length o (by omega)

/-- corollary in the form of the property text: no live object, hence `liveCount = 0` -/
theorem no_leak_count (ops : List Op) (s : State) (h : run init ops = .ok s)
    (hh : ∀ x ∈ s.handles, x = none) : liveCount s = 0 := by
  have hl := no_leak ops s h hh
  unfold liveCount
  apply List.countP_eq_zero.mpr
  intro ob hm hq
  obtain ⟨k, hk, hkp⟩ := List.getElem_of_mem hm
  have := hl k
  unfold isLive at this
  simp [List.getElem?_eq_getElem hk, hkp] at this
  simp [this] at hq

/-- **Source tie** (re-checked against the regenerated table on every run): every place in the
    library that casts away the constness of a dictionary to move out of it sits inside an
    `if (… use_count() == 1)` block, i.e. is an instance of the guarded `steal` of the model, and is
    compiled only in non-thread-safe builds. -/
theorem steal_sites_guarded :
    ∀ s ∈ SymVerif.Gen.RcShape.stealSites, s.2.2.1 = true ∧ s.2.2.2 = true := by decide

example : SymVerif.Gen.RcShape.stealSites.length ≥ 1 := by decide

/-! ### non-vacuity: concrete programs -/

/-- x, y symbols; a = Add(x,y); b = copy a; c = Mul(a, x); drop a, x, y; the program is legal,
    ends with the counts (x:2, y:1, a:2, c:1) and all four objects live. -/
def demo : List Op :=
  [.construct [], .construct [], .construct [0, 1], .copy 2, .construct [2, 0],
   .destroy 2, .destroy 0, .destroy 1]

example : (run init demo).toOption.map (fun s => (List.range 4).map (cnt s)) = some [2, 1, 2, 1] := by decide
example : (run init demo).toOption.map liveCount = some 4 := by decide

/-- dropping the remaining two handles (`b`, `c`) frees everything (cascade through `c → a → x,y`) -/
example : (run init (demo ++ [.destroy 3, .destroy 4])).toOption.map liveCount = some 0 := by decide

/-- a steal that really takes the steal branch: m = Mul(x,y) held only by slot 2 -/
def demoSteal : List Op := [.construct [], .construct [], .construct [0, 1], .steal 2]
example : (run init demoSteal).toOption.map (fun s => (isLive s 2, childrenOf s 3, cnt s 0)) =
    some (false, [0, 1], 2) := by decide

/-- `badOp` is reachable only through an ill-formed program, e.g. a use of a destroyed handle's target -/
example : (match run init [.construct [], .destroy 0, .rcpFromThis 0] with
    | .error e => e == .badOp | .ok _ => false) = true := by decide

/-- **The guard matters**: stealing from a *shared* object (`use_count() == 2`) without the
    `use_count() == 1` test leaves the other handle (slot 3) pointing to a live object whose members
    have silently changed from `[0, 1]` to `[]` — exactly what `immutable` excludes for the real `step`. -/
theorem steal_unguarded_unsafe :
    ∃ s s', run init [.construct [], .construct [], .construct [0, 1], .copy 2] = .ok s ∧
      stealUnguarded s 2 = .ok s' ∧ s'.handles[3]? = some (some 2) ∧ isLive s' 2 = true ∧
      childrenOf s 2 = [0, 1] ∧ childrenOf s' 2 = [] := by
  refine ⟨_, _, rfl, rfl, ?_⟩
  decide

end SymVerif.C40
