import SymVerif.Lemmas.C28Canon2
/-!
# C28 — boolean simplification preserves truth value

Model: `SymVerif/Model/Logic.lean` (the functions the driver `Drv/C28.lean` runs).
`Val` is a valuation of the opaque atoms, `Val.ok` says it respects the code's notion of complementary literal
(`v (negAtom a) = !v a`: `Lt(x,y)` vs `Le(y,x)`, `Eq` vs `Ne`).  Every theorem quantifies over all formulas /
argument lists (no size bound) and all such valuations.

`andOr` is `and_or` without the FiniteSet-domain rule (exactly `and_or<Or>`, and `and_or<And>` when no
`Contains(x, FiniteSet)` conjunct is present); `andD` is `and_or<And>` with that rule.  The rule depends on the
arithmetic meaning of the atoms over `x`, so its theorems quantify over the numeric valuations `nv x v`
(every integer value `x` of the symbol, every valuation `v` of the other atoms).  `andD` answers `none` when several
`Contains(x, FiniteSet)` conjuncts meet (the C++ result then depends on hash order): those inputs are outside the
theorems (`…_partial` in `props/c28.py`) and are checked by the harness oracle only.
-/
namespace SymVerif.C28
open SymVerif.Logic SymVerif.Logic.B

/-! ## truth preservation -/

/-- `logical_and` / `logical_or` (`and_or<And>(s,false)`, `and_or<Or>(s,true)`): the result has the value of the
n-ary connective over the arguments. -/
theorem and_or_sound (v : Val) (hv : v.ok) (isOr : Bool) (s : List B) :
    truth v (andOr isOr s) = if isOr then s.any (truth v) else s.all (truth v) := by
  rw [and_or_sound_fold v hv, foldOp, anyT_eq_any, allT_eq_all]

/-- `logical_and` including the FiniteSet-domain rule: at every integer value of `x` and every valuation of the
other atoms the result has the value of the conjunction. -/
theorem and_sound (x : Int) (v : Val) (hv : v.ok) (s : List B) (b : B) (h : andE s = some b) :
    truth (nv x v) b = s.all (truth (nv x v)) := by
  rw [andD_sound x v hv _ s b h, allT_eq_all]

/-- substitution of an integer for `x` (what the domain rule evaluates) does not change the value at that `x` -/
theorem subst_sound_at (x : Int) (v : Val) (hv : v.ok) (b : B) :
    truth (nv x v) (substB x b) = truth (nv x v) b := subst_sound x v hv b

theorem or_sound (v : Val) (hv : v.ok) (s : List B) : truth v (orE s) = s.any (truth v) := by
  simpa [orE] using and_or_sound v hv true s

/-- `logical_not` of every class negates the value: `not_sound` (proved in `Lemmas/C28Truth.lean`). -/
example (v : Val) (hv : v.ok) (b : B) : truth v (notB b) = !truth v b := not_sound v hv b

/-- `logical_xor`: parity of the arguments, in the given order. -/
theorem xor_sound (v : Val) (hv : v.ok) (l : List B) :
    truth v (xorE l) = l.foldl (fun acc b => acc ^^ truth v b) false := by
  rw [xor_sound_par v hv, parT_eq_foldl]

theorem nand_sound (x : Int) (v : Val) (hv : v.ok) (s : List B) (b : B) (h : nandE s = some b) :
    truth (nv x v) b = !s.all (truth (nv x v)) := by
  simp only [nandE, Option.map_eq_some_iff] at h
  obtain ⟨b', hb', rfl⟩ := h
  rw [not_sound _ (nv_ok x v hv), and_sound x v hv s b' hb']

theorem nor_sound (v : Val) (hv : v.ok) (s : List B) : truth v (norE s) = !s.any (truth v) := by
  rw [nor_sound_T v hv, anyT_eq_any]

theorem xnor_sound (v : Val) (hv : v.ok) (l : List B) :
    truth v (xnorE l) = !l.foldl (fun acc b => acc ^^ truth v b) false := by
  rw [xnor_sound_par v hv, parT_eq_foldl]

/-! ### laws that follow from the value theorems -/

/-- the value of `logical_and` / `logical_or` does not depend on the order of the arguments -/
theorem and_or_perm_truth (v : Val) (hv : v.ok) (isOr : Bool) (s s' : List B) (h : s.Perm s') :
    truth v (andOr isOr s) = truth v (andOr isOr s') := by
  rw [and_or_sound v hv, and_or_sound v hv]
  cases isOr
  · simp only [Bool.false_eq_true, if_false]; exact h.all_eq
  · simp only [if_true]; exact h.any_eq

/-- … nor on repetitions -/
theorem and_or_dup_truth (v : Val) (hv : v.ok) (isOr : Bool) (s : List B) :
    truth v (andOr isOr (s ++ s)) = truth v (andOr isOr s) := by
  rw [and_or_sound v hv, and_or_sound v hv]
  cases isOr <;> simp

/-- De Morgan: `Nor(s)` has the value of `And(Not s…)` -/
theorem nor_de_morgan (v : Val) (hv : v.ok) (s : List B) :
    truth v (norE s) = truth v (andOr false (s.map notB)) := by
  rw [nor_sound v hv, and_or_sound v hv]
  simp only [Bool.false_eq_true, if_false, List.all_map]
  induction s with
  | nil => rfl
  | cons b t ih =>
    simp only [List.any_cons, List.all_cons, Function.comp, Bool.not_or, not_sound v hv b]
    rw [ih]

/-- `Xnor` is the negation of `Xor` on the same arguments -/
theorem xnor_not_xor (v : Val) (hv : v.ok) (l : List B) : truth v (xnorE l) = !truth v (xorE l) := by
  rw [xnor_sound v hv, xor_sound v hv]

/-- double negation keeps the value, for every object (canonical or not) -/
theorem not_not_truth (v : Val) (hv : v.ok) (b : B) : truth v (notB (notB b)) = truth v b := by
  rw [not_sound v hv, not_sound v hv, Bool.not_not]

/-- the value of `logical_xor` does not depend on the order of the arguments -/
theorem xor_perm_truth (v : Val) (hv : v.ok) (l l' : List B) (h : l.Perm l') :
    truth v (xorE l) = truth v (xorE l') := by
  rw [xor_sound v hv, xor_sound v hv]
  induction h with
  | nil => rfl
  | cons x _ ih =>
    simp only [List.foldl_cons]
    have key : ∀ (m : List B) (acc : Bool), m.foldl (fun acc b => acc ^^ truth v b) acc
        = (acc ^^ m.foldl (fun acc b => acc ^^ truth v b) false) := by
      intro m
      induction m with
      | nil => intro acc; simp
      | cons y t ih2 => intro acc; simp only [List.foldl_cons]; rw [ih2 (acc ^^ truth v y), ih2 (false ^^ truth v y)]; simp [Bool.xor_assoc]
    rw [key _ (false ^^ truth v x), key _ (false ^^ truth v x), ih]
  | swap x y t =>
    simp only [List.foldl_cons]
    congr 1
    cases truth v x <;> cases truth v y <;> rfl
  | trans _ _ ih1 ih2 => exact ih1.trans ih2

/-- the three outcomes of `piecewise()` -/
theorem piecewise_cases (vec : List (Nat × B)) :
    (pwPrune vec [] = [] ∧ piecewise vec = .error .domain) ∨
    (∃ e, pwPrune vec [] = [(e, .tt)] ∧ piecewise vec = .ok (.expr e)) ∨
    (piecewise vec = .ok (.pw (pwPrune vec [])) ∧ pwPrune vec [] ≠ [] ∧ ∀ e, pwPrune vec [] ≠ [(e, .tt)]) := by
  unfold piecewise
  split
  · rename_i h; exact Or.inl ⟨h, rfl⟩
  · rename_i e h; exact Or.inr (Or.inl ⟨e, h, rfl⟩)
  · rename_i h1 h2; exact Or.inr (Or.inr ⟨rfl, h1, h2⟩)

/-- `piecewise()`: pruning never changes the first branch whose condition holds; a `DomainError` is raised only
when no branch can ever apply. -/
theorem piecewise_sound (v : Val) (vec : List (Nat × B)) :
    match piecewise vec with
    | .error _ => firstTrue v vec = none
    | .ok r => pwVal v r = firstTrue v vec := by
  have h := pwPrune_sound v vec [] (by simp)
  rcases piecewise_cases vec with ⟨h0, hp⟩ | ⟨e, h0, hp⟩ | ⟨hp, _, _⟩
  · rw [hp]; rw [h0] at h; simpa [firstTrue] using h.symm
  · rw [hp]; rw [h0] at h; simpa [firstTrue, truth, pwVal] using h
  · rw [hp]; simpa [pwVal] using h

/-- A whole recipe (any nesting of the seven API calls, any depth): the object built bottom-up has the textbook
value of the recipe. -/
theorem recipe_sound (x : Int) (v : Val) (hv : v.ok) (r : R) (b : B) (h : build r = some b) :
    truth (nv x v) b = rTruth (nv x v) r := build_sound x v hv r b h

/-! ## canonical-form invariants -/

/-- `logical_not` is an involution on everything the API returns. -/
theorem not_involutive (b : B) (h : wf b = true) : notB (notB b) = b := notB_invol b h

/-- `logical_not` returns canonical objects (the `make_rcp<Or>` in `And::logical_not` passes its assertion). -/
theorem not_canonical (b : B) (h : wf b = true) : wf (notB b) = true ∧ cppCanonical (notB b) = true :=
  ⟨wf_notB b h, wf_cppCanonical _ (wf_notB b h)⟩

/-- `and_or` returns a canonical object: ≥ 2 arguments, no constants, no nested same kind, no complementary pair. -/
theorem and_or_canonical (isOr : Bool) (s : List B) (hs : ∀ a ∈ s, wf a = true) :
    wf (andOr isOr s) = true ∧ cppCanonical (andOr isOr s) = true :=
  ⟨wf_andOr isOr s hs, wf_cppCanonical _ (wf_andOr isOr s hs)⟩

/-- `logical_and` with the FiniteSet-domain rule returns a canonical object -/
theorem and_canonical (s : List B) (b : B) (hs : ∀ a ∈ s, wf a = true) (h : andE s = some b) :
    wf b = true ∧ cppCanonical b = true :=
  ⟨wf_andD _ s b hs h, wf_cppCanonical _ (wf_andD _ s b hs h)⟩

/-- `logical_xor` returns a canonical object: ≥ 2 arguments, no constants, no nested `Xor`, no duplicate and no
complementary pair (also below an outer `Not`). -/
theorem xor_canonical (s : List B) (hs : ∀ a ∈ s, wf a = true) :
    wf (xorE s) = true ∧ cppCanonical (xorE s) = true :=
  ⟨wf_xorE s hs, wf_cppCanonical _ (wf_xorE s hs)⟩

/-- every object a recipe can build is canonical, at every node -/
theorem recipe_canonical (r : R) (b : B) (hl : leavesWf r = true) (h : build r = some b) :
    wf b = true ∧ cppCanonical b = true :=
  ⟨build_wf r b hl h, wf_cppCanonical _ (build_wf r b hl h)⟩

/-- `make_rcp<Piecewise>` receives a vector that passes `Piecewise::is_canonical`. -/
theorem piecewise_canonical (vec : List (Nat × B)) (l : List (Nat × B)) (h : piecewise vec = .ok (.pw l)) :
    pwCanonical l = true ∧ ∀ p ∈ l, p ∈ vec := by
  have hc := pwPrune_canon vec []
  have hm := pwPrune_conds vec []
  rcases piecewise_cases vec with ⟨_, hp⟩ | ⟨e, _, hp⟩ | ⟨hp, h1, h2⟩
  · rw [hp] at h; cases h
  · rw [hp] at h; cases h
  · rw [hp] at h
    simp only [Except.ok.injEq, PW.pw.injEq] at h
    rw [h] at hc hm h1 h2
    refine ⟨?_, hm⟩
    unfold pwCanonical
    simp only [hc, Bool.true_and, Bool.and_eq_true, Bool.not_eq_true', List.isEmpty_eq_false_iff]
    refine ⟨h1, ?_⟩
    trivial

/-! ## non-vacuity: the hypotheses are satisfiable on non-trivial values -/

/-- a valuation that respects complementary literals and is not constant -/
def vEx : Val := { rel := fun i n => (i % 2 == 0) ^^ n, mem := fun i => i == 1, fs := fun _ => false }

theorem vEx_ok : vEx.ok := by
  intro i n
  simp only [vEx]
  cases n <;> cases (i % 2 == 0) <;> rfl

def fEx : List B := [.rel 0 false, .or [.rel 1 true, .mem 0], .and [.rel 2 false, .rel 3 true], .tt, .mem 1]
def fExR : B := .and [.rel 0 false, .rel 2 false, .rel 3 true, .mem 1, .or [.rel 1 true, .mem 0]]

example : andE fEx = some fExR := by decide
example : truth (nv 0 vEx) fExR = fEx.all (truth (nv 0 vEx)) := and_sound 0 vEx vEx_ok fEx fExR (by decide)
example : truth (nv 0 vEx) fExR = true := by decide
example : orE [.rel 0 false, .rel 1 true, .rel 0 true] = .tt := by decide
example : andE [.rel 0 false, .rel 1 true, .rel 0 true] = some .ff := by decide
-- the FiniteSet-domain rule: x ∈ {1,2,3} ∧ x < 3  ↦  x ∈ {1,2}   (rel 65 = `x<3`: 8 + 3*(3+16) + 0)
example : andE [.fs [1, 2, 3], .rel 65 false] = some (.fs [1, 2]) := by decide
-- … with a symbolic conjunct left: x ∈ {1,2,3} ∧ x < 3 ∧ a0  ↦  x ∈ {1,2} ∧ a0 ∧ x < 3
example : andE [.fs [1, 2, 3], .rel 65 false, .rel 0 false]
    = some (.and [.rel 0 false, .rel 65 false, .fs [1, 2]]) := by decide
example : andE [.fs [1, 2], .fs [2, 3]] = none := by decide
example : truth (nv 2 vEx) (.fs [1, 2]) = [B.fs [1, 2, 3], .rel 65 false].all (truth (nv 2 vEx)) :=
  and_sound 2 vEx vEx_ok _ _ (by decide)
example : xorE [.rel 0 false, .mem 0, .rel 0 true, .xor [.mem 0, .mem 1]] = .not (.mem 1) := by decide
example : truth vEx (xorE [.rel 0 false, .mem 0, .rel 0 true, .xor [.mem 0, .mem 1]])
    = [B.rel 0 false, .mem 0, .rel 0 true, .xor [.mem 0, .mem 1]].foldl (fun acc b => acc ^^ truth vEx b) false :=
  xor_sound vEx vEx_ok _
example : wf fExR = true := (and_canonical fEx fExR (by decide) (by decide)).1
example : notB (notB fExR) = fExR := not_involutive _ (by decide)
example : piecewise [(0, .ff), (1, .rel 0 false), (2, .rel 0 false), (3, .tt), (4, .mem 0)]
    = .ok (.pw [(1, .rel 0 false), (3, .tt)]) := by rfl
example : piecewise [(0, .ff), (1, orE [.ff, .ff])] = .error .domain := by rfl
example : build (.node .nand [.leaf (.rel 0 false), .node .xor [.leaf (.mem 0), .leaf .tt]])
    = some (.or [.rel 0 true, .mem 0]) := by decide

end SymVerif.C28
