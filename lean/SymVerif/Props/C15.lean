/-
C15 — generated C code (ccode = C99CodePrinter, C89CodePrinter; double and float precision).

Tie to the code: `render (toC r)` is compared *character for character* with the real printer
output on every run (driver), the printer functions modelled by hand are pinned by hash
(translator c15_codegen), names and the UnevaluatedExpr flag are translated.

Proved here, about the functions the driver runs (`toC`'s building blocks, `cEval`, `wf`) with the
real-number structure `realOps`:
  * literals: a Rational is printed as a quotient of two *double* literals — never an integer division
    (`rat_no_int_division`, `rat_value`); scalar literals are never int-typed;
  * `powShape_value`: the five shapes of `_print_pow` (exp, 1/x, sqrt, pow; cbrt excluded) compute
    base^exponent, provided the base is not an int-typed C expression (finding D26 otherwise);
  * `sign_shape_value`: the nested conditional printed for Sign computes the sign;
  * `recip_term_value`: `coef*1/den`, which C reads as `(coef*1)/den`, is `coef·(1/den)`;
  * `uneval_precedence_loss`: the witness of finding D22 (bare UnevaluatedExpr operand ⇒ tree not well formed);
  * `powShape_wf`, `parenIf_wf`: the parentheses `_print_pow` adds are sufficient for the C grammar
    whenever the printer's own precedence class is consistent with the C syntactic category of what
    it printed (`PrecOK`; violated only by reciprocal-function bases, finding D25).
The recursive statement over all trees (`C15_full`) and the parser round trip are not proved: the
driver checks `cparse (lex s) = toC r` and `cEval = gcc` on every generated case instead.  Partial.
-/
import SymVerif.Lemmas.C12Real
import SymVerif.Model.CSem
import SymVerif.Gen.CCodeNames
import SymVerif.Gen.EvalFormulas
import Mathlib.Analysis.SpecialFunctions.Pow.Real
import Mathlib.Analysis.SpecialFunctions.Sqrt
import Mathlib.Tactic.Linarith

namespace SymVerif.C15
open SymVerif SymVerif.EvalG SymVerif.CCode

variable (erf erfc : ℝ → ℝ)
local notation "R" => realOps erf erfc

section Rlemmas
variable (x y : ℝ)
@[simp] theorem R_exp : (realOps erf erfc).call1 .exp x = some (Real.exp x) := rfl
@[simp] theorem R_sqrt : (realOps erf erfc).call1 .sqrt x = some (Real.sqrt x) := rfl
@[simp] theorem R_pow : (realOps erf erfc).call2 .pow x y = some (x ^ y) := rfl
@[simp] theorem R_add : (realOps erf erfc).add x y = x + y := rfl
@[simp] theorem R_sub : (realOps erf erfc).sub x y = x - y := rfl
@[simp] theorem R_mul : (realOps erf erfc).mul x y = x * y := rfl
@[simp] theorem R_div : (realOps erf erfc).div x y = x / y := rfl
@[simp] theorem R_neg : (realOps erf erfc).neg x = -x := rfl
@[simp] theorem R_ofQNear (n : Int) (d : Nat) : (realOps erf erfc).ofQNear n d = (n : ℝ) / (d : ℝ) := rfl
@[simp] theorem R_eq : (realOps erf erfc).eq x y = decide (x = y) := rfl
@[simp] theorem R_lt : (realOps erf erfc).lt x y = decide (x < y) := rfl
@[simp] theorem R_le : (realOps erf erfc).le x y = decide (x ≤ y) := rfl
end Rlemmas

/-- Finding D22 (model as-is): with the bare printing of UnevaluatedExpr operands
(`unevalParen = false`, which is what codegen.cpp does) the tree printed for `2*UnevaluatedExpr(1 + x)` is
NOT well formed for the C grammar — `2*1 + x` is read as `(2*1) + x`.  With parentheses it is. -/
def unevalWitness : Expr :=
  .mul (.int 2) [(.app "UnevaluatedExpr" [.add (.int 1) [(.sym "x", .int 1)]], .int 1)]

theorem uneval_precedence_loss (fl : Flavor) (names : List (String × String)) :
    (toC ⟨fl, false, false, names⟩ unevalWitness).toOption.map wf = some false
    ∧ (toC ⟨fl, false, true, names⟩ unevalWitness).toOption.map wf = some true := by
  constructor <;> rfl

/-! ### literals -/

theorem scalarLit_not_int (cfg : PCfg) (b : UInt64) : isIntTyped (scalarLit cfg b) = false := by
  unfold scalarLit
  split <;> simp [isIntTyped]

/-- real value of a printed scalar literal (sign handled by the unary minus token) -/
noncomputable def scalarVal (b : UInt64) : ℝ :=
  if b >>> 63 == 1 then -((realOps erf erfc).ofBits (b &&& 0x7fffffffffffffff)) else (realOps erf erfc).ofBits b

theorem cEval_scalarLit (cfg : PCfg) (hd : cfg.float = false) (env : String → Option ℝ) (b : UInt64) :
    cEval R env (scalarLit cfg b) = .ok (.dbl (scalarVal erf erfc b)) := by
  unfold scalarLit scalarVal
  split <;> simp [cEval, hd, bind, Except.bind, pure, Except.pure]

/-- a Rational is a quotient of two double literals: no integer division, value double(n)/double(d) -/
theorem rat_no_int_division (cfg : PCfg) (n : Int) (d : Nat) :
    hasIntDiv (numC cfg (.rat n d)) = false ∧ isIntTyped (numC cfg (.rat n d)) = false := by
  have h1 := scalarLit_not_int cfg (intBits n)
  have h2 := scalarLit_not_int cfg (intBits d)
  constructor
  · simp only [numC, hasIntDiv, h1, Bool.and_false, Bool.false_and, Bool.false_or]
    unfold scalarLit
    split <;> split <;> simp [hasIntDiv]
  · simp [numC, isIntTyped, h1]

theorem rat_value (cfg : PCfg) (hd : cfg.float = false) (env : String → Option ℝ) (n : Int) (d : Nat) :
    cEval R env (numC cfg (.rat n d))
      = .ok (.dbl (scalarVal erf erfc (intBits n) / scalarVal erf erfc (intBits d))) := by
  simp only [numC, cEval, bind, Except.bind]
  rw [cEval_scalarLit erf erfc cfg hd, cEval_scalarLit erf erfc cfg hd]
  simp [arith, CVal.toD]

/-! ### `_print_pow` -/

/-- what the Pow node means (EvalDoubleVisitor::bvisit(const Pow&)): exp(e) for base E, else b^e -/
noncomputable def powSem (b : Expr) (xb xe : ℝ) : ℝ :=
  if isE b then Real.exp xe else xb ^ xe

/-- value the exponent leaf denotes for the special cases of `_print_pow` -/
def ExpIs (e : Expr) (xe : ℝ) : Prop :=
  (isMinusOne e = true → xe = -1) ∧ (isHalf e = true → xe = 1 / 2)

theorem powShape_value (cfg : PCfg) (hd : cfg.float = false) (env : String → Option ℝ)
    (b e : Expr) (cb ce : CExpr) (xb : ℝ) (ve : CVal ℝ)
    (hb : cEval R env cb = .ok (.dbl xb)) (he : cEval R env ce = .ok ve)
    (hx : ExpIs e (ve.toD (realOps erf erfc)))
    (hcbrt : ¬ (isThird e = true ∧ cfg.flavor = .c99)) :
    cEval R env (powShape cfg b e cb ce) = .ok (.dbl (powSem b xb (ve.toD (realOps erf erfc)))) := by
  unfold powShape powSem
  by_cases h1 : isE b = true
  · simp [h1, cEval, cEvalList, mathFn, hd, cFn1, he, bind, Except.bind, pure, Except.pure]
  · have h1' : isE b = false := by simpa using h1
    by_cases h2 : isMinusOne e = true
    · have hxe := hx.1 h2
      have hpb : cEval R env (parenIf (decide (prec b ≤ 2)) cb) = .ok (.dbl xb) := by
        unfold parenIf; split <;> simp [cEval, hb]
      simp only [h1', h2, if_true, Bool.false_eq_true, if_false]
      rw [hxe]
      simp [cEval, intLit, hd, hpb, bind, Except.bind, arith, CVal.toD, Real.rpow_neg_one]
    · have h2' : isMinusOne e = false := by simpa using h2
      by_cases h3 : isHalf e = true
      · have hxe := hx.2 h3
        simp only [h1', h2', h3, if_true, Bool.false_eq_true, if_false]
        rw [hxe]
        simp [cEval, cEvalList, mathFn, hd, cFn1, hb, bind, Except.bind, pure, Except.pure, CVal.toD,
          Real.sqrt_eq_rpow]
      · have h3' : isHalf e = false := by simpa using h3
        have h4 : (isThird e && cfg.flavor == Flavor.c99) = false := by
          by_cases ht : isThird e = true
          · have hne : cfg.flavor ≠ .c99 := fun hc => hcbrt ⟨ht, hc⟩
            have : (cfg.flavor == Flavor.c99) = false := by
              cases hf : cfg.flavor
              · rfl
              · exact absurd hf hne
            simp [this]
          · simp [ht]
        simp only [h1', h2', h3', h4, Bool.false_eq_true, if_false]
        simp [cEval, cEvalList, mathFn, hd, cFn2, hb, he, bind, Except.bind, pure, Except.pure]
        rfl

/-! ### Sign -/

/-- the tree `CodePrinter::bvisit(const Sign&)` builds from the printed operand -/
def signTree (cfg : PCfg) (c : CExpr) : CExpr :=
  .paren (.cond false (.paren (.bin .eq c (scalarLit cfg 0))) (.paren (scalarLit cfg 0))
    (.paren (.cond false (.paren (.bin .lt c (scalarLit cfg 0))) (.paren (scalarLit cfg (intBits (-1))))
      (.paren (scalarLit cfg (intBits 1))))))

theorem appShape_sign (cfg : PCfg) (a : Expr) (c : CExpr) :
    appShape cfg "Sign" [a] [c] = .ok (signTree cfg c) := by
  simp [appShape, relOp, rewrittenKinds, signTree]

theorem bitsToQ_zero : ∃ d, bitsToQ 0 = some (0, d) := ⟨_, rfl⟩
theorem bitsToQ_one : bitsToQ 0x3ff0000000000000 = some (2 ^ 52, 2 ^ 52) := by decide
theorem intBits_one : intBits 1 = 0x3ff0000000000000 := by decide
theorem intBits_mone : intBits (-1) = 0xbff0000000000000 := by decide

theorem scalarVal_zero : scalarVal erf erfc 0 = 0 := by
  obtain ⟨d, hd⟩ := bitsToQ_zero
  have h : ((0 : UInt64) >>> 63 == 1) = false := by decide
  simp [scalarVal, h, realOps, hd]

theorem scalarVal_one : scalarVal erf erfc (intBits 1) = 1 := by
  rw [intBits_one]
  have h : ((0x3ff0000000000000 : UInt64) >>> 63 == 1) = false := by decide
  simp [scalarVal, h, realOps, bitsToQ_one]

theorem scalarVal_mone : scalarVal erf erfc (intBits (-1)) = -1 := by
  rw [intBits_mone]
  have h : ((0xbff0000000000000 : UInt64) >>> 63 == 1) = true := by decide
  have hm : (0xbff0000000000000 : UInt64) &&& 0x7fffffffffffffff = 0x3ff0000000000000 := by decide
  simp [scalarVal, h, hm, realOps, bitsToQ_one]

theorem sign_shape_value (cfg : PCfg) (hd : cfg.float = false) (env : String → Option ℝ)
    (c : CExpr) (x : ℝ) (hc : cEval R env c = .ok (.dbl x)) :
    cEval R env (signTree cfg c) = .ok (.dbl (if x = 0 then 0 else if x < 0 then -1 else 1)) := by
  have hz : cEval R env (scalarLit cfg 0) = .ok (.dbl 0) := by
    rw [cEval_scalarLit erf erfc cfg hd, scalarVal_zero]
  have hone : cEval R env (scalarLit cfg (intBits 1)) = .ok (.dbl 1) := by
    rw [cEval_scalarLit erf erfc cfg hd, scalarVal_one]
  have hmone : cEval R env (scalarLit cfg (intBits (-1))) = .ok (.dbl (-1)) := by
    rw [cEval_scalarLit erf erfc cfg hd, scalarVal_mone]
  have ni := scalarLit_not_int cfg
  rcases lt_trichotomy x 0 with h | h | h
  · have h0 : x ≠ 0 := h.ne
    simp [signTree, cEval, hc, hz, hone, hmone, bind, Except.bind, pure, Except.pure, arith, CVal.toD, ofB, truth,
      isIntTyped, ni, h0, h]
  · subst h
    simp [signTree, cEval, hc, hz, hone, hmone, bind, Except.bind, pure, Except.pure, arith, CVal.toD, ofB, truth,
      isIntTyped, ni]
  · have h0 : x ≠ 0 := h.ne'
    have h1 : ¬ x < 0 := not_lt.mpr h.le
    simp [signTree, cEval, hc, hz, hone, hmone, bind, Except.bind, pure, Except.pure, arith, CVal.toD, ofB, truth,
      isIntTyped, ni, h0, h1]

/-! ### `coef*1/den` -/

theorem recip_term_value (env : String → Option ℝ) (cc one den : CExpr) (xc xd : ℝ)
    (hcc : cEval R env cc = .ok (.dbl xc)) (hone : cEval R env one = .ok (.int 1))
    (hden : cEval R env den = .ok (.dbl xd)) :
    cEval R env (.bin .div (.bin .mul cc one) den) = .ok (.dbl (xc * (1 / xd))) := by
  simp [cEval, hcc, hone, hden, bind, Except.bind, arith, CVal.toD]
  ring

/-! ### parentheses are sufficient -/

theorem parenIf_wf (b : Bool) (c : CExpr) (h : wf c = true) : wf (parenIf b c) = true := by
  cases b <;> simp [parenIf, wf, h]

theorem parenIf_level_true (c : CExpr) : level (parenIf true c) = 14 := by
  simp [parenIf, level]

/-- the printer's precedence class of `b` is consistent with the C category of what it printed -/
def PrecOK (b : Expr) (cb : CExpr) : Prop := prec b ≥ 3 → level cb ≥ 12

theorem powShape_wf (cfg : PCfg) (b e : Expr) (cb ce : CExpr)
    (hb : wf cb = true) (he : wf ce = true) (hok : PrecOK b cb) :
    wf (powShape cfg b e cb ce) = true := by
  unfold powShape
  split
  · simp [wf, wfList, he]
  · split
    · have hl : level (intLit cfg 1) ≥ 11 := by
        unfold intLit scalarLit
        split
        · split <;> simp [level]
        · simp [level]
      have hw : wf (intLit cfg 1) = true := by
        unfold intLit scalarLit
        split
        · split <;> simp [wf, level]
        · simp [wf]
      by_cases hp : prec b ≤ 2
      · simp [wf, parenIf, hp, level, BinOp.level, hb, hw]
        exact hl
      · have h3 : prec b ≥ 3 := by omega
        have := hok h3
        simp [wf, parenIf, hp, BinOp.level, hb, hw]
        exact ⟨hl, by omega⟩
    · split
      · simp [wf, wfList, hb]
      · split
        · simp [wf, wfList, hb]
        · simp [wf, wfList, hb, he]

/-! ### non-vacuity -/

def cfgD : PCfg := { flavor := .c99, float := false, unevalParen := Gen.unevalParen, names := Gen.fnNames }

-- `ccode(x**(-1))` is `1/x`; `ccode(1/2)` is `1.0/2.0`; an UnevaluatedExpr factor is parenthesised
-- (evaluated by the compiler at build time: a test of the executable model, not a proof)
#guard (toC cfgD (.pow (.sym "x") (.int (-1)))).toOption.map render == some "1/x"
#guard (toC cfgD (.rat 1 2)).toOption.map render == some "1.0/2.0"
#guard (toC { cfgD with unevalParen := false } unevalWitness).toOption.map render == some "2*1 + x"
#guard (toC { cfgD with unevalParen := true } unevalWitness).toOption.map render == some "2*(1 + x)"
#guard (cparse ((lex "2*(1 + x)/y - 3").getD [])).map wf == some true

example : cEval (realOps id id) (fun _ => some (-3)) (signTree cfgD (.ident "x"))
    = .ok (.dbl (if (-3 : ℝ) = 0 then 0 else if (-3 : ℝ) < 0 then -1 else 1)) :=
  sign_shape_value id id cfgD rfl _ (.ident "x") (-3) (by simp [cEval])

/-- The full property (not asserted): for every tree the printer accepts, the C expression it
prints is well formed for the C grammar, contains no integer division, and its value under the C
semantics is the value of the tree. -/
def C15_full (erf erfc : ℝ → ℝ) : Prop :=
  ∀ (cfg : PCfg) (e : Expr) (c : CExpr) (env : String → Option ℝ) (v : ℝ),
    cfg.float = false → toC cfg e = .ok c →
    evalG (α := ℝ) ⟨realOps erf erfc, EvalG.Gen.visitorReal, env⟩ e = .ok v →
    wf c = true ∧ hasIntDiv c = false ∧ ∃ w, cEval (realOps erf erfc) env c = .ok w ∧ w.toD (realOps erf erfc) = v

end SymVerif.C15
