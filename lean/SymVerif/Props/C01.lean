/-
C01 — equal expressions always have equal hashes.

Model: `SymVerif.Expr.hash`, `beq'` (`Model/ExprHash.lean`), mirroring `Basic::hash` / `eq` bit for bit;
the driver `Drv/C01.lean` runs exactly these functions (after `Expr.norm`, the model of building the
ordered containers) and is compared with the real `Basic::hash()` / `eq()` values.

The unrestricted statement is FALSE on the code as it is (defect D1): `eq(0.0, -0.0)` holds, the hashes
differ.  That is proved below (`d1_witness`, `C01_full_false`), and the property is proved for
expressions without the double `-0.0` (`hash_congr_partial`).
-/
import SymVerif.Lemmas.C01Hash

namespace SymVerif.C01
open SymVerif SymVerif.Expr

/-- C01 as stated: for well-formed objects, `eq` implies equal hashes. -/
def C01_full : Prop := ∀ a b : Expr, WF a = true → WF b = true → beq' a b = true → Expr.hash a = Expr.hash b

/-- D1: `eq(real_double(0.0), real_double(-0.0))` is true, the hashes differ — as long as the source has
the unfixed `RealDouble::__hash__` (the translator reports which form is present). -/
theorem d1_witness : TC.dblHashZeroNorm = false →
    WF (dbl 0) = true ∧ WF (dbl negZeroBits) = true ∧
    beq' (dbl 0) (dbl negZeroBits) = true ∧ Expr.hash (dbl 0) ≠ Expr.hash (dbl negZeroBits) := by decide +kernel

/-- D1 propagates through every container of such a double: `f(0.0)` vs `f(-0.0)`,
`ComplexDouble(-0.0, 1.0)` vs `ComplexDouble(0.0, 1.0)`. -/
theorem d1_witness_nested :
    (TC.dblHashZeroNorm = false →
      beq' (fsym "f" [dbl 0]) (fsym "f" [dbl negZeroBits]) = true ∧
      Expr.hash (fsym "f" [dbl 0]) ≠ Expr.hash (fsym "f" [dbl negZeroBits])) ∧
    (TC.cdblHashZeroNorm = false →
      beq' (cdbl negZeroBits 0x3ff0000000000000) (cdbl 0 0x3ff0000000000000) = true ∧
      Expr.hash (cdbl negZeroBits 0x3ff0000000000000) ≠ Expr.hash (cdbl 0 0x3ff0000000000000)) := by decide +kernel

/-- the unrestricted property does not hold for the code as it is -/
theorem C01_full_false (unfixed : TC.dblHashZeroNorm = false) : ¬ C01_full := fun h =>
  (d1_witness unfixed).2.2.2 (h _ _ (d1_witness unfixed).1 (d1_witness unfixed).2.1 (d1_witness unfixed).2.2.1)

/-- … and `unfixed` is the state of the source the translator saw (vacuous once the fix is applied) -/
example : TC.dblHashZeroNorm = false ∨ TC.dblHashZeroNorm = true := by decide

/-- On well-formed expressions without the double `-0.0` (and without NaN doubles, which are `eq` to
nothing), `eq` holds only between identical model objects … -/
theorem eq_imp_identical {a b : Expr} (wa : WF a = true) (wb : WF b = true)
    (na : noNaN a = true) (nb : noNaN b = true) (za : noSignedZero a = true) (zb : noSignedZero b = true)
    (h : beq' a b = true) : a = b :=
  (J_all a b ⟨wa, na, za⟩ ⟨wb, nb, zb⟩).eq1 h

/-- … hence equal expressions have equal hashes (C01 with the decidable exclusions). -/
theorem hash_congr_partial {a b : Expr} (wa : WF a = true) (wb : WF b = true)
    (na : noNaN a = true) (nb : noNaN b = true) (za : noSignedZero a = true) (zb : noSignedZero b = true)
    (h : beq' a b = true) : Expr.hash a = Expr.hash b := by
  rw [eq_imp_identical wa wb na nb za zb h]

example : Expr.hash (add (int 1) [(sym "x", rat 1 2), (pow (sym "y") (int 2), int 3)])
    = Expr.hash (add (int 1) [(sym "x", rat 1 2), (pow (sym "y") (int 2), int 3)]) :=
  hash_congr_partial (by decide +kernel) (by decide +kernel) (by decide +kernel) (by decide +kernel) (by decide +kernel) (by decide +kernel) (by decide +kernel)

/-- `Add::__hash__` XOR-folds the per-entry hashes: the iteration order of the unordered dictionary is
irrelevant. -/
theorem hash_add_perm (c : Expr) {ts ts' : List (Expr × Expr)} (h : ts.Perm ts') :
    Expr.hash (add c ts) = Expr.hash (add c ts') := by
  rw [Expr.hash, Expr.hash]; exact hashAddTerms_perm h _

example : Expr.hash (add (int 0) [(sym "x", int 1), (sym "y", int 2)])
    = Expr.hash (add (int 0) [(sym "y", int 2), (sym "x", int 1)]) :=
  hash_add_perm _ (List.Perm.swap _ _ _)

/-- `eq` is an equivalence on these expressions (symmetry; reflexivity and transitivity follow from
`eq_imp_identical`). -/
theorem eq_symm_partial {a b : Expr} (wa : WF a = true) (wb : WF b = true)
    (na : noNaN a = true) (nb : noNaN b = true) (za : noSignedZero a = true) (zb : noSignedZero b = true)
    (h : beq' a b = true) : beq' b a = true := by
  have := eq_imp_identical wa wb na nb za zb h
  subst this; exact h

theorem eq_refl_partial {a : Expr} (wa : WF a = true) (na : noNaN a = true) (za : noSignedZero a = true) :
    beq' a a = true := Expr.beq'_refl ⟨wa, na, za⟩

def exSum : Expr := add (int 1) [(sym "x", rat 1 2), (pow (sym "y") (int 2), int 3)]

example : beq' exSum exSum = true :=
  eq_refl_partial (by decide +kernel) (by decide +kernel) (by decide +kernel)

example : beq' exSum exSum = true → beq' exSum exSum = true :=
  eq_symm_partial (by decide +kernel) (by decide +kernel) (by decide +kernel) (by decide +kernel)
    (by decide +kernel) (by decide +kernel)

/-- Consequence: a hash set (`uset_basic`, the key set of `umap_basic_num`) filled by insertions never
holds two entries that are `eq`. -/
theorem uset_no_dup {l : List Expr}
    (ol : ∀ x ∈ l, WF x = true ∧ noNaN x = true ∧ noSignedZero x = true) :
    List.Pairwise (fun a b => beq' a b = false ∧ beq' b a = false) (usetOf l) :=
  uset_aux l ol [] (by simp) List.Pairwise.nil

example : (usetOf [sym "x", int 2, sym "x", pow (sym "x") (int 2), int 2]).length = 3 := by
  decide +kernel

end SymVerif.C01
