import SymVerif.Lemmas.C22Poly
/-!
# C22 — multivariate polynomial arithmetic is correct

The model (`SymVerif/Model/MPoly.lean`, the code the driver `drv_c22` runs) is related to
Mathlib's `MvPolynomial ℕ R`: the variable `k` of the model is the indeterminate `X k`,
`sem p` is the polynomial denoted by the monomial dictionary of `p` read over `p.vars`.

All theorems are stated for an arbitrary commutative ring of coefficients `R` with decidable
equality (plus "no zero divisors" where the library relies on it); `R = ℤ` is `MIntPoly`,
`R = ℚ` is `MExprPoly` restricted to rational coefficients.  The `mint_*` corollaries restate
the headline results for the very instances the driver uses.
-/

open SymVerif.MPoly MvPolynomial

namespace SymVerif.C22
set_option linter.unusedSectionVars false

variable {R : Type} [CommRing R] [DecidableEq R]

/-- the polynomial denoted by a model polynomial -/
noncomputable def sem (p : Poly R) : MvPolynomial ℕ R := dictMv p.vars p.dict

/-- well-formed object: the variable set is strictly increasing (a `std::set`) and the dictionary
    satisfies the container invariant (vectors of length `vars.size()`, distinct keys, no zero) -/
structure WF (p : Poly R) : Prop where
  sorted : p.vars.Pairwise (· < ·)
  canon : Canon p.vars.length p.dict

/-! ## reconcile -/

/-- `reconcile` on two sorted variable sets returns the sorted union `s` and, for each input
    set, the vector of positions of its variables inside `s`:
    * `s` is strictly increasing and contains exactly the variables of `s1` and of `s2`;
    * `v1[k]` is the index of `s1[k]` in `s` (so `s[v1[k]] = s1[k]`), likewise `v2`;
    * `v1` and `v2` are strictly increasing (injective and order preserving) and in range. -/
theorem reconcile_spec (s1 s2 : List Var) (h1 : s1.Pairwise (· < ·)) (h2 : s2.Pairwise (· < ·)) :
    ∃ v1 v2 s, reconcile s1 s2 = (v1, v2, s) ∧
      s.Pairwise (· < ·) ∧ (∀ x, x ∈ s ↔ x ∈ s1 ∨ x ∈ s2) ∧
      v1 = s1.map (fun x => s.idxOf x) ∧ v2 = s2.map (fun x => s.idxOf x) ∧
      (∀ k (hk : k < s1.length), ∃ h : v1.getD k 0 < s.length, s[v1.getD k 0] = s1[k]) ∧
      (∀ k (hk : k < s2.length), ∃ h : v2.getD k 0 < s.length, s[v2.getD k 0] = s2[k]) ∧
      v1.Pairwise (· < ·) ∧ v2.Pairwise (· < ·) := by
  have hs := sorted_merge s1 s2 h1 h2
  have key : ∀ l : List Var, l.Pairwise (· < ·) → (∀ x ∈ l, x ∈ merge s1 s2) →
      (∀ k (hk : k < l.length), ∃ h : (l.map (fun x => (merge s1 s2).idxOf x)).getD k 0 < (merge s1 s2).length,
        (merge s1 s2)[(l.map (fun x => (merge s1 s2).idxOf x)).getD k 0] = l[k]) ∧
      (l.map (fun x => (merge s1 s2).idxOf x)).Pairwise (· < ·) := by
    intro l hl hsub
    constructor
    · intro k hk
      have hmem : l[k] ∈ merge s1 s2 := hsub _ (List.getElem_mem hk)
      have hlt : (merge s1 s2).idxOf l[k] < (merge s1 s2).length := List.idxOf_lt_length_iff.mpr hmem
      have hget : (l.map (fun x => (merge s1 s2).idxOf x)).getD k 0 = (merge s1 s2).idxOf l[k] := by
        simp [List.getD_eq_getElem?_getD, hk]
      rw [hget]
      exact ⟨hlt, List.getElem_idxOf hlt⟩
    · rw [List.pairwise_map]
      refine hl.imp_of_mem ?_
      intro a b ha hb hab
      have ha' := List.idxOf_lt_length_iff.mpr (hsub a ha)
      have hb' := List.idxOf_lt_length_iff.mpr (hsub b hb)
      by_contra hcon
      have hle : (merge s1 s2).idxOf b ≤ (merge s1 s2).idxOf a := Nat.le_of_not_lt hcon
      have h3 : (merge s1 s2)[(merge s1 s2).idxOf b] ≤ (merge s1 s2)[(merge s1 s2).idxOf a] := by
        rcases Nat.lt_or_eq_of_le hle with hlt | heq
        · exact Nat.le_of_lt (List.pairwise_iff_getElem.mp hs _ _ hb' ha' hlt)
        · simp [heq]
      rw [List.getElem_idxOf hb', List.getElem_idxOf ha'] at h3
      exact absurd hab (Nat.not_lt.mpr h3)
  obtain ⟨k1, p1⟩ := key s1 h1 (fun x hx => (mem_merge s1 s2 x).mpr (Or.inl hx))
  obtain ⟨k2, p2⟩ := key s2 h2 (fun x hx => (mem_merge s1 s2 x).mpr (Or.inr hx))
  exact ⟨_, _, _, reconcile_eq s1 s2 h1 h2, hs, mem_merge s1 s2, rfl, rfl, k1, k2, p1, p2⟩

example : reconcile [0, 2, 5] [1, 2, 7] = ([0, 2, 3], [1, 2, 4], [0, 1, 2, 5, 7]) := by decide

/-! ## translate -/

/-- `translate` along the position vector produced by `reconcile` re-expresses the dictionary
    over the union without changing the polynomial, and keeps the container invariant. -/
theorem translate_sem (s1 s2 : List Var) (d : Dict R) (h1 : s1.Pairwise (· < ·))
    (h2 : s2.Pairwise (· < ·)) (hd : Canon s1.length d) :
    ∃ d', translate (reconcile s1 s2).1 (reconcile s1 s2).2.2.length d = .ok d' ∧
      Canon (reconcile s1 s2).2.2.length d' ∧ dictMv (reconcile s1 s2).2.2 d' = dictMv s1 d := by
  rw [reconcile_eq s1 s2 h1 h2]
  exact translate_spec (merge s1 s2) s1 d (nodup_of_sorted (sorted_merge s1 s2 h1 h2)) (nodup_of_sorted h1)
    (fun x hx => (mem_merge s1 s2 x).mpr (Or.inl hx)) ⟨hd.len, hd.nodup⟩

/-- `get_translated_container` -/
theorem translated_spec (a b : Poly R) (ha : WF a) (hb : WF b) :
    ∃ x y, translated a b = .ok (merge a.vars b.vars, x, y) ∧
      Canon (merge a.vars b.vars).length x ∧ Canon (merge a.vars b.vars).length y ∧
      dictMv (merge a.vars b.vars) x = sem a ∧ dictMv (merge a.vars b.vars) y = sem b := by
  have hs := nodup_of_sorted (sorted_merge a.vars b.vars ha.sorted hb.sorted)
  obtain ⟨x, hx, hcx, hsx⟩ := translate_spec (merge a.vars b.vars) a.vars a.dict hs (nodup_of_sorted ha.sorted)
    (fun v hv => (mem_merge _ _ v).mpr (Or.inl hv)) ⟨ha.canon.len, ha.canon.nodup⟩
  obtain ⟨y, hy, hcy, hsy⟩ := translate_spec (merge a.vars b.vars) b.vars b.dict hs (nodup_of_sorted hb.sorted)
    (fun v hv => (mem_merge _ _ v).mpr (Or.inr hv)) ⟨hb.canon.len, hb.canon.nodup⟩
  refine ⟨x, y, ?_, hcx, hcy, hsx, hsy⟩
  simp only [translated, reconcile_eq a.vars b.vars ha.sorted hb.sorted, hx, hy]

/-! ## arithmetic over the union of the variables -/

/-- `add_mpoly`: succeeds, the result lives over the sorted union of the variable sets, is
    well-formed, and denotes the sum. -/
theorem add_sem (a b : Poly R) (ha : WF a) (hb : WF b) :
    ∃ r, addPoly a b = .ok r ∧ WF r ∧ r.vars = merge a.vars b.vars ∧ sem r = sem a + sem b := by
  obtain ⟨x, y, ht, hcx, hcy, hsx, hsy⟩ := translated_spec a b ha hb
  obtain ⟨hc, hs⟩ := addDict_spec (merge a.vars b.vars) x y hcx hcy
  refine ⟨⟨merge a.vars b.vars, addDict x y⟩, by simp only [addPoly, ht], ⟨sorted_merge _ _ ha.sorted hb.sorted, hc⟩, rfl, ?_⟩
  show dictMv (merge a.vars b.vars) _ = _
  rw [hs, hsx, hsy]

/-- `sub_mpoly` -/
theorem sub_sem (a b : Poly R) (ha : WF a) (hb : WF b) :
    ∃ r, subPoly a b = .ok r ∧ WF r ∧ r.vars = merge a.vars b.vars ∧ sem r = sem a - sem b := by
  obtain ⟨x, y, ht, hcx, hcy, hsx, hsy⟩ := translated_spec a b ha hb
  obtain ⟨hc, hs⟩ := subDict_spec (merge a.vars b.vars) x y hcx hcy
  refine ⟨⟨merge a.vars b.vars, subDict x y⟩, by simp only [subPoly, ht], ⟨sorted_merge _ _ ha.sorted hb.sorted, hc⟩, rfl, ?_⟩
  show dictMv (merge a.vars b.vars) _ = _
  rw [hs, hsx, hsy]

/-- `mul_mpoly` (coefficients without zero divisors: the constant shortcut of `*=` does not
    re-check for zero products) -/
theorem mul_sem [NoZeroDivisors R] (a b : Poly R) (ha : WF a) (hb : WF b) :
    ∃ r, mulPoly a b = .ok r ∧ WF r ∧ r.vars = merge a.vars b.vars ∧ sem r = sem a * sem b := by
  obtain ⟨x, y, ht, hcx, hcy, hsx, hsy⟩ := translated_spec a b ha hb
  obtain ⟨z, hz, hc, hs⟩ := mulDict_spec (merge a.vars b.vars) x y hcx hcy
  refine ⟨⟨merge a.vars b.vars, z⟩, by simp only [mulPoly, ht, hz], ⟨sorted_merge _ _ ha.sorted hb.sorted, hc⟩, rfl, ?_⟩
  show dictMv (merge a.vars b.vars) _ = _
  rw [hs, hsx, hsy]

/-- `neg_mpoly` -/
theorem neg_sem (a : Poly R) (ha : WF a) :
    WF (negPoly a) ∧ (negPoly a).vars = a.vars ∧ sem (negPoly a) = - sem a := by
  obtain ⟨hc, hs⟩ := negDict_spec a.vars a.dict ha.canon
  exact ⟨⟨ha.sorted, hc⟩, rfl, hs⟩

/-- `pow_mpoly` (with the repair for exponent 0): `p ^ n` for every `n`, in particular `p ^ 0 = 1` -/
theorem pow_sem [Nontrivial R] (a : Poly R) (n : Nat) (ha : WF a) :
    ∃ r, powPoly a n = .ok r ∧ WF r ∧ r.vars = a.vars ∧ sem r = sem a ^ n := by
  obtain ⟨d, hd, hc, hs⟩ := powDict_spec a.vars a.dict n ha.canon.len
  exact ⟨⟨a.vars, d⟩, by simp only [powPoly, hd], ⟨ha.sorted, hc⟩, rfl, hs⟩

/-- the union really is the union -/
theorem mem_union_vars (s1 s2 : List Var) (x : Var) : x ∈ merge s1 s2 ↔ x ∈ s1 ∨ x ∈ s2 := mem_merge s1 s2 x

/-! ## from_dict -/

/-- `from_dict(v, d)` for a vector `v` of distinct variables in any order and a dictionary with
    vectors of length `v.size()`: the variables get sorted, the exponents permuted accordingly,
    explicit zeros dropped; the polynomial is the one `d` denotes when read over `v`. -/
theorem fromDict_sem (v : List Var) (d : Dict R) (hv : v.Nodup) (hd : KeysOk v.length d) :
    ∃ p, fromDict v d = .ok p ∧ WF p ∧ p.vars = sortVars v ∧ (∀ x, x ∈ p.vars ↔ x ∈ v) ∧
      sem p = dictMv v d := by
  have hs := sorted_sortVars v
  have hc := canon_stripZeros hd.1 hd.2
  obtain ⟨d', h, hcan, hsem⟩ := translate_spec (sortVars v) v (stripZeros d) (nodup_of_sorted hs) hv
    (fun x hx => (mem_sortVars v x).mpr hx) ⟨hc.len, hc.nodup⟩
  refine ⟨⟨sortVars v, d'⟩, ?_, ⟨hs, hcan⟩, rfl, mem_sortVars v, ?_⟩
  · simp only [fromDict, List.length_map, length_sortVars v hv, ne_eq, not_true_eq_false, if_false]
    rw [length_sortVars v hv] at h
    simp only [h]
  · simp only [sem, hsem, dictMv_stripZeros]

/-! ## eval -/

/-- `eval(vals)` when every variable of the polynomial is bound: the value of the polynomial at
    the assignment. -/
theorem eval_sem (p : Poly R) (vals : List (Var × R)) (hp : WF p)
    (hv : ∀ v ∈ p.vars, (lookupVal vals v).isSome) :
    evalPoly p vals = .ok (eval (valFn vals) (sem p)) := by
  simp only [evalPoly, evalDict_spec vals p.vars p.dict 0 hv hp.canon.len, zero_add, sem]

/-! ## coefficients: `sem` is faithful to the dictionary -/

theorem coeff_sem (p : Poly R) (k : Mono) (hp : WF p) (hk : k.length = p.vars.length) :
    coeff (monoOf p.vars k) (sem p) = (find? p.dict k).getD 0 :=
  coeff_dictMv p.vars p.dict k (nodup_of_sorted hp.sorted) ⟨hp.canon.len, hp.canon.nodup⟩ hk

/-! ## `__eq__` -/

/-- With the repair (`&&`), `__eq__` is sound: equal objects denote the same polynomial. -/
theorem eq_sound (p q : Poly R) (hp : WF p) (hq : WF q) (h : polyEq p q = true) : sem p = sem q := by
  obtain ⟨pv, pd⟩ := p
  obtain ⟨qv, qd⟩ := q
  simp only [polyEq, polyEqWith] at h
  split at h
  · rename_i k1 c1 k2 c2
    by_cases hc : c1 = c2
    · subst hc
      simp only [ne_eq, not_true_eq_false, if_false] at h
      by_cases hk : k1 = k2 ∧ pv = qv
      · obtain ⟨rfl, rfl⟩ := hk; rfl
      · simp only [hk, if_false, Bool.and_eq_true, isZeroVec, beq_iff_eq] at h
        obtain ⟨rfl, rfl⟩ := h
        simp [sem, monoOf_replicate_zero]
    · simp [hc] at h
  · rfl
  · simp only [Bool.and_eq_true, beq_iff_eq] at h
    obtain ⟨rfl, hd⟩ := h
    exact dictEq_sound pv pd qd hp.canon.nodup hq.canon.nodup hd

/-- Over the same variable set `__eq__` is also complete: it decides equality of polynomials. -/
theorem eq_complete_same_vars (p q : Poly R) (hp : WF p) (hq : WF q) (hv : p.vars = q.vars)
    (h : sem p = sem q) : polyEq p q = true := by
  obtain ⟨pv, pd⟩ := p
  obtain ⟨qv, qd⟩ := q
  simp only at hv
  subst hv
  have hde : dictEq pd qd = true :=
    dictEq_complete pv pd qd (nodup_of_sorted hp.sorted) hp.canon hq.canon h
  simp only [polyEq, polyEqWith]
  split
  · rename_i k1 c1 k2 c2
    obtain ⟨_, hsub⟩ := (dictEq_iff_subset _ _ hp.canon.nodup hq.canon.nodup).mp hde
    have := hsub (k1, c1) (List.mem_cons_self ..)
    simp only [List.mem_singleton, Prod.mk.injEq] at this
    obtain ⟨rfl, rfl⟩ := this
    simp
  · rfl
  · simp [hde]

theorem eq_iff_sem_same_vars (p q : Poly R) (hp : WF p) (hq : WF q) (hv : p.vars = q.vars) :
    polyEq p q = true ↔ sem p = sem q :=
  ⟨eq_sound p q hp hq, eq_complete_same_vars p q hp hq hv⟩

/-! ### commutativity at object level (same variable set, `__eq__`) -/

/-- a strictly increasing list is determined by its members -/
theorem sorted_ext {s t : List Var} (hs : s.Pairwise (· < ·)) (ht : t.Pairwise (· < ·))
    (h : ∀ x, x ∈ s ↔ x ∈ t) : s = t := by
  have hp : s.Perm t := (List.perm_ext_iff_of_nodup (hs.imp (fun h => Nat.ne_of_lt h))
    (ht.imp (fun h => Nat.ne_of_lt h))).mpr h
  exact hp.eq_of_pairwise (fun a b _ _ h1 h2 => absurd h1 (Nat.lt_asymm h2)) hs ht

/-- the union of the variable sets does not depend on the operand order -/
theorem merge_comm (s1 s2 : List Var) (h1 : s1.Pairwise (· < ·)) (h2 : s2.Pairwise (· < ·)) :
    merge s1 s2 = merge s2 s1 :=
  sorted_ext (sorted_merge s1 s2 h1 h2) (sorted_merge s2 s1 h2 h1)
    (fun x => by rw [mem_merge, mem_merge, or_comm])

/-- `a + b` and `b + a` are `__eq__` objects (same variable set, `polyEq` true) -/
theorem add_comm_eq (a b : Poly R) (ha : WF a) (hb : WF b) :
    ∃ r s, addPoly a b = .ok r ∧ addPoly b a = .ok s ∧ r.vars = s.vars ∧ polyEq r s = true := by
  obtain ⟨r, hr, wr, vr, sr⟩ := add_sem a b ha hb
  obtain ⟨s, hs, ws, vs, ss⟩ := add_sem b a hb ha
  have hv : r.vars = s.vars := by rw [vr, vs, merge_comm _ _ ha.sorted hb.sorted]
  exact ⟨r, s, hr, hs, hv, eq_complete_same_vars r s wr ws hv (by rw [sr, ss, add_comm])⟩

/-- `a * b` and `b * a` are `__eq__` objects -/
theorem mul_comm_eq [NoZeroDivisors R] (a b : Poly R) (ha : WF a) (hb : WF b) :
    ∃ r s, mulPoly a b = .ok r ∧ mulPoly b a = .ok s ∧ r.vars = s.vars ∧ polyEq r s = true := by
  obtain ⟨r, hr, wr, vr, sr⟩ := mul_sem a b ha hb
  obtain ⟨s, hs, ws, vs, ss⟩ := mul_sem b a hb ha
  have hv : r.vars = s.vars := by rw [vr, vs, merge_comm _ _ ha.sorted hb.sorted]
  exact ⟨r, s, hr, hs, hv, eq_complete_same_vars r s wr ws hv (by rw [sr, ss, mul_comm])⟩

/-- Two constants are `__eq__` whatever their variable sets (the case behind defect D2: equal
    objects whose `__hash__` mixes in the variable names). -/
theorem eq_const_any_vars (v w : List Var) (c : R) :
    polyEq (⟨v, [(List.replicate v.length 0, c)]⟩ : Poly R) ⟨w, [(List.replicate w.length 0, c)]⟩ = true := by
  simp [polyEq, polyEqWith, isZeroVec]

/-- The statement one would like (`__eq__` decides equality of the denoted polynomials across
    arbitrary variable sets).  It is false, see `eq_full_fails`. -/
def C22_eq_full : Prop :=
  ∀ p q : Poly Int, WF p → WF q → (polyEq p q = true ↔ sem p = sem q)

def wX : Poly Int := ⟨[0], [([1], 1)]⟩
def wXover01 : Poly Int := ⟨[0, 1], [([1, 0], 1)]⟩
def w3X : Poly Int := ⟨[0], [([1], 3)]⟩
def w3 : Poly Int := ⟨[0], [([0], 3)]⟩

theorem wf_wX : WF wX := ⟨by simp [wX], ⟨by simp [LenOk, wX], by simp [NoZero, wX], by simp [keys, wX]⟩⟩
theorem wf_wXover01 : WF wXover01 :=
  ⟨by simp [wXover01], ⟨by simp [LenOk, wXover01], by simp [NoZero, wXover01], by simp [keys, wXover01]⟩⟩
theorem wf_w3X : WF w3X := ⟨by simp [w3X], ⟨by simp [LenOk, w3X], by simp [NoZero, w3X], by simp [keys, w3X]⟩⟩
theorem wf_w3 : WF w3 := ⟨by simp [w3], ⟨by simp [LenOk, w3], by simp [NoZero, w3], by simp [keys, w3]⟩⟩

/-- Known limitation (the `TODO` in `__eq__`): `x` over `{x}` and `x` over `{x, y}` are the same
    polynomial but not `__eq__`. -/
theorem eq_incomplete_witness : sem wX = sem wXover01 ∧ polyEq wX wXover01 = false := by
  constructor
  · simp [sem, wX, wXover01]
  · decide

theorem eq_full_fails : ¬ C22_eq_full := by
  intro h
  have := (h wX wXover01 wf_wX wf_wXover01).mpr eq_incomplete_witness.1
  rw [eq_incomplete_witness.2] at this
  exact Bool.false_ne_true this

/-- Defect in the library as it is (`||`): `3*x` and the constant `3` compare equal. -/
theorem eqOrig_unsound_witness : polyEqOrig w3X w3 = true ∧ sem w3X ≠ sem w3 := by
  constructor
  · decide
  · intro h
    have hc := congrArg (eval (fun _ => (2 : Int))) h
    norm_num [sem, w3X, w3, eval_monomial] at hc
    omega

/-- the repaired `__eq__` tells them apart -/
example : polyEq w3X w3 = false := by decide

/-! ## the same results for the instances the driver runs (`Int` coefficients) -/

theorem mint_add_sem (a b : Poly Int) (ha : WF a) (hb : WF b) :
    ∃ r, addPoly a b = .ok r ∧ WF r ∧ r.vars = merge a.vars b.vars ∧ sem r = sem a + sem b :=
  add_sem a b ha hb
theorem mint_sub_sem (a b : Poly Int) (ha : WF a) (hb : WF b) :
    ∃ r, subPoly a b = .ok r ∧ WF r ∧ r.vars = merge a.vars b.vars ∧ sem r = sem a - sem b :=
  sub_sem a b ha hb
theorem mint_mul_sem (a b : Poly Int) (ha : WF a) (hb : WF b) :
    ∃ r, mulPoly a b = .ok r ∧ WF r ∧ r.vars = merge a.vars b.vars ∧ sem r = sem a * sem b :=
  mul_sem a b ha hb
theorem mint_neg_sem (a : Poly Int) (ha : WF a) :
    WF (negPoly a) ∧ (negPoly a).vars = a.vars ∧ sem (negPoly a) = - sem a :=
  neg_sem a ha
theorem mint_pow_sem (a : Poly Int) (n : Nat) (ha : WF a) :
    ∃ r, powPoly a n = .ok r ∧ WF r ∧ r.vars = a.vars ∧ sem r = sem a ^ n :=
  pow_sem a n ha
theorem mint_eval_sem (p : Poly Int) (vals : List (Var × Int)) (hp : WF p)
    (hv : ∀ v ∈ p.vars, (lookupVal vals v).isSome) :
    evalPoly p vals = .ok (eval (valFn vals) (sem p)) :=
  eval_sem p vals hp hv
theorem mint_fromDict_sem (v : List Var) (d : Dict Int) (hv : v.Nodup) (hd : KeysOk v.length d) :
    ∃ p, fromDict v d = .ok p ∧ WF p ∧ p.vars = sortVars v ∧ (∀ x, x ∈ p.vars ↔ x ∈ v) ∧
      sem p = dictMv v d :=
  fromDict_sem v d hv hd
theorem mint_eq_sound (p q : Poly Int) (hp : WF p) (hq : WF q) (h : polyEq p q = true) : sem p = sem q :=
  eq_sound p q hp hq h

/-! ## non-vacuity: the hypotheses hold on concrete, non-trivial objects -/

def exA : Poly Int := ⟨[0, 2], [([1, 0], 3), ([0, 2], -1)]⟩      -- 3*x0 - x2^2
def exB : Poly Int := ⟨[1, 2], [([0, 2], 1), ([1, 1], 5)]⟩       -- x2^2 + 5*x1*x2

theorem wf_exA : WF exA := ⟨by simp [exA], ⟨by simp [LenOk, exA], by simp [NoZero, exA], by simp [keys, exA]⟩⟩
theorem wf_exB : WF exB := ⟨by simp [exB], ⟨by simp [LenOk, exB], by simp [NoZero, exB], by simp [keys, exB]⟩⟩

example : ∃ r, addPoly exA exB = .ok r ∧ WF r ∧ r.vars = [0, 1, 2] ∧ sem r = sem exA + sem exB := by
  obtain ⟨r, h1, h2, h3, h4⟩ := mint_add_sem exA exB wf_exA wf_exB
  exact ⟨r, h1, h2, by rw [h3]; decide, h4⟩
-- the cancellation `-x2^2 + x2^2` really happens in the model
example : (addPoly exA exB).toOption.map (fun r => r.dict.length) = some 2 := by decide
example : ∃ r, mulPoly exA exB = .ok r ∧ WF r ∧ sem r = sem exA * sem exB := by
  obtain ⟨r, h1, h2, _, h4⟩ := mint_mul_sem exA exB wf_exA wf_exB
  exact ⟨r, h1, h2, h4⟩
example : ∃ r, powPoly exA 0 = .ok r ∧ sem r = 1 := by
  obtain ⟨r, h1, _, _, h4⟩ := mint_pow_sem exA 0 wf_exA
  exact ⟨r, h1, by simpa using h4⟩
example : evalPoly exA [(2, 4), (0, 5)] = .ok (-1) := by decide
example : ∀ v ∈ exA.vars, (lookupVal [(2, (4 : Int)), (0, 5)] v).isSome := by decide
example : (fromDict [2, 0] ([([2, 1], 7), ([0, 0], 0)] : Dict Int)).toOption.map (fun p => (p.vars, p.dict))
    = some ([0, 2], [([1, 2], 7)]) := by decide
example : KeysOk 2 ([([2, 1], 7), ([0, 0], 0)] : Dict Int) := ⟨by simp [LenOk], by simp [keys]⟩

end SymVerif.C22
