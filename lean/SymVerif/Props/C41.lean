import SymVerif.Lemmas.C41
import SymVerif.Gen.Statics
/-!
C41 (partial): in the thread-safe build, shared expressions are race-free at the level of the two
fields that are ever written after construction (`hash_`, `refcount_`).

Every theorem quantifies over **all** initial configurations accepted by the decidable predicate
`wf0` (any number of nodes and threads, any thread programs) and over **every schedule** (any list of
thread ids, any length), for the same `Conc.step` the driver `drv_c41` runs.

Not covered by theorems (only by the source scan of tools/extract/c41_statics.py and the
ThreadSanitizer exploration): that no *other* memory is written by the read-only operations, i.e.
that the model's `read` is a faithful summary of compare/print/diff/subs/expand.
-/
namespace SymVerif.C41
open SymVerif.Conc

/-- decidable well-formedness of an initial configuration: caches empty or correct, counters equal
    to the number of references the threads start with, threads at their first operation -/
def wf0 (s : State) : Bool :=
  s.nodes.all (fun n => (n.hash == 0 || n.hash == n.H) && (!n.live || decide (0 < n.count))) &&
  (List.range s.nodes.length).all (fun o => totalHeld s o == cnt s o) &&
  s.threads.all (fun t => t.held.all (fun o => decide (o < s.nodes.length)) && t.past.isEmpty && t.results.isEmpty
    && t.fault.isNone && t.phase == .idle)

theorem sum_map_zero {α : Type} (f : α → Nat) : ∀ (l : List α), (∀ x ∈ l, f x = 0) → (l.map f).sum = 0 := by
  intro l
  induction l with
  | nil => intro _; rfl
  | cons a as ih =>
    intro h
    simp only [List.map_cons, List.sum_cons]
    rw [h a (by simp), ih (fun x hx => h x (by simp [hx]))]

theorem wf0_inv (s : State) (h : wf0 s = true) : Inv s s := by
  unfold wf0 at h
  simp only [Bool.and_eq_true, List.all_eq_true] at h
  obtain ⟨⟨hn, hc⟩, ht⟩ := h
  refine ⟨?_, ?_, ?_, ?_, rfl, ?_⟩
  · intro o n hm; exact ⟨n, hm, rfl, rfl⟩
  · intro o n hm
    have := (hn n (List.mem_of_getElem? hm)).1
    simp at this; exact this
  · intro o
    by_cases ho : o < s.nodes.length
    · have := hc o (by simp [ho])
      simpa using this
    · have h1 : cnt s o = 0 := by
        unfold cnt
        have : s.nodes[o]? = none := List.getElem?_eq_none (by omega)
        simp [this]
      rw [h1]
      unfold totalHeld
      apply sum_map_zero
      intro t htm
      apply List.count_eq_zero.mpr
      intro hmem
      have := (ht t htm)
      have hlt : o < s.nodes.length := by simpa using this.1.1.1.1 o hmem
      omega
  · intro o n hm hl
    have := (hn n (List.mem_of_getElem? hm)).2
    simpa [hl] using this
  · intro tid t htm
    have := ht t (List.mem_of_getElem? htm)
    obtain ⟨⟨⟨⟨_, hp⟩, hr⟩, hf⟩, hph⟩ := this
    have hp' : t.past = [] := by simpa using hp
    have hr' : t.results = [] := by simpa using hr
    have hf' : t.fault = none := by simpa using hf
    have hph' : t.phase = .idle := by simpa using hph
    refine ⟨Or.inl hf', by rw [hp', hr']; rfl, ⟨t, htm, by rw [hp']; rfl⟩, ?_⟩
    intro o rest n _ hq _
    rw [hph'] at hq; cases hq

theorem reach (s0 : State) (h : wf0 s0 = true) (sched : List Nat) : Inv s0 (runSched true s0 sched) :=
  run_inv s0 sched s0 (wf0_inv s0 h)

/-- **hash_inv**: under every schedule the cache field of every node is `0` or the true hash `H`,
    and a thread that is about to return from `hash()` reads `H`. -/
theorem hash_inv (s0 : State) (h : wf0 s0 = true) (sched : List Nat) :
    (∀ (o : Nat) (n : Node), (runSched true s0 sched).nodes[o]? = some n → n.hash = 0 ∨ n.hash = n.H) ∧
    (∀ (tid : Nat) (t : Thread) (o : Nat) (rest : List TOp) (n : Node),
      (runSched true s0 sched).threads[tid]? = some t → t.prog = .hash o :: rest → t.phase = .hashHit →
      (runSched true s0 sched).nodes[o]? = some n → n.hash = n.H) := by
  have i := reach s0 h sched
  exact ⟨i.hashv, fun tid t o rest n ht hp hph hn => (i.thr tid t ht).2.2.2 o rest n hp hph hn⟩

/-- **rc_inv_conc**: under every schedule the counter of every node equals the number of references
    held by all threads; every node a thread holds exists and has not been freed; and no thread ever
    touches a freed object or underflows a counter (the only possible fault is an ill-formed program). -/
theorem rc_inv_conc (s0 : State) (h : wf0 s0 = true) (sched : List Nat) :
    (∀ o, totalHeld (runSched true s0 sched) o = cnt (runSched true s0 sched) o) ∧
    (∀ (tid : Nat) (t : Thread), (runSched true s0 sched).threads[tid]? = some t →
      (∀ o ∈ t.held, ∃ n, (runSched true s0 sched).nodes[o]? = some n ∧ n.live = true ∧ 0 < n.count) ∧
      (t.fault = none ∨ t.fault = some .notHeld)) := by
  have i := reach s0 h sched
  refine ⟨i.counts, ?_⟩
  intro tid t ht
  refine ⟨?_, (i.thr tid t ht).1⟩
  intro o ho
  exact i.held_live ht (by simpa using ho)

/-- **results_seq**: under every schedule each thread's results so far are exactly the results of
    running its completed operations alone (`hash` gives `H`, `read` gives the immutable content);
    a thread that has finished has exactly its sequential results. -/
theorem results_seq (s0 : State) (h : wf0 s0 = true) (sched : List Nat) (tid : Nat) (t : Thread)
    (ht : (runSched true s0 sched).threads[tid]? = some t) :
    ∃ t0, s0.threads[tid]? = some t0 ∧ t.results = seqResults s0.nodes t.past ∧ t.past ++ t.prog = t0.prog ∧
      (t.prog = [] → t.results = seqResults s0.nodes t0.prog) := by
  have i := reach s0 h sched
  obtain ⟨_, hr, ⟨t0, h0, hp⟩, _⟩ := i.thr tid t ht
  refine ⟨t0, h0, hr, hp, ?_⟩
  intro he
  rw [he] at hp
  simp at hp
  rw [← hp]; exact hr

/-! ### non-vacuity -/

/-- two shared nodes, two threads each holding one reference to both -/
def demo0 : State :=
  { nodes := [{ val := 7, H := 41, hash := 0, count := 2, live := true },
              { val := 9, H := 43, hash := 0, count := 2, live := true }],
    threads := [mkThread [.hash 0, .copy 1, .read 1, .drop 1, .drop 1, .hash 0, .drop 0] [0, 1],
                mkThread [.hash 0, .hash 1, .copy 0, .drop 0, .read 0, .drop 1, .drop 0] [0, 1]] }

example : wf0 demo0 = true := by decide

/-- an interleaving in which both threads miss the cache of node 0 and both store it -/
def demoSched : List Nat := [0, 1, 0, 1, 0, 1] ++ List.replicate 12 1 ++ List.replicate 12 0

example : ((runSched true demo0 demoSched).threads.map (fun t => (t.results, t.prog.length, t.fault))) =
    [([41, 9, 41], 0, none), ([41, 43, 7], 0, none)] := by decide
example : ((runSched true demo0 demoSched).nodes.map (fun n => (n.hash, n.count, n.live))) =
    [(41, 0, false), (43, 0, false)] := by decide

/-- **The non-atomic build is racy** (so the theorems above are not vacuous): with `++` compiled as
    load + store, two concurrent copies lose an update — the counter says 3 while 4 references exist. -/
def racy0 : State :=
  { nodes := [{ val := 7, H := 41, hash := 0, count := 2, live := true }],
    threads := [mkThread [.copy 0, .drop 0, .drop 0] [0], mkThread [.copy 0, .drop 0, .read 0] [0]] }

theorem nonatomic_lost_update :
    wf0 racy0 = true ∧ totalHeld (runSched false racy0 [0, 1, 0, 1]) 0 = 4 ∧ cnt (runSched false racy0 [0, 1, 0, 1]) 0 = 3 := by
  decide

/-- … and the lost update ends in a use after free: thread 0 releases its two references, thread 1
    releases one of its two (the count reaches 0 although a reference exists, the node is deleted)
    and then reads the node through the reference it still legitimately holds. -/
theorem nonatomic_use_after_free :
    ((runSched false racy0 ([0, 1, 0, 1] ++ [0, 0, 0, 0] ++ [1, 1, 1])).threads.map (fun t => t.fault)) =
      [none, some .uaf] := by
  decide

/-- the same schedule on the thread-safe build is fine -/
example : ((runSched true racy0 ([0, 1, 0, 1] ++ [0, 0, 0, 0] ++ [1, 1, 1])).threads.map (fun t => t.fault)) =
    [none, none] := by decide

/-! ### source tie (regenerated by tools/extract/c41_statics.py on every run) -/

/-- In the scanned source the two written fields are `std::atomic` under `WITH_SYMENGINE_THREAD_SAFE`,
    every dictionary steal is compiled out there, and every mutable static object of the library is on
    the justified allow-list. -/
theorem statics_ok :
    SymVerif.Gen.Statics.refcountAtomic = true ∧ SymVerif.Gen.Statics.hashAtomic = true ∧
    SymVerif.Gen.Statics.stealCompiledOut = true ∧
    ∀ x ∈ SymVerif.Gen.Statics.mutableStatics, x ∈ SymVerif.Gen.Statics.allowList := by
  decide

end SymVerif.C41
