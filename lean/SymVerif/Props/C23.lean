import SymVerif.Lemmas.C23Factor
import SymVerif.Lemmas.C23Sqf

/-!
# C23 — finite-field polynomial arithmetic and factorisation

Model: `SymVerif.Model.GF` (mirror of `symengine/fields.{h,cpp}`, `GaloisFieldDict`).
Abstraction: `toPoly p : List ℕ → (ZMod p)[X]` (coefficient vector, lowest exponent first).
Class invariant: `GF.WF p l` (all coefficients `< p`, no trailing zero).

All theorems are about the functions the driver `Drv/C23.lean` runs, for every prime `p`
(`[Fact p.Prime]`) and all well-formed operands (what `from_vec` produces: `wf_fromVec`).

What is proved: ring operations, eval, derivative, monic, division with remainder
(`gf_div`, `operator/=`, `operator%=`), gcd, lcm, powers, modular powers, modular composition,
preservation of the class invariant by every one of them, and soundness of the two executable
certificate checks the driver applies to every square-free / full factorisation it prints
(`checkMulBack` : multiply-back and monic; `irreducibleBrute` : irreducibility by exhaustive
trial division).  What is *not* proved is that `gf_sqf_list` / `gf_factor` always produce
outputs that pass those checks (`C23_full`); the checks are re-run on every generated case.
-/
namespace SymVerif.C23
open Polynomial SymVerif.GF

variable {p : ℕ}

/-! ## the class invariant is established by `from_vec` and preserved by every operation -/

theorem fromVec_wf (hp : 0 < p) (v : List ℤ) : WF p (fromVec p v) := wf_fromVec hp v
theorem add_wf (hp : 0 < p) {a b : Poly} (ha : WF p a) (hb : WF p b) : WF p (add p a b) := wf_add hp ha hb
theorem sub_wf (hp : 0 < p) {a b : Poly} (ha : WF p a) (hb : WF p b) : WF p (sub p a b) := wf_sub hp ha hb
theorem neg_wf {a : Poly} (ha : WF p a) : WF p (neg p a) := wf_neg ha
theorem mul_wf (hp : 0 < p) {a b : Poly} (ha : WF p a) (hb : WF p b) : WF p (mul p a b) := wf_mul hp ha hb
theorem mulAssign_wf (hp : 0 < p) {a b : Poly} (ha : WF p a) (hb : WF p b) : WF p (mulAssign p a b) :=
  wf_mulAssign hp ha hb
theorem sqr_wf (hp : 0 < p) {a : Poly} (ha : WF p a) : WF p (sqr p a) := wf_sqr hp ha
theorem addConst_wf (hp : 0 < p) {a : Poly} (ha : WF p a) (c : ℤ) : WF p (addConst p a c) := wf_addConst hp ha c
theorem scale_wf (hp : 0 < p) {a : Poly} (ha : WF p a) (c : ℕ) : WF p (scale p a c) := wf_scale hp ha c
theorem diff_wf (hp : 0 < p) (a : Poly) : WF p (diff p a) := wf_diff hp a
theorem pow_wf [Fact p.Prime] {a : Poly} (ha : WF p a) (n : ℕ) : WF p (GF.pow p a n) := (pow_spec' ha n).2
theorem monic_wf [Fact p.Prime] {a : Poly} (ha : WF p a) : WF p (monic p a).2 := wf_monic ha
theorem quo_wf [Fact p.Prime] {a b : Poly} (ha : WF p a) (hb : WF p b) (hb0 : b ≠ []) : WF p (quo p a b) :=
  wf_quo ha hb hb0
theorem rem_wf [Fact p.Prime] {a b : Poly} (ha : WF p a) (hb : WF p b) (hb0 : b ≠ []) : WF p (rem p a b) :=
  wf_rem ha hb hb0
theorem gcd_wf [Fact p.Prime] {a b : Poly} (ha : WF p a) (hb : WF p b) : WF p (GF.gcd p a b) := (gcd_spec' ha hb).1
theorem powMod_wf [Fact p.Prime] {m f : Poly} (hm : WF p m) (hm0 : m ≠ []) (hf : WF p f) (n : ℕ) :
    WF p (powMod p m f n) := (powMod_spec' hm hm0 hf n).2.1
theorem composeMod_wf [Fact p.Prime] {f g h : Poly} (hf : WF p f) (hf0 : f ≠ []) (hg : WF p g) (hh : WF p h) :
    WF p (composeMod p f g h) := (composeMod_spec' hf hf0 hg hh).2

/-- the invariant pins the representation: equal polynomials have equal coefficient vectors -/
theorem toPoly_injective {a b : Poly} (ha : WF p a) (hb : WF p b) (h : toPoly p a = toPoly p b) : a = b :=
  toPoly_injective' ha hb h

/-! ## ring operations, evaluation, derivative -/

theorem add_spec (a b : Poly) : toPoly p (add p a b) = toPoly p a + toPoly p b := toPoly_add a b
theorem sub_spec (hp : 0 < p) (a : Poly) {b : Poly} (hb : WF p b) :
    toPoly p (sub p a b) = toPoly p a - toPoly p b := toPoly_sub hp a hb.1
theorem neg_spec {a : Poly} (ha : WF p a) : toPoly p (neg p a) = -toPoly p a := toPoly_neg ha.1
theorem mul_spec (a b : Poly) : toPoly p (mul p a b) = toPoly p a * toPoly p b := toPoly_mul a b
theorem mulAssign_spec (a b : Poly) : toPoly p (mulAssign p a b) = toPoly p a * toPoly p b := toPoly_mulAssign a b
theorem sqr_spec (a : Poly) : toPoly p (sqr p a) = toPoly p a ^ 2 := by rw [toPoly_sqr, pow_two]
theorem addConst_spec (hp : 0 < p) (a : Poly) (c : ℤ) :
    toPoly p (addConst p a c) = toPoly p a + C (c : ZMod p) := toPoly_addConst hp a c
theorem scale_spec (a : Poly) (c : ℕ) : toPoly p (scale p a c) = C (c : ZMod p) * toPoly p a := toPoly_scale a c
theorem pow_spec [Fact p.Prime] {a : Poly} (ha : WF p a) (n : ℕ) : toPoly p (GF.pow p a n) = toPoly p a ^ n :=
  (pow_spec' ha n).1
/-- `gf_eval` (for every integer point, also negative ones where the C++ returns a negative
    representative): the value is congruent to the evaluation in `ZMod p` -/
theorem eval_spec' (a : Poly) (x : ℤ) :
    ((GF.eval p a x : ℤ) : ZMod p) = Polynomial.eval (x : ZMod p) (toPoly p a) := eval_spec a x
theorem diff_spec (a : Poly) : toPoly p (diff p a) = derivative (toPoly p a) := toPoly_diff a

example : toPoly 7 (mul 7 [1, 2, 3] [4, 5]) = toPoly 7 [1, 2, 3] * toPoly 7 [4, 5] := mul_spec _ _
example : WF 7 (sub 7 [1, 2, 3] [4, 5, 3]) := sub_wf (by decide) (by decide) (by decide)

/-! ## monic, division with remainder, gcd, lcm -/

/-- `gf_monic` : leading coefficient, and the monic associate -/
theorem monic_spec [Fact p.Prime] {a : Poly} (ha : WF p a) (ha0 : a ≠ []) :
    (monic p a).1 = a.getLastD 0 ∧
    toPoly p a = C ((monic p a).1 : ZMod p) * toPoly p (monic p a).2 ∧
    (toPoly p (monic p a).2).Monic := by
  obtain ⟨h1, h2, _, h4, _⟩ := monic_spec' ha ha0
  refine ⟨h1, ?_, h4⟩
  rw [h2, h1, ← mul_assoc, ← C_mul, mul_inv_cancel₀ (getLastD_cast_ne_zero ha ha0)]; simp

/-- `gf_div` : `a = q * b + r` and `r = 0 ∨ deg r < deg b` -/
theorem divmod_spec [Fact p.Prime] {a b : Poly} (ha : WF p a) (hb : WF p b) (hb0 : b ≠ []) :
    toPoly p a = toPoly p (divmod p a b).1 * toPoly p b + toPoly p (divmod p a b).2 ∧
    (toPoly p (divmod p a b).2 = 0 ∨ (toPoly p (divmod p a b).2).degree < (toPoly p b).degree) ∧
    WF p (divmod p a b).1 ∧ WF p (divmod p a b).2 := by
  obtain ⟨h1, h2, h3, h4⟩ := divmod_spec' ha hb hb0
  exact ⟨h1, Or.inr (degree_lt_of_length_lt h3 hb h4), h2, h3⟩

/-- `operator/=` and `operator%=` -/
theorem quo_rem_spec' [Fact p.Prime] {a b : Poly} (ha : WF p a) (hb : WF p b) (hb0 : b ≠ []) :
    toPoly p a = toPoly p (quo p a b) * toPoly p b + toPoly p (rem p a b) ∧
    (toPoly p (rem p a b)).degree < (toPoly p b).degree :=
  ⟨toPoly_quo_rem ha hb hb0, degree_rem_lt ha hb hb0⟩

/-- the public entry points return `DivisionByZeroError` exactly for the zero divisor -/
theorem opDivmod_error (a b : Poly) : opDivmod p a b = .error .divByZero ↔ b = [] := by
  unfold opDivmod
  cases b <;> simp

/-- `gf_gcd` : a common divisor, divisible by every common divisor, monic (unless both are 0) -/
theorem gcd_spec [Fact p.Prime] {f g : Poly} (hf : WF p f) (hg : WF p g) :
    toPoly p (GF.gcd p f g) ∣ toPoly p f ∧ toPoly p (GF.gcd p f g) ∣ toPoly p g ∧
    (∀ c, c ∣ toPoly p f → c ∣ toPoly p g → c ∣ toPoly p (GF.gcd p f g)) ∧
    ((f ≠ [] ∨ g ≠ []) → (toPoly p (GF.gcd p f g)).Monic) := by
  obtain ⟨_, h2, h3, h4, h5, _⟩ := gcd_spec' hf hg
  exact ⟨h2, h3, h4, fun h => (h5 h).1⟩

/-- `gf_lcm` : a monic common multiple with `gcd * lcm = k * a * b` for a non-zero constant `k` -/
theorem lcm_spec [Fact p.Prime] {a o : Poly} (ha : WF p a) (ho : WF p o) (ha0 : a ≠ []) (ho0 : o ≠ []) :
    WF p (GF.lcm p a o) ∧ (toPoly p (GF.lcm p a o)).Monic ∧
    toPoly p a ∣ toPoly p (GF.lcm p a o) ∧ toPoly p o ∣ toPoly p (GF.lcm p a o) ∧
    ∃ k : ZMod p, k ≠ 0 ∧
      toPoly p (GF.gcd p a o) * toPoly p (GF.lcm p a o) = C k * (toPoly p a * toPoly p o) :=
  lcm_spec' ha ho ha0 ho0

instance fact7 : Fact (Nat.Prime 7) := ⟨by decide⟩

example : toPoly 7 [1, 2, 3, 4, 5] = toPoly 7 (divmod 7 [1, 2, 3, 4, 5] [2, 3]).1 * toPoly 7 [2, 3]
    + toPoly 7 (divmod 7 [1, 2, 3, 4, 5] [2, 3]).2 :=
  (divmod_spec (p := 7) (a := [1, 2, 3, 4, 5]) (b := [2, 3]) (by decide) (by decide) (by decide)).1
example : toPoly 7 (GF.gcd 7 [6, 0, 1] [1, 2, 1]) ∣ toPoly 7 [6, 0, 1] :=
  (gcd_spec (p := 7) (f := [6, 0, 1]) (g := [1, 2, 1]) (by decide) (by decide)).1

/-- `gf_is_sqf` decides square-freeness (non-zero input) -/
theorem isSqf_spec [Fact p.Prime] {a : Poly} (ha : WF p a) (ha0 : a ≠ []) :
    isSqf p a = true ↔ Squarefree (toPoly p a) := isSqf_iff ha ha0

/-! ## modular powers and modular composition -/

/-- `gf_pow_mod` : `m ∣ result - f^n`, and the result is reduced (shorter than `m`) for `n ≥ 1` -/
theorem pow_mod_spec [Fact p.Prime] {m f : Poly} (hm : WF p m) (hm0 : m ≠ []) (hf : WF p f) (n : ℕ) :
    toPoly p m ∣ toPoly p (powMod p m f n) - toPoly p f ^ n ∧
    (1 ≤ n → (powMod p m f n).length < m.length) :=
  ⟨(powMod_spec' hm hm0 hf n).1, (powMod_spec' hm hm0 hf n).2.2⟩

/-- `gf_compose_mod` (with `operator+=(integer)` as patched) : `f ∣ result - g(h)` -/
theorem compose_mod_spec [Fact p.Prime] {f g h : Poly} (hf : WF p f) (hf0 : f ≠ []) (hg : WF p g) (hh : WF p h) :
    toPoly p f ∣ toPoly p (composeMod p f g h) - (toPoly p g).comp (toPoly p h) :=
  (composeMod_spec' hf hf0 hg hh).1

example : toPoly 7 [1, 0, 1] ∣ toPoly 7 (powMod 7 [1, 0, 1] [2, 3] 5) - toPoly 7 [2, 3] ^ 5 :=
  (pow_mod_spec (p := 7) (m := [1, 0, 1]) (f := [2, 3]) (by decide) (by decide) (by decide) 5).1

/-- The unpatched `operator+=(const integer_class&)` (defect D-C23-1) loses the constant on the zero
    polynomial: the witness on which `gf_compose_mod` goes wrong. -/
theorem addConstOrig_defect : addConstOrig 5 [] 1 = [] ∧ addConst 5 [] 1 = [1] := by decide

/-! ## factorisation: proven-sound certificates, re-checked on every generated case -/

/-- irreducibility over GF(p), by definition -/
def IsIrreducibleGF (p : ℕ) (g : Poly) : Prop := Irreducible (toPoly p g)

/-- a correct full factorisation of `a` -/
def IsFactorisation (p : ℕ) (a : Poly) (lc : ℕ) (fs : List (Poly × ℕ)) : Prop :=
  toPoly p a = C (lc : ZMod p) * (fs.map (fun x => toPoly p x.1 ^ x.2)).prod ∧
  ∀ x ∈ fs, (toPoly p x.1).Monic ∧ IsIrreducibleGF p x.1

/-- `checkMulBack` accepts only genuine multiply-back identities with monic, well-formed parts -/
theorem checkMulBack_sound [Fact p.Prime] (a : Poly) (lc : ℕ) (fs : List (Poly × ℕ))
    (h : checkMulBack p a lc fs = true) :
    toPoly p a = C (lc : ZMod p) * (fs.map (fun x => toPoly p x.1 ^ x.2)).prod ∧
      ∀ x ∈ fs, (toPoly p x.1).Monic ∧ WF p x.1 := checkMulBack_sound' a lc fs h

/-- `irreducibleBrute` accepts only irreducible polynomials -/
theorem irreducibleBrute_sound [Fact p.Prime] {g : Poly} (hw : WF p g) (h : irreducibleBrute p g = true) :
    IsIrreducibleGF p g := irreducibleBrute_sound' hw h

/-- what the driver's `#ok` / `#irr` flags on a `factor` line certify -/
theorem factor_certificate_partial [Fact p.Prime] (a : Poly) (lc : ℕ) (fs : List (Poly × ℕ))
    (h1 : checkMulBack p a lc fs = true) (h2 : fs.all (fun x => irreducibleBrute p x.1) = true) :
    IsFactorisation p a lc fs := by
  obtain ⟨e, hm⟩ := checkMulBack_sound a lc fs h1
  refine ⟨e, fun x hx => ⟨(hm x hx).1, irreducibleBrute_sound (hm x hx).2 ?_⟩⟩
  exact (List.all_eq_true.mp h2) x hx

example : checkMulBack 7 [2, 1, 3, 1, 1] 1 [([4, 1], 2), ([1, 0, 1], 1)] = true := by decide
example : irreducibleBrute 3 [2, 1, 1] = true := by decide

/-- The full statement (not proved): for every random stream the model's `gf_factor` either fails
    with an explicit error or returns a correct factorisation into monic irreducibles, and
    `gf_sqf_list` multiplies back to the monic associate.  Proved: everything up to here; the
    certificates above are evaluated by the driver on every case the harness generates. -/
def C23_full : Prop :=
  ∀ (p : ℕ) [Fact p.Prime] (rnd : ℕ → ℕ) (a : Poly) (lc : ℕ) (fs : List (Poly × ℕ)),
    WF p a → factor p rnd a = .ok (lc, fs) → IsFactorisation p a lc fs

end SymVerif.C23
