/-
C07  Arithmetic construction preserves mathematical value — certificate checking.

The real library computes `R = op(A, B, …)`.  The driver (`Drv/C07.lean`) prints
`ok` exactly when `C07.judge op args R = .ok`, which implies `C07.accepts op args R`.
This file proves: an accepted result has, for **every** field `K` of
characteristic 0, every square root `I` of -1 in `K` and every assignment `ρ` of
values to the atoms, the value `op` applied to the operand values — whenever
operands, operation and result are defined (`denote … = some w`: operands in the
exact integer-exponent fragment without poles at `ρ`, divisor ≠ 0, base ≠ 0 under
a negative exponent).

Radicals / non-integer exponents are outside this fragment (`C07_full`).
-/
import Mathlib.Data.Complex.Basic
import SymVerif.Lemmas.NFSound
import SymVerif.Model.C07Check

namespace SymVerif
namespace C07

open NF
open Classical

section
variable {K : Type*} [Field K] (I : K) (ρ : String → K)

/-! ### the mathematical meaning of one constructor call -/

noncomputable def sumK : List Expr → Option K
  | [] => some 0
  | a :: t => add2 (evalK I ρ a) (sumK t)

noncomputable def prodK : List Expr → Option K
  | [] => some 1
  | a :: t => mul2 (evalK I ρ a) (prodK t)

noncomputable def neg1 : Option K → Option K
  | some a => some (-a)
  | none => none

/-- `a / b`, undefined for `b = 0` -/
noncomputable def div2 : Option K → Option K → Option K
  | some a, some b => if b = 0 then none else some (a / b)
  | _, _ => none

/-- value of `op` applied to the values of the operands; `none` when an operand is undefined or the
operation is (division by zero, `0 ^ negative`) -/
noncomputable def denote : Op → List Expr → Option K
  | .add, [a, b] => add2 (evalK I ρ a) (evalK I ρ b)
  | .sub, [a, b] => add2 (evalK I ρ a) (neg1 (evalK I ρ b))
  | .mul, [a, b] => mul2 (evalK I ρ a) (evalK I ρ b)
  | .div, [a, b] => div2 (evalK I ρ a) (evalK I ρ b)
  | .neg, [a] => neg1 (evalK I ρ a)
  | .pow, [a, .int n] => (evalK I ρ a).bind (fun v => powVal v n)
  | .addn, as => sumK I ρ as
  | .muln, as => prodK I ρ as
  | _, _ => none

variable {I ρ}

theorem neg1_some {x : Option K} {v : K} (h : neg1 x = some v) : ∃ a, x = some a ∧ v = -a := by
  cases x <;> simp [neg1] at h
  exact ⟨_, rfl, h.symm⟩

theorem div2_some {x y : Option K} {v : K} (h : div2 x y = some v) :
    ∃ a b, x = some a ∧ y = some b ∧ b ≠ 0 ∧ v = a / b := by
  cases x <;> cases y <;> simp [div2] at h
  exact ⟨_, _, rfl, rfl, h.1, h.2.symm⟩

variable [CharZero K]

theorem sumF_sound (hI : I * I = -1) :
    ∀ (as : List Expr) (w : K), sumK I ρ as = some w → Rep I ρ (sumF as) w
  | [], w, h => by
    simp only [sumK, Option.some.injEq] at h; subst h; exact rep_zeroF I ρ
  | a :: t, w, h => by
    simp only [sumK] at h
    obtain ⟨x, y, hx, hy, rfl⟩ := add2_some h
    exact rep_addF hI (normT_sound hI a x hx) (sumF_sound hI t y hy)

theorem prodF_sound (hI : I * I = -1) :
    ∀ (as : List Expr) (w : K), prodK I ρ as = some w → Rep I ρ (prodF as) w
  | [], w, h => by
    simp only [prodK, Option.some.injEq] at h; subst h; exact rep_oneF I ρ
  | a :: t, w, h => by
    simp only [prodK] at h
    obtain ⟨x, y, hx, hy, rfl⟩ := mul2_some h
    exact rep_mulF hI (normT_sound hI a x hx) (prodF_sound hI t y hy)

/-- the recipe fraction represents the value of the operation -/
theorem recipe_sound (hI : I * I = -1) {op : Op} {args : List Expr} {f : Frac} {w : K}
    (hf : recipe op args = some f) (hw : denote I ρ op args = some w) : Rep I ρ f w := by
  revert hf
  fun_cases recipe op args <;> intro hf <;> cases hf
  · -- add
    simp only [denote] at hw
    obtain ⟨x, y, hx, hy, rfl⟩ := add2_some hw
    exact rep_addF hI (normT_sound hI _ x hx) (normT_sound hI _ y hy)
  · -- sub
    simp only [denote] at hw
    obtain ⟨x, y', hx, hy', rfl⟩ := add2_some hw
    obtain ⟨y, hy, rfl⟩ := neg1_some hy'
    rw [← sub_eq_add_neg]
    exact rep_subF hI (normT_sound hI _ x hx) (normT_sound hI _ y hy)
  · -- mul
    simp only [denote] at hw
    obtain ⟨x, y, hx, hy, rfl⟩ := mul2_some hw
    exact rep_mulF hI (normT_sound hI _ x hx) (normT_sound hI _ y hy)
  · -- div
    simp only [denote] at hw
    obtain ⟨x, y, hx, hy, hy0, rfl⟩ := div2_some hw
    exact rep_divF hI (normT_sound hI _ x hx) (normT_sound hI _ y hy) hy0
  · -- neg
    simp only [denote] at hw
    obtain ⟨x, hx, rfl⟩ := neg1_some hw
    exact rep_negF (normT_sound hI _ x hx)
  · -- pow
    simp only [denote] at hw
    obtain ⟨x, hx, hz, rfl⟩ := bind_powVal_some hw
    exact rep_powF hI (normT_sound hI _ x hx) _ hz
  · -- addn
    simp only [denote] at hw
    exact sumF_sound hI _ _ hw
  · -- muln
    simp only [denote] at hw
    exact prodF_sound hI _ _ hw

/-- **C07, certificate soundness.**  If the checker accepts `R` as the result of `op` on `args`,
then in every characteristic-0 field, for every assignment at which the operation on the operand values is
defined (`= some w`) and `R` is defined (`= some vr`), the value of `R` is the value of the operation. -/
theorem c07_certificate_sound (hI : I * I = -1) {op : Op} {args : List Expr} {r : Expr} {w vr : K}
    (hacc : accepts op args r = true)
    (hw : denote I ρ op args = some w) (hr : evalK I ρ r = some vr) : vr = w := by
  unfold accepts at hacc
  split at hacc
  · rename_i f hf
    exact equivF_sound hI (normT_sound hI r vr hr) (recipe_sound hI hf hw) hacc
  · cases hacc

end

/-- what the driver prints as `ok` has been accepted by `accepts` -/
theorem judge_ok {op : Op} {args : List Expr} {r : Expr} (h : judge op args r = .ok) :
    accepts op args r = true := by
  unfold judge at h
  split at h
  · -- pow with integer literal
    repeat' split at h
    all_goals first | assumption | cases h
  · cases h
  · repeat' split at h
    all_goals first | assumption | cases h

section
variable {K : Type*} [Field K] [CharZero K] {I : K} {ρ : String → K}

/-- **C07, driver level**: an `ok` line of the driver certifies value preservation. -/
theorem c07_driver_ok_sound (hI : I * I = -1) {op : Op} {args : List Expr} {r : Expr} {w vr : K}
    (hok : judge op args r = .ok)
    (hw : denote I ρ op args = some w) (hr : evalK I ρ r = some vr) : vr = w :=
  c07_certificate_sound hI (judge_ok hok) hw hr

/-! ### the statement unfolded for the individual constructors -/

theorem c07_add (hI : I * I = -1) {A B R : Expr} {a b r : K} (h : accepts .add [A, B] R = true)
    (hA : evalK I ρ A = some a) (hB : evalK I ρ B = some b) (hR : evalK I ρ R = some r) : r = a + b :=
  c07_certificate_sound hI h (by simp [denote, hA, hB, add2]) hR

theorem c07_sub (hI : I * I = -1) {A B R : Expr} {a b r : K} (h : accepts .sub [A, B] R = true)
    (hA : evalK I ρ A = some a) (hB : evalK I ρ B = some b) (hR : evalK I ρ R = some r) : r = a - b :=
  c07_certificate_sound hI h (by simp [denote, hA, hB, add2, neg1, sub_eq_add_neg]) hR

theorem c07_mul (hI : I * I = -1) {A B R : Expr} {a b r : K} (h : accepts .mul [A, B] R = true)
    (hA : evalK I ρ A = some a) (hB : evalK I ρ B = some b) (hR : evalK I ρ R = some r) : r = a * b :=
  c07_certificate_sound hI h (by simp [denote, hA, hB, mul2]) hR

theorem c07_div (hI : I * I = -1) {A B R : Expr} {a b r : K} (h : accepts .div [A, B] R = true)
    (hA : evalK I ρ A = some a) (hB : evalK I ρ B = some b) (hb : b ≠ 0) (hR : evalK I ρ R = some r) :
    r = a / b :=
  c07_certificate_sound hI h (by simp [denote, hA, hB, div2, hb]) hR

theorem c07_neg (hI : I * I = -1) {A R : Expr} {a r : K} (h : accepts .neg [A] R = true)
    (hA : evalK I ρ A = some a) (hR : evalK I ρ R = some r) : r = -a :=
  c07_certificate_sound hI h (by simp [denote, hA, neg1]) hR

theorem c07_pow (hI : I * I = -1) {A R : Expr} {n : Int} {a r : K} (h : accepts .pow [A, .int n] R = true)
    (hA : evalK I ρ A = some a) (ha : n < 0 → a ≠ 0) (hR : evalK I ρ R = some r) : r = a ^ n := by
  refine c07_certificate_sound hI h ?_ hR
  have : ¬(n < 0 ∧ a = 0) := fun h => ha h.1 h.2
  simp [denote, hA, powVal, this]

end

/-! ### non-vacuity: the hypotheses are satisfiable on concrete, non-trivial inputs (over ℂ) -/

/-- `x * x⁻¹` returned as `1` is accepted … -/
theorem ex_accepts : accepts .mul [.sym "x", .pow (.sym "x") (.int (-1))] (.int 1) = true := by
  simp [accepts, recipe, normT, intLit?, mulF, powF, npowF, invF, atomF, constF, equivF, patom, pone, pconst,
    ppow, pmul, pmulTerm, padd, mmul, GI.mul, GI.isZero, GI.one, GI.ofInt]

/-- … and the theorem applies at every assignment with `x ≠ 0`. -/
example (ρ : String → ℂ) (hx : ρ (Expr.dumpCanon (.sym "x")) ≠ 0) :
    ((1 : ℤ) : ℂ) = ρ (Expr.dumpCanon (.sym "x")) * ρ (Expr.dumpCanon (.sym "x")) ^ (-1 : ℤ) :=
  c07_certificate_sound (I := Complex.I) (ρ := ρ) Complex.I_mul_I ex_accepts
    (by simp [denote, evalK, intLit?, powVal, mul2, hx]) (by simp [evalK])

/-- `1/2 + 1/3` returned as `5/6` is accepted, `1/2 + 1/3` returned as `1` is not. -/
example : accepts .add [.rat 1 2, .rat 1 3] (.rat 5 6) = true
    ∧ accepts .add [.rat 1 2, .rat 1 3] (.int 1) = false := by
  constructor <;>
  simp [accepts, recipe, normT, addF, quotF, constF, equivF, pone, pconst,
    pmul, pmulTerm, padd, mmul, GI.mul, GI.isZero, GI.one, GI.ofInt, GI.add]

/-- `(1 + i)^2` returned as `2i` is accepted (Gaussian coefficients) -/
example : accepts .pow [.cplx ⟨1, 1⟩ ⟨1, 1⟩, .int 2] (.cplx ⟨0, 1⟩ ⟨2, 1⟩) = true := by
  simp [accepts, recipe, normT, cplxF, powF, npowF, equivF, pone, pconst, ppow,
    pmul, pmulTerm, padd, mmul, GI.mul, GI.isZero, GI.one]

/-- The full property (all of add/sub/mul/div/neg/pow/sqrt/cbrt including non-integer exponents with the
principal branch, at every complex assignment away from branch cuts) is **not** proved here; it needs a
denotation into ℂ with `Complex.cpow` and a checker for radical identities.  Kept as a statement:
`evalC` is a parameter standing for that denotation. -/
def C07_full (evalC : (String → ℂ) → Expr → Option ℂ)
    (construct : String → List Expr → Expr) (meaning : String → List ℂ → Option ℂ) : Prop :=
  ∀ (op : String) (args : List Expr) (ρ : String → ℂ) (vals : List ℂ) (w r : ℂ),
    args.mapM (evalC ρ) = some vals → meaning op vals = some w →
    evalC ρ (construct op args) = some r → r = w

end C07
end SymVerif
