import Mathlib.Analysis.SpecialFunctions.Pow.Complex
import Mathlib.LinearAlgebra.Matrix.NonsingularInverse
import SymVerif.Lemmas.C30Cert
import SymVerif.Lemmas.C30Cubic
import SymVerif.Lemmas.C30Real
import Mathlib.Analysis.SpecialFunctions.Pow.Real
/-!
C30 — equation solving returns exactly the solution set.

Model: `SymVerif/Model/Solve.lean` (closed forms of solve.cpp on rational coefficient vectors, degree
dispatch, `solve_rational`, fraction-free Gauss-Jordan `linsolve`) and `SymVerif/Model/SolveCert.lean`
(the certificate checker run by `Drv/C30.lean` on every set returned by the real library).

Headline theorems
* `linear_sound_complete`, `quadratic_sound_complete`, `quadratic_repeated`, `solvePoly_sound_complete`:
  the closed forms used for degree ≤ 2 (all three coefficient patterns, leading zeros handled by the
  dispatch) return exactly the root set, over every field of characteristic 0 with square roots `sq`.
* `cubic_exact_sound_complete`: the branches of `solve_poly_cubic` that return explicit rational / surd roots
  (constant term 0, discriminant 0 with a double or a triple root) return exactly the root set.
* `realness_sound_complex` (`isRealRP_sound`, `isNonRealRP_sound`): the realness decisions used for the domain
  `Reals` are sound for principal square roots.
* `certPoly_sound`: if the checker accepts the elements returned by the library for a polynomial `p`
  (evaluation `toRPs` in ℚ[√·] + factorisation certificate `checkFactor`), then the numbers denoted by those
  elements are exactly the roots of `p` — for every field with a root function, in particular ℂ with
  principal roots (`certPoly_sound_complex`).  This covers every returned set whose elements use square
  roots of rationals only, for all degrees ≤ 4.
* `rational_excludes_poles`: `solveRational` keeps exactly the numerator roots that are not poles.
* `cardano_root_check`, `euler_root_check`, `quartic_depress`: the Cardano and Euler formulas of
  `solve_poly_cubic/quartic` produce roots (polynomial identities from the defining relations of the radicals).
* `linsolve_unique_partial` + `linsolve_solution_unique`: a checked answer of the model solves `A x = b`, and the
  solution of a system with `det A ≠ 0` is unique.
-/
namespace SymVerif.C30
open SymVerif SymVerif.Solve SymVerif.Solve.RP

set_option linter.unusedSectionVars false
variable {K : Type*} [Field K] [CharZero K]

/-! ### 1. closed forms of degree ≤ 2 -/

/-- the number `a + b·√d` -/
def surdVal (sq : ℚ → K) (s : Surd) : K := (s.a : K) + (s.b : K) * sq s.d

variable (sq : ℚ → K) (hsq : ∀ r : ℚ, sq r * sq r = (r : K))

@[simp] theorem surdVal_ofRat (r : ℚ) : surdVal sq (Surd.ofRat r) = (r : K) := by
  simp [surdVal, Surd.ofRat]

/-- `solve_poly_linear`: for `c1 ≠ 0` the returned set is exactly `{x | c0 + c1 x = 0}` -/
theorem linear_sound_complete (c0 c1 : ℚ) (h : c1 ≠ 0) (x : K) :
    (c0 : K) + (c1 : K) * x = 0 ↔ x ∈ (solvePolyLinear c0 c1).map (surdVal sq) := by
  have h1 : (c1 : K) ≠ 0 := by exact_mod_cast h
  simp only [solvePolyLinear, List.map_cons, List.map_nil, List.mem_singleton, surdVal_ofRat]
  push_cast
  constructor
  · intro hx
    field_simp
    linear_combination hx
  · intro hx
    subst hx
    field_simp
    ring

example : (6 : ℚ) + (3 : ℚ) * (-2 : ℚ) = 0 ↔ (-2 : ℚ) ∈ (solvePolyLinear 6 3).map (surdVal (fun r => r)) :=
  linear_sound_complete (K := ℚ) (fun r => r) 6 3 (by norm_num) (-2)

theorem root_pair (c0 c1 c2 x r1 r2 : K) (h2 : c2 ≠ 0)
    (hid : c0 + c1 * x + c2 * x ^ 2 = c2 * ((x - r1) * (x - r2))) :
    c0 + c1 * x + c2 * x ^ 2 = 0 ↔ x = r1 ∨ x = r2 := by
  rw [hid, mul_eq_zero, mul_eq_zero, sub_eq_zero, sub_eq_zero]
  constructor
  · rintro (h | h)
    · exact absurd h h2
    · exact h
  · intro h; exact Or.inr h

include hsq in
/-- `solve_poly_quadratic` (all three branches: c = 0, b = 0, general): for `c2 ≠ 0` the returned set is
    exactly the root set of `c0 + c1 x + c2 x²` -/
theorem quadratic_sound_complete (c0 c1 c2 : ℚ) (h : c2 ≠ 0) (x : K) :
    (c0 : K) + (c1 : K) * x + (c2 : K) * x ^ 2 = 0 ↔
      x ∈ (solvePolyQuadratic c0 c1 c2).map (surdVal sq) := by
  have h2 : (c2 : K) ≠ 0 := by exact_mod_cast h
  have hc0 : (c0 : K) = c2 * ((c0 / c2 : ℚ) : K) := by push_cast; field_simp
  have hc1 : (c1 : K) = c2 * ((c1 / c2 : ℚ) : K) := by push_cast; field_simp
  unfold solvePolyQuadratic
  simp only []
  split_ifs with hc hb
  · -- c = 0: roots -b and 0
    simp only [List.map_cons, List.map_nil, List.mem_cons, List.not_mem_nil, or_false, surdVal_ofRat]
    apply root_pair _ _ _ _ _ _ h2
    rw [hc0, hc1, hc]
    push_cast
    ring
  · -- b = 0: roots ±√(-c)
    simp only [List.map_cons, List.map_nil, List.mem_cons, List.not_mem_nil, or_false, surdVal]
    apply root_pair _ _ _ _ _ _ h2
    have hs := hsq (-(c0 / c2))
    rw [hc0, hc1, hb]
    push_cast at hs ⊢
    linear_combination (c2 : K) * hs
  · -- general: -b/2 ± √(b² - 4c)/2
    simp only [List.map_cons, List.map_nil, List.mem_cons, List.not_mem_nil, or_false, surdVal]
    apply root_pair _ _ _ _ _ _ h2
    have hs := hsq (c1 / c2 * (c1 / c2) - 4 * (c0 / c2))
    rw [hc0, hc1]
    push_cast at hs ⊢
    linear_combination ((c2 : K) / 4) * hs

include hsq in
/-- discriminant 0: the two listed elements coincide (a repeated root is returned once) -/
theorem quadratic_repeated (c0 c1 c2 : ℚ)
    (hd : c1 / c2 * (c1 / c2) - 4 * (c0 / c2) = 0) :
    ∀ s ∈ [(⟨-(c1 / c2) / 2, 1 / 2, c1 / c2 * (c1 / c2) - 4 * (c0 / c2)⟩ : Surd),
           ⟨-(c1 / c2) / 2, -(1 / 2), c1 / c2 * (c1 / c2) - 4 * (c0 / c2)⟩],
      surdVal sq s = ((-(c1 / c2) / 2 : ℚ) : K) := by
  have h0 : sq 0 = 0 := by
    have := hsq 0
    simpa using this
  intro s hs
  simp only [List.mem_cons, List.not_mem_nil, or_false] at hs
  rcases hs with rfl | rfl <;> simp [surdVal, hd, h0]

/-- ℂ with the principal square root satisfies the hypothesis `hsq` -/
noncomputable def sqC : ℚ → ℂ := fun r => (r : ℂ) ^ ((2 : ℕ)⁻¹ : ℂ)
theorem sqC_mul_self (r : ℚ) : sqC r * sqC r = (r : ℂ) := by
  have := Complex.cpow_nat_inv_pow (r : ℂ) (n := 2) (by norm_num)
  simpa [sqC, pow_two] using this

example (x : ℂ) : ((-1 : ℚ) : ℂ) + ((-1 : ℚ) : ℂ) * x + ((1 : ℚ) : ℂ) * x ^ 2 = 0 ↔
    x ∈ (solvePolyQuadratic (-1) (-1) 1).map (surdVal sqC) :=
  quadratic_sound_complete sqC sqC_mul_self (-1) (-1) 1 (by norm_num) x

/-! ### 2. the degree dispatch (`solve` → `solve_poly` → `solve_poly_heuristics`) -/

theorem trim_cons (c : ℚ) (cs : Poly) : trim (c :: cs) =
    (match trim cs with
     | [] => if c = 0 then [] else [c]
     | cs' => c :: cs') := by
  first
    | rfl
    | (rw [trim]; rfl)
    | simp only [trim]

theorem evalK_polyK_trim (p : Poly) (x : K) : evalK (polyK (trim p)) x = evalK (polyK p) x := by
  induction p with
  | nil => rfl
  | cons c cs ih =>
    rw [trim_cons]
    have hcs : evalK (polyK (c :: cs)) x = (c : K) + x * evalK (polyK cs) x := rfl
    rw [hcs, ← ih]
    cases htc : trim cs with
    | nil =>
      simp only []
      split_ifs with hc0 <;> simp [polyK, hc0]
    | cons d ds => rfl

theorem trim_getLast_ne_zero : ∀ (p : Poly) (c : ℚ), (trim p).getLast? = some c → c ≠ 0
  | [], c, h => by simp [trim] at h
  | a :: as, c, h => by
    rw [trim_cons] at h
    cases htc : trim as with
    | nil =>
      rw [htc] at h
      simp only [] at h
      split_ifs at h with ha
      · simp at h
      · simp at h; subst h; exact ha
    | cons d ds =>
      rw [htc] at h
      simp only [] at h
      have : ((d :: ds).getLast? = some c) := by
        simpa [List.getLast?_cons_cons] using h
      rw [← htc] at this
      exact trim_getLast_ne_zero as c this

include hsq in
/-- Degeneration handled by the dispatch: whatever leading zeros the coefficient vector has, for true degree
    ≤ 2 the model returns the whole domain exactly for the zero polynomial and otherwise exactly the root set. -/
theorem solvePoly_sound_complete (p : Poly) (hdeg : (trim p).length ≤ 3) :
    (solvePoly p = .all ∧ ∀ x : K, evalK (polyK p) x = 0) ∨
    (∃ l, solvePoly p = .roots l ∧ ∀ x : K, evalK (polyK p) x = 0 ↔ x ∈ l.map (surdVal sq)) := by
  have hl := trim_getLast_ne_zero p
  unfold solvePoly
  rcases htp : trim p with _ | ⟨c0, _ | ⟨c1, _ | ⟨c2, _ | ⟨c3, rest⟩⟩⟩⟩
  · left
    refine ⟨rfl, fun x => ?_⟩
    rw [← evalK_polyK_trim, htp]; rfl
  · right
    refine ⟨[], rfl, fun x => ?_⟩
    rw [← evalK_polyK_trim, htp]
    have hc : c0 ≠ 0 := hl c0 (by rw [htp]; rfl)
    have : (c0 : K) ≠ 0 := by exact_mod_cast hc
    simp [polyK, this]
  · right
    refine ⟨solvePolyLinear c0 c1, rfl, fun x => ?_⟩
    rw [← evalK_polyK_trim, htp]
    have hc : c1 ≠ 0 := hl c1 (by rw [htp]; rfl)
    rw [← linear_sound_complete sq c0 c1 hc x]
    simp only [polyK, List.map_cons, List.map_nil, evalK_cons, evalK_nil]
    constructor <;> intro h <;> linear_combination h
  · right
    refine ⟨solvePolyQuadratic c0 c1 c2, rfl, fun x => ?_⟩
    rw [← evalK_polyK_trim, htp]
    have hc : c2 ≠ 0 := hl c2 (by rw [htp]; rfl)
    rw [← quadratic_sound_complete sq hsq c0 c1 c2 hc x]
    simp only [polyK, List.map_cons, List.map_nil, evalK_cons, evalK_nil]
    constructor <;> intro h <;> linear_combination h
  · rw [htp] at hdeg
    simp at hdeg
    omega

example : (trim [2, -3, 1, 0, 0]).length ≤ 3 := by decide +kernel

/-! ### 2b. the exact branches of `solve_poly_cubic` (constant term 0; discriminant 0) -/

include hsq in
/-- whenever the model of `solve_poly_cubic` answers with an explicit root list (branches `d = 0`, `Δ = 0` with a
    triple root, `Δ = 0` with a double root), that list is exactly the root set -/
theorem cubic_exact_sound_complete (c0 c1 c2 c3 : ℚ) (h3 : c3 ≠ 0) (l : List Surd)
    (h : solvePolyCubic c0 c1 c2 c3 = .roots l) (x : K) :
    (c0 : K) + (c1 : K) * x + (c2 : K) * x ^ 2 + (c3 : K) * x ^ 3 = 0 ↔ x ∈ l.map (surdVal sq) := by
  have h3' : (c3 : K) ≠ 0 := by exact_mod_cast h3
  unfold solvePolyCubic at h
  simp only [] at h
  generalize hb : c2 / c3 = b at h
  generalize hc : c1 / c3 = c at h
  generalize hd' : c0 / c3 = d at h
  have hmonic : (c0 : K) + (c1 : K) * x + (c2 : K) * x ^ 2 + (c3 : K) * x ^ 3
      = (c3 : K) * (x ^ 3 + (b : K) * x ^ 2 + (c : K) * x + (d : K)) := by
    rw [← hb, ← hc, ← hd']; push_cast; field_simp; ring
  rw [hmonic, mul_eq_zero]
  simp only [h3', false_or]
  split_ifs at h with hd hdelta hdelta0
  · -- d = 0
    injection h with h; subst h
    have hdK : (d : K) = 0 := by exact_mod_cast hd
    rw [List.map_cons, List.mem_cons, surdVal_ofRat,
      ← quadratic_sound_complete sq hsq c b 1 one_ne_zero x, hdK]
    push_cast
    have : x ^ 3 + (b : K) * x ^ 2 + (c : K) * x + 0 = x * ((c : K) + (b : K) * x + 1 * x ^ 2) := by ring
    rw [this, mul_eq_zero]
  · -- Δ = 0, Δ₀ = 0
    injection h with h; subst h
    have h27 : 4 * ((b * b - 3 * c) * (b * b - 3 * c) * (b * b - 3 * c))
        - (2 * (b * b * b) - 9 * b * c + 27 * d) * (2 * (b * b * b) - 9 * b * c + 27 * d) = 0 := by
      have := hdelta
      rwa [div_eq_zero_iff, or_iff_left (by norm_num)] at this
    have h1 : 2 * (b * b * b) - 9 * b * c + 27 * d = 0 := by
      rw [hdelta0] at h27
      have : (2 * (b * b * b) - 9 * b * c + 27 * d) * (2 * (b * b * b) - 9 * b * c + 27 * d) = 0 := by
        linarith
      exact mul_self_eq_zero.mp this
    have h0K : (b : K) ^ 2 - 3 * (c : K) = 0 := by
      have := congrArg (fun q : ℚ => (q : K)) hdelta0
      push_cast at this
      linear_combination this
    have h1K : 2 * (b : K) ^ 3 - 9 * (b : K) * (c : K) + 27 * (d : K) = 0 := by
      have := congrArg (fun q : ℚ => (q : K)) h1
      push_cast at this
      linear_combination this
    rw [cubic_triple_root _ _ _ _ h0K h1K]
    simp only [List.map_cons, List.map_nil, List.mem_singleton, surdVal_ofRat]
    push_cast
    rfl
  · -- Δ = 0, Δ₀ ≠ 0
    injection h with h; subst h
    have h27 : 4 * ((b * b - 3 * c) * (b * b - 3 * c) * (b * b - 3 * c))
        - (2 * (b * b * b) - 9 * b * c + 27 * d) * (2 * (b * b * b) - 9 * b * c + 27 * d) = 0 := by
      have := hdelta
      rwa [div_eq_zero_iff, or_iff_left (by norm_num)] at this
    have hD0K : (b : K) ^ 2 - 3 * (c : K) ≠ 0 := by
      intro h0
      apply hdelta0
      have : ((b * b - 3 * c : ℚ) : K) = 0 := by push_cast; linear_combination h0
      exact_mod_cast this
    have hRK : 4 * ((b : K) ^ 2 - 3 * (c : K)) ^ 3
        - (2 * (b : K) ^ 3 - 9 * (b : K) * (c : K) + 27 * (d : K)) ^ 2 = 0 := by
      have := congrArg (fun q : ℚ => (q : K)) h27
      push_cast at this
      linear_combination this
    rw [cubic_double_root _ _ _ _ hD0K hRK]
    simp only [List.map_cons, List.map_nil, List.mem_cons, List.not_mem_nil, or_false, surdVal_ofRat]
    push_cast
    constructor
    · rintro (h | h)
      · left; rw [h]; ring
      · right; right; rw [h]; ring
    · rintro (h | h | h)
      · left; rw [h]; ring
      · left; rw [h]; ring
      · right; rw [h]; ring

/-- non-vacuity: -(x-2)²(x-1) takes the double-root branch -/
example (x : ℂ) : ((4 : ℚ) : ℂ) + ((-8 : ℚ) : ℂ) * x + ((5 : ℚ) : ℂ) * x ^ 2 + ((-1 : ℚ) : ℂ) * x ^ 3 = 0 ↔
    x ∈ [Surd.ofRat 2, Surd.ofRat 2, Surd.ofRat 1].map (surdVal sqC) :=
  cubic_exact_sound_complete sqC sqC_mul_self 4 (-8) 5 (-1) (by norm_num) _ (by decide +kernel) x

/-! ### 3. the certificate checker run on every returned set -/

variable (rt : ℕ → K → K) (hrt : ∀ (d : ℕ) (x : K), d ≠ 0 → rt d x ^ d = x)

include hrt in
/-- **Certificate soundness.**  `elems` are the elements of the FiniteSet returned by the library for the
    polynomial `p`.  If the driver's checker evaluates them (`toRPs`) and accepts the factorisation certificate
    (`checkFactor`), the numbers they denote are exactly the roots of `p`: every member is a solution and
    every solution is a member. -/
theorem certPoly_sound (p : Poly) (elems : List Expr) (rs : List RP)
    (h1 : toRPs elems = some rs) (h2 : checkFactor p rs = true) (x : K) :
    evalK (polyK p) x = 0 ↔ x ∈ elems.map (den rt) := by
  rw [toRPs_sound rt hrt elems rs h1]
  exact checkFactor_sound (sqOf rt) (sqOf_mul_self rt hrt) p rs h2 x

/-- principal roots in ℂ -/
noncomputable def rtC : ℕ → ℂ → ℂ := fun d x => x ^ ((d : ℂ)⁻¹)
theorem rtC_pow (d : ℕ) (x : ℂ) (hd : d ≠ 0) : rtC d x ^ d = x := Complex.cpow_nat_inv_pow x hd

/-- the certificate theorem for complex numbers with principal roots -/
theorem certPoly_sound_complex (p : Poly) (elems : List Expr) (rs : List RP)
    (h1 : toRPs elems = some rs) (h2 : checkFactor p rs = true) (x : ℂ) :
    evalK (polyK p) x = 0 ↔ x ∈ elems.map (den rtC) :=
  certPoly_sound rtC rtC_pow p elems rs h1 h2 x

/-- non-vacuity: the set `{√2, -√2}` returned for `x² - 2` (wire form `(^ 2 1/2)`, `(* -1 (2 1/2))`) is
    accepted, hence these two complex numbers are exactly the roots -/
example (x : ℂ) : evalK (polyK [-2, 0, 1]) x = 0 ↔
    x ∈ [Expr.pow (.int 2) (.rat 1 2), Expr.mul (.int (-1)) [(.int 2, .rat 1 2)]].map (den rtC) :=
  certPoly_sound_complex [-2, 0, 1] _ [[(1, [2])], [(-1, [2])]] (by decide +kernel) (by decide +kernel) x

/-! ### 3b. realness decisions used for the domain `Reals` (`isRealRP_sound`, `isNonRealRP_sound` in
Lemmas/C30Real.lean): valid for every choice of square roots that is real on non-negative rationals —
the principal root is one. -/

theorem sqC_real (r : ℚ) (h : 0 ≤ r) : (sqC r).im = 0 := by
  have hr : (0 : ℝ) ≤ (r : ℝ) := by exact_mod_cast h
  have e : sqC r = (((r : ℝ) ^ ((2 : ℝ)⁻¹) : ℝ) : ℂ) := by
    rw [Complex.ofReal_cpow hr]
    simp [sqC]
  rw [e]
  exact Complex.ofReal_im _

/-- over ℂ with principal roots: an element accepted as real is real, one accepted as non-real is not -/
theorem realness_sound_complex (p : RP) :
    (isRealRP p = true → (ev sqC p).im = 0) ∧ (isNonRealRP p = true → (ev sqC p).im ≠ 0) :=
  ⟨isRealRP_sound sqC sqC_mul_self sqC_real p, isNonRealRP_sound sqC sqC_mul_self sqC_real p⟩

example : isRealRP [(1, [2])] = true ∧ isNonRealRP [(-1/2, []), (1/2, [-1, 3])] = true := by decide +kernel

/-! ### 4. rational equations: poles are excluded -/

/-- `solve_rational` = numerator roots minus denominator roots.  If the representation is injective on the two
    lists (`hinj`: equal values ⇒ `==`), the result denotes exactly `{x ∈ numerator roots | x not a pole}`. -/
theorem rational_excludes_poles {α : Type} [BEq α] [LawfulBEq α] (val : α → K) (nr dr : List α)
    (hinj : ∀ a ∈ nr, ∀ b ∈ dr, val a = val b → a = b) (x : K) :
    x ∈ (solveRational nr dr).map val ↔ x ∈ nr.map val ∧ x ∉ dr.map val := by
  simp only [solveRational, List.mem_map, List.mem_filter, Bool.not_eq_true', List.contains_eq_mem,
    decide_eq_false_iff_not]
  constructor
  · rintro ⟨a, ⟨ha, hna⟩, rfl⟩
    refine ⟨⟨a, ha, rfl⟩, ?_⟩
    rintro ⟨b, hb, hab⟩
    have := hinj a ha b hb hab.symm
    subst this
    exact hna hb
  · rintro ⟨⟨a, ha, rfl⟩, hnd⟩
    exact ⟨a, ⟨ha, fun had => hnd ⟨a, had, rfl⟩⟩, rfl⟩

/-- with exact root sets of numerator `N` and denominator `D`, the result is `{x | N x = 0 ∧ D x ≠ 0}` -/
theorem rational_solution_set {α : Type} [BEq α] [LawfulBEq α] (val : α → K) (nr dr : List α)
    (N D : K → K) (hN : ∀ x, N x = 0 ↔ x ∈ nr.map val) (hD : ∀ x, D x = 0 ↔ x ∈ dr.map val)
    (hinj : ∀ a ∈ nr, ∀ b ∈ dr, val a = val b → a = b) (x : K) :
    x ∈ (solveRational nr dr).map val ↔ N x = 0 ∧ D x ≠ 0 := by
  rw [rational_excludes_poles val nr dr hinj, hN, Ne, hD]

example : (1 : ℚ) ∈ (solveRational [(1 : ℚ), -1] [1]).map (fun q : ℚ => q) ↔
    (1 : ℚ) ∈ [(1 : ℚ), -1].map (fun q : ℚ => q) ∧ (1 : ℚ) ∉ [(1 : ℚ)].map (fun q : ℚ => q) :=
  rational_excludes_poles (fun q : ℚ => q) [1, -1] [1] (by intro a _ b _ h; exact h) 1

/-! ### 5. Cardano and Euler: the formulas produce roots (soundness as polynomial identities) -/

/-- `solve_poly_cubic`, general branch: with `y` any cube root of `(Δ₁ + t)/2`, `t` any square root of
    `Δ₁² - 4Δ₀³ = -27Δ`, the value `-(b + y + Δ₀/y)/3` is a root.  The three returned roots are the instances
    `y = C`, `y = ωC`, `y = ω²C` (all cube roots of the same number). -/
theorem cardano_root_check (b c d y t : K) (hy : y ≠ 0)
    (hy3 : y ^ 3 = ((2 * b ^ 3 - 9 * b * c + 27 * d) + t) / 2)
    (ht : t ^ 2 = (2 * b ^ 3 - 9 * b * c + 27 * d) ^ 2 - 4 * (b ^ 2 - 3 * c) ^ 3) :
    (-(b + y + (b ^ 2 - 3 * c) / y) / 3) ^ 3 + b * (-(b + y + (b ^ 2 - 3 * c) / y) / 3) ^ 2
      + c * (-(b + y + (b ^ 2 - 3 * c) / y) / 3) + d = 0 := by
  set z := (b ^ 2 - 3 * c) / y with hz
  have hzy : z * y = b ^ 2 - 3 * c := by rw [hz]; field_simp
  have hy3ne : y ^ 3 ≠ 0 := pow_ne_zero 3 hy
  have hz3 : z ^ 3 = ((2 * b ^ 3 - 9 * b * c + 27 * d) - t) / 2 := by
    apply mul_right_cancel₀ hy3ne
    rw [← mul_pow, hzy, hy3]
    linear_combination (1 / 4 : K) * ht
  linear_combination (-1 / 27 : K) * hy3 + (-1 / 27 : K) * hz3 + (-(y + z) / 9) * hzy

/-- a cube root of unity times a cube root is again a cube root: the formulas for `root2`, `root3` -/
theorem cardano_root_check_omega (b c d C t w : K) (hC : C ≠ 0) (hw : w ^ 3 = 1)
    (hC3 : C ^ 3 = ((2 * b ^ 3 - 9 * b * c + 27 * d) + t) / 2)
    (ht : t ^ 2 = (2 * b ^ 3 - 9 * b * c + 27 * d) ^ 2 - 4 * (b ^ 2 - 3 * c) ^ 3) :
    (-(b + w * C + (b ^ 2 - 3 * c) / (w * C)) / 3) ^ 3 + b * (-(b + w * C + (b ^ 2 - 3 * c) / (w * C)) / 3) ^ 2
      + c * (-(b + w * C + (b ^ 2 - 3 * c) / (w * C)) / 3) + d = 0 := by
  have hw0 : w ≠ 0 := by
    intro h; rw [h] at hw; norm_num at hw
  apply cardano_root_check b c d (w * C) t (mul_ne_zero hw0 hC) _ ht
  rw [mul_pow, hw, one_mul, hC3]

example : ((-(0 + (1 : ℚ) + (0 ^ 2 - 3 * 0) / 1) / 3) ^ 3 + 0 * (-(0 + (1 : ℚ) + (0 ^ 2 - 3 * 0) / 1) / 3) ^ 2
    + 0 * (-(0 + (1 : ℚ) + (0 ^ 2 - 3 * 0) / 1) / 3) + 1 / 27 : ℚ) = 0 :=
  cardano_root_check (K := ℚ) 0 0 (1 / 27) 1 1 (by norm_num) (by norm_num) (by norm_num)

/-- `solve_poly_quartic`: the substitution `x = y - a/4` with the coefficients `e, ff, g` as coded -/
theorem quartic_depress (a b c d y : K) :
    (y - a / 4) ^ 4 + a * (y - a / 4) ^ 3 + b * (y - a / 4) ^ 2 + c * (y - a / 4) + d =
      y ^ 4 + (b - 3 * (a * a) / 8) * y ^ 2 + (c + a * a * a / 8 - a * b / 2) * y
        + (d + a * a * b / 16 - (a * c / 4 + 3 * (a * a * a) * a / 256)) := by
  ring

/-- Euler's method: if `p², q², r²` are the roots of the resolvent cubic
    `z³ + (e/2) z² + ((e² - 4g)/16) z - f²/64` (Vieta: `h1`, `h2`) and the signs satisfy `p q r = -f/8`
    (enforced in the code by `r = -f/(8 p q)`), then `p + q + r` is a root of `y⁴ + e y² + f y + g`;
    the other three returned values are the sign changes `(p,-q,-r)`, `(-p,q,-r)`, `(-p,-q,r)`, which satisfy the
    same hypotheses. -/
theorem euler_root_check (e f g p q r : K)
    (h1 : p ^ 2 + q ^ 2 + r ^ 2 = -e / 2)
    (h2 : p ^ 2 * q ^ 2 + p ^ 2 * r ^ 2 + q ^ 2 * r ^ 2 = (e ^ 2 - 4 * g) / 16)
    (h3 : p * q * r = -f / 8) :
    (p + q + r) ^ 4 + e * (p + q + r) ^ 2 + f * (p + q + r) + g = 0 := by
  linear_combination (p ^ 2 + q ^ 2 + r ^ 2 + e / 2 + 4 * (p * q + p * r + q * r)) * h1 + 4 * h2
    + 8 * (p + q + r) * h3

example : ((1 : ℚ) + 2 + 3) ^ 4 + (-28) * ((1 : ℚ) + 2 + 3) ^ 2 + (-48) * ((1 : ℚ) + 2 + 3) + 0 = 0 :=
  euler_root_check (K := ℚ) (-28) (-48) 0 1 2 3 (by norm_num) (by norm_num) (by norm_num)

/-! ### 6. linsolve -/

/-- the model's checked answer solves the system (the multiply-back test is part of `linsolveChecked`; the
    driver additionally compares the unchecked elimination result with the library's answer) -/
theorem linsolve_unique_partial (n : ℕ) (A : Mat) (b : Array ℚ) (x : List ℚ)
    (h : linsolveChecked n A b = .ok x) : mulVec A x = b.toList := by
  unfold linsolveChecked at h
  cases hl : linsolve n A b with
  | error e => rw [hl] at h; simp [bind, Except.bind] at h
  | ok y =>
    rw [hl] at h
    simp only [bind, Except.bind] at h
    by_cases hm : mulVec A y = b.toList
    · rw [if_pos hm] at h
      simp only [pure, Except.pure, Except.ok.injEq] at h
      subst h; exact hm
    · rw [if_neg hm] at h
      exact absurd h (by simp [throw, throwThe, MonadExceptOf.throw])

/-- a uniquely solvable system has exactly one solution: whatever passes the multiply-back test is *the* answer -/
theorem linsolve_solution_unique {n : ℕ} (A : Matrix (Fin n) (Fin n) ℚ) (hdet : A.det ≠ 0)
    (b x y : Fin n → ℚ) (hx : A.mulVec x = b) (hy : A.mulVec y = b) : x = y := by
  have hu : IsUnit A := (Matrix.isUnit_iff_isUnit_det A).mpr (isUnit_iff_ne_zero.mpr hdet)
  exact (Matrix.mulVec_injective_iff_isUnit.mpr hu) (hx.trans hy.symm)

example : linsolveChecked 2 #[#[1, 2], #[3, 4]] #[3, 5] = .ok [-1, 2] := by decide +kernel

/-- The full statement for `linsolve` (not proved: the fraction-free elimination itself is only compared with the
    library output and re-checked by multiplication on every sample). -/
def C30_linsolve_full : Prop :=
  ∀ (n : ℕ) (A : Matrix (Fin n) (Fin n) ℚ) (b : Fin n → ℚ), A.det ≠ 0 →
    ∃ x : List ℚ, linsolve n (Array.ofFn fun i => Array.ofFn fun j => A i j) (Array.ofFn b) = .ok x ∧
      ∀ i : Fin n, (∑ j : Fin n, A i j * x.getD j 0) = b i

/-- The full statement for degree 3 and 4 (not proved): the three / four Cardano–Euler values are *all* roots
    (completeness with multiplicities and correct pairing of the branches). Soundness of the individual
    formulas is `cardano_root_check` / `euler_root_check`; per returned set the driver's certificate
    (`certPoly_sound`) or the numeric oracle decides. -/
def C30_cubic_full : Prop :=
  ∀ (b c d C t w : ℂ), C ≠ 0 → w ^ 2 + w + 1 = 0 →
    C ^ 3 = ((2 * b ^ 3 - 9 * b * c + 27 * d) + t) / 2 →
    t ^ 2 = (2 * b ^ 3 - 9 * b * c + 27 * d) ^ 2 - 4 * (b ^ 2 - 3 * c) ^ 3 →
    ∀ x : ℂ, x ^ 3 + b * x ^ 2 + c * x + d = 0 →
      x = -(b + C + (b ^ 2 - 3 * c) / C) / 3 ∨ x = -(b + w * C + (b ^ 2 - 3 * c) / (w * C)) / 3 ∨
      x = -(b + w ^ 2 * C + (b ^ 2 - 3 * c) / (w ^ 2 * C)) / 3

end SymVerif.C30
