import Mathlib.Data.Nat.Fib.Basic
import Mathlib.Data.Nat.Choose.Basic
import Mathlib.Data.Nat.Factorial.Basic
import Mathlib.Tactic.Ring
import Mathlib.Tactic.Linarith
import SymVerif.Lemmas.C32Basic
import SymVerif.Lemmas.C32Arith
import SymVerif.Lemmas.C32Order
import SymVerif.Lemmas.C32Crt
import SymVerif.Lemmas.C32Proot
import SymVerif.Lemmas.C32Jacobi
import SymVerif.Lemmas.C32Harmonic
import SymVerif.Lemmas.C32NthRes
import SymVerif.Lemmas.C32NthZero
/-!
# C32  Number-theoretic functions agree with their definitions

Theorems about the model `SymVerif.NTheory` (the functions the driver `Drv/C32.lean` runs).
-/
namespace SymVerif.C32
open SymVerif.NTheory

/-! ## quotient / remainder conventions -/

/-- truncating family (`quotient`, `mod`, `quotient_mod`): `n = q*d + r`, `|r| < |d|`, `r` has the sign of `n`. -/
theorem quotient_mod_spec (n d : Int) (hd : d ≠ 0) :
    n = (quotientMod n d).1 * d + (quotientMod n d).2 ∧ (quotientMod n d).2.natAbs < d.natAbs ∧
    (0 ≤ n → 0 ≤ (quotientMod n d).2) ∧ (n ≤ 0 → (quotientMod n d).2 ≤ 0) ∧
    quotient n d = (quotientMod n d).1 ∧ mod n d = (quotientMod n d).2 := by
  simp only [quotientMod, quotient, mod]
  refine ⟨?_, ?_, ?_, ?_, trivial, trivial⟩
  · have := Int.tmod_add_tdiv_mul n d; linarith
  · rw [Int.natAbs_tmod]; exact Nat.mod_lt _ (Int.natAbs_pos.mpr hd)
  · intro h; exact Int.tmod_nonneg d h
  · intro h
    have : 0 ≤ (-n).tmod d := Int.tmod_nonneg d (by omega)
    rw [Int.neg_tmod] at this; omega

/-- flooring family (`quotient_f`, `mod_f`, `quotient_mod_f`): `n = q*d + r`, `|r| < |d|`, `r` has the sign of `d`. -/
theorem quotient_mod_f_spec (n d : Int) (hd : d ≠ 0) :
    n = (quotientModF n d).1 * d + (quotientModF n d).2 ∧ (quotientModF n d).2.natAbs < d.natAbs ∧
    (0 < d → 0 ≤ (quotientModF n d).2) ∧ (d < 0 → (quotientModF n d).2 ≤ 0) ∧
    quotientF n d = (quotientModF n d).1 ∧ modF n d = (quotientModF n d).2 := by
  simp only [quotientModF, quotientF, modF]
  have hdecomp := Int.fmod_add_fdiv_mul n d
  have hem : 0 ≤ n % d := Int.emod_nonneg n hd
  have hel : n % d < |d| := Int.emod_lt_abs n hd
  have hfm := @Int.fmod_eq_emod n d
  refine ⟨by linarith, ?_, ?_, ?_, trivial, trivial⟩
  · rw [hfm]
    split
    · simp only [add_zero]
      rw [Int.abs_eq_natAbs] at hel
      omega
    · rename_i hc
      rw [not_or, not_le] at hc
      have hdn : d < 0 := hc.1
      have hne : n % d ≠ 0 := fun h => hc.2 (Int.dvd_of_emod_eq_zero h)
      rw [abs_of_neg hdn] at hel
      omega
  · intro hpos
    rw [hfm]; simp [hpos.le, hem]
  · intro hneg
    rw [hfm]
    split
    · rename_i hc
      rcases hc with hc | hc
      · omega
      · simp [Int.emod_eq_zero_of_dvd hc]
    · rw [abs_of_neg hneg] at hel; omega

example : quotientMod (-7) 2 = (-3, -1) ∧ quotientModF (-7) 2 = (-4, 1) ∧ quotientModF 7 (-2) = (-4, -1) := by decide

/-! ## gcd, lcm -/

/-- `gcd`: non-negative, divides both arguments, and every common divisor divides it (so it is *the* gcd;
`gcd 0 0 = 0`) -/
theorem gcd_spec (a b : Int) :
    0 ≤ NTheory.gcd a b ∧ NTheory.gcd a b ∣ a ∧ NTheory.gcd a b ∣ b ∧
      ∀ d : Int, d ∣ a → d ∣ b → d ∣ NTheory.gcd a b := by
  unfold NTheory.gcd
  exact ⟨Int.natCast_nonneg _, Int.gcd_dvd_left a b, Int.gcd_dvd_right a b, fun d h1 h2 => Int.dvd_coe_gcd h1 h2⟩

/-- `lcm`: non-negative, a common multiple, divides every common multiple, and `gcd * lcm = |a * b|` -/
theorem lcm_spec (a b : Int) :
    0 ≤ NTheory.lcm a b ∧ a ∣ NTheory.lcm a b ∧ b ∣ NTheory.lcm a b ∧
      (∀ m : Int, a ∣ m → b ∣ m → NTheory.lcm a b ∣ m) ∧
      NTheory.gcd a b * NTheory.lcm a b = ((a * b).natAbs : Int) := by
  unfold NTheory.lcm NTheory.gcd
  refine ⟨Int.natCast_nonneg _, Int.dvd_lcm_left a b, Int.dvd_lcm_right a b,
    fun m h1 h2 => Int.coe_lcm_dvd h1 h2, ?_⟩
  rw [← Int.natCast_mul, Int.gcd_mul_lcm, Int.natAbs_mul]

/-! ## gcd_ext -/

/-- `gcd_ext`: the first component is the non-negative gcd, on every branch of the normalisation -/
theorem gcdExt_fst (a b : Int) : (gcdExt a b).1 = (Int.gcd a b : Nat) := by
  unfold gcdExt
  simp only [NTheory.gcd]
  by_cases c1 : (a.natAbs == b.natAbs) = true
  · simp only [c1, ↓reduceIte]
  simp only [c1, Bool.false_eq_true, ↓reduceIte]
  by_cases c2 : (b == 0) = true
  · simp only [c2, ↓reduceIte]
  simp only [c2, Bool.false_eq_true, ↓reduceIte]
  by_cases c3 : (a == 0) = true
  · simp only [c3, ↓reduceIte]
  simp only [c3, Bool.false_eq_true, ↓reduceIte]
  by_cases c4 : (b.natAbs == 2 * ((Int.gcd a b : Nat) : Int).natAbs) = true
  · simp only [c4, ↓reduceIte]
  simp only [c4, Bool.false_eq_true, ↓reduceIte]
  by_cases c5 : (a.natAbs == 2 * ((Int.gcd a b : Nat) : Int).natAbs) = true
  · simp only [c5, ↓reduceIte]
  simp only [c5, Bool.false_eq_true, ↓reduceIte]
  cases invNat (a / ↑(a.gcd b) % ↑(b.natAbs / ((Int.gcd a b : Nat) : Int).natAbs)).toNat
    (b.natAbs / ((Int.gcd a b : Nat) : Int).natAbs) <;> rfl

/-- `gcd_ext`, Bézout identity on the degenerate branches (`|a| = |b|`, `a = 0` or `b = 0`), where GMP's
documented normalisation fixes the cofactors by hand.  The generic branch (cofactor through the modular
inverse) is compared with the library and the Bézout oracle by the harness; it has no theorem yet. -/
theorem gcdExt_bezout_degenerate_partial (a b : Int) (h : a.natAbs = b.natAbs ∨ a = 0 ∨ b = 0) :
    a * (gcdExt a b).2.1 + b * (gcdExt a b).2.2 = (gcdExt a b).1 := by
  rw [gcdExt_fst]
  unfold gcdExt
  by_cases h1 : a.natAbs = b.natAbs
  · simp only [h1, beq_self_eq_true, ↓reduceIte]
    rw [mul_zero, zero_add, mul_sgn]
    simp only [Int.gcd, h1, Nat.gcd_self]
  · have h1' : (a.natAbs == b.natAbs) = false := by simpa using h1
    simp only [h1', Bool.false_eq_true, ↓reduceIte]
    rcases h with h | h | h
    · exact absurd h h1
    · subst h
      have hb : b ≠ 0 := by intro hb; subst hb; simp at h1
      have hb' : (b == 0) = false := by simpa using hb
      simp only [hb', Bool.false_eq_true, ↓reduceIte, beq_self_eq_true, zero_mul, zero_add, mul_sgn]
      simp [Int.gcd]
    · subst h
      simp only [beq_self_eq_true, ↓reduceIte, mul_zero, add_zero, mul_sgn]
      simp [Int.gcd]

/-! ## modular inverse -/

/-- `mod_inverse`: an inverse in `[0, |m|)` exactly when `gcd a m = 1`. -/
theorem mod_inverse_spec (a m : Int) (hm : m ≠ 0) :
    (Int.gcd a m = 1 → ∃ inv, modInverse a m = some inv ∧ 0 ≤ inv ∧ inv < (m.natAbs : Int) ∧
        (a * inv) % (m.natAbs : Int) = 1 % (m.natAbs : Int)) ∧
    (Int.gcd a m ≠ 1 → modInverse a m = none) := by
  have hpos : 0 < m.natAbs := Int.natAbs_pos.mpr hm
  have hm' : (m == 0) = false := by simpa using hm
  have hgm : Int.gcd a (m.natAbs : Int) = Int.gcd a m := by
    show Nat.gcd a.natAbs (m.natAbs : Int).natAbs = Nat.gcd a.natAbs m.natAbs
    rw [Int.natAbs_natCast]
  obtain ⟨h1, h2⟩ := invNat_int a m.natAbs hpos
  rw [hgm] at h1 h2
  simp only [modInverse, mpInvert, hm', Bool.false_eq_true, if_false]
  constructor
  · intro hcop
    obtain ⟨i, hi, hlt, hmod⟩ := h1 hcop
    exact ⟨(i : Int), by rw [hi]; rfl, by omega, by exact_mod_cast hlt, hmod⟩
  · intro hncop
    rw [h2 hncop]; rfl

example : ∃ inv, modInverse 3 (-7) = some inv ∧ 0 ≤ inv ∧ inv < 7 ∧ (3 * inv) % 7 = 1 % 7 :=
  (mod_inverse_spec 3 (-7) (by decide)).1 (by decide)
example : modInverse 4 6 = none := (mod_inverse_spec 4 6 (by decide)).2 (by decide)

/-! ## Fibonacci and Lucas numbers -/

theorem fibPair_eq (n : Nat) : fibPair n = (Nat.fib n, Nat.fib (n + 1)) := by
  induction n with
  | zero => rfl
  | succ k ih => simp [fibPair, ih, Nat.fib_add_two]

/-- `fibonacci n` is the `n`-th Fibonacci number. -/
theorem fib_spec (n : Nat) : fibonacci n = Nat.fib n := by simp [fibonacci, fibPair_eq]

/-- `fibonacci2 n = (F n, F (n-1))` (with `F (-1) = 1`). -/
theorem fib2_spec (n : Nat) : fibonacci2 (n + 1) = (Nat.fib (n + 1), Nat.fib n) ∧ fibonacci2 0 = (0, 1) := by
  simp [fibonacci2, fibPair_eq]

theorem lucasPair_eq (n : Nat) :
    ((lucasPair n).1 : Int) = 2 * Nat.fib (n + 1) - Nat.fib n ∧
    ((lucasPair n).2 : Int) = 2 * Nat.fib (n + 2) - Nat.fib (n + 1) := by
  induction n with
  | zero => decide
  | succ k ih =>
    obtain ⟨ih1, ih2⟩ := ih
    have h1 : (Nat.fib (k + 2) : Int) = Nat.fib k + Nat.fib (k + 1) := by exact_mod_cast Nat.fib_add_two
    have h2 : (Nat.fib (k + 3) : Int) = Nat.fib (k + 1) + Nat.fib (k + 2) := by exact_mod_cast Nat.fib_add_two
    refine ⟨?_, ?_⟩
    · simp only [lucasPair]; rw [ih2]
    · simp only [lucasPair]; push_cast; rw [ih1, ih2]
      show _ = 2 * (Nat.fib (k + 3) : Int) - Nat.fib (k + 2)
      rw [h2, h1]; ring

/-- `lucas n = L n`, the Lucas number `F (n-1) + F (n+1) = 2 F (n+1) - F n`. -/
theorem lucas_spec (n : Nat) : (lucas n : Int) = 2 * Nat.fib (n + 1) - Nat.fib n := (lucasPair_eq n).1

example : fibonacci 10 = 55 ∧ lucas 10 = 123 ∧ fibonacci2 10 = (55, 34) ∧ lucas2 10 = (123, 76) := by decide

/-! ## factorial, binomial, divisibility -/

theorem factorial_spec (n : Nat) : factorial n = n.factorial := by
  induction n with
  | zero => rfl
  | succ k ih => simp [factorial, ih, Nat.factorial_succ]

theorem fallingFact_nat (n k : Nat) : fallingFact (n : Int) k = (n.descFactorial k : Nat) := by
  induction k with
  | zero => simp [fallingFact]
  | succ k ih =>
    rw [fallingFact, ih, Nat.descFactorial_succ]
    by_cases h : k ≤ n
    · push_cast [Nat.cast_sub h]; ring
    · have : n.descFactorial k = 0 := Nat.descFactorial_eq_zero_iff_lt.mpr (by omega)
      simp [this]

/-- `binomial n k` is the binomial coefficient for `n ≥ 0`. -/
theorem binomial_spec (n k : Nat) : binomial (n : Int) k = (n.choose k : Nat) := by
  rw [binomial, fallingFact_nat, factorial_spec, Nat.choose_eq_descFactorial_div_factorial]
  norm_cast

theorem fallingFact_neg (n k : Nat) : fallingFact (-(n : Int)) k = (-1) ^ k * ((n + k - 1).descFactorial k : Nat) := by
  induction k with
  | zero => simp [fallingFact]
  | succ k ih =>
    rw [fallingFact, ih]
    rcases Nat.eq_zero_or_pos n with h0 | hpos
    · subst h0
      cases k with
      | zero => simp
      | succ j =>
        have : (0 + (j + 1) - 1).descFactorial (j + 1) = 0 := Nat.descFactorial_eq_zero_iff_lt.mpr (by omega)
        have h2 : (0 + (j + 1 + 1) - 1).descFactorial (j + 1 + 1) = 0 := Nat.descFactorial_eq_zero_iff_lt.mpr (by omega)
        simp [this, h2]
    · have e : n + (k + 1) - 1 = (n + k - 1) + 1 := by omega
      rw [e, Nat.succ_descFactorial_succ]
      have : ((n + k - 1 + 1 : Nat) : Int) = n + k := by omega
      push_cast [this]
      ring

/-- for negative upper argument: `C(-n, k) = (-1)^k C(n+k-1, k)` (the GMP convention). -/
theorem binomial_neg_spec (n k : Nat) : binomial (-(n : Int)) k = (-1) ^ k * ((n + k - 1).choose k : Nat) := by
  rw [binomial, fallingFact_neg, factorial_spec, Nat.choose_eq_descFactorial_div_factorial]
  have hd : k.factorial ∣ (n + k - 1).descFactorial k := Nat.factorial_dvd_descFactorial _ _
  obtain ⟨c, hc⟩ := hd
  rw [hc, Nat.mul_div_cancel_left _ (Nat.factorial_pos k)]
  push_cast
  rw [show (-1 : Int) ^ k * ((k.factorial : Int) * c) = ((-1) ^ k * c) * k.factorial by ring]
  exact Int.mul_ediv_cancel _ (by exact_mod_cast (Nat.factorial_pos k).ne')

example : binomial 10 3 = 120 ∧ binomial (-3) 2 = 6 ∧ binomial (-1) 3 = -1 := by decide

/-- `divides a b` decides `b ∣ a`. -/
theorem divides_spec (a b : Int) : divides a b = true ↔ b ∣ a := by
  unfold divides
  by_cases hb : b = 0
  · subst hb; simp
  · have : (b == 0) = false := by simpa using hb
    simp only [this, Bool.false_eq_true, if_false, beq_iff_eq]
    exact ⟨Int.dvd_of_emod_eq_zero, Int.emod_eq_zero_of_dvd⟩

/-! ## factorisation, totient, Möbius, Mertens, Carmichael -/

/-- `prime_factor_multiplicities n` (for `n ≠ 0`) is the prime factorisation of `|n|`:
    primes with positive multiplicities, strictly ascending, product `|n|`, and the multiplicities are
    those of `Nat.factorization`. -/
theorem pfm_spec {n : Int} {l : List (Nat × Nat)} (hn : n ≠ 0) (h : primeFactorMultiplicities n = .ok l) :
    FactList l n.natAbs ∧ ∀ pe ∈ l, n.natAbs.factorization pe.1 = pe.2 :=
  ⟨pfm_factList hn h, (pfm_factList hn h).factorization_eq⟩

/-- it succeeds for every `|n| < 2^64` (`⌊√|n|⌋` fits an `unsigned`) -/
theorem pfm_total (n : Int) (h : Nat.sqrt n.natAbs ≤ uintMax) : ∃ l, primeFactorMultiplicities n = .ok l :=
  pfm_ok n h

example : ∃ l, primeFactorMultiplicities 360 = .ok l ∧ FactList l 360 := by
  obtain ⟨l, hl⟩ := pfm_total 360 ((Nat.sqrt_le_self _).trans (by decide))
  exact ⟨l, hl, (pfm_spec (by decide) hl).1⟩

/-- `totient n = φ(|n|)` -/
theorem totient_spec {n : Int} {v : Nat} (hn : n ≠ 0) (h : totient n = .ok v) : v = Nat.totient n.natAbs := by
  unfold totient at h
  have hn0 : (n == 0) = false := by simpa using hn
  simp only [hn0, Bool.false_eq_true, if_false] at h
  cases hl : primeFactorMultiplicities n with
  | error e => rw [hl] at h; exact absurd h (by simp [bind, Except.bind])
  | ok l =>
    rw [hl] at h
    simp only [bind, Except.bind, pure, Except.pure] at h
    injection h with h
    have := totientLoop_spec l n.natAbs 1 (pfm_factList hn hl)
    rw [mul_one, mul_one] at this
    rw [← h, this]

example : ∃ v, totient 36 = .ok v ∧ v = Nat.totient 36 := by
  obtain ⟨l, hl⟩ := pfm_total 36 ((Nat.sqrt_le_self _).trans (by decide))
  refine ⟨totientLoop l 36, ?_, ?_⟩
  · simp [totient, hl, bind, Except.bind, pure, Except.pure]
  · exact totient_spec (n := 36) (by decide) (by simp [totient, hl, bind, Except.bind, pure, Except.pure])

/-- `carmichael n = λ(|n|)` (Mathlib's reduced totient, the exponent of `(ℤ/n)ˣ`) -/
theorem carmichael_spec {n : Int} {v : Nat} (hn : n ≠ 0) (h : carmichael n = .ok v) :
    v = ArithmeticFunction.carmichael n.natAbs := by
  unfold carmichael at h
  have hn0 : (n == 0) = false := by simpa using hn
  simp only [hn0, Bool.false_eq_true, if_false] at h
  cases hl : primeFactorMultiplicities n with
  | error e => rw [hl] at h; exact absurd h (by simp [bind, Except.bind])
  | ok l =>
    rw [hl] at h
    simp only [bind, Except.bind, pure, Except.pure] at h
    injection h with h
    have := carmichaelLoop_spec l n.natAbs 1 (pfm_factList hn hl) (by decide)
      (fun q hq hd => absurd (Nat.dvd_one.mp hd) hq.ne_one)
    rw [← h, this, Nat.lcm_one_left]

/-- `mobius a = μ(a)` -/
theorem mobius_spec {a : Int} {v : Int} (ha : 0 < a) (h : mobius a = .ok v) :
    v = ArithmeticFunction.moebius a.natAbs := by
  unfold mobius at h
  have ha0 : ¬ (a ≤ 0) := by omega
  simp only [ha0, if_false] at h
  cases hl : primeFactorMultiplicities a with
  | error e => rw [hl] at h; exact absurd h (by simp [bind, Except.bind])
  | ok l =>
    rw [hl] at h
    simp only [bind, Except.bind, pure, Except.pure] at h
    have hm := moebius_factList l a.natAbs (pfm_factList (by omega) hl)
    rw [hm]
    by_cases hany : (l.any fun pe => decide (pe.2 > 1)) = true
    · rw [hany] at h; simp only [if_true] at h ⊢
      rw [if_pos hany]; injection h with h; exact h.symm
    · have hany' : (l.any fun pe => decide (pe.2 > 1)) = false := by simpa using hany
      rw [hany'] at h
      rw [if_neg hany]
      by_cases hpar : l.length % 2 = 0
      · simp [hpar] at h ⊢; exact h.symm
      · simp [hpar] at h ⊢; exact h.symm

theorem mertensLoop_spec : ∀ (f i : Nat) (acc v : Int), 1 ≤ i → mertensLoop f i acc = .ok v →
    v = acc + ∑ k ∈ Finset.range f, ArithmeticFunction.moebius (i + k) := by
  intro f
  induction f with
  | zero => intro i acc v _ h; simp [mertensLoop] at h; simp [h]
  | succ f ih =>
    intro i acc v hi h
    unfold mertensLoop at h
    cases hm : mobius (i : Int) with
    | error e => rw [hm] at h; exact absurd h (by simp [bind, Except.bind])
    | ok mu =>
      rw [hm] at h
      simp only [bind, Except.bind] at h
      have h1 := ih (i + 1) (acc + mu) v (by omega) h
      have h2 := mobius_spec (a := (i : Int)) (by omega) hm
      rw [Int.natAbs_natCast] at h2
      rw [h1, h2, Finset.sum_range_succ']
      have : ∀ k, i + 1 + k = i + (k + 1) := by intro k; ring
      simp only [this, add_zero]
      ring

/-- `mertens a = Σ_{k=1..a} μ(k)` -/
theorem mertens_spec {a : Nat} {v : Int} (h : mertens a = .ok v) :
    v = ∑ k ∈ Finset.range a, ArithmeticFunction.moebius (1 + k) := by
  have := mertensLoop_spec a 1 0 v (le_refl _) h
  simpa using this

/-! ## multiplicative order -/

/-- `multiplicative_order(a, n)` for `n ≠ 0`: fails exactly when `gcd(a, n) ≠ 1`, otherwise returns the
    order of `a` in `(ℤ/|n|)ˣ`, i.e. the least `k > 0` with `a^k ≡ 1 (mod |n|)`. -/
theorem multiplicative_order_spec {a n : Int} {r : Option Nat} (hn : n ≠ 0)
    (h : multiplicativeOrder a n = .ok r) :
    (r = none ∧ Int.gcd a n ≠ 1) ∨
    (∃ o, r = some o ∧ Int.gcd a n = 1 ∧ o = orderOf ((a : ZMod n.natAbs))) := by
  unfold multiplicativeOrder at h
  have hpos : 0 < n.natAbs := Int.natAbs_pos.mpr hn
  have hgm : Int.gcd a (n.natAbs : Int) = Int.gcd a n := by
    show Nat.gcd a.natAbs (n.natAbs : Int).natAbs = Nat.gcd a.natAbs n.natAbs
    rw [Int.natAbs_natCast]
  simp only [hgm] at h
  by_cases hg : Int.gcd a n = 1
  · right
    have : (Int.gcd a n != 1) = false := by simp [hg]
    simp only [this, Bool.false_eq_true, if_false] at h
    cases hlam : carmichael n with
    | error e => rw [hlam] at h; exact absurd h (by simp [bind, Except.bind])
    | ok lam =>
      rw [hlam] at h
      simp only [bind, Except.bind] at h
      have hlamv := carmichael_spec hn hlam
      cases hl : primeFactorMultiplicities (lam : Int) with
      | error e => rw [hl] at h; exact absurd h (by simp)
      | ok l =>
        rw [hl] at h
        have hnn0 : (n.natAbs == 0) = false := by simpa using hpos.ne'
        simp only [hnn0, Bool.false_eq_true, if_false] at h
        -- the element of `ZMod |n|`
        set nn := n.natAbs with hnn
        set x : ZMod nn := (a : ZMod nn) with hx
        have hxa : ((Int.tmod a nn : Int) : ZMod nn) = x := by
          have := Int.tmod_add_tdiv_mul a (nn : Int)
          rw [hx]
          conv_rhs => rw [← this]
          simp
        -- `x` is a unit, hence `x^λ = 1`
        have hcop : Nat.Coprime (a % (nn : Int)).toNat nn := by
          rw [Nat.Coprime, gcd_toNat_emod a nn hpos, hgm, hg]
        have hxn : x = (((a % (nn : Int)).toNat : Nat) : ZMod nn) := by
          rw [hx, ← Int.cast_natCast, Int.toNat_of_nonneg (Int.emod_nonneg _ (by omega))]
          simp
        have hxpow : x ^ lam = 1 := by
          have hu := ArithmeticFunction.pow_carmichael (ZMod.unitOfCoprime _ hcop)
          have := congrArg (fun u : (ZMod nn)ˣ => (u : ZMod nn)) hu
          simp only [Units.val_pow_eq_pow_val, ZMod.coe_unitOfCoprime, Units.val_one] at this
          rw [hxn, hlamv]; exact this
        have hlampos : 0 < lam := by
          rcases Nat.eq_zero_or_pos lam with h0 | h0
          · exfalso
            have hne : NeZero nn := ⟨hpos.ne'⟩
            have := ArithmeticFunction.carmichael_eq_exponent (n := nn) hpos.ne'
            rw [← hlamv, h0] at this
            exact (Monoid.exponent_ne_zero_of_finite (G := (ZMod nn)ˣ)) this.symm
          · exact h0
        by_cases hn2 : 2 ≤ nn
        · have hfl := pfm_factList (n := (lam : Int)) (by omega) hl
          rw [Int.natAbs_natCast] at hfl
          have hinv : OrdInv x lam l := by
            refine ⟨hlampos, hxpow, ?_, ?_, ?_⟩
            · intro pe hpe; exact ⟨(hfl.prime pe hpe).1, hfl.factorization_eq pe hpe⟩
            · exact hfl.sorted.imp (fun h => ne_of_lt h)
            · intro q hq hd
              obtain ⟨pe, hpe, rfl⟩ := hfl.prime_dvd hq hd
              exact Or.inl (List.mem_map.mpr ⟨pe, hpe, rfl⟩)
          obtain ⟨o, ho, hoo⟩ := orderLoop_spec hn2 x (Int.tmod a nn) hxa l lam hinv
          rw [ho] at h
          simp only [pure, Except.pure] at h
          injection h with h
          exact ⟨o, h.symm, hg, hoo⟩
        · -- |n| = 1: λ = 1, no refinement step
          have hn1 : nn = 1 := by omega
          have hlam1 : lam = 1 := by
            rw [hlamv, hn1]
            have := ArithmeticFunction.carmichael_two_pow_of_le_two (n := 0) (by omega)
            simpa using this
          subst hlam1
          have hl1 : l = [] := by
            have hfl := pfm_factList (n := ((1 : Nat) : Int)) (by decide) hl
            cases l with
            | nil => rfl
            | cons pe t =>
              exfalso
              have hpe := hfl.prime pe (by simp)
              have := hfl.prod
              rw [List.map_cons, List.prod_cons] at this
              have h1 : pe.1 ^ pe.2 ∣ 1 := ⟨_, this.symm⟩
              have h2 := Nat.one_lt_pow hpe.2.ne' hpe.1.one_lt
              have h3 := Nat.dvd_one.mp h1
              omega
          subst hl1
          simp only [orderLoop, pure, Except.pure] at h
          injection h with h
          refine ⟨1, h.symm, hg, ?_⟩
          have : Subsingleton (ZMod nn) := by rw [hn1]; infer_instance
          exact (orderOf_eq_one_iff.mpr (Subsingleton.elim _ _)).symm
  · left
    have : (Int.gcd a n != 1) = true := by simp [hg]
    simp only [this, if_true] at h
    injection h with h
    exact ⟨h.symm, hg⟩

/-! ## Chinese remainder theorem -/

/-- `crt(R, rem, mod)`: when it returns true, `R ≡ rem[i] (mod mod[i])` for every modulus; when it
    returns false, the system has no solution at all (`Sol x rem mod` = `∀ i, mod[i] ∣ x - rem[i]`). -/
theorem crt_spec {rem mod : List Int} {res : Option Int} (h : crt rem mod = .ok res) :
    (∀ R, res = some R → Sol R rem mod) ∧ (res = none → ¬ ∃ x, Sol x rem mod) := by
  unfold crt at h
  split at h
  · exact absurd h (by simp)
  · cases rem with
    | nil => cases mod <;> simp at h
    | cons r0 rs =>
      cases mod with
      | nil => simp at h
      | cons m0 ms =>
        simp only at h
        have := crtLoop_spec rs ms m0 r0 res h
        cases res with
        | some R =>
          simp only at this
          exact ⟨fun R' hR' => by injection hR' with hR'; subst hR'; exact sol_cons.mpr this, fun h => by simp at h⟩
        | none =>
          simp only at this
          refine ⟨fun R' hR' => by simp at hR', fun _ => ?_⟩
          rintro ⟨x, hx⟩
          exact this ⟨x, sol_cons.mp hx⟩

/-- with at least two moduli, all positive, the returned value is the least non-negative solution. -/
theorem crt_least {r0 r1 m0 m1 : Int} {rs ms : List Int} {R : Int} (h0 : 0 < m0) (h1 : 0 < m1)
    (hpos : ∀ x ∈ ms, 0 < x) (h : crt (r0 :: r1 :: rs) (m0 :: m1 :: ms) = .ok (some R)) :
    0 ≤ R ∧ ∀ x, 0 ≤ x → Sol x (r0 :: r1 :: rs) (m0 :: m1 :: ms) → R ≤ x := by
  unfold crt at h
  split at h
  · exact absurd h (by simp)
  · simp only at h
    obtain ⟨M, hM, hR0, hRM, hall⟩ := crtLoop_canon ms rs m1 r1 m0 r0 R h0 h1 hpos h
    refine ⟨hR0, ?_⟩
    intro x hx hsol
    obtain ⟨hs1, hs2⟩ := sol_cons.mp hsol
    obtain ⟨c, hc⟩ := hall x hs1 hs2
    by_contra hlt
    have hcneg : c < 0 := by
      by_contra hcc
      have : 0 ≤ M * c := Int.mul_nonneg hM.le (by omega)
      omega
    have : M * c ≤ M * (-1) := Int.mul_le_mul_of_nonneg_left (by omega) hM.le
    omega

/-- `crt` never fails when all moduli are non-zero and there are enough remainders. -/
theorem crt_total {r0 m0 : Int} {rs ms : List Int} (h0 : m0 ≠ 0) (hnz : ∀ x ∈ ms, x ≠ 0)
    (hlen : ms.length ≤ rs.length) : ∃ res, crt (r0 :: rs) (m0 :: ms) = .ok res := by
  unfold crt
  have : ¬ ((m0 :: ms).length > (r0 :: rs).length) := by simp; omega
  simp only [this, if_false]
  exact crtLoop_total ms rs m0 r0 h0 hnz hlen

example : ∃ res, crt [2, 4] [4, 6] = .ok res ∧
    ((∀ R, res = some R → Sol R [2, 4] [4, 6]) ∧ (res = none → ¬ ∃ x, Sol x [2, 4] [4, 6])) := by
  obtain ⟨res, h⟩ := crt_total (r0 := 2) (m0 := 4) (rs := [4]) (ms := [6]) (by decide) (by decide) (by decide)
  exact ⟨res, h, crt_spec h⟩

/-! ## modular powers -/

/-- `powermod(a, b, m)` with an integer exponent (`den = 1`), `m ≠ 0`:
    for `b ≥ 0` the result is `a^b mod |m|`; for `b < 0` it is the inverse of `a^|b|` in `[0,|m|)`,
    or "false" exactly when `gcd(a^|b|, m) ≠ 1`. -/
theorem powermod_spec {a b m : Int} {res : Option Int} (hm : m ≠ 0) (h : powermod a b 1 m = .ok res) :
    (0 ≤ b → res = some (a ^ b.toNat % (m.natAbs : Int))) ∧
    (b < 0 → (Int.gcd (a ^ b.natAbs) m = 1 → ∃ v, res = some v ∧ 0 ≤ v ∧ v < (m.natAbs : Int) ∧
                (a ^ b.natAbs * v) % (m.natAbs : Int) = 1 % (m.natAbs : Int)) ∧
             (Int.gcd (a ^ b.natAbs) m ≠ 1 → res = none)) := by
  have hpos : 0 < m.natAbs := Int.natAbs_pos.mpr hm
  have hm0 : (m == 0) = false := by simpa using hm
  have hg1 : NTheory.gcd b 1 = 1 := by simp [NTheory.gcd]
  have hpw : mpPowm a (b.natAbs : Int) m = .ok (a ^ b.natAbs % (m.natAbs : Int)) := by
    simp only [mpPowm, hm0, Bool.false_eq_true, if_false]
    have : (b.natAbs : Int) ≥ 0 := by omega
    simp only [this, if_true, Int.toNat_natCast]
    rw [powmN_eq a b.natAbs m.natAbs hpos]
  have hred : powermod a b 1 m = powInv a b m := by
    simp [powermod, hg1]
  rw [hred, powInv, hpw] at h
  simp only [bind, Except.bind, pure, Except.pure] at h
  constructor
  · intro hb
    have : ¬ b < 0 := by omega
    simp only [this, if_false] at h
    injection h with h
    rw [← h]
    have : b.toNat = b.natAbs := by omega
    rw [this]
  · intro hb
    simp only [hb, if_true] at h
    injection h with h
    have hmi := mod_inverse_spec (a ^ b.natAbs % (m.natAbs : Int)) m hm
    have hgcd : Int.gcd (a ^ b.natAbs % (m.natAbs : Int)) m = Int.gcd (a ^ b.natAbs) m := by
      have := Int.gcd_emod (a ^ b.natAbs) (m.natAbs : Int)
      have e : ∀ z : Int, Int.gcd z (m.natAbs : Int) = Int.gcd z m := by
        intro z
        show Nat.gcd z.natAbs (m.natAbs : Int).natAbs = Nat.gcd z.natAbs m.natAbs
        rw [Int.natAbs_natCast]
      rw [e, e] at this; exact this
    simp only [modInverse, hm0, Bool.false_eq_true, if_false] at hmi
    rw [hgcd] at hmi
    constructor
    · intro hc
      obtain ⟨inv, h1, h2, h3, h4⟩ := hmi.1 hc
      refine ⟨inv, by rw [← h, h1], h2, h3, ?_⟩
      rw [← h4]
      exact (Int.ModEq.mul_right _ (Int.mod_modEq _ _)).symm
    · intro hc
      rw [← h, hmi.2 hc]

/-! ## primitive roots (prime modulus) -/

/-- `primitive_root(g, p)` for a prime `p ≥ 5` (with `⌊√(p-1)⌋` fitting an `unsigned`): it succeeds and
    returns the least `g ≥ 2` whose multiplicative order modulo `p` is `p - 1`. -/
theorem primitive_root_prime_partial {p : Nat} (hp : p.Prime) (h5 : 5 ≤ p) (hr : Nat.sqrt (p - 1) ≤ uintMax) :
    ∃ g, primitiveRoot (p : Int) = .ok (some g) ∧ 2 ≤ g ∧ g < p ∧ orderOf ((g : ZMod p)) = p - 1 ∧
      ∀ j, 2 ≤ j → j < g → orderOf ((j : ZMod p)) ≠ p - 1 := by
  have hodd : p % 2 = 1 := by
    rcases hp.eq_two_or_odd with h | h
    · omega
    · exact h
  have hnat : ((p : Int) - 1).natAbs = p - 1 := by omega
  obtain ⟨l, hl⟩ := pfm_ok ((p : Int) - 1) (by rw [hnat]; exact hr)
  have hfl := pfm_factList (n := (p : Int) - 1) (by omega) hl
  rw [hnat] at hfl
  set primes := l.flatMap (fun pe => List.replicate pe.2 pe.1) with hprimes
  have hmem : ∀ q, q ∈ primes ↔ q.Prime ∧ q ∣ p - 1 := by
    intro q
    rw [hprimes, List.mem_flatMap]
    constructor
    · rintro ⟨pe, hpe, hq⟩
      obtain ⟨_, rfl⟩ := List.mem_replicate.mp hq
      refine ⟨(hfl.prime pe hpe).1, ?_⟩
      have hf := hfl.factorization_eq pe hpe
      have hpos := (hfl.prime pe hpe).2
      exact Nat.dvd_of_factorization_pos (by omega)
    · rintro ⟨hq, hd⟩
      obtain ⟨pe, hpe, rfl⟩ := hfl.prime_dvd hq hd
      exact ⟨pe, hpe, List.mem_replicate.mpr ⟨(hfl.prime pe hpe).2.ne', rfl⟩⟩
  obtain ⟨g0, hg02, hg0p, hg0o⟩ := exists_primitive_root hp (by omega)
  have hcheck0 : isRootCheck p g0 primes = true :=
    (isRootCheck_iff hp g0 (by omega) hg0p primes hmem).mpr hg0o
  obtain ⟨r1, r2, r3, r4⟩ := findRootLoop_spec hp primes p 2 g0 hg02 hg0p (by omega) hcheck0
  refine ⟨findRootLoop p primes p 2, ?_, r1, by omega, ?_, ?_⟩
  · unfold primitiveRoot
    simp only [Int.natAbs_natCast]
    have c1 : ¬ p ≤ 1 := by omega
    have c2 : ¬ p < 5 := by omega
    have c3 : (p % 2 == 0 && p % 4 == 0) = false := by simp [hodd]
    have c4 : (p % 2 == 0) = false := by simp [hodd]
    simp only [c1, c2, c3, c4, if_false, Bool.false_eq_true, primePower_prime hp]
    simp only [primitiveRootPE, primeFactors, hl, bind, Except.bind, pure, Except.pure]
    have c5 : ¬ (1 > 1) := by omega
    simp [← hprimes]
  · exact (isRootCheck_iff hp _ (by omega) (by omega) primes hmem).mp r3
  · intro j hj1 hj2 hjo
    have := r4 j hj1 hj2
    rw [(isRootCheck_iff hp j (by omega) (by omega) primes hmem).mpr hjo] at this
    exact absurd this (by simp)

example : ∃ g, primitiveRoot 7 = .ok (some g) ∧ 2 ≤ g ∧ g < 7 ∧ orderOf ((g : ZMod 7)) = 7 - 1 ∧
    ∀ j, 2 ≤ j → j < g → orderOf ((j : ZMod 7)) ≠ 7 - 1 :=
  primitive_root_prime_partial (p := 7) Nat.prime_seven (by decide) ((Nat.sqrt_le_self _).trans (by decide))

/-! ## Legendre / Jacobi / Kronecker symbols -/

/-- `jacobi(a, b)` (the same GMP routine serves `legendre` and `kronecker`) is Mathlib's Jacobi symbol
    for every odd positive `b`; in particular the Legendre symbol when `b` is an odd prime. -/
theorem jacobi_spec (a : Int) {b : Nat} (hb : b % 2 = 1) : kronecker a (b : Int) = jacobiSym a b :=
  kronecker_eq_jacobiSym a hb

example : kronecker 2 (15 : Nat) = jacobiSym 2 15 := jacobi_spec 2 (by decide)

/-! ## harmonic numbers, polygonal numbers -/

/-- `harmonic(n, m)` is `Σ_{i=1..n} 1/i^m` (`Σ i^|m|` for `m ≤ 0`), as a rational number. -/
theorem harmonic_spec (n : Nat) (m : Int) :
    (NTheory.harmonic n m).toRat = ∑ k ∈ Finset.range n, harmTerm m (1 + k) ∧
      0 < (NTheory.harmonic n m).den := by
  have := harmonicLoop_spec m n 1 ⟨0, 1⟩ (le_refl _) (by decide)
  simpa [NTheory.harmonic, Q.toRat] using this

/-- for `m = 1` this is Mathlib's `harmonic n`. -/
theorem harmonic_one_spec (n : Nat) : (NTheory.harmonic n 1).toRat = _root_.harmonic n := by
  rw [(harmonic_spec n 1).1, _root_.harmonic]
  apply Finset.sum_congr rfl
  intro k _
  simp [harmTerm, add_comm]

/-- `polygonal_number(s, n) = ((s-2) n² - (s-4) n)/2`, the division being exact. -/
theorem polygonal_spec (s n : Int) : 2 * mpPolygonalNumber s n = (s - 2) * n * n - (s - 4) * n := by
  unfold mpPolygonalNumber
  have heven : (2 : Int) ∣ (s - 2) * n * n - (s - 4) * n := by
    have : (s - 2) * n * n - (s - 4) * n = (s - 2) * (n * (n - 1)) + 2 * n := by ring
    rw [this]
    have h2 : (2 : Int) ∣ n * (n - 1) := by
      rcases Int.emod_two_eq_zero_or_one n with h | h
      · exact Dvd.dvd.mul_right (Int.dvd_of_emod_eq_zero h) _
      · exact Dvd.dvd.mul_left (Int.dvd_of_emod_eq_zero (by omega)) _
    exact Int.dvd_add (Dvd.dvd.mul_left h2 _) (Dvd.intro _ rfl)
  obtain ⟨c, hc⟩ := heven
  rw [hc, Int.mul_tdiv_cancel_left _ (by decide)]

/-! ## n-th power residues (odd prime powers, unit residues) -/

/-- the solvability test used by `is_nth_residue`, `is_quad_residue` and (as its first step) by
    `nthroot_mod(_list)` for an odd prime power `p^k` and `p ∤ a`:
    `a^(φ/gcd(φ,n)) ≡ 1 (mod p^k)` holds exactly when `x^n ≡ a (mod p^k)` has a solution. -/
theorem is_nthroot_mod1_spec {p : Nat} (hp : p.Prime) (hp2 : p ≠ 2) (a n : Int) (k : Nat) (hk : 1 ≤ k)
    (hn : 1 ≤ n) (ha : ¬ (p : Int) ∣ a) :
    isNthrootMod1 a n p k = true ↔ ∃ x : ZMod (p ^ k), x ^ n.toNat = (a : ZMod (p ^ k)) :=
  isNthrootMod1_iff hp hp2 a n k hk hn ha

example : isNthrootMod1 2 2 7 1 = true ↔ ∃ x : ZMod (7 ^ 1), x ^ (2 : Int).toNat = ((2 : Int) : ZMod (7 ^ 1)) :=
  is_nthroot_mod1_spec Nat.prime_seven (by decide) 2 2 1 (by decide) (by decide) (by decide)

/-- one complete branch of `_nthroot_mod_prime_power` (`all_roots = true`, `a ≡ 0 (mod p^k)`):
    the list is exactly `{x ∈ [0, p^k) | x^n ≡ 0 (mod p^k)}` (soundness and completeness). -/
theorem nthroot_zero_branch_partial {p : Nat} (hp : p.Prime) (a n : Int) (k f : Nat) (hk : 1 ≤ k)
    (hn : 1 ≤ n) (ha : ((p ^ k : Nat) : Int) ∣ a) :
    ∃ l, nthrootModPrimePower a n p true (f + 1) k = .ok (some l) ∧
      ∀ x : Int, x ∈ l ↔ 0 ≤ x ∧ x < ((p ^ k : Nat) : Int) ∧ ((p ^ k : Nat) : Int) ∣ x ^ n.toNat :=
  nthroot_zero_branch hp a n k f hk hn ha

example : ∃ l, nthrootModPrimePower 27 2 3 true (3 + 1) 3 = .ok (some l) ∧
    ∀ x : Int, x ∈ l ↔ 0 ≤ x ∧ x < ((3 ^ 3 : Nat) : Int) ∧ ((3 ^ 3 : Nat) : Int) ∣ x ^ (2 : Int).toNat :=
  nthroot_zero_branch_partial Nat.prime_three 27 2 3 3 (by decide) (by decide) (by decide)

end SymVerif.C32
