import SymVerif.Model.Num
import SymVerif.Lemmas.C29Sub
/-!
C29 — number comparisons agree with numeric order.

`relLt / relLe / relGt / relGe / relEq / relNe` are the numeric branches of `Lt / Le / Gt / Ge / Eq / Ne`
(logic.cpp) as run by the driver `drv_c29`.  `rv S a : EReal` is the numeric value of a real number of
any kind (Integer, Rational, finite RealDouble, `+oo`, `-oo`).  Doubles are elements of an arbitrary
type `F`; the IEEE facts used are the fields of `FloatSpec` (stated as hypotheses: Lean's `Float` is
opaque to the kernel).  When an exact number is compared with a double the library first converts it
with `mpz_get_d / mpq_get_d`; the theorems require that conversion to be exact (`ConvOK`).
-/
namespace SymVerif.C29
open SymVerif.Num SymVerif.Num.FloatOps

set_option linter.unusedSimpArgs false
set_option linter.unusedVariables false
set_option linter.unusedSectionVars false
set_option warn.classDefReducibility false

variable {F : Type} [FloatOps F]

theorem relGuard_false (S : FloatSpec F) {a b : Num F} (ha : RealNum S a) (hb : RealNum S b) :
    relGuard a b = false := by
  cases ha <;> cases hb <;> simp [relGuard, isComplexKind, isNan, isZoo]

/-- structurally equal real numbers have equal values -/
theorem eqNum_rv (S : FloatSpec F) {a b : Num F} (ha : RealNum S a) (hb : RealNum S b)
    (h : eqNum a b = true) : rv S a = rv S b := by
  cases ha <;> cases hb <;> simp only [eqNum, Bool.false_eq_true] at h
  · rename_i n m; have : n = m := by simpa using h
    rw [this]
  · rename_i q _ p _; have : q = p := by simpa using h
    rw [this]
  · rename_i d hd e he
    simp only [rv, qe_eq]; exact (S.beq_iff d e hd he).mp h
  · rfl
  · simp at h
  · simp at h
  · rfl

/-- the hypotheses on a pair of operands: both real, and an exact operand facing a double converts exactly -/
structure RealPair (S : FloatSpec F) (a b : Num F) : Prop where
  ra : RealNum S a
  rb : RealNum S b
  ca : isDbl b → ConvOK S a
  cb : isDbl a → ConvOK S b

theorem RealPair.symm {S : FloatSpec F} {a b : Num F} (h : RealPair S a b) : RealPair S b a :=
  ⟨h.rb, h.ra, h.cb, h.ca⟩

/-- **C29 (a)** `Lt(a, b)` is true exactly when `a < b` numerically. -/
theorem lt_spec (S : FloatSpec F) (a b : Num F) (h : RealPair S a b) :
    ∃ r, relLt a b = .ok r ∧ (r = true ↔ rv S a < rv S b) := by
  unfold relLt
  rw [relGuard_false S h.ra h.rb]
  by_cases he : eqNum a b = true
  · refine ⟨false, by simp [he], ?_⟩
    have := eqNum_rv S h.ra h.rb he
    simp [this]
  · have he' : eqNum a b = false := by simpa using he
    obtain ⟨s, hs, sg⟩ := sub_sign S a b h.ra h.rb h.ca h.cb he'
    exact ⟨s.isNegative, by simp [he', hs], sg.neg⟩

/-- **C29 (a)** `Le(a, b)` is true exactly when `a ≤ b` numerically (this is the statement that fails
for the unpatched `Le`, defect D5). -/
theorem le_spec (S : FloatSpec F) (a b : Num F) (h : RealPair S a b) :
    ∃ r, relLe a b = .ok r ∧ (r = true ↔ rv S a ≤ rv S b) := by
  unfold relLe
  rw [relGuard_false S h.ra h.rb]
  by_cases he : eqNum a b = true
  · refine ⟨true, by simp [he], ?_⟩
    have := eqNum_rv S h.ra h.rb he
    simp [this]
  · have he' : eqNum a b = false := by simpa using he
    obtain ⟨s, hs, sg⟩ := sub_sign S a b h.ra h.rb h.ca h.cb he'
    refine ⟨s.isNegative || s.isZero, by simp [he', hs], ?_⟩
    rw [Bool.or_eq_true, sg.neg, sg.zero, le_iff_lt_or_eq]

/-- **C29 (a)** `Gt(a, b)` / `Ge(a, b)` -/
theorem gt_spec (S : FloatSpec F) (a b : Num F) (h : RealPair S a b) :
    ∃ r, relGt a b = .ok r ∧ (r = true ↔ rv S a > rv S b) :=
  lt_spec S b a h.symm

theorem ge_spec (S : FloatSpec F) (a b : Num F) (h : RealPair S a b) :
    ∃ r, relGe a b = .ok r ∧ (r = true ↔ rv S a ≥ rv S b) :=
  le_spec S b a h.symm

/-- **C29 (b)** `Le(a, b)` is the negation of `Lt(b, a)`. -/
theorem le_not_lt (S : FloatSpec F) (a b : Num F) (h : RealPair S a b) :
    ∃ r, relLe a b = .ok r ∧ relLt b a = .ok (!r) := by
  obtain ⟨r, hr, hr'⟩ := le_spec S a b h
  obtain ⟨t, ht, ht'⟩ := lt_spec S b a h.symm
  refine ⟨r, hr, ?_⟩
  rw [ht]; congr 1
  have key : (r = true) ↔ ¬ (t = true) := by rw [hr', ht', not_lt]
  cases r <;> cases t <;> simp at key ⊢

/-- **C29 (b)** `Ge(a, b)` is `Le(b, a)` and `Gt(a, b)` is `Lt(b, a)` (for all numbers, by construction). -/
theorem ge_eq_le (a b : Num F) : relGe a b = relLe b a := rfl
theorem gt_eq_lt (a b : Num F) : relGt a b = relLt b a := rfl

/-- **C29 (c)** `Eq` is symmetric for all numbers of all kinds (`==` on doubles is symmetric). -/
theorem eq_symm (hs : ∀ x y : F, beq x y = beq y x) (a b : Num F) : relEq a b = relEq b a := by
  have he : eqNum a b = eqNum b a := by
    cases a <;> cases b <;> simp only [eqNum]
    · exact BEq.comm
    · exact BEq.comm
    · rename_i r i r' i'; rw [BEq.comm (a := r), BEq.comm (a := i)]
    · exact hs _ _
    · rename_i x y x' y'; rw [hs x x', hs y y']
    · exact BEq.comm
  simp only [relEq, he, Bool.or_comm]

/-- **C29 (c)** `Ne` is the negation of `Eq`, for all numbers of all kinds; hence symmetric too. -/
theorem ne_not_eq (a b : Num F) : ∃ r, relEq a b = .ok r ∧ relNe a b = .ok (!r) := by
  unfold relNe relEq
  split <;> exact ⟨_, rfl, rfl⟩

theorem ne_symm (hs : ∀ x y : F, beq x y = beq y x) (a b : Num F) : relNe a b = relNe b a := by
  unfold relNe; rw [eq_symm hs a b]

/-! ### order laws across kinds (corollaries of the value specifications) -/

/-- `Lt` is a strict order on every family of real numbers that pairwise meet the hypotheses:
asymmetric … -/
theorem lt_asymm_rel (S : FloatSpec F) (a b : Num F) (h : RealPair S a b)
    (hab : relLt a b = .ok true) : relLt b a = .ok false := by
  obtain ⟨r, hr, hr'⟩ := lt_spec S a b h
  obtain ⟨t, ht, ht'⟩ := lt_spec S b a h.symm
  rw [hr] at hab
  have hrt : r = true := by injection hab
  have h1 := hr'.mp hrt
  rw [ht]; congr 1
  cases t with
  | false => rfl
  | true => exact absurd (ht'.mp rfl) (not_lt.mpr (le_of_lt h1))

/-- … and transitive, across number kinds (Integer < Rational < RealDouble < Infinity chains included) -/
theorem lt_trans_rel (S : FloatSpec F) (a b c : Num F) (hab : RealPair S a b) (hbc : RealPair S b c)
    (hac : RealPair S a c) (h1 : relLt a b = .ok true) (h2 : relLt b c = .ok true) :
    relLt a c = .ok true := by
  obtain ⟨r1, e1, s1⟩ := lt_spec S a b hab
  obtain ⟨r2, e2, s2⟩ := lt_spec S b c hbc
  obtain ⟨r3, e3, s3⟩ := lt_spec S a c hac
  rw [e1] at h1; rw [e2] at h2
  have t1 : r1 = true := by injection h1
  have t2 : r2 = true := by injection h2
  rw [e3]; congr 1
  exact s3.mpr (lt_trans (s1.mp t1) (s2.mp t2))

/-- `Le` is total on such pairs: at least one of `Le(a, b)`, `Le(b, a)` is true -/
theorem le_total_rel (S : FloatSpec F) (a b : Num F) (h : RealPair S a b) :
    ∃ r t, relLe a b = .ok r ∧ relLe b a = .ok t ∧ (r || t) = true := by
  obtain ⟨r, hr, hr'⟩ := le_spec S a b h
  obtain ⟨t, ht, ht'⟩ := le_spec S b a h.symm
  refine ⟨r, t, hr, ht, ?_⟩
  rcases le_total (rv S a) (rv S b) with hle | hle
  · rw [hr'.mpr hle]; rfl
  · rw [ht'.mpr hle]; simp

/-- `Le` both ways means numerically equal values (antisymmetry, up to value) -/
theorem le_antisymm_rel (S : FloatSpec F) (a b : Num F) (h : RealPair S a b)
    (h1 : relLe a b = .ok true) (h2 : relLe b a = .ok true) : rv S a = rv S b := by
  obtain ⟨r, hr, hr'⟩ := le_spec S a b h
  obtain ⟨t, ht, ht'⟩ := le_spec S b a h.symm
  rw [hr] at h1; rw [ht] at h2
  have t1 : r = true := by injection h1
  have t2 : t = true := by injection h2
  exact le_antisymm (hr'.mp t1) (ht'.mp t2)

/-- complex, nan and zoo operands: the order relations throw (SymEngineException) -/
theorem order_guard (a b : Num F) (h : relGuard a b = true) :
    relLt a b = .error .runtime ∧ relLe a b = .error .runtime := by
  simp [relLt, relLe, h]

/-- **defect D5** in the unpatched `Le`: for an integer and a double of the same value
`Le(1, 1.0)` is false although `Lt(1.0, 1)` is false as well. -/
theorem D5_orig (S : FloatSpec F) (n : Int) (d : F) (hd : S.fin d) (hc : ConvOK S (.int n))
    (hv : S.fv d = n) :
    relLeOrig (.int n) (.dbl d) = .ok false ∧ relLt (.dbl d) (.int n) = .ok false := by
  obtain ⟨c1, c2⟩ := hc
  have h1 : isNeg (fsub (ofInt n) d) = false := by
    have := (S.isNeg_sub _ _ c1 hd).not
    simp only [Bool.not_eq_true] at this
    exact this.mpr (by rw [c2, hv]; exact lt_irrefl _)
  have h2 : isNeg (fsub d (ofInt n)) = false := by
    have := (S.isNeg_sub _ _ hd c1).not
    simp only [Bool.not_eq_true] at this
    exact this.mpr (by rw [c2, hv]; exact lt_irrefl _)
  constructor
  · simp [relLeOrig, relGuard, isComplexKind, isNan, isZoo, eqNum, Num.sub, intSub, dblRsub,
      Num.isNegative, h1]
  · simp [relLt, relGuard, isComplexKind, isNan, isZoo, eqNum, Num.sub, dblSub, Num.isNegative, h2]

/-! ### non-vacuity: a structure satisfying `FloatSpec`, and concrete instances -/

/-- toy float operations: exact integer arithmetic -/
@[reducible] def toyOps : FloatOps Int where
  fadd := (· + ·)
  fsub := (· - ·)
  fmul := (· * ·)
  fdiv := (· / ·)
  fneg := fun x => -x
  fpow := fun x y => x ^ y.toNat
  ofInt := id
  ofQ := fun q => q.num / q.den
  isPos := fun x => decide (0 < x)
  isNeg := fun x => decide (x < 0)
  isZero := fun x => x == 0
  isNaN := fun _ => false
  beq := fun x y => x == y

/-- the IEEE hypotheses are satisfiable -/
def toySpec : @FloatSpec Int toyOps :=
  @FloatSpec.mk Int toyOps (fun _ => True) (fun x => (x : ℚ))
    (by intro x y _ _
        show (x == y) = true ↔ (x : ℚ) = y
        simp)
    (by intro x y _ _
        show decide (x - y < 0) = true ↔ (x : ℚ) < y
        rw [decide_eq_true_eq]
        constructor
        · intro h; exact_mod_cast (by omega : x < y)
        · intro h; have : x < y := by exact_mod_cast h
          omega)
    (by intro x y _ _
        show (x - y == 0) = true ↔ (x : ℚ) = y
        rw [beq_iff_eq]
        constructor
        · intro h; exact_mod_cast (by omega : x = y)
        · intro h; have : x = y := by exact_mod_cast h
          omega)

attribute [local instance] toyOps in
/-- `Le(1, 1.0)` in the toy structure: the hypotheses of `le_spec` are met by an integer facing a double -/
example : ∃ r, @relLe Int toyOps (.int 1) (.dbl 1) = .ok r ∧
    (r = true ↔ @rv Int toyOps toySpec (.int 1) ≤ @rv Int toyOps toySpec (.dbl 1)) :=
  @le_spec Int toyOps toySpec (.int 1) (.dbl 1)
    ⟨.int 1, .dbl 1 trivial, fun _ => ⟨trivial, rfl⟩, fun h => h.elim⟩

/-- exact operands need no float hypothesis at all -/
example (S : FloatSpec F) : ∃ r, relLt (F := F) (.rat ⟨1, 3⟩) (.infty 1) = .ok r ∧
    (r = true ↔ rv S (.rat ⟨1, 3⟩) < rv S (.infty 1)) :=
  lt_spec S (.rat ⟨1, 3⟩) (.infty 1)
    ⟨.rat _ ⟨by decide, by decide⟩, .pinf, fun h => h.elim, fun h => h.elim⟩

example (S : FloatSpec F) : ∃ r, relLe (F := F) (.int (-2)) (.rat ⟨-7, 3⟩) = .ok r ∧
    relLt (F := F) (.rat ⟨-7, 3⟩) (.int (-2)) = .ok (!r) :=
  le_not_lt S (.int (-2)) (.rat ⟨-7, 3⟩)
    ⟨.int _, .rat _ ⟨by decide, by decide⟩, fun h => h.elim, fun h => h.elim⟩

end SymVerif.C29
