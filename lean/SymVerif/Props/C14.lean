/-
C14 — LLVM-compiled functions (LLVMVisitor::init / call, symengine/llvm_double.cpp).

What is proved, for every number structure (`LOps α`), about the functions the driver runs
(`LLVMD.lower`, `compileT`, `initV`, `run`) over the table translated from llvm_double.cpp on this run
(Gen/LLVMFormulas.lean):

 1. `symbol_cse_first`, `init_clears_state`: two facts about the source, re-translated on every run:
    bvisit(Symbol) consults the CSE replacement symbols before the inputs; init() clears
    symbol_ptrs / replacement_symbol_ptrs on entry.  (Both false in the unpatched source: defects.)
 2. `llvm_table_agree`: every node kind that is a plain function call in both LLVMVisitor and
    LambdaRealDoubleVisitor calls the *same* function with the operands in the *same* order
    (intrinsic / libm name ↦ M-Eval `Fn`); `rewrites_agree`: the twelve RewriteTrigVisitor rewrites
    are lambda_double's formulas; `llvm_differs_by_design` lists the kinds generated structurally;
    `llvm_kinds_cover_lambda`: nothing lambda_double evaluates is missing.
 3. `compileT_correct`: the instructions generated for an operator tree compute, in every register
    file in which the symbols are bound correctly, the reference value `evalT` of the tree
    (constant folding included); `initV_correct_plain`: after a successful init without CSE, `call xs`
    returns the reference value of every output; `reinit_fresh`: a visitor whose previous init
    threw behaves like a fresh one; `initV_wellformed`: the generated program is in SSA form (every
    operand defined earlier, every output defined), plain and CSE path.
 4. `evalOp_*`: what the reference value of each operator is in terms of the number structure.

LLVM's optimiser, instruction selection, JIT and the dumps/loads round trip are outside the kernel
(partial); they are exercised by the harness at every optimisation level.
-/
import SymVerif.Lemmas.C14WF
import SymVerif.Gen.LLVMFormulas
import SymVerif.Gen.EvalFormulas

namespace SymVerif.C14
open SymVerif SymVerif.EvalG SymVerif.LLVMD

variable {α : Type}

/-! ## 1. source facts -/

/-- translated from LLVMVisitor::bvisit(const Symbol&): replacement symbols shadow inputs -/
theorem symbol_cse_first : LLVMD.Gen.symbolInputsFirst = false := by decide

/-- translated from LLVMVisitor::init: symbol_ptrs / replacement_symbol_ptrs are cleared on entry -/
theorem init_clears_state : LLVMD.Gen.initClearsState = true := by decide

/-! ## 2. table agreement with lambda_double -/

/-- comparison a predicate computes on ordered (non-NaN) operands -/
def cmpOf : FPred → Option Cmp
  | .oeq => some .eq | .ueq => some .eq
  | .one => some .ne | .une => some .ne
  | .ole => some .le | .olt => some .lt
  | _ => none

/-- the M-Eval formula a node kind denotes when it is a plain function of its operands -/
def ldefFormula : LDef → Option Formula
  | .intrinsic n => (calleeFn1 n).map fun f => .call1 f (.arg 0)
  | .external n =>
    match calleeFn1 n with
    | some f => some (.call1 f (.arg 0))
    | none => (calleeFn2 n).map fun f => .call2 f (.arg 0) (.arg 1)
  | .relational p => (cmpOf p).map fun c => .cmp c (.arg 0) (.arg 1)
  | _ => none

def agreeL (p : String × LDef) : Bool :=
  match ldefFormula p.2, EvalG.Gen.lambdaReal.find p.1 with
  | some f, some (.fn g) => decide (f = g)
  | some _, some _ => false
  | _, _ => true

/-- **Same function, same operand order as lambda_double**, for every kind that is a plain call. -/
theorem llvm_table_agree : ∀ p ∈ LLVMD.Gen.llvmDefs, agreeL p = true := by
  decide

/-- kinds both evaluators define for which LLVMVisitor generates code structurally (modelled in `lower`) -/
def structural : List String :=
  (LLVMD.Gen.llvmDefs.filter fun p => (ldefFormula p.2).isNone && (EvalG.Gen.lambdaReal.find p.1).isSome).map (·.1)

theorem llvm_differs_by_design :
    structural = ["Integer", "Rational", "RealDouble", "BooleanAtom", "Infty", "NaN", "Constant", "Symbol", "Add", "Mul",
                  "Pow", "Piecewise", "Sign", "Contains", "Not", "UnevaluatedExpr", "Max", "Min", "And", "Or", "Xor"] := by
  decide

/-- the ordered `!=` (`fcmp one`) is the only comparison whose NaN behaviour differs from C's operator -/
theorem relational_predicates :
    (LLVMD.Gen.llvmDefs.filterMap fun p => match p.2 with
      | .relational q => some (p.1, q)
      | _ => none)
    = [("Equality", .oeq), ("Unequality", .one), ("LessThan", .ole), ("StrictLessThan", .olt)] := by
  decide

/-- the formula lambda_double uses for a rewritten kind -/
def rewriteFormula (recipOutside : Bool) (fn : String) : Option Formula :=
  match EvalG.Gen.lambdaReal.find fn with
  | some (.fn (.call1 f (.arg 0))) =>
    some (if recipOutside then .div (.lit 1 1) (.call1 f (.arg 0)) else .call1 f (.div (.lit 1 1) (.arg 0)))
  | _ => none

/-- RewriteTrigVisitor's rewrites (`Cot x ↦ 1/Tan x`, `ASec x ↦ ACos (1/x)`, …) are exactly the
formulas lambda_double evaluates for those kinds -/
theorem rewrites_agree :
    ∀ r ∈ LLVMD.Gen.rewrites,
      (match rewriteFormula r.2.1 r.2.2, EvalG.Gen.lambdaReal.find r.1 with
        | some f, some (.fn g) => decide (f = g)
        | _, _ => false) = true := by
  decide

/-- every node kind lambda_double evaluates is compiled: directly or through a rewrite -/
theorem llvm_kinds_cover_lambda :
    ∀ p ∈ EvalG.Gen.lambdaReal,
      ((LLVMD.Gen.llvmDefs.find p.1).isSome || (LLVMD.Gen.rewrites.map (·.1)).contains p.1) = true := by
  decide

/-! ## 3. the code generator is correct -/

/-- **Code generation is correct** for every operator tree, program prefix, environment and input
vector: the appended instructions compute `evalT`, and the result operand is defined. -/
theorem compileT_correct (L : LOps α) (xs : List α) (env : String → Option (Val α)) (venv : String → Option α)
    (t : T α) (P : Prog α) (v : Val α) (P' : Prog α) (h : compileT L env t P = .ok (v, P')) :
    ∃ ext, P' = P ++ ext ∧ ∀ regs, regs.length = P.length → EnvOK env venv regs →
      (v.lt (exec L xs regs ext).length ∧ valOf (exec L xs regs ext) v = evalT L venv t) :=
  compileT_sim L xs env venv t P v P' h

/-- the configuration the driver runs, for any number structure -/
def cfgOf (L : LOps α) : Cfg α :=
  { L := L, defs := LLVMD.Gen.llvmDefs, consts := EvalG.Gen.visitorReal,
    inputsFirst := LLVMD.Gen.symbolInputsFirst, clearsState := LLVMD.Gen.initClearsState }

/-- **Headline (plain path).**  For ANY prior state of the visitor: after a successful
`init(inputs, outputs, cse = false)`, `call xs` returns, for every output expression, the reference
value of the operator tree the visitor generated code for. -/
theorem initV_correct_plain (L : LOps α) (S S' : VState) (ins : List String) (outs : List Expr) (C : Compiled α)
    (hinit : initV (cfgOf L) S ins outs none = (S', .ok C)) (xs : List α) (hxs : xs.length = ins.length) :
    run L C xs = outs.map (evalL (cfgOf L) (tab0 ins) (bindEnv ins xs)) :=
  initV_plain (cfgOf L) S S' ins outs C (Or.inl init_clears_state) hinit xs hxs

/-- **Re-initialised = fresh**, with or without CSE: what an earlier (failed) init left behind is irrelevant. -/
theorem reinit_fresh (L : LOps α) (S : VState) (ins : List String) (outs : List Expr)
    (cse : Option (List (String × Expr) × List Expr)) :
    initV (cfgOf L) S ins outs cse = initV (cfgOf L) {} ins outs cse :=
  initV_state_irrelevant (cfgOf L) init_clears_state S ins outs cse

/-- **SSA well-formedness** of everything `init` generates (plain and CSE path, any prior state): every
operand of every instruction is a constant or the result of an *earlier* instruction, and every stored
output is defined. -/
theorem initV_wellformed (L : LOps α) (S S' : VState) (ins : List String) (outs : List Expr)
    (cse : Option (List (String × Expr) × List Expr)) (C : Compiled α)
    (hinit : initV (cfgOf L) S ins outs cse = (S', .ok C)) :
    WF C.body ∧ ∀ v ∈ C.outs, v.lt C.body.length :=
  initV_wf (cfgOf L) S S' ins outs cse C hinit

/-- code generation for a tree is well formed whenever the environment only hands out defined registers -/
theorem compileT_wellformed (L : LOps α) (env : String → Option (Val α)) (t : T α) (P : Prog α) (v : Val α)
    (P' : Prog α) (h : compileT L env t P = .ok (v, P')) (henv : EnvLt env P.length) :
    ∃ ext, P' = P ++ ext ∧ WFfrom P.length ext ∧ v.lt P'.length :=
  compileT_wf L env t P v P' h henv

/-- a successful init leaves no stale state behind -/
theorem init_ok_state_clean (cfg : Cfg α) (S S' : VState) (ins : List String) (outs : List Expr)
    (cse : Option (List (String × Expr) × List Expr)) (C : Compiled α)
    (h : initV cfg S ins outs cse = (S', .ok C)) : S' = {} := by
  unfold initV at h
  cases cse with
  | none =>
    simp only at h
    split at h <;> simp at h
    exact h.1.symm
  | some p =>
    obtain ⟨repl, reduced⟩ := p
    simp only at h
    split at h
    · simp at h
    · split at h <;> simp at h
      exact h.1.symm

/-! ## 4. reference values of the operators -/

theorem evalOp_fadd (L : LOps α) (a b : α) : evalOp L .fadd [.f a, .f b] = .f (L.O.add a b) := rfl
theorem evalOp_fmul (L : LOps α) (a b : α) : evalOp L .fmul [.f a, .f b] = .f (L.O.mul a b) := rfl

/-- Pow with the integer exponent 2 is the product `x * x` -/
theorem evalOp_square_eq_mul (L : LOps α) (a : α) : evalOp L .square [.f a] = evalOp L .fmul [.f a, .f a] := rfl

/-- a unary intrinsic / libm call returns the number structure's function of that name -/
theorem evalOp_call1 (L : LOps α) (intr : Bool) (name : String) (f : Fn) (x y : α)
    (hn : name ≠ "exp2") (hf : calleeFn1 name = some f) (hy : L.O.call1 f x = some y) :
    evalOp L (.call intr name) [.f x] = .f y := by
  simp [evalOp, rvCall, asFs, asF, callSem, hn, hf, hy, optErr, ofExceptF]

/-- a binary call passes the operands in order: `pow(base, exp)`, `atan2(y, x)` -/
theorem evalOp_call2 (L : LOps α) (intr : Bool) (name : String) (f : Fn) (x y z : α)
    (hf : calleeFn2 name = some f) (hz : L.O.call2 f x y = some z) :
    evalOp L (.call intr name) [.f x, .f y] = .f z := by
  simp [evalOp, rvCall, asFs, asF, callSem, hf, hz, optErr, ofExceptF]

theorem evalOp_exp2 (L : LOps α) (x y : α) (hy : L.exp2 x = some y) :
    evalOp L (.call true "exp2") [.f x] = .f y := by
  simp [evalOp, rvCall, asFs, asF, callSem, hy, optErr, ofExceptF]

theorem evalOp_powi (L : LOps α) (x y : α) (n : Int) (hy : L.powi x n = some y) :
    evalOp L (.powi n) [.f x] = .f y := by
  simp [evalOp, rvPowi, asF, hy, optErr, ofExceptF]

/-- a relational node is the indicator (1/0) of the predicate on its operands, in order -/
theorem evalOp_relational (L : LOps α) (p : FPred) (a b : α) :
    evalOp L (.cmpU p) [.f a, .f b] = .f (L.O.ofBool (fcmpSem L.O p a b)) := rfl

/-- Piecewise: the first arm when the predicate value is (ordered and) non-zero, else the second -/
theorem evalT_pw (L : LOps α) (venv : String → Option α) (c a b : T α) (vc va vb : α)
    (hc : evalT L venv c = .f vc) (ha : evalT L venv a = .f va) (hb : evalT L venv b = .f vb) :
    evalT L venv (.pw c a b) = .f (if fcmpSem L.O .one vc (zeroF L) then va else vb) := by
  simp [evalT, hc, ha, hb, rvPhi, rvFCmp, asF, asB]

/-- an Add with zero coefficient starts from its first term; a unit coefficient is not multiplied -/
theorem lower_add_shape (C : LowCtx α) (rec : Expr → Except Err (T α)) (k1 k2 : Expr) (t1 t2 tc : T α)
    (hneed : C.defs.find "Add" = some .add) (h1 : rec k1 = .ok t1) (h2 : rec k2 = .ok t2) (hc : rec (.int 3) = .ok tc) :
    lowerStep C rec (.add (.int 0) [(k1, .int 1), (k2, .int 3)]) = .ok (.op .fadd [t1, .op .fmul [t2, tc]]) := by
  simp [lowerStep, need, hneed, isZero, lowerTermWith, lowerTermsWith, isOne, h1, h2, hc]

/-! ## non-vacuity -/

/-- a toy number structure (integers; every libm function is the identity) -/
def toyOps : NumOps Int :=
  { ofQTrunc := fun n _ => n, ofQNear := fun n _ => n, ofBits := fun b => b.toNat, inf := fun _ => 0, nan := 0,
    add := (· + ·), sub := (· - ·), mul := (· * ·), div := (· / ·), neg := fun x => -x,
    call1 := fun _ x => some x, call2 := fun _ x _ => some x,
    eq := fun a b => a == b, lt := fun a b => a < b, le := fun a b => a ≤ b }

def toyL : LOps Int := { O := toyOps, exp2 := fun x => some x, powi := fun x _ => some x }

/-- `sin(x) + 2*y` compiles, and the compiled program returns the reference value on [3, 4] -/
example : ∃ S C, initV (cfgOf toyL) {} ["x", "y"] [.add (.int 0) [(.app "Sin" [.sym "x"], .int 1), (.sym "y", .int 2)]] none = (S, .ok C)
    ∧ run toyL C [3, 4] = [.ok 11] := by
  exact ⟨_, _, rfl, rfl⟩

/-- the same program (it exists by the previous example) is well formed -/
example : ∀ S C, initV (cfgOf toyL) {} ["x", "y"] [.add (.int 0) [(.app "Sin" [.sym "x"], .int 1), (.sym "y", .int 2)]] none = (S, .ok C)
    → WF C.body :=
  fun S C h => (initV_wellformed toyL {} S _ _ none C h).1

example : agreeL ("ATan2", .external "atan2") = true := by decide
example : agreeL ("Tan", .external "sin") = false := by decide

/-- The full property, not asserted: the machine code LLVM produces (any optimisation level, after a
dumps/loads round trip, for each float type) computes the program's value up to floating-point rounding.
`jit` abstracts LLVM's optimiser, instruction selection and MCJIT; `approx` is "within rounding error". -/
def C14_full (jit : Nat → Compiled Float → List Float → List Float) (approx : Float → Except Err Float → Prop)
    (sp : SpecTable) : Prop :=
  ∀ (S S' : VState) (ins : List String) (outs : List Expr) (cse : Option (List (String × Expr) × List Expr))
    (C : Compiled Float) (lvl : Nat) (xs : List Float),
    initV (cfgOf (floatL sp)) S ins outs cse = (S', .ok C) → xs.length = ins.length →
    All2 approx (jit lvl C xs) (run (floatL sp) C xs)

end SymVerif.C14
