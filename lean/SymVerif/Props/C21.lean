import SymVerif.Lemmas.C21Kron
import SymVerif.Lemmas.C21Div
import Mathlib.Algebra.Ring.Rat
import Mathlib.Algebra.Field.Rat
import Mathlib.Data.Rat.Defs

/-!
# C21 — univariate polynomial arithmetic is correct

Model: `SymVerif/Model/UPoly.lean` (the dictionary containers `UIntDict`, `URatDict`, `UExprDict`
over `std::map`, as repaired — see docs/C21.md for the five defects found in the code as it was).

Specification vocabulary:
* `toPoly d : R[X]` — the Mathlib polynomial denoted by a dictionary (`∑ monomial k c`);
* `Canon d` — keys strictly increasing (a `std::map`) and no stored zero (`is_canonical`);
  `canon_ext`: a canonical dictionary is determined by the polynomial it denotes, so every
  `toPoly` equation below pins down the *printed* result of the operation exactly;
* `conv f g k = ∑ i ≤ k, f i * g (k - i)` — the executable schoolbook convolution of coefficient
  functions; `coeff_of_mul` turns `toPoly r = toPoly a * toPoly b` into
  `getCoeff r k = conv (getCoeff a) (getCoeff b) k`.

All theorems are about the constants the driver executes (`UPoly.UInt.*`, `UPoly.URat.*`,
`UPoly.UExpr.*`), for all canonical inputs.
-/
set_option linter.unusedSectionVars false
open Polynomial
namespace SymVerif.C21
open SymVerif.UPoly

/-- schoolbook convolution of coefficient functions (executable) -/
def conv {R : Type} [CommRing R] (f g : Nat → R) (k : Nat) : R :=
  ∑ i ∈ Finset.range (k + 1), f i * g (k - i)

/-- schoolbook power -/
def convPow {R : Type} [CommRing R] (f : Nat → R) : Nat → Nat → R
  | 0 => fun k => if k = 0 then 1 else 0
  | p + 1 => conv (convPow f p) f

section Generic
variable {R : Type} [CommRing R] [DecidableEq R]

theorem coeff_of_add {a b r : Dict R} (ha : Sorted a) (hb : Sorted b) (hr : Sorted r)
    (h : toPoly r = toPoly a + toPoly b) (k : Nat) : getCoeff r k = getCoeff a k + getCoeff b k := by
  rw [getCoeff_spec hr, getCoeff_spec ha, getCoeff_spec hb, h, coeff_add]

theorem coeff_of_sub {a b r : Dict R} (ha : Sorted a) (hb : Sorted b) (hr : Sorted r)
    (h : toPoly r = toPoly a - toPoly b) (k : Nat) : getCoeff r k = getCoeff a k - getCoeff b k := by
  rw [getCoeff_spec hr, getCoeff_spec ha, getCoeff_spec hb, h, coeff_sub]

theorem coeff_of_neg {a r : Dict R} (ha : Sorted a) (hr : Sorted r)
    (h : toPoly r = - toPoly a) (k : Nat) : getCoeff r k = - getCoeff a k := by
  rw [getCoeff_spec hr, getCoeff_spec ha, h, coeff_neg]

theorem coeff_mul_conv (p q : R[X]) (k : Nat) : (p * q).coeff k = conv p.coeff q.coeff k := by
  rw [coeff_mul, Finset.Nat.sum_antidiagonal_eq_sum_range_succ_mk]; rfl

theorem coeff_of_mul {a b r : Dict R} (ha : Sorted a) (hb : Sorted b) (hr : Sorted r)
    (h : toPoly r = toPoly a * toPoly b) (k : Nat) :
    getCoeff r k = conv (getCoeff a) (getCoeff b) k := by
  rw [getCoeff_spec hr, h, coeff_mul_conv]
  unfold conv
  apply Finset.sum_congr rfl
  intro i _
  rw [getCoeff_spec ha, getCoeff_spec hb]

theorem coeff_pow_convPow (q : R[X]) (p k : Nat) : (q ^ p).coeff k = convPow q.coeff p k := by
  induction p generalizing k with
  | zero => simp [convPow, coeff_one]
  | succ p ih =>
    rw [pow_succ, coeff_mul_conv]
    simp only [convPow, conv]
    apply Finset.sum_congr rfl
    intro i _
    rw [ih]

theorem coeff_of_pow {a r : Dict R} (ha : Sorted a) (hr : Sorted r) (p : Nat)
    (h : toPoly r = toPoly a ^ p) (k : Nat) : getCoeff r k = convPow (getCoeff a) p k := by
  rw [getCoeff_spec hr, h, coeff_pow_convPow]
  have : (toPoly a).coeff = getCoeff a := by funext i; rw [getCoeff_spec ha]
  rw [this]

theorem evalSum_spec (d : Dict R) (x : R) : evalSum d x = (toPoly d).eval x := by
  have key : ∀ (acc : R), d.foldl (fun ans p => ans + p.2 * rpow x p.1) acc
      = acc + (d.map (fun p => p.2 * x ^ p.1)).sum := by
    induction d with
    | nil => simp
    | cons p t ih => intro acc; rw [List.foldl_cons, ih, rpow_eq, List.map_cons, List.sum_cons]; ring
  unfold evalSum
  rw [key, eval_toPoly, zero_add]

end Generic

/-! ## `from_dict` establishes the invariant; every operation preserves it -/

theorem sorted_setKey {R : Type} {d : Dict R} (hd : d.Pairwise (fun p q => p.1 < q.1)) (k : Nat) (c : R) :
    (setKey d k c).Pairwise (fun p q => p.1 < q.1) := by
  induction d with
  | nil => simp [setKey]
  | cons p t ih =>
    obtain ⟨k', c'⟩ := p
    have ⟨h1, h2⟩ := List.pairwise_cons.1 hd
    simp only [setKey]
    split
    · rename_i hlt
      refine List.pairwise_cons.2 ⟨?_, ih h2⟩
      intro q hq
      have : q.1 = k ∨ ∃ r ∈ t, r.1 = q.1 := by
        clear ih h1 h2 hd
        induction t with
        | nil => simp [setKey] at hq; left; rw [hq]
        | cons p2 t2 ih2 =>
          obtain ⟨k2, c2⟩ := p2
          simp only [setKey] at hq
          split at hq
          · rcases List.mem_cons.1 hq with h | h
            · right; exact ⟨(k2, c2), List.mem_cons_self, by rw [h]⟩
            · rcases ih2 h with h | ⟨r, hr, hrk⟩
              · left; exact h
              · right; exact ⟨r, List.mem_cons_of_mem _ hr, hrk⟩
          · split at hq
            · rcases List.mem_cons.1 hq with h | h
              · left; rw [h]
              · right; exact ⟨q, List.mem_cons_of_mem _ h, rfl⟩
            · rcases List.mem_cons.1 hq with h | h
              · left; rw [h]
              · right; exact ⟨q, h, rfl⟩
      rcases this with h | ⟨r, hr, hrk⟩
      · rw [h]; exact hlt
      · rw [← hrk]; exact h1 r hr
    · split
      · rename_i heq
        refine List.pairwise_cons.2 ⟨?_, h2⟩
        intro q hq; rw [← heq]; exact h1 q hq
      · rename_i hnlt hne
        have hgt : k < k' := by omega
        refine List.pairwise_cons.2 ⟨?_, hd⟩
        intro q hq
        rcases List.mem_cons.1 hq with h | h
        · rw [h]; exact hgt
        · exact Nat.lt_trans hgt (h1 q h)

/-- whatever sequence of `m[d] = c` assignments builds the `std::map`, `from_dict` yields a
    canonical dictionary (this is how the driver and the harness construct every input) -/
theorem fromDict_canon {R : Type} [CommRing R] [DecidableEq R] (terms : List (Nat × R)) :
    Canon (fromMap (terms.foldl (fun m p => setKey m p.1 p.2) [])) := by
  apply canon_fromMap
  have : ∀ (m : Dict R), Sorted m → Sorted (terms.foldl (fun m p => setKey m p.1 p.2) m) := by
    induction terms with
    | nil => intro m hm; simpa using hm
    | cons p t ih => intro m hm; simp only [List.foldl_cons]; exact ih _ (sorted_setKey hm _ _)
  exact this [] sorted_nil

/-! ## UIntPoly -/

namespace UInt
open SymVerif.UPoly.UInt

theorem fromDict_spec (terms : List (Nat × Int)) :
    Canon (fromDictU (terms.foldl (fun m p => setKey m p.1 p.2) [])) := fromDict_canon terms

/-- `add_upoly` -/
theorem add_spec {a b : Dict Int} (ha : Canon a) (hb : Canon b) :
    Canon (addU a b) ∧ toPoly (addU a b) = toPoly a + toPoly b ∧
    ∀ k, coeffU (addU a b) k = coeffU a k + coeffU b k := by
  have h1 : Canon (addU a b) := canon_add ha hb.2
  have h2 : toPoly (addU a b) = toPoly a + toPoly b := toPoly_add a b
  exact ⟨h1, h2, coeff_of_add ha.1 hb.1 h1.1 h2⟩

/-- `sub_upoly` -/
theorem sub_spec {a b : Dict Int} (ha : Canon a) (hb : Canon b) :
    Canon (subU a b) ∧ toPoly (subU a b) = toPoly a - toPoly b ∧
    ∀ k, coeffU (subU a b) k = coeffU a k - coeffU b k := by
  have h1 : Canon (subU a b) := canon_sub ha hb.2
  have h2 : toPoly (subU a b) = toPoly a - toPoly b := toPoly_sub a b
  exact ⟨h1, h2, coeff_of_sub ha.1 hb.1 h1.1 h2⟩

/-- `neg_upoly` -/
theorem neg_spec {a : Dict Int} (ha : Canon a) :
    Canon (negU a) ∧ toPoly (negU a) = - toPoly a ∧ ∀ k, coeffU (negU a) k = - coeffU a k := by
  have h1 : Canon (negU a) := canon_neg ha
  have h2 : toPoly (negU a) = - toPoly a := toPoly_neg a
  exact ⟨h1, h2, coeff_of_neg ha.1 h1.1 h2⟩

/-- `UIntDict::mul` (Kronecker substitution, repaired): never fails; the result is canonical and
    its coefficients are the schoolbook convolution -/
theorem kronecker_spec {a b : Dict Int} (ha : Canon a) (hb : Canon b) :
    ∃ r, kmul a b = .ok r ∧ Canon r ∧ toPoly r = toPoly a * toPoly b ∧
      ∀ k, getCoeff r k = conv (getCoeff a) (getCoeff b) k := by
  obtain ⟨r, h1, h2, h3⟩ := kmul_ok a b ha hb
  exact ⟨r, h1, h2, h3, coeff_of_mul ha.1 hb.1 h2.1 h3⟩

/-- `mul_upoly` (`operator*=` on top of `UIntDict::mul`) -/
theorem mul_spec {a b : Dict Int} (ha : Canon a) (hb : Canon b) :
    ∃ r, mulU a b = .ok r ∧ Canon r ∧ toPoly r = toPoly a * toPoly b ∧
      ∀ k, coeffU r k = conv (coeffU a) (coeffU b) k := by
  obtain ⟨r, h1, h2, h3⟩ := mulAssign_ok kmul_ok a b ha hb
  exact ⟨r, h1, h2, h3, coeff_of_mul ha.1 hb.1 h2.1 h3⟩

/-- `pow_upoly`: terminates for every exponent (including 0), never fails, computes the power -/
theorem pow_spec {a : Dict Int} (ha : Canon a) (p : Nat) :
    ∃ r, powU a p = .ok r ∧ Canon r ∧ toPoly r = toPoly a ^ p ∧
      ∀ k, coeffU r k = convPow (coeffU a) p k := by
  obtain ⟨r, h1, h2, h3⟩ := C21.pow_spec kmul_ok ha p
  exact ⟨r, h1, h2, h3, coeff_of_pow ha.1 h2.1 p h3⟩

/-- `divides_upoly` for a non-zero divisor: `true` with the exact quotient iff `a ∣ b` in `ℤ[X]` -/
theorem divides_spec {a b : Dict Int} (ha : Canon a) (hb : Canon b) (hae : a ≠ []) :
    (∃ q, dividesU a b = .ok (some q) ∧ Canon q ∧ toPoly b = toPoly a * toPoly q) ∨
    (dividesU a b = .ok none ∧ ¬ toPoly a ∣ toPoly b) :=
  C21.divides_spec kmul_ok divExactInt_ok ha hb hae

/-- `divides_upoly(0, b)` is `false` -/
theorem divides_zero (b : Dict Int) : dividesU [] b = .ok none :=
  divides_zero_divisor _ _ b

/-- `eval` (repaired: also on the zero polynomial) -/
theorem eval_spec {a : Dict Int} (ha : Canon a) (x : Int) : evalU a x = .ok ((toPoly a).eval x) :=
  C21.eval_spec ha.1 x

/-- `diff` with respect to the generator -/
theorem diff_spec {a : Dict Int} (ha : Canon a) :
    Canon (diffU a) ∧ toPoly (diffU a) = derivative (toPoly a) ∧
    ∀ k, coeffU (diffU a) k = coeffU a (k + 1) * ((k : Int) + 1) := by
  obtain ⟨h1, h2⟩ := C21.diff_spec ha.1
  refine ⟨h2, h1, ?_⟩
  intro k
  show getCoeff (UPoly.diff a) k = getCoeff a (k + 1) * ((k : Int) + 1)
  rw [getCoeff_spec h2.1, getCoeff_spec ha.1, h1, coeff_derivative]

/-- `get_coeff`, `get_degree`, `get_lc` -/
theorem coeff_spec {a : Dict Int} (ha : Canon a) (k : Nat) : coeffU a k = (toPoly a).coeff k :=
  getCoeff_spec ha.1 k
theorem degree_spec {a : Dict Int} (ha : Canon a) :
    (a = [] → degreeU a = 0 ∧ lcU a = 0) ∧
    (a ≠ [] → degreeU a = (toPoly a).natDegree ∧ lcU a = (toPoly a).leadingCoeff ∧ lcU a ≠ 0) := by
  constructor
  · intro h; subst h; exact ⟨rfl, rfl⟩
  · intro h
    exact ⟨(natDegree_toPoly ha h).symm, (leadingCoeff_toPoly ha h).symm, getLc_ne_zero ha h⟩

/-! ring laws at object level for `UIntPoly` (specifications + `canon_ext`) -/

theorem add_comm_obj {a b : Dict Int} (ha : Canon a) (hb : Canon b) : addU a b = addU b a := by
  obtain ⟨c1, p1, _⟩ := add_spec ha hb
  obtain ⟨c2, p2, _⟩ := add_spec hb ha
  exact canon_ext c1 c2 (by rw [p1, p2, add_comm])

theorem add_assoc_obj {a b c : Dict Int} (ha : Canon a) (hb : Canon b) (hc : Canon c) :
    addU (addU a b) c = addU a (addU b c) := by
  obtain ⟨c1, p1, _⟩ := add_spec ha hb
  obtain ⟨c2, p2, _⟩ := add_spec hb hc
  obtain ⟨c3, p3, _⟩ := add_spec c1 hc
  obtain ⟨c4, p4, _⟩ := add_spec ha c2
  exact canon_ext c3 c4 (by rw [p3, p4, p1, p2, add_assoc])

theorem sub_add_cancel_obj {a b : Dict Int} (ha : Canon a) (hb : Canon b) : addU (subU a b) b = a := by
  obtain ⟨c1, p1, _⟩ := sub_spec ha hb
  obtain ⟨c2, p2, _⟩ := add_spec c1 hb
  exact canon_ext c2 ha (by rw [p2, p1, sub_add_cancel])

theorem neg_neg_obj {a : Dict Int} (ha : Canon a) : negU (negU a) = a := by
  obtain ⟨c1, p1, _⟩ := neg_spec ha
  obtain ⟨c2, p2, _⟩ := neg_spec c1
  exact canon_ext c2 ha (by rw [p2, p1, neg_neg])

theorem mul_comm_obj {a b : Dict Int} (ha : Canon a) (hb : Canon b) :
    ∃ r, mulU a b = .ok r ∧ mulU b a = .ok r := by
  obtain ⟨r, h1, c1, p1, _⟩ := mul_spec ha hb
  obtain ⟨s, h2, c2, p2, _⟩ := mul_spec hb ha
  exact ⟨r, h1, by rw [h2, canon_ext c2 c1 (by rw [p1, p2, mul_comm])]⟩

theorem mul_add_obj {a b c : Dict Int} (ha : Canon a) (hb : Canon b) (hc : Canon c) :
    ∃ ab ac r, mulU a b = .ok ab ∧ mulU a c = .ok ac ∧ mulU a (addU b c) = .ok r ∧ addU ab ac = r := by
  obtain ⟨cbc, pbc, _⟩ := add_spec hb hc
  obtain ⟨ab, h1, c1, p1, _⟩ := mul_spec ha hb
  obtain ⟨ac, h2, c2, p2, _⟩ := mul_spec ha hc
  obtain ⟨r, h3, c3, p3, _⟩ := mul_spec ha cbc
  obtain ⟨c4, p4, _⟩ := add_spec c1 c2
  exact ⟨ab, ac, r, h1, h2, h3, canon_ext c4 c3 (by rw [p4, p3, p1, p2, pbc, mul_add])⟩

/-- `pow` unfolds as repeated `mul`: `a^(p+1)` is the same object as `a^p * a` -/
theorem pow_succ_obj {a : Dict Int} (ha : Canon a) (p : Nat) :
    ∃ ap r, powU a p = .ok ap ∧ powU a (p + 1) = .ok r ∧ mulU ap a = .ok r := by
  obtain ⟨ap, h1, c1, p1, _⟩ := pow_spec ha p
  obtain ⟨r, h2, c2, p2, _⟩ := pow_spec ha (p + 1)
  obtain ⟨s, h3, c3, p3, _⟩ := mul_spec c1 ha
  exact ⟨ap, r, h1, h2, by rw [h3, canon_ext c3 c2 (by rw [p3, p2, p1, pow_succ])]⟩

/-- exact division undoes multiplication: `divides(a, a*b)` answers yes with quotient `b` (for `a ≠ 0`) -/
theorem divides_mul_obj {a b : Dict Int} (ha : Canon a) (hb : Canon b) (hae : a ≠ []) :
    ∃ r, mulU a b = .ok r ∧ dividesU a r = .ok (some b) := by
  obtain ⟨r, h1, c1, p1, _⟩ := mul_spec ha hb
  refine ⟨r, h1, ?_⟩
  rcases divides_spec ha c1 hae with ⟨q, hq, cq, pq⟩ | ⟨_, hnd⟩
  · rw [hq]; congr 2
    have ha0 : toPoly a ≠ 0 := by
      intro h0
      exact hae (canon_ext ha (by constructor <;> simp [Sorted, NoZero]) (by simpa using h0))
    have : toPoly a * toPoly q = toPoly a * toPoly b := by rw [← pq, p1]
    exact canon_ext cq hb (mul_left_cancel₀ ha0 this)
  · exact absurd ⟨toPoly b, p1⟩ hnd

end UInt

/-! ## URatPoly -/

namespace URat
open SymVerif.UPoly.URat

theorem fromDict_spec (terms : List (Nat × Rat)) :
    Canon (fromDictU (terms.foldl (fun m p => setKey m p.1 p.2) [])) := fromDict_canon terms

theorem add_spec {a b : Dict Rat} (ha : Canon a) (hb : Canon b) :
    Canon (addU a b) ∧ toPoly (addU a b) = toPoly a + toPoly b ∧
    ∀ k, coeffU (addU a b) k = coeffU a k + coeffU b k := by
  have h1 : Canon (addU a b) := canon_add ha hb.2
  have h2 : toPoly (addU a b) = toPoly a + toPoly b := toPoly_add a b
  exact ⟨h1, h2, coeff_of_add ha.1 hb.1 h1.1 h2⟩

theorem sub_spec {a b : Dict Rat} (ha : Canon a) (hb : Canon b) :
    Canon (subU a b) ∧ toPoly (subU a b) = toPoly a - toPoly b ∧
    ∀ k, coeffU (subU a b) k = coeffU a k - coeffU b k := by
  have h1 : Canon (subU a b) := canon_sub ha hb.2
  have h2 : toPoly (subU a b) = toPoly a - toPoly b := toPoly_sub a b
  exact ⟨h1, h2, coeff_of_sub ha.1 hb.1 h1.1 h2⟩

theorem neg_spec {a : Dict Rat} (ha : Canon a) :
    Canon (negU a) ∧ toPoly (negU a) = - toPoly a ∧ ∀ k, coeffU (negU a) k = - coeffU a k := by
  have h1 : Canon (negU a) := canon_neg ha
  have h2 : toPoly (negU a) = - toPoly a := toPoly_neg a
  exact ⟨h1, h2, coeff_of_neg ha.1 h1.1 h2⟩

/-- `ODictWrapper::mul` (schoolbook) -/
theorem mulGeneric_spec {a b : Dict Rat} (ha : Canon a) (hb : Canon b) :
    Canon (mulGeneric a b) ∧ toPoly (mulGeneric a b) = toPoly a * toPoly b ∧
    ∀ k, getCoeff (mulGeneric a b) k = conv (getCoeff a) (getCoeff b) k := by
  have h1 := canon_mulGeneric ha hb
  have h2 := toPoly_mulGeneric a b
  exact ⟨h1, h2, coeff_of_mul ha.1 hb.1 h1.1 h2⟩

theorem mul_spec {a b : Dict Rat} (ha : Canon a) (hb : Canon b) :
    ∃ r, mulU a b = .ok r ∧ Canon r ∧ toPoly r = toPoly a * toPoly b ∧
      ∀ k, coeffU r k = conv (coeffU a) (coeffU b) k := by
  obtain ⟨r, h1, h2, h3⟩ := mulAssign_ok gmul_ok a b ha hb
  exact ⟨r, h1, h2, h3, coeff_of_mul ha.1 hb.1 h2.1 h3⟩

theorem pow_spec {a : Dict Rat} (ha : Canon a) (p : Nat) :
    ∃ r, powU a p = .ok r ∧ Canon r ∧ toPoly r = toPoly a ^ p ∧
      ∀ k, coeffU r k = convPow (coeffU a) p k := by
  obtain ⟨r, h1, h2, h3⟩ := C21.pow_spec gmul_ok ha p
  exact ⟨r, h1, h2, h3, coeff_of_pow ha.1 h2.1 p h3⟩

theorem divides_spec {a b : Dict Rat} (ha : Canon a) (hb : Canon b) (hae : a ≠ []) :
    (∃ q, dividesU a b = .ok (some q) ∧ Canon q ∧ toPoly b = toPoly a * toPoly q) ∨
    (dividesU a b = .ok none ∧ ¬ toPoly a ∣ toPoly b) :=
  C21.divides_spec gmul_ok divExactRat_ok ha hb hae

theorem divides_zero (b : Dict Rat) : dividesU [] b = .ok none :=
  divides_zero_divisor _ _ b

theorem eval_spec {a : Dict Rat} (ha : Canon a) (x : Rat) : evalU a x = .ok ((toPoly a).eval x) :=
  C21.eval_spec ha.1 x

theorem diff_spec {a : Dict Rat} (ha : Canon a) :
    Canon (diffU a) ∧ toPoly (diffU a) = derivative (toPoly a) ∧
    ∀ k, coeffU (diffU a) k = coeffU a (k + 1) * ((k : Rat) + 1) := by
  obtain ⟨h1, h2⟩ := C21.diff_spec ha.1
  refine ⟨h2, h1, ?_⟩
  intro k
  show getCoeff (UPoly.diff a) k = getCoeff a (k + 1) * ((k : Rat) + 1)
  rw [getCoeff_spec h2.1, getCoeff_spec ha.1, h1, coeff_derivative]

theorem coeff_spec {a : Dict Rat} (ha : Canon a) (k : Nat) : coeffU a k = (toPoly a).coeff k :=
  getCoeff_spec ha.1 k
theorem degree_spec {a : Dict Rat} (ha : Canon a) :
    (a = [] → degreeU a = 0 ∧ lcU a = 0) ∧
    (a ≠ [] → degreeU a = (toPoly a).natDegree ∧ lcU a = (toPoly a).leadingCoeff ∧ lcU a ≠ 0) := by
  constructor
  · intro h; subst h; exact ⟨rfl, rfl⟩
  · intro h
    exact ⟨(natDegree_toPoly ha h).symm, (leadingCoeff_toPoly ha h).symm, getLc_ne_zero ha h⟩

/-! ring laws at object level for `URatPoly` (specifications + `canon_ext`) -/

theorem add_comm_obj {a b : Dict Rat} (ha : Canon a) (hb : Canon b) : addU a b = addU b a := by
  obtain ⟨c1, p1, _⟩ := add_spec ha hb
  obtain ⟨c2, p2, _⟩ := add_spec hb ha
  exact canon_ext c1 c2 (by rw [p1, p2, add_comm])

theorem add_assoc_obj {a b c : Dict Rat} (ha : Canon a) (hb : Canon b) (hc : Canon c) :
    addU (addU a b) c = addU a (addU b c) := by
  obtain ⟨c1, p1, _⟩ := add_spec ha hb
  obtain ⟨c2, p2, _⟩ := add_spec hb hc
  obtain ⟨c3, p3, _⟩ := add_spec c1 hc
  obtain ⟨c4, p4, _⟩ := add_spec ha c2
  exact canon_ext c3 c4 (by rw [p3, p4, p1, p2, add_assoc])

theorem sub_add_cancel_obj {a b : Dict Rat} (ha : Canon a) (hb : Canon b) : addU (subU a b) b = a := by
  obtain ⟨c1, p1, _⟩ := sub_spec ha hb
  obtain ⟨c2, p2, _⟩ := add_spec c1 hb
  exact canon_ext c2 ha (by rw [p2, p1, sub_add_cancel])

theorem neg_neg_obj {a : Dict Rat} (ha : Canon a) : negU (negU a) = a := by
  obtain ⟨c1, p1, _⟩ := neg_spec ha
  obtain ⟨c2, p2, _⟩ := neg_spec c1
  exact canon_ext c2 ha (by rw [p2, p1, neg_neg])

theorem mul_comm_obj {a b : Dict Rat} (ha : Canon a) (hb : Canon b) :
    ∃ r, mulU a b = .ok r ∧ mulU b a = .ok r := by
  obtain ⟨r, h1, c1, p1, _⟩ := mul_spec ha hb
  obtain ⟨s, h2, c2, p2, _⟩ := mul_spec hb ha
  exact ⟨r, h1, by rw [h2, canon_ext c2 c1 (by rw [p1, p2, mul_comm])]⟩

theorem mul_add_obj {a b c : Dict Rat} (ha : Canon a) (hb : Canon b) (hc : Canon c) :
    ∃ ab ac r, mulU a b = .ok ab ∧ mulU a c = .ok ac ∧ mulU a (addU b c) = .ok r ∧ addU ab ac = r := by
  obtain ⟨cbc, pbc, _⟩ := add_spec hb hc
  obtain ⟨ab, h1, c1, p1, _⟩ := mul_spec ha hb
  obtain ⟨ac, h2, c2, p2, _⟩ := mul_spec ha hc
  obtain ⟨r, h3, c3, p3, _⟩ := mul_spec ha cbc
  obtain ⟨c4, p4, _⟩ := add_spec c1 c2
  exact ⟨ab, ac, r, h1, h2, h3, canon_ext c4 c3 (by rw [p4, p3, p1, p2, pbc, mul_add])⟩

/-- `pow` unfolds as repeated `mul`: `a^(p+1)` is the same object as `a^p * a` -/
theorem pow_succ_obj {a : Dict Rat} (ha : Canon a) (p : Nat) :
    ∃ ap r, powU a p = .ok ap ∧ powU a (p + 1) = .ok r ∧ mulU ap a = .ok r := by
  obtain ⟨ap, h1, c1, p1, _⟩ := pow_spec ha p
  obtain ⟨r, h2, c2, p2, _⟩ := pow_spec ha (p + 1)
  obtain ⟨s, h3, c3, p3, _⟩ := mul_spec c1 ha
  exact ⟨ap, r, h1, h2, by rw [h3, canon_ext c3 c2 (by rw [p3, p2, p1, pow_succ])]⟩

/-- exact division undoes multiplication: `divides(a, a*b)` answers yes with quotient `b` (for `a ≠ 0`) -/
theorem divides_mul_obj {a b : Dict Rat} (ha : Canon a) (hb : Canon b) (hae : a ≠ []) :
    ∃ r, mulU a b = .ok r ∧ dividesU a r = .ok (some b) := by
  obtain ⟨r, h1, c1, p1, _⟩ := mul_spec ha hb
  refine ⟨r, h1, ?_⟩
  rcases divides_spec ha c1 hae with ⟨q, hq, cq, pq⟩ | ⟨_, hnd⟩
  · rw [hq]; congr 2
    have ha0 : toPoly a ≠ 0 := by
      intro h0
      exact hae (canon_ext ha (by constructor <;> simp [Sorted, NoZero]) (by simpa using h0))
    have : toPoly a * toPoly q = toPoly a * toPoly b := by rw [← pq, p1]
    exact canon_ext cq hb (mul_left_cancel₀ ha0 this)
  · exact absurd ⟨toPoly b, p1⟩ hnd

end URat

/-! ## UExprPoly with integer coefficients -/

namespace UExpr
open SymVerif.UPoly.UExpr

theorem mul_spec {a b : Dict Int} (ha : Canon a) (hb : Canon b) :
    ∃ r, mulU a b = .ok r ∧ Canon r ∧ toPoly r = toPoly a * toPoly b ∧
      ∀ k, getCoeff r k = conv (getCoeff a) (getCoeff b) k := by
  obtain ⟨r, h1, h2, h3⟩ := mulAssign_ok gmul_ok a b ha hb
  exact ⟨r, h1, h2, h3, coeff_of_mul ha.1 hb.1 h2.1 h3⟩

theorem pow_spec {a : Dict Int} (ha : Canon a) (p : Nat) :
    ∃ r, powU a p = .ok r ∧ Canon r ∧ toPoly r = toPoly a ^ p := C21.pow_spec gmul_ok ha p

theorem eval_spec (a : Dict Int) (x : Int) : evalU a x = .ok ((toPoly a).eval x) := by
  show Except.ok (evalSum a x) = _
  rw [evalSum_spec]

end UExpr

/-! ## The code as it was found (defects D11, D12, D18, D19; D17 is documented in docs/C21.md) -/

/-- D12: `ODictWrapper::pow(a, 0)` never leaves `while (p != 1)` -/
theorem D12_pow_zero_hangs (mul : Dict Int → Dict Int → Except Err (Dict Int)) (a : Dict Int) :
    powWith false mul a 0 = .error .hang := powOrig_zero_hangs mul a

/-- D18: `USymEnginePoly::eval` on the zero polynomial dereferences `rbegin()` of an empty map -/
theorem D18_eval_zero_oob (x : Int) : evalWith false ([] : Dict Int) x = .error .oob := rfl

/-- D19: `UIntDict::mul` with an empty operand dereferences `begin()` of an empty map
    (reached from `pow_upoly(0, p)`) -/
theorem D19_kmul_empty_oob (b : Dict Int) : kmulOrig [] b = .error .oob := by
  unfold kmulOrig kmulWith
  simp [maxAbsCoef]

/-- D11: with `N` as found (no bit for the sign) `(7x²+7x+7)²` decodes to a wrong polynomial … -/
theorem D11_kron_as_found_wrong :
    (kmulOrig [(0, 7), (1, 7), (2, 7)] [(0, 7), (1, 7), (2, 7)]).toOption
      = some [(0, 49), (1, 98), (2, -109), (3, 99), (4, 49)] := by decide +kernel

/-- … the repaired code returns the product -/
theorem D11_kron_repaired :
    (kmul [(0, 7), (1, 7), (2, 7)] [(0, 7), (1, 7), (2, 7)]).toOption
      = some [(0, 49), (1, 98), (2, 147), (3, 98), (4, 49)] := by decide +kernel

/-- D17: the loop condition as found compares the numbers of *terms*:
    `x²-x+1` does not "divide" `x³+1` (it does: quotient `x+1`) … -/
theorem D17_divides_as_found_false_negative :
    (dividesWith false kmulOrig divExactInt [(0, 1), (1, -1), (2, 1)] [(0, 1), (3, 1)]).toOption
      = some none := by decide +kernel

theorem D17_divides_repaired :
    (dividesWith true kmul divExactInt [(0, 1), (1, -1), (2, 1)] [(0, 1), (3, 1)]).toOption
      = some (some [(0, 1), (1, 1)]) := by decide +kernel

/-- … and for `a = x²`, `b = x+1` the unsigned exponent `b_deg - a_deg` wraps -/
theorem D17_divides_as_found_wraps :
    (match dividesWith false gmul divExactRat [(2, 1)] [(0, 1), (1, 1)] with
      | .error .wrap => true
      | _ => false) = true := by decide +kernel

/-! ## Non-vacuity: the hypotheses are satisfiable on non-trivial values -/

def p777 : Dict Int := [(0, 7), (1, 7), (2, 7)]
theorem p777_canon : Canon p777 := by
  constructor
  · simp [Sorted, p777]
  · intro p hp; simp [p777] at hp; rcases hp with h | h | h <;> rw [h] <;> decide

example : ∃ r, UPoly.UInt.mulU p777 p777 = .ok r ∧ Canon r ∧ toPoly r = toPoly p777 * toPoly p777 ∧
    ∀ k, getCoeff r k = conv (getCoeff p777) (getCoeff p777) k := UInt.mul_spec p777_canon p777_canon
example := UInt.pow_spec p777_canon 0
example : conv (getCoeff p777) (getCoeff p777) 2 = 147 := by decide
example : Canon (UPoly.UInt.addU p777 p777) := (UInt.add_spec p777_canon p777_canon).1
example := UInt.divides_spec p777_canon p777_canon (by simp [p777])
example := UInt.eval_spec p777_canon 3
example := UInt.diff_spec p777_canon

def qhalf : Dict Rat := [(0, 1 / 2), (3, -2)]
theorem qhalf_canon : Canon qhalf := by
  constructor
  · simp [Sorted, qhalf]
  · intro p hp; simp [qhalf] at hp; rcases hp with h | h <;> rw [h] <;> norm_num
example := URat.mul_spec qhalf_canon qhalf_canon
example := URat.pow_spec qhalf_canon 5
example := URat.divides_spec qhalf_canon qhalf_canon (by simp [qhalf])
example := UExpr.mul_spec p777_canon p777_canon

end SymVerif.C21
