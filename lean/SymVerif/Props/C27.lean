import SymVerif.Lemmas.C27Step3

/-!
# C27  Set operations have pointwise membership semantics

Model: `SymVerif/Model/Sets.lean` (symengine/sets.cpp, set_funcs.cpp *as repaired*, see docs/C27.md).
`mem s q` is the denotation of a set object on the rational point `q`; `WF s` says that every `Interval` node is
canonical (`start < end`) and every `Union` node has members (both hold for every object the library can build).

Headline theorems, for *every* call depth `n`, all well-formed operands and all rational points (partial
correctness: whenever the modelled method returns a set):

* `contains_sound`                      `contains` never contradicts the denotation
* `union_mem`, `inter_mem`, `compl_mem` the methods `a->set_union(b)`, `a->set_intersection(b)`, `a->set_complement(b)`
* `nunion_mem`, `ninter_mem`            the free functions on a container
* `eval_sound`                          whole expression trees of the driver's op language
* `sup_upper`, `inf_lower`, `sup_least_iv`, …   `sup` / `inf`
* `interior_mem`, `closure_mem`, `boundary_*`   `interior = s \ boundary`, `closure = s ∪ boundary`, boundary of atoms

Not proved (kept as `…_full` definitions): the boundary of a `Union` is the topological boundary; termination.
The branches `Complement::set_union`, `Complement::set_complement`, `Intersection::set_complement` are known to be
wrong in the C++ and are not modelled (the model answers `Err.defect`), so the theorems say nothing about them.
-/
namespace SymVerif.C27
open SymVerif.Sets

/-! ### concrete evaluation helper (for the non-vacuity examples and the refutations) -/

def isOkEq (r : Except Err SetE) (s : SetE) : Bool :=
  match r with
  | .ok t => t == s
  | .error _ => false

theorem isOkEq_sound {r : Except Err SetE} {s : SetE} (h : isOkEq r s = true) : r = .ok s := by
  unfold isOkEq at h
  split at h
  · rw [SetE.eq_of_beq h]
  · simp at h

/-- `[0, 2]`, `[5, 7]`, `[1, 3)` and the finite set of the confirmed defect D14 in its hash order -/
def iv02 : SetE := .iv (.fin 0) (.fin 2) false false
def iv57 : SetE := .iv (.fin 5) (.fin 7) false false
def iv13o : SetE := .iv (.fin 1) (.fin 3) false true
def fsD14 : List ENum := [.fin 1, .fin 2, .fin 3, .fin 10, .fin (1/2), .fin (-5)]

theorem WF_iv02 : WF iv02 := by simp only [iv02, WF, ENum.fin_lt_fin]; norm_num
theorem WF_iv57 : WF iv57 := by simp only [iv57, WF, ENum.fin_lt_fin]; norm_num
theorem WF_iv13o : WF iv13o := by simp only [iv13o, WF, ENum.fin_lt_fin]; norm_num

/-! ### contains -/

/-- `contains()` answers exactly the denotation (it never returns an unevaluated `Contains` on this fragment). -/
theorem contains_sound (s : SetE) (q : ℚ) (h : WF s) : contains s (.fin q) = true ↔ mem s q :=
  contains_iff s q h

example : contains (.co .reals iv02) (.fin 3) = true ∧ mem (.co .reals iv02) 3 := by
  have h : contains (.co .reals iv02) (.fin 3) = true := by decide +kernel
  exact ⟨h, (contains_sound _ 3 (by simp only [WF, true_and]; exact WF_iv02)).1 h⟩

/-! ### union, intersection, complement -/

/-- `a->set_union(b)` -/
theorem union_mem (n : Nat) (a b s : SetE) (ha : WF a) (hb : WF b) (h : (ops n).mu a b = .ok s) :
    WF s ∧ ∀ q : ℚ, mem s q ↔ (mem a q ∨ mem b q) := (ops_sound n).mu a b s ha hb h

/-- `a->set_intersection(b)` -/
theorem inter_mem (n : Nat) (a b s : SetE) (ha : WF a) (hb : WF b) (h : (ops n).mi a b = .ok s) :
    WF s ∧ ∀ q : ℚ, mem s q ↔ (mem a q ∧ mem b q) := (ops_sound n).mi a b s ha hb h

/-- `a->set_complement(u)` = `set_complement(u, a)` = `u \ a` -/
theorem compl_mem (n : Nat) (a u s : SetE) (ha : WF a) (hu : WF u) (h : (ops n).mc a u = .ok s) :
    WF s ∧ ∀ q : ℚ, mem s q ↔ (mem u q ∧ ¬ mem a q) := (ops_sound n).mc a u s ha hu h

/-- free function `set_union(container)` -/
theorem nunion_mem (n : Nat) (l : List SetE) (s : SetE) (hl : WFL l) (h : (ops n).nu l = .ok s) :
    WF s ∧ ∀ q : ℚ, mem s q ↔ memAny l q := (ops_sound n).nu l s hl h

/-- free function `set_intersection(container)` -/
theorem ninter_mem (n : Nat) (l : List SetE) (s : SetE) (hl : WFL l) (h : (ops n).ni l = .ok s) :
    WF s ∧ ∀ q : ℚ, mem s q ↔ memAll l q := (ops_sound n).ni l s hl h

-- non-vacuity: the theorems apply to real evaluations of the model
example : ∀ q : ℚ, mem iv57 q ↔ (mem iv57 q ∧ ¬ mem iv02 q) :=
  (compl_mem topFuel iv02 iv57 iv57 WF_iv02 WF_iv57 (isOkEq_sound (by decide +kernel))).2

example : ∀ q : ℚ, mem (.iv (.fin 0) (.fin 3) false true) q ↔ (mem iv02 q ∨ mem iv13o q) :=
  (union_mem topFuel iv02 iv13o _ WF_iv02 WF_iv13o (isOkEq_sound (by decide +kernel))).2

example : ∀ q : ℚ, mem (.iv (.fin 1) (.fin 2) false false) q ↔ (mem iv02 q ∧ mem iv13o q) :=
  (inter_mem topFuel iv02 iv13o _ WF_iv02 WF_iv13o (isOkEq_sound (by decide +kernel))).2

example : ∀ q : ℚ, mem (.un [.ints, .iv (.fin 0) (.fin 2) false false]) q ↔ memAny (mkSS [iv02, .ints, .fs [.fin 1]]) q :=
  (nunion_mem topFuel (mkSS [iv02, .ints, .fs [.fin 1]]) _
    ((WFL_mkSS _).2 ⟨WF_iv02, by simp [WF], by simp [WF], trivial⟩) (isOkEq_sound (by decide +kernel))).2

example : ∀ q : ℚ, mem (.fs [.fin 1, .fin 2]) q ↔ memAll (mkSS [iv02, .nats]) q :=
  (ninter_mem topFuel (mkSS [iv02, .nats]) _
    ((WFL_mkSS _).2 ⟨WF_iv02, by simp [WF], trivial⟩) (isOkEq_sound (by decide +kernel))).2

/-! ### whole expressions of the op language -/

mutual
/-- reference semantics of an expression (boolean combination of the memberships of its leaves) -/
def den : Expr → ℚ → Prop
  | .lit s, q => mem s q
  | .iv a b lo ro, q => memIv a b lo ro q
  | .fs l, q => ENum.fin q ∈ l
  | .un l, q => denAny l q
  | .inn l, q => denAll l q
  | .co u a, q => den u q ∧ ¬ den a q
  | .mu a b, q => den a q ∨ den b q
  | .mi a b, q => den a q ∧ den b q
  | .mc a b, q => den b q ∧ ¬ den a q
  | .bd _, _ => False
  | .ir _, _ => False
  | .cl _, _ => False
def denAny : List Expr → ℚ → Prop
  | [], _ => False
  | x :: t, q => den x q ∨ denAny t q
def denAll : List Expr → ℚ → Prop
  | [], _ => True
  | x :: t, q => den x q ∧ denAll t q
end

mutual
/-- expressions without topological operators whose literals are well-formed -/
def boolOnly : Expr → Prop
  | .lit s => WF s
  | .iv .. => True
  | .fs _ => True
  | .un l => boolOnlyL l
  | .inn l => boolOnlyL l
  | .co u a => boolOnly u ∧ boolOnly a
  | .mu a b => boolOnly a ∧ boolOnly b
  | .mi a b => boolOnly a ∧ boolOnly b
  | .mc a b => boolOnly a ∧ boolOnly b
  | .bd _ => False
  | .ir _ => False
  | .cl _ => False
def boolOnlyL : List Expr → Prop
  | [] => True
  | x :: t => boolOnly x ∧ boolOnlyL t
end

theorem bind_ok {α β : Type} {x : Except Err α} {f : α → Except Err β} {b : β}
    (h : (x >>= f) = .ok b) : ∃ a, x = .ok a ∧ f a = .ok b := by
  cases x with
  | error e => simp [bind, Except.bind] at h
  | ok a => exact ⟨a, rfl, h⟩

mutual
/-- Evaluating an expression tree with the modelled library operations yields a set whose rational points are
    exactly those of the boolean reference semantics. -/
theorem eval_sound : ∀ (e : Expr) (s : SetE), boolOnly e → evalE e = .ok s → WF s ∧ ∀ q : ℚ, mem s q ↔ den e q
  | .lit t, s, hb, h => by
    simp only [evalE] at h; cases ok_inj h
    exact ⟨hb, fun q => by simp only [den]⟩
  | .iv a b lo ro, s, _, h => by
    simp only [evalE] at h; cases ok_inj h
    exact ⟨WF_interval _ _ _ _, fun q => by simp only [den, mem_interval]⟩
  | .fs l, s, _, h => by
    simp only [evalE] at h; cases ok_inj h
    exact ⟨WF_finiteset _, fun q => by simp only [den, mem_finiteset, mem_mkSB]⟩
  | .un l, s, hb, h => by
    simp only [evalE] at h
    obtain ⟨ss, h1, h2⟩ := bind_ok h
    have hl := evalL_sound l ss (by simpa [boolOnly] using hb) h1
    have := top_sound.nu _ s ((WFL_mkSS _).2 hl.1) h2
    exact ⟨this.1, fun q => by rw [this.2 q, memAny_mkSS, hl.2.1 q]; simp only [den]⟩
  | .inn l, s, hb, h => by
    simp only [evalE] at h
    obtain ⟨ss, h1, h2⟩ := bind_ok h
    have hl := evalL_sound l ss (by simpa [boolOnly] using hb) h1
    have := top_sound.ni _ s ((WFL_mkSS _).2 hl.1) h2
    exact ⟨this.1, fun q => by rw [this.2 q, memAll_mkSS, hl.2.2 q]; simp only [den]⟩
  | .co u a, s, hb, h => by
    simp only [evalE] at h
    simp only [boolOnly] at hb
    obtain ⟨u', h1, h⟩ := bind_ok h
    obtain ⟨a', h2, h⟩ := bind_ok h
    have hu := eval_sound u u' hb.1 h1
    have ha := eval_sound a a' hb.2 h2
    have := top_sound.mc a' u' s ha.1 hu.1 h
    exact ⟨this.1, fun q => by rw [this.2 q, hu.2 q, ha.2 q]; simp only [den]⟩
  | .mu a b, s, hb, h => by
    simp only [evalE] at h
    simp only [boolOnly] at hb
    obtain ⟨a', h1, h⟩ := bind_ok h
    obtain ⟨b', h2, h⟩ := bind_ok h
    have ha := eval_sound a a' hb.1 h1
    have hb' := eval_sound b b' hb.2 h2
    have := top_sound.mu a' b' s ha.1 hb'.1 h
    exact ⟨this.1, fun q => by rw [this.2 q, ha.2 q, hb'.2 q]; simp only [den]⟩
  | .mi a b, s, hb, h => by
    simp only [evalE] at h
    simp only [boolOnly] at hb
    obtain ⟨a', h1, h⟩ := bind_ok h
    obtain ⟨b', h2, h⟩ := bind_ok h
    have ha := eval_sound a a' hb.1 h1
    have hb' := eval_sound b b' hb.2 h2
    have := top_sound.mi a' b' s ha.1 hb'.1 h
    exact ⟨this.1, fun q => by rw [this.2 q, ha.2 q, hb'.2 q]; simp only [den]⟩
  | .mc a b, s, hb, h => by
    simp only [evalE] at h
    simp only [boolOnly] at hb
    obtain ⟨a', h1, h⟩ := bind_ok h
    obtain ⟨b', h2, h⟩ := bind_ok h
    have ha := eval_sound a a' hb.1 h1
    have hb' := eval_sound b b' hb.2 h2
    have := top_sound.mc a' b' s ha.1 hb'.1 h
    exact ⟨this.1, fun q => by rw [this.2 q, ha.2 q, hb'.2 q]; simp only [den]⟩
  | .bd _, _, hb, _ => by simp [boolOnly] at hb
  | .ir _, _, hb, _ => by simp [boolOnly] at hb
  | .cl _, _, hb, _ => by simp [boolOnly] at hb
theorem evalL_sound : ∀ (l : List Expr) (ss : List SetE), boolOnlyL l → evalL l = .ok ss →
    WFL ss ∧ (∀ q : ℚ, memAny ss q ↔ denAny l q) ∧ (∀ q : ℚ, memAll ss q ↔ denAll l q)
  | [], ss, _, h => by
    simp only [evalL] at h
    cases h
    exact ⟨trivial, fun q => by simp [memAny, denAny], fun q => by simp [memAll, denAll]⟩
  | x :: t, ss, hb, h => by
    simp only [evalL] at h
    simp only [boolOnlyL] at hb
    obtain ⟨s, h1, h⟩ := bind_ok h
    obtain ⟨st, h2, h⟩ := bind_ok h
    simp only [pure, Except.pure, Except.ok.injEq] at h
    subst h
    have hx := eval_sound x s hb.1 h1
    have ht := evalL_sound t st hb.2 h2
    exact ⟨⟨hx.1, ht.1⟩, fun q => by simp only [memAny, denAny, hx.2 q, ht.2.1 q],
      fun q => by simp only [memAll, denAll, hx.2 q, ht.2.2 q]⟩
end

/-- `([0,2] ∪ {1/2, 5}) \ ℤ` as an expression -/
def exprEx : Expr := .co (.un [.iv (.fin 0) (.fin 2) false false, .fs [.fin (1/2), .fin 5]]) (.lit .ints)

theorem exprEx_value : evalE exprEx = .ok (.co (.iv (.fin 0) (.fin 2) false false) .ints) := by
  have h1 : top.nu (mkSS [interval (.fin 0) (.fin 2) false false, finiteset (mkSB [.fin (1/2), .fin 5])])
      = .ok (.un [.fs [.fin 5], .iv (.fin 0) (.fin 2) false false]) := isOkEq_sound (by decide +kernel)
  have h2 : top.mc .ints (.un [.fs [.fin 5], .iv (.fin 0) (.fin 2) false false])
      = .ok (.co (.iv (.fin 0) (.fin 2) false false) .ints) := isOkEq_sound (by decide +kernel)
  simp only [exprEx, evalE, evalL, bind, Except.bind, pure, Except.pure, h1, h2]

example : ∀ q : ℚ, mem (.co (.iv (.fin 0) (.fin 2) false false) .ints) q ↔ den exprEx q :=
  (eval_sound exprEx _ (by simp [exprEx, boolOnly, boolOnlyL, WF]) exprEx_value).2

/-! ### sup / inf -/

theorem foldl_max2_ge (l : List ENum) (x : ENum) : x ≤ l.foldl ENum.max2 x ∧ ∀ y ∈ l, y ≤ l.foldl ENum.max2 x := by
  induction l generalizing x with
  | nil => simp
  | cons z t ih =>
    simp only [List.foldl_cons, ENum.max2_eq]
    have := ih (max x z)
    refine ⟨le_trans (le_max_left _ _) this.1, fun y hy => ?_⟩
    rcases List.mem_cons.1 hy with rfl | hy
    · exact le_trans (le_max_right _ _) this.1
    · exact this.2 y hy

theorem foldl_min2_le (l : List ENum) (x : ENum) : l.foldl ENum.min2 x ≤ x ∧ ∀ y ∈ l, l.foldl ENum.min2 x ≤ y := by
  induction l generalizing x with
  | nil => simp
  | cons z t ih =>
    simp only [List.foldl_cons, ENum.min2_eq]
    have := ih (min x z)
    refine ⟨le_trans this.1 (min_le_left _ _), fun y hy => ?_⟩
    rcases List.mem_cons.1 hy with rfl | hy
    · exact le_trans this.1 (min_le_right _ _)
    · exact this.2 y hy

theorem maxList_ge {l : List ENum} {v : ENum} (h : maxList l = .ok v) : ∀ y ∈ l, y ≤ v := by
  cases l with
  | nil => simp [maxList] at h
  | cons x t =>
    simp only [maxList, Except.ok.injEq] at h
    subst h
    intro y hy
    rcases List.mem_cons.1 hy with rfl | hy
    · exact (foldl_max2_ge t _).1
    · exact (foldl_max2_ge t x).2 y hy

theorem minList_le {l : List ENum} {v : ENum} (h : minList l = .ok v) : ∀ y ∈ l, v ≤ y := by
  cases l with
  | nil => simp [minList] at h
  | cons x t =>
    simp only [minList, Except.ok.injEq] at h
    subst h
    intro y hy
    rcases List.mem_cons.1 hy with rfl | hy
    · exact (foldl_min2_le t _).1
    · exact (foldl_min2_le t x).2 y hy

mutual
theorem sup_upper_aux : ∀ (s : SetE) (v : ENum) (q : ℚ), supInf true s = .ok v → mem s q → ENum.fin q ≤ v
  | .reals, v, q, h, _ | .rats, v, q, h, _ | .ints, v, q, h, _ | .nats, v, q, h, _ | .nats0, v, q, h, _ => by
    simp only [supInf, if_true, Except.ok.injEq] at h; subst h; exact ENum.le_pinf _
  | .iv a b lo ro, v, q, h, hm => by
    simp only [supInf, if_true, Except.ok.injEq] at h; subst h
    simp only [mem, memIv] at hm
    rcases hm.2 with h2 | h2
    · exact h2.le
    · exact h2.1 ▸ le_refl _
  | .fs l, v, q, h, hm => by
    simp only [supInf, if_true] at h
    exact maxList_ge h _ (by simpa [mem] using hm)
  | .un l, v, q, h, hm => by
    simp only [supInf, if_true] at h
    obtain ⟨vs, h1, h2⟩ := bind_ok h
    simp only [mem] at hm
    obtain ⟨w, hw, hle⟩ := sup_upper_auxL l vs q h1 hm
    exact le_trans hle (maxList_ge h2 w hw)
  | .co _ _, _, _, h, _ => by simp [supInf] at h
  | .empty, _, _, h, _ => by simp [supInf] at h
  | .univ, _, _, h, _ => by simp [supInf] at h
  | .inter _, _, _, h, _ => by simp [supInf] at h
theorem sup_upper_auxL : ∀ (l : List SetE) (vs : List ENum) (q : ℚ), supInfL true l = .ok vs → memAny l q →
    ∃ w ∈ vs, ENum.fin q ≤ w
  | [], _, _, _, hm => by simp [memAny] at hm
  | x :: t, vs, q, h, hm => by
    simp only [supInfL] at h
    obtain ⟨v, h1, h⟩ := bind_ok h
    obtain ⟨vt, h2, h⟩ := bind_ok h
    simp only [pure, Except.pure, Except.ok.injEq] at h
    subst h
    rcases hm with hm | hm
    · exact ⟨v, List.mem_cons_self, sup_upper_aux x v q h1 hm⟩
    · obtain ⟨w, hw, hle⟩ := sup_upper_auxL t vt q h2 hm
      exact ⟨w, List.mem_cons_of_mem _ hw, hle⟩
end

mutual
theorem inf_lower_aux : ∀ (s : SetE) (v : ENum) (q : ℚ), supInf false s = .ok v → mem s q → v ≤ ENum.fin q
  | .reals, v, q, h, _ | .rats, v, q, h, _ | .ints, v, q, h, _ => by
    simp only [supInf, Bool.false_eq_true, if_false, Except.ok.injEq] at h; subst h; exact ENum.ninf_le _
  | .nats, v, q, h, hm => by
    simp only [supInf, Bool.false_eq_true, if_false, Except.ok.injEq] at h; subst h
    simp only [mem] at hm
    rw [ENum.fin_le_fin]
    have h1 : (q.num : ℚ) = q := (Rat.den_eq_one_iff q).1 hm.1
    rw [← h1]
    have : (1 : ℤ) ≤ q.num := hm.2
    exact_mod_cast this
  | .nats0, v, q, h, hm => by
    simp only [supInf, Bool.false_eq_true, if_false, Except.ok.injEq] at h; subst h
    simp only [mem] at hm
    rw [ENum.fin_le_fin]
    have h1 : (q.num : ℚ) = q := (Rat.den_eq_one_iff q).1 hm.1
    rw [← h1]
    exact_mod_cast hm.2
  | .iv a b lo ro, v, q, h, hm => by
    simp only [supInf, Bool.false_eq_true, if_false, Except.ok.injEq] at h; subst h
    simp only [mem, memIv] at hm
    rcases hm.1 with h2 | h2
    · exact h2.le
    · exact h2.1 ▸ le_refl _
  | .fs l, v, q, h, hm => by
    simp only [supInf, Bool.false_eq_true, if_false] at h
    exact minList_le h _ (by simpa [mem] using hm)
  | .un l, v, q, h, hm => by
    simp only [supInf, Bool.false_eq_true, if_false] at h
    obtain ⟨vs, h1, h2⟩ := bind_ok h
    simp only [mem] at hm
    obtain ⟨w, hw, hle⟩ := inf_lower_auxL l vs q h1 hm
    exact le_trans (minList_le h2 w hw) hle
  | .co _ _, _, _, h, _ => by simp [supInf] at h
  | .empty, _, _, h, _ => by simp [supInf] at h
  | .univ, _, _, h, _ => by simp [supInf] at h
  | .inter _, _, _, h, _ => by simp [supInf] at h
theorem inf_lower_auxL : ∀ (l : List SetE) (vs : List ENum) (q : ℚ), supInfL false l = .ok vs → memAny l q →
    ∃ w ∈ vs, w ≤ ENum.fin q
  | [], _, _, _, hm => by simp [memAny] at hm
  | x :: t, vs, q, h, hm => by
    simp only [supInfL] at h
    obtain ⟨v, h1, h⟩ := bind_ok h
    obtain ⟨vt, h2, h⟩ := bind_ok h
    simp only [pure, Except.pure, Except.ok.injEq] at h
    subst h
    rcases hm with hm | hm
    · exact ⟨v, List.mem_cons_self, inf_lower_aux x v q h1 hm⟩
    · obtain ⟨w, hw, hle⟩ := inf_lower_auxL t vt q h2 hm
      exact ⟨w, List.mem_cons_of_mem _ hw, hle⟩
end

/-- `sup(s)` is an upper bound of every rational point of `s`. -/
theorem sup_upper (s : SetE) (v : ENum) (h : supInf true s = .ok v) : ∀ q : ℚ, mem s q → ENum.fin q ≤ v :=
  fun q hm => sup_upper_aux s v q h hm

/-- `inf(s)` is a lower bound of every rational point of `s`. -/
theorem inf_lower (s : SetE) (v : ENum) (h : supInf false s = .ok v) : ∀ q : ℚ, mem s q → v ≤ ENum.fin q :=
  fun q hm => inf_lower_aux s v q h hm

example : supInf true (.un [iv02, .fs [.fin 5]]) = .ok (.fin 5) ∧ ∀ q : ℚ, mem (.un [iv02, .fs [.fin 5]]) q → ENum.fin q ≤ .fin 5 := by
  have h : supInf true (.un [iv02, .fs [.fin 5]]) = .ok (.fin 5) := by decide +kernel
  exact ⟨h, sup_upper _ _ h⟩

/-- between two extended rationals there is a rational -/
theorem exists_rat_between {a b : ENum} (h : a < b) : ∃ q : ℚ, a < .fin q ∧ .fin q < b := by
  cases a with
  | pinf => exact absurd h (not_lt.2 (ENum.le_pinf _))
  | ninf =>
    cases b with
    | ninf => exact absurd h (lt_irrefl _)
    | fin y => exact ⟨y - 1, by simp, by simp⟩
    | pinf => exact ⟨0, by simp, by simp⟩
  | fin x =>
    cases b with
    | ninf => exact absurd h (not_lt.2 (ENum.ninf_le _))
    | fin y =>
      rw [ENum.fin_lt_fin] at h
      exact ⟨(x + y) / 2, by rw [ENum.fin_lt_fin]; linarith, by rw [ENum.fin_lt_fin]; linarith⟩
    | pinf => exact ⟨x + 1, by simp, by simp⟩

/-- the supremum of an interval is the least upper bound: every smaller bound is exceeded by a point of the set -/
theorem sup_least_iv (a b : ENum) (lo ro : Bool) (hab : a < b) (w : ENum) (hw : w < b) :
    ∃ q : ℚ, mem (.iv a b lo ro) q ∧ w < .fin q := by
  obtain ⟨q, h1, h2⟩ := exists_rat_between (max_lt hab hw)
  exact ⟨q, by simp only [mem, memIv]; exact ⟨Or.inl (lt_of_le_of_lt (le_max_left _ _) h1), Or.inl h2⟩,
    lt_of_le_of_lt (le_max_right _ _) h1⟩

/-- the infimum of an interval is the greatest lower bound -/
theorem inf_greatest_iv (a b : ENum) (lo ro : Bool) (hab : a < b) (w : ENum) (hw : a < w) :
    ∃ q : ℚ, mem (.iv a b lo ro) q ∧ .fin q < w := by
  obtain ⟨q, h1, h2⟩ := exists_rat_between (lt_min hab hw)
  exact ⟨q, by simp only [mem, memIv]; exact ⟨Or.inl h1, Or.inl (lt_of_lt_of_le h2 (min_le_left _ _))⟩,
    lt_of_lt_of_le h2 (min_le_right _ _)⟩

/-! ### boundary, interior, closure -/

/-- `interior(s) = s \ boundary(s)` on points, whatever the boundary is -/
theorem interior_mem (s b r : SetE) (hs : WF s) (hb : WF b) (h1 : boundary topFuel s = .ok b)
    (h2 : interior s = .ok r) : WF r ∧ ∀ q : ℚ, mem r q ↔ (mem s q ∧ ¬ mem b q) := by
  unfold interior at h2
  rw [h1] at h2
  exact top_sound.mc b s r hb hs h2

/-- `closure(s) = s ∪ boundary(s)` on points -/
theorem closure_mem (s b r : SetE) (hs : WF s) (hb : WF b) (h1 : boundary topFuel s = .ok b)
    (h2 : closure s = .ok r) : WF r ∧ ∀ q : ℚ, mem r q ↔ (mem s q ∨ mem b q) := by
  unfold closure at h2
  rw [h1] at h2
  exact top_sound.mu s b r hs hb h2

/-- boundary of an interval: its two end points -/
theorem boundary_iv (n : Nat) (a b : ENum) (lo ro : Bool) (r : SetE) (h : boundary (n + 1) (.iv a b lo ro) = .ok r) :
    WF r ∧ ∀ q : ℚ, mem r q ↔ (ENum.fin q = a ∨ ENum.fin q = b) := by
  simp only [boundary] at h
  cases ok_inj h
  exact ⟨WF_finiteset _, fun q => by rw [mem_finiteset, mem_mkSB]; simp⟩

/-- topological boundary point of a set of rationals (order topology): every open interval around `q` meets the
    set and its complement -/
def IsBoundaryPt (S : ℚ → Prop) (q : ℚ) : Prop :=
  ∀ x y : ℚ, x < q → q < y → (∃ z, x < z ∧ z < y ∧ S z) ∧ (∃ z, x < z ∧ z < y ∧ ¬ S z)

/-- the end points of an interval are exactly its topological boundary points -/
theorem boundary_iv_topological (a b : ENum) (lo ro : Bool) (hab : a < b) (q : ℚ) :
    IsBoundaryPt (mem (.iv a b lo ro)) q ↔ (ENum.fin q = a ∨ ENum.fin q = b) := by
  constructor
  · intro hbd
    by_contra hne
    simp only [not_or] at hne
    rcases lt_trichotomy (ENum.fin q) a with h | h | h
    · -- left of the interval: a neighbourhood misses it
      obtain ⟨y, hy1, hy2⟩ := exists_rat_between h
      obtain ⟨⟨z, _, hz2, hz⟩, _⟩ := hbd (q - 1) y (by linarith) (by simpa using hy1)
      simp only [mem, memIv] at hz
      have : a ≤ ENum.fin z := by rcases hz.1 with h3 | h3; exact h3.le; exact h3.1 ▸ le_refl _
      exact absurd (lt_of_le_of_lt this ((ENum.fin_lt_fin _ _).2 hz2)) (not_lt.2 hy2.le)
    · exact hne.1 h
    · rcases lt_trichotomy (ENum.fin q) b with h' | h' | h'
      · -- strictly inside: a neighbourhood stays inside
        obtain ⟨x, hx1, hx2⟩ := exists_rat_between h
        obtain ⟨y, hy1, hy2⟩ := exists_rat_between h'
        obtain ⟨_, ⟨z, hz1, hz2, hz⟩⟩ := hbd x y (by simpa using hx2) (by simpa using hy1)
        apply hz
        simp only [mem, memIv]
        exact ⟨Or.inl (lt_trans hx1 ((ENum.fin_lt_fin _ _).2 hz1)),
          Or.inl (lt_trans ((ENum.fin_lt_fin _ _).2 hz2) hy2)⟩
      · exact hne.2 h'
      · obtain ⟨x, hx1, hx2⟩ := exists_rat_between h'
        obtain ⟨⟨z, hz1, _, hz⟩, _⟩ := hbd x (q + 1) (by simpa using hx2) (by linarith)
        simp only [mem, memIv] at hz
        have : ENum.fin z ≤ b := by rcases hz.2 with h3 | h3; exact h3.le; exact h3.1 ▸ le_refl _
        exact absurd (lt_of_lt_of_le ((ENum.fin_lt_fin _ _).2 hz1) this) (not_lt.2 hx1.le)
  · rintro (h | h)
    · -- q = a : points just right of a are inside, points left of a are outside
      intro x y hx hy
      subst h
      have hyb : ENum.fin q < min (ENum.fin y) b := lt_min ((ENum.fin_lt_fin _ _).2 hy) hab
      obtain ⟨z, hz1, hz2⟩ := exists_rat_between hyb
      refine ⟨⟨z, lt_trans hx ((ENum.fin_lt_fin _ _).1 hz1),
        (ENum.fin_lt_fin _ _).1 (lt_of_lt_of_le hz2 (min_le_left _ _)), ?_⟩, ?_⟩
      · simp only [mem, memIv]
        exact ⟨Or.inl hz1, Or.inl (lt_of_lt_of_le hz2 (min_le_right _ _))⟩
      · refine ⟨(x + q) / 2, by linarith, by linarith, ?_⟩
        simp only [mem, memIv]
        intro hc
        have : ENum.fin q ≤ ENum.fin ((x + q) / 2) := by
          rcases hc.1 with h3 | h3; exact h3.le; exact h3.1 ▸ le_refl _
        rw [ENum.fin_le_fin] at this
        linarith
    · intro x y hx hy
      subst h
      have hxa : max (ENum.fin x) a < ENum.fin q := max_lt ((ENum.fin_lt_fin _ _).2 hx) hab
      obtain ⟨z, hz1, hz2⟩ := exists_rat_between hxa
      refine ⟨⟨z, (ENum.fin_lt_fin _ _).1 (lt_of_le_of_lt (le_max_left _ _) hz1),
        lt_trans ((ENum.fin_lt_fin _ _).1 hz2) hy, ?_⟩, ?_⟩
      · simp only [mem, memIv]
        exact ⟨Or.inl (lt_of_le_of_lt (le_max_right _ _) hz1), Or.inl hz2⟩
      · refine ⟨(q + y) / 2, by linarith, by linarith, ?_⟩
        simp only [mem, memIv]
        intro hc
        have : ENum.fin ((q + y) / 2) ≤ ENum.fin q := by
          rcases hc.2 with h3 | h3; exact h3.le; exact h3.1 ▸ le_refl _
        rw [ENum.fin_le_fin] at this
        linarith

/-- interior of an interval: the open interval (consequence of `interior_mem`, `boundary_iv`) -/
theorem interior_iv (a b : ENum) (lo ro : Bool) (hab : a < b) (r : SetE)
    (h : interior (.iv a b lo ro) = .ok r) : ∀ q : ℚ, mem r q ↔ (a < ENum.fin q ∧ ENum.fin q < b) := by
  have hb : boundary topFuel (.iv a b lo ro) = .ok (finiteset (mkSB [a, b])) := by
    simp [topFuel, boundary]
  have := interior_mem (.iv a b lo ro) _ r (by simpa [WF] using hab) (WF_finiteset _) hb h
  intro q
  rw [this.2 q, mem_finiteset, mem_mkSB]
  simp only [mem, memIv, List.mem_cons, List.not_mem_nil, or_false]
  grind

/-- closure of an interval: the closed interval -/
theorem closure_iv (a b : ENum) (lo ro : Bool) (hab : a < b) (r : SetE)
    (h : closure (.iv a b lo ro) = .ok r) : ∀ q : ℚ, mem r q ↔ (a ≤ ENum.fin q ∧ ENum.fin q ≤ b) := by
  have hb : boundary topFuel (.iv a b lo ro) = .ok (finiteset (mkSB [a, b])) := by
    simp [topFuel, boundary]
  have := closure_mem (.iv a b lo ro) _ r (by simpa [WF] using hab) (WF_finiteset _) hb h
  intro q
  rw [this.2 q, mem_finiteset, mem_mkSB]
  simp only [mem, memIv, List.mem_cons, List.not_mem_nil, or_false]
  grind

example : ∀ q : ℚ, mem (.iv (.fin (-1)) (.fin 4) true true) q ↔ ((.fin (-1) : ENum) < .fin q ∧ ENum.fin q < .fin 4) :=
  interior_iv (.fin (-1)) (.fin 4) false false (by rw [ENum.fin_lt_fin]; norm_num) _
    (isOkEq_sound (by decide +kernel))

/-- full statement for `boundary` (NOT proved for `Union`s): the result consists of the topological boundary
    points, for sets without `Rationals` (whose boundary contains irrational points). -/
def C27_boundary_full : Prop :=
  ∀ (s b : SetE), WF s → boundary topFuel s = .ok b → ∀ q : ℚ, mem b q ↔ IsBoundaryPt (mem s) q

/-! ### the defects of the original code, refuted on their minimal inputs -/

/-- D13: the original `Interval::set_complement` returns `(2, 7]` for `[5,7] \ [0,2]` … -/
theorem D13_orig_value : ivComplIvOrig top (.fin 0) (.fin 2) false false (.fin 5) (.fin 7) false false
    = .ok (.iv (.fin 2) (.fin 7) true false) := isOkEq_sound (by decide +kernel)

/-- … which contains `5/2`, a point outside `[5,7]`. -/
theorem D13_orig_wrong : mem (.iv (.fin 2) (.fin 7) true false) (5/2) ∧ ¬ mem iv57 (5/2) := by
  simp only [mem, memIv, iv57, ENum.fin_lt_fin, ENum.fin.injEq]
  norm_num

/-- D14: the original `FiniteSet::set_complement` walks `{1, 2, 3, 10, 1/2, -5}` in hash order and returns
    `[0,1) ∪ (1,2)` for `[0,2] \ {…}` … -/
theorem D14_orig_value : fsComplIvOrig fsD14 (.fin 0) (.fin 2) false false
    = .ok (.un [.iv (.fin 0) (.fin 1) false true, .iv (.fin 1) (.fin 2) true true]) :=
  isOkEq_sound (by decide +kernel)

/-- … which still contains the element `1/2`. -/
theorem D14_orig_wrong :
    mem (.un [.iv (.fin 0) (.fin 1) false true, .iv (.fin 1) (.fin 2) true true]) (1/2) ∧ ENum.fin (1/2) ∈ fsD14 := by
  refine ⟨?_, by simp [fsD14]⟩
  simp only [mem, memAny, memIv, ENum.fin_lt_fin, ENum.fin.injEq]
  norm_num

/-- the repaired code removes it -/
theorem D14_fixed_value : fsComplIv fsD14 (.fin 0) (.fin 2) false false
    = .ok (.un [.iv (.fin 1) (.fin 2) true true, .iv (.fin 0) (.fin (1/2)) false true,
                .iv (.fin (1/2)) (.fin 1) true true]) := isOkEq_sound (by decide +kernel)

/-- original `Naturals0::set_complement(Integers)` = `Integers \ Naturals` contains `0`, which is in `Naturals0` -/
theorem N5_orig_wrong : mem (nats0ComplOrig .ints) 0 ∧ mem .nats0 0 := by
  simp [nats0ComplOrig, mem]

/-- original `Intersection::contains`: `-2 ∈ (0,7) ∩ ℚ` answered True -/
theorem N6_orig_wrong : containsAllOrig [.iv (.fin 0) (.fin 7) true true, .rats] (.fin (-2)) = true
    ∧ ¬ mem (.inter [.iv (.fin 0) (.fin 7) true true, .rats]) (-2) := by
  refine ⟨by decide +kernel, ?_⟩
  simp only [mem, memAll, memIv, ENum.fin_lt_fin, ENum.fin.injEq]
  norm_num

/-- original `Interval::set_union` leaves `[0,1) ∪ [1,2]` unmerged (then `boundary` reports the inner point 1) -/
theorem N3_orig_value : ivUnionIvOrig (.fin 0) (.fin 1) false true (.fin 1) (.fin 2) false false
    = .ok (.un [.iv (.fin 0) (.fin 1) false true, .iv (.fin 1) (.fin 2) false false]) :=
  isOkEq_sound (by decide +kernel)

theorem N3_fixed_value : ivUnionIv (.fin 0) (.fin 1) false true (.fin 1) (.fin 2) false false
    = .ok (.iv (.fin 0) (.fin 2) false false) := isOkEq_sound (by decide +kernel)

end SymVerif.C27
