/-
C45 — arbitrary-precision evaluation (eval_mpfr / eval_mpc / evalf > 53 bits) and RealMPFR
arithmetic.

Everything here is about the call sequences *translated from the C++ sources on this run*
(Gen/MpfrFormulas.lean) read through the documented meaning of the MPFR/MPC entry points
(`Mpfr.callSem`), and about the executable functions the driver runs (`Mpfr.toDefs`,
`Mpfr.outcome`).

 1. `mpfr_table_agree` / `mpc_table_agree`: for every node kind that eval_mpfr (eval_mpc) and
    eval_double both define, the MPFR (MPC) call sequence denotes the *same formula* as the
    eval_double body (`decide` over the regenerated tables), up to three listed differences by design
    (in-place folds that start from the first operand; constants with a library routine).
    An `asin` where the double evaluator says `acos`, a swapped `atan2`/`pow` operand, a missing
    reciprocal: any of these makes the `decide` fail.
 2. `mpfr_*_spec`: the defining property over ℝ of each derived formula, obtained from the C12
    theorems through (1); `mpfr_goldenRatio_exact`, `mpfr_e_spec`, `mpfr_pi_spec` for the constants.
 3. `fold_first_eq_foldArgs`: the in-place fold of Add/Mul equals the `tmp = 0/1; tmp op= …` loop
    of eval_double in any structure where `0 + a = a`, `1 * a = a`.
 4. RealMPFR arithmetic dispatch: `dispatch_precision` (result precision = receiver's, or the max
    for two RealMPFR), `dispatch_total` (every kind the dispatch chain names has a method),
    `dispatch_operand_order` (the real branch computes `this ∘ other`, the r-methods `other ∘ this`),
    `dispatch_guard_on_base` (the complex branch of pow / rpow is taken on the sign of the *base*),
    `dispatch_single_rounding_partial` + `double_rounding_witnesses` (which methods round once).
    `mpc_branch_operand_order_partial`/`mpc_branch_swapped` record the operand order inside the
    `#ifdef HAVE_SYMENGINE_MPC` branches (source level only: MPC is not installed here).

Correct rounding itself is a property of MPFR/MPC and outside the kernel: the claim is *partial*.
-/
import SymVerif.Props.C12
import SymVerif.Gen.MpfrFormulas

namespace SymVerif.C45
open SymVerif SymVerif.EvalG SymVerif.Mpfr

/-! ## 1. table agreement with eval_double -/

/-- kinds whose MPFR definition differs from eval_double's by design -/
def byDesign : List String := ["Add", "Mul", "Constant"]

/-- agreement of a translated MPFR/MPC definition with an eval_double definition of the same kind -/
def agreeM (k : String) (d : MDef) (nd : NodeDef) : Bool :=
  match d, nd with
  -- in-place fold from the first operand vs `tmp = unit; for …: tmp = step(tmp, operand)`
  | .fold fn, .foldArgs u step => decide (foldStep fn = some step) && decide (foldUnit fn = some u)
  -- library constants: π, e must denote the same formula; the others are compared numerically
  | .const tbl, .const dtbl =>
    ["pi", "E"].all fun n =>
      match tbl.lookup n, dtbl.lookup n with
      | some body, some f => decide (bodyFormula body = some f)
      | _, _ => false
  | d, nd => decide (toNodeDef k d = some nd)

/-- `p` agrees with the entry of the same kind in `defs`, if there is one -/
def agreeWith (defs : Defs) (p : String × MDef) : Bool :=
  match defs.find p.1 with
  | some nd => agreeM p.1 p.2 nd
  | none => true

/-- **eval_mpfr agrees with eval_double, node kind by node kind** (definition level). -/
theorem mpfr_table_agree : ∀ p ∈ Gen.mpfrDefs, agreeWith EvalG.Gen.visitorReal p = true := by
  decide

/-- **eval_mpc agrees with the generic (complex) double visitor, node kind by node kind.** -/
theorem mpc_table_agree : ∀ p ∈ Gen.mpcDefs, agreeWith EvalG.Gen.visitorGeneric p = true := by
  decide

/-- node kinds only one of the two evaluators defines (reported, not required to agree) -/
def onlyMpfr : List String := (Gen.mpfrDefs.map (·.1)).filter fun k => (EvalG.Gen.visitorReal.find k).isNone
def onlyDouble : List String := (EvalG.Gen.visitorReal.map (·.1)).filter fun k => (Gen.mpfrDefs.find k).isNone

theorem mpfr_only_kinds : onlyMpfr = ["RealMPFR", "UpperGamma", "LowerGamma", "Beta", "NumberWrapper", "FunctionWrapper"] := by
  decide

theorem double_only_kinds : onlyDouble = ["Symbol", "BooleanAtom", "Piecewise"] := by
  decide

/-- every straight-line body is well formed: no register is read before it is written and every
call has a documented meaning -/
def wellFormed : MDef → Bool
  | .seq body => (bodyFormula body).isSome
  | .fold fn => (foldStep fn).isSome
  | .powE e b => (bodyFormula e).isSome && (bodyFormula b).isSome
  | .cmp p => (predCmp p).isSome
  | _ => true

/-- the incomplete gamma functions have no counterpart in the formula language -/
def noFormula : List String := ["UpperGamma", "LowerGamma"]

theorem mpfr_bodies_well_formed :
    ∀ p ∈ Gen.mpfrDefs, p.1 ∈ noFormula ∨ wellFormed p.2 = true := by
  decide

theorem mpc_bodies_well_formed : ∀ p ∈ Gen.mpcDefs, wellFormed p.2 = true := by
  decide

/-! ## 2. defining properties over ℝ (through the agreement and the C12 theorems) -/

section Specs
variable (erf erfc : ℝ → ℝ)
local notation "R" => realOps erf erfc

/-- value of a node kind under the translated MPFR table, read over a number structure -/
def mpfrNodeVal {α : Type} (O : NumOps α) (k : String) (args : List α) : Except Err α :=
  match Gen.mpfrDefs.find k with
  | some d =>
    match toNodeDef k d with
    | some (.fn body) => evalF O args body
    | _ => .error .notImpl
  | none => .error .notImpl

/-- for the kinds below the MPFR value *is* the eval_double value (over any number structure) -/
theorem mpfrNodeVal_eq {α : Type} (O : NumOps α) (k : String) (args : List α)
    (hk : k ∈ ["Cot", "Sec", "Csc", "ASec", "ACsc", "ACot", "Coth", "Sech", "Csch", "ACsch", "ACoth", "ASech",
               "Equality", "Unequality", "LessThan", "StrictLessThan", "ATan2"]) :
    mpfrNodeVal O k args = nodeVal O EvalG.Gen.visitorReal k args := by
  simp only [List.mem_cons, List.not_mem_nil, or_false] at hk
  rcases hk with h | h | h | h | h | h | h | h | h | h | h | h | h | h | h | h | h <;> subst h <;> rfl

theorem mpfr_cot_spec (x : ℝ) (hx : Real.sin x ≠ 0) :
    ∃ y, mpfrNodeVal R "Cot" [x] = .ok y ∧ y * Real.sin x = Real.cos x := by
  rw [mpfrNodeVal_eq _ _ _ (by simp)]; exact C12.cot_spec erf erfc x hx

theorem mpfr_sec_spec (x : ℝ) (hx : Real.cos x ≠ 0) :
    ∃ y, mpfrNodeVal R "Sec" [x] = .ok y ∧ y * Real.cos x = 1 := by
  rw [mpfrNodeVal_eq _ _ _ (by simp)]; exact C12.sec_spec erf erfc x hx

theorem mpfr_csc_spec (x : ℝ) (hx : Real.sin x ≠ 0) :
    ∃ y, mpfrNodeVal R "Csc" [x] = .ok y ∧ y * Real.sin x = 1 := by
  rw [mpfrNodeVal_eq _ _ _ (by simp)]; exact C12.csc_spec erf erfc x hx

/-- asec: principal value in [0, π] whose cosine is 1/x (fails if the body says `asin`) -/
theorem mpfr_asec_spec (x : ℝ) (hx : 1 ≤ |x|) :
    ∃ y, mpfrNodeVal R "ASec" [x] = .ok y ∧ Real.cos y = 1 / x ∧ 0 ≤ y ∧ y ≤ Real.pi := by
  rw [mpfrNodeVal_eq _ _ _ (by simp)]; exact C12.asec_spec erf erfc x hx

/-- acsc: principal value in [-π/2, π/2] whose sine is 1/x -/
theorem mpfr_acsc_spec (x : ℝ) (hx : 1 ≤ |x|) :
    ∃ y, mpfrNodeVal R "ACsc" [x] = .ok y ∧ Real.sin y = 1 / x ∧ -(Real.pi / 2) ≤ y ∧ y ≤ Real.pi / 2 := by
  rw [mpfrNodeVal_eq _ _ _ (by simp)]; exact C12.acsc_spec erf erfc x hx

theorem mpfr_acot_spec (x : ℝ) (hx : x ≠ 0) :
    ∃ y, mpfrNodeVal R "ACot" [x] = .ok y ∧ Real.tan y * x = 1 ∧ -(Real.pi / 2) < y ∧ y < Real.pi / 2 := by
  rw [mpfrNodeVal_eq _ _ _ (by simp)]; exact C12.acot_spec erf erfc x hx

theorem mpfr_coth_spec (x : ℝ) (hx : Real.sinh x ≠ 0) :
    ∃ y, mpfrNodeVal R "Coth" [x] = .ok y ∧ y * Real.sinh x = Real.cosh x := by
  rw [mpfrNodeVal_eq _ _ _ (by simp)]; exact C12.coth_spec erf erfc x hx

theorem mpfr_sech_spec (x : ℝ) : ∃ y, mpfrNodeVal R "Sech" [x] = .ok y ∧ y * Real.cosh x = 1 := by
  rw [mpfrNodeVal_eq _ _ _ (by simp)]; exact C12.sech_spec erf erfc x

theorem mpfr_csch_spec (x : ℝ) (hx : Real.sinh x ≠ 0) :
    ∃ y, mpfrNodeVal R "Csch" [x] = .ok y ∧ y * Real.sinh x = 1 := by
  rw [mpfrNodeVal_eq _ _ _ (by simp)]; exact C12.csch_spec erf erfc x hx

theorem mpfr_acsch_spec (x : ℝ) : ∃ y, mpfrNodeVal R "ACsch" [x] = .ok y ∧ Real.sinh y = 1 / x := by
  rw [mpfrNodeVal_eq _ _ _ (by simp)]; exact C12.acsch_spec erf erfc x

theorem mpfr_acoth_spec (x : ℝ) (hx : 1 < |x|) :
    ∃ y, mpfrNodeVal R "ACoth" [x] = .ok y ∧ Real.tanh y = 1 / x := by
  rw [mpfrNodeVal_eq _ _ _ (by simp)]; exact C12.acoth_spec erf erfc x hx

theorem mpfr_asech_spec (x : ℝ) (h0 : 0 < x) (h1 : x ≤ 1) :
    ∃ y, mpfrNodeVal R "ASech" [x] = .ok y ∧ Real.cosh y = 1 / x ∧ 0 ≤ y := by
  rw [mpfrNodeVal_eq _ _ _ (by simp)]; exact C12.asech_spec erf erfc x h0 h1

theorem mpfr_lt_spec (a b : ℝ) :
    mpfrNodeVal R "StrictLessThan" [a, b] = .ok (if a < b then 1 else 0) := by
  rw [mpfrNodeVal_eq _ _ _ (by simp)]; exact C12.lt_spec erf erfc a b

theorem mpfr_le_spec (a b : ℝ) :
    mpfrNodeVal R "LessThan" [a, b] = .ok (if a ≤ b then 1 else 0) := by
  rw [mpfrNodeVal_eq _ _ _ (by simp)]; exact C12.le_spec erf erfc a b

theorem mpfr_eq_spec (a b : ℝ) :
    mpfrNodeVal R "Equality" [a, b] = .ok (if a = b then 1 else 0) := by
  rw [mpfrNodeVal_eq _ _ _ (by simp)]; exact C12.eq_spec erf erfc a b

theorem mpfr_ne_spec (a b : ℝ) :
    mpfrNodeVal R "Unequality" [a, b] = .ok (if a ≠ b then 1 else 0) := by
  rw [mpfrNodeVal_eq _ _ _ (by simp)]; exact C12.ne_spec erf erfc a b

/-- `atan2(num, den)`: the first operand is the ordinate -/
theorem mpfr_atan2_spec (y x : ℝ) :
    mpfrNodeVal R "ATan2" [y, x] = .ok (Complex.arg ⟨x, y⟩) := by
  rw [mpfrNodeVal_eq _ _ _ (by simp)]
  simp [nodeVal, EvalG.Gen.visitorReal, Defs.find, evalF, realOps, optErr, bind, Except.bind]

/-! ### constants -/

/-- value of a constant under the translated MPFR table -/
def mpfrConstVal {α : Type} (O : NumOps α) (name : String) : Except Err α :=
  match Gen.mpfrDefs.find "Constant" with
  | some (.const tbl) =>
    match tbl.lookup name with
    | some body =>
      match bodyFormula body with
      | some f => evalF O [] f
      | none => .error .notImpl
    | none => .error .notImpl
  | _ => .error .notImpl

theorem mpfr_pi_spec : mpfrConstVal R "pi" = .ok Real.pi := by
  have h := C12.pi_spec erf erfc
  simpa [mpfrConstVal, C12.constVal, Gen.mpfrDefs, MDefs.find, EvalG.Gen.visitorReal, Defs.find, List.lookup,
    bodyFormula, exec, execStmt, callSem, argVal, argVals, RegFile.set, RegFile.get, bind, Option.bind] using h

theorem mpfr_e_spec : mpfrConstVal R "E" = .ok (Real.exp 1) := by
  simp [mpfrConstVal, Gen.mpfrDefs, MDefs.find, List.lookup, bodyFormula, exec, execStmt, callSem,
    argVal, argVals, RegFile.set, RegFile.get, unarySem, evalF, realOps, optErr, bind, Except.bind, Option.bind, pure]

/-- `(sqrt(5) + 1) / 2` *is* the golden ratio (the double evaluator only has a 22-digit literal) -/
theorem mpfr_goldenRatio_exact : mpfrConstVal R "GoldenRatio" = .ok Real.goldenRatio := by
  have : (Real.sqrt 5 + 1) / 2 = Real.goldenRatio := by
    rw [Real.goldenRatio]; ring
  simp [mpfrConstVal, Gen.mpfrDefs, MDefs.find, List.lookup, bodyFormula, exec, execStmt, callSem,
    argVal, argVals, RegFile.set, RegFile.get, binarySem, evalF, realOps, optErr, bind, Except.bind, pure, Except.pure]
  first | exact this | ring | exact add_comm _ _

end Specs

/-! ## 3. in-place fold = accumulator loop -/

/-- in-place fold of Add / Mul / Max / Min: first operand, then `res := step(res, operand)` -/
def foldFirstVals {α : Type} (O : NumOps α) (step : Formula) : List α → Except Err α
  | [] => .error .badArg
  | v :: vs => foldVals O step v vs

/-- In any number structure where `unit` is a left unit of `step`, the in-place fold of eval_mpfr
equals the accumulator loop of eval_double on the same operand list. -/
theorem fold_first_eq_foldArgs {α : Type} (O : NumOps α) (step : Formula) (unit : α)
    (hunit : ∀ a, evalF O [unit, a] step = .ok a) (v : α) (vs : List α) :
    foldFirstVals O step (v :: vs) = foldVals O step unit (v :: vs) := by
  simp [foldFirstVals, foldVals, hunit, bind, Except.bind]

theorem real_add_unit (erf erfc : ℝ → ℝ) (a : ℝ) :
    evalF (realOps erf erfc) [(0 : ℝ), a] (.add (.arg 0) (.arg 1)) = .ok a := by
  simp [evalF, realOps, optErr, bind, Except.bind, pure, Except.pure]

theorem real_mul_unit (erf erfc : ℝ → ℝ) (a : ℝ) :
    evalF (realOps erf erfc) [(1 : ℝ), a] (.mul (.arg 0) (.arg 1)) = .ok a := by
  simp [evalF, realOps, optErr, bind, Except.bind, pure, Except.pure]

/-! ## 4. RealMPFR arithmetic dispatch -/

/-- what the methods say: `get_prec()` everywhere, `max(get_prec(), other.get_prec())` for RealMPFR -/
theorem dispatch_precision_table :
    ∀ e ∈ Gen.realArith,
      (e.body ≠ [] → (if e.other = "RealMPFR" then e.prec = "max" else e.prec = "this"))
      ∧ (e.body = [] → e.prec = "" ∧ isComplexKind e.other = true) := by
  decide

/-- result precision: the receiver's precision, or the larger one for two RealMPFR operands -/
theorem dispatch_precision :
    ∀ e ∈ Gen.realArith, ∀ p q : Nat,
      (e.body ≠ [] → arithPrec e p q = some (if e.other = "RealMPFR" then max p q else p))
      ∧ (e.body = [] → arithPrec e p q = none ∧ isComplexKind e.other = true) := by
  intro e he p q
  have key := dispatch_precision_table e he
  constructor
  · intro hb
    have h := key.1 hb
    by_cases ho : e.other = "RealMPFR"
    · simp only [ho, if_true] at h ⊢
      simp [arithPrec, h]
    · simp only [ho, if_false] at h ⊢
      simp [arithPrec, h]
  · intro hb
    obtain ⟨h1, h2⟩ := key.2 hb
    exact ⟨by simp [arithPrec, h1], h2⟩

def arithKinds (op : String) : List String :=
  if op == "rsub" || op == "rdiv" || op == "rpow" then ["Integer", "Rational", "Complex", "RealDouble", "ComplexDouble"]
  else ["Integer", "Rational", "Complex", "RealDouble", "ComplexDouble", "RealMPFR"]

/-- every operand kind of every operation has exactly the expected method -/
theorem dispatch_total :
    ∀ op ∈ ["add", "sub", "rsub", "mul", "div", "rdiv", "pow", "rpow"], ∀ k ∈ arithKinds op,
      (findArith Gen.realArith op k).isSome = true := by
  decide

/-- the formula a method's real branch computes on (arg 0 = this, arg 1 = other) -/
def arithFormula (e : ArithEntry) : Option Formula := bodyFormula e.body
def mpcFormula (e : ArithEntry) : Option Formula := bodyFormula e.mpcBody

/-- the real branch of every method computes `this ∘ other` (`other ∘ this` for the r-methods),
possibly written in one of the listed algebraically equal ways -/
def orderOk (e : ArithEntry) (f : Option Formula) : Bool :=
  match f with
  | some f => (expected e.op).contains f
  | none => false

theorem dispatch_operand_order :
    ∀ e ∈ Gen.realArith, e.body ≠ [] → orderOk e (arithFormula e) = true := by
  decide

/-- the accepted alternative forms are equal to the primary form over ℝ -/
theorem rsub_alternative_sound (erf erfc : ℝ → ℝ) (a b : ℝ) :
    evalF (realOps erf erfc) [a, b] (.neg (.sub (.arg 0) (.arg 1)))
      = evalF (realOps erf erfc) [a, b] (.sub (.arg 1) (.arg 0)) := by
  simp [evalF, realOps, optErr, bind, Except.bind, pure, Except.pure]

theorem rdiv_alternative_sound (erf erfc : ℝ → ℝ) (a b : ℝ) :
    evalF (realOps erf erfc) [a, b] (.div Mpfr.one (.div (.arg 0) (.arg 1)))
      = evalF (realOps erf erfc) [a, b] (.div (.arg 1) (.arg 0)) := by
  simp [evalF, realOps, optErr, bind, Except.bind, Mpfr.one, pure, Except.pure]

/-- The complex branch of `pow` / `rpow` must be selected by the sign of the *base* of the power
(`this` for pow, `other` for rpow); the other operations have no such branch. -/
theorem dispatch_guard_on_base :
    ∀ e ∈ Gen.realArith, e.guard = "" ∨ e.guard = expectedGuard e.op := by
  decide

/-- methods whose real branch rounds more than once -/
def multiRounding : List (String × String) :=
  (Gen.realArith.filter fun e => decide (roundingCalls e.body > 1)).map fun e => (e.op, e.other)

/-- Exactly these methods are *not* a single correctly rounded MPFR call (reported as finding):
`Integer / x`, `Rational / x` divide and then invert; powers with a Rational / Integer / double
operand first round that operand to the receiver's precision. -/
theorem double_rounding_witnesses :
    multiRounding = [("rdiv", "Integer"), ("rdiv", "Rational"), ("pow", "Rational"), ("pow", "RealDouble"),
                     ("rpow", "Integer"), ("rpow", "Rational"), ("rpow", "RealDouble")] := by
  decide

/-- all other real branches are one library call (correctly rounded by MPFR's contract) -/
theorem dispatch_single_rounding_partial :
    ∀ e ∈ Gen.realArith, e.body ≠ [] → (e.op, e.other) ∉ multiRounding → roundingCalls e.body = 1 := by
  decide

/-- operand order inside the `#ifdef HAVE_SYMENGINE_MPC` branches, for the methods where it is right -/
def mpcSwapped : List (String × String) :=
  (Gen.realArith.filter fun e =>
      e.mpcBody != [] && (match mpcFormula e with
        | some f => !(expected e.op).contains f
        | none => true)).map fun e => (e.op, e.other)

theorem mpc_branch_operand_order_partial :
    ∀ e ∈ Gen.realArith, e.mpcBody ≠ [] → (e.op, e.other) ∉ mpcSwapped →
      orderOk e (mpcFormula e) = true := by
  decide

/-- Source-level finding (MPC is not installed, so it cannot be executed here): in these methods the
MPC branch computes the operation with the operands exchanged — `subreal(Complex)` is
`other − this`, `rsubreal(Complex)` is `this − other`, likewise div / rdiv / pow / rpow. -/
theorem mpc_branch_swapped :
    mpcSwapped = [("sub", "Complex"), ("sub", "ComplexDouble"), ("rsub", "Complex"), ("rsub", "ComplexDouble"),
                  ("div", "Complex"), ("div", "ComplexDouble"), ("rdiv", "Complex"), ("rdiv", "ComplexDouble"),
                  ("pow", "Complex"), ("rpow", "Complex")] := by
  decide

/-- the swapped branches compute exactly the reversed operation -/
def reverseOp : String → String
  | "sub" => "rsub" | "rsub" => "sub" | "div" => "rdiv" | "rdiv" => "div"
  | "pow" => "rpow" | "rpow" => "pow" | o => o

theorem mpc_branch_swapped_is_reverse :
    ∀ e ∈ Gen.realArith, (e.op, e.other) ∈ mpcSwapped →
      orderOk { e with op := reverseOp e.op } (mpcFormula e) = true := by
  decide

/-- model of the dispatch the driver replays: outcome class of `this op other` without MPC -/
theorem outcome_real_prec (e : ArithEntry) (p q : Nat) (oz tn on : Bool) (r : Nat)
    (h : outcome e p q oz tn on = .real r) : arithPrec e p q = some r := by
  unfold outcome at h
  split at h
  · cases h
  · split at h
    · cases h
    · cases hp : arithPrec e p q with
      | none => simp [hp] at h
      | some v => simp [hp] at h; rw [h]

theorem evalf_uses_requested_precision : Gen.evalfRealUsesBitsPrecision = true := by decide

/-! ## non-vacuity -/

example : ∃ y, mpfrNodeVal (realOps id id) "ASec" [2] = .ok y ∧ Real.cos y = 1 / 2 ∧ 0 ≤ y ∧ y ≤ Real.pi :=
  mpfr_asec_spec id id 2 (by norm_num)

example : agreeM "ATan2" (.seq [.load .tmp 0, .load .res 1, .call "atan2" .res [.reg .tmp, .reg .res]])
    (.fn (.call2 .atan2 (.arg 0) (.arg 1))) = true := by decide

-- a swapped atan2 would be rejected
example : agreeM "ATan2" (.seq [.load .tmp 0, .load .res 1, .call "atan2" .res [.reg .res, .reg .tmp]])
    (.fn (.call2 .atan2 (.arg 0) (.arg 1))) = false := by decide

example : arithPrec (Gen.realArith.find? (fun e => e.op == "mul" && e.other == "RealMPFR")).get! 100 200 = some 200 := by
  decide

example : outcome (findArith Gen.realArith "rpow" "RealDouble").get! 100 53 false true false = .real 100 := by
  decide

/-- The full property, not asserted: the MPFR result of eval_mpfr at precision `p` is within `tol p`
of the real value of the tree (for well-conditioned trees) and every arithmetic method returns the
correctly rounded value of the exact operation.  `rounds p x y` abstracts "y is x rounded to p bits";
it needs a formal model of MPFR and is outside this development. -/
def C45_full (rounds : Nat → ℝ → ℝ → Prop) (implArith : String → String → Nat → Nat → ℝ → ℝ → Option ℝ)
    (erf erfc : ℝ → ℝ) : Prop :=
  ∀ e ∈ Gen.realArith, ∀ (p q : Nat) (a b : ℝ) (f : Formula) (x r : ℝ),
    arithFormula e = some f → evalF (realOps erf erfc) [a, b] f = .ok x →
    implArith e.op e.other p q a b = some r →
    ∃ pr, arithPrec e p q = some pr ∧ rounds pr x r

end SymVerif.C45
