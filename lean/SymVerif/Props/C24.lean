import Mathlib.Data.Matrix.Mul
import Mathlib.LinearAlgebra.Matrix.Determinant.Basic
import Mathlib.Algebra.BigOperators.Fin
import SymVerif.Lemmas.C24Row
import SymVerif.Lemmas.C24LUMath
/-!
C24 — dense matrix algebra over exact numbers is correct.

The theorems are about the functions of `SymVerif/Model/Dense.lean` that the driver `Drv/C24.lean`
runs.  Entries live in `X = fin q | zoo | nan | unk`; `allFin` says that every entry of a matrix is
an exact rational (what the harness feeds), `toMat` is the Mathlib matrix over `ℚ` it denotes.
Every `…_correct` theorem states (1) the operation returns `ok` — hence no checked index is out of
range (`index_inbounds`), (2) the result has the right shape and only rational entries, and
(3) it equals the mathematical operation on `Matrix _ _ ℚ`.
-/
namespace SymVerif.C24
open SymVerif.Dense

/-- every entry of the `row × col` matrix is an exact rational -/
def allFin (A : DM) : Prop := ∀ i, i < A.row → ∀ j, j < A.col → (A.at i j).isFin = true

/-- the matrix over `ℚ` denoted by the storage (`n`, `m` are the intended dimensions) -/
def toMat (A : DM) (n m : Nat) : Matrix (Fin n) (Fin m) ℚ := fun i j => (A.at i j).toRat

theorem add_correct (A B : DM) (hA : A.wf) (hB : B.wf) (hr : A.row = B.row) (hc : A.col = B.col)
    (fA : allFin A) (fB : allFin B) :
    ∃ C, addDense A B = .ok C ∧ C.row = A.row ∧ C.col = A.col ∧ C.wf ∧ allFin C ∧
      toMat C A.row A.col = toMat A A.row A.col + toMat B A.row A.col := by
  obtain ⟨C, hok, h1, h2, h3, h4⟩ := addDense_spec A B hA hB hr hc
  have key : ∀ i, i < A.row → ∀ j, j < A.col →
      C.at i j = X.fin ((A.at i j).toRat + (B.at i j).toRat) := by
    intro i hi j hj
    rw [h4 i hi j hj, fin_of_isFin (fA i hi j hj), fin_of_isFin (fB i (hr ▸ hi) j (hc ▸ hj))]
    rfl
  refine ⟨C, hok, h1, h2, h3, ?_, ?_⟩
  · intro i hi j hj
    rw [key i (h1 ▸ hi) j (h2 ▸ hj)]; rfl
  · funext i j
    simp only [toMat, Matrix.add_apply, key i i.2 j j.2, X.toRat]

/-- helper: an entrywise description in `X.fin` gives `allFin` and the matrix -/
theorem of_entries (C : DM) (n m : Nat) (hr : C.row = n) (hc : C.col = m) (f : Nat → Nat → ℚ)
    (h : ∀ i, i < n → ∀ j, j < m → C.at i j = X.fin (f i j)) :
    allFin C ∧ toMat C n m = Matrix.of (fun (i : Fin n) (j : Fin m) => f i j) := by
  refine ⟨fun i hi j hj => by rw [h i (hr ▸ hi) j (hc ▸ hj)]; rfl, ?_⟩
  funext i j
  simp only [toMat, h i i.2 j j.2, X.toRat, Matrix.of_apply]

theorem emul_correct (A B : DM) (hA : A.wf) (hB : B.wf) (hr : A.row = B.row) (hc : A.col = B.col)
    (fA : allFin A) (fB : allFin B) :
    ∃ C, emulDense A B = .ok C ∧ C.row = A.row ∧ C.col = A.col ∧ C.wf ∧ allFin C ∧
      ∀ (i : Fin A.row) (j : Fin A.col),
        toMat C A.row A.col i j = toMat A A.row A.col i j * toMat B A.row A.col i j := by
  obtain ⟨C, hok, h1, h2, h3, h4⟩ := emulDense_spec A B hA hB hr hc
  have key : ∀ i, i < A.row → ∀ j, j < A.col →
      C.at i j = X.fin ((A.at i j).toRat * (B.at i j).toRat) := by
    intro i hi j hj
    rw [h4 i hi j hj, fin_of_isFin (fA i hi j hj), fin_of_isFin (fB i (hr ▸ hi) j (hc ▸ hj))]
    rfl
  obtain ⟨f1, f2⟩ := of_entries C A.row A.col h1 h2 _ key
  exact ⟨C, hok, h1, h2, h3, f1, fun i j => by rw [f2]; rfl⟩

theorem addScalar_correct (A : DM) (k : ℚ) (hA : A.wf) (fA : allFin A) :
    ∃ C, addScalar A (X.fin k) = .ok C ∧ C.row = A.row ∧ C.col = A.col ∧ C.wf ∧ allFin C ∧
      ∀ (i : Fin A.row) (j : Fin A.col), toMat C A.row A.col i j = toMat A A.row A.col i j + k := by
  obtain ⟨C, hok, h1, h2, h3, h4⟩ := addScalar_spec A (X.fin k) hA
  have key : ∀ i, i < A.row → ∀ j, j < A.col → C.at i j = X.fin ((A.at i j).toRat + k) := by
    intro i hi j hj
    rw [h4 i hi j hj, fin_of_isFin (fA i hi j hj)]; rfl
  obtain ⟨f1, f2⟩ := of_entries C A.row A.col h1 h2 _ key
  exact ⟨C, hok, h1, h2, h3, f1, fun i j => by rw [f2]; rfl⟩

theorem mulScalar_correct (A : DM) (k : ℚ) (hA : A.wf) (fA : allFin A) :
    ∃ C, mulScalar A (X.fin k) = .ok C ∧ C.row = A.row ∧ C.col = A.col ∧ C.wf ∧ allFin C ∧
      toMat C A.row A.col = k • toMat A A.row A.col := by
  obtain ⟨C, hok, h1, h2, h3, h4⟩ := mulScalar_spec A (X.fin k) hA
  have key : ∀ i, i < A.row → ∀ j, j < A.col → C.at i j = X.fin ((A.at i j).toRat * k) := by
    intro i hi j hj
    rw [h4 i hi j hj, fin_of_isFin (fA i hi j hj)]; rfl
  obtain ⟨f1, f2⟩ := of_entries C A.row A.col h1 h2 _ key
  refine ⟨C, hok, h1, h2, h3, f1, ?_⟩
  rw [f2]; funext i j
  simp only [Matrix.of_apply, Matrix.smul_apply, toMat, smul_eq_mul, mul_comm]

theorem transpose_correct (A : DM) (hA : A.wf) (fA : allFin A) :
    ∃ C, transposeDense A = .ok C ∧ C.row = A.col ∧ C.col = A.row ∧ C.wf ∧ allFin C ∧
      toMat C A.col A.row = (toMat A A.row A.col).transpose := by
  obtain ⟨C, hok, h1, h2, h3, h4⟩ := transposeDense_spec A hA
  have key : ∀ j, j < A.col → ∀ i, i < A.row → C.at j i = X.fin ((A.at i j).toRat) := by
    intro j hj i hi
    rw [h4 i hi j hj]; exact fin_of_isFin (fA i hi j hj)
  obtain ⟨f1, f2⟩ := of_entries C A.col A.row h1 h2 (fun j i => (A.at i j).toRat) key
  refine ⟨C, hok, h1, h2, h3, f1, ?_⟩
  rw [f2]; funext i j
  simp only [Matrix.of_apply, Matrix.transpose_apply, toMat]

/-- the accumulated dot product of rational rows and columns is the finite sum -/
theorem dotX_fin (A B : DM) (r c : Nat) (hA : ∀ k, k < A.col → (A.at r k).isFin = true)
    (hB : ∀ k, k < A.col → (B.at k c).isFin = true) :
    dotX A B r c = X.fin (∑ k ∈ Finset.range A.col, (A.at r k).toRat * (B.at k c).toRat) := by
  unfold dotX
  have gen : ∀ n, n ≤ A.col →
      (List.range' 0 n).foldl (fun acc k => X.add acc (X.mul (A.at r k) (B.at k c))) X.zero =
        X.fin (∑ k ∈ Finset.range n, (A.at r k).toRat * (B.at k c).toRat) := by
    intro n
    induction n with
    | zero => intro _; simp [X.zero]
    | succ n ih =>
      intro hn
      rw [List.range'_1_concat, List.foldl_append, ih (by omega), Finset.sum_range_succ]
      simp only [List.foldl_cons, List.foldl_nil, Nat.zero_add]
      rw [fin_of_isFin (hA n (by omega)), fin_of_isFin (hB n (by omega))]
      rfl
  exact gen A.col (Nat.le_refl _)

theorem mul_correct (A B : DM) (hA : A.wf) (hB : B.wf) (hk : A.col = B.row)
    (fA : allFin A) (fB : allFin B) :
    ∃ C, mulDense A B = .ok C ∧ C.row = A.row ∧ C.col = B.col ∧ C.wf ∧ allFin C ∧
      toMat C A.row B.col = toMat A A.row A.col * toMat B A.col B.col := by
  obtain ⟨C, hok, h1, h2, h3, h4⟩ := mulDense_spec A B hA hB hk
  have key : ∀ i, i < A.row → ∀ j, j < B.col →
      C.at i j = X.fin (∑ k ∈ Finset.range A.col, (A.at i k).toRat * (B.at k j).toRat) := by
    intro i hi j hj
    rw [h4 i hi j hj]
    exact dotX_fin A B i j (fun k hk' => fA i hi k hk') (fun k hk' => fB k (hk ▸ hk') j hj)
  obtain ⟨f1, f2⟩ := of_entries C A.row B.col h1 h2 _ key
  refine ⟨C, hok, h1, h2, h3, f1, ?_⟩
  rw [f2]; funext i j
  rw [Matrix.mul_apply, Matrix.of_apply]
  exact (Fin.sum_univ_eq_sum_range (fun k => (A.at i k).toRat * (B.at k j).toRat) A.col).symm

theorem rowExchange_correct (A : DM) (i j : Nat) (hA : A.wf) (hi : i < A.row) (hj : j < A.row)
    (hij : i ≠ j) (fA : allFin A) :
    ∃ C, rowExchange A i j = .ok C ∧ C.row = A.row ∧ C.col = A.col ∧ C.wf ∧ allFin C ∧
      toMat C A.row A.col =
        (toMat A A.row A.col).submatrix (Equiv.swap (⟨i, hi⟩ : Fin A.row) ⟨j, hj⟩) id := by
  obtain ⟨C, hok, h1, h2, h3, h4⟩ := rowExchange_spec A i j hA hi hj hij
  have key : ∀ r, r < A.row → ∀ k, k < A.col →
      C.at r k = X.fin ((A.at (if r = i then j else if r = j then i else r) k).toRat) := by
    intro r hr k hk
    rw [h4 r hr k hk]
    by_cases e1 : r = i
    · simp only [if_pos e1]; exact fin_of_isFin (fA j hj k hk)
    · by_cases e2 : r = j
      · simp only [if_neg e1, if_pos e2]; exact fin_of_isFin (fA i hi k hk)
      · simp only [if_neg e1, if_neg e2]; exact fin_of_isFin (fA r hr k hk)
  obtain ⟨f1, f2⟩ := of_entries C A.row A.col h1 h2 _ key
  refine ⟨C, hok, h1, h2, h3, f1, ?_⟩
  rw [f2]; funext r k
  simp only [Matrix.of_apply, Matrix.submatrix_apply, id, toMat]
  by_cases e1 : (r : Nat) = i
  · have : r = ⟨i, hi⟩ := Fin.ext e1
    subst this; simp [Equiv.swap_apply_left]
  · by_cases e2 : (r : Nat) = j
    · have : r = ⟨j, hj⟩ := Fin.ext e2
      subst this; simp [Equiv.swap_apply_right, e1]
    · have n1 : r ≠ ⟨i, hi⟩ := fun h => e1 (by rw [h])
      have n2 : r ≠ ⟨j, hj⟩ := fun h => e2 (by rw [h])
      rw [Equiv.swap_apply_of_ne_of_ne n1 n2]; simp [e1, e2]

theorem rowMulScalar_correct (A : DM) (i : Nat) (c : ℚ) (hA : A.wf) (hi : i < A.row) (fA : allFin A) :
    ∃ C, rowMulScalar A i (X.fin c) = .ok C ∧ C.row = A.row ∧ C.col = A.col ∧ C.wf ∧ allFin C ∧
      toMat C A.row A.col =
        (toMat A A.row A.col).updateRow ⟨i, hi⟩ (c • (toMat A A.row A.col) ⟨i, hi⟩) := by
  obtain ⟨C, hok, h1, h2, h3, h4⟩ := rowMulScalar_spec A i (X.fin c) hA hi
  have key : ∀ r, r < A.row → ∀ k, k < A.col →
      C.at r k = X.fin (if r = i then c * (A.at i k).toRat else (A.at r k).toRat) := by
    intro r hr k hk
    rw [h4 r hr k hk]
    by_cases e1 : r = i
    · simp only [if_pos e1]; rw [fin_of_isFin (fA i hi k hk)]; rfl
    · simp only [if_neg e1]; exact fin_of_isFin (fA r hr k hk)
  obtain ⟨f1, f2⟩ := of_entries C A.row A.col h1 h2 _ key
  refine ⟨C, hok, h1, h2, h3, f1, ?_⟩
  rw [f2]; funext r k
  simp only [Matrix.of_apply, Matrix.updateRow_apply, toMat, Pi.smul_apply, smul_eq_mul]
  by_cases e1 : (r : Nat) = i
  · have : r = ⟨i, hi⟩ := Fin.ext e1
    simp [e1, this]
  · have : r ≠ ⟨i, hi⟩ := fun h => e1 (by rw [h])
    simp [e1, this]

theorem rowAddRow_correct (A : DM) (i j : Nat) (c : ℚ) (hA : A.wf) (hi : i < A.row) (hj : j < A.row)
    (hij : i ≠ j) (fA : allFin A) :
    ∃ C, rowAddRow A i j (X.fin c) = .ok C ∧ C.row = A.row ∧ C.col = A.col ∧ C.wf ∧ allFin C ∧
      toMat C A.row A.col =
        (toMat A A.row A.col).updateRow ⟨i, hi⟩
          ((toMat A A.row A.col) ⟨i, hi⟩ + c • (toMat A A.row A.col) ⟨j, hj⟩) := by
  obtain ⟨C, hok, h1, h2, h3, h4⟩ := rowAddRow_spec A i j (X.fin c) hA hi hj hij
  have key : ∀ r, r < A.row → ∀ k, k < A.col →
      C.at r k = X.fin (if r = i then (A.at i k).toRat + c * (A.at j k).toRat else (A.at r k).toRat) := by
    intro r hr k hk
    rw [h4 r hr k hk]
    by_cases e1 : r = i
    · simp only [if_pos e1]; rw [fin_of_isFin (fA i hi k hk), fin_of_isFin (fA j hj k hk)]; rfl
    · simp only [if_neg e1]; exact fin_of_isFin (fA r hr k hk)
  obtain ⟨f1, f2⟩ := of_entries C A.row A.col h1 h2 _ key
  refine ⟨C, hok, h1, h2, h3, f1, ?_⟩
  rw [f2]; funext r k
  simp only [Matrix.of_apply, Matrix.updateRow_apply, toMat, Pi.add_apply, Pi.smul_apply, smul_eq_mul]
  by_cases e1 : (r : Nat) = i
  · have : r = ⟨i, hi⟩ := Fin.ext e1
    simp [e1, this]
  · have : r ≠ ⟨i, hi⟩ := fun h => e1 (by rw [h])
    simp [e1, this]

theorem submatrix_correct (A : DM) (r0 c0 r1 c1 : Nat) (hA : A.wf)
    (h1 : r0 ≤ r1) (h2 : c0 ≤ c1) (h3 : r1 < A.row) (h4 : c1 < A.col) (fA : allFin A) :
    ∃ C, submatrixDense A r0 c0 r1 c1 1 1 = .ok C ∧ C.row = r1 - r0 + 1 ∧ C.col = c1 - c0 + 1 ∧ C.wf ∧
      allFin C ∧
      toMat C (r1 - r0 + 1) (c1 - c0 + 1) =
        Matrix.of (fun (i : Fin (r1 - r0 + 1)) (j : Fin (c1 - c0 + 1)) => (A.at (r0 + i) (c0 + j)).toRat) := by
  obtain ⟨C, hok, e1, e2, e3, e4, _⟩ :=
    submatrixDense_spec A r0 c0 r1 c1 1 1 hA h1 h2 h3 h4 (by omega) (by omega)
  have key : ∀ i, i < r1 - r0 + 1 → ∀ j, j < c1 - c0 + 1 →
      C.at i j = X.fin ((A.at (r0 + i) (c0 + j)).toRat) := by
    intro i hi j hj
    have := e4 i j (by rw [e1]; omega) (by rw [e2]; omega)
    simp only [Nat.mul_one] at this
    rw [this]
    exact fin_of_isFin (fA _ (by omega) _ (by omega))
  obtain ⟨f1, f2⟩ := of_entries C _ _ e1 e2 _ key
  exact ⟨C, hok, e1, e2, e3, f1, f2⟩

/-- entries of a small matrix, as reads of the storage -/
theorem rd_fin (A : DM) (hA : A.wf) (fA : allFin A) (i j : Nat) (hi : i < A.row) (hj : j < A.col) :
    rd A.m (i * A.col + j) = .ok (X.fin (A.at i j).toRat) := by
  have hlt : i * A.col + j < A.m.size := by rw [hA]; exact idx_lt hi hj
  rw [rd_getD hlt]
  exact congrArg _ (fin_of_isFin (fA i hi j hj))

/-- det_bareis, closed forms for n = 1, 2, 3, equals the determinant -/
theorem det_bareis_one (A : DM) (hA : A.wf) (hr : A.row = 1) (hc : A.col = 1) (fA : allFin A) :
    ∃ d, detBareiss A = .ok (X.fin d) ∧ d = (toMat A 1 1).det := by
  have r00 := rd_fin A hA fA 0 0 (by omega) (by omega)
  simp only [hc] at r00
  refine ⟨_, ?_, (Matrix.det_fin_one _).symm⟩
  simp [detBareiss, hr, hc, req, bind, Except.bind, pure, Except.pure, r00, toMat]

theorem det_bareis_two (A : DM) (hA : A.wf) (hr : A.row = 2) (hc : A.col = 2) (fA : allFin A) :
    ∃ d, detBareiss A = .ok (X.fin d) ∧ d = (toMat A 2 2).det := by
  have r0 := rd_fin A hA fA 0 0 (by omega) (by omega)
  have r1 := rd_fin A hA fA 0 1 (by omega) (by omega)
  have r2 := rd_fin A hA fA 1 0 (by omega) (by omega)
  have r3 := rd_fin A hA fA 1 1 (by omega) (by omega)
  simp only [hc] at r0 r1 r2 r3
  norm_num at r0 r1 r2 r3
  refine ⟨_, ?_, (Matrix.det_fin_two _).symm⟩
  simp only [detBareiss, hr, hc, req, bind, Except.bind, pure, Except.pure, r0, r1, r2, r3, toMat]
  simp [X.sub, X.add, X.mul, X.minusOne]
  ring

theorem det_bareis_three (A : DM) (hA : A.wf) (hr : A.row = 3) (hc : A.col = 3) (fA : allFin A) :
    ∃ d, detBareiss A = .ok (X.fin d) ∧ d = (toMat A 3 3).det := by
  have r0 := rd_fin A hA fA 0 0 (by omega) (by omega)
  have r1 := rd_fin A hA fA 0 1 (by omega) (by omega)
  have r2 := rd_fin A hA fA 0 2 (by omega) (by omega)
  have r3 := rd_fin A hA fA 1 0 (by omega) (by omega)
  have r4 := rd_fin A hA fA 1 1 (by omega) (by omega)
  have r5 := rd_fin A hA fA 1 2 (by omega) (by omega)
  have r6 := rd_fin A hA fA 2 0 (by omega) (by omega)
  have r7 := rd_fin A hA fA 2 1 (by omega) (by omega)
  have r8 := rd_fin A hA fA 2 2 (by omega) (by omega)
  simp only [hc] at r0 r1 r2 r3 r4 r5 r6 r7 r8
  norm_num at r0 r1 r2 r3 r4 r5 r6 r7 r8
  refine ⟨_, ?_, (Matrix.det_fin_three _).symm⟩
  simp only [detBareiss, hr, hc, req, bind, Except.bind, pure, Except.pure, r0, r1, r2, r3, r4, r5, r6, r7, r8,
    toMat]
  simp [X.sub, X.add, X.mul, X.minusOne]
  ring

/-- `LU(A, L, U)`: (1) on every well-formed square input the call returns, i.e. no index leaves the
    storage; (2) under the algorithm's own precondition — every pivot `U[j][j]`, `j < n-1`, that the
    code divides by is a non-zero rational — `L` is unit lower triangular, `U` is upper triangular,
    all entries are rationals and `L * U = A`. -/
theorem LU_mul_back (A : DM) (hA : A.wf) (hsq : A.row = A.col) (fA : allFin A) :
    ∃ L U, luDecomp A = .ok (L, U) ∧ L.wf ∧ U.wf ∧
      L.row = A.row ∧ L.col = A.row ∧ U.row = A.row ∧ U.col = A.row ∧
      ((∀ j, j + 1 < A.row → (U.at j j).isFin = true ∧ (U.at j j).toRat ≠ 0) →
        allFin L ∧ allFin U ∧
        (∀ i, i < A.row → L.at i i = X.one ∧ ∀ j, j < A.row → (i < j → L.at i j = X.zero) ∧
          (j < i → U.at i j = X.zero)) ∧
        toMat L A.row A.row * toMat U A.row A.row = toMat A A.row A.row) := by
  obtain ⟨L, U, W, hok, hLr, hLc, hUr, hUc, hLw, hUw, hsW, hcol, hrows⟩ := luDecomp_spec A hA hsq
  refine ⟨L, U, hok, hLw, hUw, hLr, hLc, hUr, hUc, ?_⟩
  intro hpiv
  -- translate to `cell`
  have atL : ∀ i j, L.at i j = cell L.m A.row i j := by intro i j; simp [DM.at, cell, hLc]
  have atU : ∀ i j, U.at i j = cell U.m A.row i j := by intro i j; simp [DM.at, cell, hUc]
  have atA : ∀ i j, A.at i j = cell A.m A.row i j := by intro i j; simp [DM.at, cell, ← hsq]
  have hAf : ∀ i, i < A.row → ∀ j, j < A.row → (cell A.m A.row i j).isFin = true := by
    intro i hi j hj; rw [← atA]; exact fA i hi j (hsq ▸ hj)
  have hp : ∀ j, j + 1 < A.row → (cell W A.row j j).isFin = true ∧ (cell W A.row j j).toRat ≠ 0 := by
    intro j hj
    have := (hrows j (by omega) j (by omega)).2
    rw [if_neg (Nat.lt_irrefl j)] at this
    rw [← this, ← atU]; exact hpiv j hj
  have hWf := lu_fin A.row A.m W hcol hAf hp
  have hL : ∀ i, i < A.row → ∀ j, j < A.row →
      L.at i j = X.fin (if j < i then qv W A.row i j else if j = i then 1 else 0) := by
    intro i hi j hj
    rw [atL, (hrows i hi j hj).1]
    by_cases c1 : j < i
    · simp only [if_pos c1]; exact fin_of_isFin (hWf j hj i hi)
    · by_cases c2 : j = i <;> simp [c1, c2, X.one, X.zero]
  have hU : ∀ i, i < A.row → ∀ j, j < A.row →
      U.at i j = X.fin (if j < i then 0 else qv W A.row i j) := by
    intro i hi j hj
    rw [atU, (hrows i hi j hj).2]
    by_cases c1 : j < i
    · simp [c1, X.zero]
    · simp only [if_neg c1]; exact fin_of_isFin (hWf j hj i hi)
  refine ⟨?_, ?_, ?_, ?_⟩
  · intro i hi j hj; rw [hL i (hLr ▸ hi) j (hLc ▸ hj)]; rfl
  · intro i hi j hj; rw [hU i (hUr ▸ hi) j (hUc ▸ hj)]; rfl
  · intro i hi
    refine ⟨by rw [hL i hi i hi]; simp [X.one], fun j hj => ⟨fun h => ?_, fun h => ?_⟩⟩
    · rw [hL i hi j hj]; simp [Nat.lt_asymm h, Nat.ne_of_gt h, X.zero]
    · rw [hU i hi j hj]; simp [h, X.zero]
  · funext i j
    rw [Matrix.mul_apply]
    simp only [toMat]
    have := lu_product A.row A.m W hcol hAf hp i j i.2 j.2
    rw [atA]
    show _ = qv A.m A.row i j
    rw [← this, ← Fin.sum_univ_eq_sum_range
      (fun k => (if k < (i : Nat) then qv W A.row i k else if k = i then 1 else 0) *
        (if (j : Nat) < k then 0 else qv W A.row k j)) A.row]
    apply Finset.sum_congr rfl
    intro k _
    rw [hL i i.2 k k.2, hU k k.2 j j.2]
    rfl

/-- non-vacuity: the hypotheses of `LU_mul_back` hold on a concrete 3×3 matrix and the result is the
    expected pair of factors -/
example :
    let A : DM := { row := 3, col := 3, m := #[.fin 2, .fin 1, .fin 1, .fin 4, .fin 3, .fin 3, .fin 8, .fin 7, .fin 9] }
    luDecomp A = .ok (
      { row := 3, col := 3, m := #[.fin 1, .fin 0, .fin 0, .fin 2, .fin 1, .fin 0, .fin 4, .fin 3, .fin 1] },
      { row := 3, col := 3, m := #[.fin 2, .fin 1, .fin 1, .fin 0, .fin 1, .fin 1, .fin 0, .fin 0, .fin 2] }) := by
  decide +kernel

/-! ### index_inbounds

Every modelled access `m_[k]` is checked; `Err.oob` is the model's name for an access outside the
vector.  For the operations below no such access happens on well-formed inputs that satisfy the
C++ assertion of the operation — for *all* entry values, rational or not. -/
theorem index_inbounds (A B : DM) (hA : A.wf) (hB : B.wf) :
    (A.row = B.row → A.col = B.col → addDense A B ≠ .error .oob ∧ emulDense A B ≠ .error .oob) ∧
    (A.col = B.row → mulDense A B ≠ .error .oob) ∧
    (∀ k, addScalar A k ≠ .error .oob ∧ mulScalar A k ≠ .error .oob) ∧
    transposeDense A ≠ .error .oob ∧
    (∀ r0 c0 r1 c1 rs cs, r0 ≤ r1 → c0 ≤ c1 → r1 < A.row → c1 < A.col → 0 < rs → 0 < cs →
      submatrixDense A r0 c0 r1 c1 rs cs ≠ .error .oob) ∧
    (∀ i j c, i < A.row → j < A.row → i ≠ j →
      rowExchange A i j ≠ .error .oob ∧ rowAddRow A i j c ≠ .error .oob ∧ rowMulScalar A i c ≠ .error .oob) ∧
    (A.row = A.col → luDecomp A ≠ .error .oob) := by
  refine ⟨fun hr hc => ⟨?_, ?_⟩, fun hk => ?_, fun k => ⟨?_, ?_⟩, ?_, ?_, fun i j c hi hj hij => ⟨?_, ?_, ?_⟩, fun hsq => ?_⟩
  · obtain ⟨C, h, _⟩ := addDense_spec A B hA hB hr hc; rw [h]; exact fun e => by cases e
  · obtain ⟨C, h, _⟩ := emulDense_spec A B hA hB hr hc; rw [h]; exact fun e => by cases e
  · obtain ⟨C, h, _⟩ := mulDense_spec A B hA hB hk; rw [h]; exact fun e => by cases e
  · obtain ⟨C, h, _⟩ := addScalar_spec A k hA; rw [h]; exact fun e => by cases e
  · obtain ⟨C, h, _⟩ := mulScalar_spec A k hA; rw [h]; exact fun e => by cases e
  · obtain ⟨C, h, _⟩ := transposeDense_spec A hA; rw [h]; exact fun e => by cases e
  · intro r0 c0 r1 c1 rs cs h1 h2 h3 h4 h5 h6
    obtain ⟨C, h, _⟩ := submatrixDense_spec A r0 c0 r1 c1 rs cs hA h1 h2 h3 h4 h5 h6
    rw [h]; exact fun e => by cases e
  · obtain ⟨C, h, _⟩ := rowExchange_spec A i j hA hi hj hij; rw [h]; exact fun e => by cases e
  · obtain ⟨C, h, _⟩ := rowAddRow_spec A i j c hA hi hj hij; rw [h]; exact fun e => by cases e
  · obtain ⟨C, h, _⟩ := rowMulScalar_spec A i c hA hi; rw [h]; exact fun e => by cases e
  · obtain ⟨L, U, W, h, _⟩ := luDecomp_spec A hA hsq; rw [h]; exact fun e => by cases e

/-! ### non-vacuity: the hypotheses of the theorems above hold on concrete matrices -/
def exA : DM := { row := 2, col := 3, m := #[.fin 1, .fin (1/2), .fin (-3), .fin 0, .fin 4, .fin 5] }
def exB : DM := { row := 2, col := 3, m := #[.fin 2, .fin 2, .fin 7, .fin (-1), .fin (3/4), .fin 0] }
def exC : DM := { row := 3, col := 2, m := #[.fin 1, .fin 0, .fin 2, .fin (-1), .fin 0, .fin 3] }
def exS : DM := { row := 3, col := 3, m := #[.fin 2, .fin 1, .fin 1, .fin 4, .fin 3, .fin 3, .fin 8, .fin 7, .fin 9] }

theorem exA_ok : exA.wf ∧ allFin exA := ⟨by decide, by unfold allFin; decide⟩
theorem exB_ok : exB.wf ∧ allFin exB := ⟨by decide, by unfold allFin; decide⟩
theorem exC_ok : exC.wf ∧ allFin exC := ⟨by decide, by unfold allFin; decide⟩
theorem exS_ok : exS.wf ∧ allFin exS := ⟨by decide, by unfold allFin; decide⟩

example := add_correct exA exB exA_ok.1 exB_ok.1 rfl rfl exA_ok.2 exB_ok.2
example := emul_correct exA exB exA_ok.1 exB_ok.1 rfl rfl exA_ok.2 exB_ok.2
example := mul_correct exA exC exA_ok.1 exC_ok.1 rfl exA_ok.2 exC_ok.2
example := transpose_correct exA exA_ok.1 exA_ok.2
example := mulScalar_correct exA (2/3) exA_ok.1 exA_ok.2
example := addScalar_correct exA (2/3) exA_ok.1 exA_ok.2
example := submatrix_correct exS 1 0 2 1 exS_ok.1 (by decide) (by decide) (by decide) (by decide) exS_ok.2
example := rowExchange_correct exC 0 2 exC_ok.1 (by decide) (by decide) (by decide) exC_ok.2
example := rowMulScalar_correct exC 1 (5/7) exC_ok.1 (by decide) exC_ok.2
example := rowAddRow_correct exC 1 2 (-3) exC_ok.1 (by decide) (by decide) (by decide) exC_ok.2
example := det_bareis_three exS exS_ok.1 rfl rfl exS_ok.2
example := index_inbounds exA exB exA_ok.1 exB_ok.1
/-- the pivot precondition of `LU_mul_back` holds for `exS` (pivots 2, 1), so the conclusion applies -/
example : ∃ L U, luDecomp exS = .ok (L, U) ∧
    (∀ j, j + 1 < exS.row → (U.at j j).isFin = true ∧ (U.at j j).toRat ≠ 0) ∧
    toMat L 3 3 * toMat U 3 3 = toMat exS 3 3 := by
  obtain ⟨L, U, hok, _, _, _, _, _, _, h⟩ := LU_mul_back exS exS_ok.1 rfl exS_ok.2
  have hex : luDecomp exS = .ok (
      { row := 3, col := 3, m := #[.fin 1, .fin 0, .fin 0, .fin 2, .fin 1, .fin 0, .fin 4, .fin 3, .fin 1] },
      { row := 3, col := 3, m := #[.fin 2, .fin 1, .fin 1, .fin 0, .fin 1, .fin 1, .fin 0, .fin 0, .fin 2] }) := by
    decide +kernel
  have hp : ∀ j, j + 1 < exS.row → (U.at j j).isFin = true ∧ (U.at j j).toRat ≠ 0 := by
    rw [hex] at hok
    injection hok with hok
    injection hok with _ hU
    subst hU
    intro j hj
    have : j = 0 ∨ j = 1 := by simp [exS] at hj; omega
    rcases this with rfl | rfl <;> simp [DM.at, X.isFin, X.toRat]
  exact ⟨L, U, hok, hp, (h hp).2.2.2⟩

/-! ### the two repaired defects, stated on their minimal witnesses

`x0` solves `A0 x = 0`.  Row operations preserve the solution set, so every correct elimination
result `B` satisfies `B x0 = 0`.  The original code (column counter used as pivot row) does not. -/
def A0 : DM := { row := 3, col := 4, m := #[.fin 0, .fin 1, .fin 1, .fin 0, .fin 0, .fin 2, .fin 0, .fin 1, .fin 0, .fin 1, .fin 1, .fin 0] }
def x0 : DM := { row := 4, col := 1, m := #[.fin 0, .fin 1, .fin (-1), .fin (-2)] }
def zero31 : DM := { row := 3, col := 1, m := #[.fin 0, .fin 0, .fin 0] }

theorem pge_witness :
    mulDense A0 x0 = .ok zero31 ∧
    (do let r ← pge A0; mulDense r.1 x0) = .ok zero31 ∧
    (do let r ← pffge A0; mulDense r.1 x0) = .ok zero31 ∧
    (do let r ← pgeOrig A0; mulDense r.1 x0) = .ok { row := 3, col := 1, m := #[.fin 0, .fin 1, .fin 0] } ∧
    (do let r ← pffgeOrig A0; pure r.1.m) =
      .ok #[.fin 0, .fin 1, .fin 1, .fin 0, .fin 0, .fin 0, .zoo, .zoo, .fin 0, .fin 2, .fin 0, .fin 1] := by
  refine ⟨?_, ?_, ?_, ?_, ?_⟩ <;> decide +kernel

/-- fraction_free_gauss_jordan_solve with pivoting on a singular matrix: the repaired code reports
    "Matrix is rank deficient" (the original asserted / read past the storage) -/
theorem ffgj_singular_witness :
    ffgjSolve { row := 1, col := 1, m := #[.fin 0] } { row := 1, col := 1, m := #[.fin 1] } (DM.fresh 1 1) true
      = .error .runtime := by
  decide +kernel

/-! ### statements that are *not* proved here (decided per sample by the harness oracle)

`invertible`-style statements are phrased with determinants and products only. -/
def Finite (A : DM) : Prop := A.wf ∧ allFin A

/-- det_bareis (all sizes, including the pivoting Bareiss branch) is the determinant -/
def det_bareis_full : Prop := ∀ A : DM, Finite A → A.row = A.col → 0 < A.row →
  ∃ d, detBareiss A = .ok (X.fin d) ∧ d = (toMat A A.row A.row).det
/-- det_berkowitz is the determinant -/
def det_berkowitz_full : Prop := ∀ A : DM, Finite A → A.row = A.col → 0 < A.row →
  ∃ d, detBerkowitz A = .ok (X.fin d) ∧ d = (toMat A A.row A.row).det
/-- char_poly returns the coefficients (decreasing powers) of `det (x I - A)` -/
def char_poly_full : Prop := ∀ A : DM, Finite A → A.row = A.col → 0 < A.row →
  ∃ P, charPoly A = .ok P ∧ P.row = A.row + 1 ∧ P.col = 1 ∧ allFin P ∧
    ∀ x : ℚ, ∑ k ∈ Finset.range (A.row + 1), (P.at k 0).toRat * x ^ (A.row - k) =
      (x • (1 : Matrix (Fin A.row) (Fin A.row) ℚ) - toMat A A.row A.row).det
/-- every inverse routine returns the inverse of a non-singular matrix (the non-pivoting ones under
    their leading-minor precondition, here subsumed by requiring the result to be rational) -/
def inverse_full : Prop := ∀ A : DM, Finite A → A.row = A.col → (toMat A A.row A.row).det ≠ 0 →
  ∀ inv ∈ [inversePivotedLU, inverseGaussJordan],
    ∃ B, inv A = .ok B ∧ allFin B ∧ toMat A A.row A.row * toMat B A.row A.row = 1
def inverse_nonpivot_full : Prop := ∀ A : DM, Finite A → A.row = A.col →
  ∀ inv ∈ [inverseLU, inverseFFLU], ∀ B, inv A = .ok B → allFin B →
    toMat A A.row A.row * toMat B A.row A.row = 1
/-- pivoted LU: `L * U = P * A` for the recorded row exchanges -/
def pivoted_LU_full : Prop := ∀ A : DM, Finite A → A.row = A.col → (toMat A A.row A.row).det ≠ 0 →
  ∃ L U pl PA, pivotedLU A = .ok (L, U, pl) ∧ permuteFwd A.m A.row A.col pl = .ok PA ∧ allFin L ∧ allFin U ∧
    toMat L A.row A.row * toMat U A.row A.row = toMat { A with m := PA } A.row A.row
/-- LDL: `L * D * Lᵀ = A` for symmetric input whenever the factors are rational -/
def ldl_full : Prop := ∀ A L D : DM, Finite A → A.row = A.col →
  toMat A A.row A.row = (toMat A A.row A.row).transpose → ldlDecomp A = .ok (L, D) → allFin L → allFin D →
    toMat L A.row A.row * toMat D A.row A.row * (toMat L A.row A.row).transpose = toMat A A.row A.row
/-- Cholesky: `L * Lᵀ = A` whenever the factor is rational -/
def cholesky_full : Prop := ∀ A L : DM, Finite A → A.row = A.col →
  toMat A A.row A.row = (toMat A A.row A.row).transpose → choleskyDecomp A = .ok L → allFin L →
    toMat L A.row A.row * (toMat L A.row A.row).transpose = toMat A A.row A.row
/-- QR: `Q * R = A` and `Qᵀ Q = 1` whenever the factors are rational -/
def qr_full : Prop := ∀ A Q R : DM, Finite A → qrDecomp A = .ok (Q, R) → allFin Q → allFin R →
  toMat Q A.row A.col * toMat R A.col A.col = toMat A A.row A.col ∧
  (toMat Q A.row A.col).transpose * toMat Q A.row A.col = 1
/-- every elimination routine returns `P * A` for an invertible `P` (row equivalence) -/
def elimination_full : Prop := ∀ A : DM, Finite A → 0 < A.col →
  ∀ elim ∈ [pge, pffge, pgje, pffgje], ∃ B pl, elim A = .ok (B, pl) ∧ allFin B ∧
    ∃ P : Matrix (Fin A.row) (Fin A.row) ℚ, P.det ≠ 0 ∧ toMat B A.row A.col = P * toMat A A.row A.col
/-- linear solvers: `A x = b` for non-singular `A` (pivoting solvers) -/
def solve_full : Prop := ∀ A b : DM, Finite A → Finite b → A.row = A.col → b.row = A.row →
  (toMat A A.row A.row).det ≠ 0 →
  ∃ x, pivotedLUSolve A b = .ok x ∧ allFin x ∧ toMat A A.row A.row * toMat x A.row b.col = toMat b A.row b.col

end SymVerif.C24
