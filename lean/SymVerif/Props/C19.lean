/-
C19  Serialization round-trips exactly.

Model: SymVerif/Model/Codec.lean (byte-exact codec of serialize-cereal.h on cereal's portable binary archive).
  encode / encodeT   Basic::dumps         decode / decodeT   Basic::loads
  encodeMatrix       DenseMatrix::dumps   decodeMatrixT      DenseMatrix::loads

Headline theorems
  load_dumps                 loads (dumps e) = e for every serialisable expression (`Ser`), whatever addresses its
                             objects have, provided one address holds one object; equality is structural equality of
                             `Expr`, i.e. doubles by bit pattern.
  load_dumps_graph           the same on the object graph: the decoded graph is the original one *including the
                             address labels*, i.e. the sharing structure.
  encode_consumes_exactly    decoding an encoding followed by arbitrary bytes returns exactly those bytes
                             (what makes sequences and containers decodable).
  sharing_restored           a slot whose address was written before is written as a 9-byte back-reference and is
                             decoded to the very object registered under that address; after any slot is decoded the
                             object map binds its address to that object.
  matrix_load_dumps          DenseMatrix contents round-trip (one archive: sharing across elements).

`Ser` covers Integer, Rational, Complex, RealDouble, ComplexDouble, Infty, NaN, Symbol, Dummy, Constant, Add, Mul,
Pow, FunctionSymbol, BooleanAtom, every class loaded from a fixed number of pointers (one- and two-argument
functions, relationals, Not, Contains, Complement, ImageSet, ConditionSet, the argument-less sets) and every class
loaded from one container (Max, Min, LeviCivita, And, Or, Xor, FiniteSet, Union).  Interval, Derivative, Subs and
Piecewise are modelled and tested but are outside the theorem (`C19_full` below is the statement including them).
-/
import SymVerif.Lemmas.C19SerMain
import SymVerif.Lemmas.C19Top
import SymVerif.Lemmas.C19Beq

namespace SymVerif.C19
open SymVerif SymVerif.Codec

/-- Basic::loads (Basic::dumps e) = e -/
theorem load_dumps (cap : Nat) (hcap : 2 ^ 20 ≤ cap) (lab : List Nat → UInt64) (e : Expr)
    (hser : Ser .basic e)
    (hcons : ∀ t, toT lab [] e = some t → Consistent (nodesT t)) :
    decode cap (encode lab e) = .ok e := by
  obtain ⟨t, ht, hs, hw⟩ := sem_toT cap hcap lab e .basic [] hser
  unfold decode encode
  rw [ht]
  simp only
  rw [decodeT_encodeT cap t hw (hcons t ht)]
  exact hs

/-- distinct addresses are a special case of consistent addresses -/
theorem consistent_of_nodup (l : List T) (h : (l.map T.addr).Nodup) : Consistent l := by
  induction l with
  | nil => intro x hx; simp at hx
  | cons a t ih =>
    simp only [List.map_cons, List.nodup_cons] at h
    intro x hx y hy hxy
    simp only [List.mem_cons] at hx hy
    rcases hx with rfl | hx <;> rcases hy with rfl | hy
    · rfl
    · exact absurd (hxy ▸ List.mem_map_of_mem (f := T.addr) hy) h.1
    · exact absurd (hxy ▸ List.mem_map_of_mem (f := T.addr) hx) h.1
    · exact ih h.2 x hx y hy hxy

/-- the graph-level statement: addresses (= sharing) are part of what is restored -/
theorem load_dumps_graph (cap : Nat) (t : T) (hw : WfT cap .basic t) (hc : Consistent (nodesT t)) :
    decodeT cap (encodeT t) = .ok t :=
  decodeT_encodeT cap t hw hc

/-- the decoder consumes exactly the bytes of one encoded object -/
theorem encode_consumes_exactly (cap : Nat) (U : T → Prop) (hU : Cons U) (t : T) (c : Cls) (seen : List UInt64)
    (m : Map) (rest : Bytes) (fuel : Nat) (hw : WfT cap c t) (ha : AllT U t) (hi : Inv U seen m)
    (hf : (encT t seen).1.length ≤ fuel) :
    ∃ m', decT ⟨false, cap⟩ fuel c m ((encT t seen).1 ++ rest) = .ok (t, m', rest) := by
  obtain ⟨m', hd, _⟩ := decT_encT cap U hU t c seen m rest fuel hw ha hi hf
  exact ⟨m', hd⟩

/-- shared subexpressions are restored as one object -/
theorem sharing_restored (cap : Nat) (U : T → Prop) (hU : Cons U) (t : T) (c : Cls) (seen : List UInt64)
    (m : Map) (rest : Bytes) (fuel : Nat) (hw : WfT cap c t) (ha : AllT U t) (hi : Inv U seen m) :
    -- (1) once decoded, the address is bound to this object
    ((encT t seen).1.length ≤ fuel →
      ∃ m', decT ⟨false, cap⟩ fuel c m ((encT t seen).1 ++ rest) = .ok (t, m', rest) ∧ m'.lookup t.addr = some t) ∧
    -- (2) an address seen before is a back-reference to the stored object
    (t.addr ∈ seen → 9 ≤ fuel →
      encT t seen = (le64 t.addr ++ [0], seen) ∧ m.lookup t.addr = some t ∧
      decT ⟨false, cap⟩ fuel c m (le64 t.addr ++ [0] ++ rest) = .ok (t, m, rest)) := by
  constructor
  · intro hf
    obtain ⟨m', hd, _, hl⟩ := decT_encT_registers cap U hU t c seen m rest fuel hw ha hi hf
    exact ⟨m', hd, hl⟩
  · intro hs hfu
    exact backref_roundtrip cap U hU t c seen m rest fuel hw ha hi hs hfu

theorem matrix_load_dumps (cap rows cols : Nat) (ts : List T)
    (hr : rows < 2 ^ 32) (hcn : cols < 2 ^ 32) (hn : ts.length * 8 < 2 ^ 63) (hcap : ts.length * 8 ≤ cap)
    (hw : WfSeq cap [.basic] 0 ts) (hc : Consistent (nodesTs ts)) :
    decodeMatrixT cap (encodeMatrix rows cols ts) = .ok (rows, cols, ts) :=
  decodeMatrixT_encodeMatrix cap rows cols ts hr hcn hn hcap hw hc

/-- the full property: every expression the encoder accepts round-trips (includes Interval, Derivative, Subs,
    Piecewise, which `Ser` leaves out) -/
def C19_full : Prop :=
  ∀ (cap : Nat) (lab : List Nat → UInt64) (e : Expr) (t : T), 2 ^ 20 ≤ cap →
    toT lab [] e = some t → WfT cap .basic t → Consistent (nodesT t) → decode cap (encode lab e) = .ok e

/-! ### non-vacuity: 2*x + x**2 + sin(x) with ONE object for x (three slots, one address) and a -0.0 double -/

def exE : Expr :=
  .add (.dbl 0x8000000000000000) [(.sym "x", .int 2), (.pow (.sym "x") (.int 2), .int 1), (.app "Sin" [.sym "x"], .rat (-1) 2)]

/-- the three occurrences of x (paths [1], [3,0], [5,0]) share the address 0x1000; every other slot is distinct -/
def exLab (p : List Nat) : UInt64 :=
  if p == [1] || p == [3, 0] || p == [5, 0] then 0x1000
  else UInt64.ofNat (p.foldl (fun acc d => acc * 16 + d + 1) 0x20000)

theorem intOK_digit (n : Int) (h : n.natAbs < 10) : intOK n := by
  unfold intOK intBytes
  have : natDec n.natAbs = [UInt8.ofNat (48 + n.natAbs)] := by simp [natDec, natDecF, h]
  split <;> simp [this]

/-- the graph `toT` produces for `exE` (13 pointer slots, three of them at address 0x1000) -/
def exT : T := (toT exLab [] exE).getD default

set_option maxRecDepth 100000 in
theorem exT_eq : toT exLab [] exE = some exT := by rfl

set_option maxRecDepth 100000 in
theorem exT_consistent : Consistent (nodesT exT) := consistent_of_check _ (by rfl)

set_option maxRecDepth 100000 in
example : (nodesT exT).length = 13 ∧ ((nodesT exT).filter fun x => x.addr == 0x1000).length = 3 := by
  constructor <;> rfl

theorem exE_ser : Ser .basic exE := by
  have i2 : intOK 2 := intOK_digit 2 (by decide)
  have i1 : intOK 1 := intOK_digit 1 (by decide)
  have im1 : intOK (-1) := intOK_digit (-1) (by decide)
  have sx : strOK "x" := ⟨by decide, by decide⟩
  refine ⟨by decide, (by unfold Ser; decide), ⟨⟨by decide, sx⟩, ⟨by decide, i2⟩, ⟨by decide, ⟨by decide, sx⟩, by decide, i2⟩, ⟨by decide, i1⟩, ?_, ?_, trivial⟩, by decide, by decide⟩
  · refine ⟨by decide, by decide, by decide, Or.inl ⟨[.basic], by decide, ⟨by decide, sx⟩, trivial⟩⟩
  · exact ⟨by decide, ⟨im1, intOK_digit 2 (by decide), Or.inr ⟨by decide, by decide⟩⟩, by decide⟩

/-- `load_dumps` instantiated: -0.0 + 2*x + x**2 - sin(x)/2 with one shared symbol object -/
example : decode (2 ^ 26) (encode exLab exE) = .ok exE :=
  load_dumps (2 ^ 26) (by decide) exLab exE exE_ser
    (fun t ht => by rw [exT_eq] at ht; cases ht; exact exT_consistent)

/-- graph-level instance: x**x with ONE symbol object in both slots -/
def exX : T := .mk 0x1000 (codeOf "Symbol") [.str [120]]
def exG : T := .mk 0x2000 (codeOf "Pow") [.ptr exX, .ptr exX]

theorem exX_wf : WfT (2 ^ 26) .basic exX :=
  ⟨by decide, ⟨[.str], by decide, ⟨by simp [WfFld], trivial⟩⟩, ⟨.sym "x", by rfl, by decide⟩, by decide⟩

theorem exG_wf : WfT (2 ^ 26) .basic exG :=
  ⟨by decide, ⟨[.ptr .basic, .ptr .basic], by decide, ⟨exX_wf, exX_wf, trivial⟩⟩,
   ⟨.pow (.sym "x") (.sym "x"), by rfl, by decide⟩, by decide⟩

theorem exG_consistent : Consistent (nodesT exG) := by
  intro x hx y hy h
  simp only [exG, exX, nodesT, nodesFlds, nodesFld, List.append_nil, List.cons_append, List.nil_append,
    List.mem_cons, List.not_mem_nil, or_false] at hx hy
  rcases hx with rfl | rfl | rfl <;> rcases hy with rfl | rfl | rfl <;> first | rfl | (exact absurd h (by decide))

example : decodeT (2 ^ 26) (encodeT exG) = .ok exG := load_dumps_graph _ exG exG_wf exG_consistent

/-- the stream of `exG` really contains a back-reference: 5 header bytes, 10 + 10 + 9 for the root and the first x,
    then 9 bytes for the second x -/
example : (encodeT exG).length = 5 + 10 + (10 + 9) + 9 := by decide

end SymVerif.C19
