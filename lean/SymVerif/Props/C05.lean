import SymVerif.Model.Num
import SymVerif.Lemmas.C05Q
import SymVerif.Lemmas.C05Num
import SymVerif.Lemmas.C05Div
import SymVerif.Lemmas.C05Arith
import SymVerif.Lemmas.C05PowC
/-!
C05 — exact number arithmetic (Integer, Rational, Complex) is correct and normalised.

`val : Num F → Option ℂ` is the mathematical value, `Good r z` says: `r` is exact, normalised and
`val r = z`.  The theorems are about the functions the driver `drv_c05` runs; `F` (the float type)
is arbitrary and irrelevant here.  There is no bound on the size of the integers.
-/
namespace SymVerif.C05
open SymVerif.Num

set_option linter.unusedSimpArgs false
set_option linter.unusedSectionVars false
set_option linter.unusedVariables false
set_option linter.unnecessarySeqFocus false
set_option linter.unusedTactic false
set_option linter.unreachableTactic false

variable {F : Type} [FloatOps F]

attribute [local simp] Q.toRat_ofInt Q.toRat_neg gv_re gv_im

/-- **C05 (a)** addition of exact numbers (all nine ordered kind pairs): the call succeeds, the result
is normalised and its value is exactly the mathematical one. -/
theorem add_correct (a b : Num F) (ea : Exact a) (eb : Exact b) (na : Normalised a) (nb : Normalised b)
    (za zb : ℂ) (ha : val a = some za) (hb : val b = some zb) :
    ∃ r, Num.add a b = .ok r ∧ Good r (za + zb) :=
  add_good a b ea eb na nb za zb ha hb

/-- **C05 (a)** subtraction of exact numbers (all nine ordered kind pairs): the call succeeds, the result
is normalised and its value is exactly the mathematical one. -/
theorem sub_correct (a b : Num F) (ea : Exact a) (eb : Exact b) (na : Normalised a) (nb : Normalised b)
    (za zb : ℂ) (ha : val a = some za) (hb : val b = some zb) :
    ∃ r, Num.sub a b = .ok r ∧ Good r (za - zb) :=
  sub_good a b ea eb na nb za zb ha hb

/-- **C05 (a)** multiplication of exact numbers (all nine ordered kind pairs): the call succeeds, the result
is normalised and its value is exactly the mathematical one. -/
theorem mul_correct (a b : Num F) (ea : Exact a) (eb : Exact b) (na : Normalised a) (nb : Normalised b)
    (za zb : ℂ) (ha : val a = some za) (hb : val b = some zb) :
    ∃ r, Num.mul a b = .ok r ∧ Good r (za * zb) :=
  mul_good a b ea eb na nb za zb ha hb

/-- **C05 (b)** division of exact numbers by anything but the exact zero: the call succeeds for all
nine kind pairs (no `NotImplementedError`; Rational / Complex is where D10 was), exact value, normalised. -/
theorem div_correct (a b : Num F) (ea : Exact a) (eb : Exact b) (na : Normalised a) (nb : Normalised b)
    (za zb : ℂ) (ha : val a = some za) (hb : val b = some zb) (hb0 : b ≠ .int 0) :
    ∃ r, Num.div a b = .ok r ∧ Good r (za / zb) :=
  div_good a b ea eb na nb za zb ha hb hb0

/-- **C05 (b)** division by the exact zero: zoo, or nan for `0/0`. -/
theorem div_zero (a : Num F) (ea : Exact a) (na : Normalised a) :
    Num.div a (.int 0) = .ok (if a.isZero then .nan else .infty 0) := by
  cases a with
  | int n => by_cases h : n = 0 <;> simp [Num.div, intDiv, divint, Num.isZero, h]
  | rat q => simp [Num.div, ratDiv, Num.isZero, rat_num_ne_zero na]
  | cplx re im =>
    obtain ⟨h1, h2, h3⟩ := normalised_cplx.mp na
    simp [Num.div, cplxDiv, Num.isZero, modSq_num_ne_zero h1.pos h2.pos h3]
  | _ => simp [Exact, Num.isExact] at ea

/-! ### integer powers -/

/-- **C05 (c)** `a.pow(e)` for an exact `a` and an `Integer` exponent `e` of either sign
(`Integer::powint / pow_negint`, `Rational::powrat`, `Complex::powcomp`): the call succeeds, and returns
zoo for `0 ** negative`, otherwise the normalised number whose value is exactly `a ^ e`.
`|e| ≤ hugeExp = 100000` is the modelled range (beyond it the real computation does not finish). -/
theorem pow_int_correct (a : Num F) (ea : Exact a) (na : Normalised a) (za : ℂ) (ha : val a = some za)
    (e : Int) (hs : e.natAbs ≤ hugeExp) :
    ∃ r, Num.pow a (.int e) = .ok r ∧
      (if a.isZero = true ∧ e < 0 then r = .infty 0 else Good r (za ^ e)) := by
  cases a with
  | int n =>
    rw [val_int] at ha
    simp only [Option.some.injEq] at ha; subst ha
    simp only [Num.pow, intPow, Num.isZero, beq_iff_eq]
    by_cases hn : n = 0
    · by_cases he : e < 0
      · subst hn
        exact ⟨_, powint_zero_neg e he, by simp [he]⟩
      · obtain ⟨r, hr, g⟩ := powint_nonneg_good (F := F) n e (not_lt.mp he) hs
        exact ⟨r, hr, by simp [he, g]⟩
    · by_cases he : 0 ≤ e
      · obtain ⟨r, hr, g⟩ := powint_nonneg_good (F := F) n e he hs
        exact ⟨r, hr, by simp [hn, g]⟩
      · obtain ⟨r, hr, g⟩ := powint_neg_good (F := F) n e hn (not_le.mp he) hs
        exact ⟨r, hr, by simp [hn, g]⟩
  | rat q =>
    simp only [val, Option.some.injEq] at ha; subst ha
    have hq := rat_num_ne_zero na
    obtain ⟨r, hr, g⟩ := powrat_good (F := F) q (normalised_rat.mp na).1 hq e hs
    exact ⟨r, by simpa [Num.pow, ratPow] using hr, by simp [Num.isZero, hq, g]⟩
  | cplx re im =>
    simp only [val, Option.some.injEq] at ha; subst ha
    obtain ⟨h1, h2, h3⟩ := normalised_cplx.mp na
    obtain ⟨r, hr, g⟩ := powcomp_good (F := F) re im h1 h2 h3 e hs
    exact ⟨r, by simpa [Num.pow, cplxPow] using hr, by simp [Num.isZero, g]⟩
  | _ => simp [Exact, Num.isExact] at ea

/-- **C05 (c)** the free function `pow(a, e)` (pow.cpp) on an exact base and an `Integer` exponent:
`0 ** negative = zoo`, otherwise exactly `a ^ e`, normalised. -/
theorem powTop_correct (a : Num F) (ea : Exact a) (na : Normalised a) (za : ℂ) (ha : val a = some za)
    (e : Int) (hs : e.natAbs ≤ hugeExp) :
    ∃ r, powTop a e = .ok r ∧
      (if a.isZero = true ∧ e < 0 then r = .infty 0 else Good r (za ^ e)) := by
  by_cases h0 : e = 0
  · subst h0
    exact ⟨.int 1, by simp [powTop], by simp; exact ⟨rfl, rfl, by rw [val_int]; simp⟩⟩
  by_cases h1 : e = 1
  · subst h1
    exact ⟨a, by simp [powTop], by simp; exact ⟨ea, na, ha⟩⟩
  have key := pow_int_correct a ea na za ha e hs
  cases a with
  | int n =>
    rw [val_int] at ha
    simp only [Option.some.injEq] at ha; subst ha
    by_cases hn : n = 0
    · subst hn
      by_cases he : 0 < e
      · refine ⟨.int 0, by simp [powTop, h0, h1, he], ?_⟩
        have : ¬ e < 0 := by omega
        simp only [Num.isZero, beq_self_eq_true, this, and_false, if_false]
        exact ⟨rfl, rfl, by rw [val_int]; simp [zero_zpow e h0]⟩
      · have he' : e < 0 := by omega
        exact ⟨.infty 0, by simp [powTop, h0, h1, he], by simp [Num.isZero, he']⟩
    · by_cases hm : n = -1
      · subst hm
        by_cases hev : e % 2 = 0
        · refine ⟨.int 1, by simp [powTop, h0, h1, hev], ?_⟩
          have hz : ¬ ((Num.int (-1) : Num F).isZero = true ∧ e < 0) := by simp [Num.isZero]
          have hE : Even e := Int.even_iff.mpr hev
          rw [if_neg hz]
          exact ⟨rfl, rfl, by rw [val_int]; simp [Even.neg_one_zpow hE]⟩
        · refine ⟨.int (-1), by simp [powTop, h0, h1, hev], ?_⟩
          have hz : ¬ ((Num.int (-1) : Num F).isZero = true ∧ e < 0) := by simp [Num.isZero]
          have hO : Odd e := Int.odd_iff.mpr (by omega)
          rw [if_neg hz]
          exact ⟨rfl, rfl, by rw [val_int]; simp [Odd.neg_one_zpow hO]⟩
      · simpa [powTop, h0, h1, hn, hm] using key
  | rat q => simpa [powTop, h0, h1] using key
  | cplx re im => simpa [powTop, h0, h1] using key
  | _ => simp [Exact, Num.isExact] at ea

/-- **C05 (d)** normal forms are unique: two exact normalised numbers with the same value are the same
object (so "exact tree dump equal" is the same as "value equal"). -/
theorem normal_form_unique (a b : Num F) (ea : Exact a) (eb : Exact b) (na : Normalised a)
    (nb : Normalised b) (h : val a = val b) : a = b :=
  val_injective ea eb na nb h

/-! ### ring laws at object level (value correctness + unique normal forms) -/

/-- two `Good` results with equal values are the same object -/
theorem good_unique {r s : Num F} {z w : ℂ} (hr : Good r z) (hs : Good s w) (h : z = w) : r = s :=
  normal_form_unique r s hr.exact hs.exact hr.normal hs.normal (by rw [hr.value, hs.value, h])

/-- **object-level commutativity** of `+` on exact numbers: both orders succeed with the *same* object
(not just the same value) — the nine kind pairs and their mirror images dispatch to different C++ methods. -/
theorem add_comm_exact (a b : Num F) (ea : Exact a) (eb : Exact b) (na : Normalised a) (nb : Normalised b)
    (za zb : ℂ) (ha : val a = some za) (hb : val b = some zb) :
    ∃ r, Num.add a b = .ok r ∧ Num.add b a = .ok r := by
  obtain ⟨r, hr, gr⟩ := add_correct a b ea eb na nb za zb ha hb
  obtain ⟨s, hs, gs⟩ := add_correct b a eb ea nb na zb za hb ha
  exact ⟨r, hr, by rw [hs, good_unique gs gr (add_comm zb za)]⟩

theorem mul_comm_exact (a b : Num F) (ea : Exact a) (eb : Exact b) (na : Normalised a) (nb : Normalised b)
    (za zb : ℂ) (ha : val a = some za) (hb : val b = some zb) :
    ∃ r, Num.mul a b = .ok r ∧ Num.mul b a = .ok r := by
  obtain ⟨r, hr, gr⟩ := mul_correct a b ea eb na nb za zb ha hb
  obtain ⟨s, hs, gs⟩ := mul_correct b a eb ea nb na zb za hb ha
  exact ⟨r, hr, by rw [hs, good_unique gs gr (mul_comm zb za)]⟩

/-- **object-level associativity** of `+`: `(a + b) + c` and `a + (b + c)` succeed with the same object -/
theorem add_assoc_exact (a b c : Num F) (ea : Exact a) (eb : Exact b) (ec : Exact c)
    (na : Normalised a) (nb : Normalised b) (nc : Normalised c)
    (za zb zc : ℂ) (ha : val a = some za) (hb : val b = some zb) (hc : val c = some zc) :
    ∃ ab bc r, Num.add a b = .ok ab ∧ Num.add b c = .ok bc ∧ Num.add ab c = .ok r ∧ Num.add a bc = .ok r := by
  obtain ⟨ab, h1, g1⟩ := add_correct a b ea eb na nb za zb ha hb
  obtain ⟨bc, h2, g2⟩ := add_correct b c eb ec nb nc zb zc hb hc
  obtain ⟨r, h3, g3⟩ := add_correct ab c g1.exact ec g1.normal nc _ zc g1.value hc
  obtain ⟨s, h4, g4⟩ := add_correct a bc ea g2.exact na g2.normal za _ ha g2.value
  exact ⟨ab, bc, r, h1, h2, h3, by rw [h4, good_unique g4 g3 (add_assoc za zb zc).symm]⟩

theorem mul_assoc_exact (a b c : Num F) (ea : Exact a) (eb : Exact b) (ec : Exact c)
    (na : Normalised a) (nb : Normalised b) (nc : Normalised c)
    (za zb zc : ℂ) (ha : val a = some za) (hb : val b = some zb) (hc : val c = some zc) :
    ∃ ab bc r, Num.mul a b = .ok ab ∧ Num.mul b c = .ok bc ∧ Num.mul ab c = .ok r ∧ Num.mul a bc = .ok r := by
  obtain ⟨ab, h1, g1⟩ := mul_correct a b ea eb na nb za zb ha hb
  obtain ⟨bc, h2, g2⟩ := mul_correct b c eb ec nb nc zb zc hb hc
  obtain ⟨r, h3, g3⟩ := mul_correct ab c g1.exact ec g1.normal nc _ zc g1.value hc
  obtain ⟨s, h4, g4⟩ := mul_correct a bc ea g2.exact na g2.normal za _ ha g2.value
  exact ⟨ab, bc, r, h1, h2, h3, by rw [h4, good_unique g4 g3 (mul_assoc za zb zc).symm]⟩

/-- **distributivity** at object level: `a * (b + c)` and `a*b + a*c` are the same object -/
theorem mul_add_exact (a b c : Num F) (ea : Exact a) (eb : Exact b) (ec : Exact c)
    (na : Normalised a) (nb : Normalised b) (nc : Normalised c)
    (za zb zc : ℂ) (ha : val a = some za) (hb : val b = some zb) (hc : val c = some zc) :
    ∃ bc ab ac r, Num.add b c = .ok bc ∧ Num.mul a b = .ok ab ∧ Num.mul a c = .ok ac ∧
      Num.mul a bc = .ok r ∧ Num.add ab ac = .ok r := by
  obtain ⟨bc, h1, g1⟩ := add_correct b c eb ec nb nc zb zc hb hc
  obtain ⟨ab, h2, g2⟩ := mul_correct a b ea eb na nb za zb ha hb
  obtain ⟨ac, h3, g3⟩ := mul_correct a c ea ec na nc za zc ha hc
  obtain ⟨r, h4, g4⟩ := mul_correct a bc ea g1.exact na g1.normal za _ ha g1.value
  obtain ⟨s, h5, g5⟩ := add_correct ab ac g2.exact g3.exact g2.normal g3.normal _ _ g2.value g3.value
  exact ⟨bc, ab, ac, r, h1, h2, h3, h4, by rw [h5, good_unique g5 g4 (mul_add za zb zc).symm]⟩

/-- `(a - b) + b = a` as objects (subtraction is the inverse of addition, no drift in the normal form) -/
theorem sub_add_cancel_exact (a b : Num F) (ea : Exact a) (eb : Exact b) (na : Normalised a) (nb : Normalised b)
    (za zb : ℂ) (ha : val a = some za) (hb : val b = some zb) :
    ∃ d, Num.sub a b = .ok d ∧ Num.add d b = .ok a := by
  obtain ⟨d, h1, g1⟩ := sub_correct a b ea eb na nb za zb ha hb
  obtain ⟨s, h2, g2⟩ := add_correct d b g1.exact eb g1.normal nb _ zb g1.value hb
  refine ⟨d, h1, ?_⟩
  rw [h2]; congr 1
  exact normal_form_unique s a g2.exact ea g2.normal na (by rw [g2.value, ha]; simp)

/-- **C05 (e)** loop invariant of the binary exponentiation `pow_number` (see `Lemmas/C05Pow.lean`). -/
theorem pow_number_invariant (x : ℂ) (n : Nat) (hn : n < 2 ^ 64) (fuel k : Nat) (r p : Q × Q)
    (hk : k < 64) (hf : 64 - k ≤ fuel) (hr : P2 r) (hp : P2 p)
    (hpv : gval p = x ^ (2 ^ k)) (hrv : gval r = x ^ (n % 2 ^ k)) :
    P2 (powNumberLoop fuel n (2 ^ k) r p) ∧ gval (powNumberLoop fuel n (2 ^ k) r p) = x ^ n :=
  powNumberLoop_spec x n hn fuel k r p hk hf hr hp hpv hrv

/-- the defect D10 in the unpatched source: `Complex::rdiv` handles only `Integer`, so
`Rational / Complex` throws `NotImplementedError` -/
theorem D10_orig (q re im : Q) : divOrig (F := F) (.rat q) (.cplx re im) = .error .notImpl := by
  simp [divOrig, cplxRdivOrig]

/-! ### non-vacuity -/

theorem ex_norm_cplx : Normalised (F := F) (.cplx ⟨1, 2⟩ ⟨-3, 4⟩) :=
  normalised_cplx.mpr ⟨⟨by decide, by decide⟩, ⟨by decide, by decide⟩, by decide⟩
theorem ex_norm_rat : Normalised (F := F) (.rat ⟨-7, 3⟩) :=
  normalised_rat.mpr ⟨⟨by decide, by decide⟩, by decide⟩

example : ∃ r, Num.add (F := F) (.rat ⟨1, 2⟩) (.cplx ⟨1, 2⟩ ⟨-3, 4⟩) = .ok r ∧
    Good r (gv ⟨1, 2⟩ (.ofInt 0) + gv ⟨1, 2⟩ ⟨-3, 4⟩) :=
  add_correct (.rat ⟨1, 2⟩) (.cplx ⟨1, 2⟩ ⟨-3, 4⟩) rfl rfl rfl ex_norm_cplx _ _ rfl rfl
example : ∃ r, Num.mul (F := F) (.cplx ⟨0, 1⟩ ⟨1, 1⟩) (.cplx ⟨0, 1⟩ ⟨1, 1⟩) = .ok r ∧
    Good r (gv ⟨0, 1⟩ ⟨1, 1⟩ * gv ⟨0, 1⟩ ⟨1, 1⟩) :=
  mul_correct (.cplx ⟨0, 1⟩ ⟨1, 1⟩) (.cplx ⟨0, 1⟩ ⟨1, 1⟩) rfl rfl rfl rfl _ _ rfl rfl
example : ∃ r, Num.div (F := F) (.rat ⟨1, 2⟩) (.cplx ⟨1, 1⟩ ⟨1, 1⟩) = .ok r ∧
    Good r (gv ⟨1, 2⟩ (.ofInt 0) / gv ⟨1, 1⟩ ⟨1, 1⟩) :=
  div_correct (.rat ⟨1, 2⟩) (.cplx ⟨1, 1⟩ ⟨1, 1⟩) rfl rfl rfl rfl _ _ rfl rfl (by simp)
example : Num.div (F := F) (.rat ⟨1, 2⟩) (.cplx ⟨1, 1⟩ ⟨1, 1⟩) = .ok (.cplx ⟨1, 4⟩ ⟨-1, 4⟩) := rfl
example : Num.div (F := F) (.rat ⟨-7, 3⟩) (.int 0) = .ok (.infty 0) := by
  rw [div_zero (.rat ⟨-7, 3⟩) rfl ex_norm_rat]; rfl
example : ∃ r, Num.pow (F := F) (.cplx ⟨1, 2⟩ ⟨-3, 4⟩) (.int (-5)) = .ok r ∧ Good r (gv ⟨1, 2⟩ ⟨-3, 4⟩ ^ (-5 : ℤ)) := by
  simpa [Num.isZero] using pow_int_correct (F := F) (.cplx ⟨1, 2⟩ ⟨-3, 4⟩) rfl ex_norm_cplx _ rfl (-5) (by decide)
example : powTop (F := F) (.int 0) (-3) = .ok (.infty 0) := by
  obtain ⟨r, hr, h⟩ := powTop_correct (F := F) (.int 0) rfl rfl _ rfl (-3) (by decide)
  simp [Num.isZero] at h
  rw [hr, h]

end SymVerif.C05
