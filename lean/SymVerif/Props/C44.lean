/-
C44 — the alternative printers are total and well-formed: the proved cores.

  mathml_wellformed    every tree the MathML model produces serialises to a well-formed XML element
                       (`Element`, an inductive rendering of the XML 1.0 productions for elements, attributes,
                       character data and the predefined entity references); the only non-structural part is the
                       escaping of symbol names, lemma `escText_chardata`
  ser_wellformed       the same for every XML tree with valid names (the serialiser lemma)
  mathml_names_ok      every element name the model takes from the translated name tables is an XML name (decide)
  latex_balanced       every serialised `TexTree` is accepted by the group matcher `texCheck` that the driver runs
                       on the real LaTeX output (`{ }`, `\left \right`, `\begin \end`)
  unescaped_witness    without escaping (the code before the fix) the symbol `a<b` gives `<ci>a<b</ci>`, which the
                       XML reader rejects
The MathML model is compared with the real output on every generated expression (modulo the order of the
summands of `<apply><plus/>`); LaTeX, Unicode, Julia and SBML are oracle-checked on the real output only.
-/
import SymVerif.Model.Markup

namespace SymVerif.C44
open SymVerif SymVerif.Expr SymVerif.Markup

/-! ### well-formed XML -/

def nameStart (c : Char) : Bool := c.isAlpha || c == '_' || c == ':' || c.toNat ≥ 128
def nameChar (c : Char) : Bool := nameStart c || c.isDigit || c == '-' || c == '.'
def nameOK (n : List Char) : Bool :=
  match n with
  | [] => false
  | c :: r => nameStart c && r.all nameChar

def entities : List (List Char) := ["amp".toList, "lt".toList, "gt".toList, "quot".toList, "apos".toList]

/-- `CharData`: no `<`, and `&` only as the start of a predefined entity reference -/
inductive CharData : List Char → Prop
  | nil : CharData []
  | plain {c : Char} {r : List Char} : c ≠ '<' → c ≠ '&' → CharData r → CharData (c :: r)
  | ent {e r : List Char} : e ∈ entities → CharData r → CharData ('&' :: (e ++ ';' :: r))

/-- an attribute value between double quotes: additionally no `"` -/
inductive AttrData : List Char → Prop
  | nil : AttrData []
  | plain {c : Char} {r : List Char} : c ≠ '<' → c ≠ '&' → c ≠ '"' → AttrData r → AttrData (c :: r)
  | ent {e r : List Char} : e ∈ entities → AttrData r → AttrData ('&' :: (e ++ ';' :: r))

inductive Attrs : List Char → Prop
  | nil : Attrs []
  | cons {n v r : List Char} : nameOK n = true → AttrData v → Attrs r →
      Attrs (' ' :: (n ++ '=' :: '"' :: (v ++ '"' :: r)))

mutual
  inductive Element : List Char → Prop
    | empty {n as : List Char} : nameOK n = true → Attrs as → Element ('<' :: (n ++ as ++ ['/', '>']))
    | full {n as c : List Char} : nameOK n = true → Attrs as → Content c →
        Element ('<' :: (n ++ as ++ '>' :: (c ++ '<' :: '/' :: (n ++ ['>']))))
  inductive Content : List Char → Prop
    | nil : Content []
    | text {t r : List Char} : CharData t → Content r → Content (t ++ r)
    | elem {e r : List Char} : Element e → Content r → Content (e ++ r)
end

def WellFormedXml (s : List Char) : Prop := Element s

/-! ### the serialiser lemma -/

theorem chardata_append {a b : List Char} (ha : CharData a) (hb : CharData b) : CharData (a ++ b) := by
  induction ha with
  | nil => simpa using hb
  | plain h1 h2 _ ih => exact CharData.plain h1 h2 ih
  | ent he _ ih => simpa [List.append_assoc] using CharData.ent he ih

theorem escChar_chardata (c : Char) : CharData (escChar c) := by
  unfold escChar
  split
  · exact CharData.ent (e := "amp".toList) (r := []) (by decide) CharData.nil
  · split
    · exact CharData.ent (e := "lt".toList) (r := []) (by decide) CharData.nil
    · split
      · exact CharData.ent (e := "gt".toList) (r := []) (by decide) CharData.nil
      · rename_i h1 h2 h3
        refine CharData.plain ?_ ?_ CharData.nil
        · intro h; subst h; simp at h2
        · intro h; subst h; simp at h1

/-- escaped text is character data, whatever the text was -/
theorem escText_chardata (s : List Char) : CharData (escText s) := by
  induction s with
  | nil => exact CharData.nil
  | cons c r ih =>
    have : escText (c :: r) = escChar c ++ escText r := by simp [escText]
    rw [this]
    exact chardata_append (escChar_chardata c) ih

theorem attrdata_append {a b : List Char} (ha : AttrData a) (hb : AttrData b) : AttrData (a ++ b) := by
  induction ha with
  | nil => simpa using hb
  | plain h1 h2 h3 _ ih => exact AttrData.plain h1 h2 h3 ih
  | ent he _ ih => simpa [List.append_assoc] using AttrData.ent he ih

theorem escAttrChar_attrdata (c : Char) : AttrData (escAttrChar c) := by
  unfold escAttrChar
  split
  · exact AttrData.ent (e := "quot".toList) (r := []) (by decide) AttrData.nil
  · rename_i hq
    unfold escChar
    split
    · exact AttrData.ent (e := "amp".toList) (r := []) (by decide) AttrData.nil
    · split
      · exact AttrData.ent (e := "lt".toList) (r := []) (by decide) AttrData.nil
      · split
        · exact AttrData.ent (e := "gt".toList) (r := []) (by decide) AttrData.nil
        · rename_i h1 h2 h3
          refine AttrData.plain ?_ ?_ ?_ AttrData.nil
          · intro h; subst h; simp at h2
          · intro h; subst h; simp at h1
          · intro h; subst h; simp at hq

theorem escAttr_attrdata (s : List Char) : AttrData (escAttr s) := by
  induction s with
  | nil => exact AttrData.nil
  | cons c r ih =>
    have : escAttr (c :: r) = escAttrChar c ++ escAttr r := by simp [escAttr]
    rw [this]
    exact attrdata_append (escAttrChar_attrdata c) ih

def attrsOK (as : List (String × String)) : Bool := as.all fun a => nameOK a.1.toList

theorem serAttrs_ok : ∀ as : List (String × String), attrsOK as = true → Attrs (serAttrs as)
  | [], _ => Attrs.nil
  | (n, v) :: t, h => by
    simp only [attrsOK, List.all_cons, Bool.and_eq_true] at h
    exact Attrs.cons h.1 (escAttr_attrdata _) (serAttrs_ok t h.2)

mutual
  /-- all element and attribute names are XML names -/
  def treeOK : XmlTree → Bool
    | .text _ => true
    | .elem n as kids => nameOK n.toList && attrsOK as && kidsOK kids
  def kidsOK : List XmlTree → Bool
    | [] => true
    | k :: t => treeOK k && kidsOK t
end

mutual
  theorem ser_elem_wf : (n : String) → (as : List (String × String)) → (kids : List XmlTree) →
      treeOK (.elem n as kids) = true → Element (ser (.elem n as kids))
    | n, as, [], h => by
      simp only [treeOK, Bool.and_eq_true] at h
      simp only [ser]
      exact Element.empty h.1.1 (serAttrs_ok as h.1.2)
    | n, as, k :: ks, h => by
      simp only [treeOK, Bool.and_eq_true] at h
      simp only [ser]
      have hc : Content (ser k ++ serKids ks) := by
        have := serKids_content (k :: ks) h.2
        simpa [serKids] using this
      exact Element.full h.1.1 (serAttrs_ok as h.1.2) hc
  theorem serKids_content : (kids : List XmlTree) → kidsOK kids = true → Content (serKids kids)
    | [], _ => by simp only [serKids]; exact Content.nil
    | .text s :: ks, h => by
      simp only [kidsOK, Bool.and_eq_true] at h
      simp only [serKids, ser]
      exact Content.text (escText_chardata _) (serKids_content ks h.2)
    | .elem n as kids :: ks, h => by
      simp only [kidsOK, Bool.and_eq_true] at h
      simp only [serKids]
      exact Content.elem (ser_elem_wf n as kids h.1) (serKids_content ks h.2)
end

/-- **the serialiser lemma**: every element tree with valid names serialises to a well-formed element, whatever
its character data and attribute values contain -/
theorem ser_wellformed (n : String) (as : List (String × String)) (kids : List XmlTree)
    (h : treeOK (.elem n as kids) = true) : WellFormedXml (ser (.elem n as kids)) := ser_elem_wf n as kids h

/-! ### the MathML model only builds trees with valid names -/

/-- every name in the translated tables is an XML name -/
theorem mathml_names_ok :
    (Gen.AltNames.mathmlOverrides.all fun p => nameOK p.2.toList) = true ∧
    (Gen.PrintNames.printNames.all fun p => nameOK p.2.toList) = true := by decide +kernel

theorem lookup_mem {k v : String} : ∀ {l : List (String × String)}, l.lookup k = some v → ∃ k', (k', v) ∈ l
  | [], h => by simp [List.lookup] at h
  | (a, b) :: t, h => by
    simp only [List.lookup] at h
    split at h
    · simp at h; exact ⟨a, by simp [h]⟩
    · obtain ⟨k', hk⟩ := lookup_mem h
      exact ⟨k', by simp [hk]⟩

theorem mathmlName_ok {cls nm : String} (h : mathmlName cls = some nm) : nameOK nm.toList = true := by
  unfold mathmlName at h
  split at h
  · rename_i n hn
    simp at h; subst h
    obtain ⟨k', hk⟩ := lookup_mem hn
    exact List.all_eq_true.1 mathml_names_ok.1 _ hk
  · obtain ⟨k', hk⟩ := lookup_mem h
    exact List.all_eq_true.1 mathml_names_ok.2 _ hk

theorem relName_ok {h nm : String} (hr : relName h = some nm) : nameOK nm.toList = true := by
  unfold relName at hr
  repeat' split at hr
  all_goals first | (simp at hr; subst hr; decide) | simp at hr

theorem boolName_ok {h nm : String} (hr : boolName h = some nm) : nameOK nm.toList = true := by
  unfold boolName at hr
  repeat' split at hr
  all_goals first | (simp at hr; subst hr; decide) | simp at hr

/-- a result is fine if it is not a tree, or a tree rooted at an element with valid names -/
def resOK : MRes → Prop
  | .ok (.elem n as kids) => treeOK (.elem n as kids) = true
  | .ok (.text _) => False
  | _ => True

theorem collect_ok : ∀ {rs : List MRes} {ts : List XmlTree}, (∀ r ∈ rs, resOK r) → collect rs = .ok ts →
    kidsOK ts = true
  | [], ts, _, h => by simp [collect] at h; subst h; rfl
  | .ok t :: rs, ts, hr, h => by
    simp only [collect] at h
    split at h
    · rename_i ts' hc
      simp at h; subst h
      have ht := hr (.ok t) (by simp)
      have := collect_ok (fun r hr' => hr r (by simp [hr'])) hc
      cases t with
      | text s => exact absurd ht (by simp [resOK])
      | elem n as kids => simp only [kidsOK, Bool.and_eq_true]; exact ⟨ht, this⟩
    · simp at h
  | .throws :: rs, ts, _, h => by simp [collect] at h
  | .skip :: rs, ts, _, h => by simp [collect] at h

theorem withKids_ok {rs : List MRes} {nm : String} {as : List (String × String)} {pre : List XmlTree}
    (hr : ∀ r ∈ rs, resOK r) (hn : nameOK nm.toList = true) (ha : attrsOK as = true) (hp : kidsOK pre = true) :
    resOK (withKids rs fun ts => .elem nm as (pre ++ ts)) := by
  unfold withKids
  split
  · rename_i ts hc
    have := collect_ok hr hc
    simp only [resOK, treeOK, Bool.and_eq_true]
    refine ⟨⟨hn, ha⟩, ?_⟩
    clear hc hr
    induction pre with
    | nil => simpa using this
    | cons p ps ih =>
      simp only [kidsOK, Bool.and_eq_true] at hp
      simp only [List.cons_append, kidsOK, Bool.and_eq_true]
      exact ⟨hp.1, ih hp.2⟩
  · rename_i e _
    cases e <;> simp [resOK]
    rename_i t
    -- `collect` never returns a tree as an error
    exact False.elim (by
      rename_i hc
      revert hc
      generalize rs = l
      induction l with
      | nil => simp [collect]
      | cons a l ih =>
        cases a with
        | ok t' => simp only [collect]; split <;> simp_all
        | throws => simp [collect]
        | skip => simp [collect])

theorem apply_ok {rs : List MRes} {op : String} (hr : ∀ r ∈ rs, resOK r) (hn : nameOK op.toList = true) :
    resOK (withKids rs (Markup.apply op)) := by
  have : (Markup.apply op) = fun ts => XmlTree.elem "apply" [] ([empty op] ++ ts) := by
    funext ts; simp [Markup.apply]
  rw [this]
  exact withKids_ok hr (by decide) (by decide) (by simp [kidsOK, empty, treeOK, attrsOK, hn])

theorem ratTree_treeOK (n : Int) (d : Nat) : treeOK (ratTree n d) = true := by
  unfold ratTree cn
  split <;> simp [treeOK, kidsOK, attrsOK, empty] <;> decide

theorem ratTree_ok (n : Int) (d : Nat) : resOK (.ok (ratTree n d)) := by
  unfold ratTree cn
  split <;> simp [resOK, treeOK, kidsOK, attrsOK, empty] <;> decide

mutual
  theorem mathml_ok : (e : Expr) → resOK (mathmlTree e)
    | int n => by simp only [mathmlTree, cn, resOK, treeOK, kidsOK, attrsOK]; decide
    | rat n d => by simp only [mathmlTree]; exact ratTree_ok n d
    | cplx re im => by
      simp only [mathmlTree, resOK, treeOK, kidsOK, attrsOK, ratTree_treeOK, Bool.and_true]
      decide
    | dbl b => by simp only [mathmlTree, cn, resOK, treeOK, kidsOK, attrsOK]; decide
    | cdbl r i => by simp only [mathmlTree, cn, resOK, treeOK, kidsOK, attrsOK]; decide
    | infty d => by simp [mathmlTree, resOK]
    | nan => by simp [mathmlTree, resOK]
    | sym n => by simp only [mathmlTree, resOK, treeOK, kidsOK, attrsOK]; decide
    | dummy n i => by simp [mathmlTree, resOK]
    | const n => by
      simp only [mathmlTree]
      split
      · simp only [empty, resOK, treeOK, kidsOK, attrsOK]; decide
      · split
        · simp only [empty, resOK, treeOK, kidsOK, attrsOK]; decide
        · split
          · simp only [empty, resOK, treeOK, kidsOK, attrsOK]; decide
          · simp [resOK]
    | add c ts => by
      simp only [mathmlTree]
      apply apply_ok _ (by decide)
      intro r hr
      simp only [List.mem_append] at hr
      rcases hr with hr | hr
      · split at hr
        · simp at hr
        · simp at hr; subst hr; exact mathml_ok c
      · exact terms_ok ts r hr
    | mul c fs => by
      simp only [mathmlTree]
      apply apply_ok _ (by decide)
      intro r hr
      simp only [List.mem_append] at hr
      rcases hr with hr | hr
      · split at hr
        · simp at hr
        · simp at hr; subst hr; exact mathml_ok c
      · exact facs_ok fs r hr
    | pow b e => by
      simp only [mathmlTree]
      apply apply_ok _ (by decide)
      intro r hr
      simp at hr
      rcases hr with rfl | rfl
      · exact mathml_ok b
      · exact mathml_ok e
    | fsym n args => by
      simp only [mathmlTree]
      have : (fun ts => XmlTree.elem "apply" [] (XmlTree.elem "ci" [] [XmlTree.text n] :: ts))
          = fun ts => XmlTree.elem "apply" [] ([XmlTree.elem "ci" [] [XmlTree.text n]] ++ ts) := by
        funext ts; simp
      rw [this]
      exact withKids_ok (args_ok args) (by decide) (by decide)
        (by simp only [kidsOK, treeOK, attrsOK]; decide)
    | app h args => by
      simp only [mathmlTree]
      split
      · rename_i r _ _ hr; exact apply_ok (args_ok args) (relName_ok hr)
      · rename_i b _ _ hb; exact apply_ok (args_ok args) (boolName_ok hb)
      · rename_i f _ _ hf; exact apply_ok (args_ok args) (mathmlName_ok hf)
      · simp [resOK]
    | Expr.bool b => by
      simp only [mathmlTree, empty, resOK, treeOK, kidsOK, attrsOK]
      cases b <;> decide
  theorem args_ok : (l : List Expr) → ∀ r ∈ argTrees l, resOK r
    | [], r, hr => by simp [argTrees] at hr
    | a :: t, r, hr => by
      unfold argTrees at hr
      rcases List.mem_cons.1 hr with rfl | hr
      · exact mathml_ok a
      · exact args_ok t r hr
  theorem facs_ok : (l : List (Expr × Expr)) → ∀ r ∈ facTrees l, resOK r
    | [], r, hr => by simp [facTrees] at hr
    | (b, e) :: t, r, hr => by
      unfold facTrees at hr
      rcases List.mem_cons.1 hr with rfl | hr
      · split
        · exact mathml_ok b
        · apply apply_ok _ (by decide)
          intro r hr
          simp at hr
          rcases hr with rfl | rfl
          · exact mathml_ok b
          · exact mathml_ok e
      · exact facs_ok t r hr
  theorem terms_ok : (l : List (Expr × Expr)) → ∀ r ∈ termTrees l, resOK r
    | [], r, hr => by simp [termTrees] at hr
    | (k, v) :: t, r, hr => by
      unfold termTrees at hr
      rcases List.mem_cons.1 hr with rfl | hr
      · split
        · exact mathml_ok k
        · split
          · rename_i kc kfs
            split
            · apply apply_ok _ (by decide)
              intro r hr
              simp only [List.mem_cons] at hr
              rcases hr with rfl | hr
              · exact mathml_ok v
              · exact facs_ok kfs r hr
            · simp [resOK]
          · rename_i b e
            apply apply_ok _ (by decide)
            intro r hr
            simp at hr
            rcases hr with rfl | rfl
            · exact mathml_ok v
            · apply apply_ok _ (by decide)
              intro r hr
              simp at hr
              rcases hr with rfl | rfl
              · exact mathml_ok b
              · exact mathml_ok e
          · apply apply_ok _ (by decide)
            intro r hr
            simp at hr
            rcases hr with rfl | rfl
            · exact mathml_ok v
            · exact mathml_ok k
      · exact terms_ok t r hr
end

/-- **mathml_wellformed**: whatever expression the MathML model prints, the text is a well-formed XML element
(symbol and function-symbol names may contain any character: they are escaped) -/
theorem mathml_wellformed (e : Expr) (t : XmlTree) (h : mathmlTree e = .ok t) : WellFormedXml (ser t) := by
  have := mathml_ok e
  rw [h] at this
  cases t with
  | text s => exact absurd this (by simp [resOK])
  | elem n as kids => exact ser_wellformed n as kids this

/-- non-vacuity: `2*x**2 + sin(a<b)` with a symbol whose name contains markup -/
def ex1 : Expr :=
  add (int 0) [(pow (sym "x") (int 2), int 2), (app "Sin" [sym "a<b"], int 1)]

def isOk : MRes → Bool
  | .ok _ => true
  | _ => false

example : ∃ t, mathmlTree ex1 = .ok t ∧ WellFormedXml (ser t) := by
  have hk : isOk (mathmlTree ex1) = true := by decide +kernel
  cases h : mathmlTree ex1 with
  | ok t => exact ⟨t, rfl, mathml_wellformed ex1 t h⟩
  | throws => rw [h] at hk; simp [isOk] at hk
  | skip => rw [h] at hk; simp [isOk] at hk

example : (match mathmlTree ex1 with
    | .ok t => serStr t
    | _ => "") =
  "<apply><plus/><apply><times/><cn type=\"integer\">2</cn><apply><power/><ci>x</ci><cn type=\"integer\">2</cn></apply></apply><apply><sin/><ci>a&lt;b</ci></apply></apply>" := by
  decide +kernel

/-- the code before the fix wrote the name unescaped: `<ci>a<b</ci>` is rejected by the XML reader, the escaped
text is read back to the same tree -/
theorem unescaped_witness :
    parseXml "<ci>a<b</ci>" = none ∧
    (match parseXml "<ci>a&lt;b</ci>" with
      | some (.elem "ci" [] [.text s]) => s == "a<b"
      | _ => false) = true := by decide +kernel

/-! ### LaTeX groups -/

mutual
  theorem texCheck_ser : (t : TexTree) → ∀ (rest : List TexTok) (stk : List Open),
      texCheck (serTex t ++ rest) stk = texCheck rest stk
    | .raw, rest, stk => by simp [serTex, texCheck]
    | .group kids, rest, stk => by
      simp only [serTex, List.cons_append, List.append_assoc, texCheck]
      rw [texCheck_sers kids]
      simp [texCheck]
    | .leftRight kids, rest, stk => by
      simp only [serTex, List.cons_append, List.append_assoc, texCheck]
      rw [texCheck_sers kids]
      simp [texCheck]
    | .env n kids, rest, stk => by
      simp only [serTex, List.cons_append, List.append_assoc, texCheck]
      rw [texCheck_sers kids]
      simp [texCheck]
  theorem texCheck_sers : (ks : List TexTree) → ∀ (rest : List TexTok) (stk : List Open),
      texCheck (serTexs ks ++ rest) stk = texCheck rest stk
    | [], rest, stk => by simp [serTexs]
    | k :: t, rest, stk => by
      simp only [serTexs, List.append_assoc]
      rw [texCheck_ser k, texCheck_sers t]
end

/-- **latex_balanced**: every serialised LaTeX tree has balanced `{ }` groups, matched `\left`/`\right` and matched
environments — it is accepted by the matcher the driver runs on the real output of `latex(e)` -/
theorem latex_balanced (t : TexTree) : texCheck (serTex t) [] = true := by
  have := texCheck_ser t [] []
  simpa [texCheck] using this

example : texCheck (serTex (.group [.raw, .leftRight [.env "cases" [.raw, .group []]], .raw])) [] = true :=
  latex_balanced _

/-- the matcher rejects unbalanced texts and accepts what `latex` prints for `\frac{x}{\left(y + 1\right)^{2}}` -/
theorem texCheck_examples :
    texBalanced "\\frac{x}{\\left(y + 1\\right)^{2}}" = true ∧
    texBalanced "\\frac{x}{\\left(y + 1^{2}}" = false ∧
    texBalanced "\\begin{cases} x & \\text{for}\\: y \\end{cases}" = true ∧
    texBalanced "a \\} b" = true ∧ texBalanced "a } b" = false := by decide +kernel

end SymVerif.C44
