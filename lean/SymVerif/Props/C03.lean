/-
C03 — every expression the arithmetic API returns is in canonical form.

Model: SymVerif/Model/Arith.lean (+ ArithNum.lean); `Expr.canon` mirrors the library's
`is_canonical` functions, `inv = canon ∧ strong` is its inductive strengthening (see the comment at
`factorOK` in the model: the library's own invariant is not inductive).

Proved here, for all inputs and all recursion fuel (no hypothesis left open):
  * Add side: `addE_inv`, `addN_inv` (hence `addE_canon`, `addN_canon`); the loop invariants
    `addDictAddTerm_ok`, `addMergeLoop_ok`, `coefDictAddTerm_ok` (Lemmas/C03Add.lean) and
    `Mul::from_dict` (`mulFromDict_inv`).
  * Mul / Pow side: the induction step of every one of the 15 mutually recursive functions
    (`step_*` in Lemmas/C03Mul[B-F].lean), i.e. the loop invariants of `dict_add_term_new`,
    `power_num`, `rpowrat` and `pow`, assembled by induction on the fuel (`spec_all`, `spec`).
    Two auxiliary facts about the model are proved separately and plugged in:
      `radShape`   (Lemmas/C03Shape.lean) a Number ** Rational evaluates to a Number, a Mul or a
                   Pow — by a second induction with the invariant "all keys/exponents are Numbers";
      `powerExpOK` (Lemmas/C03MulG/H.lean) the exponent `v*n` that power_num hands on is non-zero
                   and legal for its base — invariant numeric radicals are fixed points of rpowrat.
    The `…_partial` theorems are the versions relative to these two facts as hypotheses; the
    theorems without suffix are the unconditional ones.
  * `api_canon`: every value of every program over the modelled constructors is invariant, hence
    canonical.
-/
import SymVerif.Lemmas.C03Shape

namespace SymVerif.C03
open SymVerif SymVerif.Arith

/-! ### the contracts hold for every fuel -/

theorem spec_all (hshape : RadShape) (hexp : PowerExpOK) : ∀ n, Spec n
  | 0 => spec_zero
  | n + 1 =>
    have ih := spec_all hshape hexp n
    { mulF := step_mulF ih
      mulOnto := step_mulOnto ih
      mulStep := step_mulStep ih
      datLoop := step_datLoop ih
      absorb := step_absorb ih
      mulInto := step_mulInto ih
      datNew := step_datNew hshape ih
      datFound := step_datFound hshape ih
      powNumRat := step_powNumRat ih
      powrat := step_powrat ih
      rpowrat := step_rpowrat ih
      powerNum := step_powerNum ih
      powerNumLoop := step_powerNumLoop hexp ih
      powF := step_powF ih
      powGeneric := step_powGeneric ih }

/-! ### Add (unconditional) -/

/-- `add(a, b)` re-establishes the invariant -/
theorem addE_inv {a b r : Expr} (ha : inv a = true) (hb : inv b = true)
    (h : addE a b = .ok r) : inv r = true := by
  unfold addE guard2 at h
  split at h
  · exact addCore_inv ha hb h
  · simp at h

/-- C03 for `add`: the result is canonical (`Add/Mul/Pow/Rational/Complex::is_canonical` hold on
every node) -/
theorem addE_canon {a b r : Expr} (ha : inv a = true) (hb : inv b = true)
    (h : addE a b = .ok r) : canon r = true := inv_canon (addE_inv ha hb h)

theorem exactList_iff : ∀ l : List Expr, exactList l = true ↔ ∀ a ∈ l, exact a = true
  | [] => by simp [exactList]
  | a :: t => by simp [exactList, exactList_iff t]

/-- `add(vec_basic)` re-establishes the invariant -/
theorem addN_inv {l : List Expr} {r : Expr} (hl : ∀ a ∈ l, inv a = true)
    (h : addN l = .ok r) : inv r = true := by
  unfold addN at h
  split at h
  · cases hs : addNLoop zero [] l with
    | error e => simp [hs, bind, Except.bind] at h
    | ok cd =>
      obtain ⟨c, d⟩ := cd
      simp [hs, bind, Except.bind] at h
      obtain ⟨hc, hd, h1⟩ := addNLoop_ok numOK_zero AddDictOK.nil (by intro p hp; simp at hp) hl hs
      exact addFromDict_inv hc hd h1 h
  · simp at h

theorem addN_canon {l : List Expr} {r : Expr} (hl : ∀ a ∈ l, inv a = true)
    (h : addN l = .ok r) : canon r = true := inv_canon (addN_inv hl h)

/-! ### Mul / Pow (relative to `RadShape` and `PowerExpOK`) -/

theorem okBase_of_exact_inv {a : Expr} (ha : inv a = true) (hx : exact a = true) :
    okBase a = true := by
  cases a <;> simp_all [okBase, exact]
  rename_i c fs
  have hc := inv_mul_coef ha
  have := hc.1
  cases c <;> simp_all [Expr.isNum, isExactNum, exact]

theorem mulEO_inv_partial (hshape : RadShape) (hexp : PowerExpOK) {rv : Bool} {a b r : Expr}
    (ha : inv a = true) (hb : inv b = true) (h : mulEO rv a b = .ok r) : inv r = true := by
  unfold mulEO guard2 at h
  split at h
  · exact (spec_all hshape hexp _).mulF rv a b r ha hb h
  · simp at h

theorem negEO_inv_partial (hshape : RadShape) (hexp : PowerExpOK) {rv : Bool} {a r : Expr}
    (ha : inv a = true) (h : negEO rv a = .ok r) : inv r = true :=
  mulEO_inv_partial hshape hexp numOK_minusOne.inv ha h

theorem subEO_inv_partial (hshape : RadShape) (hexp : PowerExpOK) {rv : Bool} {a b r : Expr}
    (ha : inv a = true) (hb : inv b = true) (h : subEO rv a b = .ok r) : inv r = true := by
  unfold subEO at h
  cases hm : mulEO rv minusOne b with
  | error e => simp [hm, bind, Except.bind] at h
  | ok nb =>
    simp [hm, bind, Except.bind] at h
    exact addE_inv ha (mulEO_inv_partial hshape hexp numOK_minusOne.inv hb hm) h

theorem powEO_inv_partial (hshape : RadShape) (hexp : PowerExpOK) {rv : Bool} {a b r : Expr}
    (ha : inv a = true) (hb : inv b = true) (h : powEO rv a b = .ok r) : inv r = true := by
  unfold powEO guard2 at h
  split at h
  · rename_i hx
    simp only [Bool.and_eq_true] at hx
    exact (spec_all hshape hexp _).powF rv a b r ha hb (okBase_of_exact_inv ha hx.1) h
  · simp at h

theorem divEO_inv_partial (hshape : RadShape) (hexp : PowerExpOK) {rv : Bool} {a b r : Expr}
    (ha : inv a = true) (hb : inv b = true) (h : divEO rv a b = .ok r) : inv r = true := by
  unfold divEO guard2 at h
  split at h
  · rename_i hx
    simp only [Bool.and_eq_true] at hx
    split at h
    · split at h
      · simp at h; subst h; exact numOK_nan.inv
      · simp at h; subst h; exact inv_infty0
    · cases hp : powF defaultFuel rv b minusOne with
      | error e => simp [hp, bind, Except.bind] at h
      | ok ib =>
        simp only [hp, bind, Except.bind] at h
        have hib := (spec_all hshape hexp _).powF rv b minusOne ib hb numOK_minusOne.inv
          (okBase_of_exact_inv hb hx.2) hp
        split at h
        · exact (spec_all hshape hexp _).mulF rv a ib r ha hib h
        · simp at h
  · simp at h

theorem sqrtEO_inv_partial (hshape : RadShape) (hexp : PowerExpOK) {rv : Bool} {x r : Expr}
    (hx : inv x = true) (h : sqrtEO rv x = .ok r) : inv r = true := by
  unfold sqrtEO at h
  cases hd : divEO rv one (.int 2) with
  | error e => simp [hd, bind, Except.bind] at h
  | ok hh =>
    simp [hd, bind, Except.bind] at h
    exact powEO_inv_partial hshape hexp hx
      (divEO_inv_partial hshape hexp numOK_one.inv (exOK_int 2).numOK.inv hd) h

theorem cbrtEO_inv_partial (hshape : RadShape) (hexp : PowerExpOK) {rv : Bool} {x r : Expr}
    (hx : inv x = true) (h : cbrtEO rv x = .ok r) : inv r = true := by
  unfold cbrtEO at h
  cases hd : divEO rv one (.int 3) with
  | error e => simp [hd, bind, Except.bind] at h
  | ok hh =>
    simp [hd, bind, Except.bind] at h
    exact powEO_inv_partial hshape hexp hx
      (divEO_inv_partial hshape hexp numOK_one.inv (exOK_int 3).numOK.inv hd) h

theorem mulNLoop_ok (hshape : RadShape) (hexp : PowerExpOK) (fuel : Nat) (rv : Bool) :
    ∀ (l : List Expr) (coef : Expr) (d : Dict) (c' : Expr) (d' : Dict), St coef d →
    (∀ a ∈ l, inv a = true) → mulNLoop fuel rv coef d l = .ok (c', d') → St c' d'
  | [], coef, d, c', d', hs, _, h => by
    simp [mulNLoop] at h
    obtain ⟨rfl, rfl⟩ := h
    exact hs
  | a :: r, coef, d, c', d', hs, hl, h => by
    have ha := hl a (by simp)
    have S := spec_all hshape hexp fuel
    simp only [mulNLoop] at h
    split at h
    · rename_i ac ad
      cases hm : numMul coef ac with
      | error e => simp [hm, bind, Except.bind] at h
      | ok c1 =>
        simp only [hm, bind, Except.bind] at h
        cases hdl : datLoop fuel rv c1 d (iterOrder rv ad) with
        | error e => simp [hdl] at h
        | ok cd =>
          obtain ⟨c2, d2⟩ := cd
          simp only [hdl] at h
          have s2 := S.datLoop rv c1 d (iterOrder rv ad) c2 d2
            ⟨numMul_ok hs.1 (inv_mul_coef ha) hm, hs.2⟩
            (fun p hp => pre_of_mulDict (inv_mul_dict ha) p (iterOrder_mem hp)) hdl
          exact mulNLoop_ok hshape hexp fuel rv r c2 d2 c' d' s2 (fun x hx => hl x (by simp [hx])) h
    · cases hm : mulStep fuel rv coef d a with
      | error e => simp [hm, bind, Except.bind] at h
      | ok cd =>
        obtain ⟨c2, d2⟩ := cd
        simp only [hm, bind, Except.bind] at h
        have s2 := S.mulStep rv coef d a c2 d2 hs ha hm
        exact mulNLoop_ok hshape hexp fuel rv r c2 d2 c' d' s2 (fun x hx => hl x (by simp [hx])) h

theorem mulNO_inv_partial (hshape : RadShape) (hexp : PowerExpOK) {rv : Bool} {l : List Expr}
    {r : Expr} (hl : ∀ a ∈ l, inv a = true) (h : mulNO rv l = .ok r) : inv r = true := by
  unfold mulNO at h
  split at h
  · cases hs : mulNLoop defaultFuel rv one [] l with
    | error e => simp [hs, bind, Except.bind] at h
    | ok cd =>
      obtain ⟨c, d⟩ := cd
      simp [hs, bind, Except.bind, pure, Except.pure] at h
      subst h
      have := mulNLoop_ok hshape hexp defaultFuel rv l one [] c d ⟨numOK_one, MulDictOK.nil⟩ hl hs
      exact mulFromDict_inv this.1 this.2
  · simp at h

/-! ### programs over the modelled API -/

/-- one call of the modelled API; operands are earlier values, addressed by index -/
inductive Op where
  | add (i j : Nat) | sub (i j : Nat) | mul (i j : Nat) | div (i j : Nat) | pow (i j : Nat)
  | neg (i : Nat) | sqrt (i : Nat) | cbrt (i : Nat)
  | addn (is : List Nat) | muln (is : List Nat)

def getE (env : List Expr) (i : Nat) : R Expr :=
  match env[i]? with
  | some e => .ok e
  | none => .error .unsupported

def getEs (env : List Expr) : List Nat → R (List Expr)
  | [] => .ok []
  | i :: is => do
    let e ← getE env i
    let es ← getEs env is
    pure (e :: es)

/-- execute one op (`rv`: the dictionary iteration order, see `iterOrder`) -/
def stepOp (rv : Bool) (env : List Expr) : Op → R Expr
  | .add i j => do let a ← getE env i; let b ← getE env j; addE a b
  | .sub i j => do let a ← getE env i; let b ← getE env j; subEO rv a b
  | .mul i j => do let a ← getE env i; let b ← getE env j; mulEO rv a b
  | .div i j => do let a ← getE env i; let b ← getE env j; divEO rv a b
  | .pow i j => do let a ← getE env i; let b ← getE env j; powEO rv a b
  | .neg i => do let a ← getE env i; negEO rv a
  | .sqrt i => do let a ← getE env i; sqrtEO rv a
  | .cbrt i => do let a ← getE env i; cbrtEO rv a
  | .addn is => do let l ← getEs env is; addN l
  | .muln is => do let l ← getEs env is; mulNO rv l

/-- run a program; every result is appended to the environment and may be used by later ops -/
def runProg (rv : Bool) : List Expr → List Op → R (List Expr)
  | env, [] => .ok env
  | env, o :: os => do
    let r ← stepOp rv env o
    runProg rv (env ++ [r]) os

theorem getE_inv {env : List Expr} {i : Nat} {e : Expr} (henv : ∀ x ∈ env, inv x = true)
    (h : getE env i = .ok e) : inv e = true := by
  unfold getE at h
  split at h
  · rename_i x hx
    simp at h; subst h
    exact henv _ (List.mem_of_getElem? hx)
  · simp at h

theorem getEs_inv {env : List Expr} (henv : ∀ x ∈ env, inv x = true) :
    ∀ (is : List Nat) (l : List Expr), getEs env is = .ok l → ∀ a ∈ l, inv a = true
  | [], l, h => by simp [getEs] at h; subst h; simp
  | i :: is, l, h => by
    simp only [getEs, bind, Except.bind] at h
    cases h1 : getE env i with
    | error e => simp [h1] at h
    | ok e =>
      simp only [h1] at h
      cases h2 : getEs env is with
      | error e => simp [h2] at h
      | ok es =>
        simp [h2, pure, Except.pure] at h
        subst h
        intro a ha
        rcases List.mem_cons.mp ha with rfl | ha
        · exact getE_inv henv h1
        · exact getEs_inv henv is es h2 a ha

theorem stepOp_inv_partial (hshape : RadShape) (hexp : PowerExpOK) {rv : Bool} {env : List Expr}
    {o : Op} {r : Expr} (henv : ∀ x ∈ env, inv x = true) (h : stepOp rv env o = .ok r) :
    inv r = true := by
  have two : ∀ (i j : Nat) (f : Expr → Expr → R Expr),
      (∀ a b r, inv a = true → inv b = true → f a b = .ok r → inv r = true) →
      (do let a ← getE env i; let b ← getE env j; f a b) = .ok r → inv r = true := by
    intro i j f hf h
    simp only [bind, Except.bind] at h
    cases h1 : getE env i with
    | error e => simp [h1] at h
    | ok a =>
      simp only [h1] at h
      cases h2 : getE env j with
      | error e => simp [h2] at h
      | ok b =>
        simp only [h2] at h
        exact hf a b r (getE_inv henv h1) (getE_inv henv h2) h
  have onearg : ∀ (i : Nat) (f : Expr → R Expr),
      (∀ a r, inv a = true → f a = .ok r → inv r = true) →
      (do let a ← getE env i; f a) = .ok r → inv r = true := by
    intro i f hf h
    simp only [bind, Except.bind] at h
    cases h1 : getE env i with
    | error e => simp [h1] at h
    | ok a =>
      simp only [h1] at h
      exact hf a r (getE_inv henv h1) h
  cases o with
  | add i j => exact two i j addE (fun _ _ _ ha hb h => addE_inv ha hb h) h
  | sub i j => exact two i j (subEO rv) (fun _ _ _ ha hb h => subEO_inv_partial hshape hexp ha hb h) h
  | mul i j => exact two i j (mulEO rv) (fun _ _ _ ha hb h => mulEO_inv_partial hshape hexp ha hb h) h
  | div i j => exact two i j (divEO rv) (fun _ _ _ ha hb h => divEO_inv_partial hshape hexp ha hb h) h
  | pow i j => exact two i j (powEO rv) (fun _ _ _ ha hb h => powEO_inv_partial hshape hexp ha hb h) h
  | neg i => exact onearg i (negEO rv) (fun _ _ ha h => negEO_inv_partial hshape hexp ha h) h
  | sqrt i => exact onearg i (sqrtEO rv) (fun _ _ ha h => sqrtEO_inv_partial hshape hexp ha h) h
  | cbrt i => exact onearg i (cbrtEO rv) (fun _ _ ha h => cbrtEO_inv_partial hshape hexp ha h) h
  | addn is =>
    simp only [stepOp, bind, Except.bind] at h
    cases h1 : getEs env is with
    | error e => simp [h1] at h
    | ok l =>
      simp only [h1] at h
      exact addN_inv (getEs_inv henv is l h1) h
  | muln is =>
    simp only [stepOp, bind, Except.bind] at h
    cases h1 : getEs env is with
    | error e => simp [h1] at h
    | ok l =>
      simp only [h1] at h
      exact mulNO_inv_partial hshape hexp (getEs_inv henv is l h1) h

/-- C03 at program level: every intermediate and final value of every program over the modelled
constructors satisfies the invariant, hence the library's `is_canonical` on every node -/
theorem api_canon_partial (hshape : RadShape) (hexp : PowerExpOK) (rv : Bool) :
    ∀ (ops : List Op) (env env' : List Expr), (∀ x ∈ env, inv x = true) →
      runProg rv env ops = .ok env' → ∀ x ∈ env', inv x = true ∧ canon x = true
  | [], env, env', henv, h => by
    simp [runProg] at h; subst h
    exact fun x hx => ⟨henv x hx, inv_canon (henv x hx)⟩
  | o :: os, env, env', henv, h => by
    simp only [runProg, bind, Except.bind] at h
    cases h1 : stepOp rv env o with
    | error e => simp [h1] at h
    | ok r =>
      simp only [h1] at h
      have hr := stepOp_inv_partial hshape hexp henv h1
      refine api_canon_partial hshape hexp rv os (env ++ [r]) env' ?_ h
      intro x hx
      rcases List.mem_append.mp hx with hx | hx
      · exact henv x hx
      · simp at hx; subst hx; exact hr

/-- the same for programs over `add` / `add(vec)` only: no hypothesis -/
def addOnly : Op → Bool
  | .add _ _ | .addn _ => true
  | _ => false

theorem stepOp_inv_add {rv : Bool} {env : List Expr} {o : Op} {r : Expr} (ho : addOnly o = true)
    (henv : ∀ x ∈ env, inv x = true) (h : stepOp rv env o = .ok r) : inv r = true := by
  cases o <;> simp [addOnly] at ho
  · rename_i i j
    simp only [stepOp, bind, Except.bind] at h
    cases h1 : getE env i with
    | error e => simp [h1] at h
    | ok a =>
      simp only [h1] at h
      cases h2 : getE env j with
      | error e => simp [h2] at h
      | ok b =>
        simp only [h2] at h
        exact addE_inv (getE_inv henv h1) (getE_inv henv h2) h
  · rename_i is
    simp only [stepOp, bind, Except.bind] at h
    cases h1 : getEs env is with
    | error e => simp [h1] at h
    | ok l =>
      simp only [h1] at h
      exact addN_inv (getEs_inv henv is l h1) h

theorem api_canon_add (rv : Bool) :
    ∀ (ops : List Op) (env env' : List Expr), (∀ o ∈ ops, addOnly o = true) →
      (∀ x ∈ env, inv x = true) → runProg rv env ops = .ok env' →
      ∀ x ∈ env', inv x = true ∧ canon x = true
  | [], env, env', _, henv, h => by
    simp [runProg] at h; subst h
    exact fun x hx => ⟨henv x hx, inv_canon (henv x hx)⟩
  | o :: os, env, env', hops, henv, h => by
    simp only [runProg, bind, Except.bind] at h
    cases h1 : stepOp rv env o with
    | error e => simp [h1] at h
    | ok r =>
      simp only [h1] at h
      have hr := stepOp_inv_add (hops o (by simp)) henv h1
      refine api_canon_add rv os (env ++ [r]) env' (fun o' ho' => hops o' (by simp [ho'])) ?_ h
      intro x hx
      rcases List.mem_append.mp hx with hx | hx
      · exact henv x hx
      · simp at hx; subst hx; exact hr

/-! ### the unconditional statements -/

/-- the contracts of all mutually recursive constructors, for every fuel -/
theorem spec (n : Nat) : Spec n := spec_all radShape powerExpOK n

theorem mulEO_inv {rv : Bool} {a b r : Expr} (ha : inv a = true) (hb : inv b = true)
    (h : mulEO rv a b = .ok r) : inv r = true := mulEO_inv_partial radShape powerExpOK ha hb h

theorem negEO_inv {rv : Bool} {a r : Expr} (ha : inv a = true) (h : negEO rv a = .ok r) :
    inv r = true := negEO_inv_partial radShape powerExpOK ha h

theorem subEO_inv {rv : Bool} {a b r : Expr} (ha : inv a = true) (hb : inv b = true)
    (h : subEO rv a b = .ok r) : inv r = true := subEO_inv_partial radShape powerExpOK ha hb h

theorem powEO_inv {rv : Bool} {a b r : Expr} (ha : inv a = true) (hb : inv b = true)
    (h : powEO rv a b = .ok r) : inv r = true := powEO_inv_partial radShape powerExpOK ha hb h

theorem divEO_inv {rv : Bool} {a b r : Expr} (ha : inv a = true) (hb : inv b = true)
    (h : divEO rv a b = .ok r) : inv r = true := divEO_inv_partial radShape powerExpOK ha hb h

theorem sqrtEO_inv {rv : Bool} {x r : Expr} (hx : inv x = true) (h : sqrtEO rv x = .ok r) :
    inv r = true := sqrtEO_inv_partial radShape powerExpOK hx h

theorem cbrtEO_inv {rv : Bool} {x r : Expr} (hx : inv x = true) (h : cbrtEO rv x = .ok r) :
    inv r = true := cbrtEO_inv_partial radShape powerExpOK hx h

theorem mulNO_inv {rv : Bool} {l : List Expr} {r : Expr} (hl : ∀ a ∈ l, inv a = true)
    (h : mulNO rv l = .ok r) : inv r = true := mulNO_inv_partial radShape powerExpOK hl h

/-- C03 for `mul`, `pow`, … (ascending dictionary order, the one the driver prints): canonical results -/
theorem mulE_canon {a b r : Expr} (ha : inv a = true) (hb : inv b = true) (h : mulE a b = .ok r) :
    canon r = true := inv_canon (mulEO_inv ha hb h)

theorem powE_canon {a b r : Expr} (ha : inv a = true) (hb : inv b = true) (h : powE a b = .ok r) :
    canon r = true := inv_canon (powEO_inv ha hb h)

theorem divE_canon {a b r : Expr} (ha : inv a = true) (hb : inv b = true) (h : divE a b = .ok r) :
    canon r = true := inv_canon (divEO_inv ha hb h)

theorem subE_canon {a b r : Expr} (ha : inv a = true) (hb : inv b = true) (h : subE a b = .ok r) :
    canon r = true := inv_canon (subEO_inv ha hb h)

theorem negE_canon {a r : Expr} (ha : inv a = true) (h : negE a = .ok r) : canon r = true :=
  inv_canon (negEO_inv ha h)

theorem sqrtE_canon {x r : Expr} (hx : inv x = true) (h : sqrtE x = .ok r) : canon r = true :=
  inv_canon (sqrtEO_inv hx h)

theorem mulN_canon {l : List Expr} {r : Expr} (hl : ∀ a ∈ l, inv a = true) (h : mulN l = .ok r) :
    canon r = true := inv_canon (mulNO_inv hl h)

/-- the unconditional program-level statement -/
def C03_full : Prop :=
  ∀ (rv : Bool) (ops : List Op) (env env' : List Expr), (∀ x ∈ env, inv x = true) →
    runProg rv env ops = .ok env' → ∀ x ∈ env', inv x = true ∧ canon x = true

/-- C03 at program level, unconditionally: every intermediate and final value of every program over
add/sub/neg/mul/div/pow/sqrt/cbrt/add(vec)/mul(vec) satisfies the invariant and is canonical -/
theorem api_canon : C03_full :=
  fun rv ops env env' henv hrun => api_canon_partial radShape powerExpOK rv ops env env' henv hrun

/-! ### non-vacuity: the hypotheses hold and the functions succeed on concrete values -/

section Examples
private def x : Expr := .sym "x"
private def y : Expr := .sym "y"
private def twoX : Expr := .mul (.int 2) [(x, .int 1)]
private def sqrt2 : Expr := .pow (.int 2) (.rat 1 2)
private def xPlusY : Expr := .add (.int 0) [(x, .int 1), (y, .int 1)]

-- addE_inv / addE_canon: x + x = 2*x, (x + y) + 2*x = 3*x + y
example : inv x = true ∧ inv twoX = true ∧ inv xPlusY = true ∧ inv sqrt2 = true := by decide
example : (addE x x).toOption.map key = some (key twoX) := by decide
example : (addE xPlusY twoX).toOption.map key
    = some (key (.add (.int 0) [(x, .int 3), (y, .int 1)])) := by decide
example : (addN [x, y, x, .int 5]).toOption.map key
    = some (key (.add (.int 5) [(x, .int 2), (y, .int 1)])) := by decide
-- the Mul / Pow conclusions on concrete radicals: 2**(1/2) * 2**(1/2) = 2, (2*x)**(1/2), 8**(2/3) = 4
example : (mulE sqrt2 sqrt2).toOption.map key = some (key (.int 2)) := by decide
example : ((powE twoX (.rat 1 2)).toOption.map inv) = some true := by decide
example : (powE (.int 8) (.rat 2 3)).toOption.map key = some (key (.int 4)) := by decide
example : ((sqrtE (.int (-8))).toOption.map inv) = some true := by decide
-- a program: v2 = x + y, v3 = v2 * v2, v4 = sqrt v3, v5 = v4 / x
example : ((runProg false [x, y] [.add 0 1, .mul 2 2, .sqrt 3, .div 4 0]).toOption.map
    (fun env => env.all inv)) = some true := by decide

/-- `Mul::is_canonical` / `Pow::is_canonical` are not inductive: a Mul that passes the library's
check is turned into a Pow that fails it (it never arises from the constructors; `strong` excludes
it) -/
example : canon (.mul (.int 3) [(.int 2, .rat 3 2)]) = true
    ∧ strong (.mul (.int 3) [(.int 2, .rat 3 2)]) = false
    ∧ (mulE (.rat 1 3) (.mul (.int 3) [(.int 2, .rat 3 2)])).toOption.map key
        = some (key (.pow (.int 2) (.rat 3 2)))
    ∧ canon (.pow (.int 2) (.rat 3 2)) = false := by decide
end Examples

end SymVerif.C03
