/-
C02 — expression ordering is a strict total order consistent with eq.

Model: `SymVerif.Expr.cmp` (`Basic::__cmp__`), `beq'` (`eq`), `keyLess` (`RCPBasicKeyLess`), `sortKeys`
(insertion into a `set_basic`) in `Model/ExprHash.lean`; the driver `Drv/C02.lean` runs exactly these
functions and is compared with the real `__cmp__` / `RCPBasicKeyLess` / `set_basic` iteration order.

The unrestricted statement is FALSE on the code as it is:
  D3  `RealDouble::compare` / `ComplexDouble::compare` on NaN: `cmp(nan, 1.0) = cmp(1.0, nan) = cmp(nan, nan) = 1`
  D1  (from C01) `f(0.0) + y` and `f(-0.0) + y` compare 0 but are not `eq`
Both are proved on witnesses below; the order axioms are proved for well-formed expressions without NaN
doubles and without the double `-0.0`.
-/
import SymVerif.Lemmas.C02Container

namespace SymVerif.C02
open SymVerif SymVerif.Expr

/-! ### the defects, on witnesses -/

def nanBits : UInt64 := 0x7ff8000000000000
def oneBits : UInt64 := 0x3ff0000000000000

/-- D3: a NaN double compares greater than everything, in both directions, and is not equal to itself. -/
theorem d3_witness :
    cmp (dbl nanBits) (dbl oneBits) = 1 ∧ cmp (dbl oneBits) (dbl nanBits) = 1 ∧
    cmp (dbl nanBits) (dbl nanBits) = 1 ∧
    cmp (cdbl nanBits 0) (cdbl oneBits 0) = 1 ∧ cmp (cdbl oneBits 0) (cdbl nanBits 0) = 1 := by decide +kernel

def fz : Expr := add (int 0) [(sym "y", int 1), (fsym "f" [dbl 0], int 1)]
def fnz : Expr := add (int 0) [(sym "y", int 1), (fsym "f" [dbl negZeroBits], int 1)]

/-- D1 seen from C02: `f(0.0) + y` and `f(-0.0) + y` (both well-formed) compare 0 although `eq` is false —
as long as the source has the unfixed `RealDouble::__hash__` (reported by the translator). -/
theorem d1_witness : TC.dblHashZeroNorm = false →
    WF fz = true ∧ WF fnz = true ∧ cmp fz fnz = 0 ∧ beq' fz fnz = false := by decide +kernel

/-- C02 as stated, for all well-formed objects -/
def C02_full : Prop :=
  ∀ a b : Expr, WF a = true → WF b = true → (cmp a b = - cmp b a) ∧ (cmp a b = 0 ↔ beq' a b = true)

theorem C02_full_false : ¬ C02_full := fun h => by
  have := (h (dbl nanBits) (dbl oneBits) (by decide +kernel) (by decide +kernel)).1
  rw [d3_witness.1, d3_witness.2.1] at this
  cases this

/-! ### the order axioms -/

/-- `__cmp__` returns only -1, 0, 1 (for all well-formed operands, NaN and `-0.0` included). -/
theorem cmp_range {a b : Expr} (wa : WF a = true) (wb : WF b = true) :
    cmp a b = -1 ∨ cmp a b = 0 ∨ cmp a b = 1 := cmp_rng a b wa wb

example : cmp (mul (int 2) [(sym "x", int 1)]) (dbl nanBits) = -1 ∨ cmp (mul (int 2) [(sym "x", int 1)]) (dbl nanBits) = 0
    ∨ cmp (mul (int 2) [(sym "x", int 1)]) (dbl nanBits) = 1 := cmp_range (by decide +kernel) (by decide +kernel)

section
variable {a b c : Expr}
  (wa : WF a = true) (na : noNaN a = true) (za : noSignedZero a = true)
  (wb : WF b = true) (nb : noNaN b = true) (zb : noSignedZero b = true)
  (wc : WF c = true) (nc : noNaN c = true) (zc : noSignedZero c = true)
include wa na za wb nb zb

/-- `__cmp__` returns 0 exactly when the operands are `eq`. -/
theorem cmp_eq_iff_partial : cmp a b = 0 ↔ beq' a b = true :=
  cmp_eq_zero_iff ⟨wa, na, za⟩ ⟨wb, nb, zb⟩

/-- antisymmetry -/
theorem cmp_antisymm_partial : cmp a b = - cmp b a := (J_all a b ⟨wa, na, za⟩ ⟨wb, nb, zb⟩).anti

/-- `eq` (equivalently `cmp = 0`) holds only between identical model objects -/
theorem cmp_zero_imp_identical (h : cmp a b = 0) : a = b := (J_all a b ⟨wa, na, za⟩ ⟨wb, nb, zb⟩).z h

include wc nc zc

/-- transitivity of the strict part -/
theorem cmp_trans_partial (h1 : cmp a b = -1) (h2 : cmp b c = -1) : cmp a c = -1 :=
  T_all a b c ⟨wa, na, za⟩ ⟨wb, nb, zb⟩ ⟨wc, nc, zc⟩ h1 h2

/-- transitivity of the non-strict order -/
theorem cmp_trans_le_partial (h1 : cmp a b ≤ 0) (h2 : cmp b c ≤ 0) : cmp a c ≤ 0 := by
  have oa : OK a := ⟨wa, na, za⟩
  have ob : OK b := ⟨wb, nb, zb⟩
  have oc : OK c := ⟨wc, nc, zc⟩
  rcases cmp_rng a b wa wb with r1 | r1 | r1
  · rcases cmp_rng b c wb wc with r2 | r2 | r2
    · have := T_all a b c oa ob oc r1 r2; omega
    · have := (J_all b c ob oc).z r2; subst this; omega
    · omega
  · have := (J_all a b oa ob).z r1; subst this; exact h2
  · omega

/-- `RCPBasicKeyLess` is transitive … -/
theorem keyLess_trans_partial (h1 : keyLess a b = true) (h2 : keyLess b c = true) : keyLess a c = true :=
  keyLess_trans ⟨wa, na, za⟩ ⟨wb, nb, zb⟩ ⟨wc, nc, zc⟩ h1 h2
end

example : cmp (add (int 1) [(sym "x", int 2)]) (add (int 1) [(sym "x", int 3)]) = -1 ∧
    cmp (add (int 1) [(sym "x", int 3)]) (pow (sym "x") (int 2)) = -1 ∧
    cmp (add (int 1) [(sym "x", int 2)]) (pow (sym "x") (int 2)) = -1 := by
  have h1 : cmp (add (int 1) [(sym "x", int 2)]) (add (int 1) [(sym "x", int 3)]) = -1 := by decide +kernel
  have h2 : cmp (add (int 1) [(sym "x", int 3)]) (pow (sym "x") (int 2)) = -1 := by decide +kernel
  exact ⟨h1, h2, cmp_trans_partial (by decide +kernel) (by decide +kernel) (by decide +kernel) (by decide +kernel)
    (by decide +kernel) (by decide +kernel) (by decide +kernel) (by decide +kernel) (by decide +kernel) h1 h2⟩

/-! non-vacuity of the section's theorems: concrete well-formed operands (a product with two factors, a sum,
a function application, a finite set), hypotheses discharged by evaluation -/

def exMul : Expr := mul (int 2) [(sym "x", int 1), (sym "y", rat 1 2)]
def exAdd : Expr := add (rat 1 2) [(sym "x", int 3), (app "Sin" [sym "y"], int 1)]
def exSet : Expr := app "FiniteSet" [int 1, sym "x"]

example : cmp exMul exMul = 0 ↔ beq' exMul exMul = true :=
  cmp_eq_iff_partial (by decide +kernel) (by decide +kernel) (by decide +kernel) (by decide +kernel)
    (by decide +kernel) (by decide +kernel)

example : cmp exMul exAdd = - cmp exAdd exMul :=
  cmp_antisymm_partial (by decide +kernel) (by decide +kernel) (by decide +kernel) (by decide +kernel)
    (by decide +kernel) (by decide +kernel)

example : cmp exAdd exSet ≤ 0 :=
  cmp_trans_le_partial (b := exAdd) (by decide +kernel) (by decide +kernel) (by decide +kernel)
    (by decide +kernel) (by decide +kernel) (by decide +kernel) (by decide +kernel) (by decide +kernel)
    (by decide +kernel) (by decide +kernel) (by decide +kernel)

example : keyLess exSet exMul = true → keyLess exMul exAdd = true → keyLess exSet exAdd = true :=
  keyLess_trans_partial (by decide +kernel) (by decide +kernel) (by decide +kernel) (by decide +kernel)
    (by decide +kernel) (by decide +kernel) (by decide +kernel) (by decide +kernel) (by decide +kernel)

/-- … irreflexive, asymmetric, and two keys are incomparable exactly when they are `eq`: a strict weak
order whose equivalence is `eq` (what `std::set` / `std::map` need to behave as sets keyed by equality). -/
theorem keyLess_irrefl_partial {a : Expr} (wa : WF a = true) (na : noNaN a = true) (za : noSignedZero a = true) :
    keyLess a a = false := keyLess_irrefl ⟨wa, na, za⟩

theorem keyLess_asymm_partial {a b : Expr}
    (wa : WF a = true) (na : noNaN a = true) (za : noSignedZero a = true)
    (wb : WF b = true) (nb : noNaN b = true) (zb : noSignedZero b = true)
    (h : keyLess a b = true) : keyLess b a = false := by
  cases hb : keyLess b a
  · rfl
  · exact (keyLess_asymm (J_all a b ⟨wa, na, za⟩ ⟨wb, nb, zb⟩) h hb).elim

example : keyLess (pow (sym "x") (int 2)) (pow (sym "x") (int 2)) = false :=
  keyLess_irrefl_partial (by decide +kernel) (by decide +kernel) (by decide +kernel)

theorem keyLess_incomparable_iff_eq_partial {a b : Expr}
    (wa : WF a = true) (na : noNaN a = true) (za : noSignedZero a = true)
    (wb : WF b = true) (nb : noNaN b = true) (zb : noSignedZero b = true) :
    (keyLess a b = false ∧ keyLess b a = false) ↔ beq' a b = true := by
  constructor
  · rintro ⟨h1, h2⟩
    have := keyLess_total ⟨wa, na, za⟩ ⟨wb, nb, zb⟩ h1 h2
    subst this
    exact Expr.beq'_refl ⟨wa, na, za⟩
  · intro h
    have := (J_all a b ⟨wa, na, za⟩ ⟨wb, nb, zb⟩).eq1 h
    subst this
    exact ⟨keyLess_irrefl ⟨wa, na, za⟩, keyLess_irrefl ⟨wa, na, za⟩⟩

example : (keyLess exSet exMul = false ∧ keyLess exMul exSet = false) ↔ beq' exSet exMul = true :=
  keyLess_incomparable_iff_eq_partial (by decide +kernel) (by decide +kernel) (by decide +kernel)
    (by decide +kernel) (by decide +kernel) (by decide +kernel)

/-- An ordered container (`set_basic`; the model of insertion is `sortKeys`) built from any permutation of
the same keys is the same sequence, strictly sorted, with exactly the inserted keys as members. -/
theorem insertSorted_perm_invariant {l1 l2 : List Expr}
    (ol : ∀ x ∈ l1, WF x = true ∧ noNaN x = true ∧ noSignedZero x = true) (h : l1.Perm l2) :
    sortKeys l1 = sortKeys l2 := sortKeys_perm_invariant ol h

theorem insertSorted_sorted {l : List Expr} (ol : ∀ x ∈ l, WF x = true ∧ noNaN x = true ∧ noSignedZero x = true) :
    List.Pairwise (fun a b => keyLess a b = true) (sortKeys l) ∧ ∀ y, y ∈ sortKeys l ↔ y ∈ l :=
  ⟨sortKeys_sorted ol, mem_sortKeys ol⟩

example : sortKeys [sym "x", int 2, pow (sym "x") (int 2)] = sortKeys [pow (sym "x") (int 2), sym "x", int 2] :=
  insertSorted_perm_invariant (by decide +kernel)
    ((List.Perm.cons _ (List.Perm.swap _ _ _)).trans (List.Perm.swap _ _ _))

end SymVerif.C02
