import SymVerif.Model.MpSpec
import SymVerif.Model.MpBoost
import SymVerif.Lemmas.C43Div
import SymVerif.Lemmas.C43Gcd
import SymVerif.Lemmas.C43GcdNorm
import SymVerif.Lemmas.C43Root
import SymVerif.Lemmas.C43PP
import SymVerif.Lemmas.C43Powm
import SymVerif.Lemmas.C43Seq
import SymVerif.Lemmas.C43Jacobi
import SymVerif.Lemmas.C43Legendre
import SymVerif.Lemmas.C43Bin
/-!
# C43 — results do not depend on the integer backend

`MpSpec`  : executable specification of the backend-neutral `mp_*` interface (GMP's documented meaning).
`MpBoost` : the hand-written Boost.Multiprecision implementations of `mp_boost.cpp` / `mp_class.h`,
            mirrored loop by loop (with the repairs D1–D8 of docs/C43.md applied; `MpBoost.Orig` keeps
            the unrepaired variants).

Headline theorems: `MpBoost.f = MpSpec.f` for the division families, extended gcd (Bézout identity and
GMP's cofactor normalisation),
modular inverse, modular powers, integer roots (Newton iteration), square roots, perfect squares and
perfect powers, factorial / Fibonacci / Lucas / binomial, Jacobi / Legendre / Kronecker symbols (against
Mathlib's `jacobiSym`); refutations of the unrepaired code on concrete witnesses.
All statements are about the very functions the driver `Drv/C43.lean` evaluates.
-/
namespace SymVerif.C43
open SymVerif

/-! ## 1. floor / ceiling / truncated division -/

theorem fdiv_qr (a b : Int) (hb : b ≠ 0) :
    MpBoost.fdivQr a b = (MpSpec.fdivQ a b, MpSpec.fdivR a b) := boost_fdivQr_spec a b hb
theorem fdiv_q (a b : Int) (hb : b ≠ 0) : MpBoost.fdivQ a b = MpSpec.fdivQ a b := boost_fdivQ_spec a b hb
theorem fdiv_r (a b : Int) (hb : b ≠ 0) : MpBoost.fdivR a b = MpSpec.fdivR a b := boost_fdivR_spec a b hb
theorem cdiv_q (a b : Int) (hb : b ≠ 0) : MpBoost.cdivQ a b = MpSpec.cdivQ a b := boost_cdivQ_spec a b hb
theorem tdiv_qr (a b : Int) : MpBoost.tdivQr a b = (MpSpec.tdivQ a b, MpSpec.tdivR a b) := boost_tdivQr_spec a b

example : MpBoost.fdivQr (-5) 3 = (-2, 1) ∧ MpBoost.fdivQr 5 (-3) = (-2, -1) ∧
    MpBoost.fdivQr (-5) (-3) = (1, -2) ∧ MpBoost.fdivQr 5 3 = (1, 2) := by decide
example : MpBoost.cdivQ (-5) 3 = -1 ∧ MpBoost.cdivQ 5 (-3) = -1 ∧ MpBoost.cdivQ (-5) (-3) = 2 ∧
    MpBoost.cdivQ 5 3 = 2 := by decide

/-! ## 2. extended gcd and modular inverse -/

/-- `mp_gcdext`: the gcd is the non-negative gcd and `(s, t)` is a Bézout pair. -/
theorem gcdext_bezout (a b : Int) :
    (MpBoost.gcdext a b).1 = (Int.gcd a b : Int) ∧
    a * (MpBoost.gcdext a b).2.1 + b * (MpBoost.gcdext a b).2.2 = (MpBoost.gcdext a b).1 :=
  boost_gcdext_bezout a b

/-- the same for the specification (GMP's documented normalisation of the cofactors) -/
theorem gcdext_spec_bezout (a b : Int) :
    (MpSpec.gcdext a b).1 = (Int.gcd a b : Int) ∧
    a * (MpSpec.gcdext a b).2.1 + b * (MpSpec.gcdext a b).2.2 = (MpSpec.gcdext a b).1 :=
  spec_gcdext_bezout a b

/-- the cofactor `s` of `mp_gcdext` lies in the window GMP documents: `2|s| < |b|/g`, or `2|s| = |b|/g`
and `s` has the sign of `a` (loop invariants `|s_i||r_{i+1}| + |s_{i+1}||r_i| = |b|`, alternating signs, last
quotient `≥ 2`) -/
theorem gcdext_window (a b : Int) (hb : b ≠ 0) :
    Window (b.natAbs / Int.gcd a b) a (MpBoost.gcdext a b).2.1 := boost_window a b hb

/-- **`mp_gcdext` returns exactly the cofactors GMP documents** — the full statement, for all `a`, `b`
(on which e.g. the results of `gcd_ext` depend). -/
theorem gcdext (a b : Int) : MpBoost.gcdext a b = MpSpec.gcdext a b := boost_gcdext_full a b

example : MpBoost.gcdext 240 (-46) = (2, -9, -47) ∧ MpSpec.gcdext 240 (-46) = (2, -9, -47) := by
  constructor <;> decide +kernel

/-- `mp_invert` = specification: fails iff `gcd(a,m) ≠ 1`, else the inverse in `[0,|m|)`. -/
theorem invert (a m : Int) (hm : m ≠ 0) : MpBoost.invert a m = MpSpec.invert a m :=
  boost_invert_spec a m hm

/-- what the specification's `invert` means -/
theorem invert_meaning (a m r : Int) (hm : m ≠ 0) (h : MpSpec.invert a m = some r) :
    0 ≤ r ∧ r < (m.natAbs : Int) ∧ m ∣ (a * r - 1) := spec_invert_some a m r hm h

theorem invert_fails_iff (a m : Int) : MpSpec.invert a m = none ↔ Int.gcd a m ≠ 1 := spec_invert_none a m

example : MpBoost.invert 5 (-7) = some 3 ∧ MpBoost.invert 4 6 = none := by
  constructor <;> decide +kernel

/-! ## 3. integer roots -/

/-- Newton iteration of `positive_root`: from every starting guess `x0 ≥ 1` it stops at the floor root. -/
theorem newton_root (x0 i n : Nat) (hn : 2 ≤ n) (hi : 1 ≤ i) (hx0 : 1 ≤ x0) :
    IsRoot n i (MpBoost.positiveRootFrom x0 i n).1 ∧
    ((MpBoost.positiveRootFrom x0 i n).2 = true ↔ (MpBoost.positiveRootFrom x0 i n).1 ^ n = i) :=
  positiveRootFrom_spec x0 i n hn hi hx0

/-- the specification's bisection returns the floor root -/
theorem iroot_floor (x n : Nat) (hn : 1 ≤ n) : (MpSpec.iroot x n) ^ n ≤ x ∧ x < (MpSpec.iroot x n + 1) ^ n :=
  iroot_spec x n hn

/-- `mp_root` = specification, for all integers and all `n` (sign handling for odd `n`, `none` for
`n = 0` and even roots of negatives). -/
theorem root (i : Int) (n : Nat) : MpBoost.root i n = MpSpec.root i n := boost_root_spec i n

/-- repairing the starting guess (D8) changes no result -/
theorem root_repair_same (i n : Nat) (hn : 2 ≤ n) (hi : 1 ≤ i) :
    MpBoost.Orig.positiveRoot i n = MpBoost.positiveRoot i n := positiveRoot_orig_eq i n hn hi

theorem sqrt (i : Int) : MpBoost.sqrt i = MpSpec.sqrt i := boost_sqrt_spec i
theorem rootrem (i : Int) (n : Nat) : MpBoost.rootrem i n = MpSpec.rootrem i n := boost_rootrem_spec i n
theorem sqrtrem (i : Int) : MpBoost.sqrtrem i = MpSpec.sqrtrem i := boost_sqrtrem_spec i
theorem perfect_square (i : Int) : MpBoost.perfectSquare i = MpSpec.perfectSquare i :=
  boost_perfectSquare_spec i

example : MpBoost.root (-28) 3 = some (-3, false) ∧ MpBoost.root 1024 5 = some (4, true) ∧
    MpBoost.root (-4) 2 = none := by
  refine ⟨?_, ?_, ?_⟩ <;> decide +kernel


/-! ## 4. perfect powers -/

/-- what the specification's `perfectPower` means for `|i| ≥ 2`: `|i|` is a `k`-th power of a natural
number for some `k ≥ 2`, odd if `i` is negative -/
theorem perfect_power_meaning (i : Int) (hx : 2 ≤ i.natAbs) :
    MpSpec.perfectPower i = true ↔ ∃ k : Nat, 2 ≤ k ∧ (0 < i ∨ k % 2 = 1) ∧ ∃ a : Nat, a ^ k = i.natAbs :=
  spec_perfectPower_iff i hx

/-- `mp_perfect_power_p` = specification.  `PerfectPowerArg i` (decidable; every harness input satisfies
it) bounds the bit length by 10^6 — the prime exponents tried are then below 10^6, where the model's
primality test (Boost's Miller–Rabin, trusted) is replaced by provable trial division. -/
def PerfectPowerArg (i : Int) : Prop := i.natAbs.log2 < 1000000
instance (i : Int) : Decidable (PerfectPowerArg i) := by unfold PerfectPowerArg; infer_instance

theorem perfect_power (i : Int) (h : PerfectPowerArg i) :
    MpBoost.perfectPower i = some (MpSpec.perfectPower i) := boost_perfectPower_spec i h

example : PerfectPowerArg (-(7 ^ 9)) ∧ MpBoost.perfectPower (-(7 ^ 9)) = some true ∧
    MpBoost.perfectPower (-(2 ^ 10)) = some true ∧ MpBoost.perfectPower (-16) = some false := by
  refine ⟨by decide, ?_, ?_, ?_⟩ <;> decide +kernel

/-- `mp_probab_prime_p` = specification: the same primality test of `|i|` (Boost's Miller–Rabin is a
trusted primitive); the symengine-specific even-number shortcut is right -/
theorem probab_prime (i : Int) : MpBoost.probabPrime i = MpSpec.probabPrime i := boost_probabPrime_spec i

/-- trial division (the definition of primality used by the specification below 10^6) is primality -/
theorem trial_prime (n : Nat) : MpSpec.trialPrime n = true ↔ Nat.Prime n := trialPrime_iff n

/-! ## 5. modular powers -/

theorem powmod_meaning (b : Int) (e : Nat) (m : Int) (hm : m ≠ 0) : MpSpec.powModNat b e m = b ^ e % m :=
  spec_powModNat b e m hm

/-- `mp_powm` = specification for every modulus `m ≠ 0` (negative moduli, negative bases, and negative
exponents through the modular inverse). -/
theorem powm (b e m : Int) (hm : m ≠ 0) : MpBoost.powm b e m = MpSpec.powm b e m := boost_powm_spec b e m hm

example : MpBoost.powm (-8) 5 (-9) = some 1 ∧ MpBoost.powm 3 (-2) 7 = some 4 ∧ MpBoost.powm 2 (-1) 4 = none := by
  refine ⟨?_, ?_, ?_⟩ <;> decide +kernel

/-! ## 5b. factorial, Fibonacci and Lucas numbers -/

/-- `mp_fac_ui` loop = `n!` -/
theorem fac (n : Nat) : MpBoost.fac n = ((MpSpec.fac n : Nat) : Int) := boost_fac_spec n
/-- the recursive repeated squaring `two_by_two_matrix::pow` computes the matrix power -/
theorem matrix_pow (x : MpBoost.M22) (n : Nat) : x.pow n = mpow x n := M22.pow_eq x n
/-- `mp_fib_ui`, `mp_fib2_ui`, `mp_lucnum_ui`, `mp_lucnum2_ui` = the recurrences `F(n+2) = F(n) + F(n+1)`,
`L(n+2) = L(n) + L(n+1)` with `F(0)=0, F(1)=1, L(0)=2, L(1)=1` (and `F(-1) = 1`, `L(-1) = -1`) -/
theorem fib (n : Nat) : MpBoost.fib n = ((MpSpec.fib n : Nat) : Int) := boost_fib_spec n
theorem fib2 (n : Nat) : MpBoost.fib2 n = MpSpec.fib2 n := boost_fib2_spec n
theorem lucnum (n : Nat) : MpBoost.lucnum n = MpSpec.lucnum n := boost_lucnum_spec n
theorem lucnum2 (n : Nat) : MpBoost.lucnum2 n = some (MpSpec.lucnum2 n) := boost_lucnum2_spec n

example : MpBoost.fib 30 = 832040 ∧ MpBoost.lucnum2 10 = some (123, 76) ∧ MpBoost.fac 10 = 3628800 := by
  refine ⟨?_, ?_, ?_⟩ <;> decide +kernel

/-! ## 5c. Jacobi and Kronecker symbols -/

open NumberTheorySymbols in
/-- `unchecked_jacobi` (reduce, pull out twos, gcd test, quadratic reciprocity, recurse) computes Mathlib's
Jacobi symbol for every odd positive `n` -/
theorem unchecked_jacobi (a n : Int) (hn : 0 < n) (hodd : n % 2 = 1) :
    MpBoost.uncheckedJacobi a n = some J(a | n.toNat) := uncheckedJacobi_spec _ a n rfl hn hodd

open NumberTheorySymbols in
/-- the specification's `jacobi` is Mathlib's Jacobi symbol, with the Kronecker sign for negative `n` -/
theorem jacobi_meaning (a n : Int) (hodd : n % 2 = 1) :
    MpSpec.jacobi a n = some ((if n < 0 ∧ a < 0 then -1 else 1) * J(a | n.natAbs)) :=
  spec_jacobi_meaning a n hodd

/-- `mp_jacobi` = specification for all arguments (undefined for even `n` on both sides) -/
theorem jacobi (a n : Int) : MpBoost.jacobi a n = MpSpec.jacobi a n := boost_jacobi_spec a n

/-- `mp_kronecker` = specification for all arguments -/
theorem kronecker (a n : Int) : MpBoost.kronecker a n = some (MpSpec.kronecker a n) :=
  boost_kronecker_spec a n

example : MpBoost.jacobi 1001 9907 = some (-1) ∧ MpBoost.kronecker (-7) (-20) = some 1 ∧
    MpBoost.kronecker 3 8 = some (-1) := by
  refine ⟨?_, ?_, ?_⟩ <;> decide +kernel

/-- `mp_legendre` (Euler's criterion through `mp_powm`) = specification for every odd prime `p < 10^6` -/
theorem legendre (a p : Int) (h2 : 2 < p) (hlt : p < 1000000) (hp : Nat.Prime p.toNat) :
    MpBoost.legendre a p = MpSpec.legendre a p := boost_legendre_spec a p h2 hlt hp

example : MpBoost.legendre (-3) 7 = some 1 ∧ MpBoost.legendre 3 7 = some (-1) ∧ Nat.Prime (7 : Int).toNat := by
  refine ⟨by decide +kernel, by decide +kernel, ?_⟩
  show Nat.Prime 7
  exact (trialPrime_iff 7).mp (by decide)

/-! ## 5d. binomial coefficients, lowest set bit -/

/-- `mp_bin_ui` (multiply, then divide exactly, `k` times) = `n(n-1)⋯(n-k+1)/k!` for every integer `n` -/
theorem bin (n : Int) (k : Nat) : MpBoost.bin n k = MpSpec.bin n k := boost_bin_spec n k

/-- `mp_scan1` : the model of `find_lsb` of the magnitude is the specification's lowest set bit
(two's complement: negation does not move the lowest set bit) -/
theorem scan1 (i : Int) : MpBoost.scan1 i = MpSpec.scan1 i := rfl

example : MpBoost.bin (-5) 3 = -35 ∧ MpBoost.bin 10 4 = 210 ∧ MpBoost.scan1 (-8) = some 3 := by
  refine ⟨?_, ?_, ?_⟩ <;> decide +kernel

/-! ## 6. the unrepaired code differs from the specification (defects D1–D8 of docs/C43.md)

Each statement evaluates the model of the code *as it is* (`MpBoost.Orig`) next to the specification and
the repaired model on the minimal witness. -/

theorem orig_kronecker_zero_differs :     -- D1
    MpBoost.Orig.kronecker 1 0 = none ∧ MpSpec.kronecker 1 0 = 1 ∧ MpBoost.kronecker 1 0 = some 1 := by
  refine ⟨?_, ?_, ?_⟩ <;> decide +kernel
theorem orig_jacobi_negative_differs :    -- D2
    MpBoost.Orig.jacobi 2 (-3) = none ∧ MpSpec.jacobi 2 (-3) = some (-1) ∧ MpBoost.jacobi 2 (-3) = some (-1) := by
  refine ⟨?_, ?_, ?_⟩ <;> decide +kernel
theorem orig_probabPrime_negative_differs :   -- D3
    MpBoost.Orig.probabPrime (-7) = none ∧ MpBoost.Orig.probabPrime (-2) = some false ∧
    MpSpec.probabPrime (-2) = true ∧ MpSpec.probabPrime (-7) = true ∧ MpBoost.probabPrime (-7) = true := by
  refine ⟨?_, ?_, ?_, ?_, ?_⟩ <;> decide +kernel
theorem orig_gcdext_zero_differs :        -- D5
    MpBoost.Orig.gcdext 0 0 = (0, 1, 0) ∧ MpSpec.gcdext 0 0 = (0, 0, 0) ∧ MpBoost.gcdext 0 0 = (0, 0, 0) := by
  refine ⟨?_, ?_, ?_⟩ <;> decide +kernel
theorem orig_powm_negative_modulus_differs :  -- D6
    MpBoost.Orig.powm (-8) 1 (-5) = some (-8) ∧ MpSpec.powm (-8) 1 (-5) = some 2 ∧
    MpBoost.powm (-8) 1 (-5) = some 2 := by
  refine ⟨?_, ?_, ?_⟩ <;> decide +kernel
theorem orig_lucnum2_zero_differs :       -- D7
    MpBoost.Orig.lucnum2 0 = none ∧ MpSpec.lucnum2 0 = (2, -1) ∧ MpBoost.lucnum2 0 = some (2, -1) := by
  refine ⟨?_, ?_, ?_⟩ <;> decide +kernel
/-- D8: above 2^1024 the loop bound of the original `mp_perfect_power_p` is `INT_MAX` (model: `none`) -/
theorem orig_perfectPower_unbounded :
    MpBoost.Orig.perfectPower (2 ^ 1030 + 1) = none ∧ MpBoost.perfectPower (2 ^ 1030 + 1) = some false := by
  refine ⟨?_, ?_⟩ <;> decide +kernel

end SymVerif.C43
