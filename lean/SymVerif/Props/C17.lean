/-
C17  The parser implements conventional mathematical syntax.

Model: `Model/Parser.lean` (tokenizer specification, precedence-climbing grammar driven by the translated
`%left/%right` table, `parse_numeric`, `parse_implicit_mul`), `Model/ParserSem.lean` (meaning of a syntax tree and the
certificate checks the driver runs on the library's canonical result).

What is proved (names as registered in props/c17.py)

  tables      `numeric_base_decimal`, `table_conventional`, `grammar_shape`, `tokenizer_shape`, `funcs_conventional`,
              `constants_conventional`: `decide`/`rfl` over the tables the translator regenerates from parser.yy,
              parser.cpp and tokenizer.re on every run - they fail to check as soon as the source says something else.
  literals    `numeric_decimal`: every digit string, leading zeros included, is the integer `Nat.ofDigits 10`;
              `float_is_float`; `implicit_mul`: `<digits><identifier>` is `digits * identifier`.
  strings     `parse_pretty` (`parse_pretty_cx` for convert_xor = true): tokenizer and grammar together - the rendered
              byte string of any well-formed printed form, with arbitrary whitespace, parses to its tree
              (`lexTok_text`, `lexAll_render` in Lemmas/C17Lex.lean are the tokenizer round trip);
              `parse_pretty_tight`: no whitespace is ever required (`sepOK_tight`, Lemmas/C17Tight.lean).
  grammar     `parse_pretty_tokens`: for EVERY printed form `d` (`Doc`: a tree with all its parentheses and
              implicit-multiplication tokens) whose parentheses are sufficient w.r.t. the binding powers of parser.yy
              (`OK genBP d`, any number of redundant pairs allowed) the model parser returns the tree the form stands
              for.  Together with `table_conventional` (the binding powers order + - * / unary minus ** the usual way)
              this is "usual precedence and associativity".
  meaning     `certificate_sound`: whenever the driver's value check accepts the library's result `R` for a tree `t`,
              `R` has the conventional value of `t` (`evalAst`) in every field of characteristic 0, for every
              interpretation of `I` with `I*I = -1` and every assignment of the atoms.
              `nearestOk_bracket`, `scaledVal_strictMono`, `float_literal`, `floatOk_nearest`: a float literal whose
              bit pattern the driver accepts is a nearest double of the literal's exact decimal value.
-/
import Mathlib.Data.Nat.Digits.Defs
import Mathlib.Tactic.NormNum
import Mathlib.Tactic.Linarith
import Mathlib.Tactic.Ring
import SymVerif.Lemmas.NFSound
import SymVerif.Lemmas.C17Pratt
import SymVerif.Lemmas.C17Lex
import SymVerif.Lemmas.C17Tight
import SymVerif.Model.ParserSem

namespace SymVerif
namespace C17

open Parser Gen.Syntax

/-! ### 1. the translated tables say what convention says -/

/-- `Parser::parse_numeric` converts integer literals in base 10 (D6: the original code passed base 0 to
`strtol`, reading a leading zero as octal). -/
theorem numeric_base_decimal : numericBase = 10 := by decide

/-- level of a token / `%prec` name in parser.yy -/
abbrev lvl (k : String) : Nat := levelIn precTable k

/-- **The precedence declarations of parser.yy are the conventional ones**: `+ -` share a left-associative level
below the left-associative level of `* /`, unary minus and unary plus bind tighter than both and looser than the
right-associative power operator; every relational and logical operator binds looser than `+`; all operators are
declared. -/
theorem table_conventional :
    lvl "'+'" = lvl "'-'" ∧ lvl "'*'" = lvl "'/'" ∧
    0 < lvl "'|'" ∧ lvl "'|'" < lvl "'^'" ∧ lvl "'^'" < lvl "'&'" ∧ lvl "'&'" < lvl "EQ" ∧
    lvl "EQ" < lvl "'+'" ∧ lvl "'>'" < lvl "'+'" ∧ lvl "'<'" < lvl "'+'" ∧ lvl "NE" < lvl "'+'" ∧
    lvl "LE" < lvl "'+'" ∧ lvl "GE" < lvl "'+'" ∧
    lvl "'+'" < lvl "'*'" ∧ lvl "'*'" < lvl "UMINUS" ∧ lvl "'*'" < lvl "UPLUS" ∧
    lvl "UMINUS" < lvl "POW" ∧ lvl "UPLUS" < lvl "POW" ∧ lvl "POW" < lvl "NOT" ∧
    assocIn precTable "'+'" = .left ∧ assocIn precTable "'-'" = .left ∧
    assocIn precTable "'*'" = .left ∧ assocIn precTable "'/'" = .left ∧
    assocIn precTable "POW" = .right := by decide

/-- the same in terms of the binding powers the model parser uses -/
theorem genBP_conventional :
    genBP.lbp .add = genBP.lbp .sub ∧ genBP.rbp .add = genBP.lbp .add ∧ genBP.rbp .sub = genBP.lbp .sub ∧
    genBP.lbp .mul = genBP.lbp .div ∧ genBP.rbp .mul = genBP.lbp .mul ∧ genBP.rbp .div = genBP.lbp .div ∧
    genBP.lbp .add < genBP.lbp .mul ∧ genBP.lbp .mul < genBP.ubp .neg ∧ genBP.ubp .neg < genBP.lbp .pow ∧
    genBP.rbp .pow < genBP.lbp .pow ∧ genBP.ubp .pos < genBP.lbp .pow ∧ (∀ o, 0 < genBP.lbp o) := by
  refine ⟨by decide, by decide, by decide, by decide, by decide, by decide, by decide, by decide, by decide,
    by decide, by decide, ?_⟩
  intro o; cases o <;> decide

/-- the grammar the model parser was written against, alternative by alternative (lhs, rhs, action) -/
def expectedRules : List (String × String × String) := [
  ("st_expr", "expr", "$$ = $1; p.res = $$;"),
  ("expr", "expr '+' expr", "$$ = add($1, $3);"),
  ("expr", "expr '-' expr", "$$ = sub($1, $3);"),
  ("expr", "expr '*' expr", "$$ = mul($1, $3);"),
  ("expr", "expr '/' expr", "$$ = div($1, $3);"),
  ("expr", "IMPLICIT_MUL POW expr", "auto tup = p.parse_implicit_mul($1); if (neq(*std::get<1>(tup), *one)) { $$ = mul(std::get<0>(tup), pow(std::get<1>(tup), $3)); } else { $$ = pow(std::get<0>(tup), $3); }"),
  ("expr", "expr POW expr", "$$ = pow($1, $3);"),
  ("expr", "expr '<' expr", "$$ = rcp_static_cast<const Basic>(Lt($1, $3));"),
  ("expr", "expr '>' expr", "$$ = rcp_static_cast<const Basic>(Gt($1, $3));"),
  ("expr", "expr NE expr", "$$ = rcp_static_cast<const Basic>(Ne($1, $3));"),
  ("expr", "expr LE expr", "$$ = rcp_static_cast<const Basic>(Le($1, $3));"),
  ("expr", "expr GE expr", "$$ = rcp_static_cast<const Basic>(Ge($1, $3));"),
  ("expr", "expr EQ expr", "$$ = rcp_static_cast<const Basic>(Eq($1, $3));"),
  ("expr", "expr '|' expr", "set_boolean s; s.insert(as_boolean($1)); s.insert(as_boolean($3)); $$ = rcp_static_cast<const Basic>(logical_or(s));"),
  ("expr", "expr '&' expr", "set_boolean s; s.insert(as_boolean($1)); s.insert(as_boolean($3)); $$ = rcp_static_cast<const Basic>(logical_and(s));"),
  ("expr", "expr '^' expr", "vec_boolean s; s.push_back(as_boolean($1)); s.push_back(as_boolean($3)); $$ = rcp_static_cast<const Basic>(logical_xor(s));"),
  ("expr", "'(' expr ')'", "$$ = $2;"),
  ("expr", "'-' expr %prec UMINUS", "$$ = neg($2);"),
  ("expr", "'+' expr %prec UPLUS", "$$ = $2;"),
  ("expr", "'~' expr %prec NOT", "$$ = rcp_static_cast<const Basic>(logical_not(as_boolean($2)));"),
  ("expr", "leaf", "$$ = rcp_static_cast<const Basic>($1);"),
  ("leaf", "IDENTIFIER", "$$ = p.parse_identifier($1);"),
  ("leaf", "IMPLICIT_MUL", "auto tup = p.parse_implicit_mul($1); $$ = mul(std::get<0>(tup), std::get<1>(tup));"),
  ("leaf", "NUMERIC", "$$ = p.parse_numeric($1);"),
  ("leaf", "func", "$$ = $1;"),
  ("leaf", "pwise", "$$ = $1;"),
  ("func", "IDENTIFIER '(' expr_list ')'", "$$ = p.functionify($1, $3);"),
  ("epair", "'(' expr ',' expr ')'", "auto logical_expr = $4; if (!SymEngine::is_a_Boolean(*logical_expr)) { throw SymEngine::ParseError(SymEngine::StreamFmt() << \"Not of Boolean type in Piecewise arguments: \" << logical_expr->__str__()); } $$ = std::make_pair($2, rcp_static_cast<const Boolean>(logical_expr));"),
  ("piecewise_list", "piecewise_list ',' epair", "$$ = $1; $$ .push_back($3);"),
  ("piecewise_list", "epair", "$$ = SymEngine::PiecewiseVec(1, $1);"),
  ("pwise", "PIECEWISE '(' piecewise_list ')'", "assert($1 == \"Piecewise\"); $$ = piecewise(std::move($3));"),
  ("expr_list", "expr_list ',' expr", "$$ = $1; $$ .push_back($3);"),
  ("expr_list", "expr", "$$ = vec_basic(1, $1);")]

/-- **parser.yy still has exactly the alternatives and semantic actions the model mirrors.** -/
theorem grammar_shape : grammarRules = expectedRules := by rfl

/-- the named regular expressions and the rule order of tokenizer.re the model tokenizer was written against -/
theorem tokenizer_shape :
    tokDefs = [
      ("end", "\"\\x00\""),
      ("whitespace", "[ \\t\\v\\n\\r]+"),
      ("dig", "[0-9]"),
      ("char", "[\\x80-\\xff] | [a-zA-Z_]"),
      ("operators", "\"-\"|\"+\"|\"/\"|\"(\"|\")\"|\"*\"|\",\"|\"^\"|\"~\"|\"<\"|\">\"|\"&\"|\"|\""),
      ("pows", "\"**\"|\"@\""),
      ("le", "\"<=\""),
      ("ge", "\">=\""),
      ("ne", "\"!=\""),
      ("eqs", "\"==\""),
      ("ident", "char (char | dig)*"),
      ("pwise", "\"Piecewise\""),
      ("numeric", "(dig*\".\"?dig+([eE][-+]?dig+)?) | (dig+\".\")"),
      ("implicitmul", "numeric ident")] ∧
    tokRules.map (·.1) = ["*", "end", "whitespace", "operators", "pows", "le", "ge", "ne", "eqs", "pwise", "ident",
      "numeric", "implicitmul"] := by decide

/-- alternative spellings: SymPy's `arc…` names, `ln`, the long relational class names, the logical connectives -/
def aliases : List (String × String) :=
  [("arcsin", "asin"), ("arccos", "acos"), ("arctan", "atan"), ("arcsec", "asec"), ("arccsc", "acsc"),
   ("arccot", "acot"), ("arcsinh", "asinh"), ("arccosh", "acosh"), ("arctanh", "atanh"), ("arcsech", "asech"),
   ("arccoth", "acoth"), ("arccsch", "acsch"), ("ln", "log"),
   -- the spellings the string printer writes (accepted by the parser since the C16 round-trip fix)
   ("kroneckerdelta", "kronecker_delta"), ("levicivita", "levi_civita"),
   ("Equality", "Eq"), ("Unequality", "Ne"), ("GreaterThan", "Ge"), ("StrictGreaterThan", "Gt"),
   ("LessThan", "Le"), ("StrictLessThan", "Lt"),
   ("Not", "logical_not"), ("And", "logical_and"), ("Or", "logical_or"), ("Nand", "logical_nand"),
   ("Nor", "logical_nor"), ("Xor", "logical_xor"), ("Xnor", "logical_xnor")]

/-- the conventional meaning of a function name: the library function of the same name, up to `aliases` -/
def convName (n : String) : String := (lookup aliases n).getD n

def allConv (t : List (String × String)) : Bool := t.all fun p => convName p.1 == p.2

/-- **Function names are mapped to the corresponding library functions**: in every table of
`Parser::functionify` the registered C++ function is the one the name conventionally denotes, the elementary
functions are all present, and `log`/`zeta`/`Eq` are the only names overloaded by arity. -/
theorem funcs_conventional :
    allConv singleArgFuncs = true ∧ allConv doubleArgFuncs = true ∧ allConv multiArgFuncs = true ∧
    allConv singleArgBoolFuncs = true ∧ allConv singleArgBoolBoolFuncs = true ∧ allConv doubleArgBoolFuncs = true ∧
    allConv multiArgVecBoolFuncs = true ∧ allConv multiArgSetBoolFuncs = true ∧
    (["sin", "cos", "tan", "cot", "sec", "csc", "asin", "acos", "atan", "sinh", "cosh", "tanh", "asinh", "acosh",
      "atanh", "exp", "log", "ln", "sqrt", "abs", "gamma", "floor", "ceiling", "sign", "erf"].all
        fun n => (lookup singleArgFuncs n).isSome) = true ∧
    (singleArgFuncs.map (·.1)).filter (fun n => (lookup doubleArgFuncs n).isSome) = ["log", "zeta"] := by decide

/-- the named constants of `parse_identifier` -/
theorem constants_conventional :
    constants = [("e", "E"), ("E", "E"), ("EulerGamma", "EulerGamma"), ("Catalan", "Catalan"),
      ("GoldenRatio", "GoldenRatio"), ("pi", "pi"), ("I", "I"), ("oo", "Inf"), ("inf", "Inf"),
      ("zoo", "ComplexInf"), ("nan", "Nan"), ("True", "boolTrue"), ("False", "boolFalse")] := by decide

/-! ### 2. literals -/

theorem takeWhile_all (p : UInt8 → Bool) : ∀ (l : Bytes), (∀ c ∈ l, p c = true) → l.takeWhile p = l
  | [], _ => rfl
  | a :: t, h => by
    simp only [List.takeWhile, h a (by simp)]
    rw [takeWhile_all p t (fun c hc => h c (by simp [hc]))]

theorem no_dot (ds : Bytes) (hd : ∀ c ∈ ds, isDig c = true) : ds.contains 46 = false := by
  rw [Bool.eq_false_iff]
  intro h
  have := hd 46 (by simpa using h)
  revert this; decide

/-- **Decimal integer literals are read in base 10 regardless of leading zeros**: `Parser::parse_numeric` (as
translated: `strtol(…, numericBase)`) maps *every* digit string to the integer with that decimal expansion. -/
theorem numeric_decimal (ds : Bytes) (hd : ∀ c ∈ ds, isDig c = true) :
    parseNumeric ds = .int (ofDigits 10 ds) := by
  unfold parseNumeric parseNumericB strtol
  have hb : (numericBase == 0) = false := by decide
  simp only [hb, Bool.false_eq_true, if_false, takeWhile_all isDig ds hd, no_dot ds hd, Bool.not_false,
    beq_self_eq_true, Bool.and_self, if_true]
  split <;> rfl

theorem ofDigits_foldl (b : Nat) : ∀ (ds : Bytes) (acc : Nat),
    ds.foldl (fun a c => a * b + digitVal c) acc
      = acc * b ^ ds.length + Nat.ofDigits b ((ds.map digitVal).reverse)
  | [], acc => by simp
  | d :: t, acc => by
    simp only [List.foldl_cons, List.map_cons, List.reverse_cons, List.length_cons]
    rw [ofDigits_foldl b t, Nat.ofDigits_append, Nat.ofDigits_singleton]
    simp only [List.length_reverse, List.length_map]
    ring

/-- the model's digit-string value is Mathlib's `Nat.ofDigits 10` (which lists the least significant digit first) -/
theorem ofDigits_eq (ds : Bytes) : Parser.ofDigits 10 ds = Nat.ofDigits 10 ((ds.map digitVal).reverse) := by
  unfold Parser.ofDigits
  rw [ofDigits_foldl]; simp

theorem numeric_decimal' (ds : Bytes) (hd : ∀ c ∈ ds, isDig c = true) :
    parseNumeric ds = .int (Nat.ofDigits 10 ((ds.map digitVal).reverse)) := by
  rw [numeric_decimal ds hd, ofDigits_eq]

-- "010" is ten, "08" is eight, "0777" is seven hundred seventy-seven
example : parseNumeric [48, 49, 48] = .int 10 := by rw [numeric_decimal _ (by decide)]; rfl
example : parseNumeric [48, 56] = .int 8 := by rw [numeric_decimal _ (by decide)]; rfl
example : parseNumeric [48, 55, 55, 55] = .int 777 := by rw [numeric_decimal _ (by decide)]; rfl

/-- **Literals with a decimal point are floats** (never re-read as integers) -/
theorem float_is_float (t : Bytes) (h : t.contains 46 = true) : parseNumeric t = .float t := by
  have h' : (46 : UInt8) ∈ t := by simpa using h
  simp [parseNumeric, parseNumericB, h']

example : parseNumeric [49, 46, 53] = .float [49, 46, 53] := float_is_float _ (by decide)   -- 1.5
example : parseNumeric [49, 101, 53] = .float [49, 101, 53] := by rfl                        -- 1e5

/-! ### 3. the grammar: precedence and associativity -/

/-- **Usual precedence and associativity, for every printed form.**  `d` ranges over all printed forms (`Doc`):
trees with numbers, identifiers, the prefix operators, all binary operators, calls, explicit parentheses and the two
implicit-multiplication forms `2x`, `2x**e`.  If the parentheses of `d` are sufficient w.r.t. the binding powers
translated from parser.yy (`OK genBP d`: an operand is parenthesised whenever it would otherwise be cut short or
capture its right neighbour; any number of further, redundant pairs is allowed) then the model parser, applied to the
tokens of `d`, returns exactly the tree `d` stands for. -/
theorem parse_pretty_tokens (d : Doc) (hok : OK genBP d) (hl : LeftOK genBP 0 d) :
    parseTokens genBP (d.toks ++ [.eof]) = .ok d.ast :=
  parseTokens_doc genBP d hok hl

/-- at top level nothing can cut a form short: all binding powers are positive -/
theorem leftOK_zero : ∀ d : Doc, LeftOK genBP 0 d
  | .bin o l _ => ⟨genBP_conventional.2.2.2.2.2.2.2.2.2.2.2 o, leftOK_zero l⟩
  | .num _ => trivial
  | .ident _ => trivial
  | .imul _ => trivial
  | .imulPow _ _ => trivial
  | .paren _ => trivial
  | .un _ _ => trivial
  | .call _ _ => trivial

theorem parse_pretty_tokens' (d : Doc) (hok : OK genBP d) : parseTokens genBP (d.toks ++ [.eof]) = .ok d.ast :=
  parse_pretty_tokens d hok (leftOK_zero d)


/-! ### 3b. from strings: tokenizer and grammar together -/

/-- **`parse (pp ast) = ast`, on strings.**  Let `d` be any printed form whose parentheses are sufficient
(`OK genBP d`) and whose leaf tokens are well-formed (`ValidTok`: identifiers `char (char|dig)*` other than the
keyword, numerals of the `numeric` rule, implicit-multiplication tokens `numeral identifier` whose identifier does not
start with `e`/`E`, operator characters).  Render its tokens with ANY amount of whitespace `ws i` in front of the
i-th token and after the last one - none at all wherever the next byte cannot extend the previous token (`SepOK`).
Then the model of `Parser::parse` (tokenizer specification + grammar) applied to that byte string returns exactly the
tree `d` stands for. -/
theorem parse_pretty (d : Doc) (ws : Nat → Bytes) (hws : ∀ i, AllWs (ws i))
    (hv : ∀ t ∈ d.toks, ValidTok t) (hsep : SepOK ws 0 (d.toks ++ [.eof])) (hok : OK genBP d) :
    parseBytes (renderInput ws d.toks) false = .ok d.ast := by
  unfold parseBytes parseBytesWith
  simp only [Bool.false_eq_true, if_false]
  rw [lexAll_renderInput ws hws d.toks hv hsep]
  exact parse_pretty_tokens' d hok

/-- **Whitespace is never required**: written tightly (the token texts concatenated, nothing in between), every
well-formed printed form with sufficient parentheses parses to its tree - adjacent tokens of a printed form never
run into each other (`sepOK_tight`). -/
theorem parse_pretty_tight (d : Doc) (hv : ∀ t ∈ d.toks, ValidTok t) (hok : OK genBP d) :
    parseBytes (renderInput (fun _ => []) d.toks) false = .ok d.ast :=
  parse_pretty d (fun _ => []) (fun _ x hx => by cases hx) hv (sepOK_tight genBP d hok hv) hok

theorem convertXor_id : ∀ (l : Bytes), (94 : UInt8) ∉ l → convertXor l = l
  | [], _ => rfl
  | c :: t, h => by
    have hc : c ≠ 94 := fun hc => h (by simp [hc])
    have ht : (94 : UInt8) ∉ t := fun ht => h (by simp [ht])
    have ih := convertXor_id t ht
    simp only [convertXor] at ih
    simp only [convertXor, List.map_cons, ih]
    simp [hc]

/-- the same for the default `convert_xor = true`, for strings without the character `^` -/
theorem parse_pretty_cx (d : Doc) (ws : Nat → Bytes) (hws : ∀ i, AllWs (ws i))
    (hv : ∀ t ∈ d.toks, ValidTok t) (hsep : SepOK ws 0 (d.toks ++ [.eof])) (hok : OK genBP d)
    (hx : (94 : UInt8) ∉ renderInput ws d.toks) :
    parseBytes (renderInput ws d.toks) true = .ok d.ast := by
  unfold parseBytes parseBytesWith
  simp only [if_true, convertXor_id _ hx]
  rw [lexAll_renderInput ws hws d.toks hv hsep]
  exact parse_pretty_tokens' d hok

section Examples
set_option linter.unusedSimpArgs false
/- single-letter identifiers / small numbers as byte lists -/
private def x : Doc := .ident [120]
private def y : Doc := .ident [121]
private def z : Doc := .ident [122]
private def two : Doc := .num [50]

theorem idText1 (c : UInt8) (h : isAlpha c = true) : IsIdText [c] := ⟨c, [], rfl, h, by simp⟩

/-- the hypotheses of `parse_pretty` are satisfiable: the string `x -y-z` (one blank, otherwise tight) -/
example :
    let d : Doc := .bin .sub (.bin .sub x y) z
    let ws : Nat → Bytes := fun i => if i = 1 then [32] else []
    (∀ i, AllWs (ws i)) ∧ (∀ t ∈ d.toks, ValidTok t) ∧ SepOK ws 0 (d.toks ++ [.eof]) ∧ OK genBP d
      ∧ renderInput ws d.toks = [120, 32, 45, 121, 45, 122] := by
  refine ⟨?_, ?_, ?_, ?_, ?_⟩
  · intro i; by_cases h : i = 1 <;> simp [AllWs, h, isWs]
  · intro t ht
    simp only [Doc.toks, x, y, z, tokOfBin, List.mem_append, List.mem_cons, List.mem_singleton, List.not_mem_nil,
      or_false] at ht
    rcases ht with ((rfl | rfl | rfl) | rfl | rfl)
    · exact ⟨idText1 120 (by decide), by decide⟩
    · exact Or.inl (by decide)
    · exact ⟨idText1 121 (by decide), by decide⟩
    · exact Or.inl (by decide)
    · exact ⟨idText1 122 (by decide), by decide⟩
  · simp [SepOK, Doc.toks, x, y, z, tokOfBin, Follow, firstByte, tokText, isIdCont, isAlpha, isDig]
  · simp only [OK, LeftOK, NoCapture, x, y, z, tokOfBin]; decide
  · simp [renderInput, render, Doc.toks, x, y, z, tokOfBin, tokText]

/-- `x - y - z` is `(x - y) - z`, and needs no parentheses -/
example : OK genBP (.bin .sub (.bin .sub x y) z) := (by simp only [OK, LeftOK, NoCapture, x, y, z, two, tokOfBin]; decide)
/-- `x - (y - z)` needs them: the bare form is rejected -/
example : ¬ OK genBP (.bin .sub x (.bin .sub y z)) := (by simp only [OK, LeftOK, NoCapture, x, y, z, two, tokOfBin]; decide)
example : OK genBP (.bin .sub x (.paren (.bin .sub y z))) := (by simp only [OK, LeftOK, NoCapture, x, y, z, two, tokOfBin]; decide)
/-- `x ** y ** z` is `x ** (y ** z)` -/
example : OK genBP (.bin .pow x (.bin .pow y z)) ∧ ¬ OK genBP (.bin .pow (.bin .pow x y) z) := (by simp only [OK, LeftOK, NoCapture, x, y, z, two, tokOfBin]; decide)
/-- `-x ** 2` is `-(x ** 2)`; `(-x) ** 2` needs parentheses; `2 ** -x` does not -/
example : OK genBP (.un .neg (.bin .pow x two)) ∧ ¬ OK genBP (.bin .pow (.un .neg x) two)
    ∧ OK genBP (.bin .pow two (.un .neg x)) := (by simp only [OK, LeftOK, NoCapture, x, y, z, two, tokOfBin]; decide)
/-- `x + y * z`, `x * y + z` need none; `(x + y) * z` does -/
example : OK genBP (.bin .add x (.bin .mul y z)) ∧ OK genBP (.bin .add (.bin .mul x y) z)
    ∧ ¬ OK genBP (.bin .mul (.bin .add x y) z) := (by simp only [OK, LeftOK, NoCapture, x, y, z, two, tokOfBin]; decide)
/-- `2 ** -x * y` is `(2 ** (-x)) * y` -/
example : parseTokens genBP ((Doc.bin .mul (.bin .pow two (.un .neg x)) y).toks ++ [.eof])
    = .ok (.bin .mul (.bin .pow (.int 2) (.un .neg (.ident [120]))) (.ident [121])) :=
  parse_pretty_tokens' _ (by simp only [OK, LeftOK, NoCapture, x, y, z, two, tokOfBin]; decide)
/-- implicit multiplication: the token `2x` is `2 * x`; `2x ** y` is `2 * x ** y` -/
example : (Doc.imul [50, 120]).ast = .bin .mul (.int 2) (.ident [120]) := by rfl
example : (Doc.imulPow [50, 120] y).ast = .bin .mul (.int 2) (.bin .pow (.ident [120]) (.ident [121])) := by rfl
end Examples

/-! ### 5. float literals: an accepted double is a nearest double -/

section Floats

theorem P52 : (2 : Nat) ^ 52 = 4503599627370496 := by norm_num

theorem scaledVal_lt_succ (b : Nat) : scaledVal b < scaledVal (b + 1) := by
  unfold scaledVal
  simp only [P52]
  by_cases hM : b % 4503599627370496 + 1 < 4503599627370496
  · have h1 : (b + 1) / 4503599627370496 = b / 4503599627370496 := by omega
    have h2 : (b + 1) % 4503599627370496 = b % 4503599627370496 + 1 := by omega
    rw [h1, h2]
    by_cases hE : b / 4503599627370496 = 0
    · simp only [hE, if_true]; omega
    · simp only [hE, if_false]
      apply Nat.mul_lt_mul_of_pos_right
      · omega
      · exact Nat.pow_pos (by norm_num)
  · have h1 : (b + 1) / 4503599627370496 = b / 4503599627370496 + 1 := by omega
    have h2 : (b + 1) % 4503599627370496 = 0 := by omega
    have h3 : b % 4503599627370496 = 4503599627370495 := by omega
    rw [h1, h2, h3]
    by_cases hE : b / 4503599627370496 = 0
    · simp [hE]
    · have hE1 : b / 4503599627370496 + 1 ≠ 0 := by omega
      simp only [hE, hE1, if_false, Nat.add_sub_cancel, Nat.add_zero]
      obtain ⟨k, hk⟩ : ∃ k, b / 4503599627370496 = k + 1 := ⟨b / 4503599627370496 - 1, by omega⟩
      rw [hk, Nat.add_sub_cancel, Nat.pow_succ]
      have : 0 < 2 ^ k := Nat.pow_pos (by norm_num)
      nlinarith

theorem scaledVal_strictMono {a b : Nat} (hab : a < b) : scaledVal a < scaledVal b := by
  induction hab with
  | refl => exact scaledVal_lt_succ a
  | step _ ih => exact Nat.lt_trans ih (scaledVal_lt_succ _)

theorem scaledVal_mono {a b : Nat} (hab : a ≤ b) : scaledVal a ≤ scaledVal b := by
  rcases Nat.lt_or_eq_of_le hab with h | h
  · exact Nat.le_of_lt (scaledVal_strictMono h)
  · rw [h]

/-- what an accepted double satisfies: it lies between the midpoints to its two neighbours -/
theorem nearestOk_bracket {N D b : Nat} (h : nearestOk N D b = true) :
    b ≤ infBits ∧
    (b ≠ 0 → (scaledVal (b - 1) + scaledVal b) * D ≤ N * 2 ^ 1075) ∧
    (b ≠ infBits → N * 2 ^ 1075 ≤ (scaledVal b + scaledVal (b + 1)) * D) := by
  unfold nearestOk at h
  simp only [Bool.and_eq_true, Bool.or_eq_true, decide_eq_true_eq, beq_iff_eq] at h
  obtain ⟨⟨h1, h2⟩, h3⟩ := h
  refine ⟨h1, ?_, ?_⟩
  · intro hb
    rcases h2 with h2 | h2 | h2
    · exact absurd h2 hb
    · exact Nat.le_of_lt h2
    · exact Nat.le_of_eq h2.1
  · intro hb
    rcases h3 with h3 | h3 | h3
    · exact absurd h3 hb
    · exact Nat.le_of_lt h3
    · exact Nat.le_of_eq h3.1.symm

/-- **Float literals are read as a nearest double.**  If the exact check accepts the bit pattern `b` for the decimal
value `N / D`, then no double (bit pattern `b' ≤ infBits`; the pattern of `+inf` stands for `2^1024`) is closer to
`N / D` than `b`: with everything scaled by `D · 2^1074`,
`|N·2^1074 − val(b)·D| ≤ |N·2^1074 − val(b')·D|`. -/
theorem float_literal {N D b : Nat} (h : nearestOk N D b = true) (b' : Nat) (hb' : b' ≤ infBits) :
    |((N * 2 ^ 1074 : Nat) : Int) - ((scaledVal b * D : Nat) : Int)|
      ≤ |((N * 2 ^ 1074 : Nat) : Int) - ((scaledVal b' * D : Nat) : Int)| := by
  obtain ⟨_, hlo, hhi⟩ := nearestOk_bracket h
  have hpow : N * 2 ^ 1075 = 2 * (N * 2 ^ 1074) := by
    rw [show 1075 = 1074 + 1 from rfl, Nat.pow_succ]; ring
  rcases Nat.lt_trichotomy b' b with hlt | heq | hgt
  · have hb : b ≠ 0 := by omega
    have h1 := hlo hb
    have hm : scaledVal b' * D ≤ scaledVal (b - 1) * D := Nat.mul_le_mul_right D (scaledVal_mono (by omega))
    have hm2 : scaledVal (b - 1) * D ≤ scaledVal b * D := Nat.mul_le_mul_right D (scaledVal_mono (by omega))
    rw [hpow, Nat.add_mul] at h1
    generalize scaledVal b' * D = x' at *
    generalize scaledVal (b - 1) * D = xm at *
    generalize scaledVal b * D = x at *
    generalize N * 2 ^ 1074 = q at *
    rw [abs_le]
    have h3 : (q : Int) - x' ≤ |(q : Int) - x'| := le_abs_self _
    constructor <;> omega
  · subst heq; exact le_refl _
  · have hb : b ≠ infBits := by omega
    have h1 := hhi hb
    have hm : scaledVal (b + 1) * D ≤ scaledVal b' * D := Nat.mul_le_mul_right D (scaledVal_mono (by omega))
    have hm2 : scaledVal b * D ≤ scaledVal (b + 1) * D := Nat.mul_le_mul_right D (scaledVal_mono (by omega))
    rw [hpow, Nat.add_mul] at h1
    generalize scaledVal b' * D = x' at *
    generalize scaledVal (b + 1) * D = xp at *
    generalize scaledVal b * D = x at *
    generalize N * 2 ^ 1074 = q at *
    rw [abs_le]
    have h3 : -((q : Int) - x') ≤ |(q : Int) - x'| := neg_le_abs _
    constructor <;> omega

/-- what the driver's float check accepts: the literal has a decimal value `m · 10^e` and the bit pattern passes
`nearestOk` for it (so `float_literal` applies) -/
theorem floatOk_nearest {text : Bytes} {bits : Nat} (h : floatOk text bits = some true) :
    ∃ m e, decimalOf text = some (m, e) ∧
      (if e ≥ 0 then nearestOk (m * 10 ^ e.toNat) 1 bits else nearestOk m (10 ^ e.natAbs) bits) = true := by
  unfold floatOk at h
  split at h
  · cases h
  · rename_i m e hd
    refine ⟨m, e, hd, ?_⟩
    split at h
    · cases h
    · split at h
      · rename_i he; rw [if_pos he]; exact Option.some.inj h
      · rename_i he; rw [if_neg he]; exact Option.some.inj h

-- 0.1 is 0x3fb999999999999a, not its neighbours
set_option exponentiation.threshold 2000 in
example : floatOk [48, 46, 49] 0x3fb999999999999a = some true ∧ floatOk [48, 46, 49] 0x3fb9999999999999 = some false
    ∧ floatOk [48, 46, 49] 0x3fb999999999999b = some false := by decide
end Floats

/-! ### 4. meaning: what an accepted certificate proves -/

section Meaning
open NF
open Classical
variable {K : Type*} [Field K] (I : K) (ρ : String → K)

noncomputable def neg1 : Option K → Option K
  | some a => some (-a)
  | none => none

/-- `a / b`, undefined for `b = 0` -/
noncomputable def div2 : Option K → Option K → Option K
  | some a, some b => if b = 0 then none else some (a / b)
  | _, _ => none

/-- **The conventional value of a syntax tree** in a field `K`: literals are themselves, `+ - * /` are the field
operations, unary minus is negation, `**` with an integer-constant exponent is the (integer) power; identifiers and
applications of (un-evaluated) functions to symbols are atoms whose value is given by the assignment `ρ` (named
constants included: the statement below holds for *every* `ρ`, in particular for the true values of `pi`, `E`), `I` is
the chosen square root of -1.  `none`: floats, Boolean operators, Piecewise, non-constant exponents (outside the
exact fragment), division by zero, `0 ** negative`. -/
noncomputable def evalAst : PExpr → Option K
  | .int n => some (n : K)
  | .float _ => none
  | .ident s => (identExpr (bytesToString s)).bind (evalK I ρ)
  | .un .neg e => neg1 (evalAst e)
  | .un .pos e => evalAst e
  | .un .not _ => none
  | .bin .add a b => add2 (evalAst a) (evalAst b)
  | .bin .sub a b => add2 (evalAst a) (neg1 (evalAst b))
  | .bin .mul a b => mul2 (evalAst a) (evalAst b)
  | .bin .div a b => div2 (evalAst a) (evalAst b)
  | .bin .pow a b =>
    match constInt? b with
    | some n => (evalAst a).bind (fun v => powVal v n)
    | none => none
  | .bin .lt _ _ => none
  | .bin .gt _ _ => none
  | .bin .ne _ _ => none
  | .bin .le _ _ => none
  | .bin .ge _ _ => none
  | .bin .eq _ _ => none
  | .bin .or _ _ => none
  | .bin .and _ _ => none
  | .bin .xor _ _ => none
  | .call f args => (denoteA (.call f args)).bind (evalK I ρ)
  | .pwise _ => none

variable {I ρ}

theorem neg1_some {x : Option K} {v : K} (h : neg1 x = some v) : ∃ a, x = some a ∧ v = -a := by
  cases x <;> simp [neg1] at h
  exact ⟨_, rfl, h.symm⟩

theorem div2_some {x y : Option K} {v : K} (h : div2 x y = some v) :
    ∃ a b, x = some a ∧ y = some b ∧ b ≠ 0 ∧ v = a / b := by
  cases x <;> cases y <;> simp [div2] at h
  exact ⟨_, _, rfl, rfl, h.1, h.2.symm⟩

/-- the `Expr` handed to the normaliser has the conventional value of the tree -/
theorem denote_sound : ∀ (e : PExpr) (d : Expr) (v : K),
    denoteA e = some d → evalAst I ρ e = some v → evalK I ρ d = some v
  | .int n, d, v, hd, hv => by
    simp only [denoteA, Option.some.injEq] at hd
    subst hd
    simp only [evalAst, Option.some.injEq] at hv
    subst hv
    simp [evalK]
  | .float _, d, v, hd, _ => by simp [denoteA] at hd
  | .ident s, d, v, hd, hv => by
    simp only [denoteA] at hd
    simp only [evalAst, hd, Option.bind_some] at hv
    exact hv
  | .un .neg e, d, v, hd, hv => by
    simp only [denoteA, Option.map_eq_some_iff] at hd
    obtain ⟨x, hx, rfl⟩ := hd
    simp only [evalAst] at hv
    obtain ⟨a, ha, rfl⟩ := neg1_some hv
    have := denote_sound e x a hx ha
    simp [evalK, evalFacs, intLit?, powVal, mul2, this]
  | .un .pos e, d, v, hd, hv => by
    simp only [denoteA] at hd
    simp only [evalAst] at hv
    exact denote_sound e d v hd hv
  | .un .not _, d, v, hd, _ => by simp [denoteA] at hd
  | .bin .add a b, d, v, hd, hv => by
    simp only [denoteA, Option.bind_eq_bind, Option.bind_eq_some_iff, Option.pure_def, Option.some.injEq] at hd
    obtain ⟨x, hx, y, hy, rfl⟩ := hd
    simp only [evalAst] at hv
    obtain ⟨p, q, hp, hq, rfl⟩ := add2_some hv
    have h1 := denote_sound a x p hx hp
    have h2 := denote_sound b y q hy hq
    simp [evalK, evalTerms, add2, mul2, h1, h2]
  | .bin .sub a b, d, v, hd, hv => by
    simp only [denoteA, Option.bind_eq_bind, Option.bind_eq_some_iff, Option.pure_def, Option.some.injEq] at hd
    obtain ⟨x, hx, y, hy, rfl⟩ := hd
    simp only [evalAst] at hv
    obtain ⟨p, q', hp, hq', rfl⟩ := add2_some hv
    obtain ⟨q, hq, rfl⟩ := neg1_some hq'
    have h1 := denote_sound a x p hx hp
    have h2 := denote_sound b y q hy hq
    simp [evalK, evalTerms, add2, mul2, h1, h2]
  | .bin .mul a b, d, v, hd, hv => by
    simp only [denoteA, Option.bind_eq_bind, Option.bind_eq_some_iff, Option.pure_def, Option.some.injEq] at hd
    obtain ⟨x, hx, y, hy, rfl⟩ := hd
    simp only [evalAst] at hv
    obtain ⟨p, q, hp, hq, rfl⟩ := mul2_some hv
    have h1 := denote_sound a x p hx hp
    have h2 := denote_sound b y q hy hq
    simp [evalK, evalFacs, intLit?, powVal, mul2, h1, h2]
  | .bin .div a b, d, v, hd, hv => by
    simp only [denoteA, Option.bind_eq_bind, Option.bind_eq_some_iff, Option.pure_def, Option.some.injEq] at hd
    obtain ⟨x, hx, y, hy, rfl⟩ := hd
    simp only [evalAst] at hv
    obtain ⟨p, q, hp, hq, hq0, rfl⟩ := div2_some hv
    have h1 := denote_sound a x p hx hp
    have h2 := denote_sound b y q hy hq
    simp [evalK, evalFacs, intLit?, powVal, mul2, h1, h2, hq0, div_eq_mul_inv]
  | .bin .pow a b, d, v, hd, hv => by
    simp only [denoteA, Option.bind_eq_bind, Option.bind_eq_some_iff, Option.pure_def, Option.some.injEq] at hd
    obtain ⟨x, hx, n, hn, rfl⟩ := hd
    simp only [evalAst, hn] at hv
    cases hp : evalAst I ρ a with
    | none => simp [hp] at hv
    | some p =>
      have h1 := denote_sound a x p hx hp
      simp only [hp, Option.bind_some] at hv
      simp [evalK, intLit?, h1, hv]
  | .bin .lt _ _, d, v, hd, _ => by simp [denoteA] at hd
  | .bin .gt _ _, d, v, hd, _ => by simp [denoteA] at hd
  | .bin .ne _ _, d, v, hd, _ => by simp [denoteA] at hd
  | .bin .le _ _, d, v, hd, _ => by simp [denoteA] at hd
  | .bin .ge _ _, d, v, hd, _ => by simp [denoteA] at hd
  | .bin .eq _ _, d, v, hd, _ => by simp [denoteA] at hd
  | .bin .or _ _, d, v, hd, _ => by simp [denoteA] at hd
  | .bin .and _ _, d, v, hd, _ => by simp [denoteA] at hd
  | .bin .xor _ _, d, v, hd, _ => by simp [denoteA] at hd
  | .call f args, d, v, hd, hv => by
    simp only [evalAst, hd, Option.bind_some] at hv
    exact hv
  | .pwise _, d, v, hd, _ => by simp [denoteA] at hd

variable [CharZero K]

/-- **Soundness of the value certificate.**  If the driver's check accepts the library's result `R` for the tree `t`
(`judgeValue t R = ok`), then in every field `K` of characteristic 0, for every `I` with `I*I = -1` and every
assignment `ρ` of the atoms, wherever the tree has a conventional value `v` and `R` has a value `w`: `v = w`.
So `parse(s)` returned an expression denoting what `s` denotes under the conventional rules. -/
theorem certificate_sound (hI : I * I = -1) {t : PExpr} {R : Expr} {v w : K}
    (h : judgeValue t R = .ok) (hv : evalAst I ρ t = some v) (hw : evalK I ρ R = some w) : v = w := by
  unfold judgeValue at h
  split at h
  · cases h
  · rename_i d hd
    split at h
    · cases h
    · split at h
      · cases h
      · cases h
      · split at h
        · rename_i hacc
          unfold acceptsValue at hacc
          simp only [Bool.and_eq_true] at hacc
          exact equivF_sound hI (normT_sound hI d v (denote_sound t d v hd hv)) (normT_sound hI R w hw) hacc.2
        · cases h

/-- the acceptance test is not vacuous: `2*x` (tree of the token `2x`) against the library's `Mul{2; x^1}`,
accepted; against `Mul{3; x^1}`, rejected -/
example : acceptsValue (.mul (.int 1) [(.int 2, .int 1), (.sym "x", .int 1)]) (.mul (.int 2) [(.sym "x", .int 1)]) = true
    ∧ acceptsValue (.mul (.int 1) [(.int 2, .int 1), (.sym "x", .int 1)]) (.mul (.int 3) [(.sym "x", .int 1)]) = false := by
  constructor <;>
  simp [acceptsValue, firstErr, firstErrFacs, powErr, orElseErr, maxExp, normT, normFacs, intLit?, mulF, powF, npowF,
    atomF, constF, oneF, equivF, patom, pone, pconst, ppow, pmul, pmulTerm, padd, mmul, GI.mul, GI.isZero, GI.one,
    GI.ofInt, GI.add, Expr.dumpCanon, Expr.canonOrder, Expr.dump]

end Meaning

end C17
end SymVerif
