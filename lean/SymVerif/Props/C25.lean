import SymVerif.Lemmas.C25Transpose
import SymVerif.Lemmas.C25Sound
/-!
# C25 — sparse CSR matrices stay canonical and agree with dense ones

Model: `SymVerif/Model/CSR.lean` (the functions the driver `Drv/C25.lean` runs).
Abstraction `dense : Mat → Nat → Nat → Q`, invariant `CanonCSR` (`Lemmas/C25Basic.lean`).

Headline theorems (all for *every* canonical state / every input satisfying the stated decidable
side conditions; every one also says that no `Err.oob` — no out-of-range vector access — occurs):

* `get_spec`, `set_spec` (overwrite / insert / erase / no-op branches)           — `Lemmas/C25Set`
* `fromCoo_spec` (duplicates are summed, unsorted input, explicit zeros)          — `Lemmas/C25FromCoo`
* `binop_spec` (`csr_binop_csr_canonical`: add, sub, elementwise mul)             — `Lemmas/C25Binop`
* `transpose_spec`                                                                — `Lemmas/C25Transpose`
* `conjugate_spec`, `scaleRows_spec`, `scaleCols_spec`, `diagonal_spec`,
  `isCanonical_of_canon` (the library's own `is_canonical` accepts the invariant) — `Lemmas/C25Canon`
* `step_spec`, `history_canon`, `history_states_canon` (below): every state of every history of
  calls from a canonical start is canonical and tracks the dense matrix computed by the obvious
  dense algorithm.
-/
namespace SymVerif.C25
open SymVerif.CSR Finset

/-! ### the dense side: the obvious dense algorithm for every call -/

/-- a dense matrix: dimensions and entries -/
structure DM where
  row : Nat
  col : Nat
  d : Nat → Nat → Q

/-- the call is inside its documented domain for a `row × col` matrix (decidable) -/
def OpOk (row col : Nat) : Op → Prop
  | .set i c _ => i < row ∧ c < col
  | .get i c => i < row ∧ c < col
  | .add ts => ∀ t ∈ ts, t.1 < row ∧ t.2.1 < col
  | .sub ts => ∀ t ∈ ts, t.1 < row ∧ t.2.1 < col
  | .emul ts => ∀ t ∈ ts, t.1 < row ∧ t.2.1 < col
  | .transpose => True
  | .conj => True
  | .scaleRows X => X.length = row ∧ ∀ r, r < row → X.toArray[r]! ≠ 0
  | .scaleCols X => X.length = col ∧ ∀ c, c < col → X.toArray[c]! ≠ 0
  | .diag => True
  | .check => True

/-- the same call on the dense matrix -/
def denseStep (D : DM) : Op → DM
  | .set i c e => { D with d := fun i' c' => if i' = i ∧ c' = c then e else D.d i' c' }
  | .get _ _ => D
  | .add ts => { D with d := fun i c => D.d i c + cooSum ts i c }
  | .sub ts => { D with d := fun i c => D.d i c - cooSum ts i c }
  | .emul ts => { D with d := fun i c => D.d i c * cooSum ts i c }
  | .transpose => { row := D.col, col := D.row, d := fun i c => D.d c i }
  | .conj => D
  | .scaleRows X => { D with d := fun i c => D.d i c * X.toArray[i]! }
  | .scaleCols X => { D with d := fun i c => D.d i c * X.toArray[c]! }
  | .diag => D
  | .check => D

/-- what the call must return, in terms of the dense matrix -/
def outOk (D : DM) : Op → Out → Prop
  | .get i c, o => o = .val (D.d i c)
  | .diag, o => o = .vals ((List.range (min D.row D.col)).map (fun r => D.d r r))
  | .check, o => o = .flags true false true
  | _, o => o = .state

/-- the CSR state denotes the dense matrix -/
def Agrees (m : Mat) (D : DM) : Prop :=
  m.row = D.row ∧ m.col = D.col ∧ ∀ i c, i < m.row → c < m.col → dense m i c = D.d i c

theorem hasDuplicates_of_canon {m : Mat} (h : CanonCSR m) :
    hasDuplicates m.p m.j m.row = .ok false := by
  have hps := h.psize
  unfold hasDuplicates
  apply rowsAny_false _ m.p m.j m.row 0 (by omega)
  intro r _ hr
  have hr' : r < m.row := by omega
  refine ⟨(h.row_le hr').2, fun k hk1 hk2 => ?_⟩
  have := h.sorted r hr' k (k + 1) hk1 (by omega) hk2
  simp; omega

theorem hasSortedIndices_of_canon {m : Mat} (h : CanonCSR m) :
    hasSortedIndices m.p m.j m.row = .ok true := by
  have hps := h.psize
  unfold hasSortedIndices
  rw [rowsAny_false _ m.p m.j m.row 0 (by omega) (fun r _ hr => by
    have hr' : r < m.row := by omega
    refine ⟨(h.row_le hr').2, fun k hk1 hk2 => ?_⟩
    have := h.sorted r hr' k (k + 1) hk1 (by omega) hk2
    simp; omega)]
  rfl

theorem hasCanonicalFormat_of_canon {m : Mat} (h : CanonCSR m) :
    hasCanonicalFormat m.p m.j m.row = .ok true := by
  have hps := h.psize
  unfold hasCanonicalFormat
  rw [pDecreases_false m.p m.row 0 (by omega)
    (fun r _ hr => h.pmono r (r + 1) (by omega) (by omega))]
  simp only [ok_bind, Bool.false_eq_true, if_false, hasSortedIndices_of_canon h, if_true,
    hasDuplicates_of_canon h, pure_ok, Bool.not_false]

/-- the three operations built on `csr_binop_csr_canonical` with a `from_coo` operand -/
theorem binop_coo_step (op : Q → Q → Q) (hop : op 0 0 = 0) {m : Mat} {D : DM} (hm : CanonCSR m)
    (ha : Agrees m D) (ts : List Triple) (hts : ∀ t ∈ ts, t.1 < m.row ∧ t.2.1 < m.col) :
    ∃ m', (do let b ← fromCoo m.row m.col ts; let r ← binop op m b; pure (r, Out.state))
        = Except.ok (m', Out.state) ∧ CanonCSR m' ∧
      Agrees m' { D with d := fun i c => op (D.d i c) (cooSum ts i c) } := by
  obtain ⟨b, e1, hb, hbr, hbc, hbd⟩ := fromCoo_spec m.row m.col ts hts
  obtain ⟨r, e2, hr, hrr, hrc, hrd⟩ := binop_spec op hop hm hb hbr.symm hbc.symm
  refine ⟨r, by simp only [e1, ok_bind, e2, pure_ok], hr, hrr.trans ha.1, hrc.trans ha.2.1, ?_⟩
  intro i c hi hc
  rw [hrr] at hi
  rw [hrc] at hc
  rw [hrd i c hi, ha.2.2 i c hi hc, hbd i c hi]

/-- **one call**: from a canonical state that denotes `D`, a call inside its domain succeeds
(no `Err`), yields a canonical state that denotes `denseStep D op`, and returns what the dense
matrix says -/
theorem step_spec {m : Mat} {D : DM} (hm : CanonCSR m) (ha : Agrees m D) (op : Op)
    (hok : OpOk D.row D.col op) :
    ∃ m' o, step m op = .ok (m', o) ∧ CanonCSR m' ∧ Agrees m' (denseStep D op) ∧ outOk D op o := by
  obtain ⟨har, hac, had⟩ := ha
  cases op with
  | set i c e =>
    obtain ⟨hi, hc⟩ := hok
    obtain ⟨m', e1, h1, h2, h3, h4⟩ := set_spec hm (i := i) (c := c) (by omega) (by omega) e
    refine ⟨m', .state, by simp only [step, e1, ok_bind, pure_ok], h1, ⟨h2.trans har, h3.trans hac, ?_⟩, rfl⟩
    intro i' c' hi' hc'
    rw [h2] at hi'
    rw [h3] at hc'
    rw [h4 i' c' hi']
    show _ = if i' = i ∧ c' = c then e else D.d i' c'
    rw [had i' c' hi' hc']
  | get i c =>
    obtain ⟨hi, hc⟩ := hok
    refine ⟨m, .val (dense m i c), by
      simp only [step, get_spec hm (i := i) (c := c) (by omega) (by omega), ok_bind, pure_ok],
      hm, ⟨har, hac, had⟩, ?_⟩
    show Out.val _ = Out.val _
    rw [had i c (by omega) (by omega)]
  | add ts =>
    obtain ⟨m', e, h1, h2⟩ := binop_coo_step (· + ·) (by simp) hm ⟨har, hac, had⟩ ts
      (by rw [har, hac]; exact hok)
    exact ⟨m', .state, e, h1, h2, rfl⟩
  | sub ts =>
    obtain ⟨m', e, h1, h2⟩ := binop_coo_step (· - ·) (by simp) hm ⟨har, hac, had⟩ ts
      (by rw [har, hac]; exact hok)
    exact ⟨m', .state, e, h1, h2, rfl⟩
  | emul ts =>
    obtain ⟨m', e, h1, h2⟩ := binop_coo_step (· * ·) (by simp) hm ⟨har, hac, had⟩ ts
      (by rw [har, hac]; exact hok)
    exact ⟨m', .state, e, h1, h2, rfl⟩
  | transpose =>
    obtain ⟨t, e, h1, h2, h3, h4⟩ := transpose_spec hm
    refine ⟨t, .state, by simp only [step, e, ok_bind, pure_ok], h1,
      ⟨h2.trans hac, h3.trans har, ?_⟩, rfl⟩
    intro i c hi hc
    rw [h2] at hi
    rw [h3] at hc
    rw [h4 i c hi hc]
    exact had c i hc hi
  | conj =>
    exact ⟨m, .state, by simp only [step, conjugate_spec hm, ok_bind, pure_ok], hm, ⟨har, hac, had⟩, rfl⟩
  | scaleRows X =>
    obtain ⟨hl, hnz⟩ := hok
    obtain ⟨m', e, h1, h2, h3, h4⟩ := scaleRows_spec hm X.toArray (by simp; omega)
      (fun r hr => hnz r (by omega))
    refine ⟨m', .state, by simp only [step, e, ok_bind, pure_ok], h1, ⟨h2.trans har, h3.trans hac, ?_⟩, rfl⟩
    intro i c hi hc
    rw [h2] at hi
    rw [h3] at hc
    rw [h4 i c hi, had i c hi hc]
    rfl
  | scaleCols X =>
    obtain ⟨hl, hnz⟩ := hok
    obtain ⟨m', e, h1, h2, h3, h4⟩ := scaleCols_spec hm X.toArray (by simp; omega)
      (fun c hc => hnz c (by omega))
    refine ⟨m', .state, by simp only [step, e, ok_bind, pure_ok], h1, ⟨h2.trans har, h3.trans hac, ?_⟩, rfl⟩
    intro i c hi hc
    rw [h2] at hi
    rw [h3] at hc
    rw [h4 i c hi, had i c hi hc]
    rfl
  | diag =>
    refine ⟨m, .vals ((List.range (min m.row m.col)).map (fun r => dense m r r)), by
      simp only [step, diagonal_spec hm, ok_bind, pure_ok], hm, ⟨har, hac, had⟩, ?_⟩
    show Out.vals _ = Out.vals _
    congr 1
    rw [har, hac]
    apply List.map_congr_left
    intro r hr
    rw [List.mem_range] at hr
    exact had r r (by omega) (by omega)
  | check =>
    exact ⟨m, .flags true false true, by
      simp only [step, hasSortedIndices_of_canon hm, hasDuplicates_of_canon hm,
        hasCanonicalFormat_of_canon hm, ok_bind, pure_ok], hm, ⟨har, hac, had⟩, rfl⟩

/-! ### histories -/

/-- every call of the history is inside its domain (dimensions follow the transpositions) -/
def OpsOk : DM → List Op → Prop
  | _, [] => True
  | D, op :: ops => OpOk D.row D.col op ∧ OpsOk (denseStep D op) ops

/-- **history_canon**: every history of calls from a canonical start runs without error and ends
in a canonical state that denotes the dense matrix obtained by the dense algorithm -/
theorem history_canon : ∀ (ops : List Op) {m : Mat} {D : DM}, CanonCSR m → Agrees m D → OpsOk D ops →
    ∃ m', runM m ops = .ok m' ∧ CanonCSR m' ∧ Agrees m' (ops.foldl denseStep D) := by
  intro ops
  induction ops with
  | nil => intro m D hm ha _; exact ⟨m, rfl, hm, ha⟩
  | cons op ops ih =>
    intro m D hm ha hok
    obtain ⟨m1, o, e, h1, h2, _⟩ := step_spec hm ha op hok.1
    obtain ⟨m', e', h3, h4⟩ := ih h1 h2 hok.2
    exact ⟨m', by simp only [runM, e, ok_bind, e'], h3, h4⟩

/-- **every intermediate state** (what the driver prints after each call) is canonical, each
return value is the dense one, and the run never stops with an error -/
theorem history_states_canon : ∀ (ops : List Op) {m : Mat} {D : DM} (acc : List (Mat × Out)),
    CanonCSR m → Agrees m D → OpsOk D ops → (∀ s ∈ acc, CanonCSR s.1) →
    ∃ states, run m ops acc = (states, none) ∧ states.length = acc.length + ops.length ∧
      ∀ s ∈ states, CanonCSR s.1 := by
  intro ops
  induction ops with
  | nil =>
    intro m D acc _ _ _ hacc
    exact ⟨acc.reverse, rfl, by simp, fun s hs => hacc s (List.mem_reverse.mp hs)⟩
  | cons op ops ih =>
    intro m D acc hm ha hok hacc
    obtain ⟨m1, o, e, h1, h2, _⟩ := step_spec hm ha op hok.1
    obtain ⟨states, e', l, hs⟩ := ih ((m1, o) :: acc) h1 h2 hok.2 (fun s hs => by
      rcases List.mem_cons.mp hs with h | h
      · rw [h]; exact h1
      · exact hacc s h)
    refine ⟨states, by simp only [run, e, e'], by simp at l ⊢; omega, hs⟩

/-! ### construction -/

/-- `CSRMatrix(row, col)` is canonical and denotes the zero matrix -/
theorem zeroMat_canon (row col : Nat) :
    CanonCSR (zeroMat row col) ∧ ∀ i c, dense (zeroMat row col) i c = 0 := by
  have hp : ∀ k : Nat, (Array.replicate (row + 1) 0)[k]! = 0 := by
    intro k
    by_cases hk : k < row + 1
    · exact replicate_get! _ _ _ hk
    · have : ¬ k < (Array.replicate (row + 1) 0).size := by simpa using hk
      rw [getElem!_neg (Array.replicate (row + 1) 0) k this]; rfl
  refine ⟨{ psize := by simp [zeroMat], xsize := rfl, p0 := hp 0, plast := by simp [zeroMat, hp],
            pmono := fun a b _ _ => by simp [zeroMat, hp],
            sorted := fun i _ a b ha hab hb => ?_, jlt := fun k hk => ?_ }, fun i c => ?_⟩
  · have : b < (Array.replicate (row + 1) 0)[i + 1]! := hb
    rw [hp] at this; omega
  · have : k < (#[] : Array Nat).size := hk
    simp at this
  · unfold dense
    show ∑ k ∈ Ico (Array.replicate (row + 1) 0)[i]! (Array.replicate (row + 1) 0)[i + 1]!, _ = 0
    rw [hp, hp]; simp

/-! ### refutations on concrete witnesses (`csr_matmat_pass1/2` as is) -/

def wA : Mat := ⟨2, 2, #[0, 1, 1], #[0], #[1]⟩
def wB : Mat := ⟨2, 2, #[0, 2, 2], #[0, 1], #[1, 2]⟩
def wB12 : Mat := ⟨1, 2, #[0, 1], #[1], #[1]⟩
def wA11 : Mat := ⟨1, 1, #[0, 1], #[0], #[1]⟩
def isOkTrue : Except Err Bool → Bool | .ok true => true | _ => false
def isOkFalse : Except Err Bool → Bool | .ok false => true | _ => false
def isOob : Except Err Mat → Bool | .error .oob => true | _ => false

/-- the product of two canonical matrices computed by pass 1 + pass 2 has a row with *unsorted*
column indices: `[[1,0],[0,0]] * [[1,2],[0,0]]` is stored as columns `1, 0` -/
theorem matmat_unsorted_witness :
    isOkTrue (isCanonical wA) = true ∧ isOkTrue (isCanonical wB) = true ∧
    isOkFalse (do let c ← matmat wA wB; hasSortedIndices c.p c.j c.row) = true := by
  decide +kernel

/-- with `B.col > A.col` the scratch vectors (`mask`, `next`, `sums`, sized `A.col_`) are indexed
out of range: a `1×1` times a `1×2` matrix -/
theorem matmat_scratch_oob_witness : isOob (matmat wA11 wB12) = true := by
  decide +kernel

/-! ### non-vacuity: the hypotheses are satisfiable on concrete, non-trivial values -/

/-- unsorted coordinates with a duplicate `(0,1)` and an explicit zero -/
def exTs : List Triple := [(1, 2, 3), (0, 1, 2), (0, 1, 5), (1, 0, 0), (0, 0, -1)]

theorem exTs_ok : ∀ t ∈ exTs, t.1 < 2 ∧ t.2.1 < 3 := by decide

/-- from_coo + get: the duplicate is summed -/
example : ∃ m, fromCoo 2 3 exTs = .ok m ∧ CanonCSR m ∧ CSR.get m 0 1 = .ok 7 := by
  obtain ⟨m, e, hc, hr, hcl, hd⟩ := fromCoo_spec 2 3 exTs exTs_ok
  refine ⟨m, e, hc, ?_⟩
  rw [get_spec hc (by omega) (by omega), hd 0 1 (by omega)]
  norm_num [cooSum, exTs]

/-- set on that state: insert, then set to zero (erase) -/
example : ∃ m m1 m2, fromCoo 2 3 exTs = .ok m ∧ CSR.set m 1 1 9 = .ok m1 ∧ CSR.set m1 0 1 0 = .ok m2 ∧
    CanonCSR m2 ∧ dense m2 1 1 = 9 ∧ dense m2 0 1 = 0 := by
  obtain ⟨m, e, hc, hr, hcl, hd⟩ := fromCoo_spec 2 3 exTs exTs_ok
  obtain ⟨m1, e1, c1, r1, l1, d1⟩ := set_spec hc (i := 1) (c := 1) (by omega) (by omega) 9
  obtain ⟨m2, e2, c2, r2, l2, d2⟩ := set_spec c1 (i := 0) (c := 1) (by omega) (by omega) 0
  refine ⟨m, m1, m2, e, e1, e2, c2, ?_, ?_⟩
  · rw [d2 1 1 (by omega), d1 1 1 (by omega)]; simp
  · rw [d2 0 1 (by omega)]; simp

/-- a whole history (set, add with duplicates, transpose, elementwise product, scaling, get) -/
def exOps : List Op :=
  [.set 0 2 4, .add [(1, 1, 1), (1, 1, -1), (0, 0, 1)], .transpose, .emul [(2, 0, 2), (1, 0, 3)],
   .scaleCols [2, 3], .get 2 0, .diag, .check, .conj, .sub [(0, 0, 1)], .scaleRows [1, 2, 3]]

def exD : DM := { row := 2, col := 3, d := cooSum exTs }

theorem exOps_ok : OpsOk exD exOps := by
  simp only [exOps, OpsOk, OpOk, denseStep, exD]
  refine ⟨by decide, by decide, trivial, by decide, ⟨rfl, ?_⟩, by decide, trivial, trivial, trivial,
    by decide, ⟨rfl, ?_⟩, trivial⟩
  · intro c hc
    have : c = 0 ∨ c = 1 := by omega
    rcases this with h | h <;> subst h <;> decide
  · intro r hr
    have : r = 0 ∨ r = 1 ∨ r = 2 := by omega
    rcases this with h | h | h <;> subst h <;> decide

example : ∃ m m', fromCoo 2 3 exTs = .ok m ∧ runM m exOps = .ok m' ∧ CanonCSR m' ∧
    Agrees m' (exOps.foldl denseStep exD) := by
  obtain ⟨m, e, hc, hr, hcl, hd⟩ := fromCoo_spec 2 3 exTs exTs_ok
  have ha : Agrees m exD := ⟨hr, hcl, fun i c hi _ => hd i c (by omega)⟩
  obtain ⟨m', e', h1, h2⟩ := history_canon exOps hc ha exOps_ok
  exact ⟨m, m', e, e', h1, h2⟩

end SymVerif.C25
