/-
C37 — Common-subexpression elimination is a faithful factoring (symengine/cse.cpp).

Certificate checking: the harness runs the real `cse` and hands inputs, replacement pairs and
reduced expressions to `CSE.check` (Model/CSE.lean).  The theorems below say what an accepted
certificate guarantees, for every field `K` of characteristic 0 and every lawful interpretation
`M` of symbols, constants, functions and non-literal powers (functions are interpreted
*functionally*: the value of `f(a₁,…,aₙ)` depends on the values of the arguments only).
-/
import Mathlib.Analysis.SpecialFunctions.Pow.Complex
import SymVerif.Lemmas.C37Tree

namespace SymVerif
namespace C37

open NF CSE
open Classical

set_option linter.unusedSectionVars false

/-! ### specifications of freshness and orderedness -/

/-- no replacement symbol occurs in the inputs; the replacement symbols are pairwise distinct -/
def Fresh (inputs : List Expr) (reps : List (String × Expr)) : Prop :=
  (∀ p ∈ reps, p.1 ∉ symNamesList inputs) ∧ (reps.map (·.1)).Nodup

/-- the right-hand side of replacement `i` mentions no replacement symbol with index `k ≥ i` -/
def Ordered (reps : List (String × Expr)) : Prop :=
  ∀ (i k : Nat) si ri sk rk, reps[i]? = some (si, ri) → reps[k]? = some (sk, rk) → i ≤ k → sk ∉ symNames ri

theorem freshB_sound (inputs : List Expr) :
    ∀ reps : List (String × Expr), freshB inputs reps = true → Fresh inputs reps
  | [], _ => ⟨by simp, by simp⟩
  | (s, r) :: rest, h => by
    simp only [freshB, Bool.and_eq_true, Bool.not_eq_true', List.contains_eq_mem,
      decide_eq_false_iff_not] at h
    obtain ⟨⟨h1, h2⟩, h3⟩ := h
    obtain ⟨ih1, ih2⟩ := freshB_sound inputs rest h3
    refine ⟨?_, ?_⟩
    · intro p hp
      rcases List.mem_cons.mp hp with rfl | hp
      · exact h1
      · exact ih1 p hp
    · simp only [List.map_cons, List.nodup_cons]
      exact ⟨h2, ih2⟩

theorem orderedB_sound : ∀ reps : List (String × Expr), orderedB reps = true → Ordered reps
  | [], _ => by unfold Ordered; intro i k si ri sk rk hi; simp at hi
  | (s, r) :: rest, h => by
    simp only [orderedB, Bool.and_eq_true, List.all_eq_true, Bool.not_eq_true', List.contains_eq_mem,
      decide_eq_false_iff_not] at h
    obtain ⟨h1, h2⟩ := h
    have ih := orderedB_sound rest h2
    unfold Ordered at ih ⊢
    intro i k si ri sk rk hi hk hik
    cases i with
    | zero =>
      simp only [List.getElem?_cons_zero, Option.some.injEq, Prod.mk.injEq] at hi
      obtain ⟨rfl, rfl⟩ := hi
      intro hmem
      apply h1 sk hmem
      cases k with
      | zero =>
        simp only [List.getElem?_cons_zero, Option.some.injEq, Prod.mk.injEq] at hk
        rw [hk.1]; exact List.mem_cons_self
      | succ k =>
        simp only [List.getElem?_cons_succ] at hk
        apply List.mem_cons_of_mem
        exact List.mem_map.mpr ⟨(sk, rk), List.mem_of_getElem? hk, rfl⟩
    | succ i =>
      cases k with
      | zero => omega
      | succ k =>
        simp only [List.getElem?_cons_succ] at hi hk
        exact ih i k si ri sk rk hi hk (by omega)

/-! ### evaluation does not depend on symbols that do not occur -/

section
variable {K : Type} [Field K]

mutual
  theorem evalS_setSym_fresh (M : Interp K) (s : String) (v : K) :
      ∀ e : Expr, s ∉ symNames e → evalS (M.setSym s v) e = evalS M e
    | .int n, _ => by simp [evalS]
    | .rat n d, _ => by simp [evalS]
    | .cplx re im, _ => by simp [evalS]
    | .add c ts, h => by
      simp only [symNames, List.mem_append, not_or] at h
      simp only [evalS, evalS_setSym_fresh M s v c h.1, evalSTerms_setSym_fresh M s v ts h.2]
    | .mul c fs, h => by
      simp only [symNames, List.mem_append, not_or] at h
      simp only [evalS, evalS_setSym_fresh M s v c h.1, evalSFacs_setSym_fresh M s v fs h.2]
    | .pow b e, h => by
      simp only [symNames, List.mem_append, not_or] at h
      simp only [evalS, evalS_setSym_fresh M s v b h.1, evalS_setSym_fresh M s v e h.2, pwVal_setSym]
    | .dbl _, _ => by simp [evalS]
    | .cdbl _ _, _ => by simp [evalS]
    | .infty _, _ => by simp [evalS]
    | .nan, _ => by simp [evalS]
    | .bool _, _ => by simp [evalS]
    | .sym n, h => by
      simp only [symNames, List.mem_singleton] at h
      have : ¬ n = s := fun hn => h hn.symm
      simp [evalS, Interp.setSym, this]
    | .dummy n i, _ => by simp [evalS]
    | .const n, _ => by simp [evalS]
    | .fsym n args, h => by
      simp only [symNames] at h
      simp only [evalS, evalSList_setSym_fresh M s v args h, setSym_fsym]
    | .app hd args, h => by
      simp only [symNames] at h
      simp only [evalS, evalSList_setSym_fresh M s v args h, setSym_app]
  theorem evalSList_setSym_fresh (M : Interp K) (s : String) (v : K) :
      ∀ l : List Expr, s ∉ symNamesList l → evalSList (M.setSym s v) l = evalSList M l
    | [], _ => by simp [evalSList]
    | a :: t, h => by
      simp only [symNamesList, List.mem_append, not_or] at h
      simp only [evalSList, evalS_setSym_fresh M s v a h.1, evalSList_setSym_fresh M s v t h.2]
  theorem evalSTerms_setSym_fresh (M : Interp K) (s : String) (v : K) :
      ∀ l : List (Expr × Expr), s ∉ symNamesPairs l → evalSTerms (M.setSym s v) l = evalSTerms M l
    | [], _ => by simp [evalSTerms]
    | (k, c) :: t, h => by
      simp only [symNamesPairs, List.mem_append, not_or] at h
      simp only [evalSTerms, evalS_setSym_fresh M s v k h.1, evalS_setSym_fresh M s v c h.2.1,
        evalSTerms_setSym_fresh M s v t h.2.2]
  theorem evalSFacs_setSym_fresh (M : Interp K) (s : String) (v : K) :
      ∀ l : List (Expr × Expr), s ∉ symNamesPairs l → evalSFacs (M.setSym s v) l = evalSFacs M l
    | [], _ => by simp [evalSFacs]
    | (b, e) :: t, h => by
      simp only [symNamesPairs, List.mem_append, not_or] at h
      simp only [evalSFacs, evalS_setSym_fresh M s v b h.1, evalS_setSym_fresh M s v e h.2.1,
        evalSFacs_setSym_fresh M s v t h.2.2, pwVal_setSym]
end

theorem mem_symNamesList {e : Expr} {l : List Expr} (he : e ∈ l) {s : String} (hs : s ∈ symNames e) :
    s ∈ symNamesList l := by
  induction l with
  | nil => cases he
  | cons a t ih =>
    simp only [symNamesList, List.mem_append]
    rcases List.mem_cons.mp he with rfl | he
    · exact Or.inl hs
    · exact Or.inr (ih he)

/-- evaluating the replacements does not change the value of an expression in which no replacement
symbol occurs -/
theorem evalS_envAfter_fresh (e : Expr) :
    ∀ (reps : List (String × Expr)) (M M' : Interp K), (∀ p ∈ reps, p.1 ∉ symNames e) →
      envAfter M reps = some M' → evalS M' e = evalS M e
  | [], M, M', _, h => by
    simp only [envAfter, Option.some.injEq] at h; rw [h]
  | (s, r) :: rest, M, M', hf, h => by
    simp only [envAfter] at h
    cases hv : evalS M r with
    | none => simp [hv] at h
    | some v =>
      simp only [hv] at h
      rw [evalS_envAfter_fresh e rest (M.setSym s v) M'
        (fun p hp => hf p (List.mem_cons_of_mem _ hp)) h]
      exact evalS_setSym_fresh M s v e (hf (s, r) List.mem_cons_self)

end

/-! ### the headline theorems -/

theorem listAll2_get {p : Expr → Expr → Bool} :
    ∀ (as bs : List Expr), listAll2 p as bs = true →
      as.length = bs.length ∧ ∀ (j : Nat) a b, as[j]? = some a → bs[j]? = some b → p a b = true
  | [], [], _ => ⟨rfl, by intro j a b h; simp at h⟩
  | a :: t, b :: u, h => by
    simp only [listAll2, Bool.and_eq_true] at h
    obtain ⟨ih1, ih2⟩ := listAll2_get t u h.2
    refine ⟨by simp [ih1], ?_⟩
    intro j x y hx hy
    cases j with
    | zero =>
      simp only [List.getElem?_cons_zero, Option.some.injEq] at hx hy
      subst hx; subst hy; exact h.1
    | succ j =>
      simp only [List.getElem?_cons_succ] at hx hy
      exact ih2 j x y hx hy
  | [], _ :: _, h => by simp [listAll2] at h
  | _ :: _, [], h => by simp [listAll2] at h

theorem check_parts {inputs reduced : List Expr} {reps : List (String × Expr)}
    (h : check inputs reps reduced = true) :
    freshB inputs reps = true ∧ orderedB reps = true ∧ rhsOkB reps = true ∧
      faithfulB reps inputs reduced = true := by
  simp only [check, Bool.and_eq_true] at h
  exact ⟨h.1.1.1, h.1.1.2, h.1.2, h.2⟩

/-- **C37, faithfulness.**  If the checker accepts the certificate `(reps, reduced)` for `inputs`,
then for every lawful interpretation `M`: evaluate the replacements in order (`envAfter`, each
right-hand side in the environment extended by the earlier replacement symbols), then the reduced
expressions in the resulting environment `M'` — the values are the values of the inputs in `M`,
wherever both are defined. -/
theorem cse_certificate_sound {K : Type} [Field K] [CharZero K] (M : Interp K) (hM : Lawful M)
    (inputs reduced : List Expr) (reps : List (String × Expr))
    (hc : check inputs reps reduced = true) (M' : Interp K) (hEnv : envAfter M reps = some M') :
    inputs.length = reduced.length ∧
    ∀ (j : Nat) inp red, inputs[j]? = some inp → reduced[j]? = some red →
      ∀ r w, evalS M' red = some r → evalS M inp = some w → r = w := by
  obtain ⟨_, _, hok, hf⟩ := check_parts hc
  obtain ⟨hlen, hall⟩ := listAll2_get inputs reduced hf
  refine ⟨hlen, ?_⟩
  intro j inp red hi hr r w hr' hw
  have ht := hall j inp red hi hr
  have hs := treeEquiv_sound hM ht
  have hb := evalS_backSubst reps M M' red hok hEnv
  exact hs r w (by rw [hb]; exact hr') hw

/-- **C37, freshness**: an accepted certificate has fresh, pairwise distinct replacement symbols. -/
theorem cse_fresh {inputs reduced : List Expr} {reps : List (String × Expr)}
    (hc : check inputs reps reduced = true) : Fresh inputs reps :=
  freshB_sound inputs reps (check_parts hc).1

/-- **C37, orderedness**: each replacement refers only to earlier replacement symbols. -/
theorem cse_ordered {inputs reduced : List Expr} {reps : List (String × Expr)}
    (hc : check inputs reps reduced = true) : Ordered reps :=
  orderedB_sound reps (check_parts hc).2.1

/-- Because the replacement symbols are fresh, the inputs have the same value in the environment
`M'` in which the reduced expressions are evaluated: faithfulness can be read in one environment. -/
theorem cse_faithful_same_env {K : Type} [Field K] [CharZero K] (M : Interp K) (hM : Lawful M)
    (inputs reduced : List Expr) (reps : List (String × Expr))
    (hc : check inputs reps reduced = true) (M' : Interp K) (hEnv : envAfter M reps = some M') :
    ∀ (j : Nat) inp red, inputs[j]? = some inp → reduced[j]? = some red →
      ∀ r w, evalS M' red = some r → evalS M' inp = some w → r = w := by
  intro j inp red hi hr r w hr' hw
  have hfr := (cse_fresh hc).1
  have hsame : evalS M' inp = evalS M inp :=
    evalS_envAfter_fresh inp reps M M'
      (fun p hp hs => hfr p hp (mem_symNamesList (List.mem_of_getElem? hi) hs)) hEnv
  exact (cse_certificate_sound M hM inputs reduced reps hc M' hEnv).2 j inp red hi hr r w hr'
    (by rw [← hsame]; exact hw)

/-- what the driver's `ok` means -/
theorem judge_ok {inputs : List Expr} {cert : String} (h : judge inputs cert = "ok") :
    ∃ reps reduced, parseCert cert = some (reps, reduced) ∧ check inputs reps reduced = true := by
  unfold judge at h
  split at h
  · exact absurd h (by decide)
  · rename_i reps reduced hp
    refine ⟨reps, reduced, hp, ?_⟩
    split at h
    · exact absurd h (by decide)
    · split at h
      · exact absurd h (by decide)
      · split at h
        · exact absurd h (by decide)
        · split at h
          · exact absurd h (by decide)
          · split at h
            · split at h <;> exact absurd h (by decide)
            · split at h
              · assumption
              · exact absurd h (by decide)

/-- the statement from "the driver printed `ok`" -/
theorem cse_driver_ok_sound {K : Type} [Field K] [CharZero K] (M : Interp K) (hM : Lawful M)
    (inputs : List Expr) (cert : String) (h : judge inputs cert = "ok") :
    ∃ reps reduced, parseCert cert = some (reps, reduced) ∧ Fresh inputs reps ∧ Ordered reps ∧
      ∀ M', envAfter M reps = some M' →
        ∀ (j : Nat) inp red, inputs[j]? = some inp → reduced[j]? = some red →
          ∀ r w, evalS M' red = some r → evalS M inp = some w → r = w := by
  obtain ⟨reps, reduced, hp, hc⟩ := judge_ok h
  exact ⟨reps, reduced, hp, cse_fresh hc, cse_ordered hc,
    fun M' hE => (cse_certificate_sound M hM inputs reduced reps hc M' hE).2⟩

/-! ### non-vacuity: a lawful interpretation over ℂ and concrete accepted certificates -/

/-- ℂ with the principal power, `Sin ↦ Complex.sin`, `Cos ↦ Complex.cos` -/
noncomputable def MC (σ : String → ℂ) : Interp ℂ where
  I := Complex.I
  sym := σ
  dummy := fun _ _ => 0
  const := fun _ => 0
  fsym := fun _ _ => 0
  app := fun h args =>
    match args with
    | [v] => if h = "Sin" then Complex.sin v else if h = "Cos" then Complex.cos v else 0
    | _ => 0
  pw := fun b e => b ^ e

theorem MC_lawful (σ : String → ℂ) : Lawful (MC σ) where
  I_sq := Complex.I_mul_I
  pw_add_int := by
    intro b e k hb
    show b ^ ((k : ℂ) + e) = b ^ k * b ^ e
    rw [Complex.cpow_add _ _ hb, Complex.cpow_intCast]
  pw_mul_int := by
    intro b e k _
    show (b ^ e) ^ k = b ^ ((k : ℂ) * e)
    rw [Complex.cpow_int_mul]
  pw_neg := by
    intro b e _
    show b ^ (-e) = (b ^ e)⁻¹
    exact Complex.cpow_neg b e
  pw_ne_zero := by
    intro b e hb
    show b ^ e ≠ 0
    exact fun h => hb ((Complex.cpow_eq_zero_iff b e).mp h).1
  app_odd := by
    intro h hh v
    simp only [oddHeads, List.mem_cons, List.not_mem_nil, or_false] at hh
    rcases hh with rfl | rfl | rfl | rfl | rfl | rfl | rfl | rfl | rfl | rfl | rfl | rfl <;>
      simp [MC, Complex.sin_neg]
  app_even := by
    intro h hh v
    simp only [evenHeads, List.mem_cons, List.not_mem_nil, or_false] at hh
    rcases hh with rfl | rfl | rfl | rfl | rfl <;> simp [MC, Complex.cos_neg]

def exX : Expr := .sym "x"
def exY : Expr := .sym "y"
def exZ : Expr := .sym "z"
def exXY : Expr := .add (.int 0) [(exX, .int 1), (exY, .int 1)]

/-- `cse([x + y + z, sin(x + y)]) = ([(x0, x + y)], [x0 + z, sin(x0)])` -/
def exInputs : List Expr := [.add (.int 0) [(exX, .int 1), (exY, .int 1), (exZ, .int 1)], .app "Sin" [exXY]]
def exReps : List (String × Expr) := [("x0", exXY)]
def exReduced : List Expr := [.add (.int 0) [(.sym "x0", .int 1), (exZ, .int 1)], .app "Sin" [.sym "x0"]]

set_option maxRecDepth 100000 in
/-- the certificate is accepted (the first reduced expression needs the normaliser: the
back-substituted tree is `(x + y) + z`, the input is the flat `x + y + z`) -/
theorem ex_check : check exInputs exReps exReduced = true := by decide +kernel

set_option maxRecDepth 100000 in
/-- a certificate with a wrong reduced expression (`x0 + 2z`) is rejected -/
theorem ex_check_rejects :
    check exInputs exReps [.add (.int 0) [(.sym "x0", .int 1), (exZ, .int 2)], .app "Sin" [.sym "x0"]] = false := by
  decide +kernel

set_option maxRecDepth 100000 in
/-- a replacement symbol that occurs in the inputs is rejected -/
theorem ex_check_rejects_not_fresh :
    check exInputs [("x", exXY)] [.add (.int 0) [(.sym "x", .int 1), (exZ, .int 1)], .app "Sin" [.sym "x"]] = false := by
  decide +kernel

/-- all hypotheses of `cse_certificate_sound` hold together on the example over ℂ (lawful
interpretation, accepted certificate, defined replacement, defined reduced expression and input),
and the theorem yields the equality of the two values -/
example (σ : String → ℂ) :
    ∃ M' r w, envAfter (MC σ) exReps = some M' ∧
      evalS M' (.add (.int 0) [(.sym "x0", .int 1), (exZ, .int 1)]) = some r ∧
      evalS (MC σ) (.add (.int 0) [(exX, .int 1), (exY, .int 1), (exZ, .int 1)]) = some w ∧ r = w := by
  have hE : envAfter (MC σ) exReps = some ((MC σ).setSym "x0" (σ "x" + σ "y")) := by
    simp [envAfter, exReps, exXY, exX, exY, evalS, evalSTerms, MC, add2, mul2]
  have h1 : evalS ((MC σ).setSym "x0" (σ "x" + σ "y"))
      (.add (.int 0) [(.sym "x0", .int 1), (exZ, .int 1)]) = some (σ "x" + σ "y" + σ "z") := by
    simp [evalS, evalSTerms, Interp.setSym, MC, exZ, add2, mul2]
  have h2 : evalS (MC σ) (.add (.int 0) [(exX, .int 1), (exY, .int 1), (exZ, .int 1)])
      = some (σ "x" + (σ "y" + σ "z")) := by
    simp [evalS, evalSTerms, MC, exX, exY, exZ, add2, mul2]
  have h := (cse_certificate_sound (MC σ) (MC_lawful σ) exInputs exReduced exReps ex_check _ hE).2
  exact ⟨_, _, _, hE, h1, h2, h 0 _ _ rfl rfl _ _ h1 h2⟩

example : Fresh exInputs exReps := cse_fresh ex_check
example : Ordered exReps := cse_ordered ex_check

end C37
end SymVerif
