import SymVerif.Model.FiniteDiff
import SymVerif.Lemmas.C38Math
import SymVerif.Lemmas.C38Loop
import SymVerif.Lemmas.C38Bounds
/-!
C38 — finite-difference weights are exact.

`fdiff_exact`: for every non-empty grid of pairwise distinct rationals, every centre and every
`maxDeriv`, the model of `generate_fdiff_weights_vector` terminates without an out-of-range index and
without a division by zero, returns `len*(maxDeriv+1)` weights, and for every `k ≤ maxDeriv` and every
polynomial `P` of degree `< len`:  `Σ_j w[j + k*len] * P(x_j) = P^(k)(centre)`.
-/
namespace SymVerif.C38
open SymVerif.FiniteDiff Polynomial Finset

section
variable (x : ℕ → ℚ) (z : ℚ) (len M : ℕ) (hinj : Set.InjOn x (Finset.range len))
include hinj

theorem iLoop_spec (grid : Array ℚ) (hlen : grid.size = len) (hx : ∀ m, x m = rd grid m) :
    ∀ (rem i : ℕ) (w : Array ℚ), i + 1 + rem = len → Mat w len M (S x z i) →
    ∃ w', iLoop grid z len M rem (i + 1) (cprod x i i) (x i - z) w = .ok w' ∧
      Mat w' len M (S x z (len - 1)) := by
  intro rem
  induction rem with
  | zero =>
    intro i w hi hm
    have : len - 1 = i := by omega
    rw [this]
    exact ⟨w, rfl, hm⟩
  | succ rem ih =>
    intro i w hi hm
    have hil : i + 1 < len := by omega
    have hg1 : getG grid (i + 1) = .ok (x (i + 1)) := by rw [getG_ok (by omega), hx]
    have hm0 : Mat w len M (G x z i 0) := by
      refine hm.congr ?_
      intro j' _ k _
      have h1 : ¬ (j' = i + 1 ∧ 0 = i + 1) := by omega
      simp [S, G]
    obtain ⟨w1, hw1, hm1⟩ := jLoop_spec x z len M i hinj hil grid hlen hx (i + 1) 0 w (by omega) hm0
    have hm1' : Mat w1 len M (S x z (i + 1)) := by
      refine hm1.congr ?_
      intro j' _ k _
      unfold G S
      by_cases h1 : j' < i + 1
      · have h2 : j' ≤ i + 1 := by omega
        simp [h1, h2]
      · by_cases h2 : j' = i + 1
        · subst h2; simp
        · have h3 : ¬ (j' ≤ i) := by omega
          have h4 : ¬ (j' ≤ i + 1) := by omega
          simp [h1, h2, h3, h4]
    obtain ⟨w', hw', hm'⟩ := ih (i + 1) w1 (by omega) hm1'
    refine ⟨w', ?_, hm'⟩
    have hc0 : cprod x (i + 1) 0 = 1 := by simp [cprod]
    rw [hc0] at hw1
    have hmn : (if i + 1 < M then i + 1 else M) = mnOf (i + 1) M := rfl
    simp only [iLoop, hg1, hmn, hw1, hw', bind, Except.bind]

theorem weights_spec (grid : Array ℚ) (hlen : grid.size = len) (hx : ∀ m, x m = rd grid m)
    (hpos : 0 < len) :
    ∃ w, weights grid M z = .ok w ∧ Mat w len M (S x z (len - 1)) := by
  have hg0 : getG grid 0 = .ok (x 0) := by rw [getG_ok (by omega), hx]
  have hmr : Mat (Array.replicate (len * (M + 1)) (0 : ℚ)) len M (fun _ _ => 0) := by
    refine ⟨by simp, ?_⟩
    intro j hj k hk
    have := idx_lt hj hk
    simp [rd, Array.getD, this]
  obtain ⟨w0, hw0, hm0⟩ := hmr.set0 hpos 1
  have hm0' : Mat w0 len M (S x z 0) := by
    refine hm0.congr ?_
    intro j' _ k _
    unfold S
    by_cases hj : j' = 0
    · subst hj
      cases k with
      | zero => simp [dv_zero_zero]
      | succ k => simp [dv_zero_succ]
    · have : ¬ (j' ≤ 0) := by omega
      simp [hj, this]
  obtain ⟨w', hw', hm'⟩ := iLoop_spec x z len M hinj grid hlen hx (len - 1) 0 w0 (by omega) hm0'
  refine ⟨w', ?_, hm'⟩
  have hc0 : cprod x 0 0 = 1 := by simp [cprod]
  rw [hc0] at hw'
  simp only [weights, hlen, hg0, hw0, hw', bind, Except.bind]

end

/-- the decidable precondition of the property: a non-empty grid of pairwise distinct points -/
def GoodGrid (grid : Array ℚ) : Prop := 0 < grid.size ∧ grid.toList.Nodup

instance (grid : Array ℚ) : Decidable (GoodGrid grid) := by unfold GoodGrid; infer_instance

theorem injOn_of_nodup (grid : Array ℚ) (hd : grid.toList.Nodup) :
    Set.InjOn (fun m => rd grid m) (Finset.range grid.size) := by
  intro a ha b hb hab
  simp only [coe_range, Set.mem_Iio] at ha hb
  simp only [rd, Array.getD, ha, hb, dif_pos] at hab
  have h1 : grid.toList[a]'(by simpa using ha) = grid.toList[b]'(by simpa using hb) := by
    simpa using hab
  exact (hd.getElem_inj_iff).mp h1

/-- **C38, full statement.**  For every non-empty grid of distinct rationals, every centre `z`, every
`M = max_deriv`: the model returns (no out-of-range index, no division by zero) a vector `w` of
`len*(M+1)` weights such that for every order `k ≤ M` and every polynomial `P` of degree `< len`,
the order-`k` weights applied to the values of `P` on the grid give exactly `P^(k)(z)`. -/
theorem fdiff_exact (grid : Array ℚ) (M : ℕ) (z : ℚ) (hg : GoodGrid grid) :
    ∃ w, weights grid M z = .ok w ∧ w.size = grid.size * (M + 1) ∧
      ∀ k ≤ M, ∀ P : ℚ[X], P.degree < grid.size →
        ∑ j ∈ range grid.size, w.getD (j + k * grid.size) 0 * P.eval (grid.getD j 0)
          = (derivative^[k] P).eval z := by
  obtain ⟨hpos, hd⟩ := hg
  have hinj := injOn_of_nodup grid hd
  obtain ⟨w, hw, hm⟩ := weights_spec (fun m => rd grid m) z grid.size M hinj grid rfl (fun _ => rfl) hpos
  refine ⟨w, hw, hm.1, ?_⟩
  intro k hk P hP
  obtain ⟨n, hn⟩ : ∃ n, grid.size = n + 1 := ⟨grid.size - 1, by omega⟩
  have hsum := sum_dv_eq (fun m => rd grid m) z n (by rw [← hn]; exact hinj) k P (by rw [← hn]; exact hP)
  rw [← hsum, hn]
  refine sum_congr rfl fun j hj => ?_
  have hj' : j < grid.size := by rw [hn]; exact mem_range.mp hj
  have := hm.2 j hj' k hk
  rw [hn] at this
  have hle : j ≤ n := by have := mem_range.mp hj; omega
  simp only [rd, S, Nat.add_sub_cancel, hle, if_true] at this
  rw [this]
  rfl

/-- every index the model computes stays inside `grid` / `weights` (non-empty distinct grids) -/
theorem fdiff_inbounds (grid : Array ℚ) (M : ℕ) (z : ℚ) (hg : GoodGrid grid) :
    weights grid M z ≠ .error .oob := by
  obtain ⟨w, hw, _⟩ := fdiff_exact grid M z hg
  rw [hw]; simp

/-- **bounds, unconditional**: for every non-empty grid — repeated points included, where the run
ends in `Err.divzero` — no index leaves `grid` / `weights` -/
theorem fdiff_inbounds_all (grid : Array ℚ) (M : ℕ) (z : ℚ) (hne : 0 < grid.size) :
    weights grid M z ≠ .error .oob := by
  rcases weights_safe grid M z hne with h | ⟨w, h, _⟩ <;> rw [h] <;> simp

/-- the order-0 row is the Lagrange interpolation weights: they sum to one -/
theorem fdiff_row0_sum_one (grid : Array ℚ) (M : ℕ) (z : ℚ) (hg : GoodGrid grid) :
    ∃ w, weights grid M z = .ok w ∧ ∑ j ∈ range grid.size, w.getD j 0 = 1 := by
  obtain ⟨w, hw, _, h⟩ := fdiff_exact grid M z hg
  refine ⟨w, hw, ?_⟩
  have := h 0 (Nat.zero_le _) 1 (by
    rw [degree_one]; exact_mod_cast hg.1)
  simpa using this

/-- every derivative row (order `1 ≤ k ≤ M`) annihilates constants: its weights sum to zero -/
theorem fdiff_rowk_sum_zero (grid : Array ℚ) (M : ℕ) (z : ℚ) (hg : GoodGrid grid) :
    ∃ w, weights grid M z = .ok w ∧
      ∀ k, 1 ≤ k → k ≤ M → ∑ j ∈ range grid.size, w.getD (j + k * grid.size) 0 = 0 := by
  obtain ⟨w, hw, _, h⟩ := fdiff_exact grid M z hg
  refine ⟨w, hw, ?_⟩
  intro k hk1 hkM
  have := h k hkM 1 (by rw [degree_one]; exact_mod_cast hg.1)
  rw [iterate_derivative_one (by omega)] at this
  simpa using this

/-- **uniqueness**: the returned order-`k` row is the *only* weight vector on the grid that is exact on all
polynomials of degree `< len` — any other exact rule `v` coincides with it entry by entry.  (So a change to
the recurrences that still returned *some* consistent-looking numbers cannot satisfy `fdiff_exact`.) -/
theorem fdiff_unique (grid : Array ℚ) (M : ℕ) (z : ℚ) (hg : GoodGrid grid) :
    ∃ w, weights grid M z = .ok w ∧
      ∀ k ≤ M, ∀ v : ℕ → ℚ,
        (∀ P : ℚ[X], P.degree < grid.size →
          ∑ j ∈ range grid.size, v j * P.eval (grid.getD j 0) = (derivative^[k] P).eval z) →
        ∀ i < grid.size, v i = w.getD (i + k * grid.size) 0 := by
  obtain ⟨w, hw, _, h⟩ := fdiff_exact grid M z hg
  refine ⟨w, hw, ?_⟩
  intro k hk v hv i hi
  have hinj : Set.InjOn (fun j => grid.getD j 0) (range grid.size) := by
    have := injOn_of_nodup grid hg.2
    intro a ha b hb hab
    apply this ha hb
    simpa [rd] using hab
  have him : i ∈ range grid.size := mem_range.mpr hi
  set B : ℚ[X] := Lagrange.basis (range grid.size) (fun j => grid.getD j 0) i with hB
  have hdeg : B.degree < grid.size := by
    rw [hB, Lagrange.degree_basis hinj him, card_range]
    have : 0 < grid.size := hg.1
    exact_mod_cast Nat.sub_lt this Nat.one_pos
  have hev : ∀ j ∈ range grid.size, B.eval (grid.getD j 0) = if j = i then 1 else 0 := by
    intro j hj
    by_cases hji : j = i
    · subst hji
      rw [if_pos rfl, hB]
      exact Lagrange.eval_basis_self (v := fun j => grid.getD j 0) hinj him
    · rw [if_neg hji, hB]
      exact Lagrange.eval_basis_of_ne (v := fun j => grid.getD j 0) (Ne.symm hji) hj
  have e1 := hv B hdeg
  have e2 := h k hk B hdeg
  rw [← e2] at e1
  have s1 : ∑ j ∈ range grid.size, v j * B.eval (grid.getD j 0) = v i := by
    rw [sum_congr rfl (fun j hj => by rw [hev j hj])]
    simp [him]
  have s2 : ∑ j ∈ range grid.size, w.getD (j + k * grid.size) 0 * B.eval (grid.getD j 0)
      = w.getD (i + k * grid.size) 0 := by
    rw [sum_congr rfl (fun j hj => by rw [hev j hj])]
    simp [him]
  rw [s1, s2] at e1
  exact e1

/-- the empty grid is outside the function's domain: the C++ reads `grid[0]` -/
theorem fdiff_empty (M : ℕ) (z : ℚ) : weights #[] M z = .error .oob := rfl

/-- non-vacuity: the classical 3-point central stencil `-1, 0, 1` around `0` with two derivatives -/
example : GoodGrid #[-1, 0, 1] := by decide +kernel
example : weights #[-1, 0, 1] 2 0 = .ok #[0, 1, 0, -1/2, 0, 1/2, 1, -2, 1] := by decide +kernel
/-- a repeated point is a division by zero -/
example : weights #[1, 1] 1 0 = .error .divzero := by decide +kernel

end SymVerif.C38
