import SymVerif.Lemmas.C10Fn
import SymVerif.Lemmas.C10Cache
import SymVerif.Lemmas.C10Absent
import SymVerif.Lemmas.NFSound
import SymVerif.Lemmas.C10Bridge
import Mathlib.Analysis.SpecialFunctions.Complex.Log
/-!
# C10 — differentiation is correct

Model: `Model/Diff.lean` (`diffE`: the rules of `DiffVisitor`, unsimplified; `diffC`: the same traversal with the
`visited` memo table; `judge`: the certificate check the driver runs on the library's result).

* `diff_correct_partial`    over ℝ: for every tree of the fragment `Ok ρ e` (numeric coefficients; integer,
                            rational and symbolic powers; sin cos tan cot sec csc asin acos atan sinh cosh tanh
                            coth sech csch asinh acosh log, exp and sqrt as powers) regular at `ρ`,
                            `t ↦ ⟦e⟧(ρ[x ↦ t])` has derivative `⟦diffE x e⟧ρ` at `ρ x`
* `diff_absent`             `x` does not occur in `e` ⇒ `diffE x e` normalises to the zero fraction (any tree)
* `diff_cache`              the memoised traversal returns literally the same tree as the plain one
* `judge_ok`, `certificate_sound`, `judge_absent_zero`
                            the driver prints `ok` only if `NF.equiv R (diffE x e)`; then `R` and `diffE x e`
                            have the same value in every field of characteristic 0 under every assignment of the
                            atoms where both are defined; and if `x` is absent, `R` is the integer 0 itself
* `certificate_real`, `library_result_is_derivative`
                            with the bridge of `Lemmas/C10Bridge.lean` (`DumpFaithful ρ`): `ok` ⇒ the library's
                            result evaluates, over ℝ, to the derivative of `e` at every regular point
* `C10_full`                (def, not proved) the property for all node kinds and complex points
-/
namespace SymVerif
namespace C10
open SymVerif Expr Diff

/-! ### the product rule over a `Mul` dictionary -/

/-- derivative of `Π bᵢ^eᵢ` at `ρ` (specification used by the induction) -/
noncomputable def dFacsR (x : String) (ρ : String → ℝ) : List (Expr × Expr) → ℝ
  | [] => 0
  | (b, e) :: t =>
    evalR ρ (powRule b e (diffE x b) (diffE x e)) * evalFacsR ρ t
      + powV (evalR ρ b) e (evalR ρ e) * dFacsR x ρ t

/-- the list of summands produced by `diffFacs` adds up to `c · Π pre · (Π fs)'` -/
theorem diffFacs_eval (x : String) (ρ : String → ℝ) (c : Expr) : ∀ (fs pre : List (Expr × Expr)),
    evalTermsR ρ (diffFacs x c pre fs) = evalR ρ c * evalFacsR ρ pre * dFacsR x ρ fs
  | [], pre => by simp [diffFacs, evalTermsR, dFacsR]
  | (b, e) :: t, pre => by
    simp only [diffFacs, evalTermsR, dFacsR, evalR]
    rw [diffFacs_eval x ρ c t (pre ++ [(b, e)])]
    simp only [evalFacsR_append, evalFacsR, powV_int, zpow_one, Int.cast_one, mul_one]
    ring

section Main
variable (x : String) (ρ : String → ℝ)

theorem sym_correct (s : String) :
    HasDerivAt (fun t => evalR (upd ρ x t) (.sym s)) (evalR ρ (diffE x (.sym s))) (ρ x) := by
  simp only [evalR, diffE]
  by_cases h : s = x
  · subst h
    have hf : (fun t => upd ρ s t s) = fun t => t := by funext t; simp [upd]
    rw [hf]
    have hv : evalR ρ (if (s == s) = true then Expr.int 1 else Expr.int 0) = 1 := by simp [evalR]
    rw [hv]
    exact hasDerivAt_id' (ρ s)
  · have hf : (fun t => upd ρ x t s) = fun _ => ρ s := by
      funext t; simp [upd, Function.update, h]
    rw [hf]
    have hv : evalR ρ (if (s == x) = true then Expr.int 1 else Expr.int 0) = 0 := by simp [evalR, h]
    rw [hv]
    exact hasDerivAt_const (ρ x) (ρ s)

mutual
  theorem diffE_correct : ∀ (e : Expr), Ok ρ e →
      HasDerivAt (fun t => evalR (upd ρ x t) e) (evalR ρ (diffE x e)) (ρ x)
    | .int n, _ => by simpa [evalR, diffE] using hasDerivAt_const (ρ x) (n : ℝ)
    | .rat n d, _ => by simpa [evalR, diffE] using hasDerivAt_const (ρ x) ((n : ℝ) / (d : ℝ))
    | .sym s, _ => sym_correct x ρ s
    | .const c, _ => by simpa [evalR, diffE] using hasDerivAt_const (ρ x) (constR c)
    | .add c ts, h => by
      simp only [Ok] at h
      have hT := diffTerms_correct ts h.2
      have hf : (fun t => evalR (upd ρ x t) (.add c ts)) = fun t => evalR ρ c + evalTermsR (upd ρ x t) ts := by
        funext t; simp only [evalR]; rw [evalR_realNum (ρ' := ρ) h.1]
      rw [hf]
      simpa [evalR, diffE] using hT.const_add (evalR ρ c)
    | .mul c fs, h => by
      simp only [Ok] at h
      have hF := diffFacs_correct fs h.2
      have hf : (fun t => evalR (upd ρ x t) (.mul c fs)) = fun t => evalR ρ c * evalFacsR (upd ρ x t) fs := by
        funext t; simp only [evalR]; rw [evalR_realNum (ρ' := ρ) h.1]
      rw [hf]
      have hv : evalR ρ (diffE x (.mul c fs)) = evalR ρ c * dFacsR x ρ fs := by
        simp [diffE, evalR, diffFacs_eval, evalFacsR]
      rw [hv]
      exact hF.const_mul (evalR ρ c)
    | .pow b e, h => by
      simp only [Ok] at h
      simp only [evalR, diffE]
      exact powRule_correct x ρ b e (diffE_correct b h.1) (diffE_correct e h.2.1) h.2.1 h.2.2
    | .app hd [a], h => by
      simp only [Ok] at h
      simp only [evalR, diffE, diffList]
      exact fn_correct x ρ hd a (diffE_correct a h.1) h.2
    | .app _ [], h => by simp [Ok] at h
    | .app _ (_ :: _ :: _), h => by simp [Ok] at h
    | .cplx _ _, h => by simp [Ok] at h
    | .dbl _, h => by simp [Ok] at h
    | .cdbl _ _, h => by simp [Ok] at h
    | .infty _, h => by simp [Ok] at h
    | .nan, h => by simp [Ok] at h
    | .dummy _ _, h => by simp [Ok] at h
    | .fsym _ _, h => by simp [Ok] at h
    | .bool _, h => by simp [Ok] at h
  theorem diffTerms_correct : ∀ (ts : List (Expr × Expr)), OkTerms ρ ts →
      HasDerivAt (fun t => evalTermsR (upd ρ x t) ts) (evalTermsR ρ (diffTerms x ts)) (ρ x)
    | [], _ => by simpa [evalTermsR, diffTerms] using hasDerivAt_const (ρ x) (0 : ℝ)
    | (k, c) :: t, h => by
      simp only [OkTerms] at h
      have hk := diffE_correct k h.1
      have ht := diffTerms_correct t h.2.2
      have hf : (fun s => evalTermsR (upd ρ x s) ((k, c) :: t))
          = fun s => evalR (upd ρ x s) k * evalR ρ c + evalTermsR (upd ρ x s) t := by
        funext s; simp only [evalTermsR]; rw [evalR_realNum (ρ' := ρ) h.2.1]
      rw [hf]
      simp only [diffTerms, evalTermsR]
      exact (hk.mul_const (evalR ρ c)).add ht
  theorem diffFacs_correct : ∀ (fs : List (Expr × Expr)), OkFacs ρ fs →
      HasDerivAt (fun t => evalFacsR (upd ρ x t) fs) (dFacsR x ρ fs) (ρ x)
    | [], _ => by simpa [evalFacsR, dFacsR] using hasDerivAt_const (ρ x) (1 : ℝ)
    | (b, e) :: t, h => by
      simp only [OkFacs] at h
      have hp := powRule_correct x ρ b e (diffE_correct b h.1) (diffE_correct e h.2.1) h.2.1 h.2.2.1
      have ht := diffFacs_correct t h.2.2.2
      have hm := hp.mul ht
      simp only [upd_self] at hm
      simp only [evalFacsR, dFacsR]
      exact hm
end

end Main

/-- **Differentiation is correct (model, over ℝ).**  For every tree `e` of the fragment that is regular at the
assignment `ρ`, the real function `t ↦ ⟦e⟧(ρ[x ↦ t])` is differentiable at `ρ x` and its derivative is the value of
the model's symbolic derivative `diffE x e` at `ρ`. -/
theorem diff_correct_partial (x : String) (ρ : String → ℝ) (e : Expr) (h : Ok ρ e) :
    HasDerivAt (fun t => evalR (Function.update ρ x t) e) (evalR ρ (diffE x e)) (ρ x) :=
  diffE_correct x ρ e h

/-- non-vacuity: `d/dx (x² · sin x + 1/x)` at `x = 2` -/
example : HasDerivAt
    (fun t : ℝ => t ^ (2 : ℤ) * Real.sin t + t ^ (-1 : ℤ))
    (evalR (fun _ => 2) (diffE "x"
      (.add (.int 0) [(.mul (.int 1) [(.sym "x", .int 2), (.app "Sin" [.sym "x"], .int 1)], .int 1),
                      (.pow (.sym "x") (.int (-1)), .int 1)]))) 2 := by
  have h := diff_correct_partial "x" (fun _ => 2)
    (.add (.int 0) [(.mul (.int 1) [(.sym "x", .int 2), (.app "Sin" [.sym "x"], .int 1)], .int 1),
                    (.pow (.sym "x") (.int (-1)), .int 1)])
    (by simp [Ok, OkTerms, OkFacs, PowOk, FnOk, isRealNum, evalR])
  have hf : (fun t : ℝ => evalR (Function.update (fun _ => (2 : ℝ)) "x" t)
      (.add (.int 0) [(.mul (.int 1) [(.sym "x", .int 2), (.app "Sin" [.sym "x"], .int 1)], .int 1),
                      (.pow (.sym "x") (.int (-1)), .int 1)]))
      = fun t : ℝ => t ^ (2 : ℤ) * Real.sin t + t ^ (-1 : ℤ) := by
    funext t
    simp [evalR, evalTermsR, evalFacsR, fnR]
  rw [hf] at h
  exact h

/-! ### cache, absent symbol, certificate -/

/-- **Cache independence (model).** -/
theorem diff_cache (x : String) (e : Expr) : diffCached x e = diffE x e := Diff.diff_cache x e

/-- **Zero when the symbol is absent (model).** -/
theorem diff_absent (x : String) (e : Expr) (h : occurs x e = false) :
    NF.equivF (NF.normT (diffE x e)) NF.zeroF = true := Diff.diff_absent_equiv x e h

example : NF.equivF (NF.normT (diffE "y" (.mul (.int 3) [(.app "Sin" [.sym "x"], .int 2), (.fsym "f" [.sym "x"], .int 1)])))
    NF.zeroF = true := diff_absent "y" _ (by decide)

theorem judgeNF_ok {e r d : Expr} (h : judgeNF e r d = .ok) : NF.equiv r d = true := by
  unfold judgeNF at h
  split at h
  · cases h
  split at h
  · cases h
  · cases h
  · rename_i h1 h2
    by_cases heq : NF.equivF (NF.normT r) (NF.normT d) = true
    · simp [NF.equiv, NF.norm, h1, h2, heq]
    · rw [if_neg heq] at h
      split at h
      · cases h
      · split at h <;> cases h

/-- what `ok` from the driver means: the normal forms of the library's result and of `diffE x e` agree
(with or without the memo table) -/
theorem judge_ok {c : Bool} {x : String} {e r : Expr} (h : judge c x e r = .ok) :
    NF.equiv r (diffE x e) = true := by
  unfold judge at h
  split at h
  · cases h
  · by_cases hb : absentBad x e r = true
    · rw [if_pos hb] at h; cases h
    · rw [if_neg hb] at h
      have hd : (if c = true then diffCached x e else diffE x e) = diffE x e := by
        simp [Diff.diff_cache]
      rw [hd] at h
      exact judgeNF_ok h

/-- when `x` does not occur, `ok` is only printed for the integer 0 itself -/
theorem judge_absent_zero {c : Bool} {x : String} {e r : Expr} (h : judge c x e r = .ok)
    (hx : occurs x e = false) : r = .int 0 := by
  unfold judge at h
  split at h
  · cases h
  · by_cases hb : absentBad x e r = true
    · rw [if_pos hb] at h; cases h
    · have : Expr.eqb r (.int 0) = true := by
        cases hq : Expr.eqb r (.int 0)
        · exact absurd (by simp [absentBad, hx, hq]) hb
        · rfl
      exact Expr.eqb_eq r (.int 0) this

/-- **Certificate soundness.**  If the driver prints `ok` for the library's result `r`, then in every field of
characteristic 0 with a square root `I` of -1 and under every assignment `ρ` of the atoms (symbols, constants,
function applications, non-integer powers — keyed by their canonical dump), `r` and the model's derivative
`diffE x e` have the same value wherever both are defined. -/
theorem certificate_sound {K : Type*} [Field K] [CharZero K] {I : K} (hI : I * I = -1) (ρ : String → K)
    {c : Bool} {x : String} {e r : Expr} (h : judge c x e r = .ok) {vr vd : K}
    (hr : NF.evalK I ρ r = some vr) (hd : NF.evalK I ρ (diffE x e) = some vd) : vr = vd :=
  NF.equiv_sound hI (judge_ok h) hr hd

/-- non-vacuity: the library's `3*x**2` is accepted for `d/dx x**3` (with and without the memo table),
`2*x**2` is rejected -/
theorem ex_judge_ok : judge false "x" (.pow (.sym "x") (.int 3)) (.mul (.int 3) [(.sym "x", .int 2)]) = .ok := by
  simp [judge, judgeNF, affordable, est, estFacs, estTerms, capMul, capPow, capN, absentBad, unsupported, occurs, diffE,
    powRule, isNumLit, decExp, Expr.eqb,
    NF.firstErr, NF.firstErrFacs, NF.powErr, NF.orElseErr, NF.maxExp, NF.normT, NF.normFacs, NF.intLit?, NF.mulF,
    NF.powF, NF.npowF, NF.atomF, NF.constF, NF.equivF, NF.patom, NF.pone, NF.pconst, NF.ppow, NF.pmul, NF.pmulTerm,
    NF.padd, NF.mmul, NF.mlt, NF.GI.mul, NF.GI.add, NF.GI.isZero, NF.GI.one, NF.GI.ofInt, NF.oneF]

example (ρ : String → ℂ) :
    (3 : ℂ) * (ρ (Expr.dumpCanon (.sym "x")) ^ (2 : ℤ) * 1)
      = 3 * (ρ (Expr.dumpCanon (.sym "x")) ^ (2 : ℤ) * ((1 : ℂ) ^ (1 : ℤ) * 1)) := by
  have h := certificate_sound (I := Complex.I) Complex.I_mul_I ρ ex_judge_ok
    (vr := 3 * (ρ (Expr.dumpCanon (.sym "x")) ^ (2 : ℤ) * 1))
    (vd := 3 * (ρ (Expr.dumpCanon (.sym "x")) ^ (2 : ℤ) * ((1 : ℂ) ^ (1 : ℤ) * 1)))
    (by simp [NF.evalK, NF.evalFacs, NF.intLit?, NF.powVal, NF.mul2])
    (by simp [diffE, powRule, isNumLit, decExp, NF.evalK, NF.evalFacs, NF.intLit?, NF.powVal, NF.mul2])
  exact h

/-! ### end to end over ℝ -/

/-- the accepted result has the same *real* value as the model's derivative (`DumpFaithful`: see
`Lemmas/C10Bridge.lean`; `RealDef`: number leaves well formed and no `0 ^ negative`) -/
theorem certificate_real {ρ : String → ℝ} (hf : DumpFaithful ρ) {c : Bool} {x : String} {e r : Expr}
    (h : judge c x e r = .ok) (hr : RealDef ρ r) (hd : RealDef ρ (diffE x e)) :
    evalR ρ r = evalR ρ (diffE x e) := equiv_real hf (judge_ok h) hr hd

/-- **The library's result is the derivative.**  If the driver printed `ok` for the library's result `r` of
`diff(e, x)`, then at every regular point of the real fragment `r` evaluates to the derivative of `e`. -/
theorem library_result_is_derivative {ρ : String → ℝ} (hf : DumpFaithful ρ) {c : Bool} {x : String} {e r : Expr}
    (h : judge c x e r = .ok) (hr : RealDef ρ r) (hd : RealDef ρ (diffE x e)) (hok : Ok ρ e) :
    HasDerivAt (fun t => evalR (Function.update ρ x t) e) (evalR ρ r) (ρ x) := by
  rw [certificate_real hf h hr hd]
  exact diff_correct_partial x ρ e hok

/-! ### the full statement (not proved) -/

/-- complex value of the function heads (principal branches) -/
noncomputable def fnC (h : String) (v : ℂ) : ℂ :=
  match h with
  | "Sin" => Complex.sin v
  | "Cos" => Complex.cos v
  | "Tan" => Complex.tan v
  | "Sinh" => Complex.sinh v
  | "Cosh" => Complex.cosh v
  | "Tanh" => Complex.tanh v
  | "Log" => Complex.log v
  | "ACosh" => Complex.log (v + Complex.exp (Complex.log (v - 1) / 2) * Complex.exp (Complex.log (v + 1) / 2))
  | _ => 0

mutual
  /-- complex semantics: integer literal exponents are integer powers, all other powers are `Complex.cpow` -/
  noncomputable def evalC (ρ : String → ℂ) : Expr → ℂ
    | .int n => (n : ℂ)
    | .rat n d => (n : ℂ) / (d : ℂ)
    | .cplx re im => ((re.num : ℂ) / (re.den : ℂ)) + Complex.I * ((im.num : ℂ) / (im.den : ℂ))
    | .sym s => ρ s
    | .const c => (constR c : ℂ)
    | .add c ts => evalC ρ c + evalTermsC ρ ts
    | .mul c fs => evalC ρ c * evalFacsC ρ fs
    | .pow b (.int n) => evalC ρ b ^ n
    | .pow b e => evalC ρ b ^ evalC ρ e
    | .app h [a] => fnC h (evalC ρ a)
    | _ => 0
  noncomputable def evalTermsC (ρ : String → ℂ) : List (Expr × Expr) → ℂ
    | [] => 0
    | (k, c) :: t => evalC ρ k * evalC ρ c + evalTermsC ρ t
  noncomputable def evalFacsC (ρ : String → ℂ) : List (Expr × Expr) → ℂ
    | [] => 1
    | (b, .int n) :: t => evalC ρ b ^ n * evalFacsC ρ t
    | (b, e) :: t => evalC ρ b ^ evalC ρ e * evalFacsC ρ t
end

/-- The full property on the elementary fragment at complex points (**not proved**; `diff_correct_partial`
covers the real points).  With `"ACosh"` among the heads it is *false* for the rule coded in derivative.cpp
(`1/sqrt(x²-1)` has the wrong sign for `Re x < 0`, see docs/C10.md); the harness oracle reports that. -/
def C10_full : Prop :=
  ∀ (x : String) (ρ : String → ℂ) (e : Expr), Diff.unsupported e = none →
    DifferentiableAt ℂ (fun t => evalC (Function.update ρ x t) e) (ρ x) →
    HasDerivAt (fun t => evalC (Function.update ρ x t) e) (evalC ρ (diffE x e)) (ρ x)

end C10
end SymVerif
