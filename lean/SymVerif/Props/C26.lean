import SymVerif.Model.MatExprWF
import SymVerif.Lemmas.C26Pred3
import SymVerif.Lemmas.C26Size
import SymVerif.Lemmas.C26Unary
import SymVerif.Lemmas.C26Add
import SymVerif.Lemmas.C26Had
import SymVerif.Lemmas.C26Mul2
import SymVerif.Lemmas.C26Trace
import SymVerif.Lemmas.C26Leaf
/-!
# C26  Matrix expressions preserve value; their predicates are sound

Model: `SymVerif.Model.MatExpr` (the functions the driver `Drv/C26.lean` runs).
Semantics: `valOf env e : Val` (rows, columns, entries) under an environment `env` interpreting
matrix symbols (any matrix) and dimension symbols (any natural number); `okOf env e` says that all
shapes inside `e` fit, i.e. that the value is defined.  `≃` is equality of matrices (same shape, same
entries inside the shape).

Every theorem quantifies over all inputs and all environments and is about results `.ok r` of the
model (`E:Domain` / `E:Assert` outcomes are compared with the library by the correspondence run).
-/
namespace SymVerif.C26
open SymVerif.MatExpr SymVerif.MatExpr.MExpr

/-! ## value preservation of the constructors -/

/-- `diagonal_matrix`: the result (ZeroMatrix, IdentityMatrix or DiagonalMatrix) has the value of the
    diagonal matrix with the given container. -/
theorem diagonal_matrix_value (env : Env) (d : List GQ) (r : MExpr) (h : diagonalMatrix d = .ok r) :
    okOf env r ∧ valOf env r ≃ valOf env (diag d) :=
  diagonalMatrix_value env d r h

example : diagonalMatrix [⟨1, 0⟩, ⟨1, 0⟩, ⟨1, 0⟩] = .ok (ident (.nat 3)) := by with_unfolding_all rfl

/-- `immutable_dense_matrix`: the result (ZeroMatrix, IdentityMatrix, DiagonalMatrix or
    ImmutableDenseMatrix) has the value of the dense matrix with the given container. -/
theorem immutable_dense_matrix_value (env : Env) (r c : Nat) (v : List GQ) (e : MExpr)
    (h : immutableDenseMatrix r c v = .ok e) :
    okOf env e ∧ okOf env (dense r c v) ∧ valOf env e ≃ valOf env (dense r c v) :=
  immutableDenseMatrix_value env r c v e h

example : immutableDenseMatrix 2 2 [⟨2, 0⟩, ⟨0, 0⟩, ⟨0, 0⟩, ⟨3, 0⟩] = .ok (diag [⟨2, 0⟩, ⟨3, 0⟩]) := by
  with_unfolding_all rfl

/-- `matrix_add`: whenever the sum of the operand values is defined, the result is defined and has
    that value (flattening, dropping of zero matrices, merging of diagonal and dense terms). -/
theorem matrix_add_value (env : Env) (ts : List MExpr) (r : MExpr) (h : matrixAdd ts = .ok r)
    (hok : okOf env (add ts)) : okOf env r ∧ valOf env r ≃ valOf env (add ts) :=
  matrixAdd_value env ts r h hok

example (env : Env) :
    valOf env (dense 2 2 [⟨2, 0⟩, ⟨2, 0⟩, ⟨3, 0⟩, ⟨6, 0⟩])
      ≃ valOf env (add [diag [⟨1, 0⟩, ⟨2, 0⟩], zero (.nat 2) (.nat 2),
          dense 2 2 [⟨1, 0⟩, ⟨2, 0⟩, ⟨3, 0⟩, ⟨4, 0⟩]]) :=
  (matrix_add_value env _ _ (by with_unfolding_all rfl)
    ⟨by simp, by simp [okAll, okOf], by
      intro a ha b hb
      simp [valsOf, valOf, Dim.eval] at ha hb
      rcases ha with rfl | rfl | rfl <;> rcases hb with rfl | rfl | rfl <;> simp⟩).2

/-- `matrix_mul` (argument vector of scalars and matrix expressions): whenever the product of the
    scalars times the chain product of the matrix operands is defined, the result is defined and has
    that value (extraction of nested products and scalars, zero absorption, dropping of identities,
    merging of adjacent diagonal / dense factors). -/
theorem matrix_mul_value (env : Env) (fs : List Factor) (r : MExpr) (h : matrixMul fs = .ok r)
    (hok : okOf env (mul (scalarsOf fs) (matsOf fs))) :
    okOf env r ∧ valOf env r ≃ valOf env (mul (scalarsOf fs) (matsOf fs)) :=
  matrixMul_value_aux env fs r h hok

example (env : Env) :=
  (matrix_mul_value env
    [.scalar ⟨2, 0⟩, .mat (ident (.nat 2)), .mat (diag [⟨2, 0⟩, ⟨-3, 0⟩]),
      .mat (dense 2 2 [⟨1, 0⟩, ⟨2, 0⟩, ⟨3, 0⟩, ⟨4, 0⟩])]
    (mul ⟨2, 0⟩ [dense 2 2 [⟨2, 0⟩, ⟨4, 0⟩, ⟨-9, 0⟩, ⟨-12, 0⟩]]) (by with_unfolding_all rfl)
    ⟨by simp [matsOf], by simp [matsOf, okAll, okOf],
      by simp [matsOf, valsOf, valOf, ChainOk, Dim.eval]⟩).2

example : matrixMul [.scalar ⟨2, 0⟩, .mat (sym "X"), .mat (ident (.nat 2)),
      .mat (diag [⟨2, 0⟩, ⟨-3, 0⟩]), .mat (dense 2 2 [⟨1, 0⟩, ⟨2, 0⟩, ⟨3, 0⟩, ⟨4, 0⟩])]
    = .ok (mul ⟨2, 0⟩ [sym "X", dense 2 2 [⟨2, 0⟩, ⟨4, 0⟩, ⟨-9, 0⟩, ⟨-12, 0⟩]]) := by with_unfolding_all rfl

/-- zero absorption gives the shape of the product, not of the zero factor -/
example : matrixMul [.mat (dense 2 3 [⟨1, 0⟩, ⟨2, 0⟩, ⟨3, 0⟩, ⟨4, 0⟩, ⟨5, 0⟩, ⟨6, 0⟩]),
      .mat (zero (.nat 3) (.nat 4))] = .ok (zero (.nat 2) (.nat 4)) := by with_unfolding_all rfl

/-- the scalar survives a product of identities -/
example : matrixMul [.scalar ⟨2, 0⟩, .mat (ident (.nat 3))] = .ok (mul ⟨2, 0⟩ [ident (.nat 3)]) := by
  with_unfolding_all rfl

/-- `hadamard_product`: whenever the entrywise product of the operand values is defined, the result
    is defined and has that value. -/
theorem hadamard_value (env : Env) (fs : List MExpr) (r : MExpr) (h : hadamardProduct fs = .ok r)
    (hok : okOf env (had fs)) : okOf env r ∧ valOf env r ≃ valOf env (had fs) :=
  hadamard_value_aux env fs r h hok

example : hadamardProduct [dense 2 2 [⟨1, 0⟩, ⟨2, 0⟩, ⟨3, 0⟩, ⟨4, 0⟩], ident (.nat 2),
      diag [⟨2, 0⟩, ⟨3, 0⟩]] = .ok (had [ident (.nat 2), diag [⟨2, 0⟩, ⟨12, 0⟩]]) := by with_unfolding_all rfl

/-- `transpose`: the result is defined and is the transpose of the value. -/
theorem transpose_value (env : Env) (e r : MExpr) (h : transposeM e = .ok r) (hok : okOf env e) :
    okOf env r ∧ valOf env r ≃ (valOf env e).transpose :=
  transpose_value_aux env e r h hok

example : transposeM (add [sym "X", transpose (sym "Y"),
      dense 2 3 [⟨1, 0⟩, ⟨2, 0⟩, ⟨3, 0⟩, ⟨4, 0⟩, ⟨5, 0⟩, ⟨6, 0⟩]])
    = .ok (add [transpose (sym "X"), sym "Y",
      dense 3 2 [⟨1, 0⟩, ⟨4, 0⟩, ⟨2, 0⟩, ⟨5, 0⟩, ⟨3, 0⟩, ⟨6, 0⟩]]) := by with_unfolding_all rfl

/-- `conjugate_matrix`: the result is defined and is the entrywise conjugate of the value. -/
theorem conj_value (env : Env) (e r : MExpr) (h : conjugateM e = .ok r) (hok : okOf env e) :
    okOf env r ∧ valOf env r ≃ (valOf env e).conj :=
  conj_value_aux env e r h hok

example : conjugateM (transpose (conj (sym "X"))) = .ok (transpose (sym "X")) := by with_unfolding_all rfl
example : conjugateM (diag [⟨1, 1⟩, ⟨2, 0⟩]) = .ok (diag [⟨1, -1⟩, ⟨2, 0⟩]) := by with_unfolding_all rfl

/-- `trace` on a defined square value: a numeric result is the trace, a symbolic dimension is the
    trace under every interpretation, an unevaluated `Trace(e)` is left on an expression with the
    same value (results printed `other`, i.e. sums of such atoms, carry no statement: partial). -/
theorem trace_value_partial (env : Env) (e : MExpr) (t : TraceRes) (h : traceM e = .ok t)
    (hok : okOf env e) (hsq : (valOf env e).IsSquare) (q : GQ) (hq : t.eval env = some q) :
    q = trV (valOf env e) :=
  trace_value_aux env e t h hok hsq q hq

example : traceM (add [diag [⟨1, 0⟩, ⟨2, 0⟩], ident (.nat 2)]) = .ok (.num ⟨5, 0⟩) := by with_unfolding_all rfl

/-- a DomainError of `trace` on a leaf means that the value is not square -/
theorem trace_domain_sound (env : Env) :
    (∀ a b, traceM (zero a b) = .error .domain → ¬ (valOf env (zero a b)).IsSquare) ∧
    (∀ r c v, traceM (dense r c v) = .error .domain → ¬ (valOf env (dense r c v)).IsSquare) :=
  trace_domain_zero_dense env

/-! ## size -/

/-- every known component of `size(e)` is the concrete dimension of the value -/
theorem size_sound (env : Env) (e : MExpr) (hok : okOf env e) :
    (∀ a, (size e).1 = some a → a.eval env = (valOf env e).r) ∧
    (∀ b, (size e).2 = some b → b.eval env = (valOf env e).c) :=
  size_sound_aux env e hok

example : size (mul 1 [sym "X", dense 3 2 [⟨1, 0⟩, ⟨2, 0⟩, ⟨3, 0⟩, ⟨4, 0⟩, ⟨5, 0⟩, ⟨6, 0⟩]])
    = (none, some (.nat 2)) := by with_unfolding_all rfl

/-! ## predicates -/

mutual
  /-- every IdentityMatrix inside the expression has a positive size under `env` -/
  def IdentPos (env : Env) : MExpr → Prop
    | ident n => 0 < n.eval env
    | add ts => IdentPosAll env ts
    | had fs => IdentPosAll env fs
    | mul _ fs => IdentPosAll env fs
    | transpose e => IdentPos env e
    | conj e => IdentPos env e
    | zero _ _ => True
    | diag _ => True
    | dense _ _ _ => True
    | sym _ => True
  def IdentPosAll (env : Env) : List MExpr → Prop
    | [] => True
    | e :: t => IdentPos env e ∧ IdentPosAll env t
end

mutual
  theorem predWF_of (env : Env) : ∀ e, okOf env e → addCanonAll e = true → IdentPos env e →
      PredWF env e
    | ident _, _, _, hp => hp
    | zero _ _, _, _, _ => trivial
    | diag _, _, _, _ => trivial
    | dense _ _ _, hok, _, _ => hok
    | sym _, _, _, _ => trivial
    | mul _ _, _, _, _ => trivial
    | transpose _, _, _, _ => trivial
    | conj _, _, _, _ => trivial
    | add ts, hok, hc, hp => by
      simp only [addCanonAll, Bool.and_eq_true] at hc
      exact ⟨hok.1, predWFAll_of env ts hok.2.1 hc.2 hp, hok.2.2, hc.1⟩
    | had fs, hok, hc, hp => by
      simp only [addCanonAll] at hc
      exact ⟨hok.1, predWFAll_of env fs hok.2.1 hc hp, hok.2.2⟩
  theorem predWFAll_of (env : Env) : ∀ l, okAll env l → addCanonAllList l = true →
      IdentPosAll env l → PredWFAll env l
    | [], _, _, _ => trivial
    | e :: t, hok, hc, hp => by
      simp only [addCanonAllList, Bool.and_eq_true] at hc
      exact ⟨predWF_of env e hok.1 hc.1 hp.1, predWFAll_of env t hok.2 hc.2 hp.2⟩
end

/-- Soundness of the eight predicate visitors: on an expression whose value is defined, whose
    MatrixAdd nodes are canonical and whose identity matrices are not 0×0, a definite answer `true`
    means that the concrete matrix has the property and a definite answer `false` that it does not
    (the answer `indeterminate` is unconstrained) — for every environment. -/
theorem pred_sound (env : Env) (p : Pred) (e : MExpr) (hok : okOf env e)
    (hc : addCanonAll e = true) (hpos : IdentPos env e) :
    (evalPred p e = .t → (valOf env e).Holds p) ∧ (evalPred p e = .f → ¬ (valOf env e).Holds p) :=
  pred_sound_aux env p e (predWF_of env e hok hc hpos)

theorem is_zero_sound (env : Env) (e : MExpr) (hok : okOf env e) (hc : addCanonAll e = true)
    (hpos : IdentPos env e) :
    (evalPred .zero e = .t → (valOf env e).IsZero) ∧ (evalPred .zero e = .f → ¬ (valOf env e).IsZero) :=
  pred_sound env .zero e hok hc hpos
theorem is_diagonal_sound (env : Env) (e : MExpr) (hok : okOf env e) (hc : addCanonAll e = true)
    (hpos : IdentPos env e) :
    (evalPred .diagonal e = .t → (valOf env e).IsDiagonal) ∧
      (evalPred .diagonal e = .f → ¬ (valOf env e).IsDiagonal) :=
  pred_sound env .diagonal e hok hc hpos
theorem is_symmetric_sound (env : Env) (e : MExpr) (hok : okOf env e) (hc : addCanonAll e = true)
    (hpos : IdentPos env e) :
    (evalPred .symmetric e = .t → (valOf env e).IsSymmetric) ∧
      (evalPred .symmetric e = .f → ¬ (valOf env e).IsSymmetric) :=
  pred_sound env .symmetric e hok hc hpos
theorem is_lower_sound (env : Env) (e : MExpr) (hok : okOf env e) (hc : addCanonAll e = true)
    (hpos : IdentPos env e) :
    (evalPred .lower e = .t → (valOf env e).IsLower) ∧ (evalPred .lower e = .f → ¬ (valOf env e).IsLower) :=
  pred_sound env .lower e hok hc hpos
theorem is_upper_sound (env : Env) (e : MExpr) (hok : okOf env e) (hc : addCanonAll e = true)
    (hpos : IdentPos env e) :
    (evalPred .upper e = .t → (valOf env e).IsUpper) ∧ (evalPred .upper e = .f → ¬ (valOf env e).IsUpper) :=
  pred_sound env .upper e hok hc hpos
theorem is_real_sound (env : Env) (e : MExpr) (hok : okOf env e) (hc : addCanonAll e = true)
    (hpos : IdentPos env e) :
    (evalPred .real e = .t → (valOf env e).IsReal) ∧ (evalPred .real e = .f → ¬ (valOf env e).IsReal) :=
  pred_sound env .real e hok hc hpos
theorem is_square_sound (env : Env) (e : MExpr) (hok : okOf env e) (hc : addCanonAll e = true)
    (hpos : IdentPos env e) :
    (evalPred .square e = .t → (valOf env e).IsSquare) ∧
      (evalPred .square e = .f → ¬ (valOf env e).IsSquare) :=
  pred_sound env .square e hok hc hpos
theorem is_toeplitz_sound (env : Env) (e : MExpr) (hok : okOf env e) (hc : addCanonAll e = true)
    (hpos : IdentPos env e) :
    (evalPred .toeplitz e = .t → (valOf env e).IsToeplitz) ∧
      (evalPred .toeplitz e = .f → ¬ (valOf env e).IsToeplitz) :=
  pred_sound env .toeplitz e hok hc hpos

/-- non-vacuity: a product of an identity and a non-symmetric dense matrix: is_diagonal says `true`,
    is_symmetric (patched) says `indeterminate`, is_zero is indeterminate -/
example : evalPred .diagonal (had [ident (.nat 2), dense 2 2 [⟨1, 0⟩, ⟨2, 0⟩, ⟨3, 0⟩, ⟨4, 0⟩]]) = .t := by with_unfolding_all rfl
example : evalPred .symmetric (had [ident (.nat 2), dense 2 2 [⟨1, 0⟩, ⟨2, 0⟩, ⟨3, 0⟩, ⟨4, 0⟩]]) = .u := by with_unfolding_all rfl
example : evalPred .symmetric (add [sym "X", dense 2 2 [⟨1, 0⟩, ⟨2, 0⟩, ⟨3, 0⟩, ⟨4, 0⟩]]) = .u := by with_unfolding_all rfl
example : evalPred .symmetric (add [ident (.nat 2), dense 2 2 [⟨1, 0⟩, ⟨2, 0⟩, ⟨3, 0⟩, ⟨4, 0⟩]]) = .f := by with_unfolding_all rfl
example : evalPred .toeplitz (dense 1 3 [⟨1, 0⟩, ⟨2, 0⟩, ⟨3, 0⟩]) = .t := by with_unfolding_all rfl
example : evalPred .toeplitz (dense 2 3 [⟨1, 0⟩, ⟨2, 0⟩, ⟨3, 0⟩, ⟨4, 0⟩, ⟨1, 0⟩, ⟨5, 0⟩]) = .f := by with_unfolding_all rfl

example (env : Env) :
    ¬ (valOf env (add [ident (.nat 2), dense 2 2 [⟨1, 0⟩, ⟨2, 0⟩, ⟨3, 0⟩, ⟨4, 0⟩]])).IsSymmetric :=
  (is_symmetric_sound env (add [ident (.nat 2), dense 2 2 [⟨1, 0⟩, ⟨2, 0⟩, ⟨3, 0⟩, ⟨4, 0⟩]])
    ⟨by simp, by simp [okAll, okOf], by
      intro a ha b hb
      simp [valsOf, valOf, Dim.eval] at ha hb
      rcases ha with rfl | rfl <;> rcases hb with rfl | rfl <;> simp⟩
    (by with_unfolding_all rfl) (by simp [IdentPos, IdentPosAll, Dim.eval])).2 (by with_unfolding_all rfl)

end SymVerif.C26
