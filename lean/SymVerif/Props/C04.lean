/-
C04 — canonical form is unique: results ignore operand order and grouping.

Model: `addE`, `addN` (Model/Arith.lean: `add`, `add(vec_basic)`), `mulEO`, `mulNO`, `maxMinE`
(Model/AC.lean), `andOr` (Model/Logic.lean, property C28).

The unrestricted statement (`C04_full`) is FALSE for the library and for the model, which mirrors the
library: see the `witness_*` theorems below (radicals of negative / perfect-power / Gaussian bases,
powers of products, powers of powers, numbers raised to symbolic exponents, a sum as a term of a sum).
The `…_partial`-style theorems are stated on the decidable complements `addOperandOK`, … that the
driver evaluates on every operand it is given.
-/
import SymVerif.Lemmas.C04MulN
import SymVerif.Lemmas.C04Bridge
import SymVerif.Lemmas.C04MulSN
import SymVerif.Lemmas.C04MaxMinT
import SymVerif.Lemmas.C04Logic

namespace SymVerif.C04
open SymVerif SymVerif.Arith SymVerif.AC

/-! ### Add -/

theorem addOperandOK_iff {a : Expr} : addOperandOK a = true ↔ (AOK a ∧ exact a = true) := by
  constructor
  · exact AOK_of_addOperandOK
  · rintro ⟨⟨hnr, hfd⟩, hx⟩
    unfold addOperandOK
    have h2 : nrB (repr a) = true := by
      unfold nrB
      simp only [Bool.and_eq_true, List.all_eq_true, Bool.not_eq_true']
      refine ⟨⟨exNum_iff.mpr hnr.1, (keysSorted_iff _).mpr hnr.2.1.1⟩, ?_⟩
      intro p hp
      have hv := hnr.2.1.2 p hp
      refine ⟨⟨exNum_iff.mpr hv.1, ?_⟩, hnr.2.2 p hp⟩
      cases hz : numIsZero p.2 with
      | false => rfl
      | true => exact absurd ((numIsZero_iff hv.1).mp hz) hv.2
    simp [hx, h2, hfd, eqE]

/-- the hypothesis of the Add theorems holds for every exact expression that satisfies the C03
invariant `inv` (what the library's constructors produce, Props/C03.lean `api_canon`) and is a safe
summand: the Add theorems cover the whole class `inv ∧ exact ∧ addOperandSafe` -/
theorem addOperandOK_of_inv {a : Expr} (hi : inv a = true) (hx : exact a = true)
    (hs : addOperandSafe a = true) : addOperandOK a = true :=
  addOperandOK_iff.mpr ⟨AOK_of_inv hi hx hs, hx⟩

/-- `add` is total on the fragment and stays inside it -/
theorem addE_closed {a b : Expr} (ha : addOperandOK a = true) (hb : addOperandOK b = true) :
    ∃ r, addE a b = .ok r ∧ addOperandOK r = true := by
  obtain ⟨ha, hax⟩ := addOperandOK_iff.mp ha
  obtain ⟨hb, hbx⟩ := addOperandOK_iff.mp hb
  have hnr : NR (radd (repr a) (repr b)) := ha.1.radd hb.1
  obtain ⟨r, hr, _⟩ := repr_fromDict hnr
  obtain ⟨hra, _, hrx⟩ := AOK_fromDict hnr hr
  refine ⟨r, ?_, addOperandOK_iff.mpr ⟨hra, hrx⟩⟩
  unfold addE guard2
  simp only [hax, hbx, Bool.and_self, if_true]
  rw [addCore_eq ha hb, hr]

/-- commutativity of `add(a, b)` -/
theorem addE_comm {a b : Expr} (ha : addOperandOK a = true) (hb : addOperandOK b = true) :
    addE a b = addE b a := by
  obtain ⟨ha, hax⟩ := addOperandOK_iff.mp ha
  obtain ⟨hb, hbx⟩ := addOperandOK_iff.mp hb
  unfold addE guard2
  simp only [hax, hbx, Bool.and_self, if_true]
  rw [addCore_eq ha hb, addCore_eq hb ha, radd_comm ha.1 hb.1]

/-- associativity of `add`: `(a + b) + c = a + (b + c)` -/
theorem addE_assoc {a b c : Expr} (ha : addOperandOK a = true) (hb : addOperandOK b = true)
    (hc : addOperandOK c = true) :
    (do let ab ← addE a b; addE ab c) = (do let bc ← addE b c; addE a bc) := by
  have h1 := evalT_add_eq_addN (.node (.node (.leaf a) (.leaf b)) (.leaf c)) (by
    intro x hx
    simp [BTree.leaves] at hx
    rcases hx with rfl | rfl | rfl
    · exact addOperandOK_iff.mp ha
    · exact addOperandOK_iff.mp hb
    · exact addOperandOK_iff.mp hc)
  have h2 := evalT_add_eq_addN (.node (.leaf a) (.node (.leaf b) (.leaf c))) (by
    intro x hx
    simp [BTree.leaves] at hx
    rcases hx with rfl | rfl | rfl
    · exact addOperandOK_iff.mp ha
    · exact addOperandOK_iff.mp hb
    · exact addOperandOK_iff.mp hc)
  simp only [evalT, ok_bind, BTree.leaves, List.cons_append, List.nil_append] at h1 h2
  rw [h1, h2]

/-- the n-ary constructor only depends on the multiset of its arguments -/
theorem addN_perm {l₁ l₂ : List Expr} (hp : l₁.Perm l₂) (h : ∀ a ∈ l₁, addOperandOK a = true) :
    addN l₁ = addN l₂ :=
  addN_perm_aux hp (fun a ha => addOperandOK_iff.mp (h a ha))

/-- the n-ary constructor is the left fold of the binary one -/
theorem addN_eq_foldl_addE {l : List Expr} (h : ∀ a ∈ l, addOperandOK a = true) :
    addN l = l.foldlM addE zero := by
  have h' : ∀ a ∈ l, AOK a ∧ exact a = true := fun a ha => addOperandOK_iff.mp (h a ha)
  have hz : AOK zero ∧ exact zero = true := addOperandOK_iff.mp (by decide)
  rw [addN_eq h', foldlM_addE_eq l hz.1 hz.2 h']
  rfl

/-- every binary bracketing of the operands evaluates to the n-ary constructor on its leaves … -/
theorem addTree_eq_addN (t : BTree) (h : ∀ a ∈ t.leaves, addOperandOK a = true) :
    evalT addE t = addN t.leaves :=
  evalT_add_eq_addN t (fun a ha => addOperandOK_iff.mp (h a ha))

/-- … hence all bracketings of all permutations of the same operands agree (the property itself,
for sums) -/
theorem addTree_perm (t₁ t₂ : BTree) (hp : t₁.leaves.Perm t₂.leaves)
    (h : ∀ a ∈ t₁.leaves, addOperandOK a = true) : evalT addE t₁ = evalT addE t₂ := by
  have h2 : ∀ a ∈ t₂.leaves, addOperandOK a = true := fun a ha => h a (hp.mem_iff.mpr ha)
  rw [addTree_eq_addN t₁ h, addTree_eq_addN t₂ h2, addN_perm hp h]

/-- the property for sums with the natural hypotheses: all bracketings of all permutations of exact,
invariant, safe summands agree -/
theorem addTree_perm_inv (t₁ t₂ : BTree) (hp : t₁.leaves.Perm t₂.leaves)
    (h : ∀ a ∈ t₁.leaves, inv a = true ∧ exact a = true ∧ addOperandSafe a = true) :
    evalT addE t₁ = evalT addE t₂ :=
  addTree_perm t₁ t₂ hp (fun a ha => addOperandOK_of_inv (h a ha).1 (h a ha).2.1 (h a ha).2.2)

/-- the n-ary constructor is total on the fragment and stays inside it -/
theorem addN_closed {l : List Expr} (h : ∀ a ∈ l, addOperandOK a = true) :
    ∃ r, addN l = .ok r ∧ addOperandOK r = true := by
  have h' : ∀ a ∈ l, AOK a ∧ exact a = true := fun a ha => addOperandOK_iff.mp (h a ha)
  have hnr := rsum_NR l NR_unit (fun a ha => (h' a ha).1)
  obtain ⟨r, hr, _⟩ := repr_fromDict hnr
  obtain ⟨hra, _, hrx⟩ := AOK_fromDict hnr hr
  exact ⟨r, by rw [addN_eq h', hr], addOperandOK_iff.mpr ⟨hra, hrx⟩⟩

section Examples
private def x : Expr := .sym "x"
private def y : Expr := .sym "y"
private def twoX : Expr := .mul (.int 2) [(x, .int 1)]
private def mTwoX : Expr := .mul (.int (-2)) [(x, .int 1)]
private def sqrt2 : Expr := .pow (.int 2) (.rat 1 2)
private def xy : Expr := .mul (.int 1) [(x, .int 1), (y, .int 1)]
private def xPlusY : Expr := .add (.int 0) [(x, .int 1), (y, .int 1)]
private def halfSqrt2 : Expr := .mul (.rat 1 2) [(.int 2, .rat 1 2)]

-- the hypotheses hold on symbols, numbers (also Gaussian), Mul keys, radicals, nested sums
example : [x, twoX, mTwoX, sqrt2, xy, xPlusY, halfSqrt2, .int 3, .rat 1 2, imagUnit].all addOperandOK = true := by
  decide
-- cancellation a + (-a), coefficient merging, nested sums, Mul keys inside Add
example : (addE twoX mTwoX).toOption.map key = some (key (.int 0)) := by decide
example : (addN [xPlusY, twoX, xy, halfSqrt2, imagUnit, xy]).toOption.map key
    = (addN [xy, imagUnit, twoX, xy, xPlusY, halfSqrt2]).toOption.map key := by decide
example : (addN [xPlusY, twoX, xy, halfSqrt2, imagUnit, xy]).toOption.map key
    = some (key (normOrder (.add imagUnit [(xy, .int 2), (sqrt2, .rat 1 2), (x, .int 3), (y, .int 1)]))) := by decide
end Examples


/-! ### Mul, numeric-exponent fragment: opaque bases with exact numeric (Integer, Rational, Gaussian)
exponents, coefficients in ℚ(i) \ {0}.  All statements hold for both dictionary iteration orders
(`rv`, `rv'`) independently on the two sides: the result does not depend on the hash order. -/

theorem nrMB_iff {s : Expr × Dict} : nrMB s = true ↔ NRM s := by
  unfold nrMB NRM mfacOK DOK
  simp only [Bool.and_eq_true, List.all_eq_true, Bool.not_eq_true', exNum_iff, keysSorted_iff]
  constructor
  · rintro ⟨⟨⟨h1, h2⟩, h3⟩, h4⟩
    refine ⟨h1, ?_, ⟨h3, ?_⟩, fun p hp => ⟨(h4 p hp).1.1.1, (h4 p hp).1.1.2⟩⟩
    · intro h0
      rw [(numIsZero_iff h1).mpr h0] at h2
      cases h2
    · intro p hp
      refine ⟨(h4 p hp).1.2, ?_⟩
      intro h0
      have := (h4 p hp).2
      rw [(numIsZero_iff (h4 p hp).1.2).mpr h0] at this
      cases this
  · rintro ⟨h1, h2, ⟨h3, h4⟩, h5⟩
    refine ⟨⟨⟨h1, numIsZero_false h1 h2⟩, h3⟩, ?_⟩
    intro p hp
    exact ⟨⟨⟨(h5 p hp).1, (h5 p hp).2⟩, (h4 p hp).1⟩, numIsZero_false (h4 p hp).1 (h4 p hp).2⟩

theorem eqE_iff' {a b : Expr} : eqE a b = true ↔ a = b := by
  unfold eqE; exact key_beq_iff

theorem mulOperandOK_iff {a : Expr} : mulOperandOK a = true ↔ (MOK a ∧ exact a = true) := by
  unfold mulOperandOK MOK
  simp only [Bool.and_eq_true, nrMB_iff, eqE_iff']
  constructor
  · rintro ⟨⟨h1, h2⟩, h3⟩
    exact ⟨⟨h2, h3⟩, h1⟩
  · rintro ⟨⟨h2, h3⟩, h1⟩
    exact ⟨⟨h1, h2⟩, h3⟩

private theorem mok_all {l : List Expr} (h : ∀ a ∈ l, mulOperandOK a = true) :
    ∀ a ∈ l, MOK a ∧ exact a = true := fun a ha => mulOperandOK_iff.mp (h a ha)

/-- every binary bracketing (evaluated with iteration order `rv`) equals the n-ary constructor
(evaluated with iteration order `rv'`) on its leaves -/
theorem mulTree_eq_mulNO (rv rv' : Bool) (t : BTree) (h : ∀ a ∈ t.leaves, mulOperandOK a = true)
    (hfu : tlen t.leaves + 6 ≤ defaultFuel) :
    evalT (mulEO rv) t = mulNO rv' t.leaves := by
  obtain ⟨r, h1, h2, _, h4⟩ := evalT_mul rv t (mok_all h) hfu
  rw [h1, mulNO_eq (mok_all h) hfu, ← h4, h2.2]

/-- the n-ary constructor only depends on the multiset of its arguments (and not on `rv`) -/
theorem mulNO_perm (rv rv' : Bool) {l₁ l₂ : List Expr} (hp : l₁.Perm l₂)
    (h : ∀ a ∈ l₁, mulOperandOK a = true) (hfu : tlen l₁ + 6 ≤ defaultFuel) :
    mulNO rv l₁ = mulNO rv' l₂ := by
  have h2 : ∀ a ∈ l₂, mulOperandOK a = true := fun a ha => h a (hp.mem_iff.mpr ha)
  have hlen : tlen l₂ = tlen l₁ := by
    unfold tlen
    exact ((hp.map dlen).sum_eq).symm
  rw [mulNO_eq (mok_all h) hfu, mulNO_eq (mok_all h2) (by omega),
    rprod_perm hp (fun a ha => (mok_all h a ha).1) _ NRM_unit]

/-- all bracketings of all permutations of the same factors agree, whatever the iteration orders
(the property itself, for products of the fragment) -/
theorem mulTree_perm (rv rv' : Bool) (t₁ t₂ : BTree) (hp : t₁.leaves.Perm t₂.leaves)
    (h : ∀ a ∈ t₁.leaves, mulOperandOK a = true) (hfu : tlen t₁.leaves + 6 ≤ defaultFuel) :
    evalT (mulEO rv) t₁ = evalT (mulEO rv') t₂ := by
  have h2 : ∀ a ∈ t₂.leaves, mulOperandOK a = true := fun a ha => h a (hp.mem_iff.mpr ha)
  have hlen : tlen t₂.leaves = tlen t₁.leaves := by
    unfold tlen
    exact ((hp.map dlen).sum_eq).symm
  rw [mulTree_eq_mulNO rv false t₁ h hfu, mulTree_eq_mulNO rv' false t₂ h2 (by omega),
    mulNO_perm false false hp h hfu]

/-- commutativity of `mul(a, b)` -/
theorem mulEO_comm (rv rv' : Bool) {a b : Expr} (ha : mulOperandOK a = true) (hb : mulOperandOK b = true)
    (hfu : dlen a + dlen b + 6 ≤ defaultFuel) : mulEO rv a b = mulEO rv' b a := by
  have := mulTree_perm rv rv' (.node (.leaf a) (.leaf b)) (.node (.leaf b) (.leaf a))
    (by simp [BTree.leaves]; exact List.Perm.swap b a [])
    (by intro x hx; simp [BTree.leaves] at hx; rcases hx with rfl | rfl <;> assumption)
    (by simp [BTree.leaves, tlen]; omega)
  simpa [evalT] using this

/-- associativity of `mul`: `(a * b) * c = a * (b * c)` -/
theorem mulEO_assoc (rv rv' : Bool) {a b c : Expr} (ha : mulOperandOK a = true) (hb : mulOperandOK b = true)
    (hc : mulOperandOK c = true) (hfu : dlen a + dlen b + dlen c + 6 ≤ defaultFuel) :
    (do let ab ← mulEO rv a b; mulEO rv ab c) = (do let bc ← mulEO rv' b c; mulEO rv' a bc) := by
  have := mulTree_perm rv rv' (.node (.node (.leaf a) (.leaf b)) (.leaf c))
    (.node (.leaf a) (.node (.leaf b) (.leaf c)))
    (by simp [BTree.leaves])
    (by intro x hx; simp [BTree.leaves] at hx; rcases hx with rfl | rfl | rfl <;> assumption)
    (by simp [BTree.leaves, tlen]; omega)
  simpa [evalT] using this

/-- `mul` is total on the fragment (given the fuel bound) and stays inside it -/
theorem mulEO_closed (rv : Bool) {a b : Expr} (ha : mulOperandOK a = true) (hb : mulOperandOK b = true)
    (hfu : dlen a + dlen b + 6 ≤ defaultFuel) :
    ∃ r, mulEO rv a b = .ok r ∧ mulOperandOK r = true ∧ dlen r ≤ dlen a + dlen b := by
  obtain ⟨r, h1, h2, h3, h4⟩ := evalT_mul rv (.node (.leaf a) (.leaf b))
    (mok_all (l := [a, b]) (by intro x hx; simp at hx; rcases hx with rfl | rfl <;> assumption))
    (by simp [BTree.leaves, tlen]; omega)
  refine ⟨r, by simpa [evalT] using h1, mulOperandOK_iff.mpr ⟨h2, h3⟩, ?_⟩
  have := rprod_len [a, b] (one, [])
  simp only [dlen, h4]
  simpa [BTree.leaves, tlen, dlen] using this

section MulExamples
private def mx : Expr := .sym "x"
private def my : Expr := .sym "y"
private def fx : Expr := .fsym "f" [mx]
private def x2 : Expr := .pow mx (.int 2)
private def xm1 : Expr := .pow mx (.int (-1))
private def sqx : Expr := .pow mx (.rat 1 2)
private def xPy : Expr := .add (.int 0) [(mx, .int 1), (my, .int 1)]
private def threeXY : Expr := .mul (.int 3) [(mx, .int 1), (my, .int (-2))]
private def iHalfF : Expr := .mul (.cplx ⟨0, 1⟩ ⟨1, 2⟩) [(fx, .rat 3 2)]

example : [mx, fx, x2, xm1, sqx, xPy, threeXY, iHalfF, .int (-3), .rat 2 3, imagUnit].all mulOperandOK = true := by
  decide
-- cancellation x * x**-1, exponent merging x**(1/2) * x**(1/2), Gaussian coefficients, a sum as a base
example : (mulE mx xm1).toOption.map key = some (key (.int 1)) := by decide
example : (mulE sqx sqx).toOption.map key = some (key mx) := by decide
example : (mulNO false [threeXY, iHalfF, sqx, xPy, imagUnit, sqx, xm1]).toOption.map key
    = (mulNO true [xm1, sqx, imagUnit, xPy, threeXY, sqx, iHalfF]).toOption.map key := by decide
example : (mulNO false [threeXY, iHalfF, sqx, xPy, imagUnit, sqx, xm1]).toOption.map key
    = some (key (normOrder (.mul (.rat (-3) 2) [(mx, .int 1), (my, .int (-2)), (fx, .rat 3 2), (xPy, .int 1)]))) := by
  decide
end MulExamples

/-! ### the unrestricted statement is false: `2*(x+y)` as a summand -/

private def wx : Expr := .sym "x"
private def wy : Expr := .sym "y"
private def wS : Expr := .add (.int 0) [(wx, .int 1), (wy, .int 1)]          -- x + y
private def w2S : Expr := .mul (.int 2) [(wS, .int 1)]                        -- 2*(x+y)
private def wmS : Expr := .mul (.int (-1)) [(wS, .int 1)]                     -- -(x+y)

/-- `(x + 2*(x+y)) - (x+y) = x + (x+y)` but `x + (2*(x+y) - (x+y)) = 2*x + y`: all three operands
are invariant (canonical), the two groupings differ.  `2*(x+y)` fails `addOperandSafe`. -/
theorem witness_add_sum_as_term :
    inv wx = true ∧ inv w2S = true ∧ inv wmS = true ∧ addOperandSafe w2S = false
    ∧ ((addE wx w2S).toOption.bind (fun r => (addE r wmS).toOption)).map key
        = some (key (normOrder (.add (.int 0) [(wS, .int 1), (wx, .int 1)])))
    ∧ ((addE w2S wmS).toOption.bind (fun r => (addE wx r).toOption)).map key
        = some (key (normOrder (.add (.int 0) [(wx, .int 2), (wy, .int 1)]))) := by decide

/-! ### Mul, symbolic-exponent fragment: opaque bases whose exponents are arbitrary summands of the safe
Add fragment (numbers, symbols, sums, products, powers …), coefficients in ℚ(i) \ {0}.  Contains the
numeric-exponent fragment; the exponent arithmetic is `add` of the model (`addE_*` above). -/

theorem expOK_iff {e : Expr} : addOperandOK e = true ↔ expOK e := addOperandOK_iff

theorem nrSB_iff {s : Expr × Dict} : nrSB s = true ↔ NRS s := by
  unfold nrSB NRS mfacOKS DOKG
  simp only [Bool.and_eq_true, List.all_eq_true, Bool.not_eq_true', exNum_iff, keysSorted_iff]
  have hz : ∀ {v : Expr}, expOK v → ((isInteger v && numIsZero v) = false ↔ expVal v ≠ 0) := by
    intro v hv
    have := expIsZ_iff hv
    unfold expIsZ at this
    constructor
    · intro h h0
      rw [this.mpr h0] at h
      cases h
    · intro h
      cases hb : (isInteger v && numIsZero v) with
      | false => rfl
      | true => exact absurd (this.mp hb) h
  constructor
  · rintro ⟨⟨⟨h1, h2⟩, h3⟩, h4⟩
    refine ⟨h1, ?_, ⟨h3, ?_⟩, fun p hp => ⟨(h4 p hp).1.1.1, (h4 p hp).1.1.2⟩⟩
    · intro h0
      rw [(numIsZero_iff h1).mpr h0] at h2
      cases h2
    · intro p hp
      have hok : expOK p.2 := expOK_iff.mp (h4 p hp).1.2
      exact ⟨hok, (hz hok).mp (h4 p hp).2⟩
  · rintro ⟨h1, h2, ⟨h3, h4⟩, h5⟩
    refine ⟨⟨⟨h1, numIsZero_false h1 h2⟩, h3⟩, ?_⟩
    intro p hp
    exact ⟨⟨⟨(h5 p hp).1, (h5 p hp).2⟩, expOK_iff.mpr (h4 p hp).1⟩, (hz (h4 p hp).1).mpr (h4 p hp).2⟩

theorem mulOperandOKS_iff {a : Expr} : mulOperandOKS a = true ↔ (MOKS a ∧ exact a = true) := by
  unfold mulOperandOKS MOKS
  simp only [Bool.and_eq_true, nrSB_iff, eqE_iff']
  constructor
  · rintro ⟨⟨h1, h2⟩, h3⟩
    exact ⟨⟨h2, h3⟩, h1⟩
  · rintro ⟨⟨h2, h3⟩, h1⟩
    exact ⟨⟨h1, h2⟩, h3⟩

private theorem moks_all {l : List Expr} (h : ∀ a ∈ l, mulOperandOKS a = true) :
    ∀ a ∈ l, MOKS a ∧ exact a = true := fun a ha => mulOperandOKS_iff.mp (h a ha)

theorem mulTree_eq_mulNO_sym (rv rv' : Bool) (t : BTree) (h : ∀ a ∈ t.leaves, mulOperandOKS a = true)
    (hfu : tlen t.leaves + 6 ≤ defaultFuel) :
    evalT (mulEO rv) t = mulNO rv' t.leaves := by
  obtain ⟨r, h1, h2, _, h4⟩ := evalTS_mul rv t (moks_all h) hfu
  rw [h1, mulNOS_eq (moks_all h) hfu, ← h4, h2.2]

theorem mulNO_perm_sym (rv rv' : Bool) {l₁ l₂ : List Expr} (hp : l₁.Perm l₂)
    (h : ∀ a ∈ l₁, mulOperandOKS a = true) (hfu : tlen l₁ + 6 ≤ defaultFuel) :
    mulNO rv l₁ = mulNO rv' l₂ := by
  have h2 : ∀ a ∈ l₂, mulOperandOKS a = true := fun a ha => h a (hp.mem_iff.mpr ha)
  have hlen : tlen l₂ = tlen l₁ := by
    unfold tlen
    exact ((hp.map dlen).sum_eq).symm
  rw [mulNOS_eq (moks_all h) hfu, mulNOS_eq (moks_all h2) (by omega),
    rprodS_perm hp (fun a ha => (moks_all h a ha).1) _ NRS_unit]

/-- all bracketings of all permutations of the same factors agree, whatever the iteration orders
(the property itself, for products with symbolic exponents on opaque bases) -/
theorem mulTree_perm_sym (rv rv' : Bool) (t₁ t₂ : BTree) (hp : t₁.leaves.Perm t₂.leaves)
    (h : ∀ a ∈ t₁.leaves, mulOperandOKS a = true) (hfu : tlen t₁.leaves + 6 ≤ defaultFuel) :
    evalT (mulEO rv) t₁ = evalT (mulEO rv') t₂ := by
  have h2 : ∀ a ∈ t₂.leaves, mulOperandOKS a = true := fun a ha => h a (hp.mem_iff.mpr ha)
  have hlen : tlen t₂.leaves = tlen t₁.leaves := by
    unfold tlen
    exact ((hp.map dlen).sum_eq).symm
  rw [mulTree_eq_mulNO_sym rv false t₁ h hfu, mulTree_eq_mulNO_sym rv' false t₂ h2 (by omega),
    mulNO_perm_sym false false hp h hfu]

theorem mulEO_comm_sym (rv rv' : Bool) {a b : Expr} (ha : mulOperandOKS a = true)
    (hb : mulOperandOKS b = true) (hfu : dlen a + dlen b + 6 ≤ defaultFuel) :
    mulEO rv a b = mulEO rv' b a := by
  have := mulTree_perm_sym rv rv' (.node (.leaf a) (.leaf b)) (.node (.leaf b) (.leaf a))
    (by simp [BTree.leaves]; exact List.Perm.swap b a [])
    (by intro x hx; simp [BTree.leaves] at hx; rcases hx with rfl | rfl <;> assumption)
    (by simp [BTree.leaves, tlen]; omega)
  simpa [evalT] using this

theorem mulEO_assoc_sym (rv rv' : Bool) {a b c : Expr} (ha : mulOperandOKS a = true)
    (hb : mulOperandOKS b = true) (hc : mulOperandOKS c = true)
    (hfu : dlen a + dlen b + dlen c + 6 ≤ defaultFuel) :
    (do let ab ← mulEO rv a b; mulEO rv ab c) = (do let bc ← mulEO rv' b c; mulEO rv' a bc) := by
  have := mulTree_perm_sym rv rv' (.node (.node (.leaf a) (.leaf b)) (.leaf c))
    (.node (.leaf a) (.node (.leaf b) (.leaf c)))
    (by simp [BTree.leaves])
    (by intro x hx; simp [BTree.leaves] at hx; rcases hx with rfl | rfl | rfl <;> assumption)
    (by simp [BTree.leaves, tlen]; omega)
  simpa [evalT] using this

theorem mulEO_closed_sym (rv : Bool) {a b : Expr} (ha : mulOperandOKS a = true)
    (hb : mulOperandOKS b = true) (hfu : dlen a + dlen b + 6 ≤ defaultFuel) :
    ∃ r, mulEO rv a b = .ok r ∧ mulOperandOKS r = true ∧ dlen r ≤ dlen a + dlen b := by
  obtain ⟨r, h1, h2, h3, h4⟩ := evalTS_mul rv (.node (.leaf a) (.leaf b))
    (moks_all (l := [a, b]) (by intro x hx; simp at hx; rcases hx with rfl | rfl <;> assumption))
    (by simp [BTree.leaves, tlen]; omega)
  refine ⟨r, by simpa [evalT] using h1, mulOperandOKS_iff.mpr ⟨h2, h3⟩, ?_⟩
  have := rprodS_len [a, b] (one, [])
  simp only [dlen, h4]
  simpa [BTree.leaves, tlen, dlen] using this

section MulSymExamples
private def ux : Expr := .sym "x"
private def uy : Expr := .sym "y"
private def uz : Expr := .sym "z"
private def xPowY : Expr := .pow ux uy                                        -- x**y
private def xPowHalfMinusY : Expr := .pow ux (.add (.rat 1 2) [(uy, .int (-1))])   -- x**(1/2 - y)
private def xPow2z : Expr := .pow ux (.mul (.int 2) [(uz, .int 1)])           -- x**(2*z)
private def threeXzY : Expr := .mul (.int 3) (sortDict [(ux, uz), (uy, .int (-2))])  -- 3*x**z*y**-2

example : [xPowY, xPowHalfMinusY, xPow2z, threeXzY, ux, imagUnit].all mulOperandOKS = true := by decide
-- x**y * x**(1/2 - y) = x**(1/2); the exponents are added with `add`
example : (mulE xPowY xPowHalfMinusY).toOption.map key = some (key (.pow ux (.rat 1 2))) := by decide
example : (mulNO false [xPowY, threeXzY, xPowHalfMinusY, imagUnit, xPow2z]).toOption.map key
    = (mulNO true [xPow2z, imagUnit, xPowHalfMinusY, threeXzY, xPowY]).toOption.map key := by decide
end MulSymExamples

/-! ### max / min, and / or -/

/-- `max(vec)` / `min(vec)` only depend on the multiset of the operands (exact real numbers,
non-Max expressions, canonical Max nodes, which are flattened) -/
theorem maxMinE_perm (isMax : Bool) {l₁ l₂ : List Expr} (hp : l₁.Perm l₂)
    (h : ∀ a ∈ l₁, mmOperandOK isMax a = true) : maxMinE isMax l₁ = maxMinE isMax l₂ :=
  maxMinE_perm_aux hp h

theorem mmCanonOperand_iff {isMax : Bool} {a : Expr} :
    mmCanonOperand isMax a = true ↔ (mmOperandOK isMax a = true ∧ maxMinE isMax [a] = .ok a) := by
  unfold mmCanonOperand
  simp only [Bool.and_eq_true]
  constructor
  · rintro ⟨h1, h2⟩
    refine ⟨h1, ?_⟩
    split at h2
    · rename_i r hr
      rw [hr, eqE_iff'.mp h2]
    · cases h2
  · rintro ⟨h1, h2⟩
    refine ⟨h1, ?_⟩
    rw [h2]
    exact eqE_iff'.mpr rfl

/-- every binary bracketing (with the binary `max({a, b})`) evaluates to the n-ary `max(vec)` on its
leaves: nested results are flattened -/
theorem maxMinTree_eq (isMax : Bool) (t : BTree) (h : ∀ a ∈ t.leaves, mmCanonOperand isMax a = true) :
    evalT (mm2 isMax) t = maxMinE isMax t.leaves :=
  evalT_mm_eq isMax t (fun a ha => mmCanonOperand_iff.mp (h a ha))

/-- all bracketings of all permutations of the same operands of max / min agree -/
theorem maxMinTree_perm (isMax : Bool) (t₁ t₂ : BTree) (hp : t₁.leaves.Perm t₂.leaves)
    (h : ∀ a ∈ t₁.leaves, mmCanonOperand isMax a = true) :
    evalT (mm2 isMax) t₁ = evalT (mm2 isMax) t₂ := by
  have h2 : ∀ a ∈ t₂.leaves, mmCanonOperand isMax a = true := fun a ha => h a (hp.mem_iff.mpr ha)
  rw [maxMinTree_eq isMax t₁ h, maxMinTree_eq isMax t₂ h2,
    maxMinE_perm isMax hp (fun a ha => (mmCanonOperand_iff.mp (h a ha)).1)]

/-- `logical_and` / `logical_or` (the `and_or` template of logic.cpp as modelled for C28) only depend
on the multiset of the arguments -/
theorem andOr_perm (isOr : Bool) {s₁ s₂ : List Logic.B} (hp : s₁.Perm s₂) :
    Logic.andOr isOr s₁ = Logic.andOr isOr s₂ :=
  C04L.andOr_perm_aux isOr hp

/-- grouping for and / or: a nested call of the same connective is flattened,
`and(and(s₁), s₂…) = and(s₁ ++ s₂)` (arguments well-formed in the sense of C28) -/
theorem andOr_flatten (isOr : Bool) (s₁ s₂ : List Logic.B) (h : ∀ a ∈ s₁, C28.wf a = true) :
    Logic.andOr isOr (Logic.andOr isOr s₁ :: s₂) = Logic.andOr isOr (s₁ ++ s₂) :=
  C04L.andOr_flatten_aux isOr s₁ s₂ h

/-- `and(and(a, b), c) = and(a, b, c)` -/
theorem andOr_flatten2 (isOr : Bool) (a b c : Logic.B) (ha : C28.wf a = true) (hb : C28.wf b = true) :
    Logic.andOr isOr [Logic.andOr isOr [a, b], c] = Logic.andOr isOr [a, b, c] :=
  C04L.andOr_flatten2_aux isOr a b c ha hb

section MaxMinExamples
private def ax : Expr := .sym "x"
private def ay : Expr := .sym "y"
private def maxN : Expr := .app "Max" [.int 5, ay]
example : [ax, .int 3, maxN, .rat 1 2].all (mmCanonOperand true) = true := by decide
-- max(max(x, 3), max(Max(5, y), 1/2)) = max(x, 3, Max(5, y), 1/2)
example : (evalT (mm2 true) (.node (.node (.leaf ax) (.leaf (.int 3))) (.node (.leaf maxN) (.leaf (.rat 1 2))))).toOption.map key
    = (maxMinE true [ax, .int 3, maxN, .rat 1 2]).toOption.map key := by decide
-- max(x, 3, Max(5, y), 1/2) = Max(5, x, y) in any order
example : (maxMinE true [ax, .int 3, maxN, .rat 1 2]).toOption.map key
    = (maxMinE true [.rat 1 2, maxN, ax, .int 3]).toOption.map key := by decide
example : (maxMinE true [ax, .int 3, maxN, .rat 1 2]).toOption.map key
    = some (key (.app "Max" (sortByKey [.int 5, ax, ay]))) := by decide
example : Logic.andOr false [Logic.andOr false [.rel 0 false, .rel 1 true], .rel 2 false]
    = Logic.andOr false [.rel 0 false, .rel 1 true, .rel 2 false] := by decide
example : Logic.andOr false [.rel 0 false, .rel 1 true, .and [.rel 2 false, .rel 3 false]]
    = Logic.andOr false [.and [.rel 2 false, .rel 3 false], .rel 0 false, .rel 1 true] := by decide
end MaxMinExamples

/-! ### the unrestricted statement is false for products: six classes of order-dependent normal forms
(each confirmed on the real library with the same operands, see docs/C04.md) -/

/-- `(a*b)*c` -/
def grpL (a b c : Expr) : Option (List Nat) :=
  ((mulE a b).toOption.bind (fun r => (mulE r c).toOption)).map key
/-- `a*(b*c)` -/
def grpR (a b c : Expr) : Option (List Nat) :=
  ((mulE b c).toOption.bind (fun r => (mulE a r).toOption)).map key

/-- both groupings succeed on invariant operands and give different expressions; `a` is outside
`mulOperandSafe` -/
def Nonconfluent (a b c : Expr) : Prop :=
  inv a = true ∧ inv b = true ∧ inv c = true ∧ mulOperandSafe a = false
  ∧ (grpL c b a).isSome = true ∧ (grpR c b a).isSome = true ∧ grpL c b a ≠ grpR c b a

private def sx : Expr := .sym "x"
private def sy : Expr := .sym "y"
private def pxy : Expr := .mul (.int 1) [(sx, .int 1), (sy, .int 1)]

/-- `(-1)**(1/3) * (-1)**(1/3) * (-1)**(1/6)`: `(-1)**(5/6)` or `I*(-1)**(1/3)` -/
theorem witness_mul_rad_negbase :
    Nonconfluent (.pow (.int (-1)) (.rat 1 3)) (.pow (.int (-1)) (.rat 1 3)) (.pow (.int (-1)) (.rat 1 6)) := by
  unfold Nonconfluent grpL grpR; decide

/-- `4**(1/3) * 4**(1/3) * 4**(1/6)`: `4**(5/6)` or `2*4**(1/3)` -/
theorem witness_mul_rad_perfectpower :
    Nonconfluent (.pow (.int 4) (.rat 1 3)) (.pow (.int 4) (.rat 1 3)) (.pow (.int 4) (.rat 1 6)) := by
  unfold Nonconfluent grpL grpR; decide

/-- `I**(1/2) * I**(1/2) * I**(1/3)`: `I*I**(1/3)` or `I**(4/3)` -/
theorem witness_mul_rad_gaussian :
    Nonconfluent (.pow imagUnit (.rat 1 2)) (.pow imagUnit (.rat 1 2)) (.pow imagUnit (.rat 1 3)) := by
  unfold Nonconfluent grpL grpR; decide

/-- `(x*y)**(1/2) * (x*y)**(1/2) * (x*y)**(1/4)`: `x*y*(x*y)**(1/4)` or `(x*y)**(5/4)` -/
theorem witness_mul_mulbase :
    Nonconfluent (.pow pxy (.rat 1 2)) (.pow pxy (.rat 1 2)) (.pow pxy (.rat 1 4)) := by
  unfold Nonconfluent grpL grpR; decide

/-- `(x**y)**(1/2) * (x**y)**(1/2) * (x**y)**(1/3)`: `x**y*(x**y)**(1/3)` or `(x**y)**(4/3)` -/
theorem witness_mul_powbase :
    Nonconfluent (.pow (.pow sx sy) (.rat 1 2)) (.pow (.pow sx sy) (.rat 1 2)) (.pow (.pow sx sy) (.rat 1 3)) := by
  unfold Nonconfluent grpL grpR; decide

/-- `2**x * 2**(1-x) * 2**y`: `2*2**y` or `2**(1+y)` -/
theorem witness_mul_num_symexp :
    Nonconfluent (.pow (.int 2) sx) (.pow (.int 2) (.add (.int 1) [(sx, .int (-1))])) (.pow (.int 2) sy) := by
  unfold Nonconfluent grpL grpR; decide

/-- the statement of the property without the operand restriction, for the model of `mul`: false -/
def C04_full : Prop :=
  ∀ a b c : Expr, inv a = true → inv b = true → inv c = true → exact a = true → exact b = true →
    exact c = true → grpL a b c = grpR a b c

theorem C04_full_false : ¬ C04_full := by
  intro h
  have w := witness_mul_rad_negbase
  exact w.2.2.2.2.2.2 (h _ _ _ w.2.2.1 w.2.1 w.1 (by decide) (by decide) (by decide))

end SymVerif.C04
