/-
C36 — Algebraic rewriting transformations preserve value (symengine: numer_denom.cpp,
rewrite.cpp, functions.cpp trig_to_sqrt / conjugate, as_real_imag.cpp).

Certificate checking (Model/Rewrite.lean): the harness runs the real transformation; the Lean
driver accepts the result only if
  as_numer_denom        `n / d` is `treeEquiv` to `e` and neither `n` nor `d` has a negative exponent
                        on the top level;
  rewrite_as_exp/sin/cos, trig_to_sqrt, conjugate
                        the result is `treeEquiv` to the result of the *model* of the transformation
                        (the rules of the C++ visitors applied to raw trees);
  as_real_imag          `re`, `im` pass a conservative syntactic realness test and `re + I*im` is
                        `treeEquiv` to `e`.
The theorems say what acceptance means for every lawful interpretation (`CSE.Lawful`), and that the
rule models preserve the value under the exponential / trigonometric laws, which are proved for
ℂ with Mathlib's `Complex.sin`, `Complex.exp`, … (`MCx`, `MCx_expLaws`, `MCx_trigLaws`).
-/
import Mathlib.Analysis.SpecialFunctions.Pow.Complex
import Mathlib.Analysis.SpecialFunctions.Trigonometric.Basic
import SymVerif.Lemmas.C36Rules

namespace SymVerif
namespace C36

open NF CSE Rewrite
open Classical

set_option linter.unusedSectionVars false

section
variable {K : Type} [Field K] [CharZero K] {M : Interp K}

/-! ### as_numer_denom -/

/-- **as_numer_denom certificate.**  If the checker accepts `(n, d)` for `e`, then for every lawful
interpretation at which `e`, `n`, `d` are defined and `d ≠ 0`: `n / d = e`; and neither `n` nor `d`
has a negative exponent on the top level (`NoNegTopExp`). -/
theorem numer_denom_certificate_sound (hM : Lawful M) (e n d : Expr)
    (hc : checkNumerDenom e n d = true) :
    (∀ v a b, evalS M e = some v → evalS M n = some a → evalS M d = some b → b ≠ 0 → a / b = v) ∧
    NoNegTopExp n = true ∧ NoNegTopExp d = true := by
  simp only [checkNumerDenom, Bool.and_eq_true] at hc
  obtain ⟨⟨ht, hn⟩, hd⟩ := hc
  refine ⟨?_, hn, hd⟩
  intro v a b hv ha hb hne
  exact treeEquiv_sound hM ht (a / b) v (evalS_mkDiv ha hb hne) hv

theorem judgeNumerDenom_ok {e n d : Expr} (h : judgeNumerDenom e n d = "ok") :
    checkNumerDenom e n d = true := by
  unfold judgeNumerDenom at h
  split at h
  · exact absurd h (by decide)
  · split at h
    · exact absurd h (by decide)
    · split at h
      · assumption
      · split at h <;> exact absurd h (by decide)

/-! ### rewrite_as_exp / rewrite_as_sin / rewrite_as_cos -/

/-- the model of `rewrite_as_exp` preserves the value wherever input and output are defined -/
theorem rewrite_as_exp_value (hM : Lawful M) (hL : ExpLaws M) (e : Expr) (v w : K)
    (hv : evalS M e = some v) (hw : evalS M (asExp e) = some w) : w = v :=
  rewriteWith_value hM (expRule_sound hM hL) e v w hv hw

theorem rewrite_as_sin_value (hM : Lawful M) (hL : TrigLaws M) (e : Expr) (v w : K)
    (hv : evalS M e = some v) (hw : evalS M (asSin e) = some w) : w = v :=
  rewriteWith_value hM (sinRule_sound hL) e v w hv hw

theorem rewrite_as_cos_value (hM : Lawful M) (hL : TrigLaws M) (e : Expr) (v w : K)
    (hv : evalS M e = some v) (hw : evalS M (asCos e) = some w) : w = v :=
  rewriteWith_value hM (cosRule_sound hL) e v w hv hw

/-- **rewrite certificate.**  If the checker accepts the library's result `r` for the model
`model`, then `r` has the value of the model's result; with the value theorem of the model the
value of the input. -/
theorem rewrite_certificate_sound (hM : Lawful M) (model : Expr → Expr) (e r : Expr)
    (hc : checkRewrite model e r = true)
    (hmodel : ∀ v u, evalS M e = some v → evalS M (model e) = some u → u = v) :
    ∀ v u w, evalS M e = some v → evalS M (model e) = some u → evalS M r = some w → w = v := by
  intro v u w hv hu hw
  have h1 := treeEquiv_sound hM hc u w hu hw
  rw [← h1]
  exact hmodel v u hv hu

theorem rewrite_as_exp_certificate_sound (hM : Lawful M) (hL : ExpLaws M) (e r : Expr)
    (hc : checkRewrite asExp e r = true) :
    ∀ v u w, evalS M e = some v → evalS M (asExp e) = some u → evalS M r = some w → w = v :=
  rewrite_certificate_sound hM asExp e r hc (fun v u hv hu => rewrite_as_exp_value hM hL e v u hv hu)

theorem rewrite_as_sin_certificate_sound (hM : Lawful M) (hL : TrigLaws M) (e r : Expr)
    (hc : checkRewrite asSin e r = true) :
    ∀ v u w, evalS M e = some v → evalS M (asSin e) = some u → evalS M r = some w → w = v :=
  rewrite_certificate_sound hM asSin e r hc (fun v u hv hu => rewrite_as_sin_value hM hL e v u hv hu)

theorem rewrite_as_cos_certificate_sound (hM : Lawful M) (hL : TrigLaws M) (e r : Expr)
    (hc : checkRewrite asCos e r = true) :
    ∀ v u w, evalS M e = some v → evalS M (asCos e) = some u → evalS M r = some w → w = v :=
  rewrite_certificate_sound hM asCos e r hc (fun v u hv hu => rewrite_as_cos_value hM hL e v u hv hu)

theorem judgeRewrite_ok {model : Expr → Expr} {e r : Expr} (h : judgeRewrite model e r = "ok") :
    checkRewrite model e r = true := by
  unfold judgeRewrite at h
  split at h
  · assumption
  · exact absurd h (by decide)

/-! ### trig_to_sqrt (laws as hypotheses) and conjugate, as_real_imag (certificates) -/

/-- the 24 identities `trig(inverse(x)) = algebraic expression` of `trig_to_sqrt`, as a property of
the interpretation.  **Not proved** for ℂ here (Mathlib has no complex inverse trigonometric
functions); the numeric oracle tests them at generic complex points. -/
def TrigSqrtLaws (M : Interp K) : Prop :=
  ∀ outer inner x r vx w, trigSqrtRule outer inner x = some r → evalS M x = some vx →
    evalS M r = some w → w = M.app outer [M.app inner [vx]]

/-- the model of `trig_to_sqrt` preserves the value under `TrigSqrtLaws` (partial: the laws are an
hypothesis) -/
theorem trig_to_sqrt_value_partial (hL : TrigSqrtLaws M) (e : Expr) (v w : K)
    (hv : evalS M e = some v) (hw : evalS M (trigToSqrt e) = some w) : w = v := by
  unfold trigToSqrt at hw
  split at hw
  · rename_i outer inner x
    split at hw
    · rename_i r hr
      rw [evalS_app1, evalS_app1] at hv
      cases hx : evalS M x with
      | none => simp [hx] at hv
      | some vx =>
        simp only [hx, Option.map_some, Option.some.injEq] at hv
        rw [← hv]
        exact hL outer inner x r vx w hr hx hw
    · rw [hv] at hw; exact (Option.some.inj hw).symm
  · rw [hv] at hw; exact (Option.some.inj hw).symm

/-- **model certificate** (used for `trig_to_sqrt` and `conjugate`): an accepted result has the
value of the model's result wherever both are defined -/
theorem model_certificate_sound (hM : Lawful M) (model : Expr → Expr) (e r : Expr)
    (hc : checkRewrite model e r = true) :
    ∀ u w, evalS M (model e) = some u → evalS M r = some w → w = u := by
  intro u w hu hw
  exact (treeEquiv_sound hM hc u w hu hw).symm

/-- `conjugate`: the value statement for the model `conjE` with respect to an involution `star` of
the field.  **Not proved** (needs `star` to be a ring homomorphism fixing the real constants and
commuting with the listed function classes, which is true for ℂ away from branch cuts); tested by
the numeric oracle. -/
def conjugate_value_full (star : K → K) (M : Interp K) : Prop :=
  ∀ e v w, evalS M e = some v → evalS M (conjE e) = some w → w = star v

/-- **as_real_imag certificate (value part).**  An accepted `(re, im)` satisfies `re + I*im = e`. -/
theorem real_imag_certificate_value (hM : Lawful M) (e re im : Expr)
    (hc : checkRealImag e re im = true) :
    (∀ v a b, evalS M e = some v → evalS M re = some a → evalS M im = some b → a + M.I * b = v) ∧
    realTree re = true ∧ realTree im = true := by
  simp only [checkRealImag, Bool.and_eq_true] at hc
  obtain ⟨⟨hr, hi⟩, ht⟩ := hc
  refine ⟨?_, hr, hi⟩
  intro v a b hv ha hb
  have h1 : evalS M (recombine re im) = some (a + M.I * b) := by
    have := evalS_mkMulC (M := M) evalS_iE hb
    simp [recombine, evalS, evalSTerms, ha, this, add2, mul2]
  exact treeEquiv_sound hM ht _ v h1 hv

end

/-- `as_real_imag`, realness: a tree accepted by the syntactic test `realTree` evaluates to a real
number.  **Not proved**; the numeric oracle checks that `re` and `im` evaluate to reals. -/
def real_imag_real_full (M : Interp ℂ) : Prop :=
  ∀ e v, realTree e = true → evalS M e = some v → v.im = 0

/-! ### the interpretation over ℂ and its laws -/

/-- ℂ: principal power, `E ↦ exp 1`, `pi ↦ π`, the twelve trigonometric / hyperbolic classes -/
noncomputable def MCx (σ : String → ℂ) : Interp ℂ where
  I := Complex.I
  sym := σ
  dummy := fun _ _ => 0
  const := fun n => if n = "E" then Complex.exp 1 else if n = "pi" then (Real.pi : ℂ) else 0
  fsym := fun _ _ => 0
  app := fun h args =>
    match args with
    | [v] =>
      if h = "Sin" then Complex.sin v else if h = "Cos" then Complex.cos v
      else if h = "Tan" then Complex.tan v else if h = "Cot" then Complex.cos v / Complex.sin v
      else if h = "Csc" then 1 / Complex.sin v else if h = "Sec" then 1 / Complex.cos v
      else if h = "Sinh" then Complex.sinh v else if h = "Cosh" then Complex.cosh v
      else if h = "Tanh" then Complex.tanh v else if h = "Coth" then Complex.cosh v / Complex.sinh v
      else if h = "Csch" then 1 / Complex.sinh v else if h = "Sech" then 1 / Complex.cosh v
      else if h = "UnevaluatedExpr" then v
      else 0
    | _ => 0
  pw := fun b e => b ^ e

theorem exp1_cpow (z : ℂ) : (Complex.exp 1) ^ z = Complex.exp z := by
  rw [Complex.cpow_def_of_ne_zero (Complex.exp_ne_zero 1)]
  rw [Complex.log_exp (by simp [Real.pi_pos]) (by simp [Real.pi_pos.le])]
  simp

theorem expV_MCx (σ : String → ℂ) (z : ℂ) : expV (MCx σ) z = Complex.exp z := by
  simp [expV, MCx, exp1_cpow]

theorem sin_exp (v : ℂ) :
    Complex.sin v = (Complex.exp (Complex.I * v) - Complex.exp (-(Complex.I * v))) / (2 * Complex.I) := by
  rw [Complex.sin]
  have hI : (Complex.I : ℂ) ≠ 0 := Complex.I_ne_zero
  field_simp
  ring_nf
  simp [Complex.I_sq]

theorem cos_exp (v : ℂ) :
    Complex.cos v = (Complex.exp (Complex.I * v) + Complex.exp (-(Complex.I * v))) / 2 := by
  rw [Complex.cos]
  ring_nf

theorem MCx_lawful (σ : String → ℂ) : Lawful (MCx σ) where
  I_sq := Complex.I_mul_I
  pw_add_int := by
    intro b e k hb
    show b ^ ((k : ℂ) + e) = b ^ k * b ^ e
    rw [Complex.cpow_add _ _ hb, Complex.cpow_intCast]
  pw_mul_int := by
    intro b e k _
    show (b ^ e) ^ k = b ^ ((k : ℂ) * e)
    rw [Complex.cpow_int_mul]
  pw_neg := by
    intro b e _
    show b ^ (-e) = (b ^ e)⁻¹
    exact Complex.cpow_neg b e
  pw_ne_zero := by
    intro b e hb
    show b ^ e ≠ 0
    exact fun h => hb ((Complex.cpow_eq_zero_iff b e).mp h).1
  app_odd := by
    intro h hh v
    simp only [oddHeads, List.mem_cons, List.not_mem_nil, or_false] at hh
    rcases hh with rfl | rfl | rfl | rfl | rfl | rfl | rfl | rfl | rfl | rfl | rfl | rfl <;>
      simp [MCx, Complex.sin_neg, Complex.cos_neg, Complex.tan_neg, Complex.sinh_neg,
        Complex.cosh_neg, Complex.tanh_neg, neg_div, div_neg]
  app_even := by
    intro h hh v
    simp only [evenHeads, List.mem_cons, List.not_mem_nil, or_false] at hh
    rcases hh with rfl | rfl | rfl | rfl | rfl <;>
      simp [MCx, Complex.cos_neg, Complex.cosh_neg]

theorem div_forms {A B c : ℂ} (hc : c ≠ 0) : ((A) / (2 * c)) / (B / 2) = A / (c * B) := by
  by_cases hB : B = 0
  · simp [hB]
  · field_simp

theorem MCx_expLaws (σ : String → ℂ) : ExpLaws (MCx σ) where
  E_ne := by simp [MCx, Complex.exp_ne_zero]
  sin := by intro v; simp only [expV_MCx]; simpa [MCx] using sin_exp v
  cos := by intro v; simp only [expV_MCx]; simpa [MCx] using cos_exp v
  tan := by
    intro v
    simp only [expV_MCx]
    show (MCx σ).app "Tan" [v] = _
    have : (MCx σ).app "Tan" [v] = Complex.tan v := by simp [MCx]
    rw [this, Complex.tan_eq_sin_div_cos, sin_exp, cos_exp]
    exact div_forms Complex.I_ne_zero
  cot := by
    intro v hne
    simp only [expV_MCx] at hne ⊢
    have : (MCx σ).app "Cot" [v] = Complex.cos v / Complex.sin v := by simp [MCx]
    rw [this, sin_exp, cos_exp]
    have hI : (MCx σ).I = Complex.I := rfl
    rw [hI]
    have hI0 : (Complex.I : ℂ) ≠ 0 := Complex.I_ne_zero
    field_simp
  csc := by
    intro v
    simp only [expV_MCx]
    have : (MCx σ).app "Csc" [v] = 1 / Complex.sin v := by simp [MCx]
    rw [this, sin_exp]
    have hI : (MCx σ).I = Complex.I := rfl
    rw [hI]
    by_cases h : Complex.exp (Complex.I * v) - Complex.exp (-(Complex.I * v)) = 0
    · simp [h]
    · have hI0 : (Complex.I : ℂ) ≠ 0 := Complex.I_ne_zero
      field_simp
  sec := by
    intro v
    simp only [expV_MCx]
    have : (MCx σ).app "Sec" [v] = 1 / Complex.cos v := by simp [MCx]
    rw [this, cos_exp]
    have hI : (MCx σ).I = Complex.I := rfl
    rw [hI]
    by_cases h : Complex.exp (Complex.I * v) + Complex.exp (-(Complex.I * v)) = 0
    · simp [h]
    · field_simp
  sinh := by intro v; simp only [expV_MCx]; simp [MCx, Complex.sinh]
  cosh := by intro v; simp only [expV_MCx]; simp [MCx, Complex.cosh]
  tanh := by
    intro v
    simp only [expV_MCx]
    have : (MCx σ).app "Tanh" [v] = Complex.tanh v := by simp [MCx]
    rw [this, Complex.tanh_eq_sinh_div_cosh, Complex.sinh, Complex.cosh]
    by_cases h : Complex.exp v + Complex.exp (-v) = 0
    · simp [h]
    · field_simp
  csch := by
    intro v
    simp only [expV_MCx]
    have : (MCx σ).app "Csch" [v] = 1 / Complex.sinh v := by simp [MCx]
    rw [this, Complex.sinh]
    by_cases h : Complex.exp v - Complex.exp (-v) = 0
    · simp [h]
    · field_simp
  sech := by
    intro v
    simp only [expV_MCx]
    have : (MCx σ).app "Sech" [v] = 1 / Complex.cosh v := by simp [MCx]
    rw [this, Complex.cosh]
    by_cases h : Complex.exp v + Complex.exp (-v) = 0
    · simp [h]
    · field_simp
  coth := by
    intro v hne
    simp only [expV_MCx] at hne ⊢
    have : (MCx σ).app "Coth" [v] = Complex.cosh v / Complex.sinh v := by simp [MCx]
    rw [this, Complex.sinh, Complex.cosh]
    field_simp

theorem MCx_trigLaws (σ : String → ℂ) : TrigLaws (MCx σ) where
  uneval := by intro v; simp [MCx]
  cos_as_sin := by
    intro v
    have h1 : (MCx σ).app "Cos" [v] = Complex.cos v := by simp [MCx]
    have h2 : ∀ z, (MCx σ).app "Sin" [z] = Complex.sin z := by intro z; simp [MCx]
    have h3 : (MCx σ).const "pi" = (Real.pi : ℂ) := by simp [MCx]
    rw [h1, h2, h3, show v + (Real.pi : ℂ) * (1 / 2) = v + (Real.pi : ℂ) / 2 by ring,
      Complex.sin_add_pi_div_two]
  sin_as_cos := by
    intro v
    have h1 : (MCx σ).app "Sin" [v] = Complex.sin v := by simp [MCx]
    have h2 : ∀ z, (MCx σ).app "Cos" [z] = Complex.cos z := by intro z; simp [MCx]
    have h3 : (MCx σ).const "pi" = (Real.pi : ℂ) := by simp [MCx]
    rw [h1, h2, h3, show v + (Real.pi : ℂ) * (-1 / 2) = v - (Real.pi : ℂ) / 2 by ring,
      Complex.cos_sub_pi_div_two]
  tan_sin := by
    intro v hne
    have h2 : ∀ z, (MCx σ).app "Sin" [z] = Complex.sin z := by intro z; simp [MCx]
    have h1 : (MCx σ).app "Tan" [v] = Complex.tan v := by simp [MCx]
    rw [h2] at hne
    rw [h1, h2, h2, Complex.tan_eq_sin_div_cos, Complex.sin_two_mul]
    rw [Complex.sin_two_mul] at hne
    have hs : Complex.sin v ≠ 0 := by intro h; apply hne; simp [h]
    have hc : Complex.cos v ≠ 0 := by intro h; apply hne; simp [h]
    field_simp
  cot_sin := by
    intro v hne
    have h2 : ∀ z, (MCx σ).app "Sin" [z] = Complex.sin z := by intro z; simp [MCx]
    have h1 : (MCx σ).app "Cot" [v] = Complex.cos v / Complex.sin v := by simp [MCx]
    rw [h2] at hne
    rw [h1, h2, h2, Complex.sin_two_mul]
    field_simp
  csc_sin := by intro v; simp [MCx]
  sec_cos := by intro v; simp [MCx]
  tan_cos := by intro v; simp [MCx, Complex.tan_eq_sin_div_cos]
  cot_cos := by intro v; simp [MCx]

/-! ### non-vacuity -/

def exX : Expr := .sym "x"
def exY : Expr := .sym "y"

set_option maxRecDepth 100000 in
/-- `as_numer_denom(1/x + 1/y) = (x + y, x*y)` is accepted … -/
theorem ex_numer_denom :
    checkNumerDenom (.add (.int 0) [(.pow exX (.int (-1)), .int 1), (.pow exY (.int (-1)), .int 1)])
      (.add (.int 0) [(exX, .int 1), (exY, .int 1)]) (.mul (.int 1) [(exX, .int 1), (exY, .int 1)]) = true := by
  decide +kernel

set_option maxRecDepth 100000 in
/-- … and the wrong numerator `x - y` is rejected -/
theorem ex_numer_denom_rejects :
    checkNumerDenom (.add (.int 0) [(.pow exX (.int (-1)), .int 1), (.pow exY (.int (-1)), .int 1)])
      (.add (.int 0) [(exX, .int 1), (exY, .int (-1))]) (.mul (.int 1) [(exX, .int 1), (exY, .int 1)]) = false := by
  decide +kernel

set_option maxRecDepth 100000 in
/-- `rewrite_as_exp(cosh(x)) = exp(x)/2 + exp(-x)/2` (the library's canonical form) is accepted -/
theorem ex_rewrite_exp :
    checkRewrite asExp (.app "Cosh" [exX])
      (.add (.int 0) [(.pow (.const "E") exX, .rat 1 2),
                      (.pow (.const "E") (.mul (.int (-1)) [(exX, .int 1)]), .rat 1 2)]) = true := by
  decide +kernel

/-- the conclusion of the certificate theorem on the example, over ℂ: `(x + y)/(x*y) = 1/x + 1/y` for
`x, y ≠ 0` -/
example (σ : String → ℂ) (hx : σ "x" ≠ 0) (hy : σ "y" ≠ 0) :
    (σ "x" + σ "y") / (σ "x" * σ "y") = (σ "x")⁻¹ + (σ "y")⁻¹ := by
  have h := (numer_denom_certificate_sound (MCx_lawful σ) _ _ _ ex_numer_denom).1
  have := h ((σ "x")⁻¹ + (σ "y")⁻¹) (σ "x" + σ "y") (σ "x" * σ "y")
    (by simp [evalS, evalSTerms, intLit?, exX, exY, MCx, powVal, hx, hy, add2, mul2, zpow_neg_one])
    (by simp [evalS, evalSTerms, exX, exY, MCx, add2, mul2])
    (by simp [evalS, evalSFacs, intLit?, exX, exY, MCx, powVal, mul2])
    (mul_ne_zero hx hy)
  exact this

/-- `rewrite_as_exp_value` instantiated over ℂ: `cosh x = (exp x + exp (-x)) / 2` comes out of the
model of the rule and the exponential laws -/
example (σ : String → ℂ) :
    (Complex.exp (σ "x") + Complex.exp (-σ "x")) / 2 = Complex.cosh (σ "x") := by
  have hE : (MCx σ).const "E" ≠ 0 := (MCx_expLaws σ).E_ne
  have hx : evalS (MCx σ) exX = some (σ "x") := by simp [evalS, exX, MCx]
  obtain ⟨_, _, hP, hN⟩ := exp_parts (MCx_lawful σ) hE hx
  have hw : evalS (MCx σ) (asExp (.app "Cosh" [exX])) =
      some ((expV (MCx σ) (σ "x") + expV (MCx σ) (-σ "x")) / 2) := by
    have : asExp (.app "Cosh" [exX]) = rCosh exX := by
      simp [asExp, rewriteWith, rewriteList, expRule, expForm, lookupForm, expTable, exX]
    rw [this, rCosh]
    exact evalS_mkDiv (evalS_mkAdd2 hP hN) evalS_two (by norm_num)
  have hv : evalS (MCx σ) (.app "Cosh" [exX]) = some (Complex.cosh (σ "x")) := by
    rw [evalS_app1, hx]; simp [MCx]
  have := rewrite_as_exp_value (MCx_lawful σ) (MCx_expLaws σ) _ _ _ hv hw
  rw [← expV_MCx σ, ← expV_MCx σ]
  exact this

end C36
end SymVerif
