import SymVerif.Model.Sieve
import SymVerif.Lemmas.C33Trace
import SymVerif.Lemmas.C33Strict
import SymVerif.Lemmas.C33Orig
/-!
# C33 — the prime sieve yields exactly the primes after any call history

Model: `SymVerif.Sieve` (`lean/SymVerif/Model/Sieve.lean`, the no-primesieve branch of
`symengine/prime_sieve.cpp`).  Vocabulary (all from the `Lemmas/C33*.lean` files):

* `np i` — the `i`-th prime (`Nat.nth Nat.Prime i`), `cnt n` — the number of primes `< n`;
* `primesUpTo L` — `(List.range (L+1)).filter Nat.Prime`;
* `Inv s` — `s.size ≤ s.buf.size`, `10 ≤ s.size`, `s.buf[i] = np i` for **every** `i < s.buf.size`
  (also in the stale region left behind by `clear`), `0 < s.sieveBits`;
* `WInv w` — `Inv w.s` and no iterator stands beyond the storage;
* `IterRun L i out j` — `out` is what an iterator with limit `L` at position `i` may return:
  the next prime (advance), or `L+1` only if the next prime exceeds the non-zero limit `L`;
* `OpsOk ops` — decidable: every `gen` limit `< 2^31`, every sieve size positive and `< 2^30`
  bits, every iterator limit `< 2^32 - 1` (the range where `Nat` and `unsigned` arithmetic agree).

The theorems are about the very functions the driver `Drv/C33.lean` executes (`run`, `step`,
`generatePrimes`, `nextPrime`, `extend`).
-/
namespace SymVerif.C33
open SymVerif.Sieve

/-! ## 1. No out-of-bounds access (repaired code) — and the defect in the original code -/

/-- The repaired `_extend` never indexes `is_prime` or `_primes` out of range, never runs out of
fuel, and stores exactly the primes needed: afterwards the cache holds `max(old, π(limit))`
primes and the invariant still holds. -/
theorem extend_correct (s : State) (limit : Nat) (hinv : Inv s) (hlim : limit < maxLimit) :
    ∃ s', extend s limit = .ok s' ∧ Inv s' ∧ s'.size = max s.size (cnt (limit + 1)) ∧
      s'.sieveBits = s.sieveBits ∧ s'.clearFlag = s.clearFlag ∧ s.buf.size ≤ s'.buf.size :=
  extend_spec s limit hinv hlim

theorem extend_no_oob (s : State) (limit : Nat) (hinv : Inv s) (hlim : limit < maxLimit) :
    extend s limit ≠ .error .oob := by
  obtain ⟨s', e, _⟩ := extend_spec s limit hinv hlim
  rw [e]; simp

example :=
  extend_correct init 1000 inv_init (by decide)

/-- **D15 in general**: with the original `finish = start + 2*segment + 1` the same function
performs an out-of-bounds access as soon as `limit` lies beyond the first segment. -/
theorem orig_extend_oob (fuel : Nat) (s : State) (limit : Nat) (hinv : Inv s)
    (hlim : limit < 2 ^ (2 ^ fuel))
    (h1 : Nat.sqrt limit ≤ s.back + 2 * s.sieveBits)
    (h2 : max (s.back + 1) (Nat.sqrt limit + 1) + 2 * s.sieveBits + 1 ≤ limit) :
    extendWith finishOrig (fuel + 1) s limit = .error .oob :=
  extendWith_orig_oob fuel s limit hinv hlim h1 h2

/-- The API-reachable witness of D15: `set_sieve_size(1); generate_primes(p, 100000)` on a fresh
process (`8192` bits per segment). -/
theorem orig_extend_oob_witness :
    extendWith finishOrig 64 { init with sieveBits := 1 * 1024 * 8 } 100000 = .error .oob := by
  have hinv : Inv { init with sieveBits := 1 * 1024 * 8 } :=
    ⟨inv_init.size_le, inv_init.ten_le, inv_init.nth, by decide⟩
  have hb : ({ init with sieveBits := 1 * 1024 * 8 } : State).back = 29 := by decide
  have hbits : ({ init with sieveBits := 1 * 1024 * 8 } : State).sieveBits = 8192 := by decide
  have hs : Nat.sqrt 100000 < 1000 := Nat.sqrt_lt'.2 (by decide)
  apply extendWith_orig_oob 63 _ _ hinv
  · calc 100000 < 2 ^ 31 := by decide
      _ < 2 ^ 2 ^ 63 := Nat.pow_lt_pow_right (by omega) (by decide)
  · rw [hb, hbits]; omega
  · rw [hb, hbits]
    generalize Nat.sqrt 100000 = q at hs
    have : max (29 + 1) (q + 1) ≤ 1000 := max_le (by omega) (by omega)
    omega

/-- The smallest instance, by evaluation of the segment loop (segment of one bit). -/
theorem orig_segLoop_oob_small :
    (match segLoop finishOrig 1 40 41 30 init with | .error .oob => true | _ => false) = true := by
  decide

/-! ## 2. The invariant -/

theorem inv_initial : Inv init ∧ WInv World.init := ⟨inv_init, winv_init⟩

/-- every successful API call preserves the world invariant -/
theorem step_preserves_inv (w w' : World) (op : Op) (out : List Nat) (hw : WInv w)
    (hop : opOk op = true) (h : step w op = .ok (w', out)) : WInv w' := by
  rcases step_spec w op hw hop with ⟨w1, out1, e, hw1, _⟩ | ⟨e, _⟩
  · rw [e] at h
    simp only [Except.ok.injEq, Prod.mk.injEq] at h
    rw [← h.1]; exact hw1
  · rw [e] at h; simp at h

example : opOk (.gen 100000) = true ∧ opOk (.setSize 1) = true := by decide

/-! ## 3. The core sieve lemma -/

/-- One pass of the segment loop body: the marking loop stays in bounds and leaves bit `j`
(standing for the odd number `start + 2j + 1 ≤ finish`) set iff that number is prime; the
collecting loop then appends exactly the primes of the segment. -/
theorem sieve_segment_correct (s : State) (hinv : Inv s) (start finish segment : Nat)
    (hs : start % 2 = 0) (hs4 : 4 ≤ start) (hsf : start ≤ finish)
    (hfin : finish < start + 2 * segment) (hc : s.size = cnt start)
    (hq : ∀ q, q.Prime → q * q ≤ finish → q < start) :
    ∃ a', markLoop s start finish (s.size + 1) 1 (Array.replicate segment true) = .ok a' ∧
      a'.size = segment ∧
      (∀ j, start + 2 * j + 1 ≤ finish → (a'[j]? = some true ↔ (start + 2 * j + 1).Prime)) ∧
    ∃ s', collectLoop a' start finish (finish + 1) (start + 1) s = .ok s' ∧ Inv s' ∧
      s'.size = cnt (finish + 1) ∧
      s'.sieveBits = s.sieveBits ∧ s'.clearFlag = s.clearFlag ∧ s.buf.size ≤ s'.buf.size :=
  segment_spec s hinv start finish segment hs hs4 hsf hfin hc hq

/-- The arithmetic heart: an odd `n ∈ (start, finish]` is prime iff no odd prime below `start`
with square `≤ finish` divides it — given that all primes `q` with `q² ≤ finish` are below `start`
(what the `sqrt` recursion of `_extend` establishes). -/
theorem sieve_unmarked_iff_prime {start finish n : Nat} (hs : 2 ≤ start)
    (hq : ∀ q, q.Prime → q * q ≤ finish → q < start)
    (hodd : n % 2 = 1) (h1 : start < n) (h2 : n ≤ finish) :
    (∀ i, 1 ≤ i → i < cnt start → np i * np i ≤ finish → ¬ np i ∣ n) ↔ n.Prime :=
  sieve_core hs hq hodd h1 h2

example : (∀ i, 1 ≤ i → i < cnt 30 → np i * np i ≤ 100 → ¬ np i ∣ 91) ↔ Nat.Prime 91 :=
  sieve_unmarked_iff_prime (start := 30) (finish := 100) (by omega)
    (fun q _ hqq => by nlinarith) (by omega) (by omega) (by omega)

/-! ## 4. generate_primes -/

/-- From any state satisfying the invariant, `generate_primes(limit)` returns exactly the primes
`≤ limit` in increasing order, and re-establishes the invariant. -/
theorem generatePrimes_correct (s : State) (limit : Nat) (hinv : Inv s) (hlim : limit < maxLimit) :
    ∃ s', generatePrimes s limit = .ok (s', (List.range (limit + 1)).filter (fun k => decide k.Prime)) ∧
      Inv s' ∧ s'.sieveBits = s.sieveBits ∧ s'.clearFlag = s.clearFlag ∧
      s.buf.size ≤ s'.buf.size :=
  generatePrimes_spec s limit hinv hlim

example :=
  generatePrimes_correct init 100000 inv_init (by decide)

/-! ## 5. next_prime -/

/-- An iterator at position `i` (anywhere inside the storage — possibly in the stale region
after a `clear` by somebody else, where `_primes[_index-1]` reads a value no longer logically
stored) returns the `i`-th prime and advances; or, only when its non-zero limit is smaller than
that prime and the prime is not cached, `limit + 1` without advancing; or reports that the
extension target is outside the modelled range (`≥ 2^31`).  Never out of bounds. -/
theorem nextPrime_correct (s : State) (it : Iter) (hinv : Inv s) (hidx : it.index ≤ s.buf.size) :
    ∃ s', Inv s' ∧ s.buf.size ≤ s'.buf.size ∧ s'.sieveBits = s.sieveBits ∧
      s'.clearFlag = s.clearFlag ∧
      ((nextPrime s it = .ok (s', { it with index := it.index + 1 }, np it.index) ∧
          it.index + 1 ≤ s'.buf.size ∧
          (it.index < s.size ∨ it.limit = 0 ∨ np it.index ≤ it.limit)) ∨
       (nextPrime s it = .ok (s', it, it.limit + 1) ∧ 0 < it.limit ∧ it.limit < np it.index ∧
          s.size ≤ it.index) ∨
       (nextPrime s it = .error .range ∧ s.size ≤ it.index ∧ maxLimit ≤ extendTarget it)) :=
  nextPrime_spec s it hinv hidx

example := nextPrime_correct init { index := 10, limit := 0 } inv_init (by decide)

/-! ## 6. Histories -/

/-- **Main theorem.** For every history with admissible arguments, the run from the fresh
process state is a `GoodTrace`: every call succeeds with the right result (`OutOk`: `gen L`
returns `primesUpTo L`, `iterNext` returns an `IterRun` from the iterator's position, all other
iterators keep their position), except that the run may stop at an `iterNext` with `Err.range`
(an extension target `≥ 2^31`, see `nextPrime_correct`). -/
theorem history_correct (ops : List Op) (hops : OpsOk ops) :
    ∃ wf, run World.init ops [] = (wf, (run World.init ops []).2) ∧
      GoodTrace World.init ops (run World.init ops []).2 wf ∧ WInv wf := by
  obtain ⟨outs, wf, e, gt, hwf⟩ := run_spec World.init ops [] winv_init hops
  refine ⟨wf, ?_, ?_, hwf⟩
  · rw [e]
  · rw [e]; simpa using gt

/-- No history ever produces an out-of-bounds access or exhausts the recursion fuel. -/
theorem history_no_ub (ops : List Op) (hops : OpsOk ops) :
    ∀ r ∈ (run World.init ops []).2, r ≠ .error .oob ∧ r ≠ .error .fuel := by
  obtain ⟨wf, _, gt, _⟩ := history_correct ops hops
  exact gt.no_ub

/-- Every `generate_primes(L)` call of every history returns exactly the primes `≤ L`,
increasing — whatever happened before. -/
theorem history_gen_outputs (ops : List Op) (hops : OpsOk ops) (k limit : Nat)
    (r : Except Err (List Nat)) (hop : ops[k]? = some (.gen limit))
    (hr : (run World.init ops []).2[k]? = some r) :
    r = .ok ((List.range (limit + 1)).filter (fun k => decide k.Prime)) := by
  obtain ⟨wf, _, gt, _⟩ := history_correct ops hops
  exact gt.gen k limit r hop hr

/-- Position-free statement for iterators: for every iterator alive at the end of a history,
everything it has returned since its creation (`iterLog`, computed from the printed outputs
alone) is an `IterRun` from position 0 — consecutive primes without gaps or repeats, the end
marker `limit+1` appearing only when the next prime exceeds the limit.  (Apply it to every
prefix of a history to cover every intermediate moment.) -/
theorem history_iter_outputs (ops : List Op) (hops : OpsOk ops) (slot : Nat) :
    ∀ it, lookupIter (run World.init ops []).1.iters slot = some it →
      IterRun it.limit 0 (iterLog slot ops (run World.init ops []).2 []) it.index := by
  obtain ⟨wf, e, gt, _⟩ := history_correct ops hops
  have : (run World.init ops []).1 = wf := by rw [e]
  rw [this]
  apply gt.iter_log slot []
  intro it h
  simp [World.init, lookupIter] at h

/-- reading `IterRun`: without a limit the outputs are exactly the consecutive primes -/
theorem iterRun_unlimited {i j : Nat} {out : List Nat} (h : IterRun 0 i out j) :
    out = (List.range' i out.length).map np ∧ j = i + out.length := h.unlimited

/-- reading `IterRun`: a caller looping `while ((p = next_prime()) <= L)` sees exactly the
consecutive primes `≤ L` from position `i`; everything after them exceeds `L`. -/
theorem iterRun_limited {L i j : Nat} {out : List Nat} (h : IterRun L i out j) :
    ∃ m rest, out = (List.range' i m).map np ++ rest ∧ (∀ k, k < m → np (i + k) ≤ L) ∧
      (∀ v ∈ rest, L < v) ∧ (rest ≠ [] → L < np (i + m)) := h.limited

/-- Histories whose iterators all carry a limit in `(0, 2^31)`: **no error at all** — one
successful result per call. -/
theorem history_no_error (ops : List Op) (hops : OpsOkStrict ops) :
    ∃ outs : List (List Nat), (run World.init ops []).2 = outs.map .ok ∧
      outs.length = ops.length := by
  obtain ⟨outs, e, len⟩ := run_strict World.init ops [] winv_init
    (by intro k it h; simp [World.init, lookupIter] at h) hops
  exact ⟨outs, by simpa using e, len⟩

theorem GoodTrace.complete {w wf : World} {ops : List Op} {outs : List (Except Err (List Nat))}
    (gt : GoodTrace w ops outs wf) (hr : ∀ r ∈ outs, r ≠ .error .range) :
    outs.length = ops.length := by
  induction ops generalizing w outs with
  | nil => obtain ⟨rfl, _⟩ := gt; rfl
  | cons op ops ih =>
    rcases gt with ⟨w', out, rest, _, rfl, _, gt'⟩ | ⟨rfl, _, _⟩
    · simp only [List.length_cons, Nat.add_right_cancel_iff]
      exact ih gt' (fun r hr' => hr r (List.mem_cons_of_mem _ hr'))
    · exact absurd rfl (hr _ List.mem_cons_self)

/-- If a history printed no `Err.range`, every call produced a result. -/
theorem history_complete (ops : List Op) (hops : OpsOk ops)
    (hr : ∀ r ∈ (run World.init ops []).2, r ≠ .error .range) :
    (run World.init ops []).2.length = ops.length := by
  obtain ⟨wf, _, gt, _⟩ := history_correct ops hops
  exact gt.complete hr

-- non-vacuity: the hypotheses hold for concrete, non-trivial histories
example : OpsOk [.setSize 1, .gen 100000, .setClear false, .iterNew 0 0, .iterNext 0 40, .clear,
    .iterNext 0 5, .gen 32795] := by decide
example : OpsOkStrict [.setBits 1, .iterNew 2 50, .iterNext 2 20, .gen 1000, .iterDel 2] := by decide
example := history_gen_outputs [.setSize 1, .gen 100000] (by decide) 1 100000

end SymVerif.C33
