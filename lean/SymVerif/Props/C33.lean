import SymVerif.Model.Sieve
namespace SymVerif.C33
end SymVerif.C33
