import SymVerif.Model.CApi
import SymVerif.Lemmas.C42Containers
/-!
# C42 — the C API and the `Expression` wrapper agree with the core API

Four groups of statements (see `docs/C42.md`):

1. **no exception escapes** (`no_escape_partial`, `wrapped_returns_code`, `code_is_wrapped`, `all_declared`):
   over the table of every `extern "C"` function regenerated from `cwrapper.cpp` on each run.
2. **exception ↦ error code** (`exc_map_total`, `exc_class_codes`, `exc_enum_range`, `callWrapped_*`):
   about `handle`, the interpreter of the *translated* `CWRAPPER_END` catch clauses.
3. **containers** (`vec_*`, `set_run_refines`, `map_run_refines`, `vint_*`): in `Lemmas/C42Containers.lean`,
   re-exported here.
4. **Expression operators** (`expr_ops`, `expr_ops_complete`) and the C-function ↦ core-function table
   (`core_table_partial`).
-/
namespace SymVerif.C42
open SymVerif.CApi SymVerif.Gen.CApi

/-! ## 1. No C++ exception escapes to the C caller -/

/-- Callees that may appear outside a catch-all region, with the reason why they cannot throw.
**Allocation failure (`std::bad_alloc` from `new`, `std::string`, `push_back`, container inserts) is outside the
model**: it is a resource-exhaustion condition shared with every C++ entry point (`basic_new_heap` itself would
hit it), not a function of the arguments.  `SYMENGINE_ASSERT` is not a callee: in a release build it is empty, in an
assert build it aborts (the verification hook turns it into an exception only when a *precondition* is violated). -/
def noThrowWhy : List (String × String) := [
  -- the handle itself
  ("basic_rcp", "reinterpret_cast to the stored RCP"),
  ("reinterpret_cast", "cast"), ("static_cast", "cast"),
  ("rcp_static_cast", "static pointer cast (asserts only)"),
  ("down_cast", "static cast (asserts only)"),
  ("numeric_cast", "static_cast (asserts only)"),
  ("outArg", "wraps a pointer"),
  -- allocation / deallocation (bad_alloc excluded, see above)
  ("new", "allocation only"), ("new[]", "allocation only"), ("placement_new", "no allocation"),
  ("delete", "destructors are noexcept"), ("delete[]", "destructors are noexcept"),
  ("~RCP", "destructor"), ("~vector", "destructor"),
  ("ctor:CRCPBasic", "default RCP"), ("ctor:CVectorInt", "empty vector"), ("ctor:CVecBasic", "empty vector"),
  ("ctor:CSetBasic", "empty set"), ("ctor:CMapBasicBasic", "empty map"),
  ("ctor:CDenseMatrix", "DenseMatrix(), DenseMatrix(r,c), DenseMatrix(r,c,vec): allocation + asserts only"),
  ("ctor:CSparseMatrix", "empty CSRMatrix"), ("CSRMatrix", "CSRMatrix(), CSRMatrix(r,c): allocation only"),
  ("ctor:CLambdaRealDoubleVisitor", "default constructor"), ("ctor:CLLVMDoubleVisitor", "default constructor"),
  ("ctor:CLLVMFloatVisitor", "default constructor"), ("ctor:CLLVMLongDoubleVisitor", "default constructor"),
  ("ctor:BasicCodePrinterSettings", "POD"),
  -- libc / std::string
  ("string", "std::string(const char*): allocation only"), ("strcpy", "libc"), ("strcmp", "libc"),
  ("length", "std::string::length"), ("c_str", "std::string::c_str"), ("copy", "std::string::copy with pos = 0"),
  ("op==", "pointer / int / iterator comparison"), ("op!=", "iterator comparison"),
  ("op[]", "std::map::operator[] / std::vector::operator[]: no exception (index precondition)"),
  ("next", "std::next"), ("begin", "iterator"), ("end", "iterator"), ("map_basic_basic__end", "iterator"),
  ("real", "std::complex"), ("imag", "std::complex"),
  -- type tests and field accessors
  ("is_a", "type-code comparison"), ("is_a_Number", "type-code test"), ("is_a_Set", "type-code test"),
  ("is_a_Integer", "C API type test"), ("is_a_Symbol", "C API type test"), ("is_aligned", "pointer arithmetic"),
  ("get_type_code", "field read"), ("hash", "cached hash; __hash__ implementations do not throw"),
  ("as_double", "field read"), ("as_complex_double", "field read"), ("as_integer_class", "field read"),
  ("as_mpfr", "field read"), ("get_mpfr_t", "field read"), ("get_prec", "field read"), ("mpfr_get_d", "mpfr, no exception"),
  ("mp_get_si", "gmp, truncates"), ("mp_get_ui", "gmp, truncates"), ("get_name", "copies a std::string"),
  ("is_zero", "Number predicate: no throw statement in any override"),
  ("is_negative", "Number predicate: no throw statement in any override"),
  ("is_positive", "Number predicate: no throw statement in any override"),
  ("is_complex", "Number predicate: no throw statement in any override"),
  ("eq", "structural __eq__: no throw statement in any override"),
  ("neq", "negation of eq"),
  ("has_symbol", "stop-visitor over get_args()"),
  -- singletons / trivially constructed objects
  ("constant", "make_rcp<Constant>"), ("emptyset", "singleton"), ("universalset", "singleton"),
  ("complexes", "singleton"), ("reals", "singleton"), ("rationals", "singleton"), ("integers", "singleton"),
  ("from_two_ints", "zero denominator handled (Nan / ComplexInf), otherwise canonicalize"),
  ("ascii_art", "string literal"), ("print_stack_on_segfault", "installs a signal handler"),
  ("mod_inverse", "mp_invert: returns 0 when no inverse exists (also for modulus 0)"),
  -- container members
  ("vector__push_back", "allocation only"), ("vec_basic__size", "size"),
  ("set_basic__insert", "RCPBasicKeyLess = hash, eq, __cmp__ (type code first, then same-class compare): no throw reachable"),
  ("set_basic__find", "as insert"), ("set_basic__erase", "as insert"), ("set_basic__size", "size"),
  ("map_basic_basic__find", "as set insert"), ("map_basic_basic__size", "size"),
  -- matrices
  ("DenseMatrix__nrows", "field read"), ("DenseMatrix__ncols", "field read"),
  ("DenseMatrix__op_eq", "element-wise eq"), ("CSRMatrix__op_eq", "vector comparisons with eq"),
  ("DenseMatrix____str__", "StrPrinter: strprinter.cpp contains no throw statement"),
  ("CSRMatrix____str__", "StrPrinter: strprinter.cpp contains no throw statement"),
  -- compiled closures
  ("LambdaRealDoubleVisitor__call", "calls the stored std::function closures (arithmetic on doubles)"),
  ("LLVMDoubleVisitor__call", "calls the JIT-compiled function"), ("LLVMFloatVisitor__call", "as above"),
  ("LLVMLongDoubleVisitor__call", "as above")
]

def noThrow : List String := noThrowWhy.map (·.1)

/-- C functions that call throwing C++ outside every catch-all region.  Each has a concrete valid-handle input on
which the exception really reaches the C caller (harness tag `escape-repro`, `docs/C42.md`, proposed known
findings C42-E1…E3).  The LLVM variants are the same code as the lambda visitor (not built by default). -/
def knownEscapes : List String := [
  "basic_dumps",
  "basic_set_is_subset", "basic_set_is_proper_subset", "basic_set_is_superset", "basic_set_is_proper_superset",
  "lambda_real_double_visitor_init",
  "llvm_double_visitor_init", "llvm_float_visitor_init", "llvm_long_double_visitor_init"
]

/-- every identifier applied outside a catch-all region is in the allow-list -/
def safeFun (f : CFun) : Bool := f.unguarded.all (fun c => noThrow.contains c)

/-- The unrestricted statement (FALSE on the current tree: see `knownEscapes`). -/
def C42_no_escape_full : Prop := ∀ f ∈ cApi, f.wrapped = true ∨ ∀ c ∈ f.unguarded, c ∈ noThrow

/-! The check is organised so that the kernel compares each distinct identifier with the allow-list once
(string comparison is slow inside the kernel): `badIx` = positions in `unguardedIdents` of identifiers that are
not allowed; per function only the index lists are inspected. -/

/-- indices (into `unguardedIdents`) of identifiers that are NOT on the allow-list -/
def badIx : List Nat :=
  (unguardedIdents.zipIdx.filter (fun p => !noThrow.contains p.1)).map (·.2)

/-- the translator's index lists denote the string lists -/
def ixFaithful (f : CFun) : Bool := f.unguardedIx.map (fun i => unguardedIdents.getD i "") == f.unguarded

/-- functions with an unguarded identifier outside the allow-list -/
def escapers : List String :=
  (cApi.filter (fun f => f.unguardedIx.any (fun i => badIx.contains i))).map (·.name)

theorem ix_faithful : cApi.all ixFaithful = true := by decide +kernel

theorem escapers_known : escapers.all (fun n => knownEscapes.contains n) = true := by decide +kernel

theorem badIx_spec (i : Nat) (h : i ∉ badIx) (hi : i < unguardedIdents.length) :
    unguardedIdents.getD i "" ∈ noThrow := by
  by_contra hc
  apply h
  unfold badIx
  refine List.mem_map.mpr ⟨(unguardedIdents.getD i "", i), List.mem_filter.mpr ⟨?_, ?_⟩, rfl⟩
  · rw [List.mem_zipIdx_iff_getElem?]
    simp [List.getD_eq_getElem?_getD, List.getElem?_eq_getElem hi]
  · simpa using hc

theorem ix_in_range : cApi.all (fun f => f.unguardedIx.all (fun i => decide (i < unguardedIdents.length))) = true := by
  decide +kernel

/-- **no_escape (partial)**: every C API function outside the explicit exclusion list calls, outside a catch-all
region (`CWRAPPER_BEGIN/END` or its own `try … catch (...)`), only callees of the no-throw allow-list.
Re-proved against the regenerated table: a new unwrapped function that calls anything not on the list, or a
`CWRAPPER_BEGIN/END` pair removed from an existing function, breaks this proof. -/
theorem no_escape_partial :
    ∀ f ∈ cApi, f.name ∉ knownEscapes → ∀ c ∈ f.unguarded, c ∈ noThrow := by
  intro f hf hn c hc
  have hfaith : ixFaithful f = true := (List.all_eq_true.mp ix_faithful) f hf
  have hrange := (List.all_eq_true.mp ((List.all_eq_true.mp ix_in_range) f hf))
  have hnot : ¬ (f.unguardedIx.any (fun i => badIx.contains i) = true) := by
    intro hbad
    have hmem : f.name ∈ escapers :=
      List.mem_map.mpr ⟨f, List.mem_filter.mpr ⟨hf, hbad⟩, rfl⟩
    have := (List.all_eq_true.mp escapers_known) _ hmem
    exact hn (by simpa using this)
  have heq : f.unguardedIx.map (fun i => unguardedIdents.getD i "") = f.unguarded := by
    simpa [ixFaithful] using hfaith
  rw [← heq] at hc
  obtain ⟨i, hi, rfl⟩ := List.mem_map.mp hc
  have hnb : i ∉ badIx := by
    intro hb
    apply hnot
    exact List.any_eq_true.mpr ⟨i, hi, by simpa using hb⟩
  have := hrange i hi
  exact badIx_spec i hnb (by simpa using this)

/-- non-vacuity: `basic_get_type` is unwrapped, not excluded, and its three unguarded callees are checked -/
example : (findFun "basic_get_type").map (fun f => (f.wrapped, f.catchAll, f.unguarded.length,
    knownEscapes.contains f.name)) = some (false, false, 3, false) := by decide +kernel

/-- the offenders found in the current table (reported in docs/C42.md; not a registered theorem: a fix shrinks it) -/
example : ∀ n ∈ escapers, n ∈ knownEscapes := by
  intro n hn
  have := (List.all_eq_true.mp escapers_known) n hn
  simpa using this

/-- `CWRAPPER_END` returns a `symengine_exceptions_t`: a wrapped function must have that return type. -/
theorem wrapped_returns_code : ∀ f ∈ cApi, f.wrapped = true → f.ret = RetClass.code := by decide +kernel

/-- functions that return an error code without `CWRAPPER_BEGIN/END` (hand-written codes) -/
def manualCode : List String := ["rational_set"]

theorem code_is_wrapped_bool :
    cApi.all (fun f => f.ret != RetClass.code || f.wrapped || manualCode.contains f.name) = true := by
  decide +kernel

theorem code_is_wrapped : ∀ f ∈ cApi, f.ret = RetClass.code → f.wrapped = true ∨ f.name ∈ manualCode := by
  intro f hf hr
  have := (List.all_eq_true.mp code_is_wrapped_bool) f hf
  simp [hr] at this
  rcases this with h | h
  · exact Or.inl h
  · exact Or.inr (by simpa using h)

/-- every defined C function is declared in `cwrapper.h` -/
theorem all_declared : ∀ f ∈ cApi, f.declared = true := by decide +kernel

/-- a wrapped function runs nothing but C-API type tests before `CWRAPPER_BEGIN` -/
theorem wrapped_prelude : ∀ f ∈ cApi, f.wrapped = true → ∀ c ∈ f.unguarded, c ∈ ["is_a_Symbol", "is_a_Integer"] := by
  decide +kernel

example : (cApi.filter (·.wrapped)).length > 100 := by decide +kernel

/-! ## 2. Exception class ↦ error code -/

/-- the enum is exactly 0 … 6 in declaration order -/
theorem exc_enum_range : excEnum.map (·.2) = List.range 7 := by decide

/-- normal completion returns SYMENGINE_NO_EXCEPTION = 0 -/
theorem ok_code_zero : lookup excEnum okCode = some 0 := by decide

/-- **exc_map_total**: whatever the enclosed C++ code throws, some clause of `CWRAPPER_END` catches it and returns
an error code; SymEngine exceptions return the code they carry, everything else SYMENGINE_RUNTIME_ERROR. -/
theorem runtime_code : lookup excEnum "SYMENGINE_RUNTIME_ERROR" = some 1 := by decide

theorem exc_map_total : ∀ e : Thrown, ∃ c, handle e = some c := by
  intro e
  cases e with
  | sym cls code =>
    by_cases h : derivesFrom excClasses excClasses.length cls "SymEngineException" = true
    · exact ⟨code, by simp [handle, handleWith, catchClauses, evalRet, matchesClause, h]⟩
    · exact ⟨1, by simp [handle, handleWith, catchClauses, evalRet, matchesClause, h, runtime_code]⟩
  | other w =>
    exact ⟨1, by simp [handle, handleWith, catchClauses, evalRet, matchesClause, runtime_code]⟩

theorem exc_other_runtime : ∀ w, handle (.other w) = some 1 := by
  intro w
  simp [handle, handleWith, catchClauses, evalRet, matchesClause, runtime_code]

/-- every class of `symengine_exception.h` is caught by the first clause and yields the code it carries -/
theorem exc_class_carried :
    ∀ c ∈ excClasses, ∀ n : Nat, handle (.sym c.1 n) = some n := by
  intro c hc n
  have h : derivesFrom excClasses excClasses.length c.1 "SymEngineException" = true := by
    revert c
    decide
  simp [handle, handleWith, catchClauses, evalRet, matchesClause, h]

/-- every fixed code used by an exception class is a declared, non-zero enum value:
a thrown exception can never be reported as success -/
theorem exc_class_codes :
    ∀ c ∈ excClasses, ∀ k ∈ c.2.2, k ≠ "*" → ∃ n, lookup excEnum k = some n ∧ n ≠ 0 := by decide

/-- the class ↦ code map is a function: no class has two different fixed codes -/
theorem exc_class_code_unique :
    ∀ c ∈ excClasses, ∀ k ∈ c.2.2, ∀ k' ∈ c.2.2, k ≠ "*" → k' ≠ "*" → k = k' := by decide

example : handle (.sym "DivisionByZeroError" 2) = some 2 ∧ handle (.sym "ParseError" 5) = some 5
    ∧ handle (.other "std::bad_cast") = some 1 ∧ handle (.sym "NotAClass" 9) = some 1 := by decide

/-- the wrapper never lets anything through, returns 0 exactly on normal completion (given that thrown codes
are non-zero), and leaves the out-handle untouched on error -/
theorem callWrapped_ok {α : Type} (old v : α) : callWrapped old (.ok v) = some (0, v) := by
  simp [callWrapped, ok_code_zero]

theorem callWrapped_threw {α : Type} (old : α) (e : Thrown) :
    ∃ c, handle e = some c ∧ callWrapped old (.threw e) = some (c, old) := by
  obtain ⟨c, hc⟩ := exc_map_total e
  exact ⟨c, hc, by simp [callWrapped, hc]⟩

theorem callWrapped_total {α : Type} (old : α) (r : Outcome α) : (callWrapped old r).isSome = true := by
  cases r with
  | ok v => simp [callWrapped_ok]
  | threw e =>
    obtain ⟨c, _, h⟩ := callWrapped_threw old e
    simp [h]

example : callWrapped "(s __old)" (.threw (.sym "DomainError" 4)) = some (4, "(s __old)") := by decide

/-! ## 4. Expression operators and the C-function ↦ core-function table -/

/-- **expr_ops**: every operator / method / free function of `expression.h` that the translator found forwards to
the intended core function with its operands in order (`exprIntended`, `exprOpOk` in the model file). -/
theorem expr_ops : ∀ o ∈ exprOps, exprOpOk o = true := by decide +kernel

/-- the overload set the specification expects is present -/
def exprRequired : List (String × String) := [
  ("operator+", "EE"), ("operator+", "BE"), ("operator+", "EB"), ("operator+=", "E"), ("operator+=", "B"),
  ("operator-", "EE"), ("operator-", "BE"), ("operator-", "EB"), ("operator-=", "E"), ("operator-=", "B"),
  ("operator*", "EE"), ("operator*", "BE"), ("operator*", "EB"), ("operator*=", "E"), ("operator*=", "B"),
  ("operator/", "EE"), ("operator/", "BE"), ("operator/", "EB"), ("operator/=", "E"), ("operator/=", "B"),
  ("operator==", "E"), ("operator==", "B"), ("operator!=", "E"), ("operator!=", "B"), ("operator-", ""),
  ("pow", "EE"), ("expand", "E"), ("diff", "Sb"), ("diff", "Bb"), ("subs", "M")]

theorem expr_ops_complete : ∀ p ∈ exprRequired, (findExprOp p.1 p.2).isSome = true := by decide +kernel

example : (findExprOp "operator/" "BE").map (·.core) = some "div" := by decide +kernel

/-- Hand-written specification: the core C++ function each C function must call (checked against the translated
callee lists).  `basic_<f>` generated by the two macros are included through their expansion. -/
def coreSpec : List (String × String) := [
  ("basic_add", "add"), ("basic_sub", "sub"), ("basic_mul", "mul"), ("basic_div", "div"), ("basic_pow", "pow"),
  ("basic_diff", "diff"), ("basic_expand", "expand"), ("basic_neg", "neg"), ("basic_abs", "abs"),
  ("basic_sin", "sin"), ("basic_cos", "cos"), ("basic_tan", "tan"), ("basic_csc", "csc"), ("basic_sec", "sec"),
  ("basic_cot", "cot"), ("basic_asin", "asin"), ("basic_acos", "acos"), ("basic_asec", "asec"),
  ("basic_acsc", "acsc"), ("basic_atan", "atan"), ("basic_acot", "acot"), ("basic_sinh", "sinh"),
  ("basic_cosh", "cosh"), ("basic_tanh", "tanh"), ("basic_csch", "csch"), ("basic_sech", "sech"),
  ("basic_coth", "coth"), ("basic_asinh", "asinh"), ("basic_acosh", "acosh"), ("basic_asech", "asech"),
  ("basic_acsch", "acsch"), ("basic_atanh", "atanh"), ("basic_acoth", "acoth"), ("basic_lambertw", "lambertw"),
  ("basic_zeta", "zeta"), ("basic_dirichlet_eta", "dirichlet_eta"), ("basic_gamma", "gamma"),
  ("basic_loggamma", "loggamma"), ("basic_sqrt", "sqrt"), ("basic_cbrt", "cbrt"), ("basic_exp", "exp"),
  ("basic_log", "log"), ("basic_floor", "floor"), ("basic_ceiling", "ceiling"), ("basic_sign", "sign"),
  ("basic_erf", "erf"), ("basic_erfc", "erfc"),
  ("basic_atan2", "atan2"), ("basic_kronecker_delta", "kronecker_delta"), ("basic_lowergamma", "lowergamma"),
  ("basic_uppergamma", "uppergamma"), ("basic_beta", "beta"), ("basic_polygamma", "polygamma"),
  ("basic_eq", "eq"), ("basic_neq", "neq"), ("basic_parse", "parse"), ("basic_parse2", "parse"),
  ("basic_subs", "subs"), ("basic_subs2", "subs"), ("basic_coeff", "coeff"), ("basic_evalf", "evalf"),
  ("basic_as_numer_denom", "as_numer_denom"), ("basic_get_args", "get_args"),
  ("basic_free_symbols", "free_symbols"), ("basic_function_symbols", "atoms"), ("basic_hash", "hash"),
  ("basic_max", "max"), ("basic_min", "min"), ("basic_add_vec", "add"), ("basic_mul_vec", "mul"),
  ("basic_dumps", "dumps"), ("basic_loads", "loads"), ("basic_has_symbol", "has_symbol"),
  ("basic_solve_poly", "solve_poly"), ("vecbasic_linsolve", "linsolve"), ("basic_cse", "cse"),
  ("symbol_set", "symbol"), ("function_symbol_set", "function_symbol"), ("basic_const_set", "constant"),
  ("number_is_zero", "is_zero"), ("number_is_negative", "is_negative"), ("number_is_positive", "is_positive"),
  ("number_is_complex", "is_complex"),
  ("basic_set_interval", "interval"), ("basic_set_finiteset", "finiteset"), ("basic_set_emptyset", "emptyset"),
  ("basic_set_universalset", "universalset"), ("basic_set_complexes", "complexes"), ("basic_set_reals", "reals"),
  ("basic_set_rationals", "rationals"), ("basic_set_integers", "integers"), ("basic_set_union", "set_union"),
  ("basic_set_intersection", "set_intersection"), ("basic_set_complement", "set_complement"),
  ("basic_set_contains", "contains"), ("basic_set_is_subset", "is_subset"),
  ("basic_set_is_proper_subset", "is_proper_subset"), ("basic_set_is_superset", "is_superset"),
  ("basic_set_is_proper_superset", "is_proper_superset"), ("basic_set_inf", "inf"), ("basic_set_sup", "sup"),
  ("basic_set_boundary", "boundary"), ("basic_set_interior", "interior"), ("basic_set_closure", "closure"),
  ("ntheory_gcd", "gcd"), ("ntheory_lcm", "lcm"), ("ntheory_gcd_ext", "gcd_ext"), ("ntheory_nextprime", "nextprime"),
  ("ntheory_mod", "mod"), ("ntheory_quotient", "quotient"), ("ntheory_quotient_mod", "quotient_mod"),
  ("ntheory_mod_f", "mod_f"), ("ntheory_quotient_f", "quotient_f"), ("ntheory_quotient_mod_f", "quotient_mod_f"),
  ("ntheory_mod_inverse", "mod_inverse"), ("ntheory_fibonacci", "fibonacci"), ("ntheory_fibonacci2", "fibonacci2"),
  ("ntheory_lucas", "lucas"), ("ntheory_lucas2", "lucas2"), ("ntheory_binomial", "binomial"),
  ("ntheory_factorial", "factorial"),
  ("dense_matrix_det", "DenseMatrix__det"), ("dense_matrix_inv", "DenseMatrix__inv"),
  ("dense_matrix_transpose", "DenseMatrix__transpose"), ("dense_matrix_add_matrix", "DenseMatrix__add_matrix"),
  ("dense_matrix_mul_matrix", "DenseMatrix__mul_matrix"), ("dense_matrix_add_scalar", "DenseMatrix__add_scalar"),
  ("dense_matrix_mul_scalar", "DenseMatrix__mul_scalar"), ("dense_matrix_LU", "DenseMatrix__LU"),
  ("dense_matrix_LDL", "DenseMatrix__LDL"), ("dense_matrix_FFLU", "DenseMatrix__FFLU"),
  ("dense_matrix_FFLDU", "DenseMatrix__FFLDU"), ("dense_matrix_LU_solve", "DenseMatrix__LU_solve"),
  ("dense_matrix_ones", "ones"), ("dense_matrix_zeros", "zeros"), ("dense_matrix_diag", "diag"),
  ("dense_matrix_eye", "eye"), ("dense_matrix_diff", "diff"), ("dense_matrix_jacobian", "jacobian"),
  ("dense_matrix_row_join", "DenseMatrix__row_join"), ("dense_matrix_col_join", "DenseMatrix__col_join"),
  ("dense_matrix_row_del", "DenseMatrix__row_del"), ("dense_matrix_col_del", "DenseMatrix__col_del"),
  ("dense_matrix_submatrix", "DenseMatrix__submatrix")]

/-- recorded finding C42-R1: `basic_set_universalset` assigns `emptyset()` -/
def coreSpecKnownWrong : List String := ["basic_set_universalset"]

def coreEntryOk (p : String × String) : Bool :=
  match findFun p.1 with
  | some f => f.callees.contains p.2
  | none => false

def C42_core_table_full : Prop := ∀ p ∈ coreSpec, coreEntryOk p = true

/-- every C function of the specification table exists and calls its intended core function
(a swapped callee — `basic_sin` calling `cos`, `ntheory_lcm` calling `gcd` — breaks this proof). -/
theorem core_table_partial : ∀ p ∈ coreSpec, p.1 ∉ coreSpecKnownWrong → coreEntryOk p = true := by decide +kernel

example : coreEntryOk ("ntheory_lcm", "lcm") = true ∧ coreEntryOk ("ntheory_lcm", "gcd") = false := by decide +kernel

/-- the recorded wrong entry is really wrong on the tree this was written for (kept as a comment-level fact:
`coreEntryOk ("basic_set_universalset", "universalset") = false`); not a theorem, so that the fix does not break
the build. -/
def universalsetStatus : Bool := coreEntryOk ("basic_set_universalset", "universalset")

/-! ## 3. Containers: re-export of the refinement theorems (proved in `Lemmas/C42Containers.lean`) -/

export SymVerif.C42Containers (vec_push_size vec_push_get_last vec_push_get_old vec_set_get vec_erase_get
  vec_oob_unchanged vec_run_length set_step_refines set_run_refines map_step_refines map_run_refines
  vint_push_get_last vint_push_get_old)

end SymVerif.C42
