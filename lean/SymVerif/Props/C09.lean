/-
C09 — expand is value-preserving, complete, idempotent and decides identity.

Certificate level: the driver (`Drv/C09.lean`) prints `ok` for `expand e ↦ R` iff `C09.judge e R = .ok`, which
implies `C09.accepts e R = true`.  The theorems say what an accepted certificate guarantees.

  expand_certificate_sound   accepted ⇒ R and e have the same value in every field of characteristic 0, at every
                             assignment of the atoms where both are defined; and `Expanded R`
  poly_identity              polynomial inputs: accepted results are equal ⇔ the reduced monomial dictionaries
                             of the inputs are equal
  poly_identity_sound        … and equal results ⇒ the inputs have equal values everywhere (always defined)
  poly_idempotent            an accepted re-expansion of an accepted polynomial result is that result
  multinomial_sound          every entry of the model of `multinomial_coefficients_mpz(m, n)` is `n!/∏kᵢ!`
-/
import Mathlib.Data.Complex.Basic
import SymVerif.Lemmas.C09Check
import SymVerif.Lemmas.C09Multinomial
import SymVerif.Lemmas.C09MultinomialSmall

namespace SymVerif
namespace C09

open NF

/-! ### what the components of `accepts` say -/

theorem accepts_value {e r : Expr} (h : accepts e r = true) : NF.equiv r e = true := by
  simp only [accepts, valueOk, Bool.and_eq_true] at h
  exact h.1.1

theorem accepts_expanded {e r : Expr} (h : accepts e r = true) : expandedB r = true := by
  simp only [accepts, Bool.and_eq_true] at h
  exact h.1.2

/-- clause 3 unfolded: on the polynomial fragment the result is the rendering of the input's dictionary and has
the same dictionary itself -/
theorem accepts_canon {e r : Expr} (h : accepts e r = true) (hp : polyB e = true) :
    ∃ p x, canonPoly e = some p ∧ canonPoly r = some p ∧ polyB r = true ∧ render p = some x ∧
      r = Expr.canonOrder x := by
  simp only [accepts, Bool.and_eq_true] at h
  have hc := h.2
  simp only [canonOk, hp, if_true] at hc
  split at hc
  · rename_i p q hpe hqr
    simp only [Bool.and_eq_true, decide_eq_true_eq] at hc
    obtain ⟨⟨hq, hpr⟩, hx⟩ := hc
    split at hx
    · rename_i x hren
      exact ⟨p, x, hpe, by rw [hqr, hq], hpr, hren, eqb_eq _ _ hx⟩
    · cases hx
  · cases hc

/-- the driver's `ok` implies acceptance -/
theorem judge_ok {e r : Expr} (h : judge e r = .ok) : accepts e r = true := by
  unfold judge at h
  split at h
  · cases h
  · split at h
    · split at h <;> cases h
    · by_cases h1 : valueOk e r = true
      · by_cases h2 : expandedB r = true
        · by_cases h3 : canonOk e r = true
          · simp [accepts, h1, h2, h3]
          · simp [h1, h2, h3] at h
        · simp [h1, h2] at h
      · simp [h1] at h

/-- the driver's `ok` for a `pair` line: both certificates hold and the library's `eq` flag is the structural
equality of the two results -/
theorem judgePair_ok {e₁ e₂ r₁ r₂ : Expr} {flag : Bool} (h : judgePair e₁ e₂ r₁ r₂ flag = .ok) :
    accepts e₁ r₁ = true ∧ accepts e₂ r₂ = true ∧ (flag = true ↔ r₁ = r₂) := by
  unfold judgePair at h
  cases h1 : judge e₁ r₁ with
  | skip w => simp [h1] at h
  | fail w => simp [h1] at h
  | ok =>
    cases h2 : judge e₂ r₂ with
    | skip w => simp [h1, h2] at h
    | fail w => simp [h1, h2] at h
    | ok =>
      refine ⟨judge_ok h1, judge_ok h2, ?_⟩
      simp only [h1, h2] at h
      by_cases hf : (flag != Expr.eqb r₁ r₂) = true
      · simp [hf] at h
      · have : flag = Expr.eqb r₁ r₂ := by simpa using hf
        rw [this, eqb_iff]

section
variable {K : Type*} [Field K] [CharZero K] {I : K} {ρ : String → K}

/-- **C09, value preservation and completeness**: if the checker accepts `R` as `expand(e)` then, for every
field `K` of characteristic 0, every square root `I` of `-1` and every assignment `ρ` of the atoms, `R` and `e`
have the same value wherever both are defined; and `R` contains no product or positive integer power of a sum
and no sum as a key of a sum outside function arguments. -/
theorem expand_certificate_sound (hI : I * I = -1) {e r : Expr} (h : accepts e r = true) :
    (∀ v w : K, evalK I ρ e = some v → evalK I ρ r = some w → w = v) ∧ Expanded r :=
  ⟨fun _ _ hv hw => equiv_sound hI (accepts_value h) hw hv, expandedB_sound r (accepts_expanded h)⟩

/-- the same from a line `ok` of the driver -/
theorem expand_driver_ok_sound (hI : I * I = -1) {e r : Expr} (h : judge e r = .ok) :
    (∀ v w : K, evalK I ρ e = some v → evalK I ρ r = some w → w = v) ∧ Expanded r :=
  expand_certificate_sound hI (judge_ok h)

/-- **identity decision, soundness**: if two polynomial inputs have the same accepted expansion, they have the
same value under every assignment in every field of characteristic 0 (both values exist). -/
theorem poly_identity_sound (hI : I * I = -1) {e₁ e₂ r : Expr}
    (h₁ : accepts e₁ r = true) (h₂ : accepts e₂ r = true) (p₁ : polyB e₁ = true) (p₂ : polyB e₂ = true) :
    ∃ v : K, evalK I ρ e₁ = some v ∧ evalK I ρ e₂ = some v := by
  obtain ⟨v₁, hv₁⟩ := polyB_evalK_some I ρ e₁ p₁
  obtain ⟨v₂, hv₂⟩ := polyB_evalK_some I ρ e₂ p₂
  obtain ⟨_, _, _, _, hpr, _, _⟩ := accepts_canon h₁ p₁
  obtain ⟨w, hw⟩ := polyB_evalK_some I ρ r hpr
  have e1 : w = v₁ := equiv_sound hI (accepts_value h₁) hw hv₁
  have e2 : w = v₂ := equiv_sound hI (accepts_value h₂) hw hv₂
  exact ⟨v₁, hv₁, by rw [hv₂, ← e2, e1]⟩

end

/-- **identity decision, completeness relative to the dictionary**: polynomial inputs with the same reduced
monomial dictionary have the same accepted expansion. -/
theorem poly_identity_complete {e₁ e₂ r₁ r₂ : Expr}
    (h₁ : accepts e₁ r₁ = true) (h₂ : accepts e₂ r₂ = true) (p₁ : polyB e₁ = true) (p₂ : polyB e₂ = true)
    (hc : canonPoly e₁ = canonPoly e₂) : r₁ = r₂ := by
  obtain ⟨p, x, hp, _, _, hx, rfl⟩ := accepts_canon h₁ p₁
  obtain ⟨q, y, hq, _, _, hy, rfl⟩ := accepts_canon h₂ p₂
  rw [hp, hq, Option.some.injEq] at hc
  subst hc
  rw [hx, Option.some.injEq] at hy
  rw [hy]

/-- **identity decision**: for polynomial inputs, the accepted expansions are equal exactly when the reduced
monomial dictionaries of the inputs are equal. -/
theorem poly_identity {e₁ e₂ r₁ r₂ : Expr}
    (h₁ : accepts e₁ r₁ = true) (h₂ : accepts e₂ r₂ = true) (p₁ : polyB e₁ = true) (p₂ : polyB e₂ = true) :
    r₁ = r₂ ↔ canonPoly e₁ = canonPoly e₂ := by
  constructor
  · intro hr
    obtain ⟨p, _, hp, hrp, _, _, _⟩ := accepts_canon h₁ p₁
    obtain ⟨q, _, hq, hrq, _, _, _⟩ := accepts_canon h₂ p₂
    rw [hp, hq, ← hrp, ← hrq, hr]
  · exact poly_identity_complete h₁ h₂ p₁ p₂

/-- the identity clause as far as it is proved (see `C09_full`): "equal as polynomials" is equality of the reduced
monomial dictionaries computed by the normaliser -/
theorem c09_identity_partial {e₁ e₂ r₁ r₂ : Expr}
    (h₁ : accepts e₁ r₁ = true) (h₂ : accepts e₂ r₂ = true) (p₁ : polyB e₁ = true) (p₂ : polyB e₂ = true) :
    r₁ = r₂ ↔ canonPoly e₁ = canonPoly e₂ := poly_identity h₁ h₂ p₁ p₂

/-- **idempotence on the polynomial fragment**: if `r` is an accepted expansion of the polynomial `e` and `r'`
an accepted expansion of `r`, then `r' = r`. -/
theorem poly_idempotent {e r r' : Expr} (h : accepts e r = true) (h' : accepts r r' = true)
    (p : polyB e = true) : r' = r := by
  obtain ⟨q, x, _, hrq, hpr, hx, hr⟩ := accepts_canon h p
  obtain ⟨q', y, hq', _, _, hy, hr'⟩ := accepts_canon h' hpr
  rw [hrq, Option.some.injEq] at hq'
  subst hq'
  rw [hx, Option.some.injEq] at hy
  rw [hr, hr', hy]

/-! ### non-vacuity -/

private def x : Expr := .sym "x"
private def y : Expr := .sym "y"
/-- `(x + y)^2` -/
private def exIn : Expr := .pow (.add (.int 0) [(x, .int 1), (y, .int 1)]) (.int 2)
/-- `2*x*y + x^2 + y^2` as dumped by the library -/
private def exOut : Expr :=
  .add (.int 0) [(.mul (.int 1) [(x, .int 1), (y, .int 1)], .int 2), (.pow x (.int 2), .int 1),
    (.pow y (.int 2), .int 1)]
/-- `x^2 + y^2 + 2*x*y` written as a sum of products: another input with the same dictionary -/
private def exIn2 : Expr :=
  .add (.int 0) [(.mul (.int 1) [(x, .int 1), (y, .int 1)], .int 2), (.mul (.int 1) [(x, .int 2)], .int 1),
    (.pow y (.int 2), .int 1)]

/-- `(x + y)^2 ↦ 2*x*y + x^2 + y^2` is accepted, and `exIn` is a polynomial -/
theorem ex_accepts : accepts exIn exOut = true ∧ polyB exIn = true := by decide +kernel

/-- the unexpanded input returned as its own expansion is rejected (clause 2) … -/
theorem ex_rejects_unexpanded : accepts exIn exIn = false ∧ expandedB exIn = false := by decide +kernel

/-- … and so is a value-preserving, expanded, but uncombined result `x*y + x*y + x^2 + y^2`
(written with the key `x*y` and the key `y*x`-as-`Mul 1 {y:1, x:1}`): clause 3 -/
theorem ex_rejects_uncombined :
    accepts exIn (.add (.int 0) [(.mul (.int 1) [(x, .int 1), (y, .int 1)], .int 1),
      (.mul (.int 1) [(y, .int 1), (x, .int 1)], .int 1), (.pow x (.int 2), .int 1), (.pow y (.int 2), .int 1)])
      = false := by decide +kernel

/-- the value theorem instantiated over ℂ: `2xy + x² + y² = (x + y)²` at every assignment -/
example (ρ : String → ℂ) (v w : ℂ) (hv : evalK Complex.I ρ exIn = some v) (hw : evalK Complex.I ρ exOut = some w) :
    w = v :=
  (expand_certificate_sound (ρ := ρ) Complex.I_mul_I ex_accepts.1).1 v w hv hw

/-- the identity theorem instantiated: a second polynomial input with the same dictionary is accepted with the
same result, and the theorem's right-hand side holds -/
example : accepts exIn2 exOut = true ∧ polyB exIn2 = true ∧ canonPoly exIn = canonPoly exIn2 := by
  decide +kernel

example : accepts exOut exOut = true := by decide +kernel

/-- The full identity clause of the property — two polynomial expressions that are equal as polynomial functions
over every field of characteristic 0 have equal accepted expansions — needs the completeness of the normal form
(`canonPoly` is injective on polynomial functions); it is **not** proved.  `poly_identity` proves it with
"equal as polynomials" read as "equal reduced monomial dictionaries". -/
def C09_full : Prop :=
  ∀ (e₁ e₂ r₁ r₂ : Expr), accepts e₁ r₁ = true → accepts e₂ r₂ = true → polyB e₁ = true → polyB e₂ = true →
    (∀ (ρ : String → ℂ), evalK Complex.I ρ e₁ = evalK Complex.I ρ e₂) → r₁ = r₂

end C09
end SymVerif
