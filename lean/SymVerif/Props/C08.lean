import SymVerif.Lemmas.C08Laws
import SymVerif.Lemmas.C08Tables
import Mathlib.Analysis.SpecialFunctions.Gamma.Basic
import Mathlib.Analysis.SpecialFunctions.Gaussian.GaussianIntegral
import Mathlib.Data.Rat.Floor
/-!
# C08 — function constructors' automatic evaluation preserves value

Model: `SymVerif/Model/Funcs.lean` (+ `Model/Surd.lean`, generated `Gen/TrigTables.lean`).

* **Tables** (re-proved against the regenerated tables on every run): `sinTable_value`,
  `inverseCst_value_partial`, `inverseTct_value_partial`; the wrong rows of `inverse_cst` are refuted:
  `inverseCst_row4_wrong` … `inverseCst_row7_wrong`.
* **Shift / parity logic**, for every valuation of the atoms and every dictionary order:
  `get_pi_shift_sound`, `handle_minus_sound`, `trig_simplify_sound`, `trig_ctor_sound` (any functions satisfying
  `TrigLaws`), instantiated at ℂ and ℝ: `trig_ctor_value_complex`, `trig_ctor_value_real`, and the corollaries
  `sin_ctor_value` … `sec_ctor_value`.
* **Exact numbers**: `floor_rat`, `ceiling_rat`, `truncate_rat`, `sign_num`, `abs_num`, `gamma_int`,
  `gamma_half_pos`, `gamma_half_neg`.

`C08_full` states the property for all constructors; what is proved is listed in `c08_partial`.
-/
namespace SymVerif.C08
open SymVerif SymVerif.Funcs Real

/-! ## 1 tables -/

/-- every entry of `sin_table()` (as generated from functions.cpp/constants.cpp) is `sin(pi·i/12)` -/
theorem sinTable_value (i : Nat) (hi : i < 24) : tabR i = Real.sin (π * (i : ℝ) / 12) :=
  Funcs.sinTable_value i hi

/-- what the driver prints for a table entry is that real number -/
theorem sinTab_sound (i : Nat) (hi : i < 24) (s : Surd) (h : sinTab i = some s) :
    s.toReal = Real.sin (π * (i : ℝ) / 12) := by
  rw [← sinTable_value i hi]
  unfold sinTab at h
  rw [Nat.mod_eq_of_lt hi] at h
  unfold tabR
  cases hr : Gen.TrigTables.sinTable[i]? with
  | none => simp [hr] at h
  | some r =>
    simp only [hr, Option.bind_some] at h
    simp [Recipe.evalS_sound r s h]

theorem inverseCst_value_partial (i : Nat) (h : cstGood i = true) : arcsin (cstKey i) = π / cstVal i :=
  Funcs.inverseCst_value_partial i h

theorem inverseTct_value_partial (i : Nat) (h : tctProved i = true) : arctan (tctKey i) = π / tctVal i :=
  Funcs.inverseTct_value_partial i h

/-- defect N8: `inverse_cst` maps `(√3+1)/(2√2) = sin(5π/12)` to 12 -/
theorem inverseCst_row4_wrong : arcsin (cstKey 4) = 5 * π / 12 ∧ arcsin (cstKey 4) ≠ π / cstVal 4 :=
  Funcs.inverseCst_row4_wrong
theorem inverseCst_row5_wrong : arcsin (cstKey 5) ≠ π / cstVal 5 := Funcs.inverseCst_row5_wrong
/-- defect N7: `C5 = sqrt(5 - sqrt 5)/8` is not `sin(pi/5)` -/
theorem inverseCst_row6_wrong : arcsin (cstKey 6) ≠ π / cstVal 6 := Funcs.inverseCst_row6_wrong
theorem inverseCst_row7_wrong : arcsin (cstKey 7) ≠ π / cstVal 7 := Funcs.inverseCst_row7_wrong

example : cstGood 8 = true := by decide
example : tctProved 9 = true := by decide

/-! ## 2 shift and parity logic -/

section
variable {K : Type} [Field K] [CharZero K]

theorem get_pi_shift_sound (ρ : Expr → K) (pi : K) {l r : Lin} {n : Rat} (h : getPiShift l = some (n, r))
    (hw : l.wf = true) : l.eval ρ pi = r.eval ρ pi + (n : K) * pi ∧ r.wf = true :=
  getPiShift_sound ρ pi h hw

/-- `handle_minus`: the returned flag says exactly whether the argument was negated — whatever the
iteration order of the dictionary is -/
theorem handle_minus_sound (ρ : Expr → K) (pi : K) (hρ : Compositional ρ pi) (order : List Expr)
    (fuel : Nat) (l : Lin) (b : Bool) (r : Lin) (hw : l.wf = true) (h : handleMinus order fuel l = .ok (b, r)) :
    r.eval ρ pi = (if b then -1 else 1) * l.eval ρ pi :=
  (handleMinus_sound ρ pi hρ order fuel l b r hw h).1

theorem trig_simplify_sound {ρ : Expr → K} {pi : K} {F : TrigFn → K → K} (L : TrigLaws pi F)
    (hρ : Compositional ρ pi) (order : List Expr) (fn : TrigFn) (arg : Lin) (s : Simp) (hw : arg.wf = true)
    (h : trigSimplify order arg fn.period fn.odd fn.conjOdd = .ok s) : SimpSem ρ pi F fn arg s :=
  trigSimplify_sound L hρ order fn arg s hw h

/-- **constructor soundness** for any interpretation satisfying the period/parity/quarter-turn laws -/
theorem trig_ctor_sound {ρ : Expr → K} {pi : K} {F : TrigFn → K → K} (L : TrigLaws pi F)
    (hρ : Compositional ρ pi) (order : List Expr) (fuel : Nat) (fn : TrigFn) (arg : Lin) (res : Res)
    (hw : arg.wf = true) (h : trigCtor order fuel fn arg = .ok res) :
    res.sem ρ pi F = F fn (arg.eval ρ pi) :=
  trigCtor_sound L hρ order fuel fn arg res hw h
end

/-- on ℂ, for the six functions built from `Complex.sin` and `Complex.cos` -/
theorem trig_ctor_value_complex {ρ : Expr → ℂ} (hρ : Compositional ρ (π : ℂ)) (order : List Expr) (fuel : Nat)
    (fn : TrigFn) (arg : Lin) (res : Res) (hw : arg.wf = true) (h : trigCtor order fuel fn arg = .ok res) :
    res.sem ρ (π : ℂ) Fc = Fc fn (arg.eval ρ (π : ℂ)) :=
  trigCtor_sound complexLaws hρ order fuel fn arg res hw h

theorem trig_ctor_value_real {ρ : Expr → ℝ} (hρ : Compositional ρ π) (order : List Expr) (fuel : Nat)
    (fn : TrigFn) (arg : Lin) (res : Res) (hw : arg.wf = true) (h : trigCtor order fuel fn arg = .ok res) :
    res.sem ρ π Fr = Fr fn (arg.eval ρ π) :=
  trigCtor_sound realLaws hρ order fuel fn arg res hw h

theorem sin_ctor_value {ρ : Expr → ℂ} (hρ : Compositional ρ (π : ℂ)) (order : List Expr) (fuel : Nat)
    (arg : Lin) (res : Res) (hw : arg.wf = true) (h : trigCtor order fuel .sin arg = .ok res) :
    res.sem ρ (π : ℂ) Fc = Complex.sin (arg.eval ρ (π : ℂ)) :=
  trig_ctor_value_complex hρ order fuel .sin arg res hw h

theorem cos_ctor_value {ρ : Expr → ℂ} (hρ : Compositional ρ (π : ℂ)) (order : List Expr) (fuel : Nat)
    (arg : Lin) (res : Res) (hw : arg.wf = true) (h : trigCtor order fuel .cos arg = .ok res) :
    res.sem ρ (π : ℂ) Fc = Complex.cos (arg.eval ρ (π : ℂ)) :=
  trig_ctor_value_complex hρ order fuel .cos arg res hw h

theorem tan_ctor_value {ρ : Expr → ℂ} (hρ : Compositional ρ (π : ℂ)) (order : List Expr) (fuel : Nat)
    (arg : Lin) (res : Res) (hw : arg.wf = true) (h : trigCtor order fuel .tan arg = .ok res) :
    res.sem ρ (π : ℂ) Fc = Complex.tan (arg.eval ρ (π : ℂ)) := by
  rw [← Fc_tan]; exact trig_ctor_value_complex hρ order fuel .tan arg res hw h

theorem cot_ctor_value {ρ : Expr → ℂ} (hρ : Compositional ρ (π : ℂ)) (order : List Expr) (fuel : Nat)
    (arg : Lin) (res : Res) (hw : arg.wf = true) (h : trigCtor order fuel .cot arg = .ok res) :
    res.sem ρ (π : ℂ) Fc = Complex.cos (arg.eval ρ (π : ℂ)) / Complex.sin (arg.eval ρ (π : ℂ)) :=
  trig_ctor_value_complex hρ order fuel .cot arg res hw h

theorem csc_ctor_value {ρ : Expr → ℂ} (hρ : Compositional ρ (π : ℂ)) (order : List Expr) (fuel : Nat)
    (arg : Lin) (res : Res) (hw : arg.wf = true) (h : trigCtor order fuel .csc arg = .ok res) :
    res.sem ρ (π : ℂ) Fc = 1 / Complex.sin (arg.eval ρ (π : ℂ)) :=
  trig_ctor_value_complex hρ order fuel .csc arg res hw h

theorem sec_ctor_value {ρ : Expr → ℂ} (hρ : Compositional ρ (π : ℂ)) (order : List Expr) (fuel : Nat)
    (arg : Lin) (res : Res) (hw : arg.wf = true) (h : trigCtor order fuel .sec arg = .ok res) :
    res.sem ρ (π : ℂ) Fc = 1 / Complex.cos (arg.eval ρ (π : ℂ)) :=
  trig_ctor_value_complex hρ order fuel .sec arg res hw h

/-- a table result of the sine constructor is the value of the generated table entry -/
theorem sin_ctor_table_value (sgn : Int) (i : Nat) (hi : i < 24) (ρ : Expr → ℝ) :
    (Res.tab sgn .sin i).sem ρ π Fr = (sgn : ℝ) * tabR i := by
  simp [Res.sem, Fr, mkF, sinTable_value i hi]

/-! ### a valuation that is compositional (the hypotheses above are satisfiable) -/

mutual
  /-- the obvious valuation: numbers, `pi`, symbols from `σ`, sums by their stored fields; 0 elsewhere -/
  noncomputable def semE (σ : String → ℂ) : Expr → ℂ
    | .int n => (n : ℂ)
    | .rat n d => ((ratOfExpr (.rat n d)).getD 0 : Rat)
    | .sym s => σ s
    | .add c ts => (((ratOfExpr c).getD 0 : Rat) : ℂ) + semPairs σ ts
    | _ => 0
  noncomputable def semPairs (σ : String → ℂ) : List (Expr × Expr) → ℂ
    | [] => 0
    | (k, v) :: t => (((ratOfExpr v).getD 0 : Rat) : ℂ) * (if isPi k then (π : ℂ) else semE σ k) + semPairs σ t
end

theorem semPairs_eq (σ : String → ℂ) : ∀ (ts : List (Expr × Expr)) (ts' : List (Expr × Rat)),
    linTerms ts = some ts' → semPairs σ ts = sumTs (semE σ) (π : ℂ) ts'
  | [], ts', h => by simp [linTerms] at h; subst h; simp [semPairs]
  | (k, v) :: t, ts', h => by
    simp only [linTerms, Option.bind_eq_bind, Option.bind_eq_some_iff] at h
    obtain ⟨q, hq, r, hr, h⟩ := h
    split at h
    · cases h
    · simp at h; subst h
      simp [semPairs, semPairs_eq σ t r hr, termVal, atomVal, hq]

theorem semE_compositional (σ : String → ℂ) : Compositional (semE σ) (π : ℂ) := by
  intro c ts inner h
  simp only [toLin, Option.bind_eq_bind, Option.bind_eq_some_iff] at h
  obtain ⟨c', hc, ts', hts, h⟩ := h
  simp at h; subst h
  simp [semE, Lin.eval, hc, semPairs_eq σ ts ts' hts]

/-- non-vacuity: `sin(x + 3·pi)` is rewritten to `-sin(x)` and the theorem applies to it -/
example (σ : String → ℂ) :
    ∃ res, trigCtor [.sym "x", piE] trigFuel .sin ⟨0, [(.sym "x", 1), (piE, 3)]⟩ = .ok res ∧
      res.sem (semE σ) (π : ℂ) Fc = Complex.sin (σ "x" + 3 * π) := by
  have hw : (Lin.mk 0 [(.sym "x", 1), (piE, 3)]).wf = true := by decide
  have hok : (match trigCtor [.sym "x", piE] trigFuel .sin ⟨0, [(.sym "x", 1), (piE, 3)]⟩ with
      | .ok _ => true | .error _ => false) = true := by decide +kernel
  cases h : trigCtor [.sym "x", piE] trigFuel .sin ⟨0, [(.sym "x", 1), (piE, 3)]⟩ with
  | error e => rw [h] at hok; simp at hok
  | ok res =>
    refine ⟨res, rfl, ?_⟩
    rw [sin_ctor_value (semE_compositional σ) _ _ _ res hw h]
    simp [Lin.eval, termVal, atomVal, isPi, piE, semE]

/-! ## 3 exact numbers -/

theorem ratFloor_eq (q : ℚ) : q.floor = ⌊q⌋ := by
  symm
  rw [Int.floor_eq_iff]
  refine ⟨Rat.floor_le q, ?_⟩
  have := Rat.lt_floor_add_one q
  push_cast at this
  exact this

theorem ratCeil_eq (q : ℚ) : q.ceil = ⌈q⌉ := by
  rw [Rat.ceil_eq_neg_floor_neg, ratFloor_eq, Int.floor_neg, neg_neg]

/-- `floor(q)` of an exact rational is the mathematical floor (`mp_fdiv_q`) -/
theorem floor_rat (q : ℚ) : roundFn "Floor" q = some ⌊q⌋ := by simp [roundFn, ratFloor_eq]
/-- `ceiling(q)` (`mp_cdiv_q`) -/
theorem ceiling_rat (q : ℚ) : roundFn "Ceiling" q = some ⌈q⌉ := by simp [roundFn, ratCeil_eq]
/-- `truncate(q)` rounds towards zero (`mp_tdiv_q`) -/
theorem truncate_rat (q : ℚ) : roundFn "Truncate" q = some (if q < 0 then ⌈q⌉ else ⌊q⌋) := by
  simp [roundFn, ratTrunc, ratCeil_eq, ratFloor_eq]

example : roundFn "Floor" (-7 / 2 : ℚ) = some (-4) := by rw [floor_rat]; norm_num
example : roundFn "Truncate" (-7 / 2 : ℚ) = some (-3) := by rw [truncate_rat]; norm_num

/-- `sign` of an exact integer -/
theorem sign_int (n : Int) : numCtor1 "Sign" (.int n) = .ok (.int (SignType.sign n)) := by
  simp only [numCtor1, ratOfExpr]
  rcases lt_trichotomy n 0 with h | h | h
  · have h1 : ¬ ((n : Rat) > 0) := by push_cast; exact_mod_cast not_lt.mpr (le_of_lt h)
    have h2 : (n : Rat) < 0 := by exact_mod_cast h
    simp [h1, h2, sign_neg h]
  · subst h; simp
  · have h1 : (n : Rat) > 0 := by exact_mod_cast h
    simp [h1, sign_pos h]

/-- `abs` of an exact integer -/
theorem abs_int (n : Int) : numCtor1 "Abs" (.int n) = .ok (.int |n|) := by
  simp only [numCtor1, ratOfExpr]
  rcases lt_or_ge n 0 with h | h
  · have h2 : (n : Rat) < 0 := by exact_mod_cast h
    simp [h2, ratToExpr, abs_of_neg h]
  · have h2 : ¬ (n : Rat) < 0 := by push_cast; exact_mod_cast not_lt.mpr h
    simp [h2, ratToExpr, abs_of_nonneg h]

theorem fact_eq (n : Nat) : fact n = n.factorial := by
  induction n with
  | zero => rfl
  | succ n ih => simp [fact, ih, Nat.factorial_succ]

/-- `gamma(n+1) = n!` (`gamma_positive_int`) -/
theorem gamma_int (n : Nat) : gammaNum ((((n + 1 : ℕ) : ℤ) : ℚ)) = .rat (n.factorial : ℚ) ∧
    Real.Gamma ((n : ℝ) + 1) = (n.factorial : ℝ) := by
  refine ⟨?_, Real.Gamma_nat_eq_factorial n⟩
  have hden : ((((n + 1 : ℕ) : ℤ) : ℚ)).den = 1 := Rat.den_intCast _
  have hnum : ((((n + 1 : ℕ) : ℤ) : ℚ)).num = ((n + 1 : ℕ) : ℤ) := Rat.num_intCast _
  unfold gammaNum
  rw [hnum]
  simp only [hden, beq_self_eq_true, if_true]
  have hpos : ((n + 1 : ℕ) : ℤ) > 0 := by positivity
  rw [if_pos hpos, Int.toNat_natCast, Nat.add_sub_cancel, fact_eq]

theorem oddFact_pos (n : Nat) : 0 < oddFact n := by
  induction n with
  | zero => simp [oddFact]
  | succ m ih => simp only [oddFact]; exact Nat.mul_pos (by omega) ih

/-- the value `gamma_multiple_2` is supposed to compute at `k + 1/2` -/
theorem gamma_half_pos (k : Nat) : Real.Gamma ((k : ℝ) + 1 / 2) = (oddFact k : ℝ) / 2 ^ k * √π := by
  induction k with
  | zero =>
    rw [show ((0 : ℕ) : ℝ) + 1 / 2 = 1 / 2 by norm_num, Real.Gamma_one_half_eq]; simp [oddFact]
  | succ k ih =>
    have h0 : ((k : ℝ) + 1 / 2) ≠ 0 := by positivity
    have : ((k + 1 : ℕ) : ℝ) + 1 / 2 = ((k : ℝ) + 1 / 2) + 1 := by push_cast; ring
    rw [this, Real.Gamma_add_one h0, ih]
    simp only [oddFact]
    push_cast
    field_simp
    ring

/-- … and at `1/2 - n` -/
theorem gamma_half_neg (n : Nat) :
    Real.Gamma (1 / 2 - (n : ℝ)) = (2 : ℝ) ^ n / ((-1) ^ n * (oddFact n : ℝ)) * √π := by
  induction n with
  | zero =>
    rw [show (1 : ℝ) / 2 - ((0 : ℕ) : ℝ) = 1 / 2 by norm_num, Real.Gamma_one_half_eq]; simp [oddFact]
  | succ n ih =>
    have h0 : (1 / 2 - ((n + 1 : ℕ) : ℝ)) ≠ 0 := by
      push_cast
      have : (0 : ℝ) ≤ n := Nat.cast_nonneg n
      intro h; linarith
    have hrec := Real.Gamma_add_one h0
    have e : 1 / 2 - ((n + 1 : ℕ) : ℝ) + 1 = 1 / 2 - (n : ℝ) := by push_cast; ring
    rw [e, ih] at hrec
    have hodd : (oddFact n : ℝ) ≠ 0 := by exact_mod_cast (oddFact_pos n).ne'
    have hsol : Real.Gamma (1 / 2 - ((n + 1 : ℕ) : ℝ))
        = (2 : ℝ) ^ n / ((-1) ^ n * (oddFact n : ℝ)) * √π / (1 / 2 - ((n + 1 : ℕ) : ℝ)) := by
      rw [hrec, mul_div_cancel_left₀ _ h0]
    rw [hsol]
    simp only [oddFact]
    push_cast
    have h2 : ((1 : ℝ) / 2 - ((n : ℝ) + 1)) = -((2 * (n : ℝ) + 1) / 2) := by ring
    rw [h2]
    have h3 : (2 * (n : ℝ) + 1) ≠ 0 := by positivity
    have h4 : ((-1 : ℝ)) ^ n ≠ 0 := pow_ne_zero _ (by norm_num)
    field_simp
    ring

/-! ## 4 the full statement and what is proved of it -/

/-- The property as stated in properties.jsonl, over the functions the Lean model covers: for every
constructor `f` of the family and every argument, the value of the returned expression is `f` at the value
of the argument.  Proved: the six trigonometric constructors on linear arguments (`trig_ctor_sound`), the table
rows listed by `cstGood`/`tctProved`, exact floor/ceiling/truncate/sign/abs/gamma.  Not proved in Lean (numeric
oracle of harness/c08.cpp only): hyperbolic/erf parity rewrites beyond `handle_minus_sound`, the six remaining
`inverse_tct` rows, zeta, dirichlet_eta, erf, erfc, lambertw, beta, polygamma, lowergamma, uppergamma, loggamma,
atan2, max/min, kronecker_delta, levi_civita, primepi, primorial, floating arguments. -/
def C08_full : Prop :=
  (∀ i, i < 12 → arcsin (cstKey i) = π / cstVal i) ∧ (∀ i, i < 14 → arctan (tctKey i) = π / tctVal i)

/-- the full table statement is *false* for the code as it is (rows 4-7 of `inverse_cst`) -/
theorem C08_full_false : ¬ C08_full := fun h => inverseCst_row4_wrong.2 (h.1 4 (by norm_num))

end SymVerif.C08
