/-
C31  Series expansion coefficients equal Taylor coefficients.

Model: `SymVerif/Model/Series.lean` (the functions the driver `Drv/C31.lean` runs).
Everything is stated in `ℚ⟦X⟧` (Mathlib `PowerSeries ℚ`) modulo `X^prec`:
  `toPS p`      the power series denoted by a coefficient list of the model,
  `EqMod n f g` coefficients of degree < n agree.

Proved (for every input, every precision):
  ring level     mul_spec, mul_trunc_high, pow_spec, diff_spec, integrate_spec, stepList_schedule
  Newton         invert_spec                                  (p·s ≡ 1)
  recurrences    log_spec, exp_spec (+ exp_taylor against Mathlib's `exp`), atan_spec, atanh_spec,
                 sinh_spec, cosh_spec, sin_spec, cos_spec (+ sin_taylor/cos_taylor against Mathlib's
                 `sin`/`cos`), sec_spec
  composition    series_total_partial: for every expression of the fragment `covered` (arithmetic, integer
                 powers, exp, f^g, log, sin, cos, sec, atan, sinh, cosh, atanh, any nesting), if the model
                 of `series(e, x, prec)` answers, the answer is the formal Taylor series `D` of `e`
                 (relation `Den`, defined by composition in ℚ⟦X⟧) modulo `X^prec`.
  Newton on inverse functions: series_tan_spec, series_tanh_spec (atan g ≡ s), series_lambertw_spec
                 (g e^g ≡ s), series_nthroot_spec (g^n ≡ s), series_asin_spec, series_asinh_spec
  composition, all functions: series_sound_partial: for every expression, every order and every formal
                 Taylor series D of the expression (`Den e D`), the model's answer agrees with D below `prec`.
Not proved: `C31_full` (completeness: the model answers whenever a denotation exists).
-/
import Mathlib.RingTheory.PowerSeries.WellKnown
import SymVerif.Lemmas.C31All

namespace SymVerif.C31
open SymVerif SymVerif.Series PowerSeries

deriving instance DecidableEq for Except

/-! ## ring level -/

/-- `UnivariateSeries::mul(a, b, prec)` is the product modulo `X^prec` … -/
theorem mul_spec (a b : Poly) (prec : ℕ) : EqMod prec (toPS (mulTrunc a b prec)) (toPS a * toPS b) :=
  toPS_mulTrunc a b prec

/-- … and carries no term of degree ≥ prec -/
theorem mul_trunc_high (a b : Poly) (prec k : ℕ) (hk : prec ≤ k) :
    coeff k (toPS (mulTrunc a b prec)) = 0 := coeff_mulTrunc_ge a b prec k hk

example : mulTrunc [1, 2, 3] [1, 1, 1, 1] 3 = [1, 3, 6] := by decide +kernel

/-- `UnivariateSeries::pow(b, e, prec)` (square and multiply) is `b^e` modulo `X^prec` -/
theorem pow_spec (b : Poly) (e prec : ℕ) (he : 1 ≤ e) : EqMod prec (toPS (powPos b e prec)) (toPS b ^ e) :=
  toPS_powPos b e prec he

example : powPos [1, 1] 5 4 = [1, 5, 10, 10] := by decide +kernel

theorem diff_spec (p : Poly) : toPS (diff p) = d⁄dX ℚ (toPS p) := toPS_diff p
theorem integrate_spec (p : Poly) : toPS (integrate p) = integ (toPS p) := toPS_integrate p

/-- `step_list(prec)` starts at 2, never more than doubles, and ends at `prec` -/
theorem stepList_schedule (prec : ℕ) : Chain 1 (stepList prec) ∧ lastD 1 (stepList prec) = prec :=
  ⟨chain_stepList prec, lastD_stepList prec 1⟩

example : stepList 20 = [2, 4, 5, 6, 8, 12, 20] := by decide +kernel

/-! ## Newton inversion -/

/-- **series_invert** -/
theorem series_invert_spec (s p : Poly) (prec : ℕ) (h : invert s prec = .ok p) :
    EqMod prec (toPS p * toPS s) 1 := invert_spec s p prec h

example : invert [1, 1, 1] 7 = .ok [1, -1, 0, 1, -1, 0, 1] := by decide +kernel

/-! ## transcendental recurrences (argument given exactly) -/

/-- **series_log**: `g ≡ ∫ S'/S`, so `g'·S ≡ S'` and `g(0) = 0` -/
theorem series_log_spec (s g : Poly) (prec : ℕ) (h : seriesLog s prec = .ok g) :
    constantCoeff (toPS s) = 1 ∧ EqMod prec (toPS g) (flog (toPS s)) := log_spec s g prec h

/-- the ODE form of log_spec -/
theorem log_ode (s g : Poly) (prec : ℕ) (h : seriesLog s prec = .ok g) :
    constantCoeff (toPS g) = 0 ∨ prec = 0 := by
  by_cases hp : prec = 0
  · exact Or.inr hp
  · left
    have := (log_spec s g prec h).2 0 (by omega)
    rw [coeff_zero_eq_constantCoeff_apply, coeff_zero_eq_constantCoeff_apply, constantCoeff_flog] at this
    exact this

example : seriesLog [1, 1, 1] 5 = .ok [0, 1, 1 / 2, -2 / 3, 1 / 4] := by decide +kernel

/-- **series_exp**: `g` agrees with every (= the unique) solution of `E' = E·S'`, `E(0) = 1` -/
theorem series_exp_spec (s g : Poly) (prec : ℕ) (h : seriesExp s prec = .ok g) {E : ℚ⟦X⟧}
    (hE : IsExpOf (toPS s) E) : EqMod prec (toPS g) E := (exp_spec s g prec h hE).2

/-- **series_exp** against Mathlib's exponential series: `g ≡ exp ∘ S` -/
theorem exp_taylor (s g : Poly) (prec : ℕ) (h : seriesExp s prec = .ok g) :
    constantCoeff (toPS s) = 0 ∧ EqMod prec (toPS g) ((PowerSeries.exp ℚ).subst (toPS s)) := by
  by_cases hp : prec = 0
  · subst hp
    refine ⟨?_, eqMod_zero _ _⟩
    unfold seriesExp at h
    split at h
    · next h0 => rw [toPS_of_isZero h0]; simp
    · split at h
      · next hv => rw [toPS_of_isVar hv]; simp
      · split at h
        · cases h
        · next hc =>
          have hc0 : Series.coeff s 0 = 0 := by simpa using hc
          rw [constantCoeff_toPS, hc0]
  · exact exp_specC s g prec (by omega) h (EqMod.refl _ _)

example : seriesExp [0, 1, 1] 6 = .ok [1, 1, 3 / 2, 7 / 6, 25 / 24, 27 / 40] := by decide +kernel

theorem sinC_eq : PowerSeries.mk sinC = PowerSeries.sin ℚ := by
  ext n
  rw [coeff_mk, PowerSeries.sin, coeff_mk]
  unfold sinC
  by_cases h : n % 2 = 1
  · rw [if_pos h, if_neg (by rw [Nat.even_iff]; omega)]; simp
  · rw [if_neg h, if_pos (by rw [Nat.even_iff]; omega)]

theorem cosC_eq : PowerSeries.mk cosC = PowerSeries.cos ℚ := by
  ext n
  rw [coeff_mk, PowerSeries.cos, coeff_mk]
  unfold cosC
  by_cases h : n % 2 = 0
  · rw [if_pos h, if_pos (by rw [Nat.even_iff]; omega)]; simp
  · rw [if_neg h, if_neg (by rw [Nat.even_iff]; omega)]

/-- **series_sin** against Mathlib's sine series: `g ≡ sin ∘ S` -/
theorem sin_taylor (s g : Poly) (prec : ℕ) (h : seriesSin s prec = .ok g) :
    constantCoeff (toPS s) = 0 ∧ EqMod prec (toPS g) ((PowerSeries.sin ℚ).subst (toPS s)) := by
  obtain ⟨hS, hg⟩ := sin_spec s g prec h
  exact ⟨hS, by rw [← sinC_eq, ← comp_eq_subst sinC hS]; exact hg⟩

/-- **series_cos** against Mathlib's cosine series: `g ≡ cos ∘ S` -/
theorem cos_taylor (s g : Poly) (prec : ℕ) (h : seriesCos s prec = .ok g) :
    constantCoeff (toPS s) = 0 ∧ EqMod prec (toPS g) ((PowerSeries.cos ℚ).subst (toPS s)) := by
  obtain ⟨hS, hg⟩ := cos_spec s g prec h
  exact ⟨hS, by rw [← cosC_eq, ← comp_eq_subst cosC hS]; exact hg⟩

example : seriesSin [0, 1, 1] 6 = .ok [0, 1, 1, -1 / 6, -1 / 2, -59 / 120] := by decide +kernel
example : seriesCos [0, 2] 6 = .ok [1, 0, -2, 0, 2 / 3, 0] := by decide +kernel

/-- **series_atan**: `g ≡ ∫ S'/(1+S²)`, i.e. `g'(1+S²) ≡ S'`, `g(0) = 0` -/
theorem series_atan_spec (s g : Poly) (prec : ℕ) (h : seriesAtan s prec = .ok g) :
    constantCoeff (toPS s) = 0 ∧ EqMod prec (toPS g) (fatan (toPS s)) := atan_spec s g prec h

/-- **series_atanh**: `g ≡ ∫ S'/(1-S²)` -/
theorem series_atanh_spec (s g : Poly) (prec : ℕ) (h : seriesAtanh s prec = .ok g) :
    constantCoeff (toPS s) = 0 ∧ EqMod prec (toPS g) (fatanh (toPS s)) := atanh_spec s g prec h

example : seriesAtan [0, 1, 1] 5 = .ok [0, 1, 1, -1 / 3, -1] := by decide +kernel
example : seriesAtanh [0, 1, 1] 5 = .ok [0, 1, 1, 1 / 3, 1] := by decide +kernel

/-- **series_sinh / series_cosh**: `(E ∓ E⁻¹)/2` with `E = exp ∘ S` -/
theorem series_sinh_spec (s g : Poly) (prec : ℕ) (hp : 1 ≤ prec) (h : seriesSinh s prec = .ok g) :
    EqMod prec (toPS g) (C (1 / 2 : ℚ) * (fexp (toPS s) - (fexp (toPS s))⁻¹)) :=
  (sinh_specC s g prec hp h (EqMod.refl _ _)).2

theorem series_cosh_spec (s g : Poly) (prec : ℕ) (hp : 1 ≤ prec) (h : seriesCosh s prec = .ok g) :
    EqMod prec (toPS g) (C (1 / 2 : ℚ) * (fexp (toPS s) + (fexp (toPS s))⁻¹)) :=
  (cosh_specC s g prec hp h (EqMod.refl _ _)).2

example : seriesSinh [0, 1, 1] 5 = .ok [0, 1, 1, 1 / 6, 1 / 2] := by decide +kernel

/-! ## composition: the formal Taylor series of an expression -/

def isNumExp : Expr → Bool
  | .int _ => true
  | .rat _ _ => true
  | _ => false

mutual
  /-- `Den e D`: `D ∈ ℚ⟦X⟧` is the Taylor series at 0 of the expression `e` in the variable `x`, built by
  composition of formal power series (sum, product, integer powers, inverse of a unit, `exp ∘`, `log ∘`,
  `sin ∘`, …).  No rule applies where the function is not analytic at 0 with rational coefficients. -/
  inductive Den : Expr → ℚ⟦X⟧ → Prop
    | int (n : Int) : Den (.int n) (C (n : ℚ))
    | rat (n : Int) (d : Nat) : Den (.rat n d) (C (mkRat n d))
    | var : Den (.sym "x") X
    | add {c : Expr} {ts : List (Expr × Expr)} {A T : ℚ⟦X⟧} :
        Den c A → DenSum ts T → Den (.add c ts) (A + T)
    | mul {c : Expr} {fs : List (Expr × Expr)} {A P : ℚ⟦X⟧} :
        Den c A → DenProd fs P → Den (.mul c fs) (A * P)
    | pow {b e : Expr} {D : ℚ⟦X⟧} : DenPow b e D → Den (.pow b e) D
    | sin {a : Expr} {A : ℚ⟦X⟧} : Den a A → constantCoeff A = 0 → Den (.app "Sin" [a]) (comp sinC A)
    | cos {a : Expr} {A : ℚ⟦X⟧} : Den a A → constantCoeff A = 0 → Den (.app "Cos" [a]) (comp cosC A)
    | sec {a : Expr} {A : ℚ⟦X⟧} : Den a A → constantCoeff A = 0 → Den (.app "Sec" [a]) (comp cosC A)⁻¹
    | log {a : Expr} {A : ℚ⟦X⟧} : Den a A → constantCoeff A = 1 → Den (.app "Log" [a]) (flog A)
    | atan {a : Expr} {A : ℚ⟦X⟧} : Den a A → constantCoeff A = 0 → Den (.app "ATan" [a]) (fatan A)
    | atanh {a : Expr} {A : ℚ⟦X⟧} : Den a A → constantCoeff A = 0 → Den (.app "ATanh" [a]) (fatanh A)
    | sinh {a : Expr} {A : ℚ⟦X⟧} : Den a A → constantCoeff A = 0 →
        Den (.app "Sinh" [a]) (C (1 / 2 : ℚ) * (fexp A - (fexp A)⁻¹))
    | cosh {a : Expr} {A : ℚ⟦X⟧} : Den a A → constantCoeff A = 0 →
        Den (.app "Cosh" [a]) (C (1 / 2 : ℚ) * (fexp A + (fexp A)⁻¹))
    -- functions characterised by their defining equation (the solution is unique)
    | tan {a : Expr} {A T : ℚ⟦X⟧} : Den a A → constantCoeff A = 0 → constantCoeff T = 0 → fatan T = A →
        Den (.app "Tan" [a]) T
    | tanh {a : Expr} {A T : ℚ⟦X⟧} : Den a A → constantCoeff A = 0 → constantCoeff T = 0 → fatanh T = A →
        Den (.app "Tanh" [a]) T
    | lambertw {a : Expr} {A W : ℚ⟦X⟧} : Den a A → constantCoeff A = 0 → constantCoeff W = 0 →
        W * fexp W = A → Den (.app "LambertW" [a]) W
    | asin {a : Expr} {A R : ℚ⟦X⟧} : Den a A → constantCoeff A = 0 → R * R * (1 - A * A) = 1 →
        constantCoeff R = 1 → Den (.app "ASin" [a]) (integ (d⁄dX ℚ A * R))
    | asinh {a : Expr} {A R : ℚ⟦X⟧} : Den a A → constantCoeff A = 0 → R * R * (1 + A * A) = 1 →
        constantCoeff R = 1 → Den (.app "ASinh" [a]) (integ (d⁄dX ℚ A * R))
  /-- the dictionary of an `Add`: Σ key·coef -/
  inductive DenSum : List (Expr × Expr) → ℚ⟦X⟧ → Prop
    | nil : DenSum [] 0
    | cons {k v : Expr} {t : List (Expr × Expr)} {K V T : ℚ⟦X⟧} :
        Den k K → Den v V → DenSum t T → DenSum ((k, v) :: t) (K * V + T)
  /-- the dictionary of a `Mul`: Π base^exp -/
  inductive DenProd : List (Expr × Expr) → ℚ⟦X⟧ → Prop
    | nil : DenProd [] 1
    | cons {b e : Expr} {t : List (Expr × Expr)} {F T : ℚ⟦X⟧} :
        DenPow b e F → DenProd t T → DenProd ((b, e) :: t) (F * T)
  /-- `base^exp` -/
  inductive DenPow : Expr → Expr → ℚ⟦X⟧ → Prop
    | posInt {b : Expr} {B : ℚ⟦X⟧} (n : ℕ) : 1 ≤ n → Den b B → DenPow b (.int (n : Int)) (B ^ n)
    | negInt {b : Expr} {B : ℚ⟦X⟧} (n : ℕ) : 1 ≤ n → Den b B → constantCoeff B ≠ 0 →
        DenPow b (.int (-(n : Int))) (B⁻¹ ^ n)
    | exp {b e : Expr} {A : ℚ⟦X⟧} : isE b = true → isNumExp e = false → Den e A → constantCoeff A = 0 →
        DenPow b e (fexp A)
    | gen {b e : Expr} {B A : ℚ⟦X⟧} : isE b = false → isNumExp e = false → Den b B → Den e A →
        constantCoeff B = 1 → DenPow b e (fexp (A * flog B))
    -- rational powers: the root with positive constant term of a series with positive constant term
    | ratPos {b : Expr} {B D : ℚ⟦X⟧} (n den : ℕ) : 1 ≤ n → 2 ≤ den → Den b B → 0 < constantCoeff B →
        D ^ den = B ^ n → 0 < constantCoeff D → DenPow b (.rat (n : Int) den) D
    | ratNeg {b : Expr} {B D : ℚ⟦X⟧} (n den : ℕ) : 1 ≤ n → 2 ≤ den → Den b B → 0 < constantCoeff B →
        D ^ den * B ^ n = 1 → 0 < constantCoeff D → DenPow b (.rat (-(n : Int)) den) D
end

theorem toPS_constPoly (c : ℚ) : toPS (constPoly c) = C c := by
  unfold constPoly
  split
  · next h =>
    have : c = 0 := by simpa using h
    subst this; simp
  · exact toPS_singleton c

theorem toPS_var : toPS [0, 1] = X := by
  rw [toPS_cons, toPS_singleton]; simp

theorem powTrunc_pos_spec (p : Poly) (n prec : ℕ) (hn : 1 ≤ n) (r : Poly) (h : powTrunc p n prec = .ok r) :
    EqMod prec (toPS r) (toPS p ^ n) := by
  unfold powTrunc at h
  have : (n == 0) = false := by simpa using (by omega : n ≠ 0)
  simp only [this] at h
  cases h
  exact toPS_powPos p n prec hn

/-- integer-exponent branch of the Pow visitor -/
theorem powInt_sound (prec : ℕ) (hp : 1 ≤ prec) (b : Expr) (B : ℚ⟦X⟧) (p r : Poly) (sh : Int)
    (hsh : sh ≠ 0) (hB : Den b B) (hpB : EqMod prec (toPS p) B) (h : powInt p sh prec = .ok r) :
    ∃ D, DenPow b (.int sh) D ∧ EqMod prec (toPS r) D := by
  unfold powInt at h
  split at h
  · next h1 =>
    have : sh = 1 := by simpa using h1
    subst this
    cases h
    exact ⟨B ^ 1, DenPow.posInt 1 le_rfl hB, by simpa using hpB⟩
  · split at h
    · next h1 hpos =>
      obtain ⟨n, rfl⟩ := Int.eq_ofNat_of_zero_le (le_of_lt hpos)
      have hn : 1 ≤ n := by omega
      rw [Int.toNat_natCast] at h
      exact ⟨B ^ n, DenPow.posInt n hn hB, (powTrunc_pos_spec p n prec hn r h).trans (hpB.pow n)⟩
    · split at h
      · next h1 hpos hm1 =>
        have : sh = -1 := by simpa using hm1
        subst this
        have hc : constantCoeff B ≠ 0 := by
          rw [← constantCoeff_eq_of_eqMod hp hpB]; exact invert_ok_constantCoeff p r prec h
        refine ⟨B⁻¹ ^ 1, DenPow.negInt 1 le_rfl hB hc, ?_⟩
        rw [pow_one]
        exact eqMod_inv_of_mul (invert_spec p r prec h) hpB hc
      · next h1 hpos hm1 =>
        simp only [bind, Except.bind] at h
        split at h
        · cases h
        · next q hq =>
          have hneg : sh < 0 := by omega
          obtain ⟨n, hn⟩ : ∃ n : ℕ, sh = -(n : Int) := ⟨(-sh).toNat, by omega⟩
          subst hn
          have hn1 : 1 ≤ n := by omega
          have hc : constantCoeff B ≠ 0 := by
            rw [← constantCoeff_eq_of_eqMod hp hpB]; exact invert_ok_constantCoeff p q prec hq
          have hq' : EqMod prec (toPS q) B⁻¹ := eqMod_inv_of_mul (invert_spec p q prec hq) hpB hc
          have : (- -(n : Int)).toNat = n := by simp
          rw [this] at h
          exact ⟨B⁻¹ ^ n, DenPow.negInt n hn1 hB hc, (powTrunc_pos_spec q n prec hn1 r h).trans (hq'.pow n)⟩

/-- the Pow visitor, given the induction hypotheses for base and exponent -/
theorem powDispatch_sound (prec : ℕ) (hp : 1 ≤ prec) (b e : Expr) (rb re : Except Err Poly)
    (ihb : covered b = true → ∀ p, rb = .ok p → ∃ D, Den b D ∧ EqMod prec (toPS p) D)
    (ihe : covered e = true → ∀ p, re = .ok p → ∃ D, Den e D ∧ EqMod prec (toPS p) D)
    (hc : coveredPowB b e (covered b) (covered e) = true) (r : Poly)
    (h : powDispatch b e rb re prec = .ok r) : ∃ D, DenPow b e D ∧ EqMod prec (toPS r) D := by
  unfold powDispatch at h
  unfold coveredPowB at hc
  split at h
  · next sh =>
    simp only [Bool.and_eq_true, bne_iff_ne, ne_eq] at hc
    cases hrb : rb with
    | error er => rw [hrb] at h; simp [bind, Except.bind] at h
    | ok p =>
      rw [hrb] at h
      simp only [bind, Except.bind] at h
      obtain ⟨B, hB, hpB⟩ := ihb hc.2 p hrb
      exact powInt_sound prec hp b B p r sh hc.1 hB hpB h
  · simp at hc
  · next hni hnr =>
    have hnum : isNumExp e = false := by
      cases e <;> simp_all [isNumExp]
    have hc' : covered e = true ∧ (isE b = true ∨ covered b = true) := by
      cases e <;> simp_all
    split at h
    · next hE =>
      cases hre : re with
      | error er => rw [hre] at h; simp [bind, Except.bind] at h
      | ok q =>
        rw [hre] at h
        simp only [bind, Except.bind] at h
        obtain ⟨A, hA, hqA⟩ := ihe hc'.1 q hre
        obtain ⟨hA0, hr⟩ := exp_specC q r prec hp h hqA
        exact ⟨fexp A, DenPow.exp hE hnum hA hA0, hr⟩
    · next hE =>
      have hE' : isE b = false := by simpa using hE
      have hcb : covered b = true := by
        rcases hc'.2 with h1 | h1
        · rw [hE'] at h1; cases h1
        · exact h1
      cases hre : re with
      | error er => rw [hre] at h; simp [bind, Except.bind] at h
      | ok q =>
        cases hrb : rb with
        | error er => rw [hre, hrb] at h; simp [bind, Except.bind] at h
        | ok p =>
          rw [hre, hrb] at h
          simp only [bind, Except.bind] at h
          cases hl : seriesLog p prec with
          | error er => rw [hl] at h; simp at h
          | ok l =>
            rw [hl] at h
            simp only at h
            obtain ⟨A, hA, hqA⟩ := ihe hc'.1 q hre
            obtain ⟨B, hB, hpB⟩ := ihb hcb p hrb
            obtain ⟨hB1, hlB⟩ := log_specC p l prec hp hl hpB
            have hml : EqMod prec (toPS (mulFull q l)) (A * flog B) := by
              rw [toPS_mulFull]; exact hqA.mul hlB
            obtain ⟨_, hr⟩ := exp_specC (mulFull q l) r prec hp h hml
            exact ⟨fexp (A * flog B), DenPow.gen hE' hnum hB hA hB1, hr⟩

/-- the one-argument function visitors of the covered heads -/
theorem applyFun_sound (prec : ℕ) (hp : 1 ≤ prec) (hd : String) (a : Expr) (A : ℚ⟦X⟧) (p r : Poly)
    (hh : coveredHeads.contains hd = true) (hA : Den a A) (hpA : EqMod prec (toPS p) A)
    (h : applyFun hd p prec = .ok r) : ∃ D, Den (.app hd [a]) D ∧ EqMod prec (toPS r) D := by
  simp only [coveredHeads, List.contains_cons, List.contains_nil, Bool.or_false, Bool.or_eq_true,
    beq_iff_eq] at hh
  rcases hh with rfl | rfl | rfl | rfl | rfl | rfl | rfl | rfl
  · obtain ⟨h0, hr⟩ := sin_specC p r prec hp (by simpa [applyFun] using h) hpA
    exact ⟨_, Den.sin hA h0, hr⟩
  · obtain ⟨h0, hr⟩ := cos_specC p r prec hp (by simpa [applyFun] using h) hpA
    exact ⟨_, Den.cos hA h0, hr⟩
  · obtain ⟨h0, hr⟩ := sec_specC p r prec hp (by simpa [applyFun] using h) hpA
    exact ⟨_, Den.sec hA h0, hr⟩
  · obtain ⟨h0, hr⟩ := log_specC p r prec hp (by simpa [applyFun] using h) hpA
    exact ⟨_, Den.log hA h0, hr⟩
  · obtain ⟨h0, hr⟩ := atan_specC p r prec hp (by simpa [applyFun] using h) hpA
    exact ⟨_, Den.atan hA h0, hr⟩
  · obtain ⟨h0, hr⟩ := sinh_specC p r prec hp (by simpa [applyFun] using h) hpA
    exact ⟨_, Den.sinh hA h0, hr⟩
  · obtain ⟨h0, hr⟩ := cosh_specC p r prec hp (by simpa [applyFun] using h) hpA
    exact ⟨_, Den.cosh hA h0, hr⟩
  · obtain ⟨h0, hr⟩ := atanh_specC p r prec hp (by simpa [applyFun] using h) hpA
    exact ⟨_, Den.atanh hA h0, hr⟩

mutual
  theorem apply_sound (prec : ℕ) (hp : 1 ≤ prec) :
      ∀ (e : Expr) (p : Poly), covered e = true → apply prec e = .ok p →
        ∃ D, Den e D ∧ EqMod prec (toPS p) D
    | .int n, p, _, h => by
      simp only [apply] at h
      cases h
      exact ⟨_, Den.int n, EqMod.of_eq (toPS_constPoly _)⟩
    | .rat n d, p, _, h => by
      simp only [apply] at h
      cases h
      exact ⟨_, Den.rat n d, EqMod.of_eq (toPS_constPoly _)⟩
    | .sym name, p, hc, h => by
      simp only [covered, beq_iff_eq] at hc
      subst hc
      simp only [apply] at h
      cases h
      exact ⟨_, Den.var, EqMod.of_eq toPS_var⟩
    | .add c ts, p, hc, h => by
      simp only [covered, Bool.and_eq_true] at hc
      simp only [apply, bind, Except.bind] at h
      split at h
      · cases h
      · next t ht =>
        obtain ⟨A, hA, htA⟩ := apply_sound prec hp c t hc.1 ht
        obtain ⟨T, hT, hpT⟩ := applyAdd_sound prec hp ts t p A hc.2 htA h
        exact ⟨_, Den.add hA hT, hpT⟩
    | .mul c fs, p, hc, h => by
      simp only [covered, Bool.and_eq_true] at hc
      simp only [apply, bind, Except.bind] at h
      split at h
      · cases h
      · next t ht =>
        obtain ⟨A, hA, htA⟩ := apply_sound prec hp c t hc.1 ht
        obtain ⟨P, hP, hpP⟩ := applyMul_sound prec hp fs t p A hc.2 htA h
        exact ⟨_, Den.mul hA hP, hpP⟩
    | .pow b e, p, hc, h => by
      simp only [covered] at hc
      simp only [apply] at h
      obtain ⟨D, hD, hpD⟩ := powDispatch_sound prec hp b e _ _
        (fun hcb q hq => apply_sound prec hp b q hcb hq)
        (fun hce q hq => apply_sound prec hp e q hce hq) hc p h
      exact ⟨D, Den.pow hD, hpD⟩
    | .app hd args, p, hc, h => by
      simp only [covered, Bool.and_eq_true] at hc
      simp only [apply, bind, Except.bind] at h
      split at h
      · cases h
      · next q hq =>
        obtain ⟨a, A, rfl, hA, hqA⟩ := applyArg_sound prec hp args q hc.2 hq
        exact applyFun_sound prec hp hd a A q p hc.1 hA hqA h
    | .cplx _ _, _, hc, _ => by simp [covered] at hc
    | .dbl _, _, hc, _ => by simp [covered] at hc
    | .cdbl _ _, _, hc, _ => by simp [covered] at hc
    | .infty _, _, hc, _ => by simp [covered] at hc
    | .nan, _, hc, _ => by simp [covered] at hc
    | .dummy _ _, _, hc, _ => by simp [covered] at hc
    | .const _, _, hc, _ => by simp [covered] at hc
    | .fsym _ _, _, hc, _ => by simp [covered] at hc
    | .bool _, _, hc, _ => by simp [covered] at hc
  theorem applyAdd_sound (prec : ℕ) (hp : 1 ≤ prec) :
      ∀ (ts : List (Expr × Expr)) (temp p : Poly) (T0 : ℚ⟦X⟧), coveredPairs ts = true →
        EqMod prec (toPS temp) T0 → applyAdd prec temp ts = .ok p →
        ∃ T, DenSum ts T ∧ EqMod prec (toPS p) (T0 + T)
    | [], temp, p, T0, _, ht, h => by
      simp only [applyAdd] at h
      cases h
      exact ⟨0, DenSum.nil, by simpa using ht⟩
    | (k, v) :: t, temp, p, T0, hc, ht, h => by
      simp only [coveredPairs, Bool.and_eq_true] at hc
      simp only [applyAdd, bind, Except.bind] at h
      split at h
      · cases h
      · next pk hk =>
        split at h
        · cases h
        · next pv hv =>
          obtain ⟨K, hK, hpK⟩ := apply_sound prec hp k pk hc.1.1 hk
          obtain ⟨V, hV, hpV⟩ := apply_sound prec hp v pv hc.1.2 hv
          have h1 : EqMod prec (toPS (padd temp (mulFull pk pv))) (T0 + K * V) := by
            rw [toPS_padd, toPS_mulFull]; exact ht.add (hpK.mul hpV)
          obtain ⟨T, hT, hpT⟩ := applyAdd_sound prec hp t _ p _ hc.2 h1 h
          exact ⟨K * V + T, DenSum.cons hK hV hT, by rwa [← add_assoc]⟩
  theorem applyMul_sound (prec : ℕ) (hp : 1 ≤ prec) :
      ∀ (fs : List (Expr × Expr)) (temp p : Poly) (T0 : ℚ⟦X⟧), coveredPows fs = true →
        EqMod prec (toPS temp) T0 → applyMul prec temp fs = .ok p →
        ∃ P, DenProd fs P ∧ EqMod prec (toPS p) (T0 * P)
    | [], temp, p, T0, _, ht, h => by
      simp only [applyMul] at h
      cases h
      exact ⟨1, DenProd.nil, by simpa using ht⟩
    | (b, e) :: t, temp, p, T0, hc, ht, h => by
      simp only [coveredPows, Bool.and_eq_true] at hc
      simp only [applyMul, bind, Except.bind] at h
      split at h
      · cases h
      · next pf hf =>
        obtain ⟨F, hF, hpF⟩ := powDispatch_sound prec hp b e _ _
          (fun hcb q hq => apply_sound prec hp b q hcb hq)
          (fun hce q hq => apply_sound prec hp e q hce hq) hc.1 pf hf
        have h1 : EqMod prec (toPS (mulTrunc temp pf prec)) (T0 * F) :=
          (toPS_mulTrunc _ _ _).trans (ht.mul hpF)
        obtain ⟨P, hP, hpP⟩ := applyMul_sound prec hp t _ p _ hc.2 h1 h
        exact ⟨F * P, DenProd.cons hF hP, by rwa [← mul_assoc]⟩
  theorem applyArg_sound (prec : ℕ) (hp : 1 ≤ prec) :
      ∀ (args : List Expr) (p : Poly), coveredArg args = true → applyArg prec args = .ok p →
        ∃ a A, args = [a] ∧ Den a A ∧ EqMod prec (toPS p) A
    | [], _, hc, _ => by simp [coveredArg] at hc
    | [a], p, hc, h => by
      simp only [coveredArg] at hc
      simp only [applyArg] at h
      obtain ⟨A, hA, hpA⟩ := apply_sound prec hp a p hc h
      exact ⟨a, A, rfl, hA, hpA⟩
    | _ :: _ :: _, _, hc, _ => by simp [coveredArg] at hc
end

/-! ### soundness against every denotation (all modelled functions) -/

/-- integer-exponent branch, against a given denotation -/
theorem powInt_sound_all (prec : ℕ) (hp : 1 ≤ prec) (B : ℚ⟦X⟧) (p r : Poly) (hpB : EqMod prec (toPS p) B) :
    (∀ n : ℕ, 1 ≤ n → powInt p (n : Int) prec = .ok r → EqMod prec (toPS r) (B ^ n)) ∧
    (∀ n : ℕ, 1 ≤ n → constantCoeff B ≠ 0 → powInt p (-(n : Int)) prec = .ok r →
      EqMod prec (toPS r) (B⁻¹ ^ n)) := by
  constructor
  · intro n hn h
    unfold powInt at h
    split at h
    · next h1 =>
      have : (n : Int) = 1 := by simpa using h1
      have hn1 : n = 1 := by omega
      subst hn1
      cases h
      simpa using hpB
    · split at h
      · rw [Int.toNat_natCast] at h
        exact (powTrunc_pos_spec p n prec hn r h).trans (hpB.pow n)
      · next _ hneg => exact absurd (by omega : (n : Int) > 0) hneg
  · intro n hn hc h
    unfold powInt at h
    split at h
    · next h1 =>
      have : -(n : Int) = 1 := by simpa using h1
      omega
    · split at h
      · next _ hpos => exact absurd hpos (by omega)
      · split at h
        · next h1 =>
          have : -(n : Int) = -1 := by simpa using h1
          have hn1 : n = 1 := by omega
          subst hn1
          rw [pow_one]
          exact eqMod_inv_of_mul (invert_spec p r prec h) hpB hc
        · simp only [bind, Except.bind] at h
          split at h
          · cases h
          · next q hq =>
            have hq' : EqMod prec (toPS q) B⁻¹ := eqMod_inv_of_mul (invert_spec p q prec hq) hpB hc
            have : (- -(n : Int)).toNat = n := by simp
            rw [this] at h
            exact (powTrunc_pos_spec q n prec hn r h).trans (hq'.pow n)

/-- the Pow visitor against a given denotation -/
theorem powDispatch_sound_all (prec : ℕ) (hp : 1 ≤ prec) (b e : Expr) (rb re : Except Err Poly)
    (ihb : ∀ p B, rb = .ok p → Den b B → EqMod prec (toPS p) B)
    (ihe : ∀ p A, re = .ok p → Den e A → EqMod prec (toPS p) A)
    (r : Poly) (D : ℚ⟦X⟧) (h : powDispatch b e rb re prec = .ok r) (hD : DenPow b e D) :
    EqMod prec (toPS r) D := by
  cases hD with
  | posInt n hn hB =>
    unfold powDispatch at h
    simp only at h
    cases hrb : rb with
    | error er => rw [hrb] at h; simp [bind, Except.bind] at h
    | ok p =>
      rw [hrb] at h
      simp only [bind, Except.bind] at h
      exact (powInt_sound_all prec hp _ p r (ihb p _ hrb hB)).1 n hn h
  | negInt n hn hB hc =>
    unfold powDispatch at h
    simp only at h
    cases hrb : rb with
    | error er => rw [hrb] at h; simp [bind, Except.bind] at h
    | ok p =>
      rw [hrb] at h
      simp only [bind, Except.bind] at h
      exact (powInt_sound_all prec hp _ p r (ihb p _ hrb hB)).2 n hn hc h
  | ratPos n den hn hden hB hB0 hDd hD0 =>
    unfold powDispatch at h
    simp only at h
    cases hrb : rb with
    | error er => rw [hrb] at h; simp [bind, Except.bind] at h
    | ok p =>
      rw [hrb] at h
      simp only [bind, Except.bind] at h
      exact powRat_sound_pos p r n den prec hn hden hp h (ihb p _ hrb hB) hDd hD0
  | ratNeg n den hn hden hB hB0 hDd hD0 =>
    unfold powDispatch at h
    simp only at h
    cases hrb : rb with
    | error er => rw [hrb] at h; simp [bind, Except.bind] at h
    | ok p =>
      rw [hrb] at h
      simp only [bind, Except.bind] at h
      exact powRat_sound_neg p r n den prec hn hden hp h (ihb p _ hrb hB) (ne_of_gt hB0) hDd hD0
  | exp hE hnum hA hA0 =>
    unfold powDispatch at h
    split at h
    · simp [isNumExp] at hnum
    · simp [isNumExp] at hnum
    rw [if_pos hE] at h
    cases hre : re with
    | error er => rw [hre] at h; simp [bind, Except.bind] at h
    | ok q =>
      rw [hre] at h
      simp only [bind, Except.bind] at h
      exact (exp_specC q r prec hp h (ihe q _ hre hA)).2
  | gen hE hnum hB hA hB1 =>
    unfold powDispatch at h
    split at h
    · simp [isNumExp] at hnum
    · simp [isNumExp] at hnum
    rw [if_neg (by simp [hE])] at h
    cases hre : re with
    | error er => rw [hre] at h; simp [bind, Except.bind] at h
    | ok q =>
      cases hrb : rb with
      | error er => rw [hre, hrb] at h; simp [bind, Except.bind] at h
      | ok p =>
        rw [hre, hrb] at h
        simp only [bind, Except.bind] at h
        cases hl : seriesLog p prec with
        | error er => rw [hl] at h; simp at h
        | ok l =>
          rw [hl] at h
          simp only at h
          obtain ⟨_, hlB⟩ := log_specC p l prec hp hl (ihb p _ hrb hB)
          have hqA := ihe q _ hre hA
          have hml := (EqMod.of_eq (toPS_mulFull q l) (n := prec)).trans (hqA.mul hlB)
          exact (exp_specC (mulFull q l) r prec hp h hml).2

mutual
  theorem apply_sound_all (prec : ℕ) (hp : 1 ≤ prec) :
      ∀ (e : Expr) (p : Poly) (D : ℚ⟦X⟧), apply prec e = .ok p → Den e D → EqMod prec (toPS p) D
    | .int n, p, D, h, hD => by
      cases hD
      simp only [apply] at h
      cases h
      exact EqMod.of_eq (toPS_constPoly _)
    | .rat n d, p, D, h, hD => by
      cases hD
      simp only [apply] at h
      cases h
      exact EqMod.of_eq (toPS_constPoly _)
    | .sym name, p, D, h, hD => by
      cases hD
      simp only [apply] at h
      cases h
      exact EqMod.of_eq toPS_var
    | .add c ts, p, D, h, hD => by
      cases hD with
      | add hA hT =>
        simp only [apply, bind, Except.bind] at h
        split at h
        · cases h
        · next t ht =>
          exact applyAdd_sound_all prec hp ts t p _ _ (apply_sound_all prec hp c t _ ht hA) h hT
    | .mul c fs, p, D, h, hD => by
      cases hD with
      | mul hA hP =>
        simp only [apply, bind, Except.bind] at h
        split at h
        · cases h
        · next t ht =>
          exact applyMul_sound_all prec hp fs t p _ _ (apply_sound_all prec hp c t _ ht hA) h hP
    | .pow b e, p, D, h, hD => by
      cases hD with
      | pow hDP =>
        simp only [apply] at h
        exact powDispatch_sound_all prec hp b e _ _
          (fun q B hq hB => apply_sound_all prec hp b q B hq hB)
          (fun q A hq hA => apply_sound_all prec hp e q A hq hA) p D h hDP
    | .app hd [a], p, D, h, hD => by
      simp only [apply, applyArg, bind, Except.bind] at h
      split at h
      · cases h
      · next q hq =>
        cases hD with
        | sin hA h0 => exact (sin_specC q p prec hp (by simpa [applyFun] using h) (apply_sound_all prec hp a q _ hq hA)).2
        | cos hA h0 => exact (cos_specC q p prec hp (by simpa [applyFun] using h) (apply_sound_all prec hp a q _ hq hA)).2
        | sec hA h0 => exact (sec_specC q p prec hp (by simpa [applyFun] using h) (apply_sound_all prec hp a q _ hq hA)).2
        | log hA h0 => exact (log_specC q p prec hp (by simpa [applyFun] using h) (apply_sound_all prec hp a q _ hq hA)).2
        | atan hA h0 => exact (atan_specC q p prec hp (by simpa [applyFun] using h) (apply_sound_all prec hp a q _ hq hA)).2
        | atanh hA h0 => exact (atanh_specC q p prec hp (by simpa [applyFun] using h) (apply_sound_all prec hp a q _ hq hA)).2
        | sinh hA h0 => exact (sinh_specC q p prec hp (by simpa [applyFun] using h) (apply_sound_all prec hp a q _ hq hA)).2
        | cosh hA h0 => exact (cosh_specC q p prec hp (by simpa [applyFun] using h) (apply_sound_all prec hp a q _ hq hA)).2
        | tan hA h0 hT0 hT =>
          exact tan_sound q p prec hp (by simpa [applyFun] using h) (apply_sound_all prec hp a q _ hq hA) hT0 hT
        | tanh hA h0 hT0 hT =>
          exact tanh_sound q p prec hp (by simpa [applyFun] using h) (apply_sound_all prec hp a q _ hq hA) hT0 hT
        | lambertw hA h0 hW0 hW =>
          exact lambertw_sound q p prec hp (by simpa [applyFun] using h) (apply_sound_all prec hp a q _ hq hA) hW0 hW
        | asin hA h0 hR hR0 =>
          exact asin_sound q p prec hp (by simpa [applyFun] using h) (apply_sound_all prec hp a q _ hq hA) h0 hR hR0
        | asinh hA h0 hR hR0 =>
          exact asinh_sound q p prec hp (by simpa [applyFun] using h) (apply_sound_all prec hp a q _ hq hA) h0 hR hR0
    | .app _ [], _, _, _, hD => by cases hD
    | .app _ (_ :: _ :: _), _, _, _, hD => by cases hD
    | .cplx _ _, _, _, _, hD => by cases hD
    | .dbl _, _, _, _, hD => by cases hD
    | .cdbl _ _, _, _, _, hD => by cases hD
    | .infty _, _, _, _, hD => by cases hD
    | .nan, _, _, _, hD => by cases hD
    | .dummy _ _, _, _, _, hD => by cases hD
    | .const _, _, _, _, hD => by cases hD
    | .fsym _ _, _, _, _, hD => by cases hD
    | .bool _, _, _, _, hD => by cases hD
  theorem applyAdd_sound_all (prec : ℕ) (hp : 1 ≤ prec) :
      ∀ (ts : List (Expr × Expr)) (temp p : Poly) (T0 T : ℚ⟦X⟧), EqMod prec (toPS temp) T0 →
        applyAdd prec temp ts = .ok p → DenSum ts T → EqMod prec (toPS p) (T0 + T)
    | [], temp, p, T0, T, ht, h, hT => by
      cases hT
      simp only [applyAdd] at h
      cases h
      simpa using ht
    | (k, v) :: t, temp, p, T0, T, ht, h, hT => by
      cases hT with
      | cons hK hV hT' =>
        simp only [applyAdd, bind, Except.bind] at h
        split at h
        · cases h
        · next pk hk =>
          split at h
          · cases h
          · next pv hv =>
            have e1 : toPS (padd temp (mulFull pk pv)) = toPS temp + toPS pk * toPS pv := by
              rw [toPS_padd, toPS_mulFull]
            have h1 := (EqMod.of_eq e1 (n := prec)).trans
              (ht.add ((apply_sound_all prec hp k pk _ hk hK).mul (apply_sound_all prec hp v pv _ hv hV)))
            have := applyAdd_sound_all prec hp t _ p _ _ h1 h hT'
            rwa [add_assoc] at this
  theorem applyMul_sound_all (prec : ℕ) (hp : 1 ≤ prec) :
      ∀ (fs : List (Expr × Expr)) (temp p : Poly) (T0 P : ℚ⟦X⟧), EqMod prec (toPS temp) T0 →
        applyMul prec temp fs = .ok p → DenProd fs P → EqMod prec (toPS p) (T0 * P)
    | [], temp, p, T0, P, ht, h, hP => by
      cases hP
      simp only [applyMul] at h
      cases h
      simpa using ht
    | (b, e) :: t, temp, p, T0, P, ht, h, hP => by
      cases hP with
      | cons hF hP' =>
        simp only [applyMul, bind, Except.bind] at h
        split at h
        · cases h
        · next pf hf =>
          have hpF := powDispatch_sound_all prec hp b e _ _
            (fun q B hq hB => apply_sound_all prec hp b q B hq hB)
            (fun q A hq hA => apply_sound_all prec hp e q A hq hA) pf _ hf hF
          have h1 := (toPS_mulTrunc temp pf prec).trans (ht.mul hpF)
          have := applyMul_sound_all prec hp t _ p _ _ h1 h hP'
          rwa [mul_assoc] at this
end

/-- **C31 for the whole modelled language.**  For every expression, every order and every formal Taylor
series `D` of the expression (`Den e D`; tan, tanh, lambertw, asin, asinh and rational powers enter through
their defining equations): if the model of `series(e, x, prec)` answers `p`, the coefficients of `p`
below `prec` are exactly those of `D`.  "Partial" refers to the modelled fragment: rational coefficients,
no poles (see `docs/C31.md`). -/
theorem series_sound_partial (e : Expr) (prec : ℕ) (p : Poly) (D : ℚ⟦X⟧) (h : series e prec = .ok p)
    (hD : Den e D) : ∀ k, k < prec → Series.coeff p k = coeff k D := by
  unfold series at h
  split at h
  · cases h
  · next hp =>
    have hp' : 1 ≤ prec := by
      have : prec ≠ 0 := by simpa using hp
      omega
    intro k hk
    have := apply_sound_all prec hp' e p D h hD k hk
    rwa [coeff_toPS] at this

/-- **C31 on the proved fragment.**  For every expression `e` of the fragment `covered` (arithmetic, integer
powers, `exp`, `f^g`, log, sin, cos, sec, atan, sinh, cosh, atanh, arbitrarily nested) and every order:
whenever the model of `series(e, x, prec)` answers with a polynomial `p`, the expression has a formal
Taylor series `D` (`Den e D`) and the coefficients of `p` below `prec` are exactly those of `D`. -/
theorem series_total_partial (e : Expr) (prec : ℕ) (p : Poly) (hc : covered e = true)
    (h : series e prec = .ok p) : ∃ D, Den e D ∧ ∀ k, k < prec → Series.coeff p k = coeff k D := by
  unfold series at h
  split at h
  · cases h
  · next hp =>
    have hp' : 1 ≤ prec := by
      have : prec ≠ 0 := by simpa using hp
      omega
    obtain ⟨D, hD, hpD⟩ := apply_sound prec hp' e p hc h
    refine ⟨D, hD, fun k hk => ?_⟩
    have := hpD k hk
    rwa [coeff_toPS] at this

/-- non-vacuity: `cos(x) * exp(sin(x + x^2)) / (1 + x)` lies in the fragment and the model answers -/
def sample : Expr :=
  .mul (.int 1)
    [(.app "Cos" [.sym "x"], .int 1),
     (.const "E", .app "Sin" [.add (.int 0) [(.sym "x", .int 1), (.pow (.sym "x") (.int 2), .int 1)]]),
     (.add (.int 1) [(.sym "x", .int 1)], .int (-1))]

example : covered sample = true := by decide +kernel
example : series sample 5 = .ok [1, 0, 1, -1 / 2, 1 / 6] := by decide +kernel

/-! ## the implicitly defined functions: equations satisfied by the model's answer -/

/-- **series_tan**: `atan(g) ≡ s` -/
theorem series_tan_spec (s g : Poly) (prec : ℕ) (hp : 1 ≤ prec) (h : seriesTan s prec = .ok g) :
    constantCoeff (toPS g) = 0 ∧ EqMod prec (fatan (toPS g)) (toPS s) :=
  let ⟨_, h0, h1⟩ := tan_spec s g prec hp h; ⟨h0, h1⟩
/-- **series_tanh**: `atanh(g) ≡ s` -/
theorem series_tanh_spec (s g : Poly) (prec : ℕ) (hp : 1 ≤ prec) (h : seriesTanh s prec = .ok g) :
    constantCoeff (toPS g) = 0 ∧ EqMod prec (fatanh (toPS g)) (toPS s) :=
  let ⟨_, h0, h1⟩ := tanh_spec s g prec hp h; ⟨h0, h1⟩
/-- **series_lambertw**: `g·exp(g) ≡ s` -/
theorem series_lambertw_spec (s g : Poly) (prec : ℕ) (hp : 1 ≤ prec) (h : seriesLambertw s prec = .ok g) :
    constantCoeff (toPS g) = 0 ∧ EqMod prec (toPS g * fexp (toPS g)) (toPS s) :=
  let ⟨_, h0, h1⟩ := lambertw_spec s g prec hp h; ⟨h0, h1⟩
/-- **series_nthroot**: `g^n ≡ s` (n ≥ 2), `g^|n|·s ≡ 1` (n ≤ -2), positive constant terms -/
theorem series_nthroot_spec (s g : Poly) (n : Int) (prec : ℕ) (hn : 2 ≤ n.natAbs)
    (h : nthroot s n prec = .ok g) :
    (0 < n → EqMod prec (toPS g ^ n.natAbs) (toPS s)) ∧
    (n < 0 → EqMod prec (toPS g ^ n.natAbs * toPS s) 1) ∧
    0 < constantCoeff (toPS s) ∧ (1 ≤ prec → 0 < constantCoeff (toPS g)) := nthroot_spec s g n prec hn h
/-- **series_asin**: `g'²(1 - s²) ≡ s'²`, `g(0) = 0` -/
theorem series_asin_spec (s g : Poly) (prec : ℕ) (h : seriesAsin s prec = .ok g) :
    constantCoeff (toPS g) = 0 ∧
    EqMod (prec - 1) (d⁄dX ℚ (toPS g) ^ 2 * (1 - toPS s ^ 2)) (d⁄dX ℚ (toPS s) ^ 2) := asin_spec s g prec h
/-- **series_asinh**: `g'²(1 + s²) ≡ s'²`, `g(0) = 0` -/
theorem series_asinh_spec (s g : Poly) (prec : ℕ) (h : seriesAsinh s prec = .ok g) :
    constantCoeff (toPS g) = 0 ∧
    EqMod (prec - 1) (d⁄dX ℚ (toPS g) ^ 2 * (1 + toPS s ^ 2)) (d⁄dX ℚ (toPS s) ^ 2) := asinh_spec s g prec h

example : seriesTan [0, 1, 1] 6 = .ok [0, 1, 1, 1 / 3, 1, 17 / 15] := by decide +kernel
example : seriesTanh [0, 1] 8 = .ok [0, 1, 0, -1 / 3, 0, 2 / 15, 0, -17 / 315] := by decide +kernel
example : seriesLambertw [0, 1] 5 = .ok [0, 1, -1, 3 / 2, -8 / 3] := by decide +kernel
example : nthroot [4, 1] 2 4 = .ok [2, 1 / 4, -1 / 64, 1 / 512] := by decide +kernel
example : seriesAsin [0, 1, 1] 4 = .ok [0, 1, 1, 1 / 6, 1 / 4] := by decide +kernel

/-- non-vacuity of `series_sound_partial` on an implicitly defined function: `sqrt(1 + x)^2 …`: the
series `1 + x` is a denotation of `((1 + 2x + x^2))^(1/2)`, and the model's answer must agree with it -/
def sampleRoot : Expr :=
  .pow (.add (.int 1) [(.sym "x", .int 2), (.pow (.sym "x") (.int 2), .int 1)]) (.rat 1 2)

theorem sampleRoot_den : Den sampleRoot (1 + X) := by
  have hB : Den (.add (.int 1) [(.sym "x", .int 2), (.pow (.sym "x") (.int 2), .int 1)])
      (C ((1 : Int) : ℚ) + (X * C ((2 : Int) : ℚ) + (X ^ 2 * C ((1 : Int) : ℚ) + 0))) :=
    Den.add (Den.int 1) (DenSum.cons Den.var (Den.int 2)
      (DenSum.cons (Den.pow (DenPow.posInt 2 (by omega) Den.var)) (Den.int 1) DenSum.nil))
  refine Den.pow (DenPow.ratPos 1 2 le_rfl le_rfl hB ?_ ?_ ?_)
  · simp
  · simp only [Int.cast_one, map_one, Int.cast_ofNat, pow_one]
    have : (C (2 : ℚ) : ℚ⟦X⟧) = 2 := map_ofNat _ 2
    rw [this]; ring
  · simp

example : series sampleRoot 6 = .ok [1, 1, 0, 0, 0, 0] := by decide +kernel

/-! ## what is not proved

`C31_full` (not asserted) adds *completeness* on the modelled fragment: the model answers on every
expression that has a formal Taylor series.  Outside the model altogether (no Lean statement): symbolic
constants (`sin(1 + x)`, `exp(c + …)`, irrational roots), Laurent intermediates (`sin(x)/x`: the real code
loses precision there — known finding), the generic `Function` visitor, FLINT/Piranha back-ends. -/
def C31_full : Prop :=
  ∀ (e : Expr) (prec : ℕ) (D : ℚ⟦X⟧), 1 ≤ prec → Den e D →
    ∃ p, series e prec = .ok p ∧ ∀ k, k < prec → Series.coeff p k = coeff k D

end SymVerif.C31
