import SymVerif.Model.Num
import SymVerif.Lemmas.C05Q
/-!
C06 — mixed-kind number arithmetic is commutative and obeys the oo/nan rules.

All theorems are about the functions the driver `drv_c06` runs (`SymVerif.Num.add/sub/mul/div/pow`),
for *every* pair of numbers of every kind.  Floating operands are elements of an arbitrary type `F`
with operations `FloatOps F`; the only IEEE facts used are the commutativity of `+` and `*`
(`FloatComm`), stated as a hypothesis because Lean's `Float` is opaque to the kernel.
-/
namespace SymVerif.C06
open SymVerif.Num SymVerif.Num.FloatOps

set_option linter.unusedSimpArgs false
set_option linter.unusedSectionVars false
set_option linter.unusedVariables false
set_option linter.unnecessarySeqFocus false
set_option linter.unusedTactic false
set_option linter.unreachableTactic false
set_option warn.classDefReducibility false

variable {F : Type} [FloatOps F]

/-- IEEE facts used by the commutativity theorems (binary64 `+` and `*` are commutative). -/
structure FloatComm (F : Type) [FloatOps F] : Prop where
  add_comm : ∀ x y : F, fadd x y = fadd y x
  mul_comm : ∀ x y : F, fmul x y = fmul y x

inductive Op where
  | add | sub | mul | div | pow
  deriving DecidableEq, Repr

/-- the operation the driver runs for each op name -/
def Op.run : Op → Num F → Num F → Res F
  | .add => Num.add
  | .sub => Num.sub
  | .mul => Num.mul
  | .div => Num.div
  | .pow => Num.pow

/-! ### commutativity -/

theorem Q_add_comm (a b : Q) : a.add b = b.add a := by
  unfold Q.add; rw [Int.add_comm, Nat.mul_comm]

theorem Q_mul_comm (a b : Q) : a.mul b = b.mul a := by
  unfold Q.mul; rw [Int.mul_comm, Nat.mul_comm]

theorem inftyAdd_comm (d e : Int) :
    inftyAdd (F := F) d (.infty e) = inftyAdd e (.infty d) := by
  simp only [inftyAdd]
  by_cases h : e = d
  · subst h; rfl
  · have h' : d ≠ e := fun x => h x.symm
    simp [h, h']

/-- **C06 (a)** `a + b = b + a` for every ordered pair of numbers of every kind. -/
theorem add_comm_all (h : FloatComm F) (a b : Num F) : Num.add a b = Num.add b a := by
  cases a <;> cases b <;>
    first
    | rfl
    | exact inftyAdd_comm _ _
    | (simp only [Num.add, intAdd, ratAdd, cplxAdd, dblAdd, cdblAdd, inftyAdd, nanAdd];
       first
       | rfl
       | rw [Int.add_comm]
       | (rename_i r1 i1 r2 i2; rw [Q_add_comm r1 r2, Q_add_comm i1 i2])
       | rw [Q_add_comm]
       | (congr 2 <;> exact h.add_comm _ _)
       | (congr 2; exact h.add_comm _ _))

theorem cmulF_comm (h : FloatComm F) (a b c d : F) : cmulF a b c d = cmulF c d a b := by
  unfold cmulF
  rw [h.mul_comm a c, h.mul_comm b d, h.mul_comm a d, h.mul_comm b c, h.add_comm (fmul d a) (fmul c b)]

/-- **C06 (a)** `a * b = b * a` for every ordered pair of numbers of every kind
(pairs for which the library throws `NotImplementedError`, i.e. infinity times Complex, throw in both orders). -/
theorem mul_comm_all (h : FloatComm F) (a b : Num F) : Num.mul a b = Num.mul b a := by
  cases a <;> cases b <;>
    first
    | rfl
    | exact cmulF_comm h _ _ _ _
    | (simp only [Num.mul, intMul, ratMul, cplxMul, dblMul, cdblMul, inftyMul, nanMul];
       first
       | rfl
       | rw [Int.mul_comm]
       | (rename_i r1 i1 r2 i2
          rw [Q_mul_comm r1 r2, Q_mul_comm i1 i2, Q_mul_comm r1 i2, Q_mul_comm i1 r2, Q_add_comm])
       | rw [Q_mul_comm]
       | (congr 2 <;> exact h.mul_comm _ _))

/-! ### nan absorbs every operation -/

theorem mul_int_ok (b : Num F) (m : Int) : ∃ t, Num.mul b (.int m) = .ok t := by
  cases b <;> simp only [Num.mul, intMul, ratMul, cplxMul, dblMul, cdblMul, inftyMul, nanMul]
  all_goals (repeat' split)
  all_goals exact ⟨_, rfl⟩

theorem mul_nan_right (a : Num F) : Num.mul a .nan = .ok .nan := by
  cases a <;> simp [Num.mul, intMul, ratMul, cplxMul, dblMul, cdblMul, inftyMul, nanMul,
    Num.isPositive, Num.isNegative]

/-- **C06 (b)** nan absorbs: for every operation and every number `a` of any kind,
`a ∘ nan = nan` and `nan ∘ a = nan`. -/
theorem nan_absorbs (op : Op) (a : Num F) :
    op.run a .nan = .ok .nan ∧ op.run .nan a = .ok .nan := by
  cases op
  · -- add
    constructor
    · cases a <;> rfl
    · rfl
  · -- sub
    constructor
    · cases a <;>
        simp [Op.run, Num.sub, intSub, ratSub, cplxSub, dblSub, cdblSub, defaultRsub, defaultSub,
          Num.mul, nanMul, Num.add, nanAdd, inftyMul, Num.isPositive, Num.isNegative, inftyAdd,
          intMul]
    · obtain ⟨t, ht⟩ := mul_int_ok a (-1)
      simp [Op.run, Num.sub, defaultSub, ht, Num.add, nanAdd]
  · -- mul
    exact ⟨mul_nan_right a, rfl⟩
  · -- div
    constructor
    · cases a <;>
        simp [Op.run, Num.div, intDiv, ratDiv, cplxDiv, dblDiv, cdblDiv, inftyDiv, nanDiv,
          defaultRdiv, mul_nan_right]
    · rfl
  · -- pow
    constructor
    · cases a <;> rfl
    · rfl

/-! ### infinities -/

/-- **C06 (c)** two infinities add to themselves only when they have the same sign;
in particular `oo + -oo = nan` (and `zoo + zoo = nan`). -/
theorem infty_add_infty (d e : Int) :
    Num.add (F := F) (.infty d) (.infty e) = .ok (if d = e ∧ d ≠ 0 then .infty d else .nan) := by
  simp only [Num.add, inftyAdd]
  by_cases h : e = d
  · subst h; by_cases h0 : e = 0 <;> simp [h0]
  · have h' : ¬ d = e := fun x => h x.symm
    simp [h, h']

theorem oo_add_neg_oo : Num.add (F := F) (.infty 1) (.infty (-1)) = .ok .nan
    ∧ Num.add (F := F) (.infty (-1)) (.infty 1) = .ok .nan := by
  constructor <;> rfl

/-- real kinds whose sign is given by `isPositive` / `isNegative` -/
def isRealFinite : Num F → Bool
  | .int _ | .rat _ | .dbl _ => true
  | _ => false

/-- **C06 (d)** a real finite factor that is neither positive nor negative (an exact zero, a float zero)
times any infinity is nan, in both orders. -/
theorem zero_mul_infty (a : Num F) (d : Int) (hk : isRealFinite a = true)
    (hp : a.isPositive = false) (hn : a.isNegative = false) :
    Num.mul a (.infty d) = .ok .nan ∧ Num.mul (.infty d) a = .ok .nan := by
  cases a <;> simp_all [isRealFinite, Num.mul, intMul, ratMul, dblMul, inftyMul]

theorem exact_zero_mul_infty (d : Int) :
    Num.mul (F := F) (.int 0) (.infty d) = .ok .nan ∧ Num.mul (F := F) (.infty d) (.int 0) = .ok .nan :=
  zero_mul_infty (.int 0) d rfl (by simp [Num.isPositive]) (by simp [Num.isNegative])

/-- **C06 (e)** a positive real factor keeps the direction of an infinity, in both orders. -/
theorem pos_mul_infty (a : Num F) (d : Int) (hk : isRealFinite a = true) (hp : a.isPositive = true) :
    Num.mul a (.infty d) = .ok (.infty d) ∧ Num.mul (.infty d) a = .ok (.infty d) := by
  cases a <;> simp_all [isRealFinite, Num.mul, intMul, ratMul, dblMul, inftyMul]

/-- **C06 (e)** a negative real factor flips the direction of an infinity, in both orders. -/
theorem neg_mul_infty (a : Num F) (d : Int) (hk : isRealFinite a = true)
    (hp : a.isPositive = false) (hn : a.isNegative = true) :
    Num.mul a (.infty d) = .ok (.infty (-d)) ∧ Num.mul (.infty d) a = .ok (.infty (-d)) := by
  cases a <;> simp_all [isRealFinite, Num.mul, intMul, ratMul, dblMul, inftyMul]

/-- **C06 (e)** an infinity divided by a real finite divisor: positive keeps, negative flips, zero gives zoo. -/
theorem infty_div_real (a : Num F) (d : Int) (hk : isRealFinite a = true) :
    Num.div (.infty d) a = (if a.isPositive then .ok (.infty d) else if a.isZero then .ok (.infty 0)
      else if a.isNegative then .ok (.infty (-d)) else .ok .nan) := by
  cases a <;> simp_all [isRealFinite, Num.div, inftyDiv]

/-- **C06 (f)** a nonzero exact number divided by the exact zero is zoo; `0/0` is nan. -/
theorem exact_div_zero (a : Num F) (he : a.isExact = true) (hn : a.normalised = true) :
    Num.div a (.int 0) = .ok (if a.isZero then .nan else .infty 0) := by
  cases a with
  | int n => by_cases h : n = 0 <;> simp [Num.div, intDiv, divint, Num.isZero, h]
  | rat q =>
    have hq : q.num ≠ 0 := by
      intro h0
      simp [Num.normalised, Q.canon, h0] at hn
      omega
    simp [Num.div, ratDiv, Num.isZero, hq]
  | cplx re im =>
    simp only [Num.normalised, Bool.and_eq_true, bne_iff_ne, ne_eq, Q.canon_iff] at hn
    have hm := modSq_num_ne_zero hn.1.1.pos hn.1.2.pos hn.2
    simp [Num.div, cplxDiv, Num.isZero, hm]
  | _ => simp [Num.isExact] at he

/-! ### a float operand keeps the result a float -/

def isFloatKind : Num F → Bool
  | .dbl _ | .cdbl _ _ => true
  | _ => false

/-- the kinds of finite numbers (everything except the infinities and nan) -/
def isFiniteKind : Num F → Bool
  | .infty _ | .nan => false
  | _ => true

/-- the one exception: `RealDouble::mulreal(const Integer&)` returns the exact `zero` for an exact zero
factor (`0 * 2.5 = 0`, also through `Integer::mul`) -/
def zeroAnnihilation : Op → Num F → Num F → Bool
  | .mul, .int n, .dbl _ => n == 0
  | .mul, .dbl _, .int n => n == 0
  | _, _, _ => false

/-- **C06 (g)** the full claim "an operation between a float and a finite number never returns an exact
number"; it does *not* hold for the library (see `float_times_exact_zero`). -/
def C06_float_full (F : Type) [FloatOps F] : Prop :=
  ∀ (op : Op) (a b r : Num F), (isFloatKind a || isFloatKind b) = true → isFiniteKind a = true →
    isFiniteKind b = true → op.run a b = .ok r → isFloatKind r = true

/-- **C06 (g), partial**: it holds for every operation and every pair except an exact zero times a real double. -/
theorem float_stays_float_partial (op : Op) (a b r : Num F)
    (hf : (isFloatKind a || isFloatKind b) = true) (ha : isFiniteKind a = true)
    (hb : isFiniteKind b = true) (hz : zeroAnnihilation op a b = false)
    (hr : op.run a b = .ok r) : isFloatKind r = true := by
  cases op <;> cases a <;> cases b <;>
    simp only [isFloatKind, isFiniteKind, zeroAnnihilation, Bool.or_self, Bool.or_true, Bool.true_or,
      Bool.false_eq_true, beq_eq_false_iff_ne, ne_eq] at hf ha hb hz <;>
    simp only [Op.run, Num.add, intAdd, ratAdd, cplxAdd, dblAdd, cdblAdd,
      Num.sub, intSub, ratSub, cplxSub, dblSub, cdblSub, ratRsub, cplxRsub, dblRsub, cdblRsub,
      Num.mul, intMul, ratMul, cplxMul, dblMul, cdblMul, cmulF,
      Num.div, intDiv, ratDiv, cplxDiv, dblDiv, cdblDiv, ratRdiv, cplxRdiv, dblRdiv, cdblRdiv,
      Num.pow, intPow, ratPow, cplxPow, dblPow, cdblPow, dblRpow, cdblRpow] at hr <;>
    (try split at hr) <;>
    simp_all [isFloatKind] <;>
    (subst hr; rfl)

/-- the witness of the exception: a real double times the exact zero is the exact zero -/
theorem float_times_exact_zero (d : F) :
    Num.mul (.dbl d) (.int 0) = .ok (.int 0) ∧ Num.mul (.int 0) (.dbl d) = .ok (.int 0) := by
  constructor <;> simp [Num.mul, intMul, dblMul]

theorem C06_float_full_false (d : F) : ¬ C06_float_full F := by
  intro h
  have := h .mul (.dbl d) (.int 0) (.int 0) rfl rfl rfl (float_times_exact_zero d).1
  simp [isFloatKind] at this

/-! ### the defect D4 in the unpatched source (kept as `…Orig` in the model) -/

/-- unpatched `Infty::add` ignores a NaN operand: `oo + nan = oo` but `nan + oo = nan` -/
theorem D4_orig_add_not_comm :
    addOrig (F := F) (.infty 1) .nan = .ok (.infty 1) ∧ addOrig (F := F) .nan (.infty 1) = .ok .nan := by
  constructor <;> rfl

/-- unpatched `Infty::div`: `oo / nan = -oo` -/
theorem D4_orig_div_nan : divOrig (F := F) (.infty 1) .nan = .ok (.infty (-1)) := by
  simp [divOrig, inftyDivOrig, Num.isPositive, Num.isZero]

/-- unpatched `Infty::pow`: `oo ** nan = oo` -/
theorem D4_orig_pow_nan : inftyPowOrig (F := F) 1 .nan = .ok (.infty 1) := by
  simp [inftyPowOrig]

/-- unpatched `Infty::div` by a Complex flips the direction: `oo / (1 + i) = -oo` -/
theorem orig_infty_div_complex (re im : Q) :
    divOrig (F := F) (.infty 1) (.cplx re im) = .ok (.infty (-1)) := by
  simp [divOrig, inftyDivOrig, Num.isPositive, Num.isZero]

/-! ### non-vacuity: the hypotheses are satisfiable and the statements apply to concrete values -/

/-- a toy `FloatOps` (exact integer arithmetic) showing that `FloatComm` is satisfiable -/
def toyOps : FloatOps Int where
  fadd := (· + ·)
  fsub := (· - ·)
  fmul := (· * ·)
  fdiv := (· / ·)
  fneg := fun x => -x
  fpow := fun x y => x ^ y.toNat
  ofInt := id
  ofQ := fun q => q.num / q.den
  isPos := fun x => decide (0 < x)
  isNeg := fun x => decide (x < 0)
  isZero := fun x => x == 0
  isNaN := fun _ => false
  beq := fun x y => x == y

theorem toyComm : @FloatComm Int toyOps := @FloatComm.mk Int toyOps Int.add_comm Int.mul_comm

example : @Num.add Int toyOps (.cdbl 1 3) (.rat ⟨1, 2⟩) = @Num.add Int toyOps (.rat ⟨1, 2⟩) (.cdbl 1 3) :=
  @add_comm_all Int toyOps toyComm _ _
example : @Num.mul Int toyOps (.cdbl 1 3) (.cdbl 2 5) = @Num.mul Int toyOps (.cdbl 2 5) (.cdbl 1 3) :=
  @mul_comm_all Int toyOps toyComm _ _
example : Num.add (F := F) (.int 3) (.cplx ⟨1, 2⟩ ⟨-3, 4⟩) = Num.add (.cplx ⟨1, 2⟩ ⟨-3, 4⟩) (.int 3) := rfl
example : (Op.sub).run (F := F) (.infty 1) .nan = .ok .nan := (nan_absorbs .sub (.infty 1)).1
example : (Op.div).run (F := F) (.infty (-1)) .nan = .ok .nan := (nan_absorbs .div (.infty (-1))).1
example : (Op.pow).run (F := F) (.infty 1) .nan = .ok .nan := (nan_absorbs .pow (.infty 1)).1
example : Num.add (F := F) (.infty 0) (.infty 0) = .ok .nan := by rw [infty_add_infty]; rfl
example : Num.mul (F := F) (.rat ⟨-7, 3⟩) (.infty (-1)) = .ok (.infty 1) :=
  (neg_mul_infty (.rat ⟨-7, 3⟩) (-1) rfl rfl rfl).1
example : Num.mul (F := F) (.infty 0) (.int 5) = .ok (.infty 0) :=
  (pos_mul_infty (.int 5) 0 rfl rfl).2
example : Num.div (F := F) (.cplx ⟨1, 2⟩ ⟨-3, 4⟩) (.int 0) = .ok (.infty 0) := by
  rw [exact_div_zero _ rfl rfl]; rfl
example : Num.div (F := F) (.int 0) (.int 0) = .ok .nan := by
  rw [exact_div_zero _ rfl rfl]; rfl
example (d : F) : isFloatKind (F := F) (.cdbl (fadd d (ofInt 3)) d) = true :=
  float_stays_float_partial .add (.cdbl d d) (.int 3) _ rfl rfl rfl rfl rfl

end SymVerif.C06
