-- Root of the library. Individual property modules are built on demand
-- (`lake build SymVerif.Props.Cxx`); this file only anchors the library name.
import SymVerif.DrvCommon
