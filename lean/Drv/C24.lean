import SymVerif.DrvCommon
import SymVerif.Model.Dense
/-! Driver for C24: `dm <alg> <args…>`; matrices `RxC:e,e,…`, scalars `p` or `p/q`.
Output: result matrices joined by `|`, `pl=k-i;…`, `pc=a;b`, scalars, tribools `T/F/U`.
Any result containing an unpredicted entry prints `SKIP:unk`. -/
open SymVerif SymVerif.Dense

def parseRat? (s : String) : Option Rat :=
  match s.splitOn "/" with
  | [a] => a.toInt?.map (fun n => (n : Rat))
  | [a, b] => do
    let n ← a.toInt?
    let d ← b.toNat?
    if d = 0 then none else pure (mkRat n d)
  | _ => none

def parseDM? (s : String) : Option DM :=
  match s.splitOn ":" with
  | [dims, body] =>
    match dims.splitOn "x" with
    | [r, c] => do
      let r ← r.toNat?
      let c ← c.toNat?
      let es ← (if body.isEmpty then some [] else (body.splitOn ",").mapM parseRat?)
      if es.length != r * c then none else
      pure { row := r, col := c, m := (es.map X.fin).toArray }
    | _ => none
  | _ => none

def showRat (q : Rat) : String :=
  if q.den == 1 then toString q.num else s!"{q.num}/{q.den}"

def showX : X → String
  | .fin q => showRat q
  | .zoo => "zoo"
  | .nan => "nan"
  | .unk => "UNK"

def showDM (A : DM) : String :=
  s!"{A.row}x{A.col}:" ++ ",".intercalate (A.m.toList.map showX)

def showPl (pl : List (Nat × Nat)) : String :=
  "pl=" ++ ";".intercalate (pl.map (fun p => s!"{p.1}-{p.2}"))
def showPc (pc : List Nat) : String :=
  "pc=" ++ ";".intercalate (pc.map toString)
def showTri : Tri → String
  | .t => "T" | .f => "F" | .u => "U"
def showBool (b : Bool) : String := if b then "T" else "F"

def showErr : Err → String
  | .oob => "E:oob"
  | .assert => "E:Assert"
  | .runtime => "E:Runtime"
  | .unmodelled => "SKIP:unmodelled"

def fin (r : M String) : String :=
  match r with
  | .error e => showErr e
  | .ok s => if (s.splitOn "UNK").length > 1 then "SKIP:unk" else s

/-- arguments: matrices and scalars in order of appearance -/
structure Args where
  ms : Array DM
  ss : Array Rat

def parseArgs (ws : List String) : Option Args :=
  ws.foldlM (fun (a : Args) w =>
    if (w.splitOn ":").length > 1 then (parseDM? w).map (fun m => { a with ms := a.ms.push m })
    else (parseRat? w).map (fun q => { a with ss := a.ss.push q })) { ms := #[], ss := #[] }

def natOf (q : Rat) : Nat := q.num.toNat

def run (alg : String) (a : Args) : Option (M String) := do
  let m (i : Nat) : Option DM := a.ms[i]?
  let s (i : Nat) : Option Rat := a.ss[i]?
  let n (i : Nat) : Option Nat := (a.ss[i]?).map natOf
  let mat (r : M DM) : M String := do pure (showDM (← r))
  let matPl (r : M (DM × List (Nat × Nat))) : M String := do
    let (d, pl) ← r
    pure (showDM d ++ "|" ++ showPl pl)
  let tri (r : M Tri) : M String := do pure (showTri (← r))
  let bool (r : M Bool) : M String := do pure (showBool (← r))
  let sc (r : M X) : M String := do pure (showX (← r))
  match alg with
  | "add" => do pure (mat (addDense (← m 0) (← m 1)))
  | "emul" => do pure (mat (emulDense (← m 0) (← m 1)))
  | "mul" => do pure (mat (mulDense (← m 0) (← m 1)))
  | "mul_alias" => do
    let A ← m 0
    let B ← (if (s 0) == some 3 then some A else m 1)
    pure (mat (mulDenseAliased A B))
  | "add_alias" => do
    let A ← m 0
    let B ← (if (s 0) == some 3 then some A else m 1)
    pure (mat (addDense A B))
  | "emul_alias" => do
    let A ← m 0
    let B ← (if (s 0) == some 3 then some A else m 1)
    pure (mat (emulDense A B))
  | "adds_alias" => do pure (mat (addScalar (← m 0) (X.fin (← s 0))))
  | "muls_alias" => do pure (mat (mulScalar (← m 0) (X.fin (← s 0))))
  | "adds" => do pure (mat (addScalar (← m 0) (X.fin (← s 0))))
  | "muls" => do pure (mat (mulScalar (← m 0) (X.fin (← s 0))))
  | "transpose" => do pure (mat (transposeDense (← m 0)))
  | "submatrix" => do pure (mat (submatrixDense (← m 0) (← n 0) (← n 1) (← n 2) (← n 3) (← n 4) (← n 5)))
  | "row_join" => do pure (mat (rowJoin (← m 0) (← m 1)))
  | "col_join" => do pure (mat (colJoin (← m 0) (← m 1)))
  | "row_insert" => do pure (mat (rowInsert (← m 0) (← m 1) (← n 0)))
  | "col_insert" => do pure (mat (colInsert (← m 0) (← m 1) (← n 0)))
  | "row_del" => do pure (mat (rowDel (← m 0) (← n 0)))
  | "col_del" => do pure (mat (colDel (← m 0) (← n 0)))
  | "row_exchange" => do pure (mat (rowExchange (← m 0) (← n 0) (← n 1)))
  | "col_exchange" => do pure (mat (colExchange (← m 0) (← n 0) (← n 1)))
  | "row_mul_scalar" => do pure (mat (rowMulScalar (← m 0) (← n 0) (X.fin (← s 1))))
  | "row_add_row" => do pure (mat (rowAddRow (← m 0) (← n 0) (← n 1) (X.fin (← s 2))))
  | "trace" => do pure (sc (trace (← m 0)))
  | "dot" => do pure (mat (dot (← m 0) (← m 1)))
  | "cross" => do pure (mat (cross (← m 0) (← m 1)))
  | "eye" => do
    let k := (← s 2).num
    pure (mat (eyeInto (DM.fresh (← n 0) (← n 1)) k))
  | "ones" => do pure (mat (pure (fill (← n 0) (← n 1) X.one)))
  | "zeros" => do pure (mat (pure (fill (← n 0) (← n 1) X.zero)))
  | "diag" => do
    let k := (← s 2).num
    pure (mat (diagInto (DM.fresh (← n 0) (← n 1)) (← m 0).m k))
  | "is_zero" => do pure (tri (isZeroM (← m 0)))
  | "is_diagonal" => do pure (tri (isDiagonal (← m 0)))
  | "is_symmetric" => do pure (tri (isSymLike (← m 0) false))
  | "is_hermitian" => do pure (tri (isSymLike (← m 0) true))
  | "is_symmetric_dense" => do pure (bool (isSymmetricDense (← m 0)))
  | "is_lower" => do pure (bool (isLower (← m 0)))
  | "is_upper" => do pure (bool (isUpper (← m 0)))
  | "is_wdd" => do pure (tri (isDiagDom (← m 0) false))
  | "is_sdd" => do pure (tri (isDiagDom (← m 0) true))
  | "is_posdef" => do pure (tri (isPosdef (← m 0)))
  | "is_negdef" => do pure (tri (isNegdef (← m 0)))
  | "pge" => do pure (matPl (pge (← m 0)))
  | "pge_orig" => do pure (matPl (pgeOrig (← m 0)))
  | "pffge" => do pure (matPl (pffge (← m 0)))
  | "pffge_orig" => do pure (matPl (pffgeOrig (← m 0)))
  | "pgje" => do pure (matPl (pgje (← m 0)))
  | "pffgje" => do pure (matPl (pffgje (← m 0)))
  | "ffge" => do pure (mat (ffge (← m 0)))
  | "ffgje" => do pure (mat (ffgje (← m 0)))
  | "rref" => do
    let A ← m 0
    let nl := (s 0).map (fun q => q == 1) |>.getD false
    pure (do
      let (b, pc) ← rref A nl
      pure (showDM b ++ "|" ++ showPc pc))
  | "rank" => do
    let A ← m 0
    pure (do
      let (_, pc) ← rref A false
      pure (toString pc.length))
  | "diag_solve" => do
    let A ← m 0; let b ← m 1
    pure (mat (diagonalSolve A b (DM.fresh A.col b.col)))
  | "back_sub" => do
    let A ← m 0; let b ← m 1
    pure (mat (backSubstitution A b (DM.fresh A.col b.col)))
  | "fwd_sub" => do
    let A ← m 0; let b ← m 1
    pure (mat (forwardSubstitution A b (DM.fresh A.col b.col)))
  | "ffge_solve" => do
    let A ← m 0; let b ← m 1
    pure (mat (ffgeSolve A b (DM.fresh A.col b.col)))
  | "ffgj_solve" => do
    let A ← m 0; let b ← m 1
    let pv := (s 0).map (fun q => q == 1) |>.getD false
    pure (mat (ffgjSolve A b (DM.fresh A.col b.col) pv))
  | "fflu_solve" => do pure (mat (fflUSolve (← m 0) (← m 1)))
  | "lu_solve" => do pure (mat (luSolve (← m 0) (← m 1)))
  | "plu_solve" => do pure (mat (pivotedLUSolve (← m 0) (← m 1)))
  | "ldl_solve" => do pure (mat (ldlSolve (← m 0) (← m 1)))
  | "lu" => do
    let A ← m 0
    pure (do let (L, U) ← luDecomp A; pure (showDM L ++ "|" ++ showDM U))
  | "ldl" => do
    let A ← m 0
    pure (do let (L, D) ← ldlDecomp A; pure (showDM L ++ "|" ++ showDM D))
  | "plu" => do
    let A ← m 0
    pure (do let (L, U, pl) ← pivotedLU A; pure (showDM L ++ "|" ++ showDM U ++ "|" ++ showPl pl))
  | "plu1" => do pure (matPl (pivotedLU1 (← m 0)))
  | "fflu" => do pure (mat (fractionFreeLU (← m 0)))
  | "ffldu" => do
    let A ← m 0
    pure (do let (L, D, U) ← fractionFreeLDU A; pure (showDM L ++ "|" ++ showDM D ++ "|" ++ showDM U))
  | "cholesky" => do pure (mat (choleskyDecomp (← m 0)))
  | "qr" => do
    let A ← m 0
    pure (do let (Q, R) ← qrDecomp A; pure (showDM Q ++ "|" ++ showDM R))
  | "det_bareis" => do pure (sc (detBareiss (← m 0)))
  | "det" => do pure (sc (detBareiss (← m 0)))
  | "det_berkowitz" => do pure (sc (detBerkowitz (← m 0)))
  | "berkowitz" => do
    let A ← m 0
    pure (do
      let ps ← berkowitz A
      pure ("|".intercalate (ps.map (fun p => showDM { row := p.size, col := 1, m := p }))))
  | "char_poly" => do pure (mat (charPoly (← m 0)))
  | "inv_fflu" => do pure (mat (inverseFFLU (← m 0)))
  | "inv_lu" => do pure (mat (inverseLU (← m 0)))
  | "inv_plu" => do pure (mat (inversePivotedLU (← m 0)))
  | "inv" => do pure (mat (inversePivotedLU (← m 0)))
  | "inv_gj" => do pure (mat (inverseGaussJordan (← m 0)))
  | _ => none

def handle (line : String) : String :=
  match line.splitOn " " with
  | "dm" :: alg :: rest =>
    match parseArgs rest with
    | none => "bad-op"
    | some a =>
      match run alg a with
      | none => "bad-op"
      | some r => fin r
  | _ => "bad-op"

def main : IO Unit := drvMain handle
