import SymVerif.DrvCommon
import SymVerif.Model.GF
/-! Driver for C23: `gf <p> <op> <arg> [<arg> [<arg>]]`.
A polynomial argument is `c0,c1,…` (integers, lowest exponent first; `z` = no coefficients);
it goes through `from_vec` (reduction mod p, strip).  Output: coefficients joined by `,`
(`z` for the zero polynomial); several results joined by `|`; lists `tag:poly;tag:poly`
(`-` for the empty list). -/
open SymVerif SymVerif.GF

def parsePoly (s : String) : Option (List Int) :=
  if s == "z" then some [] else (s.splitOn ",").mapM (fun t => t.toInt?)

def showPoly (l : Poly) : String :=
  if l.isEmpty then "z" else ",".intercalate (l.map toString)

def showErr : Err → String
  | .divByZero => "E:DivByZero"
  | .fuel => "E:fuel"
  | .range => "E:range"
  | .oob => "E:oob"

def showE (r : Except Err Poly) : String :=
  match r with
  | .ok l => showPoly l
  | .error e => showErr e

def showTagged (l : List (Poly × Nat)) : String :=
  if l.isEmpty then "-" else ";".intercalate (l.map (fun x => s!"{x.2}:{showPoly x.1}"))

def showSet (l : List Poly) : String :=
  if l.isEmpty then "-" else ";".intercalate (l.map showPoly)

/-- `#ok` iff the proven-sound multiply-back certificate accepts (`checkMulBack_sound`) -/
def okFlag (b : Bool) : String := if b then "#ok" else "#bad"

/-- `#irr` iff every factor passes the proven-sound brute-force irreducibility certificate
    (`irreducibleBrute_sound`); `#irr?` when some factor would need more than 3000 trial divisions -/
def irrFlag (p : Nat) (fs : List Poly) : String :=
  if fs.all (fun g => bruteCost p g ≤ 3000) then
    (if fs.all (fun g => irreducibleBrute p g) then "#irr" else "#red")
  else "#irr?"

/-- the explicit random stream fed to the model's `gf_random` (any stream gives the same
    final factor sets; the C++ uses GMP's generator seeded from `std::rand()`) -/
def rndStream (k : Nat) : Nat :=
  let z := (k + 1) * 0x9E3779B97F4A7C15 % 2 ^ 64
  let z := (z ^^^ (z >>> 30)) * 0xBF58476D1CE4E5B9 % 2 ^ 64
  let z := (z ^^^ (z >>> 27)) * 0x94D049BB133111EB % 2 ^ 64
  (z ^^^ (z >>> 31)) >>> 11

def handle (line : String) : String :=
  match line.splitOn " " with
  | "gf" :: ps :: op :: args =>
    match ps.toNat?, args.mapM parsePoly with
    | some p, some vs =>
      let polys := vs.map (fromVec p)
      let nat (i : Nat) : Nat := ((vs.getD i []).getD 0 0).toNat
      let int (i : Nat) : Int := (vs.getD i []).getD 0 0
      let P (i : Nat) : Poly := polys.getD i []
      match op, args.length with
      | "fromvec", 1 => showPoly (P 0)
      | "add", 2 => showPoly (add p (P 0) (P 1))
      | "sub", 2 => showPoly (sub p (P 0) (P 1))
      | "mul", 2 => showPoly (mul p (P 0) (P 1))
      | "mula", 2 => showPoly (mulAssign p (P 0) (P 1))
      | "neg", 1 => showPoly (neg p (P 0))
      | "sqr", 1 => showPoly (sqr p (P 0))
      | "addc", 2 => showPoly (addConst p (P 0) (int 1))
      | "subc", 2 => showPoly (subConst p (P 0) (int 1))
      | "mulc", 2 => showPoly (scale p (P 0) (nat 1))
      | "pow", 2 => showPoly (pow p (P 0) (nat 1))
      | "divmod", 2 =>
        match opDivmod p (P 0) (P 1) with
        | .ok (q, r) => showPoly q ++ "|" ++ showPoly r
        | .error e => showErr e
      | "quo", 2 => showE (opQuo p (P 0) (P 1))
      | "rem", 2 => showE (opRem p (P 0) (P 1))
      | "gcd", 2 => showPoly (gcd p (P 0) (P 1))
      | "lcm", 2 => showE (opLcm p (P 0) (P 1))
      | "powmod", 3 => showE (opPowMod p (P 0) (P 1) (nat 2))
      | "compose", 3 => showE (opComposeMod p (P 0) (P 1) (P 2))
      | "diff", 1 => showPoly (diff p (P 0))
      | "monic", 1 => let r := monic p (P 0); s!"{r.1}|{showPoly r.2}"
      | "eval", 2 => toString (eval p (P 0) (int 1))
      | "issqf", 1 => if isSqf p (P 0) then "1" else "0"
      | "sqf_list", 1 =>
        match sqfList p (P 0) with
        | .ok l =>
          let ok := if degree (P 0) < 1 then l.isEmpty else checkMulBack p (monic p (P 0)).2 1 l
          showTagged l ++ okFlag ok
        | .error e => showErr e
      | "sqf_part", 1 => showE (sqfPart p (P 0))
      | "frobbase", 1 => showSet (frobBase p (P 0))
      | "ddfz", 1 =>
        match ddfZ p (P 0) with
        | .ok l => showTagged l
        | .error e => showErr e
      | "ddfs", 1 =>
        match ddfS p (P 0) with
        | .ok l => showTagged l
        | .error e => showErr e
      | "facz", 1 =>
        match zassenhaus p rndStream (P 0) with
        | .ok l => showSet l ++ okFlag (checkMulBack p (P 0) 1 (l.map (fun g => (g, 1)))) ++ irrFlag p l
        | .error e => showErr e
      | "facs", 1 =>
        match shoup p rndStream (P 0) with
        | .ok l => showSet l ++ okFlag (checkMulBack p (P 0) 1 (l.map (fun g => (g, 1)))) ++ irrFlag p l
        | .error e => showErr e
      | "factor", 1 =>
        match factor p rndStream (P 0) with
        | .ok (lc, l) => s!"{lc}|{showTagged l}" ++ okFlag (checkMulBack p (P 0) lc l) ++ irrFlag p (l.map (·.1))
        | .error e => showErr e
      | _, _ => "bad-op"
    | _, _ => "bad-op"
  | _ => "bad-op"

def main : IO Unit := drvMain handle
