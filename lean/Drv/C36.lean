import SymVerif.DrvCommon
import SymVerif.Model.Rewrite
/-! Driver for C36 (certificate mode).  Input line: `<op> <e><TAB><library output>` with
`op ∈ {nd, rexp, rsin, rcos, tsqrt, conj, ri, xexp}`; operands and results are canonical dumps. -/
open SymVerif SymVerif.Rewrite

def handle (line : String) : String :=
  match line.splitOn "\t" with
  | [opline, res] =>
    let opname := (opline.splitOn " ").headD ""
    let rest := (opline.drop (opname.length)).toString
    match Expr.parse rest with
    | none => "bad-operand"
    | some e =>
      if opname == "xexp" then
        (if res == "E:NotImplemented" then "ok" else "FAIL:expand_as_exp-is-implemented-now:" ++ res)
      else if res == "E:Assert" then "SKIP:assertion-in-the-library-reported-by-the-oracle"
      else if res.startsWith "E:" then
        (if opname == "ri" then "SKIP:exception-" ++ res else "FAIL:exception:" ++ res)
      else
      match Expr.parseMany res with
      | none => "FAIL:unparsable-result"
      | some rs =>
        match opname, rs with
        | "nd", [n, d] => judgeNumerDenom e n d
        | "rexp", [r] => judgeRewrite asExp e r
        | "rsin", [r] => judgeRewrite asSin e r
        | "rcos", [r] => judgeRewrite asCos e r
        | "tsqrt", [r] => judgeRewrite trigToSqrt e r
        | "conj", [r] => judgeRewrite conjE e r
        | "ri", [re, im] => judgeRealImag e re im
        | _, _ => "bad-op"
  | _ => "bad-line"

def main : IO Unit := drvMain handle
