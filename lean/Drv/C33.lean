import SymVerif.DrvCommon
import SymVerif.Model.Sieve
/-! Driver for C33: `hist <op>;<op>;…` — one whole call history per line.
ops: `g<limit>` generate_primes, `c` clear, `sc<0|1>` set_clear, `ss<kib>` set_sieve_size,
`sb<bits>` (hook-only: raw bit size), `in<slot>,<limit>` new iterator, `ix<slot>,<count>` next_prime×count,
`id<slot>` destroy iterator.  Output: per-call results joined by `|`, numbers by `,`. -/
open SymVerif SymVerif.Sieve

def parseOp (t : String) : Option Op :=
  let two (s : String) : Option (Nat × Nat) :=
    match s.splitOn "," with
    | [a, b] => do let x ← a.toNat?; let y ← b.toNat?; pure (x, y)
    | _ => none
  if t == "c" then some .clear
  else if t.startsWith "sc" then (t.drop 2).toString.toNat?.map (fun n => .setClear (n != 0))
  else if t.startsWith "ss" then (t.drop 2).toString.toNat?.map .setSize
  else if t.startsWith "sb" then (t.drop 2).toString.toNat?.map .setBits
  else if t.startsWith "in" then (two (t.drop 2).toString).map (fun p => .iterNew p.1 p.2)
  else if t.startsWith "ix" then (two (t.drop 2).toString).map (fun p => .iterNext p.1 p.2)
  else if t.startsWith "id" then (t.drop 2).toString.toNat?.map .iterDel
  else if t.startsWith "g" then (t.drop 1).toString.toNat?.map .gen
  else none

def showList (l : List Nat) : String :=
  if l.length > 30 then
    let sum := l.foldl (· + ·) 0
    let h := l.foldl (fun h x => (h * 31 + x) % 1000000007) 0
    s!"#{l.length}:{sum}:{h}"
  else ",".intercalate (l.map toString)

def showRes : Except Err (List Nat) → String
  | .ok l => showList l
  | .error .oob => "E:oob"
  | .error .range => "E:range"
  | .error .fuel => "E:fuel"

def handle (line : String) : String :=
  match line.splitOn " " with
  | ["hist", body] =>
    let toks := body.splitOn ";"
    match toks.mapM parseOp with
    | none => "bad-op"
    | some ops =>
      -- outside the fragment the theorems of Props/C33 speak about: flag it (the harness never generates it)
      if !opsOk ops then "inadmissible-op" else
      let (_, outs) := run World.init ops []
      "|".intercalate (outs.map showRes)
  | _ => "bad-op"

def main : IO Unit := drvMain handle
