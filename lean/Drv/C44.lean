import SymVerif.DrvCommon
import SymVerif.Model.Markup
/-! Driver for C44 (certificate mode: every input line is `op<TAB>output of the real library`; answer `ok`, `SKIP:…`
or a reason).
  `pr mathml <e>`   the real text must be readable as XML (`parseXml`); on the modelled fragment it must equal the
                    model's serialisation modulo the order of the summands (`canonPlus`); where the model predicts the
                    documented "not supported" exception the real printer must throw it (`E:Runtime`), and vice versa
  `pr latex <e>`    the real text must pass the group matcher `texBalanced` (proved to accept every serialised TexTree)
  `pr unicode <e>`  all lines of the box have the same number of code points
  `pr julia|sbml`   oracle only
  `pw <printer> <seed>`  a Piecewise rebuilt by the harness from the seed: the same checks on the real text (no model)
  `cat <k>`         catalogue item (classes the wire format cannot carry): the status line must have its five fields -/
open SymVerif SymVerif.Expr SymVerif.Markup

/-- undo `encode_lines` of the harness: `\n` → newline, `\\` → backslash, `\t` → tab -/
def decodeLines : List Char → List Char
  | '\\' :: 'n' :: r => '\n' :: decodeLines r
  | '\\' :: '\\' :: r => '\\' :: decodeLines r
  | '\\' :: 't' :: r => '\t' :: decodeLines r
  | c :: r => c :: decodeLines r
  | [] => []

def mathmlOp (sx out : String) : String :=
  match Expr.parse sx with
  | none => "bad-op"
  | some e =>
    let e' := norm e
    let threw := out.startsWith "E:"
    match mathmlTree e' with
    | .throws => if out == "E:Runtime" then "ok" else "DIFF:model throws 'not supported', real printer gave " ++ out
    | .skip =>
      if threw then "SKIP:unmodelled"
      else match parseXml out with
        | some _ => "SKIP:unmodelled"
        | none => "FAIL:xml-unreadable"
    | .ok t =>
      if threw then "DIFF:model prints, real printer threw " ++ out
      else match parseXml out with
        | none => "FAIL:xml-unreadable model=" ++ serStr t
        | some t' =>
          if serStr (canonPlus t') == serStr (canonPlus t) then "ok"
          else "DIFF:model=" ++ serStr t

def handle (line : String) : String :=
  match line.splitOn "\t" with
  | [op, out] =>
    if op.startsWith "cat " then
      if (out.splitOn "|").length == 6 then "ok" else "DIFF:status line malformed"
    else if op.startsWith "pr mathml " then
      mathmlOp (op.drop 10).toString (if out.startsWith "E:" then out else String.ofList (decodeLines out.toList))
    else if op.startsWith "pr latex " then
      if out.startsWith "E:" then "SKIP:throws"
      else if texBalanced (String.ofList (decodeLines out.toList)) then "ok" else "FAIL:latex-groups"
    else if op.startsWith "pr unicode " then
      if out.startsWith "E:" then "SKIP:throws"
      else if sameWidth ((String.ofList (decodeLines out.toList)).splitOn "\n") then "ok" else "FAIL:unicode-width"
    else if op.startsWith "pw latex " then
      if out.startsWith "E:" then "SKIP:throws"
      else if texBalanced (String.ofList (decodeLines out.toList)) then "ok" else "FAIL:latex-groups"
    else if op.startsWith "pw unicode " then
      if out.startsWith "E:" then "SKIP:throws"
      else if sameWidth ((String.ofList (decodeLines out.toList)).splitOn "\n") then "ok" else "FAIL:unicode-width"
    else if op.startsWith "pw mathml " then
      if out.startsWith "E:" then "SKIP:throws"
      else match parseXml (String.ofList (decodeLines out.toList)) with
        | some _ => "SKIP:unmodelled"
        | none => "FAIL:xml-unreadable"
    else if op.startsWith "pr julia " || op.startsWith "pr sbml " || op.startsWith "pw julia " || op.startsWith "pw sbml " then
      "SKIP:oracle-only"
    else "bad-op"
  | _ => "bad-op"

def main : IO Unit := drvMain handle
