import SymVerif.DrvCommon
import SymVerif.Model.LDE
/-! Driver for C46: `lde <p> <q> a11 a12 … apq` (row major).
Output: the returned basis sorted lexicographically, vectors joined by `;`, components by `,`;
`none` for an empty basis; `E:oob`, `E:Assert`, `E:fuel`. -/
open SymVerif SymVerif.LDE

def lexLe : List Int → List Int → Bool
  | [], _ => true
  | _ :: _, [] => false
  | a :: as, b :: bs => if a < b then true else if a > b then false else lexLe as bs

def chunk (q : Nat) : Nat → List Int → List (List Int)
  | 0, _ => []
  | p + 1, l => l.take q :: chunk q p (l.drop q)

def fuelMax : Nat := 5000000

def handle (line : String) : String :=
  match line.splitOn " " with
  | "lde" :: ps :: qs :: rest =>
    match ps.toNat?, qs.toNat?, rest.mapM String.toInt? with
    | some p, some q, some ents =>
      if ents.length != p * q then "bad-op" else
      match homogeneousLde (chunk q p ents) p q fuelMax with
      | .ok basis =>
        if basis.isEmpty then "none" else
        ";".intercalate ((basis.mergeSort (fun a b => lexLe a b)).map
          (fun v => ",".intercalate (v.map toString)))
      | .error .oob => "E:oob"
      | .error .assert => "E:Assert"
      | .error .fuel => "E:fuel"
    | _, _, _ => "bad-op"
  | _ => "bad-op"

def main : IO Unit := drvMain handle
