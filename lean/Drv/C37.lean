import SymVerif.DrvCommon
import SymVerif.Model.CSE
/-! Driver for C37 (certificate mode).  Input line: `cse e1 e2 …<TAB>(s x0) rhs0 … | red1 red2 …`
(canonical S-expression dumps).  Output: `ok` iff the proven checker `CSE.check` accepts. -/
open SymVerif SymVerif.CSE

def handle (line : String) : String :=
  match line.splitOn "\t" with
  | [opline, cert] =>
    if !opline.startsWith "cse " then "bad-op" else
    match Expr.parseMany (opline.drop 4).toString with
    | none => "bad-operands"
    | some inputs =>
      if cert == "E:Assert" then "SKIP:assertion-in-the-library-reported-by-the-oracle"
      else if cert.startsWith "E:" then "FAIL:exception:" ++ cert else judge inputs cert
  | _ => "bad-line"

def main : IO Unit := drvMain handle
