import SymVerif.DrvCommon
import SymVerif.Model.NTheory
import SymVerif.Model.NTheorySpec
/-! Driver for C32.
* `nt <fn> <args…>`      one call of the model of `<fn>`.
* `sw <fn> <rest…> <lo> <hi>`   the calls `nt <fn> x <rest…>` for `x = lo..hi`, joined by `|`.
* `spec <fn> <args…>` / `swspec …`  the same call evaluated by the brute-force *definition*
  (`Model/NTheorySpec.lean`), small arguments only.
Output: integers in decimal; flags `1`/`0`; optional results `1 v` / `0`; lists joined by `,`
(empty list `-`); rationals `num/den`; exceptions `E:Runtime`, `E:Domain`. -/
open SymVerif SymVerif.NTheory

def showList (l : List Int) : String := if l.isEmpty then "-" else ",".intercalate (l.map toString)
def showNatList (l : List Nat) : String := showList (l.map Int.ofNat)
def showBool (b : Bool) : String := if b then "1" else "0"
def showOpt : Option Int → String
  | some v => s!"1 {v}"
  | none => "0"
def showQ (q : Q) : String := s!"{q.num}/{q.den}"
def showErr : Err → String
  | .runtime => "E:Runtime"
  | .domain => "E:Domain"
  | .fpe => "E:SIGFPE"
  | .range => "SKIP:range"
  | .fuel => "E:fuel"
def showM {α} (f : α → String) : M α → String
  | .ok v => f v
  | .error e => showErr e

def parseInts (l : List String) : Option (List Int) := l.mapM (fun s => s.toInt?)
def parseIntList (s : String) : Option (List Int) := if s == "-" then some [] else parseInts (s.splitOn ",")

def natOf (i : Int) : Option Nat := if i < 0 then none else some i.toNat

def ntCall (fn : String) (args : List String) : String :=
  if fn == "crt" then
    match args with
    | [r, m] =>
      match parseIntList r, parseIntList m with
      | some r, some m => showM showOpt (crt r m)
      | _, _ => "bad-op"
    | _ => "bad-op"
  else
  match parseInts args with
  | none => "bad-op"
  | some xs =>
    match fn, xs with
    | "gcd", [a, b] => toString (gcd a b)
    | "lcm", [a, b] => toString (lcm a b)
    | "gcd_ext", [a, b] => let r := gcdExt a b; s!"{r.1} {r.2.1} {r.2.2}"
    | "mod_inverse", [a, m] => if m == 0 then "SKIP:range" else showOpt (modInverse a m)
    | "mod", [n, d] => if d == 0 then "E:SIGFPE" else toString (mod n d)
    | "quotient", [n, d] => if d == 0 then "E:SIGFPE" else toString (quotient n d)
    | "quotient_mod", [n, d] => if d == 0 then "E:SIGFPE" else let r := quotientMod n d; s!"{r.1} {r.2}"
    | "mod_f", [n, d] => if d == 0 then "E:SIGFPE" else toString (modF n d)
    | "quotient_f", [n, d] => if d == 0 then "E:SIGFPE" else toString (quotientF n d)
    | "quotient_mod_f", [n, d] => if d == 0 then "E:SIGFPE" else let r := quotientModF n d; s!"{r.1} {r.2}"
    | "fibonacci", [n] => toString (fibonacci n.toNat)
    | "fibonacci2", [n] => let r := fibonacci2 n.toNat; s!"{r.1} {r.2}"
    | "lucas", [n] => toString (lucas n.toNat)
    | "lucas2", [n] => let r := lucas2 n.toNat; s!"{r.1} {r.2}"
    | "binomial", [n, k] => toString (binomial n k.toNat)
    | "factorial", [n] => toString (factorial n.toNat)
    | "divides", [a, b] => showBool (divides a b)
    | "probab_prime_p", [a] => showBool (isPrime a.natAbs)   -- GMP tests |a|
    | "nextprime", [a] => showM toString (nextprime a)
    | "factor", [n] => if n < 0 then "SKIP:range" else showM (fun (r : Nat × Nat) => s!"{r.1} {r.2}") (factor n.toNat)
    | "factor_trial_division", [n] =>
      if n < 0 then "SKIP:range" else showM (fun (r : Option Nat) => showOpt (r.map Int.ofNat)) (factorTrialDivision n.toNat)
    | "factor_lehman", [n] => showM (fun (r : Option Nat) => showOpt (r.map Int.ofNat)) (factorLehman n)
    | "factor_pm1", [n, b, _] => if n < 4 || b < 3 then "E:Runtime" else "ok"
    | "factor_rho", [n, _] => if n < 5 then "E:Runtime" else "ok"
    | "prime_factors", [n] => showM showNatList (primeFactors n)
    | "pfm", [n] =>
      showM (fun (l : List (Nat × Nat)) => if l.isEmpty then "-" else ",".intercalate (l.map (fun pe => s!"{pe.1}^{pe.2}")))
        (primeFactorMultiplicities n)
    | "bernoulli", [n] => showQ (bernoulli n.toNat)
    | "harmonic", [n, m] => showQ (harmonic n.toNat m)
    | "primitive_root", [n] => showM (fun (r : Option Nat) => showOpt (r.map Int.ofNat)) (primitiveRoot n)
    | "primitive_root_list", [n] => showM showNatList (primitiveRootList n)
    | "totient", [n] => showM toString (totient n)
    | "carmichael", [n] => showM toString (carmichael n)
    | "multiplicative_order", [a, n] =>
      if n == 0 then "SKIP:range" else showM (fun (r : Option Nat) => showOpt (r.map Int.ofNat)) (multiplicativeOrder a n)
    | "legendre", [a, n] => toString (kronecker a n)
    | "jacobi", [a, n] => toString (kronecker a n)
    | "kronecker", [a, n] => toString (kronecker a n)
    | "nthroot_mod", [a, n, m] => showM showOpt (nthrootMod a n m)
    | "nthroot_mod_flag", [a, n, m] => showM (fun (r : Option Int) => showBool r.isSome) (nthrootMod a n m)
    | "nthroot_mod_list", [a, n, m] => showM showList (nthrootModList a n m)
    | "powermod", [a, num, den, m] => if m == 0 then "SKIP:range" else showM showOpt (powermod a num den m)
    | "powermod_flag", [a, num, den, m] =>
      if m == 0 then "SKIP:range" else showM (fun (r : Option Int) => showBool r.isSome) (powermod a num den m)
    | "powermod_list", [a, num, den, m] => if m == 0 then "SKIP:range" else showM showList (powermodList a num den m)
    | "quadratic_residues", [a] => showM showList (quadraticResidues a)
    | "is_quad_residue", [a, p] => showM showBool (isQuadResidue a p)
    | "is_nth_residue", [a, n, m] => showM showBool (isNthResidue a n m)
    | "mobius", [a] => showM toString (mobius a)
    | "mertens", [a] => showM toString (mertens a.toNat)
    | "polygonal_number", [s, n] => showM toString (polygonalNumber s n)
    | "principal_polygonal_root", [s, x] => showM toString (principalPolygonalRoot s x)
    | "perfect_power_decomposition", [n, lo] =>
      if n < 0 then "SKIP:range" else let r := perfectPowerDecomposition n.toNat (lo != 0); s!"{r.1} {r.2}"
    | "perfect_power_p", [n] => if n < 0 then "SKIP:range" else showBool (perfectPowerP n.toNat)
    | "primepi", [n] => toString (primepi n)
    | "primorial", [n] => showM toString (primorial n)
    | _, _ => "bad-op"

namespace Spec
open SymVerif.NTheorySpec

/-- the same ops answered by the brute-force definitions (small arguments; `m > 0`, `n ≥ 1`) -/
def call (fn : String) (args : List String) : String :=
  match parseInts args with
  | none => "bad-op"
  | some xs =>
    match fn, xs with
    | "nthroot_mod_list", [a, n, m] =>
      if m ≤ 0 || n ≤ 0 then "SKIP:range" else showNatList (nthRoots a n.toNat m.toNat)
    | "nthroot_mod_flag", [a, n, m] =>
      if m ≤ 0 || n ≤ 0 then "SKIP:range" else showBool (NTheorySpec.isNthResidue a n.toNat m.toNat)
    | "is_nth_residue", [a, n, m] =>
      if m == 0 || n ≤ 0 then "SKIP:range" else showBool (NTheorySpec.isNthResidue a n.toNat m.natAbs)
    | "is_quad_residue", [a, p] =>
      if p == 0 then "E:Runtime" else showBool (NTheorySpec.isNthResidue a 2 p.natAbs)
    | "powermod_list", [a, num, den, m] =>
      -- `{x | x^den ≡ a^num}` for `num ≥ 0`, `den ≥ 1`, `gcd = 1`, `m > 0`
      if m ≤ 0 || den ≤ 0 || num < 0 || Int.gcd num den != 1 then "SKIP:range"
      else showNatList (nthRoots (pw a num.toNat m.toNat) den.toNat m.toNat)
    | "totient", [n] => toString (NTheorySpec.totient n.natAbs)
    | "carmichael", [n] => toString (NTheorySpec.carmichael n.natAbs)
    | "multiplicative_order", [a, n] =>
      if n == 0 then "SKIP:range" else showOpt ((order a n.natAbs).map Int.ofNat)
    | "primitive_root_list", [n] => showNatList (primitiveRoots n.natAbs)
    | "pfm", [n] =>
      if n == 0 then "-" else
      let l := factorization n.natAbs
      if l.isEmpty then "-" else ",".intercalate (l.map (fun pe => s!"{pe.1}^{pe.2}"))
    | "mobius", [a] => if a ≤ 0 then "E:Runtime" else toString (NTheorySpec.mobius a.toNat)
    | "mertens", [a] => toString (NTheorySpec.mertens a.toNat)
    | "quadratic_residues", [a] => if a < 1 then "E:Runtime" else showNatList (NTheorySpec.quadraticResidues a.toNat)
    | "kronecker", [a, n] => toString (NTheorySpec.kronecker a n)
    | "jacobi", [a, n] => toString (NTheorySpec.kronecker a n)
    | "legendre", [a, n] => toString (NTheorySpec.kronecker a n)
    | "mod_inverse", [a, m] => if m == 0 then "SKIP:range" else showOpt ((NTheorySpec.modInverse a m.natAbs).map Int.ofNat)
    | "probab_prime_p", [a] => showBool (NTheorySpec.isPrime a.natAbs)
    | "nextprime", [a] => toString (NTheorySpec.nextprime a)
    | "primepi", [n] => toString (if n < 0 then 0 else NTheorySpec.primepi n.toNat)
    | "primorial", [n] => if n ≤ 0 then "E:Runtime" else toString (NTheorySpec.primorial n.toNat)
    | "perfect_power_decomposition", [n, lo] =>
      if n < 0 then "SKIP:range" else let r := perfectPower n.toNat (lo != 0); s!"{r.1} {r.2}"
    | _, _ => "bad-op"
end Spec

def sweep (f : String → List String → String) (fn : String) (rest : List String) : String :=
  match rest.reverse with
  | hi :: lo :: mid =>
    match lo.toInt?, hi.toInt? with
    | some lo, some hi =>
      let mid := mid.reverse
      let n := (hi - lo + 1).toNat
      "|".intercalate ((List.range n).map (fun (i : Nat) => f fn (toString (lo + (i : Int)) :: mid)))
    | _, _ => "bad-op"
  | _ => "bad-op"

def handle (line : String) : String :=
  match line.splitOn " " with
  | "nt" :: fn :: args => ntCall fn args
  | "sw" :: fn :: rest => sweep ntCall fn rest
  | "spec" :: fn :: args => Spec.call fn args
  | "swspec" :: fn :: rest => sweep Spec.call fn rest
  | _ => "bad-op"

def main : IO Unit := drvMain handle
