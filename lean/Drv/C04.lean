import SymVerif.DrvCommon
import SymVerif.Model.AC
/-! Driver for C04 (results ignore operand order and grouping).

Op line:  `perm <kind> A1 … An`, kind = add | mul | max | min | and | or; operands are canonical dumps.
Output:   `<c> <dump>` — the dump of the left fold of the binary constructor over the listed order and
  c = `U`  the operands are outside `addOperandSafe` / `mulOperandSafe` (order-dependence is a known
           defect of the library there; the verdict is left to the harness oracle),
  c = `1`  the combinations evaluated on the model (left fold, right fold, left fold of the reversed
           list, n-ary constructor on the list and on its reverse; for `mul` both dictionary iteration
           orders) all agree,
  c = `0`  they do not.
`SKIP:order-dependent` when the model's two dictionary iteration orders disagree on the left fold
(no claim about the library's hash order); `SKIP` for and/or (model and correspondence: C28). -/
open SymVerif SymVerif.Arith SymVerif.AC

def showErr : Err → String
  | .badCast => "E:badcast"
  | .assert => "E:Assert"
  | .fuel => "E:fuel"
  | .unsupported => "E:unsupported"
  | .runtime => "E:Runtime"
  | .notImpl => "E:NotImplemented"
  | .range => "E:range"

def showRes (dumpF : Expr → String) : R Expr → String
  | .ok r => if !canon r then "E:Assert" else dumpF r
  | .error e => showErr e

def handle (line : String) : String :=
  let line := line.trimAscii.toString
  match line.splitOn " " with
  | "perm" :: kind :: rest =>
    if kind == "and" || kind == "or" then "SKIP" else
    match Expr.parseMany (" ".intercalate rest) with
    | none => "bad-op"
    | some args =>
      if args.length < 2 then "bad-op" else
      let args := args.map (fun a => normMM (normOrder a))
      let verdict (safe : Bool) (first : String) (others : List String) : String :=
        (if !safe then "U" else if others.all (· == first) then "1" else "0") ++ " " ++ first
      match kind with
      | "add" =>
        if !(args.all inv) then "NOT-INV:operand" else
        -- the hypothesis of the Add theorems of Props/C04 must hold on every operand of the safe class
        if args.all addOperandSafe && !(args.all addOperandOK) then "NOT-OK:add-operand" else
        let sh := showRes Expr.dumpCanon
        let first := sh (foldlM1 addE args)
        verdict (args.all addOperandSafe) first
          [sh (foldrM1 addE args), sh (foldlM1 addE args.reverse), sh (addN args), sh (addN args.reverse)]
      | "mul" =>
        if !(args.all inv) then "NOT-INV:operand" else
        -- the hypothesis of the Mul theorems must hold on every operand of the numeric-exponent fragment
        if args.all mulFragSyntactic && !(args.all mulOperandOK) then "NOT-OK:mul-operand" else
        if args.all mulFragSyntacticS && !(args.all mulOperandOKS) then "NOT-OK:mul-operand-sym" else
        let sh := showRes Expr.dumpCanon
        let first := sh (foldlM1 (mulEO false) args)
        let first' := sh (foldlM1 (mulEO true) args)
        if first != first' then "SKIP:order-dependent " ++ first ++ " | " ++ first' else
        verdict (args.all mulOperandSafe) first
          [sh (foldrM1 (mulEO false) args), sh (foldlM1 (mulEO false) args.reverse),
           sh (mulNO false args), sh (mulNO false args.reverse),
           sh (foldrM1 (mulEO true) args), sh (mulNO true args)]
      | "max" | "min" =>
        let isMax := kind == "max"
        if !(args.all exact) then "E:unsupported" else
        -- hypothesis of maxMinE_perm (Gaussian operands make max/min throw and are outside it)
        if !(args.any isComplex) && !(args.all (mmCanonOperand isMax)) then "NOT-OK:maxmin-operand" else
        let sh := showRes dumpMM
        let op2 (a b : Expr) : R Expr := maxMinE isMax [a, b]
        let first := sh (foldlM1 op2 args)
        verdict true first
          [sh (foldrM1 op2 args), sh (foldlM1 op2 args.reverse), sh (maxMinE isMax args),
           sh (maxMinE isMax args.reverse)]
      | _ => "bad-op"
  | _ => "bad-op"

def main : IO Unit := drvMain handle
