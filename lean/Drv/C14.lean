import SymVerif.DrvCommon
import SymVerif.Model.EvalDrv
import SymVerif.Model.LLVMInit
import SymVerif.Gen.LLVMFormulas
/-! Driver for C14 (certificate mode): input `op<TAB>impl-output`.
op:    `cg <pre> <levels> <inputs> | <dump> , <dump> … @ <hex,…> ; <hex,…> …`
impl:  `st=…;st1=…;ir0=…;ir1=…;o=…;r=…;d=…;v=…;tol=…;sp=…;rw=…` (see harness/c14.cpp)

The driver replays `LLVMD.initV` (model of LLVMVisitor::init over the table translated from
llvm_double.cpp) on the tree the visitor visited (`o`, checked to be the op's tree up to dictionary
order unless RewriteTrigVisitor / Sign expansions are involved), for cse off and on, and requires
  * the same init status (ok / E:NotImplemented / E:Runtime …),
  * **exactly the same instruction sequence** as the real module's IR at optimisation level 0
    (`ir0`, `ir1`; constants compared by bit pattern),
  * the values of `run` on the first input vector within the condition-scaled tolerance `tol`. -/
open SymVerif SymVerif.EvalG SymVerif.LLVMD

def cfgOf (spec : SpecTable) : Cfg Float :=
  { L := floatL spec, defs := LLVMD.Gen.llvmDefs, consts := EvalG.Gen.visitorReal,
    inputsFirst := LLVMD.Gen.symbolInputsFirst, clearsState := LLVMD.Gen.initClearsState }

def trimS (s : String) : String := (s.trimAscii).toString

def parseDumps (s : String) : Option (List Expr) :=
  if (trimS s).isEmpty then some [] else (s.splitOn ",").mapM (fun d => Expr.parse (trimS d))

def parseRepl (s : String) : Option (List (String × Expr)) :=
  if (trimS s).isEmpty then some [] else
  (s.splitOn ",").mapM fun ent =>
    match ent.splitOn "=" with
    | [n, d] => (Expr.parse (trimS d)).map (fun e => (trimS n, e))
    | _ => none

def statusOf : Except Err (Compiled Float) → String
  | .ok _ => "ok"
  | .error e => e.token

/-- the state a `pre` op starts from: the harness' failing init (k inputs a0…, one output with an unbound symbol) -/
def preState (cfg : Cfg Float) (k : Nat) : VState :=
  if k == 0 then {} else
    let ins := (List.range k).map fun i => s!"a{i}"
    (initV cfg {} ins [.add (.int 0) [(.sym "a0", .int 1), (.sym "unbound_symbol", .int 1)]] none).1

def checkVals (P : Compiled Float) (spec : SpecTable) (xs : List Float) (vS tolS : String) : String :=
  let outs := run (floatL spec) P xs
  let vs := if vS.isEmpty then [] else vS.splitOn ","
  let tols := if tolS.isEmpty then [] else tolS.splitOn ","
  if outs.length != vs.length then s!"output count model={outs.length} impl={vs.length}" else
  let bad := ((outs.zip vs).zip tols).filterMap fun p =>
    let tol := p.2.toNat?.getD 0
    match p.1.1 with
    | .error .noOracle => none
    | m => if tol == 0 then none
           else if agree (max tol 4) m p.1.2 then none else some s!"value model={showRes m} impl={p.1.2} tol={tol}"
  match bad with
  | [] => "ok"
  | b :: _ => b

def handle (line : String) : String :=
  match line.splitOn "\t" with
  | [op, impl] =>
    if !(op.startsWith "cg ") then "bad-op" else
    match ((op.drop 3).toString).splitOn "|" with
    | [head, rest] =>
      match (trimS head).splitOn " ", rest.splitOn "@" with
      | [preS, _lv, insS], [outsS, callsS] =>
        let fs := parseFields impl
        let ins := if insS == "-" then [] else insS.splitOn ","
        match parseDumps outsS, (field fs "o").bind parseDumps, (field fs "r").bind parseRepl, (field fs "d").bind parseDumps,
              (field fs "sp").bind parseSpec, preS.toNat? with
        | some oc, some oo, some rp, some rd, some spec, some pre =>
          let rw := field fs "rw" == some "1"
          if !rw && oc.map Expr.dumpCanon != oo.map Expr.dumpCanon then "visited outputs are different trees" else
          if oc.length != oo.length then "visited output count" else
          let cfg := cfgOf spec
          let S := preState cfg pre
          let r0 := (initV cfg S ins oo none).2
          let r1 := (initV cfg S ins oo (some (rp, rd))).2
          let st := (field fs "st").getD "?"
          let st1 := (field fs "st1").getD "?"
          if statusOf r0 != st then s!"init status model={statusOf r0} impl={st}"
          else if statusOf r1 != st1 then s!"init status (cse) model={statusOf r1} impl={st1}"
          else
            let irCheck (r : Except Err (Compiled Float)) (k : String) : Option String :=
              match r with
              | .error _ => none
              | .ok P =>
                let m := showProg P
                let i := (field fs k).getD "?"
                if m == i then none else some s!"{k} model={m} impl={i}"
            match irCheck r0 "ir0", irCheck r1 "ir1" with
            | some d, _ => d
            | _, some d => d
            | none, none =>
              match r0 with
              | .error _ => "ok"
              | .ok P =>
                let call0 := trimS ((callsS.splitOn ";").headD "")
                let xs := if call0 == "-" then some [] else (call0.splitOn ",").mapM (fun h => (Expr.parseHex64 (trimS h)).map Float.ofBits)
                match xs with
                | none => "bad call inputs"
                | some xs => checkVals P spec xs ((field fs "v").getD "") ((field fs "tol").getD "")
        | _, _, _, _, _, _ => "bad-impl-output"
      | _, _ => "bad-op-head"
    | _ => "bad-op"
  | _ => "bad-line"

def main : IO Unit := drvMain handle
