import SymVerif.DrvCommon
import SymVerif.Model.UPoly
/-! Driver for C21.  One op per line:
`<kind> <op> <poly> [<poly>|<n>]` with kind `uint` | `urat` | `uexpr`, op
`add sub mul neg pow divides eval diff coeff degree lc rt rtmul rtpow`.
Polynomials are `d:c,d:c,…` (ascending degrees, `c` an integer or `n/d`), the zero polynomial is `0`.
Output: a polynomial in the same syntax, a number, `T <poly>` / `F` for `divides`. -/
open SymVerif SymVerif.UPoly

def parseRat (s : String) : Option Rat :=
  match s.splitOn "/" with
  | [a] => a.toInt?.map (fun n => (n : Rat))
  | [a, b] => do
    let n ← a.toInt?
    let d ← b.toNat?
    if d = 0 then none else some (mkRat n d)
  | _ => none

def showRat (q : Rat) : String :=
  if q.den = 1 then toString q.num else s!"{q.num}/{q.den}"

/-- `std::map<unsigned, Cf> m; m[d] = c; …` (the kind's `from_dict` is applied afterwards) -/
def parseTerms {R : Type} (pc : String → Option R) (s : String) : Option (Dict R) :=
  if s == "0" then some [] else do
    let terms ← (s.splitOn ",").mapM (fun t =>
      match t.splitOn ":" with
      | [d, c] => do
        let d ← d.toNat?
        let c ← pc c
        pure (d, c)
      | _ => none)
    pure (terms.foldl (fun m p => setKey m p.1 p.2) [])

def showPoly {R : Type} (sc : R → String) (d : Dict R) : String :=
  if d.isEmpty then "0" else ",".intercalate (d.map (fun p => s!"{p.1}:{sc p.2}"))

def showErr : Err → String
  | .oob => "E:oob"
  | .hang => "E:hang"
  | .wrap => "E:wrap"

def showE {α : Type} (f : α → String) : Except Err α → String
  | .ok v => f v
  | .error e => showErr e

structure Kind (R : Type) where
  pc : String → Option R
  sc : R → String
  ops : Ops R

def runOp {R : Type} (K : Kind R) (op : String) (args : List String) : String :=
  let sp := showPoly K.sc
  let pp := fun (s : String) => (parseTerms K.pc s).map K.ops.fromDictU
  match op, args with
  | "add", [a, b] =>
    match pp a, pp b with
    | some a, some b => sp (K.ops.addU a b)
    | _, _ => "bad-op"
  | "sub", [a, b] =>
    match pp a, pp b with
    | some a, some b => sp (K.ops.subU a b)
    | _, _ => "bad-op"
  | "rtmul", [a, b] =>
    match pp a, pp b with
    | some a, some b => showE sp (K.ops.mulU a b)
    | _, _ => "bad-op"
  | "rtpow", [a, n] =>
    match pp a, n.toNat? with
    | some a, some n => showE sp (K.ops.powU a n)
    | _, _ => "bad-op"
  | "mul", [a, b] =>
    match pp a, pp b with
    | some a, some b => showE sp (K.ops.mulU a b)
    | _, _ => "bad-op"
  | "neg", [a] =>
    match pp a with
    | some a => sp (K.ops.negU a)
    | _ => "bad-op"
  | "rt", [a] =>
    match pp a with
    | some a => sp a
    | _ => "bad-op"
  | "pow", [a, n] =>
    match pp a, n.toNat? with
    | some a, some n => showE sp (K.ops.powU a n)
    | _, _ => "bad-op"
  | "divides", [a, b] =>
    match K.ops.dividesU, pp a, pp b with
    | some dv, some a, some b =>
      showE (fun r => match r with
        | none => "F"
        | some q => "T " ++ sp q) (dv a b)
    | _, _, _ => "bad-op"
  | "eval", [a, x] =>
    match pp a, K.pc x with
    | some a, some x => showE K.sc (K.ops.evalU a x)
    | _, _ => "bad-op"
  | "diff", [a] =>
    match pp a with
    | some a => sp (K.ops.diffU a)
    | _ => "bad-op"
  | "coeff", [a, n] =>
    match pp a, n.toNat? with
    | some a, some n => K.sc (K.ops.coeffU a n)
    | _, _ => "bad-op"
  | "degree", [a] =>
    match pp a with
    | some a => toString (K.ops.degreeU a)
    | _ => "bad-op"
  | "lc", [a] =>
    match pp a with
    | some a => K.sc (K.ops.lcU a)
    | _ => "bad-op"
  | _, _ => "bad-op"

def kInt : Kind Int := { pc := fun s => s.toInt?, sc := toString, ops := UInt.ops }
def kRat : Kind Rat := { pc := parseRat, sc := showRat, ops := URat.ops }
def kExpr : Kind Int := { pc := fun s => s.toInt?, sc := toString, ops := UExpr.ops }

def handle (line : String) : String :=
  match line.splitOn " " with
  | "uint" :: op :: args => runOp kInt op args
  | "urat" :: op :: args => runOp kRat op args
  | "uexpr" :: op :: args => runOp kExpr op args
  | _ => "bad-op"

def main : IO Unit := drvMain handle
