import SymVerif.DrvCommon
import SymVerif.Model.Subs
/-! Driver for C11 (certificate mode).  Input line: `<mode> <cache> <e> <k1> <v1> …\t<result>`, mode = subs | xreplace |
msubs | ssubs, operands and the library's result as canonical S-expression dumps.  Output: `ok` iff the proven checker
accepts (`NF.equiv result (subsE σ e)`), `SKIP:<why>` outside the checker's fragment, `FAIL:<why>` when the result is
certainly wrong (symbol keys, pure rational-function inputs). -/
open SymVerif SymVerif.Subs

def pairUp : List Expr → Option Sigma
  | [] => some []
  | k :: v :: t => (pairUp t).map fun s => (k, v) :: s
  | [_] => none

def handle (line : String) : String :=
  match line.splitOn "\t" with
  | [opline, res] =>
    match opline.splitOn " " with
    | mode :: c :: _ =>
      if !(mode == "subs" || mode == "xreplace" || mode == "msubs" || mode == "ssubs") then "SKIP:oracle-only-" ++ mode else
      if res.startsWith "E:" || res.startsWith "CRASH" || res.startsWith "HANG" || res == "SKIPPED" then
        "SKIP:impl-" ++ res
      else
      let rest := (opline.drop ((mode ++ " " ++ c ++ " ").length)).toString
      match Expr.parseMany rest, Expr.parse res with
      | some (e :: kv), some r =>
        match pairUp kv with
        | some σ => (judge (mode == "subs") (c == "1") σ e r).toString
        | none => "bad-pairs"
      | none, _ => "bad-operand"
      | some [], _ => "bad-operand"
      | _, none => "FAIL:unparsable-result:" ++ res
    | _ => "bad-line"
  | _ => "bad-line"

def main : IO Unit := drvMain handle
