import SymVerif.DrvCommon
import SymVerif.Model.Diff
/-! Driver for C10 (certificate mode).  Input line: `diff <cache> <x> <e>\t<result>` with `e` and the library's
result as canonical S-expression dumps.  Output: `ok` iff the proven checker accepts (`NF.equiv result (diffE x e)`),
`SKIP:<why>` outside the checker's fragment, `FAIL:<why>` when the result is certainly wrong. -/
open SymVerif SymVerif.Diff

def handle (line : String) : String :=
  match line.splitOn "\t" with
  | [opline, res] =>
    match opline.splitOn " " with
    | "diff" :: c :: x :: _ =>
      if res.startsWith "E:" || res.startsWith "CRASH" || res.startsWith "HANG" || res == "SKIPPED" then
        "SKIP:impl-" ++ res
      else
      let rest := (opline.drop (("diff " ++ c ++ " " ++ x ++ " ").length)).toString
      match Expr.parse rest, Expr.parse res with
      | some e, some r => (judge (c == "1") x e r).toString
      | none, _ => "bad-operand"
      | _, none => "FAIL:unparsable-result:" ++ res
    | "upoly" :: _kind :: var :: x :: cs =>
      match cs.mapM Expr.parseRat with
      | some l =>
        let want := showDense (upolyDiff (var == x) l)
        if res == want then "ok" else "FAIL:poly-derivative:model " ++ want
      | none => "bad-operand"
    | "mpoly" :: x :: ts =>
      match parseMTerms ts with
      | some l =>
        let want := showMPoly (mpolyDiff x l)
        if res == want then "ok" else "FAIL:poly-derivative:model " ++ want
      | none => "bad-operand"
    | op :: _ => "SKIP:oracle-only-" ++ op
    | [] => "bad-line"
  | _ => "bad-line"

def main : IO Unit := drvMain handle
