import SymVerif.DrvCommon
import SymVerif.Model.Series
/-! Driver for C31.  Op line: `series <sexp of the expression> <prec>` (series variable is always `x`).
Output: the complete coefficient dictionary of the returned polynomial, `deg:coef` joined by `,`
(ascending degree, exact rationals `n` or `n/d`, `0` for the empty dictionary), or `E:<exception>`
(DivByZero, Domain, NotImplemented), or `SKIP:<reason>` when the input leaves the modelled fragment
(laurent, notRational, unsupported, oob).
Op line `cov <sexp>`: `1` if the expression lies in the fragment of theorem `series_sound`, else `0`. -/
open SymVerif SymVerif.Series

def handle (line : String) : String :=
  match line.splitOn " " with
  | "series" :: rest =>
    match rest.reverse with
    | p :: revE =>
      match p.toNat?, Expr.parse (" ".intercalate revE.reverse) with
      | some prec, some e => resultStr (series e prec)
      | _, _ => "bad-op"
    | [] => "bad-op"
  | "cov" :: rest =>
    match Expr.parse (" ".intercalate rest) with
    | some e => if covered e then "1" else "0"
    | none => "bad-op"
  | _ => "bad-op"

def main : IO Unit := drvMain handle
