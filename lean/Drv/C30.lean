import SymVerif.DrvCommon
import SymVerif.Model.SolveCheck
/-! Driver for C30 (certificate mode): input `op<TAB>implementation output`, output `ok` or a reason.

ops: `poly <dom> <p>`, `rat <dom> <n1> <d1>`, `rat2 <dom> <n1> <d1> <n2> <d2>` — implementation output
`<set dump> @ <dump of the complex solution of the numerator N>`;  `lin|lineq <n> <rows> <b>` — output
`x1,..,xn`;  `trig…`, `trign` — oracle only (`SKIP`). -/
open SymVerif SymVerif.Solve

def parseRatS (s : String) : Option Rat := (Expr.parseRat s).map fun (n, d) => mkRat n d
def parsePoly (s : String) : Option Poly := (s.splitOn ",").mapM parseRatS
def ratStr (r : Rat) : String := if r.den == 1 then toString r.num else s!"{r.num}/{r.den}"

/-- split `a @ b` -/
def splitAux (s : String) : Option (String × String) :=
  match s.splitOn " @ " with
  | [a, b] => some (a, b)
  | _ => none

def dedup (l : List RP) : List RP := l.foldl (fun acc p => if acc.contains p then acc else acc ++ [p]) []

/-- model closed forms vs returned elements, both in canonical prime-atom normal form -/
def modelAgrees (N : Poly) (rs : List RP) : String :=
  match solvePoly N with
  | .roots l =>
    match (l.map surdToRP).mapM canon, rs.mapM canon with
    | some m, some r =>
      let m := dedup m
      let r := dedup r
      if m.all r.contains && r.all m.contains then "ok" else "model-mismatch"
    | _, _ => "ok"   -- atoms too large to factor: certificate only
  | .symbolic _ => "ok"
  | .all => "model-mismatch:all"
  | .cond => "model-mismatch:cond"

/-- model of `solve_rational` on the closed forms: numerator roots minus denominator roots (canonical forms),
    compared with the members of the returned set.  `none` = outside the exactly modelled fragment. -/
def modelRational (real : Bool) (N : Poly) (dens : List Poly) (E : List (RP × Bool)) : String :=
  let denSols := dens.map solvePoly
  match solvePoly N with
  | .roots ln =>
    let ld := denSols.foldl (fun (acc : Option (List Surd)) s =>
      match acc, s with
      | some a, .roots l => some (a ++ l)
      | _, _ => none) (some [])
    match ld with
    | none => "ok"
    | some ld =>
      match (ln.map surdToRP).mapM canon, (ld.map surdToRP).mapM canon, (E.map (·.1)).mapM canon with
      | some cn, some cd, some ce =>
        let expected := dedup (solveRational cn cd)
        -- over the reals keep the elements certified real; give up if some element is undecided
        if real && !(expected.all fun r => isRealRP r || isNonRealRP r) then "ok"
        else
          let expected := if real then expected.filter isRealRP else expected
          let eff := dedup ((ce.zip (E.map (·.2))).filterMap fun (r, flag) =>
            if real && flag && !isRealRP r then none else some r)
          if expected.all eff.contains && eff.all expected.contains then "ok" else "model-mismatch:rational"
      | _, _, _ => "ok"
  | _ => "ok"

def checkSolve (real : Bool) (N D : Poly) (dens : List Poly) (out : String) : String :=
  match splitAux out with
  | none => "impl-error"
  | some (sS, sAux) =>
    match Expr.parse sS, Expr.parse sAux with
    | some eS, some eAux =>
      let N := trim N
      if N.isEmpty then
        -- zero numerator: the whole domain (the generator keeps D constant here)
        match eS with
        | .app "UniversalSet" [] => if real then "zero-poly:domain" else "ok"
        | .app "Reals" [] => if real then "ok" else "zero-poly:domain"
        | _ => "zero-poly:shape"
      else
      match parseSet eS, parseSet eAux with
      | some S, some auxS =>
        let auxEls? : Option (List Expr) := match auxS with | .fin l => some l | .empty => some [] | _ => none
        match auxEls? with
        | none => "set-shape:aux"
        | some auxEls =>
        if N.length == 1 then
          (if auxEls.isEmpty then (match S with | .empty => "ok" | _ => "const-poly:nonempty") else "const-poly:aux")
        else
        -- exact path
        match toRPs auxEls with
        | some rs =>
          if !checkFactor N rs then "cert-failed:factorisation"
          else
            match modelAgrees N rs with
            | "ok" =>
              (match members algRP S false with
               | some E =>
                 let r := compareSets algRP real D rs E
                 if r == "ok" then modelRational real N dens E else r
               | none => "set-shape")
            | s => s
        | none =>
          -- numeric path
          match auxEls.mapM algCx.val with
          | some rs =>
            if !checkRootsNumeric N rs then "numeric:aux-roots"
            else
              (match members algCx S false with
               | some E => let r := compareSets algCx real D rs E
                           if r == "ok" then "ok"
                           -- a root within 1e-6 of a pole cannot be judged in floating point: left to the oracle,
                           -- which works with the exact square-free part and gcd
                           else if r == "undecided-pole" then "SKIP:numeric-undecided-pole"
                           else "numeric:" ++ r
               | none => "set-shape")
          | none => "SKIP:unsupported-element"
      | _, _ => "set-shape"
    | _, _ => "parse-error"

def handleLin (n : Nat) (rowsS bS out : String) : String :=
  let rows := (rowsS.splitOn ";").mapM parsePoly
  match rows, parsePoly bS with
  | some rows, some b =>
    let A : Mat := (rows.map List.toArray).toArray
    match linsolveChecked n A b.toArray, parsePoly out with
    | .ok xm, some x =>
      if xm != x then "model-mismatch:" ++ ",".intercalate (xm.map ratStr)
      else if mulVec A x != b then "residual"
      else "ok"
    -- rank deficient: `throw SymEngineException("Matrix is rank deficient")`
    | .error .singular, none => if out == "E:Runtime" then "ok" else "model-singular:impl=" ++ out
    | .error _, _ => "model-error"
    | .ok _, none => "impl-error"
  | _, _ => "bad-op"

def handle (line : String) : String :=
  match line.splitOn "\t" with
  | [op, out] =>
    -- a trailing `#F7` / `#F8` token marks a known-finding family of the generator; it is not part of the operation
    match (op.splitOn " ").filter (fun t => !t.startsWith "#") with
    | ["poly", dom, p] =>
      match parsePoly p with
      | some N => checkSolve (dom == "R") N [1] [] out
      | none => "bad-op"
    | ["rat", dom, n1, d1] =>
      match parsePoly n1, parsePoly d1 with
      | some N, some D => checkSolve (dom == "R") N (trim D) [D] out
      | _, _ => "bad-op"
    | ["rat2", dom, n1, d1, n2, d2] =>
      match parsePoly n1, parsePoly d1, parsePoly n2, parsePoly d2 with
      | some n1, some d1, some n2, some d2 =>
        checkSolve (dom == "R") (padd (pmul n1 d2) (pmul n2 d1)) (trim (pmul d1 d2)) [d1, d2] out
      | _, _, _, _ => "bad-op"
    | ["lin", n, rows, b] | ["lineq", n, rows, b] =>
      match n.toNat? with
      | some n => handleLin n rows b out
      | none => "bad-op"
    | "trig" :: _ | "trigt" :: _ | "trigR" :: _ | "trign" :: _ => "SKIP:oracle-only"
    | _ => "bad-op"
  | _ => "bad-op"

def main : IO Unit := drvMain handle
